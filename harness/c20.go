package main

import (
	"sort"
	"fmt"
	"math"
	"strconv"
	"strings"
	"time"

	"github.com/pip-services3-gox/pip-services3-expressions-gox/variants"
)

// C20: variants hold what they were given: typed access, copies and equality.

type otherT struct{ x []int } // a host type the variant does not know (and not comparable)

// Go-side value model (independent of the Lean one): a variant is its deep value
type mval struct {
	typ  variants.VariantType
	enc  string // for scalars: the encoding
	elem []*mval
}

func (m *mval) encode() string {
	if m.typ == variants.Array {
		var p []string
		for _, e := range m.elem {
			p = append(p, e.encode())
		}
		return "a[" + strings.Join(p, "/") + "]"
	}
	return m.enc
}

// deep copy (Clone): nothing is shared with the source
func (m *mval) copyv() *mval {
	c := &mval{typ: m.typ, enc: m.enc}
	for _, e := range m.elem {
		c.elem = append(c.elem, e.copyv())
	}
	return c
}

// list-level copy (Assign, SetAsObject(*Variant), SetAsArray): an own list, the element objects
// are the same objects (the documented sharing of the library)
func (m *mval) copyList() *mval {
	c := &mval{typ: m.typ, enc: m.enc}
	c.elem = append(c.elem, m.elem...)
	return c
}

func mvalOf(v *variants.Variant) *mval {
	m := &mval{typ: v.Type(), enc: encVariant(v)}
	if v.Type() == variants.Array {
		for _, e := range v.AsArray() {
			m.elem = append(m.elem, mvalOf(e))
		}
	}
	return m
}

func mnull() *mval { return &mval{typ: variants.Null, enc: "n"} }

func meq(a, b *mval) bool {
	if a.typ != b.typ {
		return false
	}
	if a.typ == variants.Array {
		if len(a.elem) != len(b.elem) {
			return false
		}
		for i := range a.elem {
			if !meq(a.elem[i], b.elem[i]) {
				return false
			}
		}
		return true
	}
	if strings.Contains(a.enc, "NaN") {
		return false
	}
	if a.typ == variants.Float || a.typ == variants.Double {
		// -0 == +0
		za := a.enc == "f80000000" || a.enc == "f00000000" || a.enc == "d8000000000000000" || a.enc == "d0000000000000000"
		zb := b.enc == "f80000000" || b.enc == "f00000000" || b.enc == "d8000000000000000" || b.enc == "d0000000000000000"
		if za && zb {
			return true
		}
	}
	return a.enc == b.enc
}

func runVarCase(c *Ctx, ops []string) {
	op := "var " + strings.Join(ops, " ")
	c.record(op, len(ops) >= 4)
	c.count("var-case")
	var note string
	impl := safeCall(func() string {
		slots := []*variants.Variant{variants.EmptyVariant(), variants.EmptyVariant(), variants.EmptyVariant(), variants.EmptyVariant()}
		model := []*mval{mnull(), mnull(), mnull(), mnull()}
		var callerList []*variants.Variant
		callerSlot := -1
		var outs []string
		idx := func(s string) int { n, _ := strconv.Atoi(s); return n }
		for _, o := range ops {
			p := strings.Split(o, ":")
			out := "-"
			func() {
				defer func() {
					if r := recover(); r != nil {
						out = "panic"
					}
				}()
				switch p[0] {
				case "new":
					k := idx(p[1])
					payload := ""
					if len(p) > 3 {
						payload = p[3]
					}
					var host any
					var want *mval
					switch p[2] {
					case "int":
						n, _ := strconv.ParseInt(payload, 10, 64)
						host, want = int(n), &mval{typ: variants.Integer, enc: "i" + payload}
					case "int32":
						n, _ := strconv.ParseInt(payload, 10, 32)
						host, want = int32(n), &mval{typ: variants.Integer, enc: "i" + payload}
					case "uint":
						n, _ := strconv.ParseUint(payload, 10, 64)
						host, want = uint(n), &mval{typ: variants.Long, enc: "l" + payload}
					case "uint32":
						n, _ := strconv.ParseUint(payload, 10, 32)
						host, want = uint32(n), &mval{typ: variants.Long, enc: "l" + payload}
					case "int64":
						n, _ := strconv.ParseInt(payload, 10, 64)
						host, want = n, &mval{typ: variants.Long, enc: "l" + payload}
					case "var":
						s := idx(payload)
						host, want = slots[s], model[s].copyList()
					case "nil":
						host, want = nil, mnull()
					case "other":
						host, want = otherT{[]int{1}}, &mval{typ: variants.Object, enc: "o"}
					default:
						v := decVariant(payload)
						want = mvalOf(v)
						switch v.Type() {
						case variants.Float:
							host = v.AsFloat()
						case variants.Double:
							host = v.AsDouble()
						case variants.Boolean:
							host = v.AsBoolean()
						case variants.String:
							host = v.AsString()
						case variants.DateTime:
							host = v.AsDateTime()
						case variants.TimeSpan:
							host = v.AsTimeSpan()
						case variants.Array:
							// the caller's own list, with spare capacity (an empty list with capacity is still the caller's)
							callerList = append(make([]*variants.Variant, 0, len(v.AsArray())+8), v.AsArray()...)
							callerSlot = k
							host = callerList
						}
					}
					slots[k] = variants.NewVariant(host)
					model[k] = want
					// accessor round trip: the typed accessor returns the value unchanged
					if encVariant(slots[k]) != want.encode() || slots[k].Type() != want.typ {
						if note == "" {
							note = fmt.Sprintf("NewVariant(%s %s) holds %d/%s, expected %d/%s", p[2], payload, slots[k].Type(), encVariant(slots[k]), want.typ, want.encode())
						}
					}
				case "set":
					k := idx(p[1])
					v := decVariant(p[2])
					switch v.Type() {
					case variants.Null:
						slots[k].Clear()
					case variants.Integer:
						slots[k].SetAsInteger(v.AsInteger())
					case variants.Long:
						slots[k].SetAsLong(v.AsLong())
					case variants.Float:
						slots[k].SetAsFloat(v.AsFloat())
					case variants.Double:
						slots[k].SetAsDouble(v.AsDouble())
					case variants.String:
						slots[k].SetAsString(v.AsString())
					case variants.Boolean:
						slots[k].SetAsBoolean(v.AsBoolean())
					case variants.DateTime:
						slots[k].SetAsDateTime(v.AsDateTime())
					case variants.TimeSpan:
						slots[k].SetAsTimeSpan(v.AsTimeSpan())
					case variants.Array:
						callerList = append(make([]*variants.Variant, 0, len(v.AsArray())+8), v.AsArray()...)
						callerSlot = k
						slots[k].SetAsArray(callerList)
					}
					model[k] = mvalOf(v)
				case "len":
					k := idx(p[1])
					n := idx(p[2])
					slots[k].SetLength(n)
					for len(model[k].elem) < n {
						model[k].elem = append(model[k].elem, mnull())
					}
				case "sidx":
					k := idx(p[1])
					i := idx(p[2])
					e := decVariant(p[3])
					slots[k].SetByIndex(i, e)
					if model[k].typ == variants.Array && i >= 0 {
						for len(model[k].elem) <= i {
							model[k].elem = append(model[k].elem, mnull())
						}
						model[k].elem[i] = mvalOf(e)
					}
				case "midx":
					// mutate an element object in place through the pointer GetByIndex hands out
					k := idx(p[1])
					i := idx(p[2])
					e := decVariant(p[3])
					slots[k].GetByIndex(i).Assign(e)
					if model[k].typ == variants.Array && i >= 0 && i < len(model[k].elem) {
						nv := mvalOf(e)
						*model[k].elem[i] = *nv
					}
				case "mid2":
					// mutate an element of an element in place: a clone must be isolated at every depth
					k := idx(p[1])
					i := idx(p[2])
					j := idx(p[3])
					e := decVariant(p[4])
					slots[k].GetByIndex(i).GetByIndex(j).Assign(e)
					if model[k].typ == variants.Array && i >= 0 && i < len(model[k].elem) {
						in := model[k].elem[i]
						if in.typ == variants.Array && j >= 0 && j < len(in.elem) {
							*in.elem[j] = *mvalOf(e)
						}
					}
				case "gidx":
					k := idx(p[1])
					out = encVariant(slots[k].GetByIndex(idx(p[2])))
				case "asg":
					slots[idx(p[1])].Assign(slots[idx(p[2])])
					if idx(p[1]) != idx(p[2]) {
						model[idx(p[1])] = model[idx(p[2])].copyList()
					}
				case "cln":
					slots[idx(p[1])] = slots[idx(p[2])].Clone()
					model[idx(p[1])] = model[idx(p[2])].copyv()
					if !strings.Contains(model[idx(p[2])].encode(), "NaN") && !slots[idx(p[1])].Equals(slots[idx(p[2])]) && note == "" {
						note = "a clone does not equal its original: " + model[idx(p[2])].encode()
					}
				case "eq":
					a, b := idx(p[1]), idx(p[2])
					r1 := slots[a].Equals(slots[b])
					r2 := slots[b].Equals(slots[a])
					if r1 != r2 && note == "" {
						note = fmt.Sprintf("Equals is not symmetric on %s / %s", model[a].encode(), model[b].encode())
					}
					if r1 != meq(model[a], model[b]) && note == "" {
						note = fmt.Sprintf("Equals(%s, %s) = %v", model[a].encode(), model[b].encode(), r1)
					}
					out = map[bool]string{true: "T", false: "F"}[r1]
				case "clr":
					slots[idx(p[1])].Clear()
					model[idx(p[1])] = mnull()
				case "obs":
					k := idx(p[1])
					out = fmt.Sprintf("%d/%s/%d", slots[k].Type(), encVariant(slots[k]), slots[k].Length())
				case "mut":
					// change the caller's list after it was handed to the variant
					if callerSlot >= 0 {
						if len(callerList) > 0 {
							callerList[0] = variants.VariantFromString("MUTATED")
						}
						// ... and keep using it: appending writes into its spare capacity
						callerList = append(callerList, variants.VariantFromString("APPENDED-BY-THE-CALLER"))
					}
				}
			}()
			outs = append(outs, out)
			// after every step each slot must hold exactly its model value (no aliasing)
			for k := range slots {
				if encVariant(slots[k]) != model[k].encode() && note == "" && out != "panic" {
					note = fmt.Sprintf("after %s slot %d holds %s, the value model says %s", o, k, encVariant(slots[k]), model[k].encode())
				}
			}
		}
		var fin []string
		for _, s := range slots {
			fin = append(fin, encVariant(s))
		}
		return strings.Join(outs, " ") + " | " + strings.Join(fin, " ")
	})
	if strings.HasPrefix(impl, "panic:") {
		c.fail(Failure{Kind: "oracle", Op: op, Impl: impl, Note: "unexpected panic outside the variant calls"})
		return
	}
	if note != "" {
		c.fail(Failure{Kind: "oracle", Op: op, Impl: impl, Note: note})
		return
	}
	c.model(op, impl, "model")
}

// variants handed out by the library (constructors, clones, results of conversions and operators) are the caller's own:
// writing into one of them changes no other variant obtained the same way, before or after
func propOwnVariants(c *Ctx) {
	u := mgrOf("u")
	makers := []struct {
		name string
		mk   func() *variants.Variant
	}{
		{"EmptyVariant()", variants.EmptyVariant},
		{"NewVariant(nil)", func() *variants.Variant { return variants.NewVariant(nil) }},
		{"VariantFromArray(nil)", func() *variants.Variant { return variants.VariantFromArray(nil) }},
		{"VariantFromArray([])", func() *variants.Variant { return variants.VariantFromArray([]*variants.Variant{}) }},
		{"Convert(null, Array)", func() *variants.Variant { r, _ := u.Convert(variants.EmptyVariant(), variants.Array); return r }},
		{"Convert(null, String)", func() *variants.Variant { r, _ := u.Convert(variants.EmptyVariant(), variants.String); return r }},
		{"Convert(null, Integer)", func() *variants.Variant { r, _ := u.Convert(variants.EmptyVariant(), variants.Integer); return r }},
		{"Convert(null, Null)", func() *variants.Variant { r, _ := u.Convert(variants.EmptyVariant(), variants.Null); return r }},
		{"Convert([], Array)", func() *variants.Variant { r, _ := u.Convert(vArr(), variants.Array); return r.Clone() }},
		{"Convert(1, Array)", func() *variants.Variant { r, _ := u.Convert(vInt(1), variants.Array); return r }},
		{"Clone of an empty array", func() *variants.Variant { return vArr().Clone() }},
		{"Add(null, 1)", func() *variants.Variant { r, _ := u.Add(variants.EmptyVariant(), vInt(1)); return r }},
		{"Add([], [])", func() *variants.Variant { r, _ := u.Add(vArr(), vArr()); return r }},
	}
	for _, m := range makers {
		op := "own " + strRunes(m.name)
		c.record(op, true)
		c.count("own-variant-maker")
		note := ""
		st := safeCall(func() string {
			a := m.mk()
			if a == nil {
				return ""
			}
			before := encVariant(a)
			b := m.mk()
			// write into a: as an array (grow, set an element) and as a scalar
			if a.Type() == variants.Array {
				a.SetByIndex(1, vInt(7))
			} else {
				a.SetAsString("\u00a7written")
			}
			if got := encVariant(b); got != before {
				note = fmt.Sprintf("two variants obtained by %s: writing into the first changed the second from %s to %s", m.name, before, got)
			} else if got := encVariant(m.mk()); got != before {
				note = fmt.Sprintf("%s gave %s at first and %s after the caller wrote into the first result", m.name, before, got)
			}
			return ""
		})
		if st != "" || note != "" {
			c.fail(Failure{Kind: "oracle", Op: op, Impl: st, Note: note})
		}
	}
}

// a host value that is none of the supported scalar / list types is held as an Object and handed back UNCHANGED - pointers to
// scalars included (the same pointer, not a copy of what it points to; a typed nil pointer stays one)
func propHostObjects(c *Ctx) {
	i, s, b, f, tm := 7, "x", true, 1.5, time.Unix(5, 0)
	var nilInt *int
	type rec struct{ A int }
	r := &rec{3}
	hosts := []struct {
		name string
		v    any
	}{{"*int", &i}, {"*string", &s}, {"*bool", &b}, {"*float64", &f}, {"*time.Time", &tm}, {"(*int)(nil)", nilInt}, {"*struct", r}, {"struct", rec{4}},
		{"time.Now()", time.Now()}, {"time.Now().Add", time.Now().Add(3 * time.Second)}, {"time in a zone", time.Unix(7, 9).In(time.FixedZone("Z", 3600))},
		{"map", map[string]int{"a": 1}}, {"chan", make(chan int)}, {"[]int", []int{1, 2}}, {"uint8", uint8(9)}, {"complex", complex(1, 2)}}
	for _, h := range hosts {
		hows := []string{"NewVariant", "VariantFromObject", "SetAsObject"}
		if _, isTime := h.v.(time.Time); isTime {
			hows = append(hows, "VariantFromDateTime", "SetAsDateTime")
		}
		for _, how := range hows {
			op := "hostobj " + how + " " + strRunes(h.name)
			c.record(op, true)
			c.count("host-object")
			note := ""
			st := safeCall(func() string {
				var v *variants.Variant
				switch how {
				case "NewVariant":
					v = variants.NewVariant(h.v)
				case "VariantFromObject":
					v = variants.VariantFromObject(h.v)
				case "VariantFromDateTime":
					v = variants.VariantFromDateTime(h.v.(time.Time))
				case "SetAsDateTime":
					v = variants.EmptyVariant()
					v.SetAsDateTime(h.v.(time.Time))
				default:
					v = variants.EmptyVariant()
					v.SetAsObject(h.v)
				}
				if tv, isTime := h.v.(time.Time); isTime {
					// a date-time is handed back UNCHANGED: the same instant, zone and clock readings (== on time.Time)
					if v.Type() != variants.DateTime || v.AsDateTime() != tv {
						note = fmt.Sprintf("%s(%s) reports type %d and hands back %v, it was given %v", how, h.name, v.Type(), v.AsDateTime(), tv)
					}
					return ""
				}
				if v.Type() != variants.Object {
					note = fmt.Sprintf("%s(%s value) reports type %d, not Object", how, h.name, v.Type())
					return ""
				}
				back := v.AsObject()
				same := false
				func() {
					defer func() { recover() }() // uncomparable host values (maps, slices) are compared by their print
					same = back == h.v
				}()
				if !same && fmt.Sprintf("%T %v", back, back) != fmt.Sprintf("%T %v", h.v, h.v) {
					note = fmt.Sprintf("%s(%s value) hands back %T %v, it was given %T %v", how, h.name, back, back, h.v, h.v)
				}
				return ""
			})
			if st != "" || note != "" {
				c.fail(Failure{Kind: "oracle", Op: op, Impl: st, Note: note})
			}
		}
	}
}

// equality is symmetric and never fails, also for arrays that hold nil element pointers or typed-nil payloads
func propEqualsSymmetry(c *Ctx) {
	one := func() *variants.Variant { return variants.VariantFromInteger(1) }
	mk := map[string]func() *variants.Variant{
		"[1,nil]":       func() *variants.Variant { return variants.VariantFromArray([]*variants.Variant{one(), nil}) },
		"[1,null]":      func() *variants.Variant { return variants.VariantFromArray([]*variants.Variant{one(), variants.EmptyVariant()}) },
		"[nil]":         func() *variants.Variant { return variants.VariantFromArray([]*variants.Variant{nil}) },
		"[null]":        func() *variants.Variant { return variants.VariantFromArray([]*variants.Variant{variants.EmptyVariant()}) },
		"[[1,nil]]":     func() *variants.Variant { return variants.VariantFromArray([]*variants.Variant{variants.VariantFromArray([]*variants.Variant{one(), nil})}) },
		"[[1,null]]":    func() *variants.Variant { return variants.VariantFromArray([]*variants.Variant{variants.VariantFromArray([]*variants.Variant{one(), variants.EmptyVariant()})}) },
		"[]":            func() *variants.Variant { return variants.VariantFromArray(nil) },
		"null":          variants.EmptyVariant,
		"[1]":           func() *variants.Variant { return variants.VariantFromArray([]*variants.Variant{one()}) },
		"[1,nil,nil]":   func() *variants.Variant { return variants.VariantFromArray([]*variants.Variant{one(), nil, nil}) },
		"[1,null,nil]":  func() *variants.Variant { return variants.VariantFromArray([]*variants.Variant{one(), variants.EmptyVariant(), nil}) },
	}
	var names []string
	for k := range mk {
		names = append(names, k)
	}
	sort.Strings(names)
	for _, x := range names {
		for _, y := range names {
			op := "eqsym " + strRunes(x) + " " + strRunes(y)
			c.record(op, x != y)
			c.count("equality-symmetry")
			note := ""
			st := safeCall(func() string {
				a, b := mk[x](), mk[y]()
				ab, ba := a.Equals(b), b.Equals(a)
				if ab != ba {
					note = fmt.Sprintf("%s.Equals(%s) = %v but %s.Equals(%s) = %v", x, y, ab, y, x, ba)
				} else if x == y && !ab {
					note = fmt.Sprintf("two variants built the same way (%s) are not equal", x)
				}
				return ""
			})
			if st != "" || note != "" {
				c.fail(Failure{Kind: "oracle", Op: op, Impl: st, Note: note + st})
			}
		}
	}
}

func propC20(c *Ctx) {
	propScaleVariants(c)
	propEqualsSymmetry(c)
	propOwnVariants(c)
	propHostObjects(c)
	scalars := []string{"n", "i0", "i-5", "i9223372036854775807", "l7", "l-9223372036854775808", "f3fc00000", "fNaN", "f80000000", "f00000000",
		"d3ff8000000000000", "dNaN", "d0000000000000000", "s", "s97.98", "s233", "b1", "b0", "t0.0", "t1600000000.500", "p1500000000", "p0"}
	arrays := []string{"a[]", "a[i1/i2]", "a[a[i1/i2]/a[s97]]", "a[s97/n/b1]", "a[a[i1]/i2]", "a[d3ff8000000000000]", "a[f80000000/d0000000000000000]"}
	newKinds := func() string {
		switch c.Rng.Intn(14) {
		case 0:
			return fmt.Sprintf("int:%d", c.Rng.Int63()-c.Rng.Int63())
		case 1:
			return fmt.Sprintf("int32:%d", int32(c.Rng.Uint32()))
		case 2:
			return fmt.Sprintf("uint:%d", c.Rng.Int63())
		case 3:
			return fmt.Sprintf("uint32:%d", c.Rng.Uint32())
		case 4:
			return fmt.Sprintf("int64:%d", []int64{0, -1, math.MaxInt64, math.MinInt64, 42}[c.Rng.Intn(5)])
		case 5:
			return "nil"
		case 6:
			return "other"
		case 7, 8:
			return fmt.Sprintf("var:%d", c.Rng.Intn(4))
		case 9, 10:
			return "list:" + arrays[c.Rng.Intn(len(arrays))]
		default:
			s := scalars[1+c.Rng.Intn(len(scalars)-1)]
			for s[0] == 'i' || s[0] == 'l' {
				s = scalars[1+c.Rng.Intn(len(scalars)-1)]
			}
			return "val:" + s
		}
	}
	n := 4000
	if c.Thorough {
		n = 100000
	}
	for i := 0; i < n; i++ {
		m := 2 + c.Rng.Intn(11)
		ops := make([]string, m)
		for j := range ops {
			k := c.Rng.Intn(4)
			switch c.Rng.Intn(13) {
			case 0, 1:
				ops[j] = fmt.Sprintf("new:%d:%s", k, newKinds())
			case 2:
				if c.Rng.Intn(2) == 0 {
					ops[j] = fmt.Sprintf("set:%d:%s", k, scalars[c.Rng.Intn(len(scalars))])
				} else {
					ops[j] = fmt.Sprintf("set:%d:%s", k, arrays[c.Rng.Intn(len(arrays))])
				}
			case 3:
				ops[j] = fmt.Sprintf("len:%d:%d", k, c.Rng.Intn(6))
			case 4, 5:
				e := scalars[c.Rng.Intn(len(scalars))]
				for strings.Contains(e, "NaN") {
					// NaN inside arrays is outside the property (NaN equals nothing; shared element
					// pointers make Equals answer true) - scalars keep their NaN cases
					e = scalars[c.Rng.Intn(len(scalars))]
				}
				if c.Rng.Intn(4) == 0 {
					e = arrays[c.Rng.Intn(len(arrays))]
				}
				ops[j] = fmt.Sprintf("sidx:%d:%d:%s", k, c.Rng.Intn(7)-1, e)
			case 6:
				if c.Rng.Intn(2) == 0 {
					e := scalars[c.Rng.Intn(len(scalars))]
					for strings.Contains(e, "NaN") {
						e = scalars[c.Rng.Intn(len(scalars))]
					}
					if c.Rng.Intn(3) == 0 {
						ops[j] = fmt.Sprintf("mid2:%d:%d:%d:%s", k, c.Rng.Intn(3), c.Rng.Intn(3), e)
					} else {
						ops[j] = fmt.Sprintf("midx:%d:%d:%s", k, c.Rng.Intn(5), e)
					}
				} else {
					ops[j] = fmt.Sprintf("gidx:%d:%d", k, c.Rng.Intn(6)-1)
				}
			case 7:
				ops[j] = fmt.Sprintf("asg:%d:%d", k, c.Rng.Intn(4))
			case 8, 9:
				ops[j] = fmt.Sprintf("cln:%d:%d", k, c.Rng.Intn(4))
			case 10:
				ops[j] = fmt.Sprintf("eq:%d:%d", k, c.Rng.Intn(4))
			case 11:
				ops[j] = fmt.Sprintf("mut:%d", k)
			default:
				ops[j] = fmt.Sprintf("obs:%d", k)
			}
		}
		runVarCase(c, ops)
	}
	// the caller keeps using an EMPTY list (with capacity) it handed over
	runVarCase(c, []string{"set:0:a[]", "sidx:0:0:i5", "mut:0", "obs:0", "sidx:0:1:i6", "mut:0", "obs:0"})
	runVarCase(c, []string{"new:1:list:a[]", "sidx:1:1:s97", "mut:1", "obs:1", "len:1:4", "mut:1", "obs:1"})
	// the D26 / D27 patterns, always
	runVarCase(c, []string{"set:0:a[i1/i2]", "cln:1:0", "sidx:1:0:i9", "obs:0", "eq:0:1"})
	runVarCase(c, []string{"set:0:a[i1/i2]", "set:1:a[i1/i2]", "eq:0:1", "asg:2:0", "sidx:2:1:s97", "obs:0", "len:2:5", "obs:0"})
	runVarCase(c, []string{"new:0:list:a[i1/i2]", "mut:0", "obs:0", "new:1:var:0", "sidx:1:0:n", "obs:0"})
	// in-place mutation of elements: a clone is isolated, padding cells are fresh objects
	runVarCase(c, []string{"set:0:a[i1/i2]", "cln:1:0", "midx:1:0:i9", "obs:0", "obs:1"})
	runVarCase(c, []string{"set:0:a[i1]", "sidx:0:3:i5", "midx:0:1:i7", "obs:0", "set:1:a[]", "sidx:1:2:b1", "obs:1"})
	runVarCase(c, []string{"set:0:a[a[i1]/i2]", "cln:1:0", "gidx:1:0", "midx:1:1:s97", "eq:0:1", "obs:0"})
	// ... at every depth
	runVarCase(c, []string{"set:0:a[a[i1/i2]/i3]", "cln:1:0", "mid2:1:0:0:s99", "obs:0", "obs:1", "eq:0:1"})
	runVarCase(c, []string{"set:0:a[a[a[i1]]/i3]", "cln:1:0", "cln:2:1", "mid2:2:0:0:i5", "obs:0", "obs:1", "obs:2"})
	// D30 (known finding): an unsigned host value above MaxInt64 does not fit the Long it is mapped to
	runVarCase(c, []string{"new:0:uint:18446744073709551615", "obs:0"})
	runVarCase(c, []string{"new:0:uint:9223372036854775808", "obs:0"})
	c.Notes = append(c.Notes, fmt.Sprintf("%d random operation sequences (2..12 operations) over four variants: construction from every host type (int, int32, uint, uint32, int64, float32, float64, bool, string, time.Time, time.Duration, []*Variant, *Variant, nil, an unknown struct), typed setters, SetLength, SetByIndex incl. indexes past the end and -1, GetByIndex, Assign, Clone, Equals (both directions), Clear, and mutation of the caller's list after SetAsArray/NewVariant; after every operation every variant is compared with a Go-side deep value model (detects aliasing), the whole trace with the Lean value model. Values include NaN, -0, extreme integers, empty and nested arrays.", n))
	_ = time.Now
}

func replayC20(c *Ctx, op string) {
	if strings.HasPrefix(op, "eqsym ") {
		propEqualsSymmetry(c)
		return
	}
	if strings.HasPrefix(op, "hostobj ") {
		propHostObjects(c)
		return
	}
	if strings.HasPrefix(op, "own ") {
		propOwnVariants(c)
		return
	}
	f := strings.Fields(op)
	if f[0] == "var" {
		runVarCase(c, f[1:])
	}
}

func init() {
	props["C20"] = propC20
	replays["C20"] = replayC20
}
