/-
C15 for all four built-in tokenizers: the generic development (Props/C15.lean: generic, expression, csv)
and the mustache tokenizer with its mode-alternating override (Props/MustacheTok.lean).
-/
import Verif.Props.C15
import Verif.Props.MustacheTok
import Verif.Props.CfgTok
