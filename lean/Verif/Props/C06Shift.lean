import Verif.Props.C06

/-!
Arithmetic meaning of the shift model functions `shl64` / `shr64` for EVERY non-negative count.

Division: `/` on `Int` in Lean 4 core is `Int.div` = `Int.ediv` (Euclidean division); for a positive
divisor (here `2 ^ k`) it is the floor, also for a negative dividend (`-1 / 2 = -1`, `-3 / 2 = -2`).
`shr64_toInt` is stated with `/`; `shr64_toInt_fdiv` restates it with `Int.fdiv` explicitly.
-/

namespace Verif

/-- a count in `[0, 64)` is left unchanged by the `smod 64` the machine shift applies -/
theorem smod64_of_small (n : Int64) (h0 : 0 ≤ n.toInt) (h1 : n.toInt < 64) :
    n.toBitVec.smod 64 = n.toBitVec := by
  apply BitVec.eq_of_toInt_eq
  rw [BitVec.toInt_smod]
  have h64 : (64 : BitVec 64).toInt = 64 := by decide
  rw [h64]
  have hn : n.toBitVec.toInt = n.toInt := rfl
  rw [hn, Int.fmod_eq_emod_of_nonneg _ (by omega)]
  omega

/-- the natural-number value of a non-negative count -/
theorem toNat_of_nonneg (n : Int64) (h0 : 0 ≤ n.toInt) : n.toBitVec.toNat = n.toInt.toNat := by
  have hn : n.toBitVec.toInt = n.toInt := rfl
  have hm : n.toBitVec.msb = false := by
    rw [BitVec.msb_eq_toInt, hn]; simp; omega
  have := BitVec.toInt_eq_toNat_of_msb hm
  omega

theorem int64_toInt_lt (x : Int64) : x.toInt < 2 ^ 63 := x.toInt_lt
theorem int64_le_toInt (x : Int64) : -2 ^ 63 ≤ x.toInt := x.le_toInt

theorem toInt_zero64 : (0 : Int64).toInt = 0 := by decide
theorem toInt_negOne64 : (-1 : Int64).toInt = -1 := by decide

/-- 1. left shift = multiplication by `2 ^ n`, wrapped to 64 bits; for every non-negative count -/
theorem shl64_toInt (x n : Int64) (hn : 0 ≤ n.toInt) :
    (shl64 x n).toInt = Int.bmod (x.toInt * 2 ^ n.toInt.toNat) (2 ^ 64) := by
  unfold shl64
  by_cases h : n.toInt ≥ 64
  · rw [if_pos h, toInt_zero64]
    -- 2^64 ∣ x * 2^k for k ≥ 64
    have hk : n.toInt.toNat = 64 + (n.toInt.toNat - 64) := by omega
    rw [hk, Int.pow_add, ← Int.mul_assoc, Int.mul_right_comm]
    have : ((2 : Int) ^ 64) = ((2 ^ 64 : Nat) : Int) := by decide
    rw [this, Int.mul_bmod_left]
  · rw [if_neg h]
    have h1 : n.toInt < 64 := by omega
    show (x <<< n).toBitVec.toInt = _
    rw [Int64.toBitVec_shiftLeft, smod64_of_small n hn h1, BitVec.shiftLeft_eq',
      BitVec.toInt_shiftLeft, toNat_of_nonneg n hn, Nat.shiftLeft_eq, Int.natCast_mul, Int.natCast_pow]
    have hx : x.toInt = Int.bmod x.toBitVec.toNat (2 ^ 64) := BitVec.toInt_eq_toNat_bmod x.toBitVec
    rw [hx, Int.bmod_mul_bmod]
    rfl

/-- machine right shift for a count in `[0, 64)` -/
theorem shiftRight_toInt_small (x n : Int64) (hn : 0 ≤ n.toInt) (h1 : n.toInt < 64) :
    (x >>> n).toInt = x.toInt / 2 ^ n.toInt.toNat := by
  show (x >>> n).toBitVec.toInt = _
  rw [Int64.toBitVec_shiftRight, smod64_of_small n hn h1, BitVec.toInt_sshiftRight',
    toNat_of_nonneg n hn, Int.shiftRight_eq_div_pow]
  have : x.toBitVec.toInt = x.toInt := rfl
  rw [this]
  simp

/-- 2. arithmetic right shift = floor division by `2 ^ n`, for every non-negative count
(`/` on `Int` is `Int.ediv`, which is the floor for the positive divisor `2 ^ n`) -/
theorem shr64_toInt (x n : Int64) (hn : 0 ≤ n.toInt) :
    (shr64 x n).toInt = x.toInt / 2 ^ n.toInt.toNat := by
  unfold shr64
  by_cases h : n.toInt ≥ 64
  · rw [if_pos h]
    have hlt := int64_toInt_lt x
    have hle := int64_le_toInt x
    have hk : n.toInt.toNat = 63 + (n.toInt.toNat - 63) := by omega
    have hp : (0 : Int) < 2 ^ (n.toInt.toNat - 63) := Int.pow_pos (by decide)
    have hp1 : (2 : Int) ^ (n.toInt.toNat - 63) = 2 * 2 ^ (n.toInt.toNat - 64) := by
      have : n.toInt.toNat - 63 = (n.toInt.toNat - 64) + 1 := by omega
      rw [this, Int.pow_succ, Int.mul_comm]
    have hq : (0 : Int) < 2 ^ (n.toInt.toNat - 64) := Int.pow_pos (by decide)
    have hbig : (2 : Int) ^ 63 * 2 ≤ 2 ^ n.toInt.toNat := by
      rw [hk, Int.pow_add, hp1]
      have : (2 : Int) ^ 63 * 2 * 1 ≤ 2 ^ 63 * 2 * 2 ^ (n.toInt.toNat - 64) :=
        Int.mul_le_mul_of_nonneg_left (by omega) (by decide)
      rw [Int.mul_one] at this
      rw [← Int.mul_assoc]; exact this
    have hpos : (0 : Int) < 2 ^ n.toInt.toNat := Int.pow_pos (by decide)
    by_cases hx : x.toInt < 0
    · rw [if_pos hx, toInt_negOne64]
      have := (Int.ediv_emod_unique (a := x.toInt) (q := -1) (r := x.toInt + 2 ^ n.toInt.toNat) hpos).2
        ⟨by omega, by omega, by omega⟩
      exact this.1.symm
    · rw [if_neg hx, toInt_zero64]
      symm
      apply Int.ediv_eq_zero_of_lt (by omega)
      omega
  · rw [if_neg h]
    exact shiftRight_toInt_small x n hn (by omega)

/-- the same with floor division named explicitly (`Int.fdiv` and `/` agree for a divisor ≥ 0) -/
theorem shr64_toInt_fdiv (x n : Int64) (hn : 0 ≤ n.toInt) :
    (shr64 x n).toInt = Int.fdiv x.toInt (2 ^ n.toInt.toNat) := by
  rw [shr64_toInt x n hn, Int.fdiv_eq_ediv_of_nonneg]
  exact Int.le_of_lt (Int.pow_pos (by decide))

/-- division-free reading of `shr64_toInt`: the result `r` is THE floor,
`r * 2^n ≤ x < (r + 1) * 2^n` -/
theorem shr64_floor (x n : Int64) (hn : 0 ≤ n.toInt) :
    (shr64 x n).toInt * 2 ^ n.toInt.toNat ≤ x.toInt ∧
    x.toInt < ((shr64 x n).toInt + 1) * 2 ^ n.toInt.toNat := by
  rw [shr64_toInt x n hn]
  have hpos : (0 : Int) < 2 ^ n.toInt.toNat := Int.pow_pos (by decide)
  have h1 := Int.emod_nonneg x.toInt (Int.ne_of_gt hpos)
  have h2 := Int.emod_lt_of_pos x.toInt hpos
  have h3 := Int.ediv_mul_add_emod x.toInt (2 ^ n.toInt.toNat)
  generalize x.toInt / 2 ^ n.toInt.toNat = q at *
  generalize x.toInt % 2 ^ n.toInt.toNat = r at *
  generalize (2 : Int) ^ n.toInt.toNat = p at *
  rw [Int.add_mul, Int.one_mul]
  generalize q * p = qp at *
  omega

/-- 3. corollaries -/
theorem shl64_out (x n : Int64) (h : 64 ≤ n.toInt) : shl64 x n = 0 := by
  unfold shl64; rw [if_pos h]

theorem shr64_out (x n : Int64) (h : 64 ≤ n.toInt) :
    shr64 x n = if x.toInt < 0 then -1 else 0 := by
  unfold shr64; rw [if_pos h]

theorem shr64_sign (x n : Int64) (hn : 0 ≤ n.toInt) :
    ((shr64 x n).toInt < 0 ↔ x.toInt < 0) := by
  rw [shr64_toInt x n hn]
  have hpos : (0 : Int) < 2 ^ n.toInt.toNat := Int.pow_pos (by decide)
  have := Int.ediv_nonneg_iff_of_pos (a := x.toInt) hpos
  omega

/-- a zero count leaves the operand unchanged -/
theorem shl64_zero (x : Int64) : shl64 x 0 = x := by
  apply Int64.toInt_inj.1
  rw [shl64_toInt x 0 (by decide)]
  have h0 : (0 : Int64).toInt.toNat = 0 := by decide
  rw [h0, Int.pow_zero, Int.mul_one]
  have := int64_toInt_lt x
  have := int64_le_toInt x
  apply Int.bmod_eq_of_le <;> omega

theorem shr64_zero (x : Int64) : shr64 x 0 = x := by
  apply Int64.toInt_inj.1
  rw [shr64_toInt x 0 (by decide)]
  have h0 : (0 : Int64).toInt.toNat = 0 := by decide
  rw [h0, Int.pow_zero, Int.ediv_one]

/-- `¬ n < 0` on `Int64` is `0 ≤ n.toInt` -/
theorem nonneg_of_not_lt (n : Int64) (hn : ¬ n < 0) : 0 ≤ n.toInt := by
  have : ¬ n.toInt < (0 : Int64).toInt := fun h => hn (Int64.lt_iff_toInt_lt.2 h)
  rw [toInt_zero64] at this
  omega

/-- 4. the operator: `>>` on a Long / Integer with a non-negative Integer count is floor division
by `2 ^ n`, for every such count, under both managers -/
theorem C06_shift_meaning (m : Mgr) (x n : Int64) (hn : ¬ n < 0) :
    (∃ r, binop m .rsh (.long x) (.int n) = .ok (.long r) ∧
      r.toInt = x.toInt / 2 ^ n.toInt.toNat) ∧
    (∃ r, binop m .rsh (.int x) (.int n) = .ok (.int r) ∧
      r.toInt = x.toInt / 2 ^ n.toInt.toNat) ∧
    (∃ r, binop m .lsh (.long x) (.int n) = .ok (.long r) ∧
      r.toInt = Int.bmod (x.toInt * 2 ^ n.toInt.toNat) (2 ^ 64)) ∧
    (∃ r, binop m .lsh (.int x) (.int n) = .ok (.int r) ∧
      r.toInt = Int.bmod (x.toInt * 2 ^ n.toInt.toNat) (2 ^ 64)) := by
  have h0 := nonneg_of_not_lt n hn
  obtain ⟨h1, h2, h3, h4⟩ := C06_shift_defined m x n hn
  exact ⟨⟨_, h4, shr64_toInt x n h0⟩, ⟨_, h2, shr64_toInt x n h0⟩,
    ⟨_, h3, shl64_toInt x n h0⟩, ⟨_, h1, shl64_toInt x n h0⟩⟩

/-- counts of 64 and more through the operator: `<<` gives 0, `>>` gives the sign (0 or -1) -/
theorem C06_shift_out_of_width (m : Mgr) (x n : Int64) (h : 64 ≤ n.toInt) :
    binop m .lsh (.long x) (.int n) = .ok (.long 0) ∧
    binop m .lsh (.int x) (.int n) = .ok (.int 0) ∧
    binop m .rsh (.long x) (.int n) = .ok (.long (if x.toInt < 0 then -1 else 0)) ∧
    binop m .rsh (.int x) (.int n) = .ok (.int (if x.toInt < 0 then -1 else 0)) := by
  have hn : ¬ n < 0 := by
    intro hlt
    have := Int64.lt_iff_toInt_lt.1 hlt
    rw [toInt_zero64] at this
    omega
  obtain ⟨h1, h2, h3, h4⟩ := C06_shift_defined m x n hn
  rw [shl64_out x n h] at h1 h3
  rw [shr64_out x n h] at h2 h4
  exact ⟨h3, h1, h4, h2⟩

/-- the sign of `>>` through the operator -/
theorem C06_rsh_sign (m : Mgr) (x n : Int64) (hn : ¬ n < 0) :
    ∃ r, binop m .rsh (.long x) (.int n) = .ok (.long r) ∧ (r.toInt < 0 ↔ x.toInt < 0) :=
  ⟨_, (C06_shift_defined m x n hn).2.2.2, shr64_sign x n (nonneg_of_not_lt n hn)⟩

end Verif
