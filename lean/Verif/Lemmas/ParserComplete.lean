/-
Completeness of the expression parser model w.r.t. the grammar SPEC (Verif/Spec/ExprGrammar.lean):
a well-levelled syntax tree `t`, written out as `unparse t` and followed by a remainder on which
the pending loops stop, is consumed exactly and compiled to `postorder t`; the variable list is
extended by `varOcc t` (left to right, without repetitions).
-/
import Verif.Lemmas.ParserEqns
import Verif.Lemmas.ParserFuel

namespace Verif
open Parser Expr
variable {κ : Type}

namespace Complete

/-! ## "for all large enough fuel" -/

/-- `g` returns `R` for every fuel from some bound on -/
def Ev {α : Type} (g : Nat → Except PErr α) (R : Except PErr α) : Prop :=
  ∃ f0, ∀ f, f0 ≤ f → g f = R

theorem Ev.const {α : Type} (R : Except PErr α) : Ev (fun _ => R) R := ⟨0, fun _ _ => rfl⟩

theorem Ev.const_inv {α : Type} {r R : Except PErr α} (h : Ev (fun _ => r) R) : r = R := by
  obtain ⟨f0, H⟩ := h
  exact H f0 (Nat.le_refl _)

theorem Ev.of_succ {α : Type} {g h : Nat → Except PErr α} {R : Except PErr α}
    (hs : ∀ f, g (f+1) = h f) (H : Ev h R) : Ev g R := by
  obtain ⟨f0, H⟩ := H
  refine ⟨f0 + 1, fun f hf => ?_⟩
  obtain ⟨f', rfl⟩ : ∃ f', f = f' + 1 := ⟨f - 1, by omega⟩
  rw [hs]; exact H f' (by omega)

theorem Ev.andThen {α β : Type} {a : Nat → Except PErr α} {k : Nat → α → Except PErr β} {x : α}
    {R : Except PErr β} (ha : Ev a (.ok x)) (hk : Ev (fun f => k f x) R) :
    Ev (fun f => Parser.andThen (a f) (k f)) R := by
  obtain ⟨f1, H1⟩ := ha
  obtain ⟨f2, H2⟩ := hk
  refine ⟨max f1 f2, fun f hf => ?_⟩
  have h1 := H1 f (by omega)
  have h2 := H2 f (by omega)
  simp only [h1, andThen_ok]; exact h2

/-! ## variables -/

theorem addVars_append (vars : List (List Rune)) (a b : List (List Rune)) :
    addVars vars (a ++ b) = addVars (addVars vars a) b := by
  induction a generalizing vars with
  | nil => rfl
  | cons n ns ih => simp only [List.cons_append, addVars, ih]

@[simp] theorem addVars_nil (vars : List (List Rune)) : addVars vars [] = vars := rfl
@[simp] theorem addVars_single (vars : List (List Rune)) (n : List Rune) :
    addVars vars [n] = addVar vars n := rfl

/-! ## levels -/

/-- the parser function of level `k` (levels 6, 7 and 8 of the grammar are all handled by `p6`) -/
def pL : Nat → Nat → PState κ → PRes κ
  | 0 => p0 | 1 => p1 | 2 => p2 | 3 => p3 | 4 => p4 | 5 => p5 | _ => p6

/-- the loop that is pending after an operand of level `k` (levels 1 and 6 have none) -/
def loopL : Nat → Nat → PState κ → PRes κ
  | 0 => p0loop | 2 => p2loop | 3 => p3loop | 4 => p4loop | 5 => p5loop
  | _ => fun _ st => .ok st

/-- `halts k rest`: no loop of a level `≥ k` fires on `rest`, no index suffix and no call
parenthesis starts there ("`rest` does not extend a complete operand of level `k`") -/
def halts (k : Nat) : List (ETok κ) → Bool
  | [] => true
  | t :: tl =>
    t.typ != .leftBrace && t.typ != .leftSquareBrace
    && (decide (5 < k) || !ops5.contains t.typ)
    && (decide (4 < k) || !ops4.contains t.typ)
    && (decide (3 < k) ||
        (!ops3.contains t.typ
          && (matchTypes [.not, .like] (t :: tl)).isNone
          && (matchTypes [.is, .null] (t :: tl)).isNone
          && (matchTypes [.is, .not, .null] (t :: tl)).isNone
          && (matchTypes [.not, .in_] (t :: tl)).isNone))
    && (decide (2 < k) || !ops2.contains t.typ)
    && (decide (0 < k) || !ops0.contains t.typ)

/-- the task's formulation: no loop of a level `> j` fires -/
abbrev stops (j : Nat) (rest : List (ETok κ)) : Bool := halts (j + 1) rest

theorem halts_nil (k : Nat) : halts k ([] : List (ETok κ)) = true := rfl

theorem halts_mono {k k' : Nat} (hk : k ≤ k') {rest : List (ETok κ)} (h : halts k rest = true) :
    halts k' rest = true := by
  cases rest with
  | nil => rfl
  | cons t tl =>
    simp only [halts, Bool.and_eq_true, Bool.or_eq_true, decide_eq_true_eq] at h ⊢
    obtain ⟨⟨⟨⟨⟨⟨h1, h2⟩, h5⟩, h4⟩, h3⟩, h2'⟩, h0⟩ := h
    refine ⟨⟨⟨⟨⟨⟨h1, h2⟩, ?_⟩, ?_⟩, ?_⟩, ?_⟩, ?_⟩
    · rcases h5 with h | h
      · left; omega
      · right; exact h
    · rcases h4 with h | h
      · left; omega
      · right; exact h
    · rcases h3 with h | h
      · left; omega
      · right; exact h
    · rcases h2' with h | h
      · left; omega
      · right; exact h
    · rcases h0 with h | h
      · left; omega
      · right; exact h

/-- no call parenthesis follows -/
def noParen (rest : List (ETok κ)) : Prop := rest.head?.map (·.typ) ≠ some ET.leftBrace

theorem halts_noParen {k : Nat} {rest : List (ETok κ)} (h : halts k rest = true) : noParen rest := by
  cases rest with
  | nil => simp [noParen]
  | cons t tl =>
    simp only [halts, Bool.and_eq_true] at h
    have := h.1.1.1.1.1.1
    simpa [noParen] using this

theorem halts_noSquare {k : Nat} {t : ETok κ} {tl : List (ETok κ)} (h : halts k (t :: tl) = true) :
    t.typ ≠ .leftSquareBrace := by
  simp only [halts, Bool.and_eq_true] at h
  have := h.1.1.1.1.1.2
  simpa using this

theorem p3extra_halts {t : ETok κ} {tl out : List (ETok κ)} {vars : List (List Rune)} (f : Nat)
    (h1 : (matchTypes [.not, .like] (t :: tl)).isNone = true)
    (h2 : (matchTypes [.is, .null] (t :: tl)).isNone = true)
    (h3 : (matchTypes [.is, .not, .null] (t :: tl)).isNone = true)
    (h4 : (matchTypes [.not, .in_] (t :: tl)).isNone = true) :
    p3extra f ⟨t :: tl, out, vars⟩ = .ok ⟨t :: tl, out, vars⟩ := by
  rw [Option.isNone_iff_eq_none] at h1 h2 h3 h4
  simp only [p3extra, h1, h2, h3, h4]

/-- a loop whose level is `≥ k` stops on a remainder with `halts k` -/
theorem loopL_halts {k : Nat} {rest : List (ETok κ)} (h : halts k rest = true) (j : Nat) (hj : k ≤ j)
    (f : Nat) (out : List (ETok κ)) (vars : List (List Rune)) :
    loopL j (f+1) ⟨rest, out, vars⟩ = .ok ⟨rest, out, vars⟩ := by
  have h := halts_mono hj h
  cases rest with
  | nil =>
    rcases j with _|_|_|_|_|_|_ <;> simp [loopL, p0loop_succ, p2loop_succ, p3loop_succ, p4loop_succ, p5loop_succ]
  | cons t tl =>
    simp only [halts, Bool.and_eq_true, Bool.or_eq_true, decide_eq_true_eq, Bool.not_eq_true'] at h
    obtain ⟨⟨⟨⟨⟨⟨h1, h2⟩, h5⟩, h4⟩, h3⟩, h2'⟩, h0⟩ := h
    rcases j with _|_|_|_|_|_|_
    · have : ops0.contains t.typ = false := h0.resolve_left (by omega)
      simp only [loopL, p0loop_succ, this, Bool.false_eq_true, if_false]
    · rfl
    · have : ops2.contains t.typ = false := h2'.resolve_left (by omega)
      simp only [loopL, p2loop_succ, this, Bool.false_eq_true, if_false]
    · have h3 : _ := h3.resolve_left (by omega)
      simp only [loopL, p3loop_succ, h3.1.1.1.1, Bool.false_eq_true, if_false]
      exact p3extra_halts f h3.1.1.1.2 h3.1.1.2 h3.1.2 h3.2
    · have : ops4.contains t.typ = false := h4.resolve_left (by omega)
      simp only [loopL, p4loop_succ, this, Bool.false_eq_true, if_false]
    · have : ops5.contains t.typ = false := h5.resolve_left (by omega)
      simp only [loopL, p5loop_succ, this, Bool.false_eq_true, if_false]
    · rfl

theorem pL_succ {k : Nat} (hk : k = 0 ∨ k = 2 ∨ k = 3 ∨ k = 4 ∨ k = 5) (f : Nat) (st : PState κ) :
    pL k (f+1) st =
      if st.rest.isEmpty then .error .unexpectedEnd else andThen (pL (k+1) f st) (loopL k f) := by
  rcases hk with rfl | rfl | rfl | rfl | rfl
  · exact p0_succ f st
  · exact p2_succ f st
  · exact p3_succ f st
  · exact p4_succ f st
  · exact p5_succ f st

theorem opLevel_cases {op : ET} {m : Nat} (h : opLevel op = some m) :
    (m = 0 ∧ ops0.contains op = true) ∨ (m = 2 ∧ ops2.contains op = true) ∨
    (m = 3 ∧ ops3.contains op = true) ∨ (m = 4 ∧ ops4.contains op = true) ∨
    (m = 5 ∧ ops5.contains op = true) := by
  unfold opLevel at h
  split at h
  · left; exact ⟨by injection h with h; exact h.symm, by assumption⟩
  split at h
  · right; left; exact ⟨by injection h with h; exact h.symm, by assumption⟩
  split at h
  · right; right; left; exact ⟨by injection h with h; exact h.symm, by assumption⟩
  split at h
  · right; right; right; left; exact ⟨by injection h with h; exact h.symm, by assumption⟩
  split at h
  · right; right; right; right; exact ⟨by injection h with h; exact h.symm, by assumption⟩
  · cases h

theorem opLevel_loop {op : ET} {m : Nat} (h : opLevel op = some m) :
    m = 0 ∨ m = 2 ∨ m = 3 ∨ m = 4 ∨ m = 5 := by
  rcases opLevel_cases h with h | h | h | h | h
  · exact Or.inl h.1
  · exact Or.inr (Or.inl h.1)
  · exact Or.inr (Or.inr (Or.inl h.1))
  · exact Or.inr (Or.inr (Or.inr (Or.inl h.1)))
  · exact Or.inr (Or.inr (Or.inr (Or.inr h.1)))

/-- the level-`m` loop fires on an operator of level `m` -/
theorem loopL_fire {op : ET} {m : Nat} (h : opLevel op = some m) (f : Nat) (X out : List (ETok κ))
    (vars : List (List Rune)) :
    loopL m (f+1) ⟨tk op :: X, out, vars⟩ =
      andThen (pL (m+1) f ⟨X, out, vars⟩) (fun st1 => loopL m f (emit st1 op)) := by
  rcases opLevel_cases h with ⟨rfl, hc⟩ | ⟨rfl, hc⟩ | ⟨rfl, hc⟩ | ⟨rfl, hc⟩ | ⟨rfl, hc⟩
  · simp only [loopL, pL, Nat.reduceAdd, p0loop_succ, tk, hc, if_true]
  · simp only [loopL, pL, Nat.reduceAdd, p2loop_succ, tk, hc, if_true]
  · simp only [loopL, pL, Nat.reduceAdd, p3loop_succ, tk, hc, if_true]
  · simp only [loopL, pL, Nat.reduceAdd, p4loop_succ, tk, hc, if_true]
  · simp only [loopL, pL, Nat.reduceAdd, p5loop_succ, tk, hc, if_true]

/-- after an operator of level `m` only loops of level `≤ m` can fire -/
theorem halts_op {op : ET} {m : Nat} (h : opLevel op = some m) (tl : List (ETok κ)) :
    halts (m+1) (tk op :: tl) = true := by
  cases op <;> simp [opLevel, ops0, ops2, ops3, ops4, ops5] at h <;> subst h <;>
    simp [halts, tk, ops0, ops2, ops3, ops4, ops5, matchTypes_head_ne]

/-! ## the first token of a sentence -/

theorem wl_bin {op : ET} {l r : Expr κ} (h : wl (.bin op l r) = true) :
    ∃ m, opLevel op = some m ∧ wl l = true ∧ wl r = true ∧ m ≤ lvl l ∧ m + 1 ≤ lvl r := by
  rw [wl] at h
  split at h
  · rename_i k hk
    simp only [Bool.and_eq_true, decide_eq_true_eq, ge_iff_le] at h
    exact ⟨k, hk, h.1.1.1, h.1.1.2, h.1.2, h.2⟩
  · cases h

theorem lvl_bin {op : ET} {l r : Expr κ} {m : Nat} (h : opLevel op = some m) :
    lvl (.bin op l r) = m := by
  simp [lvl, h]

/-- `unparse t` is never empty; its first token is not `)`, and it is not `NOT` unless `t` has
level 0 or 1 -/
theorem unparse_head : (t : Expr κ) → wl t = true →
    ∃ h tl, unparse t = h :: tl ∧ h.typ ≠ .rightBrace ∧ (2 ≤ lvl t → h.typ ≠ .not)
  | .const v, _ => ⟨_, _, by rw [unparse], by simp, by simp⟩
  | .var n, _ => ⟨_, _, by rw [unparse], by simp, by simp⟩
  | .paren e, _ => ⟨_, _, by rw [unparse]; rfl, by simp [tk], by simp [tk]⟩
  | .call n a, _ => ⟨_, _, by rw [unparse]; rfl, by simp, by simp⟩
  | .neg e, _ => ⟨_, _, by rw [unparse]; rfl, by simp [tk], by simp [tk]⟩
  | .pos e, _ => ⟨_, _, by rw [unparse]; rfl, by simp [tk], by simp [tk]⟩
  | .not e, _ => ⟨_, _, by rw [unparse]; rfl, by simp [tk], by simp [lvl]⟩
  | .index e i, hw => by
    simp only [wl, Bool.and_eq_true, decide_eq_true_eq, ge_iff_le] at hw
    obtain ⟨h, tl, he, h1, h2⟩ := unparse_head e hw.1.1
    exact ⟨h, _, by rw [unparse, he]; rfl, h1, fun _ => h2 (by omega)⟩
  | .bin op l r, hw => by
    obtain ⟨m, hm, hl, hr, h1, h2⟩ := wl_bin hw
    obtain ⟨h, tl, he, h3, h4⟩ := unparse_head l hl
    refine ⟨h, _, by rw [unparse, he]; rfl, h3, fun h5 => h4 ?_⟩
    rw [lvl_bin hm] at h5; omega
  | .notLike l r, hw => by
    simp only [wl, Bool.and_eq_true, decide_eq_true_eq, ge_iff_le] at hw
    obtain ⟨h, tl, he, h1, h2⟩ := unparse_head l hw.1.1.1
    exact ⟨h, _, by rw [unparse, he]; rfl, h1, fun _ => h2 (by omega)⟩
  | .notIn l r, hw => by
    simp only [wl, Bool.and_eq_true, decide_eq_true_eq, ge_iff_le] at hw
    obtain ⟨h, tl, he, h1, h2⟩ := unparse_head l hw.1.1.1
    exact ⟨h, _, by rw [unparse, he]; rfl, h1, fun _ => h2 (by omega)⟩
  | .isNull e, hw => by
    simp only [wl, Bool.and_eq_true, decide_eq_true_eq, ge_iff_le] at hw
    obtain ⟨h, tl, he, h1, h2⟩ := unparse_head e hw.1
    exact ⟨h, _, by rw [unparse, he]; rfl, h1, fun _ => h2 (by omega)⟩
  | .isNotNull e, hw => by
    simp only [wl, Bool.and_eq_true, decide_eq_true_eq, ge_iff_le] at hw
    obtain ⟨h, tl, he, h1, h2⟩ := unparse_head e hw.1
    exact ⟨h, _, by rw [unparse, he]; rfl, h1, fun _ => h2 (by omega)⟩

/-! ## the completeness statements -/

/-- the state after `t` has been consumed -/
def after (t : Expr κ) (rest out : List (ETok κ)) (vars : List (List Rune)) : PState κ :=
  ⟨rest, out ++ postorder t, addVars vars (varOcc t)⟩

/-- `g` consumes exactly `unparse t` in front of `rest` and compiles it -/
def Parses (g : Nat → PState κ → PRes κ) (t : Expr κ) (rest : List (ETok κ)) : Prop :=
  ∀ out vars, Ev (fun f => g f ⟨unparse t ++ rest, out, vars⟩) (.ok (after t rest out vars))

/-- level-`k` parsing of `t`, nothing pending afterwards -/
def Q (k : Nat) (t : Expr κ) : Prop := ∀ rest, halts k rest = true → Parses (pL k) t rest

/-- level-`k` parsing of `t` continues as the level-`k` loop does after `t` -/
def P (k : Nat) (t : Expr κ) : Prop :=
  ∀ (rest out : List (ETok κ)) (vars : List (List Rune)) (R : PRes κ), halts (k+1) rest = true →
    Ev (fun f => loopL k f (after t rest out vars)) R →
    Ev (fun f => pL k f ⟨unparse t ++ rest, out, vars⟩) R

theorem Ev_loopL_halts {k : Nat} {rest : List (ETok κ)} (h : halts k rest = true)
    (out : List (ETok κ)) (vars : List (List Rune)) :
    Ev (fun f => loopL k f ⟨rest, out, vars⟩) (.ok ⟨rest, out, vars⟩) :=
  Ev.of_succ (h := fun _ => .ok ⟨rest, out, vars⟩)
    (fun f => loopL_halts h k (Nat.le_refl _) f out vars) (Ev.const _)

theorem P.toQ {k : Nat} {t : Expr κ} (h : P k t) : Q k t := fun rest hr out vars =>
  h rest out vars _ (halts_mono (Nat.le_succ k) hr) (Ev_loopL_halts hr _ _)

/-- one level down -/
theorem P.lift {k : Nat} {t : Expr κ} (hw : wl t = true) (hk : k + 1 ≤ min (lvl t) 6)
    (h : P (k+1) t) : P k t := by
  intro rest out vars R hr hR
  obtain ⟨hd, tl, he, _, hnot⟩ := unparse_head t hw
  have hQ := h.toQ rest hr out vars
  have hk' : k = 0 ∨ k = 1 ∨ k = 2 ∨ k = 3 ∨ k = 4 ∨ k = 5 := by omega
  by_cases h1 : k = 1
  · subst h1
    have hR' : R = .ok (after t rest out vars) := (Ev.const_inv hR).symm
    subst hR'
    refine Ev.of_succ (h := fun f => p2 f ⟨unparse t ++ rest, out, vars⟩) ?_ hQ
    intro f
    show p1 (f+1) _ = _
    have : (hd.typ == ET.not) = false := by
      have := hnot (by omega); simpa using this
    rw [p1_succ, he]; simp only [List.cons_append, this, Bool.false_eq_true, if_false]
  · have hk'' : k = 0 ∨ k = 2 ∨ k = 3 ∨ k = 4 ∨ k = 5 := by omega
    refine Ev.of_succ (h := fun f => andThen (pL (k+1) f ⟨unparse t ++ rest, out, vars⟩) (loopL k f)) ?_
      (Ev.andThen hQ hR)
    intro f
    rw [pL_succ hk'', he]; simp

theorem P.down {t : Expr κ} (hw : wl t = true) {m : Nat} (hm : m ≤ min (lvl t) 6) (h : P m t) :
    ∀ k, k ≤ m → P k t := by
  induction m with
  | zero => intro k hk; obtain rfl : k = 0 := by omega
            exact h
  | succ m ih =>
    intro k hk
    by_cases hkm : k = m + 1
    · subst hkm; exact h
    · exact ih (by omega) (P.lift hw hm h) k (by omega)

/-! ## primaries (grammar level 8) -/

def T8 (t : Expr κ) : Prop := ∀ rest, noParen rest → Parses p6prim t rest
def T7 (t : Expr κ) : Prop := ∀ rest, noParen rest → Parses p6head t rest

/-- the induction invariant for a tree -/
def Main (t : Expr κ) : Prop := (lvl t = 8 → T8 t) ∧ (7 ≤ lvl t → T7 t) ∧ P (min (lvl t) 6) t

/-- the induction invariant for an argument list (after the opening parenthesis) -/
def MainArgs (a : Args κ) : Prop :=
  ∀ (n : Nat) (rest out : List (ETok κ)) (vars : List (List Rune)), (a = .nil → n = 0) →
    Ev (fun f => pArgs f ⟨unparseArgs a ++ tk .rightBrace :: rest, out, vars⟩ n)
      (.ok (⟨tk .rightBrace :: rest, out ++ postorderArgs a, addVars vars (varOccArgs a)⟩,
        n + argsLength a))

theorem Main.Q {t : Expr κ} (hw : wl t = true) (h : Main t) {k : Nat} (hk : k ≤ min (lvl t) 6) :
    Q k t := (P.down hw (Nat.le_refl _) h.2.2 k hk).toQ

theorem Main.P {t : Expr κ} (hw : wl t = true) (h : Main t) {k : Nat} (hk : k ≤ min (lvl t) 6) :
    P k t := P.down hw (Nat.le_refl _) h.2.2 k hk

theorem T8_const (v : κ) : T8 (.const v : Expr κ) := by
  intro rest _ out vars
  refine Ev.of_succ (h := fun _ => _) (fun f => ?_) (Ev.const _)
  rw [p6prim_succ]
  simp [unparse, after, postorder, varOcc, emitTok]

theorem T8_var (n : List Rune) : T8 (.var n : Expr κ) := by
  intro rest hp out vars
  refine Ev.of_succ (h := fun _ => _) (fun f => ?_) (Ev.const _)
  rw [p6prim_succ]
  have : (rest.head?.map (·.typ) == some ET.leftBrace) = false := by
    simpa [noParen] using hp
  simp [unparse, after, postorder, varOcc, emitTok, this]

theorem halts_rightBrace (rest : List (ETok κ)) : halts 0 (tk .rightBrace :: rest) = true := by
  simp [halts, tk, ops0, ops2, ops3, ops4, ops5, matchTypes_head_ne]
theorem halts_rightSquareBrace (rest : List (ETok κ)) :
    halts 0 (tk .rightSquareBrace :: rest) = true := by
  simp [halts, tk, ops0, ops2, ops3, ops4, ops5, matchTypes_head_ne]
theorem halts_comma (rest : List (ETok κ)) : halts 0 (tk .comma :: rest) = true := by
  simp [halts, tk, ops0, ops2, ops3, ops4, ops5, matchTypes_head_ne]

theorem T8_paren {e : Expr κ} (hw : wl e = true) (ih : Main e) : T8 (.paren e) := by
  intro rest _ out vars
  have hQ := ih.Q hw (Nat.zero_le _) (tk .rightBrace :: rest) (halts_rightBrace rest) out vars
  refine Ev.of_succ (h := fun f => andThen (p0 f ⟨unparse e ++ tk .rightBrace :: rest, out, vars⟩)
    closeParen) (fun f => ?_) (Ev.andThen hQ (Ev.const _))
  rw [p6prim_succ]
  simp [unparse, tk]

theorem T8_call (n : List Rune) {a : Args κ} (ih : MainArgs a) : T8 (.call n a) := by
  intro rest _ out vars
  have hA := ih 0 rest out vars (fun _ => rfl)
  have hc : closeCall ⟨.variable, n, none, 0⟩
      ((⟨tk .rightBrace :: rest, out ++ postorderArgs a, addVars vars (varOccArgs a)⟩ : PState κ),
        0 + argsLength a) = .ok (after (.call n a) rest out vars) := by
    simp [closeCall, after, tk, postorder, varOcc, emitTok]
  refine Ev.of_succ (h := fun f => andThen (pArgs f ⟨unparseArgs a ++ tk .rightBrace :: rest, out, vars⟩ 0)
    (closeCall ⟨.variable, n, none, 0⟩)) (fun f => ?_)
    (Ev.andThen (k := fun _ => closeCall _) hA (by rw [hc]; exact Ev.const _))
  rw [p6prim_succ]
  simp [unparse, tk]

/-! ## signs and the index suffix (grammar levels 7 and 6) -/

theorem Ev.congr {α : Type} {g h : Nat → Except PErr α} {R : Except PErr α}
    (hs : ∀ f, g f = h f) (H : Ev h R) : Ev g R := by
  obtain ⟨f0, H⟩ := H
  exact ⟨f0, fun f hf => by rw [hs]; exact H f hf⟩

theorem unparse_head8 : (t : Expr κ) → lvl t = 8 →
    ∃ h tl, unparse t = h :: tl ∧ (h.typ == ET.plus || h.typ == ET.minus) = false
  | .const v, _ => ⟨_, _, by rw [unparse], by simp⟩
  | .var n, _ => ⟨_, _, by rw [unparse], by simp⟩
  | .paren e, _ => ⟨_, _, by rw [unparse]; rfl, by simp [tk]⟩
  | .call n a, _ => ⟨_, _, by rw [unparse]; rfl, by simp⟩
  | .neg _, h | .pos _, h | .index _ _, h | .notLike _ _, h | .notIn _ _, h | .not _, h
  | .isNull _, h | .isNotNull _, h => by simp [lvl] at h
  | .bin op l r, h => by
    exfalso
    simp only [lvl, opLevel] at h
    split at h; · cases h
    split at h; · cases h
    split at h; · cases h
    split at h; · cases h
    split at h <;> cases h

theorem T7_of_T8 {t : Expr κ} (hl : lvl t = 8) (h : T8 t) : T7 t := by
  intro rest hp out vars
  obtain ⟨hd, tl, he, hs⟩ := unparse_head8 t hl
  have hm : (hd.typ == ET.minus) = false := by
    simp only [Bool.or_eq_false_iff] at hs; exact hs.2
  have hpl : (hd.typ == ET.plus) = false := by
    simp only [Bool.or_eq_false_iff] at hs; exact hs.1
  refine Ev.congr (h := fun f => andThen (p6prim f ⟨unparse t ++ rest, out, vars⟩) (fun st2 => .ok st2))
    (fun f => ?_) (Ev.andThen (h rest hp out vars) (Ev.const _))
  · simp only [p6head, he, List.cons_append, hpl, hm, Bool.or_false, Bool.false_eq_true, if_false]

theorem T7_neg {e : Expr κ} (h : T8 e) : T7 (.neg e) := by
  intro rest hp out vars
  refine Ev.congr (h := fun f => andThen (p6prim f ⟨unparse e ++ rest, out, vars⟩)
      (fun st2 => .ok (emit st2 .unary)))
    (fun f => ?_) (Ev.andThen (h rest hp out vars) ?_)
  · simp [p6head, unparse, tk]
  · have : (.ok (emit (after e rest out vars) .unary) : PRes κ) = .ok (after (.neg e) rest out vars) := by
      simp [after, emit, postorder, varOcc, tk]
    rw [this]; exact Ev.const _

theorem T7_pos {e : Expr κ} (h : T8 e) : T7 (.pos e) := by
  intro rest hp out vars
  refine Ev.congr (h := fun f => andThen (p6prim f ⟨unparse e ++ rest, out, vars⟩)
      (fun st2 => .ok st2))
    (fun f => ?_) (Ev.andThen (h rest hp out vars) ?_)
  · simp [p6head, unparse, tk]
  · have : (.ok (after e rest out vars) : PRes κ) = .ok (after (.pos e) rest out vars) := by
      simp [after, postorder, varOcc]
    rw [this]; exact Ev.const _

theorem p6tail_halts {rest : List (ETok κ)} (h : halts 7 rest = true) (f : Nat)
    (out : List (ETok κ)) (vars : List (List Rune)) :
    p6tail f ⟨rest, out, vars⟩ = .ok ⟨rest, out, vars⟩ := by
  cases rest with
  | nil => rfl
  | cons t tl =>
    have := halts_noSquare h
    simp [p6tail, this]

theorem P6_of_T7 {t : Expr κ} (h : T7 t) : P 6 t := by
  intro rest out vars R hr hR
  obtain rfl : R = .ok (after t rest out vars) := (Ev.const_inv hR).symm
  refine Ev.of_succ (h := fun f => andThen (p6head f ⟨unparse t ++ rest, out, vars⟩) (p6tail f))
    (fun f => p6_succ f _) (Ev.andThen (h rest (halts_noParen hr) out vars) ?_)
  simp only [after, p6tail_halts hr]
  exact Ev.const _

theorem Main_of_T8 {t : Expr κ} (hl : lvl t = 8) (h : T8 t) : Main t :=
  ⟨fun _ => h, fun _ => T7_of_T8 hl h, by rw [hl]; exact P6_of_T7 (T7_of_T8 hl h)⟩

theorem Main_of_T7 {t : Expr κ} (hl : lvl t = 7) (h : T7 t) : Main t :=
  ⟨fun h8 => by omega, fun _ => h, by rw [hl]; exact P6_of_T7 h⟩

theorem Main_neg {e : Expr κ} (hw : wl (.neg e) = true) (ih : Main e) : Main (.neg e) := by
  simp only [wl, Bool.and_eq_true, beq_iff_eq] at hw
  exact Main_of_T7 rfl (T7_neg (ih.1 hw.2))

theorem Main_pos {e : Expr κ} (hw : wl (.pos e) = true) (ih : Main e) : Main (.pos e) := by
  simp only [wl, Bool.and_eq_true, beq_iff_eq] at hw
  exact Main_of_T7 rfl (T7_pos (ih.1 hw.2))

theorem Main_index {e i : Expr κ} (hw : wl (.index e i) = true) (ihe : Main e) (ihi : Main i) :
    Main (.index e i) := by
  simp only [wl, Bool.and_eq_true, decide_eq_true_eq, ge_iff_le] at hw
  obtain ⟨⟨hwe, hwi⟩, hle⟩ := hw
  refine ⟨fun h => by simp [lvl] at h, fun h => by simp [lvl] at h, ?_⟩
  show P 6 (.index e i)
  intro rest out vars R hr hR
  obtain rfl : R = .ok (after (.index e i) rest out vars) := (Ev.const_inv hR).symm
  have h7 := ihe.2.1 hle (tk .leftSquareBrace :: (unparse i ++ tk .rightSquareBrace :: rest))
    (by simp [noParen, tk]) out vars
  have hQ := ihi.Q hwi (Nat.zero_le _) (tk .rightSquareBrace :: rest) (halts_rightSquareBrace rest)
    (out ++ postorder e) (addVars vars (varOcc e))
  refine Ev.of_succ (h := fun f => andThen (p6head f ⟨unparse (.index e i) ++ rest, out, vars⟩) (p6tail f))
    (fun f => p6_succ f _) ?_
  have hu : unparse (.index e i) ++ rest =
      unparse e ++ tk .leftSquareBrace :: (unparse i ++ tk .rightSquareBrace :: rest) := by
    simp [unparse]
  rw [hu]
  refine Ev.andThen h7 ?_
  have ht : ∀ f, p6tail f (after e (tk .leftSquareBrace :: (unparse i ++ tk .rightSquareBrace :: rest)) out vars)
      = andThen (p0 f ⟨unparse i ++ tk .rightSquareBrace :: rest, out ++ postorder e, addVars vars (varOcc e)⟩)
          closeSquare := by
    intro f; simp [p6tail, after, tk]
  simp only [ht]
  refine Ev.andThen hQ ?_
  have : closeSquare (after i (tk .rightSquareBrace :: rest) (out ++ postorder e) (addVars vars (varOcc e)))
      = .ok (after (.index e i) rest out vars) := by
    simp [closeSquare, after, tk, emit, postorder, varOcc, addVars_append]
  rw [this]; exact Ev.const _

/-! ## operators (grammar levels 0 … 5) -/

theorem Main_of_P {t : Expr κ} (hl : lvl t ≤ 6) (h : P (lvl t) t) : Main t :=
  ⟨fun h8 => by omega, fun h7 => by omega, by rw [Nat.min_eq_left hl]; exact h⟩

theorem Main_bin {op : ET} {l r : Expr κ} (hw : wl (.bin op l r) = true) (ihl : Main l)
    (ihr : Main r) : Main (.bin op l r) := by
  obtain ⟨m, hm, hwl, hwr, h1, h2⟩ := wl_bin hw
  have hm5 : m ≤ 5 := by rcases opLevel_loop hm with h | h | h | h | h <;> omega
  have hlv : lvl (.bin op l r) = m := lvl_bin hm
  refine Main_of_P (by omega) ?_
  rw [hlv]
  intro rest out vars R hr hR
  have hu : unparse (.bin op l r) ++ rest = unparse l ++ tk op :: (unparse r ++ rest) := by
    simp [unparse]
  rw [hu]
  refine ihl.P hwl (k := m) (by omega) _ out vars R (halts_op hm _) ?_
  have hQ := ihr.Q hwr (k := m+1) (by omega) rest hr (out ++ postorder l) (addVars vars (varOcc l))
  refine Ev.of_succ (h := fun f => andThen (pL (m+1) f ⟨unparse r ++ rest, out ++ postorder l,
      addVars vars (varOcc l)⟩) (fun st1 => loopL m f (emit st1 op)))
    (fun f => loopL_fire hm f _ _ _) (Ev.andThen hQ ?_)
  have : emit (after r rest (out ++ postorder l) (addVars vars (varOcc l))) op
      = after (.bin op l r) rest out vars := by
    simp [after, emit, postorder, varOcc, addVars_append, tk]
  rw [this]; exact hR

theorem loopL_3 : (loopL 3 : Nat → PState κ → PRes κ) = p3loop := rfl
theorem pL_1 : (pL 1 : Nat → PState κ → PRes κ) = p1 := rfl
theorem pL_0 : (pL 0 : Nat → PState κ → PRes κ) = p0 := rfl

theorem halts4_not (tl : List (ETok κ)) : halts 4 (tk .not :: tl) = true := by
  simp [halts, tk, ops4, ops5]
theorem halts4_is (tl : List (ETok κ)) : halts 4 (tk .is :: tl) = true := by
  simp [halts, tk, ops4, ops5]

theorem Main_notLike {l r : Expr κ} (hw : wl (.notLike l r) = true) (ihl : Main l)
    (ihr : Main r) : Main (.notLike l r) := by
  simp only [wl, Bool.and_eq_true, decide_eq_true_eq, ge_iff_le] at hw
  obtain ⟨⟨⟨hwl, hwr⟩, h1⟩, h2⟩ := hw
  refine Main_of_P (by simp [lvl]) ?_
  show P 3 _
  intro rest out vars R hr hR
  have hu : unparse (.notLike l r) ++ rest = unparse l ++ tk .not :: tk .like :: (unparse r ++ rest) := by
    simp [unparse]
  rw [hu]
  refine ihl.P hwl (k := 3) (by omega) _ out vars R (halts4_not _) ?_
  have hQ := ihr.Q hwr (k := 4) (by omega) rest hr (out ++ postorder l) (addVars vars (varOcc l))
  refine Ev.of_succ (h := fun f => andThen (p4 f ⟨unparse r ++ rest, out ++ postorder l,
      addVars vars (varOcc l)⟩) (fun st1 => p3loop f (emit st1 .notLike)))
    (fun f => ?_) (Ev.andThen hQ ?_)
  · rw [loopL_3, p3loop_succ]
    simp [after, tk, ops3, p3extra, matchTypes_spec]
  · have : emit (after r rest (out ++ postorder l) (addVars vars (varOcc l))) .notLike
        = after (.notLike l r) rest out vars := by
      simp [after, emit, postorder, varOcc, addVars_append, tk]
    rw [this]; exact hR

theorem Main_notIn {l r : Expr κ} (hw : wl (.notIn l r) = true) (ihl : Main l)
    (ihr : Main r) : Main (.notIn l r) := by
  simp only [wl, Bool.and_eq_true, decide_eq_true_eq, ge_iff_le] at hw
  obtain ⟨⟨⟨hwl, hwr⟩, h1⟩, h2⟩ := hw
  refine Main_of_P (by simp [lvl]) ?_
  show P 3 _
  intro rest out vars R hr hR
  have hu : unparse (.notIn l r) ++ rest = unparse l ++ tk .not :: tk .in_ :: (unparse r ++ rest) := by
    simp [unparse]
  rw [hu]
  refine ihl.P hwl (k := 3) (by omega) _ out vars R (halts4_not _) ?_
  have hQ := ihr.Q hwr (k := 4) (by omega) rest hr (out ++ postorder l) (addVars vars (varOcc l))
  refine Ev.of_succ (h := fun f => andThen (p4 f ⟨unparse r ++ rest, out ++ postorder l,
      addVars vars (varOcc l)⟩) (fun st1 => p3loop f (emit st1 .notIn)))
    (fun f => ?_) (Ev.andThen hQ ?_)
  · rw [loopL_3, p3loop_succ]
    simp [after, tk, ops3, p3extra, matchTypes_spec]
  · have : emit (after r rest (out ++ postorder l) (addVars vars (varOcc l))) .notIn
        = after (.notIn l r) rest out vars := by
      simp [after, emit, postorder, varOcc, addVars_append, tk]
    rw [this]; exact hR

theorem Main_isNull {e : Expr κ} (hw : wl (.isNull e) = true) (ih : Main e) : Main (.isNull e) := by
  simp only [wl, Bool.and_eq_true, decide_eq_true_eq, ge_iff_le] at hw
  obtain ⟨hwe, h1⟩ := hw
  refine Main_of_P (by simp [lvl]) ?_
  show P 3 _
  intro rest out vars R hr hR
  have hu : unparse (.isNull e) ++ rest = unparse e ++ tk .is :: tk .null :: rest := by
    simp [unparse]
  rw [hu]
  refine ih.P hwe (k := 3) (by omega) _ out vars R (halts4_is _) ?_
  refine Ev.of_succ (h := fun f => p3loop f (after (.isNull e) rest out vars)) (fun f => ?_) hR
  rw [loopL_3, p3loop_succ]
  simp [after, tk, ops3, p3extra, matchTypes_spec, emit, postorder, varOcc]

theorem Main_isNotNull {e : Expr κ} (hw : wl (.isNotNull e) = true) (ih : Main e) :
    Main (.isNotNull e) := by
  simp only [wl, Bool.and_eq_true, decide_eq_true_eq, ge_iff_le] at hw
  obtain ⟨hwe, h1⟩ := hw
  refine Main_of_P (by simp [lvl]) ?_
  show P 3 _
  intro rest out vars R hr hR
  have hu : unparse (.isNotNull e) ++ rest = unparse e ++ tk .is :: tk .not :: tk .null :: rest := by
    simp [unparse]
  rw [hu]
  refine ih.P hwe (k := 3) (by omega) _ out vars R (halts4_is _) ?_
  refine Ev.of_succ (h := fun f => p3loop f (after (.isNotNull e) rest out vars)) (fun f => ?_) hR
  rw [loopL_3, p3loop_succ]
  simp [after, tk, ops3, p3extra, matchTypes_spec, emit, postorder, varOcc]

theorem Main_not {e : Expr κ} (hw : wl (.not e) = true) (ih : Main e) : Main (.not e) := by
  simp only [wl, Bool.and_eq_true, decide_eq_true_eq, ge_iff_le] at hw
  obtain ⟨hwe, h1⟩ := hw
  refine Main_of_P (by simp [lvl]) ?_
  show P 1 _
  intro rest out vars R hr hR
  obtain rfl : R = .ok (after (.not e) rest out vars) := (Ev.const_inv hR).symm
  have hQ := ih.Q hwe (k := 2) (by omega) rest hr out vars
  refine Ev.of_succ (h := fun f => andThen (p2 f ⟨unparse e ++ rest, out, vars⟩)
      (fun st1 => .ok (emit st1 .not))) (fun f => ?_) (Ev.andThen hQ ?_)
  · rw [pL_1, p1_succ]
    simp [unparse, tk]
  · have : emit (after e rest out vars) .not = after (.not e) rest out vars := by
      simp [after, emit, postorder, varOcc, tk]
    rw [this]; exact Ev.const _

/-! ## argument lists -/

theorem MainArgs_nil : MainArgs (.nil : Args κ) := by
  intro n rest out vars hn
  obtain rfl := hn rfl
  refine Ev.of_succ (h := fun _ => _) (fun f => ?_) (Ev.const _)
  rw [pArgs_succ]
  simp [unparseArgs, tk, postorderArgs, varOccArgs, argsLength]

theorem MainArgs_cons {e : Expr κ} {a : Args κ} (hw : wl e = true) (ihe : Main e)
    (iha : MainArgs a) : MainArgs (.cons e a) := by
  intro n rest out vars _
  obtain ⟨hd, tl, he, hrb, _⟩ := unparse_head e hw
  have hrb' : (hd.typ == ET.rightBrace) = false := by simpa using hrb
  cases a with
  | nil =>
    have hQ := ihe.Q hw (Nat.zero_le _) (tk .rightBrace :: rest) (halts_rightBrace rest) out vars
    refine Ev.of_succ (h := fun f => andThen (p0 f ⟨unparse e ++ tk .rightBrace :: rest, out, vars⟩)
      (argsNext f n)) (fun f => ?_) (Ev.andThen hQ ?_)
    · rw [pArgs_succ]
      simp [unparseArgs, he, hrb']
    · have : ∀ f, argsNext f n (after e (tk .rightBrace :: rest) out vars) =
          .ok (⟨tk .rightBrace :: rest, out ++ postorderArgs (.cons e .nil),
            addVars vars (varOccArgs (.cons e .nil))⟩, n + argsLength (.cons e (.nil : Args κ))) := by
        intro f
        simp [argsNext, after, tk, postorderArgs, varOccArgs, argsLength]
      simp only [this]; exact Ev.const _
  | cons e' a' =>
    have hQ := ihe.Q hw (Nat.zero_le _) (tk .comma :: (unparseArgs (.cons e' a') ++ tk .rightBrace :: rest))
      (halts_comma _) out vars
    have hA := iha (n+1) rest (out ++ postorder e) (addVars vars (varOcc e)) (fun h => by cases h)
    have hu : unparseArgs (.cons e (.cons e' a')) ++ tk .rightBrace :: rest =
        unparse e ++ tk .comma :: (unparseArgs (.cons e' a') ++ tk .rightBrace :: rest) := by
      simp [unparseArgs]
    rw [hu]
    refine Ev.of_succ (h := fun f => andThen (p0 f ⟨unparse e ++
        tk .comma :: (unparseArgs (.cons e' a') ++ tk .rightBrace :: rest), out, vars⟩)
      (argsNext f n)) (fun f => ?_) (Ev.andThen hQ ?_)
    · rw [pArgs_succ]
      simp [he, hrb']
    · have : ∀ f, argsNext f n (after e (tk .comma :: (unparseArgs (.cons e' a') ++ tk .rightBrace :: rest)) out vars)
          = pArgs f ⟨unparseArgs (.cons e' a') ++ tk .rightBrace :: rest, out ++ postorder e,
              addVars vars (varOcc e)⟩ (n+1) := by
        intro f
        simp [argsNext, after, tk]
      simp only [this]
      have hfin : (⟨tk .rightBrace :: rest, out ++ postorder e ++ postorderArgs (.cons e' a'),
            addVars (addVars vars (varOcc e)) (varOccArgs (.cons e' a'))⟩, n + 1 + argsLength (.cons e' a'))
          = ((⟨tk .rightBrace :: rest, out ++ postorderArgs (.cons e (.cons e' a')),
            addVars vars (varOccArgs (.cons e (.cons e' a')))⟩ : PState κ),
              n + argsLength (.cons e (.cons e' a'))) := by
        simp [postorderArgs, varOccArgs, argsLength, addVars_append]
        omega
      rw [← hfin]; exact hA

/-! ## the induction -/

theorem main : (t : Expr κ) → wl t = true → Main t := by
  intro t
  refine Expr.rec (motive_1 := fun t => wl t = true → Main t)
    (motive_2 := fun a => wlArgs a = true → MainArgs a)
    ?_ ?_ ?_ ?_ ?_ ?_ ?_ ?_ ?_ ?_ ?_ ?_ ?_ ?_ ?_ t
  · intro v _; exact Main_of_T8 rfl (T8_const v)
  · intro n _; exact Main_of_T8 rfl (T8_var n)
  · intro e ih hw
    have hwe : wl e = true := by simpa [wl] using hw
    exact Main_of_T8 rfl (T8_paren hwe (ih hwe))
  · intro n a ih hw
    have hwa : wlArgs a = true := by simpa [wl] using hw
    exact Main_of_T8 rfl (T8_call n (ih hwa))
  · intro e ih hw
    have hwe : wl e = true := by simp only [wl, Bool.and_eq_true] at hw; exact hw.1
    exact Main_neg hw (ih hwe)
  · intro e ih hw
    have hwe : wl e = true := by simp only [wl, Bool.and_eq_true] at hw; exact hw.1
    exact Main_pos hw (ih hwe)
  · intro e i ihe ihi hw
    have h : wl e = true ∧ wl i = true := by
      simp only [wl, Bool.and_eq_true] at hw; exact hw.1
    exact Main_index hw (ihe h.1) (ihi h.2)
  · intro op l r ihl ihr hw
    obtain ⟨m, _, hl, hr, _, _⟩ := wl_bin hw
    exact Main_bin hw (ihl hl) (ihr hr)
  · intro l r ihl ihr hw
    have h : wl l = true ∧ wl r = true := by
      simp only [wl, Bool.and_eq_true] at hw; exact hw.1.1
    exact Main_notLike hw (ihl h.1) (ihr h.2)
  · intro l r ihl ihr hw
    have h : wl l = true ∧ wl r = true := by
      simp only [wl, Bool.and_eq_true] at hw; exact hw.1.1
    exact Main_notIn hw (ihl h.1) (ihr h.2)
  · intro e ih hw
    have hwe : wl e = true := by simp only [wl, Bool.and_eq_true] at hw; exact hw.1
    exact Main_not hw (ih hwe)
  · intro e ih hw
    have hwe : wl e = true := by simp only [wl, Bool.and_eq_true] at hw; exact hw.1
    exact Main_isNull hw (ih hwe)
  · intro e ih hw
    have hwe : wl e = true := by simp only [wl, Bool.and_eq_true] at hw; exact hw.1
    exact Main_isNotNull hw (ih hwe)
  · intro _; exact MainArgs_nil
  · intro e a ihe iha hw
    have h : wl e = true ∧ wlArgs a = true := by
      simpa [wlArgs] using hw
    exact MainArgs_cons h.1 (ihe h.1) (iha h.2)

/-- **Completeness with a remainder**: a well-levelled tree `t`, parsed at any level `k` its own
level allows, in front of a `rest` on which no loop of a level `≥ k` fires, is consumed exactly. -/
theorem complete_at (t : Expr κ) (hw : wl t = true) (k : Nat) (hk : k ≤ min (lvl t) 6)
    (rest : List (ETok κ)) (hr : halts k rest = true) (out : List (ETok κ)) (vars : List (List Rune)) :
    ∃ f0, ∀ f, f0 ≤ f → pL k f ⟨unparse t ++ rest, out, vars⟩ =
      .ok ⟨rest, out ++ postorder t, addVars vars (varOcc t)⟩ :=
  (main t hw).Q hw hk rest hr out vars

/-- the continuation form: parsing `t` at level `k` behaves like the pending level-`k` loop after `t` -/
theorem complete_loop (t : Expr κ) (hw : wl t = true) (k : Nat) (hk : k ≤ min (lvl t) 6)
    (rest : List (ETok κ)) (hr : stops k rest = true) (out : List (ETok κ)) (vars : List (List Rune))
    (R : PRes κ)
    (hR : ∃ f0, ∀ f, f0 ≤ f → loopL k f ⟨rest, out ++ postorder t, addVars vars (varOcc t)⟩ = R) :
    ∃ f0, ∀ f, f0 ≤ f → pL k f ⟨unparse t ++ rest, out, vars⟩ = R :=
  (main t hw).P hw hk rest out vars R hr hR

theorem complete_p0 (t : Expr κ) (hw : wl t = true) (out : List (ETok κ)) (vars : List (List Rune)) :
    ∃ f0, ∀ f, f0 ≤ f → p0 f ⟨unparse t, out, vars⟩ =
      .ok ⟨[], out ++ postorder t, addVars vars (varOcc t)⟩ := by
  have := complete_at t hw 0 (Nat.zero_le _) [] rfl out vars
  simpa [pL_0] using this

/-! ## the variable list: first occurrences, in order -/

theorem mem_addVar {vars : List (List Rune)} {n m : List Rune} :
    m ∈ addVar vars n ↔ m ∈ vars ∨ m = n := by
  unfold addVar
  split
  · rename_i h
    have hn : n ∈ vars := by simpa using h
    constructor
    · exact Or.inl
    · rintro (h | rfl)
      · exact h
      · exact hn
  · simp

theorem nodup_addVar {vars : List (List Rune)} {n : List Rune} (h : vars.Nodup) :
    (addVar vars n).Nodup := by
  unfold addVar
  split
  · exact h
  · rename_i hc
    have hn : n ∉ vars := by simpa using hc
    rw [List.nodup_append]
    refine ⟨h, by simp, ?_⟩
    intro a ha b hb
    have : b = n := by simpa using hb
    subst this
    intro hab; subst hab; exact hn ha

theorem mem_addVars {l vars : List (List Rune)} {m : List Rune} :
    m ∈ addVars vars l ↔ m ∈ vars ∨ m ∈ l := by
  induction l generalizing vars with
  | nil => simp
  | cons n ns ih =>
    rw [addVars, ih, mem_addVar]
    simp only [List.mem_cons]
    constructor
    · rintro ((h | h) | h)
      · exact Or.inl h
      · exact Or.inr (Or.inl h)
      · exact Or.inr (Or.inr h)
    · rintro (h | h | h)
      · exact Or.inl (Or.inl h)
      · exact Or.inl (Or.inr h)
      · exact Or.inr h

theorem nodup_addVars {l vars : List (List Rune)} (h : vars.Nodup) : (addVars vars l).Nodup := by
  induction l generalizing vars with
  | nil => exact h
  | cons n ns ih => rw [addVars]; exact ih (nodup_addVar h)

/-- `addVars vars l` is `vars` followed by a sublist of `l` -/
theorem addVars_eq_append (l vars : List (List Rune)) :
    ∃ s, addVars vars l = vars ++ s ∧ s.Sublist l := by
  induction l generalizing vars with
  | nil => exact ⟨[], by simp, List.Sublist.refl _⟩
  | cons n ns ih =>
    rw [addVars]
    unfold addVar
    split
    · obtain ⟨s, hs, hsub⟩ := ih vars
      exact ⟨s, hs, hsub.cons n⟩
    · obtain ⟨s, hs, hsub⟩ := ih (vars ++ [n])
      exact ⟨n :: s, by rw [hs]; simp, hsub.cons_cons n⟩

/-- reference: keep the first occurrence of every element -/
def firstOccs : List (List Rune) → List (List Rune)
  | [] => []
  | n :: ns => n :: (firstOccs ns).filter (· != n)

theorem addVars_eq_firstOccs (l vars : List (List Rune)) :
    addVars vars l = vars ++ (firstOccs l).filter (fun n => !vars.contains n) := by
  induction l generalizing vars with
  | nil => simp [firstOccs]
  | cons n ns ih =>
    rw [addVars, ih, firstOccs]
    unfold addVar
    split
    · rename_i hc
      simp only [List.filter_cons, hc, Bool.not_true, Bool.false_eq_true, if_false, List.filter_filter]
      congr 1
      apply List.filter_congr
      intro x _
      by_cases hx : x = n
      · subst hx; have : x ∈ vars := by simpa using hc
        simp [this]
      · simp [hx]
    · rename_i hc
      have hc' : vars.contains n = false := by simpa using hc
      simp only [List.filter_cons, hc', Bool.not_false, if_true, List.filter_filter,
        List.append_assoc, List.singleton_append]
      congr 2
      apply List.filter_congr
      intro x _
      by_cases hx : x = n
      · subst hx; simp
      · simp [hx, Bool.and_comm]

/-! ## explicit fuel -/

/-- completeness at top level with the driver's fuel bound -/
theorem complete_p0_bound (t : Expr κ) (hw : wl t = true) (out : List (ETok κ))
    (vars : List (List Rune)) (f : Nat) (hf : 16 * ((unparse t).length + 2) ≤ f) :
    p0 f ⟨unparse t, out, vars⟩ = .ok ⟨[], out ++ postorder t, addVars vars (varOcc t)⟩ := by
  obtain ⟨f0, H⟩ := complete_p0 t hw out vars
  have h1 := H (max f f0) (Nat.le_max_right _ _)
  have h2 : p0 f ⟨unparse t, out, vars⟩ ≠ .error .outOfFuel := p0_enough_fuel _ f hf
  rw [← p0_mono (Nat.le_max_left f f0) h2]
  exact h1

end Complete
end Verif
