package main

import (
	"time"
	"fmt"
	"strings"

	"github.com/pip-services3-gox/pip-services3-expressions-gox/tokenizers"
)

// C04 lossless tokenization, C12 token positions, C15 options only drop/rewrite whole tokens.

func csvKinds(c *Ctx) []string {
	return []string{"c:44:34", "c:44,59:34,39", "c:9,44:34", "c:1046:171", "c:44:-", "c:-:34"}
}

func runC04Case(c *Ctx, kind string, input []rune) {
	op := tokOpLine(kind, 0, input)
	ts, st := tokenizeImpl(kind, 0, string(input))
	if kind == "P" {
		// a state of the library that no stock tokenizer uses: judged by the direct oracle only
		c.record(op, len(input) >= 2)
		c.count("kind:P")
		if st != "" {
			c.fail(Failure{Kind: "oracle", Op: op, Impl: st, Note: "tokenizer did not return normally: " + st})
		} else if msg := oracleLossless(input, ts); msg != "" {
			c.fail(Failure{Kind: "oracle", Op: op, Impl: implLine(ts, st), Note: "generic tokenizer with the C++ comment state: " + msg})
		}
		return
	}
	c.record(op, len(input) >= 2)
	c.count("kind:" + kind[:1])
	c.count(classify(input))
	impl := implLine(ts, st)
	if st != "" {
		c.fail(Failure{Kind: "oracle", Op: op, Impl: impl, Note: "tokenizer did not return normally: " + st})
		return
	}
	for _, t := range ts {
		c.count(fmt.Sprintf("toktype:%d", t.Typ))
	}
	if msg := oracleLossless(input, ts); msg != "" {
		c.fail(Failure{Kind: "oracle", Op: op, Impl: impl, Note: msg})
		return
	}
	if c.Evals%8 == 0 {
		checkTokEntryPoints(c, kind, 0, input, ts)
	}
	if c.Evals%16 == 9 {
		// the SAME scanner object: a presence query, a rewind, and the scanner handed over again
		var got []tk
		st := safeCallT(3*time.Second, func() string {
			t := newTokenizer(kind)
			setOpts(t, 0)
			sc := newScanner(string(input))
			t.SetReader(sc)
			t.HasNextToken()
			sc.Reset()
			got = conv(t.TokenizeStream(sc))
			return ""
		})
		if st == "" {
			if msg := oracleLossless(input, got); msg != "" {
				c.fail(Failure{Kind: "oracle", Op: fmt.Sprintf("samesc %s 0 %s", kind, runesStr(input)), Impl: showTks(got), Note: "after HasNextToken(), Reset() of the scanner and TokenizeStream of the same scanner object: " + msg})
				return
			}
		}
	}
	if c.Evals%16 == 1 {
		// "any tokenizer": also one that was used before and abandoned in the middle of another input, right
		// after a presence query (a token is then prefetched and never fetched)
		prev := []rune("ab <= 'x' 12 {{y}}")
		var got []tk
		st := safeCallT(3*time.Second, func() string {
			t := newTokenizer(kind)
			setOpts(t, 0)
			t.SetReader(newScanner(string(prev)))
			t.HasNextToken()
			t.NextToken()
			t.HasNextToken()
			if c.Evals%32 == 1 {
				got = conv(t.TokenizeBuffer(string(input)))
			} else {
				// values only, through the string-list entry point
				for _, v := range t.TokenizeBufferToStrings(string(input)) {
					got = append(got, tk{Typ: -1, Val: []rune(v)})
				}
			}
			return ""
		})
		if st == "" {
			msg := ""
			if len(got) > 0 && got[0].Typ == -1 {
				var cat []rune
				for _, g := range got {
					cat = append(cat, g.Val...)
				}
				if !sameRunes(cat, input) {
					msg = fmt.Sprintf("TokenizeBufferToStrings values concatenate to %q, input is %q", string(cat), string(input))
				}
			} else {
				msg = oracleLossless(input, got)
			}
			if msg != "" {
				c.fail(Failure{Kind: "oracle", Op: fmt.Sprintf("hist %s 0 -1 %s %s", kind, runesStr(prev), runesStr(input)), Impl: showTks(got),
					Note: "on a tokenizer abandoned in the middle of an earlier input: " + msg})
				return
			}
		}
	}
	c.model(op, impl, "model")
}

func propC04(c *Ctx) {
	propScaleTokenizers(c, "C04")
	propLongSymbols(c)
	for _, term := range []string{"\n", "\r", "\r\n", "\u2028", "\u2029", "\u0085", "\v", "\f", ""} {
		for _, in := range []string{"// note" + term + "x = 1", "a // c" + term + "b", "/* c */ x // y" + term + "z", "//" + term, "/" + term + "/", "/*" + term + "*/ //" + term + term, "x/y //" + term} {
			runC04Case(c, "P", []rune(in))
		}
	}
	enumStrings([]rune{'/', '*', 'a', '\n', 0x2028, ' '}, 4, func(s []rune) { runC04Case(c, "P", append([]rune(nil), s...)) })
	nCfg := 400
	if c.Thorough {
		nCfg = 8000
	}
	propCfgKinds(c, nCfg, func(kind string, in []rune) { runC04Case(c, kind, in) })
	kinds := append([]string{"g", "e", "m"}, csvKinds(c)...)
	// characters that tempt a "clean-up" at the edges of the input: byte order mark, NUL, line and paragraph
	// separators, U+0100 (first character above the direct table), the last BMP characters
	for _, k := range kinds {
		for _, x := range []rune{0xfeff, 0, 0x2028, 0x2029, 0x100, 0xff, 0xfffe, 0xffff, 0x10000, 0x85, 0xa0, 0x1000a, 0x2000d, 0x10000a, 0x10ffff, 0x1003c, 0x10061, 0x10031, 0x10020, 0x10022, 0x1002f, 0x1007b, 0x2003d} {
			for _, in := range [][]rune{{x}, {x, 'a'}, {'a', x}, {x, 'a', x}, {x, x}, {' ', x, ' '}, {x, '1', '.', '5'}, {'"', x, '"'}} {
				runC04Case(c, k, in)
			}
		}
	}
	full, red := 3, 4
	if c.Thorough {
		full, red = 4, 5
	}
	reduced := []rune{'a', '1', '.', '-', '/', '*', 'e', '"', '\'', '<', '=', '{', '}', ' ', '\n', 0x4e16}
	for _, k := range kinds[:4] {
		kk := k
		enumStrings(classAlphabet, full, func(s []rune) { runC04Case(c, kk, append([]rune(nil), s...)) })
		enumStrings(reduced, red, func(s []rune) {
			if len(s) == red {
				runC04Case(c, kk, append([]rune(nil), s...))
			}
		})
	}
	c.Notes = append(c.Notes, fmt.Sprintf("exhaustive: all strings of length <= %d over the 24-character class alphabet and all strings of length %d over a 16-character sub-alphabet, for generic/expression/mustache/csv(,\") tokenizers; random inputs up to length 60 for 9 tokenizer configurations", full, red))
	n := 4000
	if c.Thorough {
		n = 80000
	}
	for i := 0; i < n; i++ {
		k := kinds[c.Rng.Intn(len(kinds))]
		in := randInput(c, 60)
		if strings.HasPrefix(k, "c:") && c.Rng.Intn(2) == 0 {
			// make separators/quotes of this configuration likely
			p := strings.Split(k, ":")
			special := append(parseRunes(p[1]), parseRunes(p[2])...)
			for j := range in {
				if len(special) > 0 && c.Rng.Intn(4) == 0 {
					in[j] = special[c.Rng.Intn(len(special))]
				}
			}
		}
		runC04Case(c, k, in)
		runC04Case(c, k, lexSoup(c, k, 14))
	}
}

func replayTok(c *Ctx, op string) {
	if replayEntry(c, op) || replayTokC(c, op) || replayErrPos(c, op) {
		return
	}
	if strings.HasPrefix(op, "hist ") || strings.HasPrefix(op, "tokh ") {
		replayC05(c, op)
		return
	}
	f := strings.Fields(op)
	if len(f) == 3 && f[0] == "retain" {
		propC12Retention(c)
		return
	}
	if len(f) != 4 {
		return
	}
	var o int
	fmt.Sscanf(f[2], "%d", &o)
	in := parseRunes(f[3])
	switch c.Prop {
	case "C04":
		runC04Case(c, f[1], in)
	case "C12":
		runC12Case(c, f[1], []int{o}, in)
	case "C15":
		runC15Case(c, f[1], []int{o}, in)
	}
}

// ---- C12 --------------------------------------------------------------------------------------

func rawStarts(raw []tk) []int {
	st := make([]int, len(raw))
	off := 0
	for i, r := range raw {
		st[i] = off
		off += len(r.Val)
	}
	return st
}

func runC12Case(c *Ctx, kind string, optSets []int, input []rune) {
	var t tokzr
	if st := safeCall(func() string { t = newTokenizer(kind); return "" }); st != "" {
		return
	}
	setOpts(t, 0)
	if c.Evals%3 == 1 {
		// positions do not depend on what the tokenizer read before: the empty text, a text that ends in a line break
		safeCall(func() string { t.TokenizeBuffer(""); t.TokenizeBuffer("x\r\n"); t.TokenizeBuffer(""); return "" })
	}
	raw, st := tokenizeOn(t, string(input))
	if st != "" {
		c.fail(Failure{Kind: "oracle", Op: tokOpLine(kind, 0, input), Impl: st, Note: "tokenizer did not return normally"})
		return
	}
	if msg := oracleLossless(input, raw); msg != "" && kind != "h" && kind != "H" {
		// the positions are positions in the INPUT: tokens that do not spell the input cannot carry them
		c.fail(Failure{Kind: "oracle", Op: tokOpLine(kind, 0, input), Impl: implLine(raw, ""), Note: "the option-free tokens do not spell the input the positions refer to: " + msg})
		return
	}
	multi := strings.ContainsAny(string(input), "\r\n")
	for _, o := range optSets {
		op := tokOpLine(kind, o, input)
		setOpts(t, o)
		if c.Evals%3 == 1 {
			safeCall(func() string { t.TokenizeBuffer(""); return "" }) // the empty text read immediately before
		}
		ts, st := tokenizeOn(t, string(input))
		c.record(op, multi && len(raw) > 2)
		c.count("kind:" + kind[:1])
		if multi {
			c.count("input:multi-line")
		}
		impl := implLine(ts, st)
		if st != "" {
			c.fail(Failure{Kind: "oracle", Op: op, Impl: impl, Note: "tokenizer did not return normally"})
			continue
		}
		exp, starts := postOracle(t, raw, o)
		aligned := len(exp) == len(ts)
		if aligned {
			for i := range exp {
				if exp[i].Typ != ts[i].Typ {
					aligned = false
				}
			}
		}
		if !aligned {
			c.count("unaligned-with-raw-stream(left to C15)")
		} else if msg := oraclePositions(input, ts, starts); msg != "" {
			if len(input) > 2000 {
				// the replay names the input; the evidence of the mismatch is in the note
				impl = fmt.Sprintf("<%d tokens>", len(ts))
			}
			c.fail(Failure{Kind: "oracle", Op: op, Impl: impl, Note: msg})
			continue
		}
		if len(input) <= modelMaxInput {
			c.model(op, impl, "model")
		}
	}
}

// inputs longer than this are checked by the direct oracles only (the model driver is not run on them)
const modelMaxInput = 5000

var allOpts = func() []int {
	a := make([]int, 128)
	for i := range a {
		a[i] = i
	}
	return a
}()

// tokens handed out earlier keep their values while the tokenizer goes on producing tokens, in the same input and in later ones
func propC12Retention(c *Ctx) {
	for _, k := range []string{"g", "e"} {
		for _, o := range []int{16 | 32, 64 | 16, 0} {
			op := fmt.Sprintf("retain %s %d", k, o)
			c.record(op, true)
			c.count("retained-token-lists")
			var note string
			st := safeCallT(20*time.Second, func() string {
				t := newTokenizer(k)
				setOpts(t, o)
				first := t.TokenizeBuffer("7 8\n9 'a' ?")
				want := showTks(conv(first))
				n := 2200
				if c.Thorough {
					n = 9000
				}
				for i := 0; i < n; i++ {
					t.TokenizeBuffer("1 2\n'b' 3")
					if i%50 == 0 || i == n-1 {
						if got := showTks(conv(first)); got != want {
							note = fmt.Sprintf("the tokens returned for %q read %s at first and %s after %d further TokenizeBuffer calls on the same tokenizer", "7 8\n9 'a' ?", want, got, i+1)
							return ""
						}
					}
				}
				return ""
			})
			if st != "" || note != "" {
				c.fail(Failure{Kind: "oracle", Op: op, Impl: st, Note: note})
			}
		}
	}
}

func propC12(c *Ctx) {
	propScaleTokenizers(c, "C12")
	propC12Retention(c)
	propErrorPositions(c)
	nCfg := 300
	if c.Thorough {
		nCfg = 6000
	}
	propCfgKinds(c, nCfg, func(kind string, in []rune) {
		if c.Rng.Intn(3) == 0 {
			in = append(append(append([]rune(nil), in...), '\n', '\r'), in...)
		}
		runC12Case(c, kind, []int{0, 127, 2 | 4 | 8 | 64, 16 | 32}, in)
	})
	kinds := []string{"g", "e", "m", "c:44:34"}
	alpha := []rune{'a', '1', ' ', '\n', '\r', '"', '/', '*', '-', '{', '}', ',', 0x4e16}
	maxL := 3
	if c.Thorough {
		maxL = 4
	}
	someOpts := []int{0, 127, 2 | 4 | 8 | 64, 1 | 16 | 32, 6, 64, 16}
	for _, k := range kinds {
		kk := k
		enumStrings(alpha, maxL, func(s []rune) {
			runC12Case(c, kk, someOpts, append([]rune(nil), s...))
		})
	}
	// line-break characters handed to other states by the user (CR a symbol, LF a word character, …): positions stay those of
	// the forward scan
	for _, ops := range []string{"D:13:13:s", "D:10:10:s", "D:13:13:w~W:13:13:1", "D:10:10:w~W:10:10:1", "D:13:13:s~D:10:10:s", "D:13:13:0", "D:10:13:q"} {
		for _, base := range []string{"g", "e"} {
			for _, in := range []string{"a\r\nb c\r\n\r\nd", "\r\na", "a\n\rb\rc\nd", "x\r", "\r\r\n\n", "ab\r\n12 'q'\r\n/*c*/ z"} {
				runC12Case(c, "K"+base+"|"+ops, []int{0, 127, 2 | 4, 16}, []rune(in))
			}
		}
	}
	for _, k := range kinds {
		for _, first := range []rune{0xfeff, 0xfffe, 0, 0x2028, 0x85, 0xa0, 0x200b} {
			for _, rest := range []string{"", "a", "a b\nc", " a", "\na", "12 + 3", "{{x}}", "a,b\r\nc"} {
				runC12Case(c, k, []int{0, 16 | 32, 127}, append([]rune{first}, []rune(rest)...))
			}
		}
	}
	for _, k := range kinds {
		kk := k
		enumStrings([]rune{'a', ' ', 0x1000a, 0x2000d, '\n', ','}, 3, func(s []rune) {
			runC12Case(c, kk, []int{0, 127}, append(append([]rune(nil), s...), 'b', ' ', 'c'))
		})
	}
	c.Notes = append(c.Notes, fmt.Sprintf("exhaustive: all strings of length <= %d over a 13-character alphabet with LF/CR x 7 option sets x 4 tokenizers; random multi-line inputs up to length 50 x all 128 option sets", maxL))
	n := 150
	if c.Thorough {
		n = 4000
	}
	for i := 0; i < n; i++ {
		in := randInput(c, 50)
		for j := range in {
			if c.Rng.Intn(6) == 0 {
				in[j] = []rune{'\n', '\r'}[c.Rng.Intn(2)]
			}
		}
		k := kinds[c.Rng.Intn(len(kinds))]
		runC12Case(c, k, allOpts, in)
		ls := lexSoup(c, k, 12)
		for j := range ls {
			if ls[j] == ' ' && c.Rng.Intn(3) == 0 {
				ls[j] = '\n'
			}
		}
		runC12Case(c, k, allOpts, ls)
	}
}

// ---- C15 --------------------------------------------------------------------------------------

func runC15Case(c *Ctx, kind string, optSets []int, input []rune) {
	var t tokzr
	if st := safeCall(func() string { t = newTokenizer(kind); return "" }); st != "" {
		return
	}
	setOpts(t, 0)
	raw, st := tokenizeOn(t, string(input))
	if st != "" {
		c.fail(Failure{Kind: "oracle", Op: tokOpLine(kind, 0, input), Impl: st, Note: "tokenizer did not return normally"})
		return
	}
	for _, o := range optSets {
		op := tokOpLine(kind, o, input)
		setOpts(t, o)
		ts, st := tokenizeOn(t, string(input))
		c.record(op, o != 0 && len(raw) > 2)
		c.count("kind:" + kind[:1])
		impl := implLine(ts, st)
		if st != "" {
			c.fail(Failure{Kind: "oracle", Op: op, Impl: impl, Note: "tokenizer did not return normally: " + st})
			continue
		}
		exp, _ := postOracle(t, raw, o)
		bad := ""
		if len(exp) != len(ts) {
			bad = fmt.Sprintf("stream has %d tokens; dropping/rewriting whole tokens of the option-free stream gives %d", len(ts), len(exp))
		} else {
			for i := range exp {
				if exp[i].Typ != ts[i].Typ || !sameRunes(exp[i].Val, ts[i].Val) {
					bad = fmt.Sprintf("token #%d is %d:%q; the option-free stream with whole tokens dropped/rewritten has %d:%q", i, ts[i].Typ, string(ts[i].Val), exp[i].Typ, string(exp[i].Val))
					break
				}
			}
		}
		if bad == "" {
			bad = oracleOptionPost(ts, o)
		}
		if bad != "" {
			c.fail(Failure{Kind: "oracle", Op: op, Impl: impl, Note: bad + " (option-free stream: " + showTks(raw) + ")"})
			continue
		}
		if c.Evals%8 == 5 {
			// the same scanner object handed over again after a rewind (also after an iteration that was abandoned right
			// after a presence query): the stream is the one of a first pass
			var again, third []tk
			st2 := safeCallT(5*time.Second, func() string {
				t2 := newTokenizer(kind)
				setOpts(t2, o)
				sc := newScanner(string(input))
				t2.TokenizeStream(sc)
				sc.Reset()
				again = conv(t2.TokenizeStream(sc))
				sc.Reset()
				t2.SetReader(sc)
				t2.HasNextToken()
				sc.Reset()
				third = conv(t2.TokenizeStream(sc))
				return ""
			})
			if st2 == "" && (!eqTks(again, ts) || !eqTks(third, ts)) {
				c.fail(Failure{Kind: "oracle", Op: op, Impl: showTks(again) + " / " + showTks(third), Spec: showTks(ts),
					Note: "TokenizeStream on the same scanner object after Reset (second pass / pass after an abandoned presence query) gives " + showTks(again) + " / " + showTks(third) + ", the first pass gave " + showTks(ts)})
				continue
			}
		}
		if c.Evals%8 == 6 {
			// the options in force are those set when a token is fetched: set AFTER the reader was assigned (streaming use),
			// changed between two passes over one reader
			var late []tk
			st3 := safeCallT(5*time.Second, func() string {
				t3 := newTokenizer(kind)
				setOpts(t3, (o*37+11)%128)
				t3.SetReader(newScanner(string(input)))
				setOpts(t3, o)
				var it []*tokenizers.Token
				for n := 0; t3.HasNextToken() && n < len(input)+8; n++ {
					it = append(it, t3.NextToken())
				}
				late = conv(it)
				return ""
			})
			if st3 == "" && !eqTks(late, ts) {
				c.fail(Failure{Kind: "oracle", Op: op, Impl: showTks(late), Spec: showTks(ts),
					Note: "with the options set AFTER SetReader (streaming use) the stream is " + showTks(late) + "; with the same options set before, " + showTks(ts)})
				continue
			}
		}
		if kind == "h" || kind == "H" || kind == "Q" {
			continue // a state written by the user: no model of it, the direct oracles decide
		}
		if c.Evals%16 == 0 {
			checkTokEntryPoints(c, kind, o, input, ts)
		}
		c.model(op, impl, "model")
	}
}

func propC15(c *Ctx) {
	propScaleTokenizers(c, "C15")
	nCfg := 300
	if c.Thorough {
		nCfg = 6000
	}
	propCfgKinds(c, nCfg, func(kind string, in []rune) {
		runC15Case(c, kind, []int{1 + c.Rng.Intn(127), 1 + c.Rng.Intn(127), 127, 64 | 16, 32}, in)
	})
	for _, in := range []string{"a 'b' \"c\" d", "'x''y'", "\"\"", "'unterminated", "1 'q' 2"} {
		runC15Case(c, "Q", allOpts, []rune(in))
	}
	// tokens of every public type: HexDecimal comes from a user number state only
	for _, k := range []string{"h", "H"} {
		for _, in := range []string{"a 12 0x1F 3.5 0 0xZ 07", "0x1F", "0xff+0X0a", "x=0x10 # c\n 0x", "'0x1' 0x2  0x3", "1 0x1 1.0 0x"} {
			runC15Case(c, k, allOpts, []rune(in))
		}
	}
	kinds := []string{"g", "e", "m", "c:44:34"}
	maxL := 2
	if c.Thorough {
		maxL = 3
	}
	for _, k := range kinds {
		kk := k
		enumStrings(classAlphabet, maxL, func(s []rune) {
			runC15Case(c, kk, allOpts, append([]rune(nil), s...))
		})
	}
	c.Notes = append(c.Notes, fmt.Sprintf("exhaustive: all strings of length <= %d over the 24-character class alphabet x all 128 option sets x 4 tokenizers; random inputs up to length 40 x all 128 option sets", maxL))
	n := 300
	if c.Thorough {
		n = 6000
	}
	for i := 0; i < n; i++ {
		k := kinds[c.Rng.Intn(len(kinds))]
		runC15Case(c, k, allOpts, randInput(c, 40))
		runC15Case(c, k, allOpts, lexSoup(c, k, 12))
	}
	_ = tokenizers.Eof
}

func init() {
	props["C04"] = propC04
	props["C12"] = propC12
	props["C15"] = propC15
	replays["C04"] = replayTok
	replays["C12"] = replayTok
	replays["C15"] = replayTok
}
