/-
C17 — character-class maps answer with the latest covering registration.
-/
import Verif.Model.CharMap

namespace Verif
namespace CharMap
variable {α : Type}

/-- Invariant: 256 initial entries and every "other" interval lies at or above U+0100. -/
def Inv (m : CharMap α) : Prop :=
  m.initial.length = 256 ∧ ∀ e ∈ m.others, 0x100 ≤ e.1

theorem setRange_length (ref : Option α) (lo hi : Nat) (i : Nat) (l : List (Option α)) :
    (setRange ref lo hi i l).length = l.length := by
  induction l generalizing i with
  | nil => rfl
  | cons x xs ih => simp [setRange, ih]

theorem setRange_get (ref : Option α) (lo hi : Nat) (i : Nat) (l : List (Option α)) (k : Nat) :
    (setRange ref lo hi i l)[k]? =
      if k < l.length then (if lo ≤ i + k ∧ i + k ≤ hi then some ref else l[k]?) else none := by
  induction l generalizing i k with
  | nil => simp [setRange]
  | cons x xs ih =>
    cases k with
    | zero => simp [setRange]; split <;> simp
    | succ k =>
      simp [setRange, ih]
      have : i + 1 + k = i + (k + 1) := by omega
      rw [this]

theorem empty_inv : (empty : CharMap α).Inv := by
  refine ⟨?_, ?_⟩
  · show (List.replicate 256 (none : Option α)).length = 256
    exact List.length_replicate ..
  · intro e he
    exact absurd he (List.not_mem_nil)

theorem add_inv (m : CharMap α) (lo hi : Nat) (r : Option α) (h : m.Inv) : (m.add lo hi r).Inv := by
  obtain ⟨h1, h2⟩ := h
  unfold add
  simp only
  split
  · refine ⟨by simp only [setRange_length, h1], ?_⟩
    intro e he
    simp only [List.mem_cons] at he
    rcases he with rfl | he
    · simp only; omega
    · exact h2 e he
  · exact ⟨by simp only [setRange_length, h1], h2⟩

/-- One registration step: the new map answers with the new reference inside the (clamped)
range and exactly as before outside it. -/
theorem lookup_add (m : CharMap α) (lo hi : Nat) (r : Option α) (c : Nat) (h : m.Inv) :
    (m.add lo hi r).lookup c = if lo ≤ c ∧ c ≤ clampEnd hi then r else m.lookup c := by
  obtain ⟨h1, _⟩ := h
  have ini : ∀ o, ({ initial := setRange r lo (clampEnd hi) 0 m.initial, others := o } :
      CharMap α).lookup c = if c < 0x100 then
        (if lo ≤ c ∧ c ≤ clampEnd hi then r else (m.initial[c]?).join) else findOther c o := by
    intro o
    unfold lookup
    split
    · rename_i hc
      have hc' : c < m.initial.length := by omega
      simp only [setRange_get, hc', if_true, Nat.zero_add]
      split <;> simp
    · rfl
  unfold add
  simp only
  by_cases hc : c < 0x100
  · split <;> (rw [ini]; simp only [hc, if_true, lookup])
  · split
    · rename_i hge
      rw [ini]
      simp only [hc, if_false, findOther, lookup]
      have : (max lo 0x100 ≤ c ∧ c ≤ clampEnd hi) ↔ (lo ≤ c ∧ c ≤ clampEnd hi) := by omega
      simp only [this]
    · rename_i hge
      rw [ini]
      have : ¬ (lo ≤ c ∧ c ≤ clampEnd hi) := by omega
      simp only [hc, this, if_false, lookup]

theorem lookup_empty (c : Nat) : (empty : CharMap α).lookup c = none := by
  unfold lookup empty
  split
  · rename_i h
    simp only [List.getElem?_replicate, h, if_true]; rfl
  · rfl

end CharMap

namespace MapOp
variable {α : Type}
open CharMap

theorem apply_inv (m : CharMap α) (op : MapOp α) (h : m.Inv) : (apply m op).Inv := by
  cases op with
  | add lo hi r => exact add_inv m lo hi r h
  | addDefault r => exact add_inv m 0 0xfffe r h
  | clear => exact empty_inv

theorem specRevD_append_single (d : Option α) (c : Nat) (l : List (MapOp α)) (op : MapOp α) :
    specRevD d c (l ++ [op]) = specRevD (specRevD d c [op]) c l := by
  induction l with
  | nil => cases op <;> simp [specRevD]
  | cons x xs ih =>
    cases x <;> simp [specRevD, ih]

theorem lookup_apply (m : CharMap α) (op : MapOp α) (c : Nat) (h : m.Inv) :
    (apply m op).lookup c = specRevD (m.lookup c) c [op] := by
  cases op with
  | add lo hi r => simp only [apply, specRevD]; exact lookup_add m lo hi r c h
  | addDefault r =>
    simp only [apply, specRevD]
    show (m.add 0 0xfffe r).lookup c = _
    rw [lookup_add m 0 0xfffe r c h]
    simp [clampEnd]
  | clear => simp only [apply, specRevD]; exact lookup_empty c

theorem run_lookup (m : CharMap α) (h : List (MapOp α)) (c : Nat) (hi : m.Inv) :
    (run m h).lookup c = specRevD (m.lookup c) c h.reverse := by
  induction h generalizing m with
  | nil => rfl
  | cons op ops ih =>
    show (run (apply m op) ops).lookup c = _
    rw [ih _ (apply_inv m op hi), List.reverse_cons, specRevD_append_single, lookup_apply m op c hi]

/-- **C17**: after *any* sequence of `AddInterval` / `AddDefaultInterval` / `Clear`, looking a
character up returns the reference supplied by the most recent registration whose range
contains it — and nothing if there is none or that registration carried the empty reference —
uniformly below and above U+0100 and for ranges that straddle the boundary. -/
theorem C17_lookup_latest (h : List (MapOp α)) (c : Nat) :
    (run CharMap.empty h).lookup c = spec h c := by
  rw [run_lookup _ _ _ empty_inv, lookup_empty]; rfl

/-- **C17 corollary**: a later registration with the empty reference really disables its range. -/
theorem C17_none_disables (h : List (MapOp α)) (lo hi c : Nat)
    (hc : lo ≤ c ∧ c ≤ clampEnd hi) :
    (run CharMap.empty (h ++ [.add lo hi none])).lookup c = none := by
  rw [C17_lookup_latest]
  simp [spec, specRevD, hc]

/-- **C17 corollary**: the latest registration wins inside its range, whatever came before. -/
theorem C17_latest_wins (h : List (MapOp α)) (lo hi c : Nat) (r : Option α)
    (hc : lo ≤ c ∧ c ≤ clampEnd hi) :
    (run CharMap.empty (h ++ [.add lo hi r])).lookup c = r := by
  rw [C17_lookup_latest]
  simp [spec, specRevD, hc]

/-- EOF (Go's `-1`) is never mapped. -/
theorem C17_eof_unmapped (m : CharMap α) : m.lookupO none = none := rfl

/-- Non-vacuity: a straddling range answers on both sides of U+0100 (spec side). -/
example : spec [MapOp.add 0x61 0x2000 (some 1), .add 0xff 0x101 (none : Option Nat)] 0x100 = none
    ∧ spec [MapOp.add 0x61 0x2000 (some 1), .add 0xff 0x101 (none : Option Nat)] 0x102 = some 1 := by
  constructor <;> decide

end MapOp
end Verif
