/-
Model of the tokenizer states (tokenizers/generic/*State.go, SymbolNode.go, SymbolRootNode.go,
calculator/tokenizers/*State.go, csv/*State.go, mustache/tokenizers/MustacheSpecialState.go),
written over the Scanner model, after the `fix:` repairs (D03 symbol text, D04 un-read of the
end-of-input slot on the fall-back paths).

Every Go loop is structural recursion on a fuel argument; callers pass `content.length + 2`
(each iteration consumes one slot, so this is never exhausted — see Props/C04 `*_fuel`).
-/
import Verif.Model.Scanner
import Verif.Model.CharMap

namespace Verif

/-! ### token types (tokenizers/TokenType.go) -/
namespace TT
def unknown : Nat := 0
def eof : Nat := 1
def eol : Nat := 2
def float : Nat := 3
def integer : Nat := 4
def hexDecimal : Nat := 5
def number : Nat := 6
def symbol : Nat := 7
def quoted : Nat := 8
def word : Nat := 9
def keyword : Nat := 10
def whitespace : Nat := 11
def comment : Nat := 12
def special : Nat := 13
end TT

structure Tok where
  typ : Nat
  value : List Rune
  line : Nat
  col : Nat
  deriving Repr, DecidableEq

/-- accumulator / look-ahead / scanner triple threaded through the reading loops -/
structure RW where
  acc : List Rune
  nx : Option Rune
  s : Scanner

def isDigit (c : Rune) : Bool := 48 ≤ c && c ≤ 57
def isEol (c : Rune) : Bool := c == 10 || c == 13

/-- `for p(next) { acc.Write(next); next = scanner.Read() }` (every Go condition is false on EOF) -/
def readWhile (p : Rune → Bool) : Nat → List Rune → Option Rune → Scanner → RW
  | 0, acc, nx, s => ⟨acc, nx, s⟩
  | f+1, acc, nx, s =>
    match nx with
    | none => ⟨acc, none, s⟩
    | some c =>
      if p c then readWhile p f (acc ++ [c]) (s.read).1 (s.read).2
      else ⟨acc, some c, s⟩

/-- `if !IsEof(next) { scanner.Unread() }` -/
def unreadIfNotEof (nx : Option Rune) (s : Scanner) : Scanner :=
  if nx.isSome then s.unread else s

/-! ### word / whitespace / `#`-comment states: one shape
`next := Read(); line,col := Line(),Column(); for p(next) {…}; if !eof {Unread()}` -/
def spanState (typ : Nat) (p : Rune → Bool) (fuel : Nat) (s : Scanner) : Tok × Scanner :=
  let r0 := s.read
  let w := readWhile p fuel [] r0.1 r0.2
  ({ typ := typ, value := w.acc, line := r0.2.line, col := r0.2.col }, unreadIfNotEof w.nx w.s)

/-! ### symbol table (SymbolNode tree) as a finite map path ↦ (valid, tokenType) -/
structure SymTab where
  nodes : List (List Rune × (Bool × Nat))
  deriving Repr

namespace SymTab

def empty : SymTab := ⟨[]⟩

def get (t : SymTab) (p : List Rune) : Option (Bool × Nat) :=
  (t.nodes.find? (fun e => e.1 == p)).map (·.2)

def setL (p : List Rune) (v : Bool × Nat) : List (List Rune × (Bool × Nat)) → List (List Rune × (Bool × Nat))
  | [] => [(p, v)]
  | e :: es => if e.1 == p then (p, v) :: es else e :: setL p v es

def set (t : SymTab) (p : List Rune) (v : Bool × Nat) : SymTab := ⟨setL p v t.nodes⟩

/-- `EnsureChildWithChar`: create the node (invalid, Unknown) if absent -/
def ensure (t : SymTab) (p : List Rune) : SymTab :=
  if (t.get p).isSome then t else t.set p (false, TT.unknown)

/-- `AddDescendantLine`: ensure a node for every prefix `pre ++ rest.take k`, k = 1 … -/
def ensureLine (t : SymTab) (pre : List Rune) : List Rune → SymTab
  | [] => t
  | c :: rest => ensureLine (t.ensure (pre ++ [c])) (pre ++ [c]) rest

/-- `SymbolRootNode.Add(value, tokenType)` for a non-empty value (Go panics on ""). -/
def add (t : SymTab) (sym : List Rune) (typ : Nat) : SymTab :=
  match sym with
  | [] => t
  | c0 :: rest =>
    let t1 := t.ensure [c0]
    let t2 := if ((t1.get [c0]).map (·.2)) == some TT.unknown then t1.set [c0] (true, TT.symbol) else t1
    let t3 := ensureLine t2 [c0] rest
    t3.set (c0 :: rest) (true, typ)

def valid (t : SymTab) (p : List Rune) : Bool := ((t.get p).map (·.1)).getD false
def typeOf (t : SymTab) (p : List Rune) : Nat := ((t.get p).map (·.2)).getD TT.unknown

/-- `DeepestRead`: starting at node `path`, follow children as long as the input matches. -/
def deepest (t : SymTab) : Nat → List Rune → Scanner → List Rune × Scanner
  | 0, path, s => (path, s)
  | f+1, path, s =>
    match (s.read).1 with
    | none => (path, (s.read).2.unread)
    | some c =>
      if (t.get (path ++ [c])).isSome then deepest t f (path ++ [c]) (s.read).2
      else (path, (s.read).2.unread)

/-- `UnreadToValid`: back up to the nearest valid ancestor (first-level nodes have the root,
whose parent is nil, above them: the walk stops there at the latest). -/
def unreadToValid (t : SymTab) : Nat → List Rune → Scanner → List Rune × Scanner
  | 0, path, s => (path, s)
  | f+1, path, s =>
    if !t.valid path && path.length > 1 then unreadToValid t f path.dropLast s.unread
    else (path, s)

/-- `SymbolRootNode.NextToken` -/
def nextToken (t : SymTab) (fuel : Nat) (s : Scanner) : Tok × Scanner :=
  let r0 := s.read
  match r0.1 with
  | none => ({ typ := TT.symbol, value := [0xFFFD], line := r0.2.line, col := r0.2.col }, r0.2)
  | some c =>
    if (t.get [c]).isSome then
      let d := deepest t fuel [c] r0.2
      let u := unreadToValid t (d.1.length) d.1 d.2
      ({ typ := t.typeOf u.1, value := u.1, line := r0.2.line, col := r0.2.col }, u.2)
    else
      ({ typ := TT.symbol, value := [c], line := r0.2.line, col := r0.2.col }, r0.2)

end SymTab

/-! ### csv symbol state -/
def csvSymbolState (t : SymTab) (fuel : Nat) (s : Scanner) : Tok × Scanner :=
  let r0 := s.read
  match r0.1 with
  | some c =>
    if c != 10 && c != 13 then
      ({ typ := TT.symbol, value := [c], line := r0.2.line, col := r0.2.col }, r0.2)
    else t.nextToken fuel r0.2.unread
  | none => ({ typ := TT.symbol, value := [0xFFFD], line := r0.2.line, col := r0.2.col }, r0.2)

/-! ### number states -/

/-- GenericNumberState.NextToken (with the D04 repair); `sym` is the tokenizer's symbol state -/
def numberState (sym : Scanner → Tok × Scanner) (fuel : Nat) (s : Scanner) : Tok × Scanner :=
  let r0 := s.read
  let a : RW := if r0.1 == some 45 then ⟨[45], (r0.2.read).1, (r0.2.read).2⟩ else ⟨[], r0.1, r0.2⟩
  let b := readWhile isDigit fuel a.acc a.nx a.s
  let got1 : Bool := b.acc.length > a.acc.length
  let absorbedDot : Bool := b.nx == some 46
  let c : RW := if absorbedDot then ⟨b.acc ++ [46], (b.s.read).1, (b.s.read).2⟩ else b
  let d : RW := if absorbedDot then readWhile isDigit fuel c.acc c.nx c.s else c
  let got : Bool := got1 || d.acc.length > c.acc.length
  let s1 := unreadIfNotEof d.nx d.s
  if !got then
    let s2 := if d.nx.isNone then s1.unread else s1
    sym (s2.unreadMany d.acc.length)
  else
    ({ typ := if absorbedDot then TT.float else TT.integer, value := d.acc,
       line := r0.2.line, col := r0.2.col }, s1)

/-- `for IsDigit(peek) { next = Read(); acc.Write(next); peek }` -/
def readWhilePeek (p : Rune → Bool) : Nat → List Rune → Scanner → List Rune × Scanner
  | 0, acc, s => (acc, s)
  | f+1, acc, s =>
    match s.peek with
    | none => (acc, s)
    | some c => if p c then readWhilePeek p f (acc ++ [c]) (s.read).2 else (acc, s)

/-- ExpressionNumberState.NextToken -/
def exprNumberState (sym : Scanner → Tok × Scanner) (fuel : Nat) (s : Scanner) : Tok × Scanner :=
  if s.peek == some 45 then sym s
  else
    let g := numberState sym fuel s
    if g.1.typ != TT.integer && g.1.typ != TT.float then g
    else
      let s1 := g.2
      if s1.peek != some 101 && s1.peek != some 69 then g
      else
        let e := (s1.read).1.getD 0
        let s2 := (s1.read).2
        let sgn : Bool := s2.peek == some 45 || s2.peek == some 43
        let acc2 : List Rune := if sgn then [e, (s2.peek).getD 0] else [e]
        let s3 := if sgn then (s2.read).2 else s2
        match s3.peek with
        | none => (g.1, s3.unreadMany acc2.length)
        | some c =>
          if !isDigit c then (g.1, s3.unreadMany acc2.length)
          else
            let w := readWhilePeek isDigit fuel acc2 s3
            ({ typ := TT.float, value := g.1.value ++ w.1, line := s.peekLine, col := s.peekColumn }, w.2)

/-! ### quote states -/

/-- GenericQuoteState loop: `for !eof { write(next); if next == first {break}; next = Read() }` -/
def quoteLoop (q : Rune) : Nat → List Rune → Option Rune → Scanner → List Rune × Scanner
  | 0, acc, _, s => (acc, s)
  | f+1, acc, nx, s =>
    match nx with
    | none => (acc, s)
    | some c =>
      if c == q then (acc ++ [c], s)
      else quoteLoop q f (acc ++ [c]) (s.read).1 (s.read).2

def genericQuoteState (fuel : Nat) (s : Scanner) : Tok × Scanner :=
  let r0 := s.read
  let q := r0.1.getD 0
  let r1 := r0.2.read
  let w := quoteLoop q fuel [q] r1.1 r1.2
  ({ typ := TT.quoted, value := w.1, line := r0.2.line, col := r0.2.col }, w.2)

/-- Expression/Csv quote loop with doubled-quote escapes. -/
def quoteLoop2 (q : Rune) : Nat → List Rune → Option Rune → Scanner → List Rune × Scanner
  | 0, acc, _, s => (acc, s)
  | f+1, acc, nx, s =>
    match nx with
    | none => (acc, s)
    | some c =>
      if c == q then
        if s.peek == some q then
          quoteLoop2 q f (acc ++ [c, q]) ((s.read).2.read).1 ((s.read).2.read).2
        else (acc ++ [c], s)
      else quoteLoop2 q f (acc ++ [c]) (s.read).1 (s.read).2

/-- ExpressionQuoteState (`wordForDq = true`: a `"`-literal is a Word) / CsvQuoteState. -/
def escQuoteState (wordForDq : Bool) (fuel : Nat) (s : Scanner) : Tok × Scanner :=
  let r0 := s.read
  let q := r0.1.getD 0
  let r1 := r0.2.read
  let w := quoteLoop2 q fuel [q] r1.1 r1.2
  ({ typ := if wordForDq && q == 34 then TT.word else TT.quoted, value := w.1,
     line := r0.2.line, col := r0.2.col }, w.2)

/-! ### quote codecs -/

/-- `strings.ReplaceAll(s, q, qq)` on runes -/
def doubleQ (q : Rune) : List Rune → List Rune
  | [] => []
  | c :: cs => if c == q then q :: q :: doubleQ q cs else c :: doubleQ q cs

/-- `strings.ReplaceAll(s, qq, q)` on runes (left to right, non-overlapping) -/
def undoubleQ (q : Rune) : List Rune → List Rune
  | [] => []
  | [c] => [c]
  | c :: d :: cs =>
    if c == q && d == q then q :: undoubleQ q cs else c :: undoubleQ q (d :: cs)

def encodeGeneric (q : Rune) (v : List Rune) : List Rune := [q] ++ v ++ [q]
def encodeEsc (q : Rune) (v : List Rune) : List Rune := [q] ++ doubleQ q v ++ [q]

/-- strip one leading and one trailing `q` when both are present and length ≥ 2 -/
def stripQ (q : Rune) (v : List Rune) : Option (List Rune) :=
  if v.length ≥ 2 && v.head? == some q && v.getLast? == some q then some ((v.drop 1).dropLast) else none

def decodeGeneric (q : Rune) (v : List Rune) : List Rune := (stripQ q v).getD v
def decodeEsc (q : Rune) (v : List Rune) : List Rune :=
  match stripQ q v with
  | some inner => undoubleQ q inner
  | none => v

/-! ### comment states -/

/-- `GetMultiLineComment` loop -/
def mlLoop : Nat → List Rune → Rune → Option Rune → Scanner → List Rune × Scanner
  | 0, acc, _, _, s => (acc, s)
  | f+1, acc, last, nx, s =>
    match nx with
    | none => (acc, s)
    | some c =>
      if last == 42 && c == 47 then (acc ++ [c], s)
      else mlLoop f (acc ++ [c]) c (s.read).1 (s.read).2

/-- CCommentState.NextToken (with the D04 repair on the fall-back path) -/
def cCommentState (sym : Scanner → Tok × Scanner) (fuel : Nat) (s : Scanner) : Tok × Scanner :=
  let r0 := s.read
  let r1 := r0.2.read
  if r1.1 == some 42 then
    let r2 := r1.2.read
    let w := mlLoop fuel [47, 42] 0 r2.1 r2.2
    ({ typ := TT.comment, value := w.1, line := r0.2.line, col := r0.2.col }, w.2)
  else sym (r1.2.unread.unread)

/-! ### mustache special state -/

/-- MustacheSpecialState loop: text up to (not including) the next `{{` -/
def specialLoop : Nat → List Rune → Option Rune → Scanner → List Rune × Scanner
  | 0, acc, _, s => (acc, s)
  | f+1, acc, nx, s =>
    match nx with
    | none => (acc, s)
    | some c =>
      if c == 123 && s.peek == some 123 then (acc, s.unread)
      else specialLoop f (acc ++ [c]) (s.read).1 (s.read).2

def specialState (fuel : Nat) (s : Scanner) : Tok × Scanner :=
  let r0 := s.read
  let w := specialLoop fuel [] r0.1 r0.2
  ({ typ := TT.special, value := w.1, line := s.peekLine, col := s.peekColumn }, w.2)

end Verif
