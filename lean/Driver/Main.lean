/-
vdrv — line-protocol driver for the executable model.  One op per input line, one answer line
per op.  Core Lean only (must link as a native executable).
-/
import Verif.Model.Scanner
import Verif.Model.CharMap
import Verif.Model.States
import Verif.Model.Tokenizer
import Verif.Model.ExprParser
import Verif.Model.Value
import Verif.Model.FloatConv
import Verif.Model.Funcs
import Verif.Model.Calc
import Verif.Model.Pipeline
import Verif.Model.Mustache
import Verif.Model.Variant
import Verif.Model.VariantHeap

open Verif

namespace Drv

def parseNat? (s : String) : Option Nat := s.toNat?

/-- `-` = empty list, otherwise comma-separated decimals. -/
def parseRunes (s : String) : List Nat :=
  if s == "-" then [] else (s.splitOn ",").filterMap parseNat?

def showRunes (l : List Nat) : String :=
  if l.isEmpty then "-" else ",".intercalate (l.map toString)

def showOR : Option Nat → String
  | none => "-1"
  | some r => toString r

/-! ### scan -/

def scanObs (s : Scanner) : String :=
  s!"{s.line}/{s.col}/{showOR s.peek}/{s.peekLine}/{s.peekColumn}"

def scanOp (s : Scanner) (op : String) : Scanner × String :=
  if op == "r" then
    let r := s.read
    (r.2, s!"{showOR r.1}/{scanObs r.2}")
  else if op == "u" then
    let s' := s.unread
    (s', s!"_/{scanObs s'}")
  else if op.startsWith "m" then
    match (op.drop 1).toNat? with
    | some n => let s' := s.unreadMany n; (s', s!"_/{scanObs s'}")
    | none => (s, "bad-op")
  else if op == "p" || op == "l" || op == "c" then (s, s!"_/{scanObs s}")
  else if op == "x" then
    let s' := s.reset
    (s', s!"_/{scanObs s'}")
  else (s, "bad-op")

def doScan (args : List String) : String :=
  match args with
  | [] => "bad-op"
  | c :: ops =>
    let s0 := Scanner.new (parseRunes c)
    let (_, outs) := ops.foldl (fun (acc : Scanner × List String) op =>
      let (s', o) := scanOp acc.1 op
      (s', o :: acc.2)) (s0, [])
    " ".intercalate (scanObs s0 :: outs.reverse)

/-- spec side for scan: line/col of a fresh forward scan to each position 0..len+1 -/
def doScanSpec (args : List String) : String :=
  match args with
  | [c] =>
    let cs := parseRunes c
    " ".intercalate ((List.range (cs.length + 2)).map fun k =>
      let lc := lcUpTo cs k; s!"{lc.1}/{lc.2}")
  | _ => "bad-op"

/-! ### cmap: `cmap <op>* ? <probe>*`; op = a:lo:hi:ref | d:ref | c ; ref = n (nil) or a number -/

def parseRef (s : String) : Option Nat := if s == "n" then none else s.toNat?

def showRef : Option Nat → String
  | none => "n"
  | some r => toString r

def parseMapOp (s : String) : Option (MapOp Nat) :=
  match s.splitOn ":" with
  | ["a", lo, hi, r] =>
    match lo.toNat?, hi.toNat? with
    | some lo, some hi => some (.add lo hi (parseRef r))
    | _, _ => none
  | ["d", r] => some (.addDefault (parseRef r))
  | ["c"] => some .clear
  | _ => none

def doCmap (args : List String) : String :=
  let opsS := args.takeWhile (· != "?")
  let probesS := (args.dropWhile (· != "?")).drop 1
  let ops := opsS.filterMap parseMapOp
  if ops.length != opsS.length then "bad-op"
  else if ops.any (fun o => !o.ok) then "panic"
  else
    let m := MapOp.run (CharMap.empty : CharMap Nat) ops
    let model := probesS.map fun p =>
      match p.toInt? with
      | some i => if i < 0 then showRef (m.lookupO none) else showRef (m.lookup i.toNat)
      | none => "bad"
    let spec := probesS.map fun p =>
      match p.toInt? with
      | some i => if i < 0 then "n" else showRef (MapOp.spec ops i.toNat)
      | none => "bad"
    " ".intercalate model ++ " | " ++ " ".intercalate spec


/-! ### tokenizers -/

def showTok (t : Tok) : String := s!"{t.typ}:{showRunes t.value}:{t.line}:{t.col}"
def showToks (l : List Tok) : String := if l.isEmpty then "-" else " ".intercalate (l.map showTok)

def parseKind (k : String) : Option Cfg :=
  if k == "g" then some genericCfg
  else if k == "e" then some expressionCfg
  else if k == "m" then some mustacheCfg
  else match k.splitOn ":" with
    | [h, seps, quotes] =>
      -- "c" / "C" / "D": the same configuration reached through different histories of setter calls
      if h != "c" && h != "C" && h != "D" && h != "E" then none else
      let ss := parseRunes seps; let qs := parseRunes quotes
      if csvValid ss qs then some (csvCfg ss qs) else none
    | _ => none

def bit (n i : Nat) : Bool := (n / (2 ^ i)) % 2 == 1

/-- bit0 skipUnknown, 1 skipWhitespaces, 2 skipComments, 3 skipEof, 4 merge, 5 unify, 6 decode -/
def parseOpts (s : String) : Opts :=
  let n := s.toNat?.getD 0
  ⟨bit n 0, bit n 1, bit n 2, bit n 3, bit n 4, bit n 5, bit n 6⟩

def doTok (args : List String) : String :=
  match args with
  | [k, o, inp] =>
    match parseKind k with
    | some cfg => showToks (tokenize cfg (parseOpts o) (parseRunes inp))
    | none => "panic"
  | _ => "bad-op"

def parseStateId (x : String) : Option (Option StateId) :=
  if x == "w" then some (some .word) else if x == "n" then some (some .number)
  else if x == "s" then some (some .symbol) else if x == "q" then some (some .quote)
  else if x == "c" then some (some .comment) else if x == "b" then some (some .whitespace)
  else if x == "0" then some none else none

/-- `D:lo:hi:x` `DC` `W:lo:hi:0|1` `WC` `B:lo:hi:0|1` `BC` `Y:runes:type` -/
def parseCfgOp (t : String) : Option CfgOp :=
  match t.splitOn ":" with
  | ["D", lo, hi, x] =>
    match lo.toNat?, hi.toNat?, parseStateId x with
    | some a, some b, some st => some (.state a b st)
    | _, _, _ => none
  | ["DC"] => some .clearStates
  | ["W", lo, hi, e] =>
    match lo.toNat?, hi.toNat? with
    | some a, some b => some (.wordChars a b (e == "1"))
    | _, _ => none
  | ["WC"] => some .clearWordChars
  | ["B", lo, hi, e] =>
    match lo.toNat?, hi.toNat? with
    | some a, some b => some (.wsChars a b (e == "1"))
    | _, _ => none
  | ["BC"] => some .clearWsChars
  | ["Y", v, ty] =>
    match ty.toNat? with
    | some n => some (.symbol (parseRunes v) n)
    | none => none
  | _ => none

/-- `tokc <g|e> <opts> <cfgop>~<cfgop>… <runes>`: a constructed tokenizer reconfigured by the user -/
def doTokC (args : List String) : String :=
  match args with
  | [k, o, cs, inp] =>
    match parseKind k with
    | some cfg =>
      let ops := (cs.splitOn "~").filterMap parseCfgOp
      if ops.length != (cs.splitOn "~").length then "bad-op"
      else if !ops.all CfgOp.ok then "panic"
      else match tokenizeChecked (cfg.configureAll ops) (parseOpts o) (parseRunes inp) with
        | some ts => showToks ts
        | none => "panic"
    | none => "panic"
  | _ => "bad-op"

/-- spec side of C15: post-processing of the raw stream (+ Eof) -/
def doTokSpec (args : List String) : String :=
  match args with
  | [k, o, inp] =>
    match parseKind k with
    | some cfg =>
      let c := parseRunes inp
      let raw := rawAllA cfg (c.length + 2) (Scanner.new c)
      showToks (post cfg (parseOpts o) TT.unknown raw)
    | none => "panic"
  | _ => "bad-op"

/-- has-next interleaving: pattern digit i = number of HasNextToken calls before the i-th NextToken -/
partial def drainH (cfg : Cfg) (o : Opts) (pat : List Nat) (i : Nat) (st : TState) (acc : List Tok) (fuel : Nat) : List Tok :=
  if fuel == 0 then acc.reverse else
  let k := pat.getD (i % (max pat.length 1)) 0
  let st1 := (List.range k).foldl (fun st _ => (hasNext cfg o st).2) st
  match nextTok cfg o st1 with
  | (none, _) => acc.reverse
  | (some t, st2) => drainH cfg o pat (i+1) st2 (t :: acc) (fuel - 1)

def doTokH (args : List String) : String :=
  match args with
  | [k, o, pat, inp] =>
    match parseKind k with
    | some cfg =>
      let c := parseRunes inp
      let p := pat.toList.map (fun ch => ch.toNat - 48)
      showToks (drainH cfg (parseOpts o) p 0 (TState.start c) [] (c.length + 3))
    | none => "panic"
  | _ => "bad-op"

/-! ### symbol tables: `sym <runes:type>* ! <input>` -/

partial def symAll (t : SymTab) (s : Scanner) (acc : List Tok) (fuel : Nat) : List Tok :=
  if fuel == 0 then acc.reverse else
  match s.peek with
  | none => acc.reverse
  | some _ =>
    let r := t.nextToken (s.content.length + 2) s
    symAll t r.2 (r.1 :: acc) (fuel - 1)

def doSym (args : List String) : String :=
  let regsS := args.takeWhile (· != "!")
  let inp := ((args.dropWhile (· != "!")).drop 1).headD "-"
  let regs := regsS.filterMap fun r =>
    match r.splitOn ":" with
    | [rs, ty] => (ty.toNat?).map fun n => (parseRunes rs, n)
    | _ => none
  if regs.length != regsS.length then "bad-op" else
  let t := regs.foldl (fun t e => t.add e.1 e.2) SymTab.empty
  let c := parseRunes inp
  showToks (symAll t (Scanner.new c) [] (c.length + 2))

/-! ### quote codecs: `quote g|e|c <q> enc|dec|tok <text>` -/

def doQuote (args : List String) : String :=
  match args with
  | [st, q, what, txt] =>
    match q.toNat? with
    | none => "bad-op"
    | some q =>
      let v := parseRunes txt
      let esc := st != "g"
      if what == "enc" then showRunes (if esc then encodeEsc q v else encodeGeneric q v)
      else if what == "dec" then showRunes (if esc then decodeEsc q v else decodeGeneric q v)
      else if what == "tok" then
        let s := Scanner.new v
        let r := if st == "g" then genericQuoteState (v.length + 2) s
                 else escQuoteState (st == "e") (v.length + 2) s
        s!"{showTok r.1} {showOR r.2.peek}"
      else "bad-op"
  | _ => "bad-op"

/-! ### expression parser: `parse <tok>*`, tok = code | 35:runes | 34:runes | 36:payload -/

def parseETok (t : String) : Option (ETok String) :=
  match t.splitOn ":" with
  | [c] => c.toNat?.map fun n => ⟨ET.ofCode n, [], none, 0⟩
  | [c, p] =>
    match c.toNat? with
    | some 35 => some ⟨.variable, parseRunes p, none, 0⟩
    | some 34 => some ⟨.function, parseRunes p, none, 0⟩
    | some 36 => some ⟨.constant, [], some p, 0⟩
    | _ => none
  | _ => none

def showETok (t : ETok String) : String :=
  match t.typ with
  | .variable => s!"35:{showRunes t.name}"
  | .function => s!"34:{showRunes t.name}"
  | .constant => match t.cst with
    | some p => s!"36:{p}"
    | none => s!"36:i{t.argc}"
  | ty => toString ty.toNat

def parseFuel (n : Nat) : Nat := 16 * (n + 2)

def runParse (toks : List (ETok String)) : Except PErr (PState String) :=
  match Parser.p0 (parseFuel toks.length) ⟨toks, [], []⟩ with
  | .error e => .error e
  | .ok st => if st.rest.isEmpty then .ok st else .error .errorNear

def doParse (args : List String) : String :=
  let toks := args.filterMap parseETok
  if toks.length != args.length then "bad-op"
  else if toks.isEmpty then "ok - ; -"
  else match runParse toks with
    | .error e => s!"err {e.code}"
    | .ok st =>
      let out := if st.out.isEmpty then "-" else " ".intercalate (st.out.map showETok)
      let vars := if st.vars.isEmpty then "-" else " ".intercalate (st.vars.map showRunes)
      s!"ok {out} ; {vars}"

/-! ### values: encoding shared with the Go harness -/

def hexDigit (n : Nat) : Char := if n < 10 then Char.ofNat (48 + n) else Char.ofNat (87 + n)
def toHex (width : Nat) (n : Nat) : String :=
  String.ofList ((List.range width).reverse.map fun i => hexDigit ((n / (16 ^ i)) % 16))
def fromHex (s : String) : Option Nat :=
  s.toList.foldl (fun acc ch =>
    match acc with
    | none => none
    | some a =>
      let c := ch.toNat
      if 48 ≤ c && c ≤ 57 then some (a * 16 + (c - 48))
      else if 97 ≤ c && c ≤ 102 then some (a * 16 + (c - 87))
      else none) (some 0)

partial def encV : V → String
  | .null => "n"
  | .int v => s!"i{v.toInt}"
  | .long v => s!"l{v.toInt}"
  | .float f => if f != f then "fNaN" else "f" ++ toHex 8 f.toBits.toNat
  | .double d => if d != d then "dNaN" else "d" ++ toHex 16 d.toBits.toNat
  | .str s => "s" ++ ".".intercalate (s.map toString)
  | .bool b => if b then "b1" else "b0"
  | .dateTime s n => s!"t{s}.{n}"
  | .timeSpan ns => s!"p{ns.toInt}"
  | .object _ => "o"
  | .array es => "a[" ++ "/".intercalate (es.map encV) ++ "]"
  | .host tag args => "H" ++ tag ++ "(" ++ ";".intercalate (args.map encV) ++ ")"

/-- split "x/y/a[z/w]" at top-level slashes -/
def splitTop (s : List Char) : List (List Char) :=
  let rec go (cs : List Char) (depth : Nat) (cur : List Char) (acc : List (List Char)) : List (List Char) :=
    match cs with
    | [] => (cur.reverse :: acc).reverse
    | c :: rest =>
      if c == '[' then go rest (depth + 1) (c :: cur) acc
      else if c == ']' then go rest (depth - 1) (c :: cur) acc
      else if c == '/' && depth == 0 then go rest depth [] (cur.reverse :: acc)
      else go rest depth (c :: cur) acc
  go s 0 [] []

partial def decV (s : String) : Option V :=
  match s.toList with
  | [] => none
  | 'n' :: [] => some .null
  | 'i' :: r => (String.ofList r).toInt?.map fun i => V.int (Int64.ofInt i)
  | 'l' :: r => (String.ofList r).toInt?.map fun i => V.long (Int64.ofInt i)
  | 'f' :: r =>
    if String.ofList r == "NaN" then some (.float (Float32.ofBits 0x7fc00000))
    else (fromHex (String.ofList r)).map fun n => V.float (Float32.ofBits n.toUInt32)
  | 'd' :: r =>
    if String.ofList r == "NaN" then some (.double (Float.ofBits 0x7ff8000000000000))
    else (fromHex (String.ofList r)).map fun n => V.double (Float.ofBits n.toUInt64)
  | 's' :: r =>
    if r.isEmpty then some (.str [])
    else some (.str (((String.ofList r).splitOn ".").filterMap String.toNat?))
  | 'b' :: r => some (.bool (String.ofList r == "1"))
  | 't' :: r =>
    -- a zone suffix `@name:offset` (representation only) is ignored: operators see instants
    match ((String.ofList r).splitOn "@").headD "" |>.splitOn "." with
    | [a, b] => match a.toInt?, b.toNat? with
      | some a, some b => some (.dateTime a b)
      | _, _ => none
    | _ => none
  | 'p' :: r => (String.ofList r).toInt?.map fun i => V.timeSpan (Int64.ofInt i)
  | 'o' :: _ => some (.object 0)
  | 'a' :: '[' :: r =>
    let inner := r.dropLast
    if inner.isEmpty then some (.array [])
    else
      let parts := (splitTop inner).map fun p => decV (String.ofList p)
      if parts.all Option.isSome then some (.array (parts.filterMap id)) else none
  | _ => none

def encR : R → String
  | .ok v => "ok " ++ encV v
  | .err c => "err " ++ c
  | .panic s => "panic " ++ s

def parseMgr (s : String) : Mgr := if s == "s" then .safe else .unsafe_

def opNames : List (String × Op) :=
  [("add", .add), ("sub", .sub), ("mul", .mul), ("div", .div), ("mod", .mod), ("pow", .pow),
   ("and", .and), ("or", .or), ("xor", .xor), ("lsh", .lsh), ("rsh", .rsh), ("not", .not),
   ("neg", .neg), ("equal", .equal), ("notEqual", .notEqual), ("more", .more), ("less", .less),
   ("moreEqual", .moreEqual), ("lessEqual", .lessEqual), ("in", .in_), ("getElement", .getElement)]

def doOp (args : List String) : String :=
  match args with
  | [m, name, a, b] =>
    match opNames.lookup name, decV a, decV b with
    | some op, some va, some vb => encR (binop (parseMgr m) op va vb)
    | _, _, _ => "bad-op"
  | [_, name, a] =>
    match opNames.lookup name, decV a with
    | some op, some va => encR (unop op va)
    | _, _ => "bad-op"
  | _ => "bad-op"

/-- tie of `Model/FloatConv.lean` (the bit-level conversions the C07 float theorems are about) to the conversions
the model computes with: checked on every value a `conv` line carries -/
def convBitsOk : V → Bool
  | .int i | .long i => (i64ToF64 i).toBits.toNat == i64ToF64Bits i.toInt
  | .double d =>
    match f64BitsToInt d.toBits.toNat with
    | some k => (f64ToI64 d).toInt == k
    | none => f64ToI64 d == minI64
  | _ => true

def doConv (args : List String) : String :=
  match args with
  | [m, a, t] =>
    match decV a, t.toNat? with
    | some va, some tn =>
      if convBitsOk va then encR (convert (parseMgr m) va (VT.ofCode tn))
      else "model-inconsistent: Model/FloatConv.lean disagrees with the float conversions of Model/Value.lean"
    | _, _ => "bad-op"
  | _ => "bad-op"

/-! ### functions, evaluation, collections -/

def doFn (args : List String) : String :=
  match args with
  | m :: name :: vs =>
    let vals := vs.map decV
    if vals.all Option.isSome then encR (callFn (parseMgr m) (parseRunes name) (vals.filterMap id))
    else "bad-op"
  | _ => "bad-op"

def encOut : Out V → String
  | .ok v => "ok " ++ encV v
  | .err c => "err " ++ c
  | .panic s => "panic " ++ s

def decConst (p : String) : V := (decV p).getD .null

/-- `run`, except that the comparison is abandoned (host result) as soon as a host-dependent
value reaches the stack: what follows would depend on a value the model does not know -/
def runH {κ : Type} (env : EvalEnv κ V) : List (ETok κ) → List V → Out V
  | [], [v] => .ok v
  | [], _ => .err "INTERNAL"
  | t :: ts, st =>
    match evalStep env t st with
    | .ok st' =>
      if (st'.head?.map isHostV).getD false then .ok (.host "eval" []) else runH env ts st'
    | .err c => .err c
    | .panic s => .panic s

/-- `eval <mgr> <tok>* ; <name>=<value>*` -/
def doEval (args : List String) : String :=
  match args with
  | m :: rest =>
    let toksS := rest.takeWhile (· != ";")
    let varsS := (rest.dropWhile (· != ";")).drop 1
    let toks := toksS.filterMap parseETok
    let vars := varsS.filterMap fun b =>
      match b.splitOn "=" with
      | [n, v] => (decV v).map fun vv => (parseRunes n, vv)
      | _ => none
    if toks.length != toksS.length || vars.length != varsS.length then "bad-op"
    else encOut (runH (calcEnv (parseMgr m) decConst vars) toks [])
  | _ => "bad-op"

/-! ### the text pipeline: `lit <runes>` (numeric constant), `lex <runes>` (initial tokens of
ParseString), `calc <mgr> <runes> ; <name>=<value>*` (SetExpression + EvaluateUsingVariables) -/

def doLit (args : List String) : String :=
  match args with
  | [v] =>
    let r := parseRunes v
    if r.all isDigitR && !r.isEmpty then
      match decodeInt r with
      | some i => s!"i{i.toInt}"
      | none => "range"
    else match decodeFloat32 r with
      | some b => "f" ++ toHex 8 b.toNat
      | none => "range"
  | _ => "bad-op"

def showETokV (t : ETok V) : String :=
  match t.typ with
  | .variable => s!"35:{showRunes t.name}"
  | .function => s!"34:{showRunes t.name}"
  | .constant => match t.cst with
    | some v => s!"36:{encV v}"
    | none => s!"36:i{t.argc}"
  | ty => toString ty.toNat

def doLex (args : List String) : String :=
  match args with
  | [v] =>
    match lexAnalysis (tokenizeExpression (parseRunes v)) with
    | .error e => s!"err {e.code}"
    | .ok ts => if ts.isEmpty then "ok -" else "ok " ++ " ".intercalate (ts.map showETokV)
  | _ => "bad-op"

def doCalc (args : List String) : String :=
  match args with
  | m :: text :: rest =>
    let varsS := (rest.dropWhile (· != ";")).drop 1
    let vars := varsS.filterMap fun b =>
      match b.splitOn "=" with
      | [n, v] => (decV v).map fun vv => (parseRunes n, vv)
      | _ => none
    if vars.length != varsS.length then "bad-op"
    else match parseString (parseRunes text) with
      | .lexErr e => s!"parse-err {e.code}"
      | .synErr e => s!"parse-err {e.code}"
      | .ok prog _ => encOut (runH (textEnv (parseMgr m) vars) prog [])
  | _ => "bad-op"

/-- `coll <op>*`: a:<name> add, f:<name> find index, l:<name> locate, r:<idx> remove, n:<name>
removeByName, c clear; answers: find results, then the final list of names -/
def doColl (args : List String) : String :=
  let step (acc : Coll Nat × List String × Nat) (a : String) : Coll Nat × List String × Nat :=
    let (c, outs, k) := acc
    match a.splitOn ":" with
    | ["a", n] => (c.add (parseRunes n) k, outs, k + 1)
    | ["f", n] => (c, outs ++ [match c.findIndex (parseRunes n) with | some i => toString i | none => "-1"], k)
    | ["l", n] => (c.locate (parseRunes n) k, outs, k + 1)
    | ["r", i] => (match i.toNat? with | some i => c.removeAt i | none => c, outs, k)
    | ["n", n] => (c.removeByName (parseRunes n), outs, k)
    | ["c"] => (c.clear, outs, k)
    | _ => (c, outs ++ ["bad"], k)
  let (c, outs, _) := args.foldl step (⟨[]⟩, [], 0)
  let names := c.items.map fun e => showRunes e.1 ++ "=" ++ toString e.2
  " ".intercalate outs ++ " | " ++ " ".intercalate names

/-! ### mustache: `tplparse <src>` and `tpl <src> ; <key>=<value>*` (keys/values as rune lists) -/

mutual
partial def showMTok : MTok → String
  | .mk typ value kids =>
    let base := s!"{typ.toNat}:{showRunes value}"
    if typ == .section || typ == .invertedSection then base ++ "{" ++ showMToks kids ++ "}" else base
partial def showMToks : MToks → String
  | .nil => ""
  | .cons t .nil => showMTok t
  | .cons t rest => showMTok t ++ " " ++ showMToks rest
end

def doTplParse (args : List String) : String :=
  match args with
  | [src] =>
    match parseTemplate (parseRunes src) with
    | .error e => s!"err {e.code}"
    | .ok p =>
      let vars := if p.vars.isEmpty then "-" else " ".intercalate (p.vars.map showRunes)
      s!"ok {showMToks p.tree} ; {vars}"
  | _ => "bad-op"

def doTpl (args : List String) : String :=
  match args with
  | src :: ";" :: binds =>
    let vars := binds.filterMap fun b =>
      match b.splitOn "=" with
      | [k, v] => some (parseRunes k, parseRunes v)
      | _ => none
    if vars.length != binds.length then "bad-op"
    else match renderTemplate (parseRunes src) vars with
      | .error e => s!"err {e.code}"
      | .ok r => s!"ok {showRunes r}"
  | [src] =>
    match renderTemplate (parseRunes src) [] with
    | .error e => s!"err {e.code}"
    | .ok r => s!"ok {showRunes r}"
  | _ => "bad-op"

/-! ### variants (C20): `var <op>*` over four slots -/

def parseHost (kind payload : String) (slots : Array V) : Option HostVal :=
  if kind == "int" then payload.toInt?.map fun i => .int (Int64.ofInt i)
  else if kind == "int32" then payload.toInt?.map fun i => .int32 (Int64.ofInt i)
  else if kind == "uint" then payload.toNat?.map .uint
  else if kind == "uint32" then payload.toNat?.map .uint32
  else if kind == "int64" then payload.toInt?.map fun i => .int64 (Int64.ofInt i)
  else if kind == "var" then payload.toNat?.map fun k => .variant (slots.getD k .null)
  else if kind == "nil" then some .nil
  else if kind == "other" then some (.other 0)
  else match decV payload with
    | some (.float f) => some (.float32 f)
    | some (.double d) => some (.float64 d)
    | some (.bool b) => some (.bool b)
    | some (.str x) => some (.string x)
    | some (.dateTime a b) => some (.time a b)
    | some (.timeSpan n) => some (.duration n)
    | some (.array es) => some (.list es)
    | _ => none

structure VarSt where
  h : VHeap
  slots : Array Nat

def VarSt.init : VarSt :=
  { h := ⟨[.scalar .null, .scalar .null, .scalar .null, .scalar .null]⟩, slots := #[0, 1, 2, 3] }

def rdFuel : Nat := 64

def varStep (st : VarSt) (op : String) : VarSt × String :=
  let ref (k : String) : Nat := st.slots.getD (k.toNat?.getD 0) 0
  let val (k : String) : V := st.h.read rdFuel (ref k)
  let setSlot (k : String) (h : VHeap) (r : Nat) : VarSt := { h := h, slots := st.slots.setIfInBounds (k.toNat?.getD 0) r }
  match op.splitOn ":" with
  | "new" :: k :: kind :: rest =>
    let payload := rest.headD ""
    if kind == "var" then
      -- NewVariant(*Variant): a new object with Assign semantics (own list, same element objects)
      let a := st.h.alloc (st.h.cell (ref payload))
      (setSlot k a.1 a.2, "-")
    else
      match parseHost kind payload #[] with
      | some hv =>
        let a := st.h.allocV (ofHost hv)
        (setSlot k a.1 a.2, "-")
      | none => (st, "bad")
  | ["set", k, enc] =>
    match decV enc with
    | some v =>
      let b := st.h.build v
      ({ st with h := b.1.write (ref k) b.2 }, "-")
    | none => (st, "bad")
  | ["len", k, n] =>
    match st.h.setLength (ref k) (n.toNat?.getD 0) with
    | some h => ({ st with h := h }, "-")
    | none => (st, "panic")
  | ["sidx", k, i, enc] =>
    match decV enc, i.toInt? with
    | some e, some i =>
      (match st.h.setByIndex (ref k) i e with
       | some h => ({ st with h := h }, "-")
       | none => (st, "panic"))
    | _, _ => (st, "bad")
  | ["midx", k, i, enc] =>
    match decV enc, i.toInt? with
    | some e, some i =>
      (match st.h.mutElem (ref k) i e with
       | some h => ({ st with h := h }, "-")
       | none => (st, "panic"))
    | _, _ => (st, "bad")
  | ["mid2", k, i, j, enc] =>
    match decV enc, i.toInt?, j.toInt? with
    | some e, some i, some j =>
      (match st.h.elemRef (ref k) i with
       | some er =>
         (match st.h.mutElem er j e with
          | some h => ({ st with h := h }, "-")
          | none => (st, "panic"))
       | none => (st, "panic"))
    | _, _, _ => (st, "bad")
  | ["gidx", k, i] =>
    match i.toInt? with
    | some i => (st, match st.h.elemRef (ref k) i with | some r => encV (st.h.read rdFuel r) | none => "panic")
    | none => (st, "bad")
  | ["asg", d, sK] => ({ st with h := st.h.assign (ref d) (ref sK) }, "-")
  | ["cln", d, sK] =>
    let c := st.h.clone rdFuel (ref sK)
    (setSlot d c.1 c.2, "-")
  | ["eq", a, b] => (st, if veq (val a) (val b) then "T" else "F")
  | ["clr", k] => ({ st with h := st.h.write (ref k) (.scalar .null) }, "-")
  | ["obs", k] => (st, s!"{(val k).typ.toNat}/{encV (val k)}/{vLength (val k)}")
  | ["mut", _] => (st, "-")
  | _ => (st, "bad")

def doVar (args : List String) : String :=
  let (st, outs) := args.foldl (fun (acc : VarSt × List String) op =>
    let (s', o) := varStep acc.1 op
    (s', o :: acc.2)) (VarSt.init, [])
  " ".intercalate outs.reverse ++ " | " ++ " ".intercalate (st.slots.toList.map fun r => encV (st.h.read rdFuel r))

def handle (line : String) : String :=
  match (line.trimAscii.toString.splitOn " ").filter (· != "") with
  | [] => ""
  | "scan" :: args => doScan args
  | "scanspec" :: args => doScanSpec args
  | "cmap" :: args => doCmap args
  | "tok" :: args => doTok args
  | "tokc" :: args => doTokC args
  | "tokspec" :: args => doTokSpec args
  | "tokh" :: args => doTokH args
  | "sym" :: args => doSym args
  | "quote" :: args => doQuote args
  | "parse" :: args => doParse args
  | "op" :: args => doOp args
  | "conv" :: args => doConv args
  | "fn" :: args => doFn args
  | "eval" :: args => doEval args
  | "lit" :: args => doLit args
  | "lex" :: args => doLex args
  | "calc" :: args => doCalc args
  | "coll" :: args => doColl args
  | "tplparse" :: args => doTplParse args
  | "var" :: args => doVar args
  | "tpl" :: args => doTpl args
  | _ => "bad-op"

end Drv

partial def loop (hin : IO.FS.Stream) (hout : IO.FS.Stream) : IO Unit := do
  let line ← hin.getLine
  if line.isEmpty then return ()
  hout.putStrLn (Drv.handle line)
  loop hin hout

def main : IO Unit := do
  let hin ← IO.getStdin
  let hout ← IO.getStdout
  loop hin hout
  hout.flush
