/-
C02 at token level (Props/C02.lean) and at text level (Props/C03Text.lean: C02_text_sound, C02_text_complete, C02_text_accepts_iff); the minor clauses in Props/C02Clauses.lean.
-/
import Verif.Props.C02
import Verif.Props.C03Text
import Verif.Props.C02Clauses
import Verif.Props.ClauseExamples
