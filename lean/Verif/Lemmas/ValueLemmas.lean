/-
Helper lemmas about the value model (`Verif/Model/Value.lean`) used by C06 and C07.
-/
import Verif.Model.Value
namespace Verif

/-! ### results that are not a panic -/

def R.NoPanic (r : R) : Prop := ∀ s, r ≠ .panic s

theorem R.NoPanic.ok (v : V) : (R.ok v).NoPanic := by intro s h; cases h
theorem R.NoPanic.err (c : String) : (R.err c).NoPanic := by intro s h; cases h

theorem R.NoPanic.bind {r : R} {f : V → R} (h : r.NoPanic) (hf : ∀ v, (f v).NoPanic) :
    (r.bind f).NoPanic := by
  cases r with
  | ok v => exact hf v
  | err c => exact R.NoPanic.err c
  | panic s => exact absurd rfl (h s)

theorem convertUnsafe_noPanic (v : V) (t : VT) : (convertUnsafe v t).NoPanic := by
  unfold convertUnsafe
  split
  · exact .ok _
  split
  · exact .ok _
  split
  · split <;> exact .ok _
  split <;> first | exact .ok _ | exact .err _ | (split <;> exact .ok _)

theorem convertSafe_noPanic (v : V) (t : VT) : (convertSafe v t).NoPanic := by
  unfold convertSafe
  split
  · exact .ok _
  split
  · exact .ok _
  split <;> first | exact .ok _ | exact .err _

theorem convert_noPanic (m : Mgr) (v : V) (t : VT) : (convert m v t).NoPanic := by
  unfold convert
  split
  · exact .ok _
  · cases m
    · exact convertUnsafe_noPanic v t
    · exact convertSafe_noPanic v t

theorem arithCore_noPanic (op : Op) (a b : V) : (arithCore op a b).NoPanic := by
  unfold arithCore
  split <;> first | exact .ok _ | exact .err _ | (split <;> first | exact .ok _ | exact .err _)

theorem arith_noPanic (op : Op) (a b : V) : (arith op a b).NoPanic := by
  unfold arith
  split
  · exact .ok _
  · exact arithCore_noPanic op a b

theorem equalOp_noPanic (m : Mgr) (a b : V) : (equalOp m a b).NoPanic := by
  unfold equalOp
  split
  · exact .ok _
  split
  · exact .ok _
  exact (convert_noPanic m b a.typ).bind fun _ => arith_noPanic _ _ _

theorem inLoop_noPanic (m : Mgr) (x : V) (es : List V) : (inLoop m x es).NoPanic := by
  induction es with
  | nil => exact .ok _
  | cons e es ih =>
    unfold inLoop
    split
    · exact .ok _
    · exact .ok _
    · exact ih
    · exact .err _
    · rename_i s h
      exact absurd h (equalOp_noPanic m x e s)

/-! ### types -/

theorem V.typ_eq_null {a : V} : a.typ = .null ↔ a = .null := by
  cases a <;> simp [V.typ]

/-! ### host-dependent values -/

theorem isHostV_eq_false_iff {v : V} : isHostV v = false ↔ ∀ tag args, v ≠ .host tag args := by
  cases v <;> simp [isHostV]

theorem isHostV_of_typ_ne_object {v : V} (h : v.typ ≠ .object) : isHostV v = false := by
  cases v <;> simp [isHostV, V.typ] at h ⊢

/-- on a value that is not host-dependent, `convert` is the manager's own conversion -/
theorem convert_of_not_host (m : Mgr) {v : V} (t : VT) (h : isHostV v = false) :
    convert m v t = match m with
      | .unsafe_ => convertUnsafe v t
      | .safe => convertSafe v t := by
  cases m <;> simp [convert, h]

theorem convert_unsafe_of_not_host {v : V} (t : VT) (h : isHostV v = false) :
    convert .unsafe_ v t = convertUnsafe v t := by simp [convert, h]

theorem convert_safe_of_not_host {v : V} (t : VT) (h : isHostV v = false) :
    convert .safe v t = convertSafe v t := by simp [convert, h]

theorem convert_host (m : Mgr) (tag : String) (args : List V) (t : VT) :
    convert m (.host tag args) t = .ok (.host "convert" [.host tag args]) := rfl

/-- bridge: on operands that are not host-dependent the operator is its core -/
theorem binop_of_not_host (m : Mgr) (op : Op) {a b : V}
    (ha : isHostV a = false) (hb : isHostV b = false) : binop m op a b = binopCore m op a b := by
  simp [binop, ha, hb]

theorem binop_host_left (m : Mgr) (op : Op) (tag : String) (args : List V) (b : V) :
    binop m op (.host tag args) b = .ok (.host "op" [.host tag args, b]) := rfl

theorem binop_host_right (m : Mgr) (op : Op) (a : V) (tag : String) (args : List V) :
    binop m op a (.host tag args) = .ok (.host "op" [a, .host tag args]) := by
  simp [binop, isHostV]

theorem strLt_cons (a b : Nat) (as bs : List Nat) :
    strLt (a :: as) (b :: bs) = if a < b then true else if b < a then false else strLt as bs := rfl

theorem strLt_irrefl (x : List Nat) : strLt x x = false := by
  induction x with
  | nil => rfl
  | cons a as ih => simp [strLt_cons, ih]

theorem strLt_trichotomy (x y : List Nat) :
    (strLt x y = true ∧ x ≠ y ∧ strLt y x = false) ∨
    (strLt x y = false ∧ x = y ∧ strLt y x = false) ∨
    (strLt x y = false ∧ x ≠ y ∧ strLt y x = true) := by
  induction x generalizing y with
  | nil => cases y <;> simp [strLt]
  | cons a as ih =>
    cases y with
    | nil => simp [strLt]
    | cons b bs =>
      simp only [strLt_cons]
      rcases Nat.lt_trichotomy a b with h | h | h
      · have h' : ¬ b < a := by omega
        have h'' : a ≠ b := by omega
        simp [h, h', h'']
      · subst h
        simp only [Nat.lt_irrefl, if_false]
        rcases ih bs with h | h | h
        · simp [h]
        · simp [h, strLt_irrefl]
        · simp [h]
      · have h' : ¬ a < b := by omega
        have h'' : a ≠ b := by omega
        simp [h, h', h'']

theorem strLt_asymm {x y : List Nat} (h : strLt x y = true) : strLt y x = false := by
  rcases strLt_trichotomy x y with h' | h' | h'
  · exact h'.2.2
  · exact h'.2.2
  · rw [h'.1] at h; cases h

theorem strLt_total (x y : List Nat) : strLt x y = true ∨ x = y ∨ strLt y x = true := by
  rcases strLt_trichotomy x y with h' | h' | h'
  · exact .inl h'.1
  · exact .inr (.inl h'.2.1)
  · exact .inr (.inr h'.2.2)

theorem strLt_trans {x y z : List Nat} (h1 : strLt x y = true) (h2 : strLt y z = true) : strLt x z = true := by
  induction x generalizing y z with
  | nil => cases y <;> cases z <;> simp_all [strLt]
  | cons a as ih =>
    cases y with
    | nil => simp [strLt] at h1
    | cons b bs =>
      cases z with
      | nil => simp [strLt] at h2
      | cons c cs =>
        simp only [strLt_cons] at h1 h2 ⊢
        split at h1
        · split at h2
          · have : a < c := by omega
            simp [this]
          · split at h2
            · cases h2
            · have : a < c := by omega
              simp [this]
        · split at h1
          · cases h1
          · have hab : a = b := by omega
            subst hab
            split at h2
            · simp [*]
            · split at h2
              · cases h2
              · simp [*]; exact ih h1 h2

theorem not_strLt_flip (x y : List Nat) : (!strLt y x) = (strLt x y || x == y) := by
  rcases strLt_trichotomy x y with h | h | h <;> simp [h, strLt_irrefl]

theorem Int64.decide_le_eq (x y : Int64) : decide (x ≤ y) = (decide (x < y) || x == y) := by
  rw [Bool.eq_iff_iff]
  simp only [decide_eq_true_eq, Bool.or_eq_true, beq_iff_eq]
  rw [Int64.le_iff_toInt_le, Int64.lt_iff_toInt_lt, ← Int64.toInt_inj]
  omega

theorem Int64.decide_ge_eq (x y : Int64) : decide (x ≥ y) = (decide (x > y) || x == y) := by
  rw [Bool.eq_iff_iff]
  simp only [decide_eq_true_eq, Bool.or_eq_true, beq_iff_eq, GE.ge, GT.gt]
  rw [Int64.le_iff_toInt_le, Int64.lt_iff_toInt_lt, ← Int64.toInt_inj]
  omega

theorem dtLe_eq_not_flip (s1 : Int) (n1 : Nat) (s2 : Int) (n2 : Nat) :
    (dtLt s1 n1 s2 n2 || dtEq s1 n1 s2 n2) = !dtLt s2 n2 s1 n1 := by
  rw [Bool.eq_iff_iff]
  simp [dtLt, dtEq]
  omega

/-! ### decimal text of integers (`showInt`) and `parseDecInt` -/

/-- decimal digits of a natural number, as runes -/
def decDigits (n : Nat) : List Rune := (Nat.toDigits 10 n).map Char.toNat

theorem showNat_eq (n : Nat) : showNat n = decDigits n := by
  simp [showNat, decDigits]

theorem showInt_nonneg (i : Int) (h : 0 ≤ i) : showInt i = decDigits i.toNat := by
  simp [showInt, decDigits, Int.repr_eq_if, h]

theorem showInt_neg (i : Int) (h : i < 0) : showInt i = 45 :: decDigits (-i).toNat := by
  have h' : ¬ 0 ≤ i := by omega
  simp [showInt, decDigits, Int.repr_eq_if, h']

theorem decDigits_ne_nil (n : Nat) : decDigits n ≠ [] := by
  simp [decDigits, Nat.toDigits_ne_nil]

theorem decDigits_all (n : Nat) : ∀ c ∈ decDigits n, 48 ≤ c ∧ c ≤ 57 := by
  intro c hc
  simp only [decDigits, List.mem_map] at hc
  obtain ⟨ch, hch, rfl⟩ := hc
  have := Nat.isDigit_of_mem_toDigits (by decide) (by decide) hch
  simp [Char.isDigit, UInt32.le_iff_toNat_le] at this
  exact this

theorem decDigits_fold (n : Nat) :
    (decDigits n).foldl (fun a c => a * 10 + (c - 48)) 0 = n := by
  have h := Nat.ofDigitChars_ten_toDigits (n := n)
  rw [Nat.ofDigitChars_eq_foldl] at h
  have hf : (fun (a : Nat) (c : Char) => a * 10 + (c.toNat - 48)) =
      (fun sofar c => 10 * sofar + (c.toNat - '0'.toNat)) := by
    funext a c
    simp [Nat.mul_comm]
  rw [decDigits, List.foldl_map, hf]
  exact h

theorem parseDecDigits_decDigits (n : Nat) : parseDecDigits (decDigits n) = some n := by
  unfold parseDecDigits
  split
  · rename_i h; exact absurd h (decDigits_ne_nil n)
  · rename_i h
    have hall : (decDigits n).all (fun c => decide (48 ≤ c) && decide (c ≤ 57)) = true := by
      rw [List.all_eq_true]
      intro c hc
      have := decDigits_all n c hc
      simp [this]
    rw [if_pos hall, decDigits_fold]

theorem parseDecInt_minus (r : List Rune) :
    parseDecInt (45 :: r) =
      match parseDecDigits r with
      | none => none
      | some n =>
        if -9223372036854775808 ≤ -(n : Int) ∧ -(n : Int) ≤ 9223372036854775807
        then some (Int64.ofInt (-(n : Int))) else none := by
  rfl

theorem parseDecInt_unsigned (s : List Rune) (h : ∀ c ∈ s, 48 ≤ c) :
    parseDecInt s =
      match parseDecDigits s with
      | none => none
      | some n =>
        if -9223372036854775808 ≤ (n : Int) ∧ (n : Int) ≤ 9223372036854775807
        then some (Int64.ofInt (n : Int)) else none := by
  have h45 : ∀ r, s ≠ 45 :: r := by
    intro r hr; subst hr; have h' : (48 : Nat) ≤ 45 := h 45 (List.mem_cons_self ..); omega
  have h43 : ∀ r, s ≠ 43 :: r := by
    intro r hr; subst hr; have h' : (48 : Nat) ≤ 43 := h 43 (List.mem_cons_self ..); omega
  clear h
  unfold parseDecInt
  split
  rename_i neg ds heq
  split at heq
  · exact absurd rfl (h45 _)
  · exact absurd rfl (h43 _)
  · injection heq with hn hd
    subst hn hd
    cases parseDecDigits s <;> simp

theorem parseDecInt_showInt (i : Int)
    (h0 : -9223372036854775808 ≤ i) (h1 : i ≤ 9223372036854775807) :
    parseDecInt (showInt i) = some (Int64.ofInt i) := by
  by_cases hi : 0 ≤ i
  · rw [showInt_nonneg i hi,
      parseDecInt_unsigned _ (fun c hc => (decDigits_all _ c hc).1),
      parseDecDigits_decDigits]
    have : ((i.toNat : Nat) : Int) = i := by omega
    simp only [this]
    rw [if_pos ⟨h0, h1⟩]
  · rw [showInt_neg i (by omega), parseDecInt_minus, parseDecDigits_decDigits]
    have : -(((-i).toNat : Nat) : Int) = i := by omega
    simp only [this]
    rw [if_pos ⟨h0, h1⟩]

/-! ### milliseconds to nanoseconds and back -/

theorem Int64.mul_div_million (x : Int64)
    (h0 : -9223372036854 ≤ x.toInt) (h1 : x.toInt ≤ 9223372036854) :
    x * 1000000 / 1000000 = x := by
  apply Int64.toInt_inj.1
  have hm : (x * 1000000).toInt = x.toInt * 1000000 := by
    rw [Int64.toInt_mul]
    have : (1000000 : Int64).toInt = 1000000 := by decide
    rw [this]
    apply Int.bmod_eq_of_le <;> omega
  rw [Int64.toInt_div_of_ne_right _ _ (by decide), hm]
  have : (1000000 : Int64).toInt = 1000000 := by decide
  rw [this]
  exact Int.mul_tdiv_cancel _ (by decide)

end Verif
