/-
C04 for all four built-in tokenizers: the generic development (Props/C04.lean: generic, expression, csv)
and the mustache tokenizer with its mode-alternating override (Props/MustacheTok.lean).
-/
import Verif.Props.C04
import Verif.Props.MustacheTok
import Verif.Props.CfgTok
