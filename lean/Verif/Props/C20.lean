/-
C20 — "A variant built from a host value reports the matching type and returns that value
unchanged through the corresponding accessor; a variant built from, or set to, a list of elements
keeps its own copy of the list …; indexed writes past the end grow the array with nulls. A clone
equals its original, equality is symmetric and never fails — arrays included, floating-point NaN
(which equals nothing) excepted — and mutating a clone never changes the original."

Model: `Verif/Model/Variant.lean`.  The model is a value model: a variant IS its deep value, so
"own copy" and "mutating a clone never changes the original" hold by construction (there is no
sharing to express); what is proved here is the algebraic content.  Float equality is the
bit-level IEEE `==` (`fEq32` / `fEq`), so symmetry holds for all values (`veq_symm_all`) and
reflexivity for all NaN-free values (`veq_refl_noNaN`); the older float-free statements
(`noFloat`) are kept.
-/
import Verif.Model.Variant
import Verif.Lemmas.ValueLemmas
import Verif.Lemmas.FloatCmpLemmas
import Verif.Props.C20Heap
namespace Verif

/-! ## 1. the host-type table -/

/-- type reported for each host type -/
theorem C20_type_mapping :
    (∀ v, (ofHost (.int v)).typ = .integer) ∧
    (∀ v, (ofHost (.int32 v)).typ = .integer) ∧
    (∀ v, (ofHost (.uint v)).typ = .long) ∧
    (∀ v, (ofHost (.uint32 v)).typ = .long) ∧
    (∀ v, (ofHost (.int64 v)).typ = .long) ∧
    (∀ v, (ofHost (.float32 v)).typ = .float) ∧
    (∀ v, (ofHost (.float64 v)).typ = .double) ∧
    (∀ v, (ofHost (.bool v)).typ = .boolean) ∧
    (∀ v, (ofHost (.string v)).typ = .string) ∧
    (∀ s n, (ofHost (.time s n)).typ = .dateTime) ∧
    (∀ v, (ofHost (.duration v)).typ = .timeSpan) ∧
    (∀ vs, (ofHost (.list vs)).typ = .array) ∧
    ((ofHost .nil).typ = .null) ∧
    (∀ id, (ofHost (.other id)).typ = .object) ∧
    (∀ v, ofHost (.variant v) = v) :=
  ⟨fun _ => rfl, fun _ => rfl, fun _ => rfl, fun _ => rfl, fun _ => rfl, fun _ => rfl,
   fun _ => rfl, fun _ => rfl, fun _ => rfl, fun _ _ => rfl, fun _ => rfl, fun _ => rfl, rfl,
   fun _ => rfl, fun _ => rfl⟩

/-- the payload is stored unchanged -/
theorem C20_payload :
    (∀ v, ofHost (.int v) = .int v) ∧
    (∀ v, ofHost (.int32 v) = .int v) ∧
    (∀ v, ofHost (.uint v) = .long (Int64.ofNat v)) ∧
    (∀ v, ofHost (.uint32 v) = .long (Int64.ofNat v)) ∧
    (∀ v, ofHost (.int64 v) = .long v) ∧
    (∀ v, ofHost (.float32 v) = .float v) ∧
    (∀ v, ofHost (.float64 v) = .double v) ∧
    (∀ v, ofHost (.bool v) = .bool v) ∧
    (∀ v, ofHost (.string v) = .str v) ∧
    (∀ s n, ofHost (.time s n) = .dateTime s n) ∧
    (∀ v, ofHost (.duration v) = .timeSpan v) ∧
    (∀ vs, ofHost (.list vs) = .array vs) ∧
    (ofHost .nil = .null) ∧
    (∀ id, ofHost (.other id) = .object id) :=
  ⟨fun _ => rfl, fun _ => rfl, fun _ => rfl, fun _ => rfl, fun _ => rfl, fun _ => rfl,
   fun _ => rfl, fun _ => rfl, fun _ => rfl, fun _ _ => rfl, fun _ => rfl, fun _ => rfl, rfl,
   fun _ => rfl⟩

/-- an unsigned 32-bit value is represented exactly by the Long it is stored as -/
theorem C20_uint32_exact (v : Nat) (h : v < 2 ^ 32) :
    ofHost (.uint32 v) = .long (Int64.ofNat v) ∧ (Int64.ofNat v).toInt = v := by
  refine ⟨rfl, Int64.toInt_ofNat_of_lt ?_⟩
  exact Nat.lt_trans h (by decide)

/-- an unsigned 64-bit value is represented exactly as long as it is below 2^63 … -/
theorem C20_uint_exact (v : Nat) (h : v < 2 ^ 63) :
    ofHost (.uint v) = .long (Int64.ofNat v) ∧ (Int64.ofNat v).toInt = v :=
  ⟨rfl, Int64.toInt_ofNat_of_lt h⟩

/-- … and exactly then (for a value that fits a Go `uint`) -/
theorem C20_uint_exact_iff (v : Nat) (h : v < 2 ^ 64) :
    (Int64.ofNat v).toInt = v ↔ v < 2 ^ 63 := by
  constructor
  · intro he
    have hlt := Int64.toInt_lt (Int64.ofNat v)
    rw [he] at hlt
    omega
  · exact fun h => Int64.toInt_ofNat_of_lt h

/-- known finding D30: above 2^63 the stored Long wraps around (the largest `uint` reads -1) -/
theorem C20_uint_wraps_D30 :
    ofHost (.uint (2 ^ 64 - 1)) = .long (-1) ∧
    (Int64.ofNat (2 ^ 64 - 1)).toInt = -1 ∧
    (Int64.ofNat (2 ^ 64 - 1)).toInt ≠ ((2 ^ 64 - 1 : Nat) : Int) ∧
    (Int64.ofNat (2 ^ 63)).toInt = -(2 ^ 63) := by
  refine ⟨congrArg V.long (by decide), by decide, by decide, by decide⟩

/-! ## 2. lists: own elements, growth with nulls -/

/-- a variant built from a list has exactly its elements -/
theorem C20_of_list (vs : List V) :
    vLength (ofHost (.list vs)) = vs.length ∧
    (∀ i : Nat, getByIndex (ofHost (.list vs)) i = vs[i]?) := by
  refine ⟨rfl, fun i => ?_⟩
  have : ¬ ((i : Int) < 0) := by omega
  simp [ofHost, getByIndex, this]

theorem C20_setLength (es : List V) (n : Nat) :
    setLength (.array es) n = some (.array (es ++ List.replicate (n - es.length) .null)) := rfl

/-- the new length is the maximum (the array never shrinks) -/
theorem C20_setLength_length (es : List V) (n : Nat) :
    (setLength (.array es) n).map vLength = some (max es.length n) := by
  simp [setLength, vLength]
  omega

/-- old elements are kept, new ones are Null -/
theorem C20_setLength_get (es : List V) (n : Nat) (j : Nat) :
    (setLength (.array es) n).bind (getByIndex · j) =
      if j < es.length then es[j]? else if j < n then some .null else none := by
  simp only [setLength, Option.bind_some, getByIndex]
  have : ¬ ((j : Int) < 0) := by omega
  simp only [this, if_false, Int.toNat_natCast, List.getElem?_append, List.getElem?_replicate]
  split
  · rfl
  · split <;> split <;> first | rfl | omega

theorem C20_setLength_non_array (v : V) (n : Nat) (h : v.typ ≠ .array) : setLength v n = none := by
  cases v <;> simp [setLength, V.typ] at h ⊢

private theorem grow_len (es : List V) (k : Nat) :
    (es ++ List.replicate (k + 1 - es.length) V.null).length = max es.length (k + 1) := by
  simp; omega

/-- an indexed write is read back -/
theorem C20_setByIndex_get (es : List V) (i : Int) (e : V) (h : 0 ≤ i) :
    (setByIndex (.array es) i e).bind (getByIndex · i) = some e := by
  have hn : ¬ i < 0 := by omega
  simp only [setByIndex, hn, if_false, Option.bind_some, getByIndex, List.getElem?_set]
  have := grow_len es i.toNat
  simp only [if_true]
  rw [if_pos (by omega)]

/-- the length after an indexed write -/
theorem C20_setByIndex_length (es : List V) (i : Int) (e : V) (h : 0 ≤ i) :
    (setByIndex (.array es) i e).map vLength = some (max es.length (i.toNat + 1)) := by
  have hn : ¬ i < 0 := by omega
  simp only [setByIndex, hn, if_false, Option.map_some, vLength, List.length_set, grow_len]

/-- every other existing element is unchanged -/
theorem C20_setByIndex_other (es : List V) (i : Int) (e : V) (j : Nat) (h : 0 ≤ i)
    (hj : (j : Int) ≠ i) (hlt : j < es.length) :
    (setByIndex (.array es) i e).bind (getByIndex · j) = es[j]? := by
  have hn : ¬ i < 0 := by omega
  have hn' : ¬ ((j : Int) < 0) := by omega
  have hij : ¬ i.toNat = j := by omega
  simp only [setByIndex, hn, if_false, Option.bind_some, getByIndex, hn', Int.toNat_natCast,
    List.getElem?_set, hij, List.getElem?_append, hlt, if_true]

/-- writing past the end fills the gap with Null -/
theorem C20_setByIndex_grows_with_nulls (es : List V) (i : Int) (e : V) (j : Nat)
    (hj : es.length ≤ j) (hlt : (j : Int) < i) :
    (setByIndex (.array es) i e).bind (getByIndex · j) = some .null := by
  have hn : ¬ i < 0 := by omega
  have hn' : ¬ ((j : Int) < 0) := by omega
  have hij : ¬ i.toNat = j := by omega
  have h1 : ¬ j < es.length := by omega
  have h2 : j - es.length < i.toNat + 1 - es.length := by omega
  simp only [setByIndex, hn, if_false, Option.bind_some, getByIndex, hn', Int.toNat_natCast,
    List.getElem?_set, hij, List.getElem?_append, h1, List.getElem?_replicate, h2, if_true]

/-- the complete description of an indexed write -/
theorem C20_setByIndex_spec (es : List V) (i : Int) (e : V) (h : 0 ≤ i) (j : Nat) :
    (setByIndex (.array es) i e).bind (getByIndex · j) =
      if j = i.toNat then some e
      else if j < es.length then es[j]?
      else if j < i.toNat then some .null else none := by
  have hn : ¬ i < 0 := by omega
  have hn' : ¬ ((j : Int) < 0) := by omega
  simp only [setByIndex, hn, if_false, Option.bind_some, getByIndex, hn', Int.toNat_natCast,
    List.getElem?_set, List.getElem?_append, List.getElem?_replicate, grow_len]
  by_cases h1 : i.toNat = j
  · subst h1
    simp
    omega
  · have h1' : ¬ j = i.toNat := fun h => h1 h.symm
    simp only [h1, h1', if_false]
    split
    · rfl
    · split <;> split <;> first | rfl | omega

/-- the Go panics: not an array, or a negative index -/
theorem C20_index_panics (v : V) (es : List V) (i : Int) (e : V) :
    (v.typ ≠ .array → setByIndex v i e = none ∧ getByIndex v i = none) ∧
    (i < 0 → setByIndex (.array es) i e = none ∧ getByIndex (.array es) i = none) ∧
    (0 ≤ i → es.length ≤ i.toNat → getByIndex (.array es) i = none) := by
  refine ⟨fun h => ?_, fun h => ?_, fun h h' => ?_⟩
  · cases v <;> simp [setByIndex, getByIndex, V.typ] at h ⊢
  · simp [setByIndex, getByIndex, h]
  · have : ¬ i < 0 := by omega
    simp [getByIndex, this, h']

/-! ## 3. equality -/

mutual
theorem veq_refl : (v : V) → noFloat v = true → veq v v = true
  | .null, _ => by simp [veq]
  | .int _, _ => by simp [veq]
  | .long _, _ => by simp [veq]
  | .float _, h => by simp [noFloat] at h
  | .double _, h => by simp [noFloat] at h
  | .str _, _ => by simp [veq]
  | .bool _, _ => by simp [veq]
  | .dateTime _ _, _ => by simp [veq]
  | .timeSpan _, _ => by simp [veq]
  | .object _, _ => by simp [veq]
  | .array es, h => by
    rw [veq]
    exact veqList_refl es (by simpa [noFloat] using h)
  | .host _ _, h => by simp [noFloat] at h
theorem veqList_refl : (es : List V) → noFloatList es = true → veqList es es = true
  | [], _ => by simp [veqList]
  | e :: es, h => by
    simp only [noFloatList, Bool.and_eq_true] at h
    simp only [veqList, Bool.and_eq_true]
    exact ⟨veq_refl e h.1, veqList_refl es h.2⟩
end

/-- a clone (in the value model: the same value) equals its original -/
theorem C20_clone_eq (v : V) (h : noFloat v = true) : veq v v = true := veq_refl v h

mutual
/-- symmetry needs only one float-free side: against it, a float operand has another type -/
theorem veq_symm_left : (a : V) → noFloat a = true → ∀ b, veq a b = veq b a
  | .null, _, b => by cases b <;> simp [veq]
  | .int _, _, b => by cases b <;> simp [veq, BEq.comm]
  | .long _, _, b => by cases b <;> simp [veq, BEq.comm]
  | .float _, h, _ => by simp [noFloat] at h
  | .double _, h, _ => by simp [noFloat] at h
  | .str _, _, b => by cases b <;> simp [veq, BEq.comm]
  | .bool _, _, b => by cases b <;> simp [veq, BEq.comm]
  | .dateTime _ _, _, b => by cases b <;> simp [veq, BEq.comm]
  | .timeSpan _, _, b => by cases b <;> simp [veq, BEq.comm]
  | .object _, _, b => by cases b <;> simp [veq, BEq.comm]
  | .array as, h, b => by
    cases b with
    | array bs =>
      simp only [veq]
      exact veqList_symm_left as (by simpa [noFloat] using h) bs
    | _ => simp [veq]
  | .host _ _, h, _ => by simp [noFloat] at h
theorem veqList_symm_left : (as : List V) → noFloatList as = true → ∀ bs, veqList as bs = veqList bs as
  | [], _, bs => by cases bs <;> simp [veqList]
  | a :: as, h, bs => by
    simp only [noFloatList, Bool.and_eq_true] at h
    cases bs with
    | nil => simp [veqList]
    | cons b bs =>
      simp only [veqList]
      rw [veq_symm_left a h.1 b, veqList_symm_left as h.2 bs]
end

theorem veq_symm (a b : V) (ha : noFloat a = true) (_hb : noFloat b = true) : veq a b = veq b a :=
  veq_symm_left a ha b

mutual
/-- reflexivity for every value without a NaN inside (floats included) -/
theorem veq_refl_noNaN : (v : V) → noNaN v = true → veq v v = true
  | .null, _ => by simp [veq]
  | .int _, _ => by simp [veq]
  | .long _, _ => by simp [veq]
  | .float x, h => by
    rw [veq, fEq32_self]; simpa [noNaN] using h
  | .double x, h => by
    rw [veq, fEq_self]; simpa [noNaN] using h
  | .str _, _ => by simp [veq]
  | .bool _, _ => by simp [veq]
  | .dateTime _ _, _ => by simp [veq]
  | .timeSpan _, _ => by simp [veq]
  | .object _, _ => by simp [veq]
  | .array es, h => by
    rw [veq]
    exact veqList_refl_noNaN es (by simpa [noNaN] using h)
  | .host _ _, h => by simp [noNaN] at h
theorem veqList_refl_noNaN : (es : List V) → noNaNList es = true → veqList es es = true
  | [], _ => by simp [veqList]
  | e :: es, h => by
    simp only [noNaNList, Bool.and_eq_true] at h
    simp only [veqList, Bool.and_eq_true]
    exact ⟨veq_refl_noNaN e h.1, veqList_refl_noNaN es h.2⟩
end

/-- a clone equals its original, for every NaN-free value -/
theorem C20_clone_eq_noNaN (v : V) (h : noNaN v = true) : veq v v = true := veq_refl_noNaN v h

/-- a NaN equals nothing, itself included -/
theorem C20_veq_nan (x : Float32) (y : Float) (b : V) :
    (fIsNaN32 x = true → veq (.float x) b = false ∧ veq b (.float x) = false) ∧
    (fIsNaN y = true → veq (.double y) b = false ∧ veq b (.double y) = false) := by
  constructor <;> intro h <;> cases b <;> simp [veq]
  case left.float z => exact ⟨(fNaN32_unordered x z h).2.2.1, (fNaN32_unordered x z h).2.2.2.1⟩
  case right.double z => exact ⟨(fNaN_unordered y z h).2.2.1, (fNaN_unordered y z h).2.2.2.1⟩

mutual
/-- symmetry for ALL values (floats and NaN included) -/
theorem veq_symm_all : (a b : V) → veq a b = veq b a
  | .null, b => by cases b <;> simp [veq]
  | .int _, b => by cases b <;> simp [veq, BEq.comm]
  | .long _, b => by cases b <;> simp [veq, BEq.comm]
  | .float x, b => by cases b <;> simp [veq]; exact fEq32_comm ..
  | .double x, b => by cases b <;> simp [veq]; exact fEq_comm ..
  | .str _, b => by cases b <;> simp [veq, BEq.comm]
  | .bool _, b => by cases b <;> simp [veq, BEq.comm]
  | .dateTime _ _, b => by cases b <;> simp [veq, BEq.comm]
  | .timeSpan _, b => by cases b <;> simp [veq, BEq.comm]
  | .object _, b => by cases b <;> simp [veq, BEq.comm]
  | .array as, b => by
    cases b with
    | array bs =>
      simp only [veq]
      exact veqList_symm_all as bs
    | _ => simp [veq]
  | .host _ _, b => by cases b <;> simp [veq]
theorem veqList_symm_all : (as bs : List V) → veqList as bs = veqList bs as
  | [], bs => by cases bs <;> simp [veqList]
  | a :: as, bs => by
    cases bs with
    | nil => simp [veqList]
    | cons b bs =>
      simp only [veqList]
      rw [veq_symm_all a b, veqList_symm_all as bs]
end

/-- `Equals` never fails: it is a total Boolean function (true or false, no third outcome) -/
theorem C20_equals_total (a b : V) : veq a b = true ∨ veq a b = false := by
  cases veq a b <;> simp

theorem C20_veq_null (b : V) : veq .null b = true ↔ b = .null := by
  cases b <;> simp [veq]

theorem C20_veq_null_right (a : V) : veq a .null = true ↔ a = .null := by
  cases a <;> simp [veq]

theorem C20_veq_type_mismatch (a b : V) (h : a.typ ≠ b.typ) : veq a b = false := by
  cases a <;> cases b <;> simp [veq, V.typ] at h ⊢

theorem veqList_iff (as bs : List V) :
    veqList as bs = true ↔
      as.length = bs.length ∧ ∀ (i : Nat) (h1 : i < as.length) (h2 : i < bs.length),
        veq as[i] bs[i] = true := by
  induction as generalizing bs with
  | nil => cases bs <;> simp [veqList]
  | cons a as ih =>
    cases bs with
    | nil => simp [veqList]
    | cons b bs =>
      simp only [veqList, Bool.and_eq_true, ih, List.length_cons, Nat.add_right_cancel_iff]
      constructor
      · rintro ⟨h0, hl, hall⟩
        refine ⟨hl, fun i h1 h2 => ?_⟩
        cases i with
        | zero => exact h0
        | succ i => exact hall i (by omega) (by omega)
      · rintro ⟨hl, hall⟩
        refine ⟨hall 0 (by omega) (by omega), hl, fun i h1 h2 => ?_⟩
        exact hall (i + 1) (by omega) (by omega)

/-- arrays are compared element by element -/
theorem C20_veq_array (as bs : List V) :
    veq (.array as) (.array bs) = true ↔
      as.length = bs.length ∧ ∀ (i : Nat) (h1 : i < as.length) (h2 : i < bs.length),
        veq as[i] bs[i] = true := by
  rw [veq]
  exact veqList_iff as bs

/-- on float-free scalars `Equals` is equality of values -/
theorem C20_veq_scalar_iff (a b : V) (ha : ∀ es, a ≠ .array es) (hf : noFloat a = true) :
    veq a b = true ↔ a = b := by
  cases a <;> cases b <;> simp [veq, noFloat] at hf ha ⊢

/-! ## 4. non-vacuity -/

example : veq (.array [.int 1, .str [97], .array [.null, .bool true]])
    (.array [.int 1, .str [97], .array [.null, .bool true]]) = true := by decide
example : veq (.array [.int 1, .null]) (.array [.int 1]) = false := by decide
example : veq (.int 1) (.long 1) = false := by decide
example : noFloat (.array [.int 1, .str [97], .array [.null, .bool true]]) = true := by decide
example : (setByIndex (.array [.int 7]) 3 (.bool true)) =
    some (.array [.int 7, .null, .null, .bool true]) := rfl
example : setLength (.array [.int 7]) 3 = some (.array [.int 7, .null, .null]) := rfl
example : setLength (.array [.int 7, .int 8]) 1 = some (.array [.int 7, .int 8]) := rfl

end Verif
