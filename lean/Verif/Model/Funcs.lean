/-
Model of calculator/functions/DefaultFunctionCollection.go (the 37 default functions),
DelegatedFunction.Calculate and FunctionCollection.FindByName, after the `fix:` repairs
(D20 recovered panic → CALC_FAILED error, D21 Acos, D22 exact integer Abs).

Clock, random numbers, the transcendental functions of `math` and civil-date arithmetic are host
functions: the model returns them as `V.host` terms which the harness evaluates with Go itself.
-/
import Verif.Model.Value
import Verif.Model.Tokenizer
import Verif.Model.CaseMap

namespace Verif

def fnNames : List String :=
  ["Ticks", "TimeSpan", "Now", "Date", "DayOfWeek", "Min", "Max", "Sum", "If", "Choose", "E", "Pi",
   "Rnd", "Random", "Abs", "Acos", "Asin", "Atan", "Exp", "Log", "Ln", "Log10", "Ceil", "Ceiling",
   "Floor", "Round", "Trunc", "Truncate", "Cos", "Sin", "Tan", "Sqr", "Sqrt", "Empty", "Null",
   "Contains", "Array"]

/-- `strings.ToUpper` (full Unicode simple case mapping, regenerated table) -/
def upperStr (s : List Rune) : List Rune := upperFullStr s

/-- FunctionCollection.FindByName: case-insensitive, first registration wins; returns the
registered (canonical) name -/
def findFn (name : List Rune) : Option String :=
  fnNames.find? (fun f => upperStr (strOf f) == upperStr name)

def wrongCount : R := .err "WRONG_PARAM_COUNT"
def calcFailed : R := .err "CALC_FAILED"


/-- convert and continue with the payload, propagating host terms and errors -/
def withLong (m : Mgr) (fn : String) (args : List V) (v : V) (k : Int64 → R) : R :=
  (convert m v .long).bind fun r =>
    match r with
    | .long i => k i
    | _ => .ok (.host fn args)

def withInt (m : Mgr) (fn : String) (args : List V) (v : V) (k : Int64 → R) : R :=
  (convert m v .integer).bind fun r =>
    match r with
    | .int i => k i
    | _ => .ok (.host fn args)

def withDouble (m : Mgr) (fn : String) (args : List V) (v : V) (k : Float → R) : R :=
  (convert m v .double).bind fun r =>
    match r with
    | .double d => k d
    | _ => .ok (.host fn args)

/-- Min / Max: `result = p0; for p in rest { if cmp(result, p) { result = p } }` -/
def foldSelect (m : Mgr) (cmp : Op) : V → List V → R
  | acc, [] => .ok acc
  | acc, v :: vs =>
    match binop m cmp acc v with
    | .ok (.bool true) => foldSelect m cmp v vs
    | .ok (.bool false) => foldSelect m cmp acc vs
    | .ok (.host t a) => .ok (.host t a)
    | .ok _ => calcFailed          -- AsBoolean() on a non-boolean (e.g. Null) panics, recovered
    | .err c => .err c
    | .panic s => .panic s

def foldAdd (m : Mgr) : V → List V → R
  | acc, [] => .ok acc
  | acc, v :: vs => (binop m .add acc v).bind fun r => foldAdd m r vs

def isSublistAt : List Rune → List Rune → Bool
  | [], _ => true
  | _ :: _, [] => false
  | a :: as, b :: bs => a == b && isSublistAt as bs

def containsSub : List Rune → List Rune → Bool
  | [], sub => sub.isEmpty
  | c :: cs, sub => isSublistAt sub (c :: cs) || containsSub cs sub

/-- `time.Time.Weekday()` in UTC from Unix seconds (1970-01-01 was a Thursday) -/
def weekdayOf (sec : Int) : Int := (4 + sec.fdiv 86400).emod 7

def mathFns : List String := ["Acos", "Asin", "Atan", "Exp", "Log", "Ln", "Log10", "Cos", "Sin", "Tan"]

/-- the calculator registered under the canonical name `fn` -/
def calcFn (m : Mgr) (fn : String) (args : List V) : R :=
  let n := args.length
  let p (i : Nat) : V := args.getD i .null
  if fn == "Ticks" then (if n != 0 then wrongCount else .ok (.host "ticks" []))
  else if fn == "Now" then (if n != 0 then wrongCount else .ok (.host "now" []))
  else if fn == "Rnd" || fn == "Random" then (if n != 0 then wrongCount else .ok (.host "rnd" []))
  else if fn == "E" then (if n != 0 then wrongCount else .ok (.float (Float32.ofBits 0x402df854)))
  else if fn == "Pi" then (if n != 0 then wrongCount else .ok (.float (Float32.ofBits 0x40490fdb)))
  else if fn == "Null" then (if n != 0 then wrongCount else .ok .null)
  else if fn == "TimeSpan" then
    if n != 1 && n != 3 && n != 4 && n != 5 then wrongCount
    else if n == 1 then withLong m fn args (p 0) fun v => .ok (.timeSpan (1000000 * v))
    else
      withLong m fn args (p 0) fun v1 => withLong m fn args (p 1) fun v2 => withLong m fn args (p 2) fun v3 =>
      withLong m fn args (if n > 3 then p 3 else .long 0) fun v4 =>
      withLong m fn args (if n > 4 then p 4 else .long 0) fun v5 =>
        .ok (.timeSpan (1000000 * ((((v1 * 24 + v2) * 60 + v3) * 60 + v4) * 1000 + v5)))
  else if fn == "Date" then
    if n < 1 || n > 7 then wrongCount
    else if n == 1 then withLong m fn args (p 0) fun v => .ok (.dateTime (unixSec v) 0)
    else
      withInt m fn args (p 0) fun y => withInt m fn args (p 1) fun mo =>
      withInt m fn args (if n > 2 then p 2 else .int 1) fun d =>
      withInt m fn args (if n > 3 then p 3 else .int 0) fun h =>
      withInt m fn args (if n > 4 then p 4 else .int 0) fun mi =>
      withInt m fn args (if n > 5 then p 5 else .int 0) fun s =>
      withInt m fn args (if n > 6 then p 6 else .int 0) fun ns =>
        .ok (.host "date" [.int y, .int mo, .int d, .int h, .int mi, .int s, .int ns])
  else if fn == "DayOfWeek" then
    if n != 1 then wrongCount
    else (convert m (p 0) .dateTime).bind fun r =>
      match r with
      | .dateTime sec _ => .ok (.int (Int64.ofInt (weekdayOf sec)))
      | _ => .ok (.host fn args)
  else if fn == "Min" then (if n < 2 then wrongCount else foldSelect m .more (p 0) (args.drop 1))
  else if fn == "Max" then (if n < 2 then wrongCount else foldSelect m .less (p 0) (args.drop 1))
  else if fn == "Sum" then (if n < 2 then wrongCount else foldAdd m (p 0) (args.drop 1))
  else if fn == "If" then
    if n != 3 then wrongCount
    else (convert m (p 0) .boolean).bind fun r =>
      match r with
      | .bool c => .ok (if c then p 1 else p 2)
      | _ => .ok (.host fn args)
  else if fn == "Choose" then
    if n < 3 then wrongCount
    else withInt m fn args (p 0) fun i =>
      if Int64.ofNat n < i + 1 then wrongCount
      else if i < 0 || i.toInt ≥ (n : Int) then calcFailed   -- index panic, recovered
      else .ok (p i.toInt.toNat)
  else if fn == "Abs" then
    if n != 1 then wrongCount
    else match p 0 with
      | .int x => .ok (.int (if x < 0 then -x else x))
      | .long x => .ok (.long (if x < 0 then -x else x))
      | .float x => .ok (.float x.abs)
      | .double x => .ok (.double x.abs)
      | v => withDouble m fn args v fun d => .ok (.double d.abs)
  else if mathFns.contains fn then
    if n != 1 then wrongCount
    else withDouble m fn args (p 0) fun d => .ok (.host (if fn == "Ln" then "Log" else fn) [.double d])
  else if fn == "Ceil" || fn == "Ceiling" then
    (if n != 1 then wrongCount else withDouble m fn args (p 0) fun d => .ok (.double d.ceil))
  else if fn == "Floor" then
    (if n != 1 then wrongCount else withDouble m fn args (p 0) fun d => .ok (.double d.floor))
  else if fn == "Round" then
    (if n != 1 then wrongCount else withDouble m fn args (p 0) fun d => .ok (.double d.round))
  else if fn == "Trunc" || fn == "Truncate" then
    (if n != 1 then wrongCount else withDouble m fn args (p 0) fun d => .ok (.long (f64ToI64 d)))
  else if fn == "Sqr" || fn == "Sqrt" then
    (if n != 1 then wrongCount else withDouble m fn args (p 0) fun d => .ok (.double d.sqrt))
  else if fn == "Empty" then
    (if n != 1 then wrongCount else .ok (.bool ((p 0).typ == .null)))
  else if fn == "Contains" then
    if n != 2 then wrongCount
    else (convert m (p 0) .string).bind fun a => (convert m (p 1) .string).bind fun b =>
      match a, b with
      | .str x, .str y => .ok (.bool (containsSub x y))
      | _, _ => .ok (.host fn args)
  else if fn == "Array" then .ok (.array args)
  else .err "FUNC_NOT_FOUND"

/-- look the function up by (case-insensitive) name and call it -/
def callFn (m : Mgr) (name : List Rune) (args : List V) : R :=
  match findFn name with
  | some fn => if args.any isHostV then .ok (.host fn args) else calcFn m fn args
  | none => .err "FUNC_NOT_FOUND"

end Verif
