#!/usr/bin/env python3
"""usage: tools/save_round.py <outdir> <suffix-map e.g. A=C,B=D> <logdir> <props...>
copies confirmed mutants <outdir>/<Cxx>/<A|B> to seeded/<Cxx>-<C|D> with meta.json (detection text read from <logdir>/<Cxx>-<A|B>.log)"""
import json, os, shutil, sys, re
out, smap, logdir = sys.argv[1], dict(x.split('=') for x in sys.argv[2].split(',')), sys.argv[3]
for p in sys.argv[4:]:
    for ab, suf in smap.items():
        src = f'{out}/{p}/{ab}'
        if not os.path.exists(src + '/patch.diff'):
            continue
        dst = f'/verif/seeded/{p}-{suf}'
        os.makedirs(dst, exist_ok=True)
        for f in os.listdir(src):
            shutil.copy(os.path.join(src, f), os.path.join(dst, f))
        notes = open(src + '/notes.md').read() if os.path.exists(src + '/notes.md') else ''
        first = [l for l in notes.splitlines() if l.strip()]
        det = {}
        lp = f'{logdir}/{p}-{ab}.log'
        if os.path.exists(lp):
            cur = None
            for l in open(lp):
                m = re.match(r'=== (C\d\d)', l)
                if m:
                    cur = m.group(1); continue
                if cur and l.startswith('VIOLATION'):
                    det[cur] = 'tie/correspondence only (no-failing-input-found)' if 'no-failing-input-found' in l else 'VIOLATION with failing input'
                elif cur and l.startswith('OK'):
                    det[cur] = 'not caught'
                elif cur and l.startswith('  failing input:') and det.get(cur, '').startswith('VIOLATION'):
                    det[cur] += ': ' + l.split(':', 1)[1].strip()[:160]
        meta = {"id": f"{p}-{suf}", "breaks_property": p, "summary": (first[0].lstrip('# ').strip() if first else ''),
                "needs_to_manifest": notes[:2500],
                "confirmed_by": "tools/confirm.sh in a scratch worktree of /repo: patch applies; `go test -vet=off -count=1 ./...` passes with the change; demo_test.go (placed in test/demo/) fails with the change and passes without it",
                "checks_run": f"tools/mutcheck.sh seeded/{p}-{suf}/patch.diff <ids> (private copy of /verif + scratch worktree with the change; /repo untouched)",
                "detection": det}
        old = dst + '/meta.json'
        if os.path.exists(old):
            try:
                o = json.load(open(old))
                for k, v in o.get('detection', {}).items():
                    if k not in det or (v != det[k] and 'after' in v):
                        meta['detection'][k] = v
            except Exception:
                pass
        json.dump(meta, open(old, 'w'), indent=1, ensure_ascii=False)
        print(meta['id'], det)
