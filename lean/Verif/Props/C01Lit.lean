/-
C01 (numeric constants) — what the text of a numeric constant decodes to.

Model: `decNat`, `decodeInt`, `divRoundEven`, `ratToF32Bits`, `decodeFloat32`
(Verif/Model/Pipeline.lean).  Helper lemmas: Verif/Lemmas/LitLemmas.lean.

A. integers: the decimal text of `n` decodes to `n` exactly (leading zeros ignored), the range check
   is exactly `n < 2^63`, and no rounding ever happens.
B. `divRoundEven` is round-half-even of `num/den`, and monotone.
C. `ratToF32Bits num den` is the binary32 nearest to `num/den`: finite, within half a unit of the
   last place of the result, nearest among all finite non-negative binary32 values, ties to the
   even significand, overflow exactly from `(2^24 - 1/2) * 2^104` on, zero exactly up to `2^-150`,
   monotone in `num`.  Bit patterns are decoded without floats by `f32Mant` / `f32Exp` / `f32Val`.
D. the magnitude shortcuts of `decodeFloat32` never change the answer.

All inequalities between rationals are written cross-multiplied in `Nat` (no division); an absolute
value `|x - y| ≤ z` is written as the pair `x ≤ y + z ∧ y ≤ x + z`, and additionally with
`Int.natAbs` in the corollaries.
-/
import Verif.Model.Pipeline
import Verif.Lemmas.LitLemmas

namespace Verif

/-! ### A. integers -/

/-- A1: the decimal text of `n` reads back as `n` -/
theorem decNat_natDigits (n : Nat) : decNat (natDigits n) = some n := by
  rw [decNat_eq_some (natDigits_ne_nil n) (natDigits_all n), digVal_natDigits]

/-- `natDigits` is the usual decimal text -/
theorem natDigits_eq_repr (n : Nat) : natDigits n = (toString n).toList.map Char.toNat := by
  simp [natDigits]

example : natDigits 0 = strOf "0" := by decide
example : natDigits 1203 = strOf "1203" := by decide
example : natDigits 9223372036854775807 = strOf "9223372036854775807" := by decide

/-- A2: leading zeros do not matter -/
theorem decNat_leading_zeros (k n : Nat) :
    decNat (List.replicate k 48 ++ natDigits n) = some n := by
  have hne : List.replicate k (48 : Rune) ++ natDigits n ≠ [] := by
    intro h
    exact natDigits_ne_nil n (List.append_eq_nil_iff.1 h).2
  have hall : (List.replicate k (48 : Rune) ++ natDigits n).all isDigitR = true := by
    rw [List.all_append, natDigits_all, Bool.and_true]
    simp [isDigitR_iff]
  rw [decNat_eq_some hne hall]
  unfold digVal
  rw [List.foldl_append, foldl_zeros]
  exact congrArg some (digVal_natDigits n)

/-- A2: in range -/
theorem decodeInt_natDigits_lt {n : Nat} (h : n < 2 ^ 63) :
    decodeInt (natDigits n) = some (Int64.ofNat n) := by
  unfold decodeInt
  rw [decNat_natDigits]
  simp only []
  rw [if_pos (by omega)]

/-- A2: out of range -/
theorem decodeInt_natDigits_ge {n : Nat} (h : 2 ^ 63 ≤ n) : decodeInt (natDigits n) = none := by
  unfold decodeInt
  rw [decNat_natDigits]
  simp only []
  rw [if_neg (by omega)]

/-- A2 with leading zeros -/
theorem decodeInt_leading_zeros (k : Nat) {n : Nat} (h : n < 2 ^ 63) :
    decodeInt (List.replicate k 48 ++ natDigits n) = some (Int64.ofNat n) := by
  unfold decodeInt
  rw [decNat_leading_zeros]
  simp only []
  rw [if_pos (by omega)]

/-- A3: an accepted integer constant is the exact value of its digits -/
theorem decodeInt_exact {ds : List Rune} {i : Int64} (h : decodeInt ds = some i) :
    ∃ n : Nat, decNat ds = some n ∧ n < 2 ^ 63 ∧ i.toInt = (n : Int) := by
  unfold decodeInt at h
  split at h
  · rename_i n hn
    split at h
    · rename_i hlt
      injection h with h
      refine ⟨n, hn, by omega, ?_⟩
      rw [← h]
      exact Int64.toInt_ofNat_of_lt (by omega)
    · cases h
  · cases h

/-- A3, the other direction: rejection happens exactly on non-digit text or values `≥ 2^63` -/
theorem decodeInt_none_iff {ds : List Rune} :
    decodeInt ds = none ↔ decNat ds = none ∨ ∃ n, decNat ds = some n ∧ 2 ^ 63 ≤ n := by
  unfold decodeInt
  cases hn : decNat ds with
  | none => simp
  | some n =>
    simp only []
    by_cases hlt : n < 9223372036854775808
    · rw [if_pos hlt]
      constructor
      · intro h; cases h
      · rintro (h | ⟨n', h1, h2⟩)
        · cases h
        · injection h1 with h1
          omega
    · rw [if_neg hlt]
      constructor
      · intro _
        exact Or.inr ⟨n, rfl, by omega⟩
      · intro _; rfl

/-! ### B. round-half-even -/

/-- B1 -/
theorem divRoundEven_spec {num den : Nat} (hd : 0 < den) :
    (divRoundEven num den * den ≤ num → 2 * (num - divRoundEven num den * den) ≤ den) ∧
    (num < divRoundEven num den * den → 2 * (divRoundEven num den * den - num) ≤ den) ∧
    (2 * (num % den) = den → divRoundEven num den % 2 = 0) ∧
    num / den ≤ divRoundEven num den ∧ divRoundEven num den ≤ num / den + 1 := by
  have hb := divRoundEven_bound num den hd
  have hf := divRoundEven_floor num den
  refine ⟨fun _ => by omega, fun _ => by omega, ?_, hf.1, hf.2⟩
  intro ht
  rcases divRoundEven_cases num den with ⟨hq, hc⟩ | ⟨hq, hc⟩ <;> omega

/-- B1, tie on either side of the result -/
theorem divRoundEven_tie_even {num den : Nat} (hd : 0 < den)
    (h : 2 * num = 2 * (divRoundEven num den * den) + den ∨
         2 * (divRoundEven num den * den) = 2 * num + den) :
    divRoundEven num den % 2 = 0 :=
  divRoundEven_tie num den hd h

/-- B2 -/
theorem divRoundEven_monotone {num num' : Nat} (den : Nat) (h : num ≤ num') :
    divRoundEven num den ≤ divRoundEven num' den :=
  divRoundEven_mono den h

/-! ### C. binary32 -/

/-- C1: a result is a finite non-negative pattern -/
theorem ratToF32Bits_finite {num den : Nat} {bits : UInt32} (hn : 0 < num) (hd : 0 < den)
    (h : ratToF32Bits num den = some bits) : bits.toNat < 0x7f800000 := by
  obtain ⟨h1, h2⟩ := ratToF32Bits_some hn hd h
  omega

/-- the decoded exponent is that of the last significand bit: either the pattern is subnormal
(exponent field 0, unit `2^-149`) or the significand is normalised -/
theorem f32_unit (b : Nat) :
    (b / 2 ^ 23 = 0 ∧ f32Exp b = -149 ∧ f32Mant b < 2 ^ 23) ∨
    (2 ^ 23 ≤ f32Mant b ∧ f32Mant b < 2 ^ 24 ∧ f32Exp b = ((b / 2 ^ 23 : Nat) : Int) - 150) := by
  unfold f32Mant f32Exp
  by_cases h : b / 2 ^ 23 = 0
  · left
    rw [if_pos h, if_pos h]
    omega
  · right
    rw [if_neg h, if_neg h]
    omega

/-- C2: with `m = f32Mant bits`, `u = f32Exp bits`: `|num/den − m·2^u| ≤ 2^(u−1)`, written as
`|num·2^(−u)⁺ − m·den·2^(u)⁺| ≤ den·2^(u)⁺ / 2` where `(·)⁺ = Int.toNat` -/
theorem ratToF32Bits_nearest {num den : Nat} {bits : UInt32} (hn : 0 < num) (hd : 0 < den)
    (h : ratToF32Bits num den = some bits) :
    2 * (num * 2 ^ (-(f32Exp bits.toNat)).toNat)
      ≤ 2 * (f32Mant bits.toNat * (den * 2 ^ (f32Exp bits.toNat).toNat))
        + den * 2 ^ (f32Exp bits.toNat).toNat ∧
    2 * (f32Mant bits.toNat * (den * 2 ^ (f32Exp bits.toNat).toNat))
      ≤ 2 * (num * 2 ^ (-(f32Exp bits.toNat)).toNat)
        + den * 2 ^ (f32Exp bits.toNat).toNat := by
  rw [(ratToF32Bits_some hn hd h).2]
  exact f32_nearest_core hn hd

/-- C2 for a negative unit exponent: `2 * |num * 2^(-u) − m * den| ≤ den` -/
theorem ratToF32Bits_nearest_neg {num den : Nat} {bits : UInt32} (hn : 0 < num) (hd : 0 < den)
    (h : ratToF32Bits num den = some bits) (hu : f32Exp bits.toNat < 0) :
    2 * (((num * 2 ^ (-(f32Exp bits.toNat)).toNat : Nat) : Int)
          - ((f32Mant bits.toNat * den : Nat) : Int)).natAbs ≤ den := by
  have := ratToF32Bits_nearest hn hd h
  have h0 : (f32Exp bits.toNat).toNat = 0 := by omega
  rw [h0, Nat.pow_zero, Nat.mul_one] at this
  omega

/-- C2 for a non-negative unit exponent: `2 * |num − m * den * 2^u| ≤ den * 2^u` -/
theorem ratToF32Bits_nearest_nonneg {num den : Nat} {bits : UInt32} (hn : 0 < num) (hd : 0 < den)
    (h : ratToF32Bits num den = some bits) (hu : 0 ≤ f32Exp bits.toNat) :
    2 * ((num : Int) - ((f32Mant bits.toNat * (den * 2 ^ (f32Exp bits.toNat).toNat) : Nat) : Int)).natAbs
      ≤ den * 2 ^ (f32Exp bits.toNat).toNat := by
  have := ratToF32Bits_nearest hn hd h
  have h0 : (-(f32Exp bits.toNat)).toNat = 0 := by omega
  rw [h0, Nat.pow_zero, Nat.mul_one] at this
  omega

/-- C3: exactly half a unit away (on either side) means the significand is even -/
theorem ratToF32Bits_tie_even {num den : Nat} {bits : UInt32} (hn : 0 < num) (hd : 0 < den)
    (h : ratToF32Bits num den = some bits)
    (ht : 2 * (num * 2 ^ (-(f32Exp bits.toNat)).toNat)
        = 2 * (f32Mant bits.toNat * (den * 2 ^ (f32Exp bits.toNat).toNat))
          + den * 2 ^ (f32Exp bits.toNat).toNat ∨
      2 * (f32Mant bits.toNat * (den * 2 ^ (f32Exp bits.toNat).toNat))
        = 2 * (num * 2 ^ (-(f32Exp bits.toNat)).toNat)
          + den * 2 ^ (f32Exp bits.toNat).toNat) :
    f32Mant bits.toNat % 2 = 0 ∧ bits.toNat % 2 = 0 := by
  rw [(ratToF32Bits_some hn hd h).2] at ht ⊢
  have hm := f32_tie_core hn hd ht
  refine ⟨hm, ?_⟩
  unfold f32Mant at hm
  split at hm <;> omega

/-- C4: overflow happens exactly from `(2^24 − 1/2)·2^104` on (the midpoint between the largest
finite value and `2^128`, which ties to the even `2^128`) -/
theorem ratToF32Bits_none_iff {num den : Nat} (hn : 0 < num) (hd : 0 < den) :
    ratToF32Bits num den = none ↔ (2 ^ 25 - 1) * 2 ^ 104 * den ≤ 2 * num := by
  rw [ratToF32Bits_none hn hd, f32_overflow_iff hn hd]

/-- C4, the `some` direction -/
theorem ratToF32Bits_some_lt {num den : Nat} {bits : UInt32} (hn : 0 < num) (hd : 0 < den)
    (h : ratToF32Bits num den = some bits) : 2 * num < (2 ^ 25 - 1) * 2 ^ 104 * den := by
  apply Nat.lt_of_not_le
  intro hle
  rw [(ratToF32Bits_none_iff hn hd).2 hle] at h
  cases h

/-- underflow: the result is `+0` exactly when `num/den ≤ 2^-150` (half the smallest subnormal,
which ties to the even `0`) -/
theorem ratToF32Bits_zero_iff {num den : Nat} (hn : 0 < num) (hd : 0 < den) :
    ratToF32Bits num den = some 0 ↔ 2 ^ 150 * num ≤ den := by
  rw [← f32_zero_iff hn hd, ratToF32Bits_eq_bitsNat hn hd]
  constructor
  · intro h
    split at h
    · rename_i hlt
      injection h with h
      have := congrArg UInt32.toNat h
      rw [UInt32.toNat_ofNat_of_lt' (by unfold UInt32.size; omega)] at this
      exact this
    · cases h
  · intro h
    rw [h]
    rfl

/-- C5: a larger rational never gives a smaller bit pattern, and stays out of range once out -/
theorem ratToF32Bits_mono {num num' den : Nat} (hn : 0 < num) (hd : 0 < den) (h : num ≤ num') :
    (∀ b b', ratToF32Bits num den = some b → ratToF32Bits num' den = some b' → b ≤ b') ∧
    (ratToF32Bits num den = none → ratToF32Bits num' den = none) := by
  have hn' : 0 < num' := by omega
  have hm := f32BitsNat_mono hn hd h
  constructor
  · intro b b' hb hb'
    obtain ⟨_, e1⟩ := ratToF32Bits_some hn hd hb
    obtain ⟨_, e2⟩ := ratToF32Bits_some hn' hd hb'
    rw [UInt32.le_iff_toNat_le, e1, e2]
    exact hm
  · rw [ratToF32Bits_none hn hd, ratToF32Bits_none hn' hd]
    omega

/-- C5 for arbitrary denominators: the result depends only on the rational `num/den` -/
theorem ratToF32Bits_scale {num den k : Nat} (hn : 0 < num) (hd : 0 < den) (hk : 0 < k) :
    ratToF32Bits (num * k) (den * k) = ratToF32Bits num den := by
  rw [ratToF32Bits_eq_bitsNat (Nat.mul_pos hn hk) (Nat.mul_pos hd hk),
    ratToF32Bits_eq_bitsNat hn hd, f32BitsNat_scale hn hd hk]

/-- C5 for arbitrary denominators: `num/den ≤ num'/den'` -/
theorem ratToF32Bits_mono_rat {num num' den den' : Nat} (hn : 0 < num) (hd : 0 < den)
    (hn' : 0 < num') (hd' : 0 < den') (h : num * den' ≤ num' * den) :
    (∀ b b', ratToF32Bits num den = some b → ratToF32Bits num' den' = some b' → b ≤ b') ∧
    (ratToF32Bits num den = none → ratToF32Bits num' den' = none) := by
  have e1 := ratToF32Bits_scale hn hd hd'
  have e2 := ratToF32Bits_scale hn' hd' hd
  rw [Nat.mul_comm den' den] at e2
  rw [← e1, ← e2]
  exact ratToF32Bits_mono (Nat.mul_pos hn hd') (Nat.mul_pos hd hd') h

/-! #### all finite values on one scale

`f32Val b` is the value of the non-negative pattern `b` times `2^149`, a natural number; for
`b < 0x7f800000` these are exactly the finite non-negative binary32 values.  On this scale the
rational `num/den` is `num * 2^149 / den`. -/

theorem f32Val_eq (b : Nat) : f32Val b = f32Mant b * 2 ^ (f32Exp b + 149).toNat := rfl

/-- consecutive patterns are consecutive values: the next pattern adds one unit in the last place -/
theorem f32Val_next (b : Nat) : f32Val (b + 1) = f32Val b + 2 ^ (f32Exp b + 149).toNat :=
  f32Val_succ b

/-- the order of patterns is the order of values -/
theorem f32Val_strictMono {b b' : Nat} (h : b < b') : f32Val b < f32Val b' := by
  have := f32Val_lt h
  have := f32Ulp_pos b
  omega

example : f32Val 0 = 0 := by decide
example : f32Val 1 = 1 := by decide                                    -- 2^-149
example : f32Val 0x00800000 = 2 ^ 23 := by decide                      -- 2^-126
example : f32Val 0x3f800000 = 2 ^ 149 := by decide                     -- 1.0
example : f32Val 0x7f7fffff = (2 ^ 24 - 1) * 2 ^ 253 := by decide      -- (2^24-1) * 2^104

/-- C2 at full strength: no pattern is closer to `num/den` than the result,
`|num/den − val bits| ≤ |num/den − val b'|` for every `b'` -/
theorem ratToF32Bits_nearest_all {num den : Nat} {bits : UInt32} (hn : 0 < num) (hd : 0 < den)
    (h : ratToF32Bits num den = some bits) (b' : Nat) :
    (((num * 2 ^ 149 : Nat) : Int) - ((f32Val bits.toNat * den : Nat) : Int)).natAbs
      ≤ (((num * 2 ^ 149 : Nat) : Int) - ((f32Val b' * den : Nat) : Int)).natAbs := by
  rw [(ratToF32Bits_some hn hd h).2]
  exact (f32_nearest_all_core hn hd b').1

/-- C3 at full strength: if another pattern is equally close, the result is the even one -/
theorem ratToF32Bits_tie_even_all {num den : Nat} {bits : UInt32} (hn : 0 < num) (hd : 0 < den)
    (h : ratToF32Bits num den = some bits) (b' : Nat) (hne : b' ≠ bits.toNat)
    (heq : (((num * 2 ^ 149 : Nat) : Int) - ((f32Val bits.toNat * den : Nat) : Int)).natAbs
      = (((num * 2 ^ 149 : Nat) : Int) - ((f32Val b' * den : Nat) : Int)).natAbs) :
    bits.toNat % 2 = 0 := by
  rw [(ratToF32Bits_some hn hd h).2] at hne heq ⊢
  exact (f32_nearest_all_core hn hd b').2 heq hne

/-! examples -/

example : ratToF32Bits 1 10 = some 0x3dcccccd := by decide
example : ratToF32Bits 16777217 1 = some 0x4b800000 := by decide          -- 2^24+1: tie, to even
example : ratToF32Bits 16777219 1 = some 0x4b800002 := by decide          -- 2^24+3: tie, to even
example : ratToF32Bits 33554434 1 = some 0x4c000000 := by decide          -- 2^25+2: tie, to even
example : ratToF32Bits 33554435 1 = some 0x4c000001 := by decide
example : ratToF32Bits 33554438 1 = some 0x4c000002 := by decide          -- 2^25+6: tie, to even
example : ratToF32Bits 1 (2 ^ 149) = some 1 := by decide                   -- smallest subnormal
example : ratToF32Bits 1 (2 ^ 150) = some 0 := by decide                   -- tie, to even (zero)
example : ratToF32Bits 3 (2 ^ 150) = some 2 := by decide                   -- tie, to even
example : ratToF32Bits 1 (2 ^ 126) = some 0x00800000 := by decide          -- smallest normal
example : ratToF32Bits (2 ^ 24 - 1) (2 ^ 150) = some 0x00800000 := by decide -- subnormal carry
example : ratToF32Bits ((2 ^ 24 - 1) * 2 ^ 104) 1 = some 0x7f7fffff := by decide
example : ratToF32Bits ((2 ^ 25 - 1) * 2 ^ 103 - 1) 1 = some 0x7f7fffff := by decide
example : ratToF32Bits ((2 ^ 25 - 1) * 2 ^ 103) 1 = none := by decide      -- tie, to even = 2^128
example : decodeFloat32 (strOf "0.1") = some 0x3dcccccd := by decide
example : decodeFloat32 (strOf "1e-45") = some 1 := by decide
example : decodeFloat32 (strOf "7.1e-46") = some 1 := by decide
example : decodeFloat32 (strOf "7e-46") = some 0 := by decide
example : decodeFloat32 (strOf "1.17549435e-38") = some 0x00800000 := by decide
example : decodeFloat32 (strOf "3.4028235e38") = some 0x7f7fffff := by decide
example : decodeFloat32 (strOf "3.4028236e38") = none := by decide
example : decodeFloat32 (strOf "1e41") = none := by decide                 -- shortcut
example : decodeFloat32 (strOf "1e-70") = some 0 := by decide              -- shortcut

/-! ### D. the magnitude shortcuts of `decodeFloat32` -/

/-- the decoding without shortcuts -/
def decodeFloat32Full (v : List Rune) : Option UInt32 :=
  match parseDecLit v with
  | none => none
  | some ⟨m, e⟩ =>
    if m == 0 then some 0
    else if e ≥ 0 then ratToF32Bits (m * 10 ^ e.toNat) 1
    else ratToF32Bits m (10 ^ (-e).toNat)

theorem ten_pow_pos (n : Nat) : 0 < 10 ^ n := Nat.pow_pos (by decide)

/-- D, too large: `10^40 ≤ value` overflows -/
theorem shortcut_overflow {m : Nat} {e : Int} (hm : m ≠ 0) (h : (decDigitCount m : Int) + e > 40) :
    (if e ≥ 0 then ratToF32Bits (m * 10 ^ e.toNat) 1 else ratToF32Bits m (10 ^ (-e).toNat))
      = none := by
  have hm' : 0 < m := Nat.pos_of_ne_zero hm
  obtain ⟨b1, _⟩ := decDigits_bounds hm'
  by_cases he : e ≥ 0
  · rw [if_pos he, ratToF32Bits_none_iff (Nat.mul_pos hm' (ten_pow_pos _)) (by decide)]
    have hp : 10 ^ 40 ≤ 10 ^ (decDigitCount m - 1 + e.toNat) :=
      Nat.pow_le_pow_right (by decide) (by omega)
    rw [Nat.pow_add] at hp
    have := Nat.mul_le_mul_right (10 ^ e.toNat) b1
    generalize m * 10 ^ e.toNat = x at *
    generalize 10 ^ (decDigitCount m - 1) * 10 ^ e.toNat = y at *
    omega
  · rw [if_neg he, ratToF32Bits_none_iff hm' (ten_pow_pos _)]
    have hp : 10 ^ (40 + (-e).toNat) ≤ 10 ^ (decDigitCount m - 1) :=
      Nat.pow_le_pow_right (by decide) (by omega)
    rw [Nat.pow_add] at hp
    generalize 10 ^ (-e).toNat = P at *
    generalize 10 ^ (decDigitCount m - 1) = y at *
    omega

/-- D, too small: `value < 10^-60` rounds to zero -/
theorem shortcut_underflow {m : Nat} {e : Int} (hm : m ≠ 0) (h : (decDigitCount m : Int) + e < -60) :
    (if e ≥ 0 then ratToF32Bits (m * 10 ^ e.toNat) 1 else ratToF32Bits m (10 ^ (-e).toNat))
      = some 0 := by
  have hm' : 0 < m := Nat.pos_of_ne_zero hm
  obtain ⟨_, b2⟩ := decDigits_bounds hm'
  have he : ¬ e ≥ 0 := by omega
  rw [if_neg he, ratToF32Bits_zero_iff hm' (ten_pow_pos _)]
  have hp : 10 ^ (decDigitCount m + 61) ≤ 10 ^ (-e).toNat :=
    Nat.pow_le_pow_right (by decide) (by omega)
  rw [Nat.pow_add] at hp
  generalize 10 ^ (-e).toNat = P at *
  generalize 10 ^ decDigitCount m = y at *
  omega

/-- D: the shortcuts never change the answer -/
theorem decodeFloat32_eq_full (v : List Rune) : decodeFloat32 v = decodeFloat32Full v := by
  unfold decodeFloat32 decodeFloat32Full
  cases parseDecLit v with
  | none => rfl
  | some d =>
    cases d with
    | mk m e =>
      simp only []
      by_cases hm : (m == 0) = true
      · rw [if_pos hm, if_pos hm]
      · rw [if_neg hm, if_neg hm]
        have hm0 : m ≠ 0 := by simpa using hm
        by_cases h1 : (decDigitCount m : Int) + e > 40
        · rw [if_pos h1, shortcut_overflow hm0 h1]
        · rw [if_neg h1]
          by_cases h2 : (decDigitCount m : Int) + e < -60
          · rw [if_pos h2, shortcut_underflow hm0 h2]
          · rw [if_neg h2]

/-- D in the requested form -/
theorem decodeFloat32_shortcuts_sound {v : List Rune} {m : Nat} {e : Int}
    (_hp : parseDecLit v = some ⟨m, e⟩) (hm : m ≠ 0) :
    ((decDigitCount m : Int) + e > 40 →
      (if e ≥ 0 then ratToF32Bits (m * 10 ^ e.toNat) 1 else ratToF32Bits m (10 ^ (-e).toNat))
        = none) ∧
    ((decDigitCount m : Int) + e < -60 →
      (if e ≥ 0 then ratToF32Bits (m * 10 ^ e.toNat) 1 else ratToF32Bits m (10 ^ (-e).toNat))
        = some 0) :=
  ⟨shortcut_overflow hm, shortcut_underflow hm⟩

/-- D, summary: a constant with non-zero digits `m` and decimal exponent `e` decodes to the
binary32 nearest to `m * 10^e` (all of section C applies with `num = m * 10^e⁺`, `den = 10^(−e)⁺`) -/
theorem decodeFloat32_eq_rat {v : List Rune} {m : Nat} {e : Int}
    (hp : parseDecLit v = some ⟨m, e⟩) (hm : m ≠ 0) :
    decodeFloat32 v = ratToF32Bits (m * 10 ^ e.toNat) (10 ^ (-e).toNat) := by
  rw [decodeFloat32_eq_full]
  unfold decodeFloat32Full
  rw [hp]
  simp only []
  have hm' : ¬ (m == 0) = true := by simpa using hm
  rw [if_neg hm']
  by_cases he : e ≥ 0
  · have h0 : (-e).toNat = 0 := by omega
    rw [if_pos he, h0, Nat.pow_zero]
  · have h0 : e.toNat = 0 := by omega
    rw [if_neg he, h0, Nat.pow_zero, Nat.mul_one]

/-- D: zero digits decode to `+0` whatever the exponent -/
theorem decodeFloat32_zero {v : List Rune} {e : Int} (hp : parseDecLit v = some ⟨0, e⟩) :
    decodeFloat32 v = some 0 := by
  unfold decodeFloat32
  rw [hp]
  rfl

end Verif
