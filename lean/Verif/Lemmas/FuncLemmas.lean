/-
Helper lemmas about the default function collection (`Verif/Model/Funcs.lean`) used by C08.
-/
import Verif.Model.Funcs
import Verif.Lemmas.ValueLemmas
import Verif.Props.C06
namespace Verif

/-! ### no panics -/

theorem R.NoPanic.ite {c : Prop} [Decidable c] {a b : R} (ha : a.NoPanic) (hb : b.NoPanic) :
    (if c then a else b).NoPanic := by
  split <;> assumption

theorem binop_noPanic (m : Mgr) (op : Op) (a b : V) : (binop m op a b).NoPanic :=
  fun s => C06_never_panics.1 m op a b s

theorem withLong_noPanic (m : Mgr) (fn : String) (args : List V) (v : V) (k : Int64 → R)
    (hk : ∀ i, (k i).NoPanic) : (withLong m fn args v k).NoPanic := by
  unfold withLong
  refine (convert_noPanic m v .long).bind fun r => ?_
  split
  · exact hk _
  · exact .ok _

theorem withInt_noPanic (m : Mgr) (fn : String) (args : List V) (v : V) (k : Int64 → R)
    (hk : ∀ i, (k i).NoPanic) : (withInt m fn args v k).NoPanic := by
  unfold withInt
  refine (convert_noPanic m v .integer).bind fun r => ?_
  split
  · exact hk _
  · exact .ok _

theorem withDouble_noPanic (m : Mgr) (fn : String) (args : List V) (v : V) (k : Float → R)
    (hk : ∀ d, (k d).NoPanic) : (withDouble m fn args v k).NoPanic := by
  unfold withDouble
  refine (convert_noPanic m v .double).bind fun r => ?_
  split
  · exact hk _
  · exact .ok _

theorem foldSelect_noPanic (m : Mgr) (cmp : Op) (acc : V) (vs : List V) :
    (foldSelect m cmp acc vs).NoPanic := by
  induction vs generalizing acc with
  | nil => exact .ok _
  | cons v vs ih =>
    unfold foldSelect
    split
    · exact ih _
    · exact ih _
    · exact .ok _
    · exact .err _
    · exact .err _
    · rename_i s h; exact absurd h (binop_noPanic m cmp acc v s)

theorem foldAdd_noPanic (m : Mgr) (acc : V) (vs : List V) : (foldAdd m acc vs).NoPanic := by
  induction vs generalizing acc with
  | nil => exact .ok _
  | cons v vs ih =>
    unfold foldAdd
    exact (binop_noPanic m .add acc v).bind fun r => ih r

/-- one step of the "no panic" analysis of `calcFn` -/
macro "np_step" : tactic => `(tactic| first
  | exact R.NoPanic.ok _
  | exact R.NoPanic.err _
  | exact foldSelect_noPanic _ _ _ _
  | exact foldAdd_noPanic _ _ _
  | apply R.NoPanic.ite
  | (apply withLong_noPanic; intro _)
  | (apply withInt_noPanic; intro _)
  | (apply withDouble_noPanic; intro _)
  | (apply R.NoPanic.bind (convert_noPanic _ _ _); intro _)
  | split)

/-- holds for every name (registered or not) and all arguments, host-dependent ones included -/
theorem calcFn_noPanic (m : Mgr) (fn : String) (args : List V) : (calcFn m fn args).NoPanic := by
  unfold calcFn
  simp only []
  repeat' np_step

/-! ### results -/

theorem R.bind_eq_ok {r : R} {f : V → R} {v : V} (h : r.bind f = .ok v) :
    ∃ x, r = .ok x ∧ f x = .ok v := by
  cases r with
  | ok x => exact ⟨x, rfl, h⟩
  | err c => cases h
  | panic s => cases h

theorem R.bind_ok (x : V) (f : V → R) : (R.ok x).bind f = f x := rfl
theorem R.bind_err (c : String) (f : V → R) : (R.err c).bind f = .err c := rfl

theorem withLong_ok {m : Mgr} {fn : String} {args : List V} {v : V} {k : Int64 → R} {i : Int64}
    (h : convert m v .long = .ok (.long i)) : withLong m fn args v k = k i := by
  simp [withLong, h, R.bind]
theorem withLong_err {m : Mgr} {fn : String} {args : List V} {v : V} {k : Int64 → R} {c : String}
    (h : convert m v .long = .err c) : withLong m fn args v k = .err c := by
  simp [withLong, h, R.bind]
theorem withLong_ok_cases {m : Mgr} {fn : String} {args : List V} {v : V} {k : Int64 → R} {r : V}
    (h : withLong m fn args v k = .ok r) : (∃ i, k i = .ok r) ∨ r = .host fn args := by
  unfold withLong at h
  obtain ⟨x, _, hx⟩ := R.bind_eq_ok h
  split at hx
  · exact .inl ⟨_, hx⟩
  · injection hx with hx; exact .inr hx.symm

theorem withInt_ok {m : Mgr} {fn : String} {args : List V} {v : V} {k : Int64 → R} {i : Int64}
    (h : convert m v .integer = .ok (.int i)) : withInt m fn args v k = k i := by
  simp [withInt, h, R.bind]
theorem withInt_err {m : Mgr} {fn : String} {args : List V} {v : V} {k : Int64 → R} {c : String}
    (h : convert m v .integer = .err c) : withInt m fn args v k = .err c := by
  simp [withInt, h, R.bind]
theorem withInt_ok_cases {m : Mgr} {fn : String} {args : List V} {v : V} {k : Int64 → R} {r : V}
    (h : withInt m fn args v k = .ok r) : (∃ i, k i = .ok r) ∨ r = .host fn args := by
  unfold withInt at h
  obtain ⟨x, _, hx⟩ := R.bind_eq_ok h
  split at hx
  · exact .inl ⟨_, hx⟩
  · injection hx with hx; exact .inr hx.symm

theorem withDouble_ok {m : Mgr} {fn : String} {args : List V} {v : V} {k : Float → R} {i : Float}
    (h : convert m v .double = .ok (.double i)) : withDouble m fn args v k = k i := by
  simp [withDouble, h, R.bind]
theorem withDouble_err {m : Mgr} {fn : String} {args : List V} {v : V} {k : Float → R} {c : String}
    (h : convert m v .double = .err c) : withDouble m fn args v k = .err c := by
  simp [withDouble, h, R.bind]
theorem withDouble_ok_cases {m : Mgr} {fn : String} {args : List V} {v : V} {k : Float → R} {r : V}
    (h : withDouble m fn args v k = .ok r) : (∃ i, k i = .ok r) ∨ r = .host fn args := by
  unfold withDouble at h
  obtain ⟨x, _, hx⟩ := R.bind_eq_ok h
  split at hx
  · exact .inl ⟨_, hx⟩
  · injection hx with hx; exact .inr hx.symm

/-! ### Min / Max: the selecting fold -/

/-- one step of Min / Max on a Boolean comparison: take the new value when the comparison holds -/
def selectStep (cmpB : V → V → Bool) (acc v : V) : V := if cmpB acc v then v else acc

theorem selectStep_mem (cmpB : V → V → Bool) (a : V) (vs : List V) :
    vs.foldl (selectStep cmpB) a ∈ a :: vs := by
  induction vs generalizing a with
  | nil => simp
  | cons v vs ih =>
    simp only [List.foldl_cons]
    rcases List.mem_cons.1 (ih (selectStep cmpB a v)) with h | h
    · rw [h]; unfold selectStep; split <;> simp
    · exact List.mem_cons_of_mem _ (List.mem_cons_of_mem _ h)

theorem foldSelect_append_bool (m : Mgr) (cmp : Op) (cmpB : V → V → Bool) (a : V) (pre rest : List V)
    (h : ∀ x ∈ a :: pre, ∀ y ∈ pre, binop m cmp x y = .ok (.bool (cmpB x y))) :
    foldSelect m cmp a (pre ++ rest) = foldSelect m cmp (pre.foldl (selectStep cmpB) a) rest := by
  induction pre generalizing a with
  | nil => rfl
  | cons v vs ih =>
    have h0 := h a (by simp) v (by simp)
    simp only [List.cons_append, List.foldl_cons]
    rw [foldSelect, h0]
    cases hb : cmpB a v
    · simp only [selectStep, hb]
      exact ih a fun x hx y hy => h x (by
        rcases List.mem_cons.1 hx with rfl | hx
        · simp
        · simp [hx]) y (by simp [hy])
    · simp only [selectStep, hb]
      exact ih v fun x hx y hy => h x (by simp [hx]) y (by simp [hy])

theorem foldAdd_eq_foldl (m : Mgr) (a : V) (vs : List V) :
    foldAdd m a vs = vs.foldl (fun r v => r.bind fun x => binop m .add x v) (.ok a) := by
  have herr : ∀ (c : String) (vs : List V),
      vs.foldl (fun r v => R.bind r fun x => binop m .add x v) (.err c) = .err c := by
    intro c vs; induction vs with
    | nil => rfl
    | cons v vs ih => exact ih
  have hpanic : ∀ (s : String) (vs : List V),
      vs.foldl (fun r v => R.bind r fun x => binop m .add x v) (.panic s) = .panic s := by
    intro c vs; induction vs with
    | nil => rfl
    | cons v vs ih => exact ih
  induction vs generalizing a with
  | nil => rfl
  | cons v vs ih =>
    rw [foldAdd, List.foldl_cons]
    show (binop m .add a v).bind _ = List.foldl _ (binop m .add a v) vs
    cases h : binop m .add a v with
    | ok r => exact ih r
    | err c => rw [herr]; rfl
    | panic s => rw [hpanic]; rfl

theorem isSublistAt_iff (sub l : List Rune) : isSublistAt sub l = true ↔ sub <+: l := by
  induction sub generalizing l with
  | nil => simp [isSublistAt]
  | cons a as ih =>
    cases l with
    | nil => simp [isSublistAt]
    | cons b bs => simp [isSublistAt, ih, List.cons_prefix_cons]

theorem containsSub_iff (s sub : List Rune) : containsSub s sub = true ↔ sub <:+: s := by
  induction s with
  | nil => cases sub <;> simp [containsSub]
  | cons c cs ih =>
    simp only [containsSub, Bool.or_eq_true, isSublistAt_iff, ih, List.infix_cons_iff]

theorem weekdayOf_range (s : Int) : 0 ≤ weekdayOf s ∧ weekdayOf s < 7 :=
  ⟨Int.emod_nonneg _ (by decide), Int.emod_lt_of_pos _ (by decide)⟩

theorem weekdayOf_epoch : weekdayOf 0 = 4 := by decide

theorem weekdayOf_next_day (s : Int) : weekdayOf (s + 86400) = (weekdayOf s + 1).emod 7 := by
  unfold weekdayOf
  have : (s + 86400).fdiv 86400 = s.fdiv 86400 + 1 := by
    simp [Int.fdiv_eq_ediv_of_nonneg]
    omega
  have e : ∀ a b : Int, a.emod b = a % b := fun _ _ => rfl
  rw [this]
  simp only [e]
  omega


/-! ### Min / Max / Sum on Integer arguments -/

theorem binop_more_int (m : Mgr) (x y : Int64) :
    binop m .more (.int x) (.int y) = .ok (.bool (decide (x > y))) := by
  cases m <;> simp [binop, isHostV, binopCore, V.typ, convert, convertUnsafe, convertSafe, R.bind,
    arith, arithCore]

theorem binop_less_int (m : Mgr) (x y : Int64) :
    binop m .less (.int x) (.int y) = .ok (.bool (decide (x < y))) := by
  cases m <;> simp [binop, isHostV, binopCore, V.typ, convert, convertUnsafe, convertSafe, R.bind,
    arith, arithCore]

theorem binop_add_int (m : Mgr) (x y : Int64) :
    binop m .add (.int x) (.int y) = .ok (.int (x + y)) := by
  cases m <;> simp [binop, isHostV, binopCore, V.typ, convert, convertUnsafe, convertSafe, R.bind,
    arith, arithCore]

/-- a Boolean comparison of Integer payloads, lifted to values -/
def liftIntCmp (f : Int64 → Int64 → Bool) : V → V → Bool
  | .int x, .int y => f x y
  | _, _ => false

theorem foldl_selectStep_int (f : Int64 → Int64 → Bool) (a : Int64) (xs : List Int64) :
    (xs.map V.int).foldl (selectStep (liftIntCmp f)) (.int a) =
      .int (xs.foldl (fun acc v => if f acc v then v else acc) a) := by
  induction xs generalizing a with
  | nil => rfl
  | cons x xs ih =>
    simp only [List.map_cons, List.foldl_cons]
    have hl : liftIntCmp f (.int a) (.int x) = f a x := rfl
    by_cases h : f a x = true
    · have hs : selectStep (liftIntCmp f) (.int a) (.int x) = .int x := by simp [selectStep, hl, h]
      rw [hs, if_pos h]; exact ih x
    · have hs : selectStep (liftIntCmp f) (.int a) (.int x) = .int a := by simp [selectStep, hl, h]
      rw [hs, if_neg h]; exact ih a

theorem foldSelect_ints (m : Mgr) (cmp : Op) (f : Int64 → Int64 → Bool)
    (hf : ∀ x y, binop m cmp (.int x) (.int y) = .ok (.bool (f x y))) (a : Int64) (xs : List Int64) :
    foldSelect m cmp (.int a) (xs.map .int) =
      .ok (.int (xs.foldl (fun acc v => if f acc v then v else acc) a)) := by
  have h := foldSelect_append_bool m cmp (liftIntCmp f) (.int a) (xs.map .int) [] (by
    intro x hx y hy
    have hx' : ∃ x', x = .int x' := by
      rcases List.mem_cons.1 hx with rfl | hx
      · exact ⟨a, rfl⟩
      · obtain ⟨x', _, rfl⟩ := List.mem_map.1 hx; exact ⟨x', rfl⟩
    obtain ⟨x', rfl⟩ := hx'
    obtain ⟨y', _, rfl⟩ := List.mem_map.1 hy
    exact hf x' y')
  rw [List.append_nil] at h
  rw [h, foldl_selectStep_int]
  rfl

/-- the selecting fold with `>` computes a minimum: a member that is `≤` every element -/
theorem foldl_min_spec (a : Int64) (xs : List Int64) :
    let r := xs.foldl (fun acc v => if acc > v then v else acc) a
    r ∈ a :: xs ∧ ∀ x ∈ a :: xs, r ≤ x := by
  induction xs generalizing a with
  | nil => simp
  | cons x xs ih =>
    simp only [List.foldl_cons]
    have := ih (if a > x then x else a)
    obtain ⟨hm, hle⟩ := this
    refine ⟨?_, ?_⟩
    · rcases List.mem_cons.1 hm with h | h
      · rw [h]; split <;> simp
      · simp [h]
    · intro y hy
      have h0 := hle _ List.mem_cons_self
      rcases List.mem_cons.1 hy with rfl | hy
      · refine Int64.le_trans h0 ?_
        split
        · rename_i hgt; exact Int64.le_of_lt hgt
        · exact Int64.le_refl _
      · rcases List.mem_cons.1 hy with rfl | hy
        · refine Int64.le_trans h0 ?_
          split
          · exact Int64.le_refl _
          · rename_i hgt
            rw [Int64.le_iff_toInt_le]
            have : ¬ (y.toInt < a.toInt) := by rwa [GT.gt, Int64.lt_iff_toInt_lt] at hgt
            omega
        · exact hle y (List.mem_cons_of_mem _ hy)

theorem foldl_max_spec (a : Int64) (xs : List Int64) :
    let r := xs.foldl (fun acc v => if acc < v then v else acc) a
    r ∈ a :: xs ∧ ∀ x ∈ a :: xs, x ≤ r := by
  induction xs generalizing a with
  | nil => simp
  | cons x xs ih =>
    simp only [List.foldl_cons]
    have := ih (if a < x then x else a)
    obtain ⟨hm, hle⟩ := this
    refine ⟨?_, ?_⟩
    · rcases List.mem_cons.1 hm with h | h
      · rw [h]; split <;> simp
      · simp [h]
    · intro y hy
      have h0 := hle _ List.mem_cons_self
      rcases List.mem_cons.1 hy with rfl | hy
      · refine Int64.le_trans ?_ h0
        split
        · rename_i hgt; exact Int64.le_of_lt hgt
        · exact Int64.le_refl _
      · rcases List.mem_cons.1 hy with rfl | hy
        · refine Int64.le_trans ?_ h0
          split
          · exact Int64.le_refl _
          · rename_i hgt
            rw [Int64.le_iff_toInt_le]
            have : ¬ (a.toInt < y.toInt) := by rwa [Int64.lt_iff_toInt_lt] at hgt
            omega
        · exact hle y (List.mem_cons_of_mem _ hy)



/-! ### result types -/

/-- every modelled (non-host) successful result has type `t` -/
def R.OkTyp (t : VT) (r : R) : Prop := ∀ v, r = .ok v → isHostV v = false → v.typ = t

theorem R.OkTyp.err {t : VT} (c : String) : (R.err c).OkTyp t := by intro v h; cases h
theorem R.OkTyp.ok {t : VT} {v : V} (h : v.typ = t) : (R.ok v).OkTyp t := by
  intro v' h' _; injection h' with h'; subst h'; exact h
theorem R.OkTyp.host {t : VT} (tag : String) (a : List V) : (R.ok (.host tag a)).OkTyp t := by
  intro v' h' hh; injection h' with h'; subst h'; cases hh
theorem R.OkTyp.ite {t : VT} {c : Prop} [Decidable c] {a b : R} (ha : a.OkTyp t) (hb : b.OkTyp t) :
    (if c then a else b).OkTyp t := by
  split <;> assumption
theorem R.OkTyp.bind {t : VT} {r : R} {f : V → R} (hf : ∀ x, (f x).OkTyp t) : (r.bind f).OkTyp t := by
  cases r with
  | ok x => exact hf x
  | err c => exact .err c
  | panic s => intro v h; cases h
theorem withLong_okTyp {t : VT} (m : Mgr) (fn : String) (args : List V) (v : V) (k : Int64 → R)
    (hk : ∀ i, (k i).OkTyp t) : (withLong m fn args v k).OkTyp t := by
  unfold withLong
  refine .bind fun r => ?_
  split
  · exact hk _
  · exact .host _ _
theorem withInt_okTyp {t : VT} (m : Mgr) (fn : String) (args : List V) (v : V) (k : Int64 → R)
    (hk : ∀ i, (k i).OkTyp t) : (withInt m fn args v k).OkTyp t := by
  unfold withInt
  refine .bind fun r => ?_
  split
  · exact hk _
  · exact .host _ _
theorem withDouble_okTyp {t : VT} (m : Mgr) (fn : String) (args : List V) (v : V) (k : Float → R)
    (hk : ∀ d, (k d).OkTyp t) : (withDouble m fn args v k).OkTyp t := by
  unfold withDouble
  refine .bind fun r => ?_
  split
  · exact hk _
  · exact .host _ _

macro "ot_step" : tactic => `(tactic| first
  | exact R.OkTyp.err _
  | exact R.OkTyp.ok rfl
  | exact R.OkTyp.host _ _
  | apply R.OkTyp.ite
  | (apply withLong_okTyp; intro _)
  | (apply withInt_okTyp; intro _)
  | (apply withDouble_okTyp; intro _)
  | (apply R.OkTyp.bind; intro _)
  | split)



/-! ### error codes -/

/-- every error of `r` carries one of the codes `S` -/
def R.ErrIn (S : List String) (r : R) : Prop := ∀ c, r = .err c → c ∈ S

theorem R.ErrIn.ok {S : List String} (v : V) : (R.ok v).ErrIn S := by intro c h; cases h
theorem R.ErrIn.panic {S : List String} (s : String) : (R.panic s).ErrIn S := by intro c h; cases h
theorem R.ErrIn.err {S : List String} {c : String} (h : c ∈ S) : (R.err c).ErrIn S := by
  intro c' h'; injection h' with h'; subst h'; exact h
theorem R.ErrIn.ite {S : List String} {c : Prop} [Decidable c] {a b : R}
    (ha : a.ErrIn S) (hb : b.ErrIn S) : (if c then a else b).ErrIn S := by
  split <;> assumption
theorem R.ErrIn.ite' {S : List String} {c : Prop} [Decidable c] {a b : R}
    (ha : c → a.ErrIn S) (hb : ¬ c → b.ErrIn S) : (if c then a else b).ErrIn S := by
  split
  · exact ha ‹_›
  · exact hb ‹_›
theorem R.ErrIn.bind {S : List String} {r : R} {f : V → R} (h : r.ErrIn S) (hf : ∀ v, (f v).ErrIn S) :
    (r.bind f).ErrIn S := by
  cases r with
  | ok v => exact hf v
  | err c => exact .err (h c rfl)
  | panic s => exact .panic s
theorem R.ErrIn.mono {S T : List String} {r : R} (h : r.ErrIn S) (hst : ∀ c ∈ S, c ∈ T) : r.ErrIn T :=
  fun c hc => hst c (h c hc)

/-- the error codes of the variant operations -/
def opCodes : List String :=
  ["CONV_NOT_SUPPORTED", "OP_NOT_SUPPORTED", "DIV_BY_ZERO", "NEGATIVE_SHIFT", "INDEX_OUT_OF_RANGE"]

theorem opErr_errIn : opErr.ErrIn opCodes := .err (by decide)
theorem convErr_errIn : convErr.ErrIn opCodes := .err (by decide)
theorem divZero_errIn : (R.err "DIV_BY_ZERO").ErrIn opCodes := .err (by decide)

macro "ei_leaf" : tactic => `(tactic| first
  | exact R.ErrIn.ok _
  | exact opErr_errIn
  | exact convErr_errIn
  | exact divZero_errIn
  | exact R.ErrIn.err (by decide))

theorem convertUnsafe_errIn (v : V) (t : VT) : (convertUnsafe v t).ErrIn opCodes := by
  unfold convertUnsafe
  split
  · ei_leaf
  split
  · ei_leaf
  split
  · split <;> ei_leaf
  split <;> first | ei_leaf | (split <;> ei_leaf)

theorem convertSafe_errIn (v : V) (t : VT) : (convertSafe v t).ErrIn opCodes := by
  unfold convertSafe
  split
  · ei_leaf
  split
  · ei_leaf
  split <;> ei_leaf

theorem convert_errIn (m : Mgr) (v : V) (t : VT) : (convert m v t).ErrIn opCodes := by
  unfold convert
  split
  · ei_leaf
  · cases m
    · exact convertUnsafe_errIn v t
    · exact convertSafe_errIn v t

theorem arithCore_errIn (op : Op) (a b : V) : (arithCore op a b).ErrIn opCodes := by
  unfold arithCore
  split <;> first | ei_leaf | (split <;> ei_leaf)

theorem arith_errIn (op : Op) (a b : V) : (arith op a b).ErrIn opCodes := by
  unfold arith
  split
  · ei_leaf
  · exact arithCore_errIn op a b

theorem equalOp_errIn (m : Mgr) (a b : V) : (equalOp m a b).ErrIn opCodes := by
  unfold equalOp
  split
  · ei_leaf
  split
  · ei_leaf
  exact (convert_errIn m b a.typ).bind fun _ => arith_errIn _ _ _

theorem inLoop_errIn (m : Mgr) (x : V) (es : List V) : (inLoop m x es).ErrIn opCodes := by
  induction es with
  | nil => ei_leaf
  | cons e es ih =>
    unfold inLoop
    split
    · ei_leaf
    · ei_leaf
    · exact ih
    · rename_i c h
      exact .err (equalOp_errIn m x e c h)
    · exact .panic _

theorem binopCore_errIn (m : Mgr) (op : Op) (a b : V) : (binopCore m op a b).ErrIn opCodes := by
    have hbind : ∀ t (f : V → R), (∀ v, (f v).ErrIn opCodes) → ((convert m b t).bind f).ErrIn opCodes :=
      fun t f hf => (convert_errIn m b t).bind hf
    cases op <;> simp only [binopCore]
    case equal => exact equalOp_errIn m a b
    case notEqual =>
      split
      · ei_leaf
      split
      · ei_leaf
      exact hbind _ _ fun _ => arith_errIn _ _ _
    case pow =>
      split
      · ei_leaf
      split
      · refine (convert_errIn m a _).bind fun a' => hbind _ _ fun b' => ?_
        split <;> ei_leaf
      · ei_leaf
    case lsh =>
      split
      · ei_leaf
      refine hbind _ _ fun b' => ?_
      split
      · split
        · ei_leaf
        · split <;> ei_leaf
      · ei_leaf
    case rsh =>
      split
      · ei_leaf
      refine hbind _ _ fun b' => ?_
      split
      · split
        · ei_leaf
        · split <;> ei_leaf
      · ei_leaf
    case in_ =>
      split
      · ei_leaf
      split
      · exact inLoop_errIn _ _ _
      · exact equalOp_errIn _ _ _
    case getElement =>
      split
      · ei_leaf
      refine hbind _ _ fun b' => ?_
      split
      · split
        · split <;> ei_leaf
        · split <;> ei_leaf
        · ei_leaf
      · ei_leaf
    case not => ei_leaf
    case neg => ei_leaf
    all_goals
      split
      · ei_leaf
      · exact hbind _ _ fun _ => arith_errIn _ _ _

theorem binop_errIn (m : Mgr) (op : Op) (a b : V) : (binop m op a b).ErrIn opCodes := by
  unfold binop
  split
  · ei_leaf
  · exact binopCore_errIn m op a b

/-- the error codes of the function calls that are not about the argument count -/
def calcCodes : List String := opCodes ++ ["CALC_FAILED"]

theorem convert_errIn' (m : Mgr) (v : V) (t : VT) : (convert m v t).ErrIn calcCodes :=
  (convert_errIn m v t).mono (by decide)
theorem binop_errIn' (m : Mgr) (op : Op) (a b : V) : (binop m op a b).ErrIn calcCodes :=
  (binop_errIn m op a b).mono (by decide)

theorem withLong_errIn {S : List String} (m : Mgr) (fn : String) (args : List V) (v : V) (k : Int64 → R)
    (hc : ∀ v t, (convert m v t).ErrIn S) (hk : ∀ i, (k i).ErrIn S) : (withLong m fn args v k).ErrIn S := by
  unfold withLong
  refine (hc v .long).bind fun r => ?_
  split
  · exact hk _
  · exact .ok _
theorem withInt_errIn {S : List String} (m : Mgr) (fn : String) (args : List V) (v : V) (k : Int64 → R)
    (hc : ∀ v t, (convert m v t).ErrIn S) (hk : ∀ i, (k i).ErrIn S) : (withInt m fn args v k).ErrIn S := by
  unfold withInt
  refine (hc v .integer).bind fun r => ?_
  split
  · exact hk _
  · exact .ok _
theorem withDouble_errIn {S : List String} (m : Mgr) (fn : String) (args : List V) (v : V) (k : Float → R)
    (hc : ∀ v t, (convert m v t).ErrIn S) (hk : ∀ d, (k d).ErrIn S) : (withDouble m fn args v k).ErrIn S := by
  unfold withDouble
  refine (hc v .double).bind fun r => ?_
  split
  · exact hk _
  · exact .ok _

theorem foldSelect_errIn (m : Mgr) (cmp : Op) (acc : V) (vs : List V) :
    (foldSelect m cmp acc vs).ErrIn calcCodes := by
  induction vs generalizing acc with
  | nil => exact .ok _
  | cons v vs ih =>
    unfold foldSelect
    split
    · exact ih _
    · exact ih _
    · exact .ok _
    · exact .err (by decide)
    · rename_i c h; exact .err (binop_errIn' m cmp acc v c h)
    · exact .panic _

theorem foldAdd_errIn (m : Mgr) (acc : V) (vs : List V) : (foldAdd m acc vs).ErrIn calcCodes := by
  induction vs generalizing acc with
  | nil => exact .ok _
  | cons v vs ih =>
    unfold foldAdd
    exact (binop_errIn' m .add acc v).bind fun r => ih r


end Verif
