module verifharness

go 1.21

require (
	github.com/pip-services3-gox/pip-services3-commons-gox v1.0.8
	github.com/pip-services3-gox/pip-services3-expressions-gox v0.0.0
)

replace github.com/pip-services3-gox/pip-services3-expressions-gox => /repo
