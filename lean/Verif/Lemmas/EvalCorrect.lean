/-
Helper lemmas for C01: the RPN stack machine (`run`) on the post-order of a syntax tree computes
the value of the tree (`Expr.evalTree`).

* `Out.bind` algebra, `run` unfolding lemmas;
* `popN` returns the arguments in written order;
* `evalStep` on each token kind the compiler emits;
* `opsOk` (every `bin` node carries a parser-level binary operator), `wl → opsOk`;
* the compiler-correctness theorem in continuation form (`run_postorder_bind`).
-/
import Verif.Spec.ExprGrammar

namespace Verif

variable {κ V : Type}

/-! ### `Out.bind` -/

@[simp] theorem Out.bind_ok {α β : Type} (v : α) (f : α → Out β) : (Out.ok v).bind f = f v := rfl
@[simp] theorem Out.bind_err {α β : Type} (c : String) (f : α → Out β) :
    (Out.err c : Out α).bind f = .err c := rfl
@[simp] theorem Out.bind_panic {α β : Type} (s : String) (f : α → Out β) :
    (Out.panic s : Out α).bind f = .panic s := rfl

theorem Out.bind_assoc {α β γ : Type} (o : Out α) (f : α → Out β) (g : β → Out γ) :
    (o.bind f).bind g = o.bind fun a => (f a).bind g := by
  cases o <;> rfl

/-- `bind` written as the three-way `match` used in the C01 statements -/
theorem Out.bind_eq_match {α β : Type} (o : Out α) (f : α → Out β) :
    o.bind f = match o with
      | .ok v => f v
      | .err c => .err c
      | .panic s => .panic s := by
  cases o <;> rfl

/-! ### `run` -/

@[simp] theorem run_nil_single (env : EvalEnv κ V) (v : V) : run env [] [v] = .ok v := rfl

theorem run_cons (env : EvalEnv κ V) (t : ETok κ) (ts : List (ETok κ)) (st : List V) :
    run env (t :: ts) st = (evalStep env t st).bind fun st' => run env ts st' := rfl

/-! ### `popN` -/

theorem popN_append_acc (ws st acc : List V) :
    popN ws.length (ws ++ st) acc = some (ws.reverse ++ acc, st) := by
  induction ws generalizing acc with
  | nil => rfl
  | cons w ws ih =>
    show popN ws.length (ws ++ st) (w :: acc) = _
    rw [ih]; simp

/-- the stack holds the last argument on top; `popN` hands them back in written order -/
theorem popN_reverse (vs st : List V) :
    popN vs.length (vs.reverse ++ st) [] = some (vs, st) := by
  have h := popN_append_acc vs.reverse st []
  simpa using h

/-! ### `evalStep` on the token kinds the compiler emits -/

theorem evalStep_const (env : EvalEnv κ V) (c : κ) (st : List V) :
    evalStep env ⟨.constant, [], some c, 0⟩ st = .ok (env.ofConst c :: st) := rfl

theorem evalStep_argc (env : EvalEnv κ V) (n : Nat) (st : List V) :
    evalStep env ⟨.constant, [], none, n⟩ st = .ok (env.ofArgc n :: st) := rfl

theorem evalStep_var (env : EvalEnv κ V) (n : List Rune) (st : List V) :
    evalStep env ⟨.variable, n, none, 0⟩ st =
      match env.lookupVar n with
      | some v => .ok (v :: st)
      | none => .err "VAR_NOT_FOUND" := rfl

/-- a Function token on a stack that holds the written arguments (last on top) under the count -/
theorem evalStep_function (env : EvalEnv κ V)
    (hargc : ∀ n, env.asArgc (env.ofArgc n) = some n)
    (name : List Rune) (vs st : List V) :
    evalStep env ⟨.function, name, none, 0⟩ (env.ofArgc vs.length :: (vs.reverse ++ st)) =
      if env.hasFn name then (env.callFn name vs).bind fun r => .ok (r :: st)
      else .err "FUNC_NOT_FOUND" := by
  simp only [evalStep, hargc, popN_reverse]
  cases env.hasFn name <;> simp

theorem evalStep_tk_binary (env : EvalEnv κ V) (op : ET) (h : binaryTypes.contains op = true)
    (w v : V) (st : List V) :
    evalStep env (Expr.tk op) (w :: v :: st) = (env.binop op v w).bind fun r => .ok (r :: st) := by
  cases op <;> first | rfl | (exact absurd h (by decide))

theorem evalStep_tk_unary (env : EvalEnv κ V) (op : ET) (h : unaryTypes.contains op = true)
    (v : V) (st : List V) :
    evalStep env (Expr.tk op) (v :: st) = (env.unop op v).bind fun r => .ok (r :: st) := by
  cases op <;> first | rfl | (exact absurd h (by decide))

/-- a token type that is neither an operand, nor binary, nor unary: the evaluator's INTERNAL -/
theorem evalStep_tk_like (env : EvalEnv κ V) (st : List V) :
    evalStep env (Expr.tk .like) st = .err "INTERNAL" := rfl

theorem evalStep_tk_notLike (env : EvalEnv κ V) (st : List V) :
    evalStep env (Expr.tk .notLike) st = .err "INTERNAL" := rfl

/-- every parser-level binary operator is a binary evaluator operation, except LIKE -/
theorem opLevel_binary_or_like (op : ET) (h : Expr.opLevel op ≠ none) :
    binaryTypes.contains op = true ∨ op = .like := by
  cases op <;> first | (exact absurd rfl h) | (left; decide) | (right; rfl)

/-- on a parser-level binary operator the stack step and the tree node agree -/
theorem evalStep_tk_op (env : EvalEnv κ V) (op : ET) (h : Expr.opLevel op ≠ none)
    (w v : V) (st : List V) :
    evalStep env (Expr.tk op) (w :: v :: st) =
      (if binaryTypes.contains op then env.binop op v w else .err "INTERNAL").bind
        fun r => .ok (r :: st) := by
  rcases opLevel_binary_or_like op h with hb | rfl
  · rw [evalStep_tk_binary env op hb, if_pos hb]
  · rfl

/-! ### `opsOk` -/

namespace Expr

mutual
/-- every `bin` node carries a parser-level binary operator (one of `ops0 … ops5`) -/
def opsOk : Expr κ → Bool
  | .const _ => true
  | .var _ => true
  | .paren e => opsOk e
  | .call _ args => opsOkArgs args
  | .neg e => opsOk e
  | .pos e => opsOk e
  | .index e i => opsOk e && opsOk i
  | .bin op l r => (opLevel op).isSome && opsOk l && opsOk r
  | .notLike l r => opsOk l && opsOk r
  | .notIn l r => opsOk l && opsOk r
  | .not e => opsOk e
  | .isNull e => opsOk e
  | .isNotNull e => opsOk e
def opsOkArgs : Args κ → Bool
  | .nil => true
  | .cons e rest => opsOk e && opsOkArgs rest
end

mutual
theorem wl_opsOk : ∀ (t : Expr κ), wl t = true → opsOk t = true
  | .const _, _ => rfl
  | .var _, _ => rfl
  | .paren e, h => by
    simp only [wl] at h; simp only [opsOk]; exact wl_opsOk e h
  | .call _ args, h => by
    simp only [wl] at h; simp only [opsOk]; exact wlArgs_opsOkArgs args h
  | .neg e, h => by
    simp only [wl, Bool.and_eq_true] at h; simp only [opsOk]; exact wl_opsOk e h.1
  | .pos e, h => by
    simp only [wl, Bool.and_eq_true] at h; simp only [opsOk]; exact wl_opsOk e h.1
  | .index e i, h => by
    simp only [wl, Bool.and_eq_true] at h
    simp only [opsOk, Bool.and_eq_true]
    exact ⟨wl_opsOk e h.1.1, wl_opsOk i h.1.2⟩
  | .bin op l r, h => by
    simp only [wl] at h
    simp only [opsOk, Bool.and_eq_true]
    cases hk : opLevel op with
    | none => rw [hk] at h; exact absurd h Bool.false_ne_true
    | some k =>
      rw [hk] at h
      simp only [Bool.and_eq_true] at h
      exact ⟨⟨rfl, wl_opsOk l h.1.1.1⟩, wl_opsOk r h.1.1.2⟩
  | .notLike l r, h => by
    simp only [wl, Bool.and_eq_true] at h
    simp only [opsOk, Bool.and_eq_true]
    exact ⟨wl_opsOk l h.1.1.1, wl_opsOk r h.1.1.2⟩
  | .notIn l r, h => by
    simp only [wl, Bool.and_eq_true] at h
    simp only [opsOk, Bool.and_eq_true]
    exact ⟨wl_opsOk l h.1.1.1, wl_opsOk r h.1.1.2⟩
  | .not e, h => by
    simp only [wl, Bool.and_eq_true] at h; simp only [opsOk]; exact wl_opsOk e h.1
  | .isNull e, h => by
    simp only [wl, Bool.and_eq_true] at h; simp only [opsOk]; exact wl_opsOk e h.1
  | .isNotNull e, h => by
    simp only [wl, Bool.and_eq_true] at h; simp only [opsOk]; exact wl_opsOk e h.1
theorem wlArgs_opsOkArgs : ∀ (a : Args κ), wlArgs a = true → opsOkArgs a = true
  | .nil, _ => rfl
  | .cons e rest, h => by
    simp only [wlArgs, Bool.and_eq_true] at h
    simp only [opsOkArgs, Bool.and_eq_true]
    exact ⟨wl_opsOk e h.1, wlArgs_opsOkArgs rest h.2⟩
end

/-! ### argument lists -/

theorem evalArgs_length (env : EvalEnv κ V) :
    ∀ (args : Args κ) (vs : List V), evalArgs env args = .ok vs → vs.length = argsLength args
  | .nil, vs, h => by
    simp only [evalArgs, Out.ok.injEq] at h
    subst h; rfl
  | .cons e rest, vs, h => by
    simp only [evalArgs] at h
    cases he : evalTree env e with
    | err c => rw [he, Out.bind_err] at h; cases h
    | panic s => rw [he, Out.bind_panic] at h; cases h
    | ok v =>
      rw [he, Out.bind_ok] at h
      cases hr : evalArgs env rest with
      | err c => rw [hr, Out.bind_err] at h; cases h
      | panic s => rw [hr, Out.bind_panic] at h; cases h
      | ok ws =>
        rw [hr, Out.bind_ok] at h
        simp only [Out.ok.injEq] at h
        subst h
        simp only [argsLength, List.length_cons, evalArgs_length env rest ws hr]

end Expr

/-! ### compiler correctness, continuation form -/

open Expr in
mutual
/-- running the post-order of `t` in front of any continuation `k` pushes the value of `t` -/
theorem run_postorder_bind (env : EvalEnv κ V)
    (hargc : ∀ n, env.asArgc (env.ofArgc n) = some n) :
    ∀ (t : Expr κ), opsOk t = true → ∀ (k : List (ETok κ)) (st : List V),
      run env (t.postorder ++ k) st = (evalTree env t).bind fun v => run env k (v :: st)
  | .const c, _, k, st => by
    simp only [postorder, evalTree, List.cons_append, List.nil_append, run_cons, evalStep_const,
      Out.bind_ok]
  | .var n, _, k, st => by
    simp only [postorder, evalTree, List.cons_append, List.nil_append, run_cons, evalStep_var]
    cases env.lookupVar n <;> rfl
  | .paren e, h, k, st => by
    simp only [opsOk] at h
    simp only [postorder, evalTree]
    exact run_postorder_bind env hargc e h k st
  | .pos e, h, k, st => by
    simp only [opsOk] at h
    simp only [postorder, evalTree]
    exact run_postorder_bind env hargc e h k st
  | .call n args, h, k, st => by
    simp only [opsOk] at h
    simp only [postorder, evalTree, List.append_assoc, List.cons_append, List.nil_append]
    rw [run_postorderArgs_bind env hargc args h]
    cases ha : evalArgs env args with
    | err c => rfl
    | panic s => rfl
    | ok vs =>
      simp only [Out.bind_ok]
      rw [run_cons, evalStep_argc, Out.bind_ok, run_cons, ← evalArgs_length env args vs ha,
        evalStep_function env hargc]
      cases env.hasFn n
      · rfl
      · simp only [if_true, Out.bind_assoc, Out.bind_ok]
  | .neg e, h, k, st => by
    simp only [opsOk] at h
    simp only [postorder, evalTree, List.append_assoc, List.cons_append, List.nil_append]
    rw [run_postorder_bind env hargc e h, Out.bind_assoc]
    congr 1; funext v
    rw [run_cons, evalStep_tk_unary env .unary (by decide), Out.bind_assoc]
    simp only [Out.bind_ok]
  | .not e, h, k, st => by
    simp only [opsOk] at h
    simp only [postorder, evalTree, List.append_assoc, List.cons_append, List.nil_append]
    rw [run_postorder_bind env hargc e h, Out.bind_assoc]
    congr 1; funext v
    rw [run_cons, evalStep_tk_unary env .not (by decide), Out.bind_assoc]
    simp only [Out.bind_ok]
  | .isNull e, h, k, st => by
    simp only [opsOk] at h
    simp only [postorder, evalTree, List.append_assoc, List.cons_append, List.nil_append]
    rw [run_postorder_bind env hargc e h, Out.bind_assoc]
    congr 1; funext v
    rw [run_cons, evalStep_tk_unary env .isNull (by decide), Out.bind_assoc]
    simp only [Out.bind_ok]
  | .isNotNull e, h, k, st => by
    simp only [opsOk] at h
    simp only [postorder, evalTree, List.append_assoc, List.cons_append, List.nil_append]
    rw [run_postorder_bind env hargc e h, Out.bind_assoc]
    congr 1; funext v
    rw [run_cons, evalStep_tk_unary env .isNotNull (by decide), Out.bind_assoc]
    simp only [Out.bind_ok]
  | .index e i, h, k, st => by
    simp only [opsOk, Bool.and_eq_true] at h
    simp only [postorder, evalTree, List.append_assoc, List.cons_append, List.nil_append]
    rw [run_postorder_bind env hargc e h.1, Out.bind_assoc]
    congr 1; funext v
    rw [run_postorder_bind env hargc i h.2, Out.bind_assoc]
    congr 1; funext w
    rw [run_cons, evalStep_tk_binary env .element (by decide), Out.bind_assoc]
    simp only [Out.bind_ok]
  | .notIn l r, h, k, st => by
    simp only [opsOk, Bool.and_eq_true] at h
    simp only [postorder, evalTree, List.append_assoc, List.cons_append, List.nil_append]
    rw [run_postorder_bind env hargc l h.1, Out.bind_assoc]
    congr 1; funext v
    rw [run_postorder_bind env hargc r h.2, Out.bind_assoc]
    congr 1; funext w
    rw [run_cons, evalStep_tk_binary env .notIn (by decide), Out.bind_assoc]
    simp only [Out.bind_ok]
  | .notLike l r, h, k, st => by
    simp only [opsOk, Bool.and_eq_true] at h
    simp only [postorder, evalTree, List.append_assoc, List.cons_append, List.nil_append]
    rw [run_postorder_bind env hargc l h.1, Out.bind_assoc]
    congr 1; funext v
    rw [run_postorder_bind env hargc r h.2, Out.bind_assoc]
    -- `run env (tk .notLike :: k) (w :: v :: st)` is INTERNAL by `evalStep_tk_notLike`
    cases evalTree env r <;> rfl
  | .bin op l r, h, k, st => by
    simp only [opsOk, Bool.and_eq_true, Option.isSome_iff_ne_none] at h
    simp only [postorder, evalTree, List.append_assoc, List.cons_append, List.nil_append]
    rw [run_postorder_bind env hargc l h.1.2, Out.bind_assoc]
    congr 1; funext v
    rw [run_postorder_bind env hargc r h.2, Out.bind_assoc]
    congr 1; funext w
    rw [run_cons, evalStep_tk_op env op h.1.1, Out.bind_assoc]
    simp only [Out.bind_ok]
/-- running the post-order of an argument list pushes the argument values in written order
(the last argument ends on top of the stack) -/
theorem run_postorderArgs_bind (env : EvalEnv κ V)
    (hargc : ∀ n, env.asArgc (env.ofArgc n) = some n) :
    ∀ (a : Args κ), opsOkArgs a = true → ∀ (k : List (ETok κ)) (st : List V),
      run env (postorderArgs a ++ k) st =
        (evalArgs env a).bind fun vs => run env k (vs.reverse ++ st)
  | .nil, _, k, st => by
    simp only [postorderArgs, evalArgs, List.nil_append, Out.bind_ok, List.reverse_nil]
  | .cons e rest, h, k, st => by
    simp only [opsOkArgs, Bool.and_eq_true] at h
    simp only [postorderArgs, evalArgs, List.append_assoc]
    rw [run_postorder_bind env hargc e h.1, Out.bind_assoc]
    congr 1; funext v
    rw [run_postorderArgs_bind env hargc rest h.2, Out.bind_assoc]
    congr 1; funext vs
    simp only [Out.bind_ok, List.reverse_cons, List.append_assoc, List.cons_append,
      List.nil_append]
end

end Verif
