/-
The long-lived objects of the library as state machines: ExpressionParser, ExpressionCalculator,
MustacheParser / MustacheTemplate.  Each carries the fields of the Go struct that processing an input
writes (see `TieA.parserReset_tie`, `tokenizerReset_tie`: the generated field lists), including the
tokenizer object it owns, which keeps ITS per-input state (`TState`) between calls.

`parseString` on an object = `Clear` (assign every per-input field), store the trimmed text, tokenize it ON
THE OWNED TOKENIZER IN WHATEVER STATE IT IS (`tokenizeOn`), then the stateless pipeline on the tokens.
-/
import Verif.Model.Pipeline
import Verif.Model.Instance
import Verif.Model.Mustache

namespace Verif

/-- calculator/parsers/ExpressionParser.go (fields other than the configuration-free `tokenizer` object are
per-input) -/
structure ParserObj where
  tokenizer : TState                 -- the owned ExpressionTokenizer's per-input fields
  expression : List Rune
  originalTokens : List Tok
  initialTokens : List (ETok V)
  currentTokenIndex : Nat
  variableNames : List (List Rune)
  resultTokens : List (ETok V)

def ParserObj.new : ParserObj :=
  ⟨TState.start [], [], [], [], 0, [], []⟩

/-- `Clear()` -/
def ParserObj.clear (p : ParserObj) : ParserObj :=
  { p with expression := [], originalTokens := [], initialTokens := [], resultTokens := [],
           currentTokenIndex := 0, variableNames := [] }

/-- the fields after `performParsing` (the result tokens of a REJECTED input are a partial program in the Go
code; the model leaves them empty and never reads them: the calculator reports the error instead) -/
def ParserObj.finish (p : ParserObj) (t : List Rune) (toks : List Tok) (out : ParseOutcome) : ParserObj :=
  { p with tokenizer := if t.isEmpty then p.tokenizer else TState.setReader p.tokenizer t,
           expression := t, originalTokens := toks,
           initialTokens := (match lexAnalysis toks with | .ok l => l | .error _ => []),
           resultTokens := (match out with | .ok prog _ => prog | _ => []),
           variableNames := (match out with | .ok _ vars => vars | _ => []) }

/-- the tokens the owned tokenizer delivers for `t`, in whatever state it is -/
def ParserObj.tokens (p : ParserObj) (t : List Rune) : List Tok :=
  if t.isEmpty then [] else tokenizeOn expressionCfg exprOpts p.tokenizer t

/-- `ParseString(text)` on an object in any state: the new object state and the outcome -/
def ParserObj.parseString (p : ParserObj) (text : List Rune) : ParserObj × ParseOutcome :=
  (p.clear.finish (trimBlank text) (p.clear.tokens (trimBlank text)) (performParsing (p.clear.tokens (trimBlank text))),
   performParsing (p.clear.tokens (trimBlank text)))

/-- calculator/ExpressionCalculator.go: its own fields are configuration; the per-input state is the parser's.
The evaluation stack is a local of each evaluation (`NewCalculationStack()` per call). -/
structure CalcObj where
  parser : ParserObj
  mgr : Mgr

def CalcObj.setExpression (c : CalcObj) (text : List Rune) : CalcObj × ParseOutcome :=
  ({ c with parser := (c.parser.parseString text).1 }, (c.parser.parseString text).2)

/-- `EvaluateUsingVariables(vars)`: a fresh stack, the parser's current result tokens -/
def CalcObj.evaluate (c : CalcObj) (vars : List (List Rune × V)) : Out V :=
  Verif.evaluate (textEnv c.mgr vars) c.parser.resultTokens

/-- one use of a calculator: SetExpression then (if accepted) EvaluateUsingVariables -/
def CalcObj.run (c : CalcObj) (text : List Rune) (vars : List (List Rune × V)) : CalcObj × Except String (Out V) :=
  ((c.setExpression text).1,
   match (c.setExpression text).2 with
   | .ok _ _ => .ok ((c.setExpression text).1.evaluate vars)
   | .lexErr e => .error e.code
   | .synErr e => .error e.code)

/-- a history of uses; the outcomes in order -/
def CalcObj.runAll (c : CalcObj) : List (List Rune × List (List Rune × V)) → List (Except String (Out V))
  | [] => []
  | (text, vars) :: rest => (c.run text vars).2 :: (c.run text vars).1.runAll rest

/-- mustache/MustacheTemplate.go + MustacheParser.go -/
structure TemplateObj where
  tokenizer : TState
  template : List Rune
  tree : MToks
  variableNames : List (List Rune)

def TemplateObj.new : TemplateObj := ⟨TState.start [], [], .nil, []⟩

/-- the outcome of `SetTemplate` given the tokens -/
def templateOutcome (s : List Rune) (toks : List Tok) : Except MErr Parsed :=
  if s.isEmpty then .ok ⟨.nil, []⟩
  else if toks.isEmpty then .ok ⟨.nil, []⟩
  else match lexical toks with
    | .error e => .error e
    | .ok flat =>
      match flat with
      | [] => .error .unexpectedEnd
      | _ =>
        match parseTop (flat.length + 1) flat with
        | .error e => .error e
        | .ok tree => .ok ⟨tree, lookupVars flat⟩

def TemplateObj.tokens (t : TemplateObj) (s : List Rune) : List Tok :=
  tokenizeOn mustacheCfg mustacheOpts t.tokenizer s

/-- `SetTemplate(src)` on an object in any state -/
def TemplateObj.setTemplate (t : TemplateObj) (src : List Rune) : TemplateObj × Except MErr Parsed :=
  let out := templateOutcome (trimStr src) (t.tokens (trimStr src))
  ({ tokenizer := if (trimStr src).isEmpty then t.tokenizer else TState.setReader t.tokenizer (trimStr src),
     template := trimStr src,
     tree := (match out with | .ok p => p.tree | .error _ => .nil),
     variableNames := (match out with | .ok p => p.vars | .error _ => []) }, out)

/-- SetTemplate + EvaluateWithVariables on an object in any state -/
def TemplateObj.render (t : TemplateObj) (src : List Rune) (vars : List (List Rune × List Rune)) :
    TemplateObj × Except MErr (List Rune) :=
  ((t.setTemplate src).1,
   match (t.setTemplate src).2 with
   | .error e => .error e
   | .ok _ => renderToks vars (t.setTemplate src).1.tree)

end Verif
