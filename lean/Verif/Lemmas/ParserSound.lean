/-
Soundness of the expression parser model w.r.t. the grammar SPEC: every accepted (canonical) token
sequence is the `unparse` of a well-levelled tree, and the output is its post-order.
-/
import Verif.Lemmas.ParserComplete
namespace Verif
open Parser Expr
variable {κ : Type}
namespace Sound
open Complete (addVars_append)

/-- canonical input tokens: what lexical analysis delivers (operators carry no payload, constants
carry a value, variables a name) -/
def Canon (tok : ETok κ) : Prop :=
  (tok.typ = .constant → ∃ v, tok = ⟨.constant, [], some v, 0⟩) ∧
  (tok.typ = .variable → tok = ⟨.variable, tok.name, none, 0⟩) ∧
  (tok.typ ≠ .constant → tok.typ ≠ .variable → tok = tk tok.typ)

def AllCanon (l : List (ETok κ)) : Prop := ∀ tok ∈ l, Canon tok

theorem AllCanon.tail {t : ETok κ} {l : List (ETok κ)} (h : AllCanon (t :: l)) : AllCanon l :=
  fun tok ht => h tok (List.mem_cons_of_mem _ ht)
theorem AllCanon.head {t : ETok κ} {l : List (ETok κ)} (h : AllCanon (t :: l)) : Canon t :=
  h t (List.mem_cons_self ..)
theorem AllCanon.right {a b : List (ETok κ)} (h : AllCanon (a ++ b)) : AllCanon b :=
  fun tok ht => h tok (List.mem_append_right _ ht)

theorem Canon.eq_tk {tok : ETok κ} (h : Canon tok) {ty : ET} (hty : tok.typ = ty)
    (h1 : ty ≠ .constant) (h2 : ty ≠ .variable) : tok = tk ty := by
  subst hty; exact h.2.2 h1 h2

/-- `st'` is `st` after a well-levelled tree of level `≥ k` has been consumed and compiled -/
def Step (k : Nat) (st st' : PState κ) : Prop :=
  ∃ t, wl t = true ∧ k ≤ lvl t ∧ st.rest = unparse t ++ st'.rest ∧
    st'.out = st.out ++ postorder t ∧ st'.vars = addVars st.vars (varOcc t)

def ParserSound (k : Nat) (g : PState κ → PRes κ) : Prop :=
  ∀ st st', AllCanon st.rest → g st = .ok st' → Step k st st'

/-- a loop started after a tree `l` of level `≥ k` extends it to a tree `t` of level `≥ k` -/
def LoopSound (k : Nat) (g : PState κ → PRes κ) : Prop :=
  ∀ (l : Expr κ) (rest out0 : List (ETok κ)) (vars0 : List (List Rune)) (st' : PState κ),
    wl l = true → k ≤ lvl l → AllCanon rest →
    g ⟨rest, out0 ++ postorder l, addVars vars0 (varOcc l)⟩ = .ok st' →
    ∃ t, wl t = true ∧ k ≤ lvl t ∧ unparse l ++ rest = unparse t ++ st'.rest ∧
      st'.out = out0 ++ postorder t ∧ st'.vars = addVars vars0 (varOcc t)

theorem LoopSound.ok (k : Nat) : LoopSound (κ := κ) k (fun st => .ok st) := by
  intro l rest out0 vars0 st' hw hk _ h
  injection h with h; subst h
  exact ⟨l, hw, hk, rfl, rfl, rfl⟩

theorem wl_bin_intro {op : ET} {l r : Expr κ} {k : Nat} (hop : opLevel op = some k)
    (hl : wl l = true) (hr : wl r = true) (h1 : k ≤ lvl l) (h2 : k + 1 ≤ lvl r) :
    wl (.bin op l r) = true := by
  rw [wl, hop]
  simp [hl, hr, h1, h2]

theorem opLevel_not_cv {op : ET} {k : Nat} (h : opLevel op = some k) :
    op ≠ .constant ∧ op ≠ .variable := by
  constructor <;> (intro he; subst he; simp [opLevel, ops0, ops2, ops3, ops4, ops5] at h)

/-- shape shared by p0, p2, p3, p4, p5 -/
theorem sound_level {k : Nat} {pk pn pl : Nat → PState κ → PRes κ} {f : Nat}
    (hs : ∀ st, pk (f+1) st = if st.rest.isEmpty then .error .unexpectedEnd else andThen (pn f st) (pl f))
    (hn : ParserSound (k+1) (pn f)) (hl : LoopSound k (pl f)) : ParserSound k (pk (f+1)) := by
  intro st st' hc h
  rw [hs] at h
  split at h
  · cases h
  · obtain ⟨st1, h1, h2⟩ := andThen_eq_ok h
    obtain ⟨t1, hw1, hk1, hr1, ho1, hv1⟩ := hn _ _ hc h1
    obtain ⟨rest1, out1, vars1⟩ := st1
    simp only at hr1 ho1 hv1
    subst ho1 hv1
    have hc1 : AllCanon rest1 := by rw [hr1] at hc; exact hc.right
    obtain ⟨t, hw, hk, hr, ho, hv⟩ := hl t1 rest1 st.out st.vars st' hw1 (by omega) hc1 h2
    exact ⟨t, hw, hk, by rw [hr1, hr], ho, hv⟩

/-- shape shared by the five loops -/
theorem sound_loop {k : Nat} {ops : List ET} {pn pl : Nat → PState κ → PRes κ} {f : Nat}
    {extra : PState κ → PRes κ}
    (hops : ∀ op, ops.contains op = true → opLevel op = some k)
    (hs : ∀ st, pl (f+1) st = match st.rest with
      | [] => .ok st
      | t :: rest => if ops.contains t.typ then
          andThen (pn f { st with rest := rest }) (fun st1 => pl f (emit st1 t.typ))
        else extra st)
    (hn : ParserSound (k+1) (pn f)) (hl : LoopSound k (pl f)) (he : LoopSound k extra) :
    LoopSound k (pl (f+1)) := by
  intro l rest out0 vars0 st' hwl hkl hc h
  rw [hs] at h
  cases rest with
  | nil =>
    injection h with h; subst h
    exact ⟨l, hwl, hkl, rfl, rfl, rfl⟩
  | cons tok rest' =>
    dsimp only at h
    split at h
    · rename_i hop
      have hlev := hops _ hop
      obtain ⟨st1, h1, h2⟩ := andThen_eq_ok h
      obtain ⟨r, hwr, hkr, hrr, hor, hvr⟩ := hn _ _ hc.tail h1
      obtain ⟨rest1, out1, vars1⟩ := st1
      simp only at hrr hor hvr
      subst hor hvr
      have htok : tok = tk tok.typ :=
        hc.head.eq_tk rfl (opLevel_not_cv hlev).1 (opLevel_not_cv hlev).2
      have hc1 : AllCanon rest1 := by
        have := hc.tail; rw [hrr] at this; exact this.right
      have hB : wl (.bin tok.typ l r) = true := wl_bin_intro hlev hwl hwr hkl hkr
      have hlB : lvl (.bin tok.typ l r) = k := Complete.lvl_bin hlev
      have hst : emit (⟨rest1, out0 ++ postorder l ++ postorder r,
            addVars (addVars vars0 (varOcc l)) (varOcc r)⟩ : PState κ) tok.typ =
          ⟨rest1, out0 ++ postorder (.bin tok.typ l r), addVars vars0 (varOcc (.bin tok.typ l r))⟩ := by
        simp [emit, postorder, varOcc, addVars_append, tk]
      rw [hst] at h2
      obtain ⟨t, hw, hk, hr, ho, hv⟩ := hl _ rest1 out0 vars0 st' hB (by omega) hc1 h2
      refine ⟨t, hw, hk, ?_, ho, hv⟩
      rw [← hr, hrr]
      conv => lhs; rw [htok]
      simp [unparse]
    · exact he l _ out0 vars0 st' hwl hkl hc h

theorem lvl_le (t : Expr κ) : lvl t ≤ 8 := by
  cases t <;> simp only [lvl] <;> try omega
  rename_i op l r
  cases h : opLevel op with
  | none => simp
  | some m =>
    have := Complete.opLevel_loop h
    simp only [Option.getD_some]; omega

theorem map_eq_two {α β : Type} {f : α → β} {l : List α} {x y : β} (h : l.map f = [x, y]) :
    ∃ a b, l = [a, b] ∧ f a = x ∧ f b = y := by
  match l, h with
  | [a, b], h =>
    simp only [List.map_cons, List.map_nil, List.cons.injEq, and_true] at h
    exact ⟨a, b, rfl, h.1, h.2⟩

theorem map_eq_three {α β : Type} {f : α → β} {l : List α} {x y z : β} (h : l.map f = [x, y, z]) :
    ∃ a b c, l = [a, b, c] ∧ f a = x ∧ f b = y ∧ f c = z := by
  match l, h with
  | [a, b, c], h =>
    simp only [List.map_cons, List.map_nil, List.cons.injEq, and_true] at h
    exact ⟨a, b, c, rfl, h.1, h.2.1, h.2.2⟩

/-- the multi-token alternatives of level 3 -/
theorem sound_p3extra {f : Nat} (hn : ParserSound (κ := κ) 4 (p4 f)) (hl : LoopSound (κ := κ) 3 (p3loop f)) :
    LoopSound 3 (p3extra (κ := κ) f) := by
  intro l rest out0 vars0 st' hwl hkl hc h
  unfold p3extra at h
  dsimp only at h
  split at h
  · -- NOT LIKE
    rename_i r0 hm
    obtain ⟨pre, hpre, hty⟩ := (matchTypes_eq_some_iff _ _ _).1 hm
    obtain ⟨st1, h1, h2⟩ := andThen_eq_ok h
    obtain ⟨a, b, rfl, ht⟩ := map_eq_two hty
    · have hca : Canon a := hc a (by rw [hpre]; simp)
      have hcb : Canon b := hc b (by rw [hpre]; simp)
      have ha := hca.eq_tk ht.1 (by decide) (by decide)
      have hb := hcb.eq_tk ht.2 (by decide) (by decide)
      have hc0 : AllCanon r0 := by rw [hpre] at hc; exact hc.right
      obtain ⟨r, hwr, hkr, hrr, hor, hvr⟩ := hn _ _ hc0 h1
      obtain ⟨rest1, out1, vars1⟩ := st1
      simp only at hrr hor hvr
      subst hor hvr
      have hc1 : AllCanon rest1 := by rw [hrr] at hc0; exact hc0.right
      have hB : wl (.notLike l r) = true := by simp [wl, hwl, hwr, hkl, hkr]
      have hst : emit (⟨rest1, out0 ++ postorder l ++ postorder r,
            addVars (addVars vars0 (varOcc l)) (varOcc r)⟩ : PState κ) .notLike =
          ⟨rest1, out0 ++ postorder (.notLike l r), addVars vars0 (varOcc (.notLike l r))⟩ := by
        simp [emit, postorder, varOcc, addVars_append, tk]
      rw [hst] at h2
      obtain ⟨t, hw, hk, hr, ho, hv⟩ := hl _ rest1 out0 vars0 st' hB (by simp [lvl]) hc1 h2
      refine ⟨t, hw, hk, ?_, ho, hv⟩
      rw [← hr, hpre, hrr, ha, hb]
      simp [unparse]
  split at h
  · -- IS NULL
    rename_i r0 hm
    obtain ⟨pre, hpre, hty⟩ := (matchTypes_eq_some_iff _ _ _).1 hm
    obtain ⟨a, b, rfl, ht⟩ := map_eq_two hty
    · have hca : Canon a := hc a (by rw [hpre]; simp)
      have hcb : Canon b := hc b (by rw [hpre]; simp)
      have ha := hca.eq_tk ht.1 (by decide) (by decide)
      have hb := hcb.eq_tk ht.2 (by decide) (by decide)
      have hc0 : AllCanon r0 := by rw [hpre] at hc; exact hc.right
      have hB : wl (.isNull l) = true := by simp [wl, hwl, hkl]
      have hst : emit (⟨r0, out0 ++ postorder l, addVars vars0 (varOcc l)⟩ : PState κ) .isNull =
          ⟨r0, out0 ++ postorder (.isNull l), addVars vars0 (varOcc (.isNull l))⟩ := by
        simp [emit, postorder, varOcc, tk]
      rw [hst] at h
      obtain ⟨t, hw, hk, hr, ho, hv⟩ := hl _ r0 out0 vars0 st' hB (by simp [lvl]) hc0 h
      refine ⟨t, hw, hk, ?_, ho, hv⟩
      rw [← hr, hpre, ha, hb]
      simp [unparse]
  split at h
  · -- IS NOT NULL
    rename_i r0 hm
    obtain ⟨pre, hpre, hty⟩ := (matchTypes_eq_some_iff _ _ _).1 hm
    obtain ⟨a, b, c, rfl, ht⟩ := map_eq_three hty
    · have hca : Canon a := hc a (by rw [hpre]; simp)
      have hcb : Canon b := hc b (by rw [hpre]; simp)
      have hcc : Canon c := hc c (by rw [hpre]; simp)
      have ha := hca.eq_tk ht.1 (by decide) (by decide)
      have hb := hcb.eq_tk ht.2.1 (by decide) (by decide)
      have hc' := hcc.eq_tk ht.2.2 (by decide) (by decide)
      have hc0 : AllCanon r0 := by rw [hpre] at hc; exact hc.right
      have hB : wl (.isNotNull l) = true := by simp [wl, hwl, hkl]
      have hst : emit (⟨r0, out0 ++ postorder l, addVars vars0 (varOcc l)⟩ : PState κ) .isNotNull =
          ⟨r0, out0 ++ postorder (.isNotNull l), addVars vars0 (varOcc (.isNotNull l))⟩ := by
        simp [emit, postorder, varOcc, tk]
      rw [hst] at h
      obtain ⟨t, hw, hk, hr, ho, hv⟩ := hl _ r0 out0 vars0 st' hB (by simp [lvl]) hc0 h
      refine ⟨t, hw, hk, ?_, ho, hv⟩
      rw [← hr, hpre, ha, hb, hc']
      simp [unparse]
  split at h
  · -- NOT IN
    rename_i r0 hm
    obtain ⟨pre, hpre, hty⟩ := (matchTypes_eq_some_iff _ _ _).1 hm
    obtain ⟨st1, h1, h2⟩ := andThen_eq_ok h
    obtain ⟨a, b, rfl, ht⟩ := map_eq_two hty
    · have hca : Canon a := hc a (by rw [hpre]; simp)
      have hcb : Canon b := hc b (by rw [hpre]; simp)
      have ha := hca.eq_tk ht.1 (by decide) (by decide)
      have hb := hcb.eq_tk ht.2 (by decide) (by decide)
      have hc0 : AllCanon r0 := by rw [hpre] at hc; exact hc.right
      obtain ⟨r, hwr, hkr, hrr, hor, hvr⟩ := hn _ _ hc0 h1
      obtain ⟨rest1, out1, vars1⟩ := st1
      simp only at hrr hor hvr
      subst hor hvr
      have hc1 : AllCanon rest1 := by rw [hrr] at hc0; exact hc0.right
      have hB : wl (.notIn l r) = true := by simp [wl, hwl, hwr, hkl, hkr]
      have hst : emit (⟨rest1, out0 ++ postorder l ++ postorder r,
            addVars (addVars vars0 (varOcc l)) (varOcc r)⟩ : PState κ) .notIn =
          ⟨rest1, out0 ++ postorder (.notIn l r), addVars vars0 (varOcc (.notIn l r))⟩ := by
        simp [emit, postorder, varOcc, addVars_append, tk]
      rw [hst] at h2
      obtain ⟨t, hw, hk, hr, ho, hv⟩ := hl _ rest1 out0 vars0 st' hB (by simp [lvl]) hc1 h2
      refine ⟨t, hw, hk, ?_, ho, hv⟩
      rw [← hr, hpre, hrr, ha, hb]
      simp [unparse]
  · injection h with h; subst h
    exact ⟨l, hwl, hkl, rfl, rfl, rfl⟩

/-- what a successful argument loop has consumed (only when a token is left to close the call) -/
def ArgsSound (g : PState κ → Nat → Except PErr (PState κ × Nat)) : Prop :=
  ∀ (st : PState κ) (n : Nat) (st' : PState κ) (n' : Nat), AllCanon st.rest →
    g st n = .ok (st', n') → st'.rest ≠ [] →
    ∃ a, wlArgs a = true ∧ (n ≠ 0 → a ≠ .nil) ∧ st.rest = unparseArgs a ++ st'.rest ∧
      st'.out = st.out ++ postorderArgs a ∧ st'.vars = addVars st.vars (varOccArgs a) ∧
      n' = n + argsLength a

structure SoundAt (κ : Type) (f : Nat) : Prop where
  p0 : ParserSound (κ := κ) 0 (p0 f)
  p0loop : LoopSound (κ := κ) 0 (p0loop f)
  p1 : ParserSound (κ := κ) 1 (p1 f)
  p2 : ParserSound (κ := κ) 2 (p2 f)
  p2loop : LoopSound (κ := κ) 2 (p2loop f)
  p3 : ParserSound (κ := κ) 3 (p3 f)
  p3loop : LoopSound (κ := κ) 3 (p3loop f)
  p4 : ParserSound (κ := κ) 4 (p4 f)
  p4loop : LoopSound (κ := κ) 4 (p4loop f)
  p5 : ParserSound (κ := κ) 5 (p5 f)
  p5loop : LoopSound (κ := κ) 5 (p5loop f)
  p6 : ParserSound (κ := κ) 6 (p6 f)
  p6prim : ParserSound (κ := κ) 8 (p6prim f)
  pArgs : ArgsSound (κ := κ) (pArgs f)

theorem soundAt_zero : SoundAt κ 0 := by
  constructor
  all_goals first
    | (intro st st' _ h; simp [Parser.p0, Parser.p1, Parser.p2, Parser.p3, Parser.p4, Parser.p5,
        Parser.p6, Parser.p6prim] at h; done)
    | (intro l rest out0 vars0 st' _ _ _ h; simp [Parser.p0loop, Parser.p2loop, Parser.p3loop,
        Parser.p4loop, Parser.p5loop] at h; done)
    | (intro st n st' n' _ h; simp [Parser.pArgs] at h)

theorem ops0_level (op : ET) (h : ops0.contains op = true) : opLevel op = some 0 := by
  simp only [opLevel, h, if_true]
theorem ops2_level (op : ET) (h : ops2.contains op = true) : opLevel op = some 2 := by
  cases op <;> simp [ops2] at h <;> simp [opLevel, ops0, ops2]
theorem ops3_level (op : ET) (h : ops3.contains op = true) : opLevel op = some 3 := by
  cases op <;> simp [ops3] at h <;> simp [opLevel, ops0, ops2, ops3]
theorem ops4_level (op : ET) (h : ops4.contains op = true) : opLevel op = some 4 := by
  cases op <;> simp [ops4] at h <;> simp [opLevel, ops0, ops2, ops3, ops4]
theorem ops5_level (op : ET) (h : ops5.contains op = true) : opLevel op = some 5 := by
  cases op <;> simp [ops5] at h <;> simp [opLevel, ops0, ops2, ops3, ops4, ops5]

theorem sound_p1 {f : Nat} (h2 : ParserSound (κ := κ) 2 (p2 f)) : ParserSound (κ := κ) 1 (p1 (f+1)) := by
  intro st st' hc h
  rw [p1_succ] at h
  obtain ⟨rest0, out, vars⟩ := st
  cases rest0 with
  | nil => cases h
  | cons tok rest =>
    dsimp only at h hc
    split at h
    · rename_i hnot
      have hnot : tok.typ = .not := by simpa using hnot
      obtain ⟨st1, h1, h3⟩ := andThen_eq_ok h
      obtain ⟨e, hwe, hke, hre, hoe, hve⟩ := h2 _ _ hc.tail h1
      injection h3 with h3; subst h3
      have htok := hc.head.eq_tk hnot (by decide) (by decide)
      simp only at hre hoe hve
      refine ⟨.not e, by simp [wl, hwe, hke], by simp [lvl], ?_, ?_, ?_⟩
      · simp [unparse, htok, hre]
      · simp [emit, postorder, hoe, tk]
      · simp [emit, varOcc, hve]
    · obtain ⟨t, hw, hk, hr, ho, hv⟩ := h2 _ _ hc h
      exact ⟨t, hw, by omega, hr, ho, hv⟩

theorem Step.lvl8 {st st' : PState κ} (h : Step 8 st st') :
    ∃ t, wl t = true ∧ lvl t = 8 ∧ st.rest = unparse t ++ st'.rest ∧
      st'.out = st.out ++ postorder t ∧ st'.vars = addVars st.vars (varOcc t) := by
  obtain ⟨t, hw, hk, h⟩ := h
  exact ⟨t, hw, by have := lvl_le t; omega, h⟩

/-- sign and primary: a tree of level 7 or 8 -/
theorem sound_p6head {f : Nat} (hp : ParserSound (κ := κ) 8 (p6prim f)) :
    ParserSound (κ := κ) 7 (p6head f) := by
  intro st st' hc h
  unfold p6head at h
  obtain ⟨rest0, out, vars⟩ := st
  cases rest0 with
  | nil => cases h
  | cons tok rest =>
    dsimp only at h hc
    obtain ⟨st2, h1, h2⟩ := andThen_eq_ok h
    injection h2 with h2; subst h2
    by_cases hm : tok.typ = .minus
    · have htok := hc.head.eq_tk hm (by decide) (by decide)
      simp only [hm, beq_self_eq_true, Bool.or_true, if_true] at h1 ⊢
      obtain ⟨e, hwe, hle, hre, hoe, hve⟩ := (hp _ _ hc.tail h1).lvl8
      simp only at hre hoe hve
      refine ⟨.neg e, by simp [wl, hwe, hle], by simp [lvl], ?_, ?_, ?_⟩
      · simp [unparse, htok, hre]
      · simp [emit, postorder, hoe, tk]
      · simp [emit, varOcc, hve]
    · have hm' : (tok.typ == ET.minus) = false := by simpa using hm
      by_cases hpl : tok.typ = .plus
      · have htok := hc.head.eq_tk hpl (by decide) (by decide)
        simp only [hpl, beq_self_eq_true, Bool.true_or, if_true] at h1
        simp only [hm', Bool.false_eq_true, if_false]
        obtain ⟨e, hwe, hle, hre, hoe, hve⟩ := (hp _ _ hc.tail h1).lvl8
        simp only at hre hoe hve
        refine ⟨.pos e, by simp [wl, hwe, hle], by simp [lvl], ?_, ?_, ?_⟩
        · simp [unparse, htok, hre]
        · simp [postorder, hoe]
        · simp [varOcc, hve]
      · have hpl' : (tok.typ == ET.plus) = false := by simpa using hpl
        simp only [hpl', hm', Bool.or_false, Bool.false_eq_true, if_false] at h1 ⊢
        obtain ⟨e, hwe, hle, hre, hoe, hve⟩ := hp _ _ hc h1
        exact ⟨e, hwe, by omega, hre, hoe, hve⟩

theorem sound_p6 {f : Nat} (hp : ParserSound (κ := κ) 8 (p6prim f)) (h0 : ParserSound (κ := κ) 0 (p0 f)) :
    ParserSound (κ := κ) 6 (p6 (f+1)) := by
  intro st st' hc h
  rw [p6_succ] at h
  obtain ⟨st3, h1, h2⟩ := andThen_eq_ok h
  obtain ⟨e, hwe, hke, hre, hoe, hve⟩ := sound_p6head hp _ _ hc h1
  have hc3 : AllCanon st3.rest := by rw [hre] at hc; exact hc.right
  unfold p6tail at h2
  obtain ⟨rest3, out3, vars3⟩ := st3
  simp only at hre hoe hve hc3
  cases rest3 with
  | nil =>
    injection h2 with h2; subst h2
    exact ⟨e, hwe, by omega, hre, hoe, hve⟩
  | cons tok rest =>
    dsimp only at h2
    split at h2
    · rename_i hsq
      have hsq : tok.typ = .leftSquareBrace := by simpa using hsq
      have htok := hc3.head.eq_tk hsq (by decide) (by decide)
      obtain ⟨st4, h3, h4⟩ := andThen_eq_ok h2
      obtain ⟨i, hwi, _, hri, hoi, hvi⟩ := h0 _ _ hc3.tail h3
      have hc4 : AllCanon st4.rest := by
        have := hc3.tail; simp only at hri; rw [hri] at this; exact this.right
      unfold closeSquare at h4
      obtain ⟨rest4, out4, vars4⟩ := st4
      simp only at hri hoi hvi hc4
      cases rest4 with
      | nil => cases h4
      | cons c rest4 =>
        dsimp only at h4
        split at h4
        · rename_i hcl
          have hcl : c.typ = .rightSquareBrace := by simpa using hcl
          have hctok := hc4.head.eq_tk hcl (by decide) (by decide)
          injection h4 with h4; subst h4
          refine ⟨.index e i, by simp [wl, hwe, hwi, hke], by simp [lvl], ?_, ?_, ?_⟩
          · simp [unparse, hre, htok, hri, hctok]
          · simp [emit, postorder, hoi, hoe, tk]
          · simp [emit, varOcc, hvi, hve, addVars_append]
        · cases h4
    · injection h2 with h2; subst h2
      exact ⟨e, hwe, by omega, hre, hoe, hve⟩

theorem sound_p6prim {f : Nat} (hA : ArgsSound (κ := κ) (pArgs f)) (h0 : ParserSound (κ := κ) 0 (p0 f)) :
    ParserSound (κ := κ) 8 (p6prim (f+1)) := by
  intro st st' hc h
  rw [p6prim_succ] at h
  obtain ⟨rest0, out, vars⟩ := st
  cases rest0 with
  | nil => cases h
  | cons p rest =>
    dsimp only at h hc
    split at h
    · -- call
      rename_i hcall
      simp only [Bool.and_eq_true, beq_iff_eq] at hcall
      obtain ⟨hpv, hlb⟩ := hcall
      cases rest with
      | nil => simp at hlb
      | cons lb rest2 =>
        have hlb : lb.typ = .leftBrace := by simpa using hlb
        have hlbtok := hc.tail.head.eq_tk hlb (by decide) (by decide)
        have hptok := hc.head.2.1 hpv
        obtain ⟨r, h1, h2⟩ := andThen_eq_ok h
        obtain ⟨st1, n⟩ := r
        unfold closeCall at h2
        obtain ⟨rest1, out1, vars1⟩ := st1
        cases rest1 with
        | nil => cases h2
        | cons c rest1 =>
          dsimp only at h2
          split at h2
          · rename_i hcl
            have hcl : c.typ = .rightBrace := by simpa using hcl
            obtain ⟨a, hwa, _, hra, hoa, hva, hn⟩ := hA _ _ _ _ hc.tail.tail h1 (by simp)
            simp only [List.drop_succ_cons, List.drop_zero] at hra hoa hva
            have hc1 : AllCanon (c :: rest1) := by
              have := hc.tail.tail; rw [hra] at this; exact this.right
            have hctok := hc1.head.eq_tk hcl (by decide) (by decide)
            injection h2 with h2; subst h2
            refine ⟨.call p.name a, by simp [wl, hwa], by simp [lvl], ?_, ?_, ?_⟩
            · simp only [unparse]
              rw [hra, hctok, hlbtok]
              conv => lhs; rw [hptok]
              simp
            · simp [emitTok, postorder, hoa, hn]
            · simp [emitTok, varOcc, hva]
          · cases h2
    split at h
    · -- constant
      rename_i hcst
      have hcst : p.typ = .constant := by simpa using hcst
      obtain ⟨v, hv⟩ := hc.head.1 hcst
      injection h with h; subst h
      refine ⟨.const v, rfl, by simp [lvl], ?_, ?_, ?_⟩
      · simp [unparse, hv]
      · simp [emitTok, postorder, hv]
      · simp [emitTok, varOcc]
    split at h
    · -- variable
      rename_i hvar
      have hvar : p.typ = .variable := by simpa using hvar
      have hptok := hc.head.2.1 hvar
      injection h with h; subst h
      refine ⟨.var p.name, rfl, by simp [lvl], ?_, ?_, ?_⟩
      · simp only [unparse]
        conv => lhs; rw [hptok]
        simp
      · simp only [emitTok, postorder]
        conv => lhs; rw [hptok]
      · simp [emitTok, varOcc]
    split at h
    · -- parenthesis
      rename_i hlb
      have hlb : p.typ = .leftBrace := by simpa using hlb
      have hptok := hc.head.eq_tk hlb (by decide) (by decide)
      obtain ⟨st1, h1, h2⟩ := andThen_eq_ok h
      obtain ⟨e, hwe, _, hre, hoe, hve⟩ := h0 _ _ hc.tail h1
      unfold closeParen at h2
      obtain ⟨rest1, out1, vars1⟩ := st1
      simp only at hre hoe hve
      cases rest1 with
      | nil => cases h2
      | cons c rest1 =>
        dsimp only at h2
        split at h2
        · rename_i hcl
          have hcl : c.typ = .rightBrace := by simpa using hcl
          have hc1 : AllCanon (c :: rest1) := by
            have := hc.tail; rw [hre] at this; exact this.right
          have hctok := hc1.head.eq_tk hcl (by decide) (by decide)
          injection h2 with h2; subst h2
          refine ⟨.paren e, by simp [wl, hwe], by simp [lvl], ?_, ?_, ?_⟩
          · simp [unparse, hptok, hre, hctok]
          · simp [postorder, hoe]
          · simp [varOcc, hve]
        · cases h2
    · cases h

theorem sound_pArgs {f : Nat} (hA : ArgsSound (κ := κ) (pArgs f)) (h0 : ParserSound (κ := κ) 0 (p0 f)) :
    ArgsSound (κ := κ) (pArgs (f+1)) := by
  intro st n st' n' hc h hne
  rw [pArgs_succ] at h
  obtain ⟨rest0, out, vars⟩ := st
  cases rest0 with
  | nil =>
    injection h with h; injection h with h1 h2; subst h1
    exact absurd rfl hne
  | cons tok rest =>
    dsimp only at h hc
    split at h
    · rename_i hcl
      simp only [Bool.and_eq_true, beq_iff_eq] at hcl
      injection h with h; injection h with h1 h2; subst h1 h2
      exact ⟨.nil, rfl, fun h => absurd hcl.2 h, by simp [unparseArgs], by simp [postorderArgs],
        by simp [varOccArgs], by simp [argsLength]⟩
    · obtain ⟨st1, h1, h2⟩ := andThen_eq_ok h
      obtain ⟨e, hwe, _, hre, hoe, hve⟩ := h0 _ _ hc h1
      unfold argsNext at h2
      obtain ⟨rest1, out1, vars1⟩ := st1
      simp only at hre hoe hve
      have hc1 : AllCanon rest1 := by rw [hre] at hc; exact hc.right
      cases rest1 with
      | nil =>
        injection h2 with h2; injection h2 with h3 h4; subst h3
        exact absurd rfl hne
      | cons c rest2 =>
        dsimp only at h2
        split at h2
        · rename_i hcm
          have hcm : c.typ = .comma := by simpa using hcm
          have hctok := hc1.head.eq_tk hcm (by decide) (by decide)
          obtain ⟨a, hwa, hnn, hra, hoa, hva, hn⟩ := hA _ _ _ _ hc1.tail h2 hne
          simp only at hra hoa hva
          have hane : a ≠ .nil := hnn (by omega)
          cases a with
          | nil => exact absurd rfl hane
          | cons e' a' =>
            refine ⟨.cons e (.cons e' a'), by simpa [wlArgs, hwe] using hwa, (fun _ h => by cases h),
              ?_, ?_, ?_, ?_⟩
            · simp only [unparseArgs]
              rw [hre, hctok, hra]
              simp
            · rw [hoa, hoe]; simp [postorderArgs]
            · rw [hva, hve]; simp [varOccArgs, addVars_append]
            · rw [hn]; simp [argsLength]; omega
        · injection h2 with h2; injection h2 with h3 h4; subst h3 h4
          refine ⟨.cons e .nil, by simp [wlArgs, hwe], (fun _ h => by cases h), ?_, ?_, ?_, ?_⟩
          · simp [unparseArgs, hre]
          · simp [postorderArgs, hoe]
          · simp [varOccArgs, hve]
          · simp [argsLength]

theorem soundAt_succ (f : Nat) (ih : SoundAt κ f) : SoundAt κ (f+1) where
  p0 := sound_level (p0_succ f) ih.p1 ih.p0loop
  p0loop := sound_loop (extra := fun st => .ok st) ops0_level (p0loop_succ f) ih.p1 ih.p0loop
    (LoopSound.ok 0)
  p1 := sound_p1 ih.p2
  p2 := sound_level (p2_succ f) ih.p3 ih.p2loop
  p2loop := sound_loop (extra := fun st => .ok st) ops2_level (p2loop_succ f) ih.p3 ih.p2loop
    (LoopSound.ok 2)
  p3 := sound_level (p3_succ f) ih.p4 ih.p3loop
  p3loop := sound_loop (extra := p3extra f) ops3_level (p3loop_succ f) ih.p4 ih.p3loop
    (sound_p3extra ih.p4 ih.p3loop)
  p4 := sound_level (p4_succ f) ih.p5 ih.p4loop
  p4loop := sound_loop (extra := fun st => .ok st) ops4_level (p4loop_succ f) ih.p5 ih.p4loop
    (LoopSound.ok 4)
  p5 := sound_level (p5_succ f) ih.p6 ih.p5loop
  p5loop := sound_loop (extra := fun st => .ok st) ops5_level (p5loop_succ f) ih.p6 ih.p5loop
    (LoopSound.ok 5)
  p6 := sound_p6 ih.p6prim ih.p0
  p6prim := sound_p6prim ih.pArgs ih.p0
  pArgs := sound_pArgs ih.pArgs ih.p0

theorem soundAt (f : Nat) : SoundAt κ f := by
  induction f with
  | zero => exact soundAt_zero
  | succ f ih => exact soundAt_succ f ih

/-- **Soundness of `p0`**: whatever is accepted is a sentence, compiled to its post-order -/
theorem sound_p0 (f : Nat) (st st' : PState κ) (hc : AllCanon st.rest) (h : p0 f st = .ok st') :
    ∃ t, wl t = true ∧ st.rest = unparse t ++ st'.rest ∧ st'.out = st.out ++ postorder t ∧
      st'.vars = addVars st.vars (varOcc t) := by
  obtain ⟨t, hw, _, hr, ho, hv⟩ := (soundAt f).p0 st st' hc h
  exact ⟨t, hw, hr, ho, hv⟩

/-! ## sentences are canonical -/

theorem Canon.tk {ty : ET} (h1 : ty ≠ .constant) (h2 : ty ≠ .variable) : Canon (tk ty : ETok κ) :=
  ⟨fun h => absurd h h1, fun h => absurd h h2, fun _ _ => rfl⟩

theorem AllCanon.nil : AllCanon ([] : List (ETok κ)) := fun _ h => by cases h

theorem AllCanon.cons {t : ETok κ} {l : List (ETok κ)} (h1 : Canon t) (h2 : AllCanon l) :
    AllCanon (t :: l) := by
  intro tok ht
  rcases List.mem_cons.1 ht with rfl | h
  · exact h1
  · exact h2 tok h

theorem AllCanon.append {a b : List (ETok κ)} (h1 : AllCanon a) (h2 : AllCanon b) :
    AllCanon (a ++ b) := by
  intro tok ht
  rcases List.mem_append.1 ht with h | h
  · exact h1 tok h
  · exact h2 tok h

theorem AllCanon.single {t : ETok κ} (h : Canon t) : AllCanon [t] := AllCanon.cons h AllCanon.nil

theorem canon_const (v : κ) : Canon (⟨.constant, [], some v, 0⟩ : ETok κ) :=
  ⟨fun _ => ⟨v, rfl⟩, (fun h => by cases h), fun h => absurd rfl h⟩
theorem canon_var (n : List Rune) : Canon (⟨.variable, n, none, 0⟩ : ETok κ) :=
  ⟨(fun h => by cases h), fun _ => rfl, fun _ h => absurd rfl h⟩

/-- the token sequence of a well-levelled tree consists of canonical tokens -/
theorem canon_unparse (t : Expr κ) : wl t = true → AllCanon (unparse t) := by
  refine Expr.rec (motive_1 := fun t => wl t = true → AllCanon (unparse t))
    (motive_2 := fun a => wlArgs a = true → AllCanon (unparseArgs a))
    ?_ ?_ ?_ ?_ ?_ ?_ ?_ ?_ ?_ ?_ ?_ ?_ ?_ ?_ ?_ t
  · intro v _; rw [unparse]; exact AllCanon.single (canon_const v)
  · intro n _; rw [unparse]; exact AllCanon.single (canon_var n)
  · intro e ih hw
    have hwe : wl e = true := by simpa [wl] using hw
    rw [unparse]
    exact ((AllCanon.single (Canon.tk (by decide) (by decide))).append (ih hwe)).append
      (AllCanon.single (Canon.tk (by decide) (by decide)))
  · intro n a ih hw
    have hwa : wlArgs a = true := by simpa [wl] using hw
    rw [unparse]
    exact ((AllCanon.cons (canon_var n) (AllCanon.single (Canon.tk (by decide) (by decide)))).append
      (ih hwa)).append (AllCanon.single (Canon.tk (by decide) (by decide)))
  · intro e ih hw
    have hwe : wl e = true := by simp only [wl, Bool.and_eq_true] at hw; exact hw.1
    rw [unparse]
    exact (AllCanon.single (Canon.tk (by decide) (by decide))).append (ih hwe)
  · intro e ih hw
    have hwe : wl e = true := by simp only [wl, Bool.and_eq_true] at hw; exact hw.1
    rw [unparse]
    exact (AllCanon.single (Canon.tk (by decide) (by decide))).append (ih hwe)
  · intro e i ihe ihi hw
    have h : wl e = true ∧ wl i = true := by
      simp only [wl, Bool.and_eq_true] at hw; exact hw.1
    rw [unparse]
    exact (((ihe h.1).append (AllCanon.single (Canon.tk (by decide) (by decide)))).append
      (ihi h.2)).append (AllCanon.single (Canon.tk (by decide) (by decide)))
  · intro op l r ihl ihr hw
    obtain ⟨m, hm, hl, hr, _, _⟩ := Complete.wl_bin hw
    rw [unparse]
    exact ((ihl hl).append (AllCanon.single
      (Canon.tk (opLevel_not_cv hm).1 (opLevel_not_cv hm).2))).append (ihr hr)
  · intro l r ihl ihr hw
    have h : wl l = true ∧ wl r = true := by
      simp only [wl, Bool.and_eq_true] at hw; exact hw.1.1
    rw [unparse]
    exact ((ihl h.1).append (AllCanon.cons (Canon.tk (by decide) (by decide))
      (AllCanon.single (Canon.tk (by decide) (by decide))))).append (ihr h.2)
  · intro l r ihl ihr hw
    have h : wl l = true ∧ wl r = true := by
      simp only [wl, Bool.and_eq_true] at hw; exact hw.1.1
    rw [unparse]
    exact ((ihl h.1).append (AllCanon.cons (Canon.tk (by decide) (by decide))
      (AllCanon.single (Canon.tk (by decide) (by decide))))).append (ihr h.2)
  · intro e ih hw
    have hwe : wl e = true := by simp only [wl, Bool.and_eq_true] at hw; exact hw.1
    rw [unparse]
    exact (AllCanon.single (Canon.tk (by decide) (by decide))).append (ih hwe)
  · intro e ih hw
    have hwe : wl e = true := by simp only [wl, Bool.and_eq_true] at hw; exact hw.1
    rw [unparse]
    exact (ih hwe).append (AllCanon.cons (Canon.tk (by decide) (by decide))
      (AllCanon.single (Canon.tk (by decide) (by decide))))
  · intro e ih hw
    have hwe : wl e = true := by simp only [wl, Bool.and_eq_true] at hw; exact hw.1
    rw [unparse]
    exact (ih hwe).append (AllCanon.cons (Canon.tk (by decide) (by decide))
      (AllCanon.cons (Canon.tk (by decide) (by decide))
      (AllCanon.single (Canon.tk (by decide) (by decide)))))
  · intro _; rw [unparseArgs]; exact AllCanon.nil
  · intro e a ihe iha hw
    have h : wl e = true ∧ wlArgs a = true := by simpa [wlArgs] using hw
    cases a with
    | nil => rw [unparseArgs]; exact ihe h.1
    | cons e' a' =>
      rw [unparseArgs]
      · exact ((ihe h.1).append (AllCanon.single (Canon.tk (by decide) (by decide)))).append (iha h.2)
      · intro h; cases h

end Sound
end Verif
