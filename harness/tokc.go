package main

import (
	"time"
	"fmt"
	"strconv"
	"strings"

	"github.com/pip-services3-gox/pip-services3-expressions-gox/tokenizers"
)

// Tokenizers reconfigured by the user: SetCharacterState / ClearCharacterStates, SetWordChars /
// ClearWordChars, SetWhitespaceChars / ClearWhitespaceChars, SymbolState().Add.
// Line protocol: tokc <g|e> <opts> <op>~<op>... <runes>

type cfgOp struct {
	k      string // D DC W WC B BC Y
	lo, hi int
	x      string // state letter for D, 0/1 for W B
	v      []rune
	typ    int
}

func (o cfgOp) String() string {
	switch o.k {
	case "D", "W", "B":
		return fmt.Sprintf("%s:%d:%d:%s", o.k, o.lo, o.hi, o.x)
	case "Y":
		return fmt.Sprintf("Y:%s:%d", runesStr(o.v), o.typ)
	}
	return o.k
}

func parseCfgOp(s string) (cfgOp, bool) {
	p := strings.Split(s, ":")
	switch {
	case len(p) == 4 && (p[0] == "D" || p[0] == "W" || p[0] == "B"):
		lo, e1 := strconv.Atoi(p[1])
		hi, e2 := strconv.Atoi(p[2])
		return cfgOp{k: p[0], lo: lo, hi: hi, x: p[3]}, e1 == nil && e2 == nil
	case len(p) == 3 && p[0] == "Y":
		t, e := strconv.Atoi(p[2])
		return cfgOp{k: "Y", v: parseRunes(p[1]), typ: t}, e == nil
	case len(p) == 1 && (p[0] == "DC" || p[0] == "WC" || p[0] == "BC"):
		return cfgOp{k: p[0]}, true
	}
	return cfgOp{}, false
}

type cfgTokzr interface {
	tokzr
	SetCharacterState(fromSymbol rune, toSymbol rune, state tokenizers.ITokenizerState)
	ClearCharacterStates()
}

func stateOf(t cfgTokzr, x string) tokenizers.ITokenizerState {
	switch x {
	case "w":
		return t.WordState()
	case "n":
		return t.NumberState()
	case "s":
		return t.SymbolState()
	case "q":
		return t.QuoteState()
	case "c":
		return t.CommentState()
	case "b":
		return t.WhitespaceState()
	}
	return nil
}

func applyCfgOp(t cfgTokzr, o cfgOp) {
	switch o.k {
	case "D":
		if o.x == "0" {
			t.SetCharacterState(rune(o.lo), rune(o.hi), nil)
		} else {
			t.SetCharacterState(rune(o.lo), rune(o.hi), stateOf(t, o.x))
		}
	case "DC":
		t.ClearCharacterStates()
	case "W":
		t.WordState().SetWordChars(rune(o.lo), rune(o.hi), o.x == "1")
	case "WC":
		t.WordState().ClearWordChars()
	case "B":
		t.WhitespaceState().SetWhitespaceChars(rune(o.lo), rune(o.hi), o.x == "1")
	case "BC":
		t.WhitespaceState().ClearWhitespaceChars()
	case "Y":
		t.SymbolState().Add(string(o.v), o.typ)
	}
}

func tokcLine(kind string, opts int, ops []cfgOp, input []rune) string {
	ss := make([]string, len(ops))
	for i, o := range ops {
		ss[i] = o.String()
	}
	return fmt.Sprintf("tokc %s %d %s %s", kind, opts, strings.Join(ss, "~"), runesStr(input))
}

func tokenizeCfg(kind string, opts int, ops []cfgOp, input []rune) ([]tk, string) {
	var t cfgTokzr
	st := safeCall(func() string {
		t = newTokenizer(kind).(cfgTokzr)
		for _, o := range ops {
			applyCfgOp(t, o)
		}
		setOpts(t, opts)
		return ""
	})
	if st != "" {
		return nil, st
	}
	return tokenizeOn(t, string(input))
}

// the state a character is handed to according to the history of D/DC operations applied to the
// built-in dispatch table (latest covering registration; C17's consequence for tokenizers)
func dispatchExpect(kind string, ops []cfgOp, ch rune) string {
	for j := len(ops) - 1; j >= 0; j-- {
		o := ops[j]
		if o.k == "DC" {
			return "0"
		}
		if o.k == "D" {
			hi := o.hi
			if hi >= 0xffff {
				hi = 0xfffe
			}
			if o.lo <= int(ch) && int(ch) <= hi {
				return o.x
			}
		}
	}
	return "builtin"
}

func stateLetter(t cfgTokzr, s tokenizers.ITokenizerState) string {
	if s == nil {
		return "0"
	}
	for _, x := range []string{"w", "n", "s", "q", "c", "b"} {
		if stateOf(t, x) == s {
			return x
		}
	}
	return "other"
}

// runTokCCase: implementation vs model on the token stream, plus direct oracles:
// GetCharacterState after the history answers with the latest covering registration for every probe,
// and (all options off) the tokens concatenate back to the input.
func runTokCCase(c *Ctx, kind string, opts int, ops []cfgOp, input []rune, note string) {
	op := tokcLine(kind, opts, ops, input)
	ts, st := tokenizeCfg(kind, opts, ops, input)
	nontrivial := len(ops) > 0 && len(input) >= 2
	if strings.HasPrefix(st, "panic:") {
		// a panic while tokenizing is C03's matter as well; here it is a correspondence difference
		c.model(op, "panic", "model")
		return
	}
	if st != "" {
		c.fail(Failure{Kind: "oracle", Op: op, Impl: st, Note: "tokenizing with a user configuration must terminate"})
		return
	}
	c.record(op, nontrivial)
	// dispatch oracle
	var orc string
	safeCall(func() string {
		t := newTokenizer(kind).(cfgTokzr)
		base := newTokenizer(kind).(cfgTokzr)
		for _, o := range ops {
			applyCfgOp(t, o)
		}
		probes := append([]rune(nil), input...)
		for _, o := range ops {
			if o.k == "D" {
				probes = append(probes, rune(o.lo), rune(o.hi))
				if o.lo > 0 {
					probes = append(probes, rune(o.lo-1))
				}
				probes = append(probes, rune(o.hi+1))
			}
		}
		for _, ch := range probes {
			if ch < 0 || ch > 0x10ffff {
				continue
			}
			exp := dispatchExpect(kind, ops, ch)
			got := stateLetter(t, t.GetCharacterState(ch))
			if exp == "builtin" {
				exp = stateLetter(base, base.GetCharacterState(ch))
			}
			if got != exp && orc == "" {
				orc = fmt.Sprintf("GetCharacterState(%#x) hands the character to state %q, the latest covering SetCharacterState says %q", ch, got, exp)
			}
		}
		return ""
	})
	if orc != "" {
		c.fail(Failure{Kind: "oracle", Op: op, Impl: implLine(ts, st), Note: orc})
	}
	// configuration after use: the same operations applied in two stages with tokenizing and state queries in
	// between must leave the tokenizer as a fresh one configured in one go
	if len(ops) >= 2 {
		var staged []tk
		st2 := safeCallT(5*time.Second, func() string {
			t := newTokenizer(kind).(cfgTokzr)
			setOpts(t, opts)
			h := len(ops) / 2
			for _, o := range ops[:h] {
				applyCfgOp(t, o)
			}
			t.TokenizeBuffer(string(input))
			for i := len(input) - 1; i >= 0; i-- {
				t.GetCharacterState(input[i])
			}
			for _, o := range ops[h:] {
				applyCfgOp(t, o)
				if len(input) > 0 {
					t.GetCharacterState(input[0])
				}
			}
			staged = conv(t.TokenizeBuffer(string(input)))
			return ""
		})
		if st2 == "" && showTks(staged) != showTks(ts) {
			c.fail(Failure{Kind: "oracle", Op: op, Impl: showTks(staged), Spec: showTks(ts), Note: "a tokenizer configured in two stages (used in between) gives " + showTks(staged) + ", configured in one go " + showTks(ts)})
		}
	}
	if opts&(1|2|4|16|64) == 0 {
		if msg := oracleLossless(input, withEof(ts, opts)); msg != "" {
			c.fail(Failure{Kind: "oracle", Op: op, Impl: implLine(ts, st), Note: "configured tokenizer: " + msg})
		}
	}
	_ = note
	c.model(op, implLine(ts, st), "model")
}

// oracleLossless expects a final Eof token; with skipEof there is none
func withEof(ts []tk, opts int) []tk {
	if opts&8 != 0 {
		return append(append([]tk(nil), ts...), tk{Typ: tokenizers.Eof})
	}
	return ts
}

var cfgRanges = [][2]int{{0x400, 0x4ff}, {0x370, 0x3ff}, {0x2190, 0x21ff}, {0x4e00, 0x9fff}, {0x100, 0x17f}, {0xc0, 0xff}, {0x61, 0x7a},
	{0x30, 0x39}, {0x20, 0x20}, {0x21, 0x2f}, {0xf0, 0x110}, {0x0, 0xffff}, {0x100, 0xffff}, {0x41, 0x5a}, {0x3b1, 0x3b1}, {0xfffe, 0xfffe}, {0x5f, 0x5f}, {0x23, 0x23}}

func randCfgOps(c *Ctx, n int) []cfgOp {
	states := []string{"w", "n", "s", "q", "c", "b", "0"}
	ops := make([]cfgOp, 0, n)
	for i := 0; i < n; i++ {
		r := cfgRanges[c.Rng.Intn(len(cfgRanges))]
		if c.Rng.Intn(5) == 0 {
			lo := c.Rng.Intn(0x3000)
			r = [2]int{lo, lo + c.Rng.Intn(0x200)}
		}
		switch k := c.Rng.Intn(20); {
		case k < 9:
			ops = append(ops, cfgOp{k: "D", lo: r[0], hi: r[1], x: states[c.Rng.Intn(len(states))]})
		case k < 13:
			ops = append(ops, cfgOp{k: "W", lo: r[0], hi: r[1], x: strconv.Itoa(c.Rng.Intn(2))})
		case k < 16:
			ops = append(ops, cfgOp{k: "B", lo: r[0], hi: r[1], x: strconv.Itoa(c.Rng.Intn(2))})
		case k < 18:
			syms := []string{"=>", "->", ":=", "<=>", "≤", "→→", "<>", "**", "!!", "..", "цц", "<<<"}
			ops = append(ops, cfgOp{k: "Y", v: []rune(syms[c.Rng.Intn(len(syms))]), typ: []int{tokenizers.Symbol, tokenizers.Keyword, tokenizers.Special}[c.Rng.Intn(3)]})
		case k == 18:
			ops = append(ops, cfgOp{k: []string{"WC", "BC"}[c.Rng.Intn(2)]})
		default:
			if c.Rng.Intn(4) == 0 {
				ops = append(ops, cfgOp{k: "DC"})
			} else {
				ops = append(ops, cfgOp{k: "D", lo: r[0], hi: r[1], x: "w"})
			}
		}
	}
	return ops
}

// input mixing the configured ranges' characters with the ordinary lexeme soup
func cfgInput(c *Ctx, kind string, ops []cfgOp) []rune {
	var pool []rune
	for _, o := range ops {
		if o.k == "D" || o.k == "W" || o.k == "B" {
			hi := o.hi
			if hi > 0xfffe {
				hi = 0xfffe
			}
			pool = append(pool, rune(o.lo), rune(hi), rune(o.lo+(hi-o.lo)/2))
			if o.lo > 0 {
				pool = append(pool, rune(o.lo-1))
			}
			pool = append(pool, rune(hi+1))
		}
		if o.k == "Y" {
			pool = append(pool, o.v...)
		}
	}
	pool = append(pool, []rune("ab1 .-+<>='\"/*#_ц→λé")...)
	var out []rune
	n := 1 + c.Rng.Intn(12)
	for i := 0; i < n; i++ {
		switch c.Rng.Intn(6) {
		case 0:
			out = append(out, lexSoup(c, kind, 2)...)
		case 1:
			for _, o := range ops {
				if o.k == "Y" && c.Rng.Intn(2) == 0 {
					out = append(out, o.v...)
				}
			}
		default:
			r := pool[c.Rng.Intn(len(pool))]
			if r >= 0xd800 && r <= 0xdfff {
				r = 'x'
			}
			out = append(out, r)
		}
	}
	return out
}

func propTokC(c *Ctx, n int) {
	// the first character of an input is handed to its state like any other: U+FEFF, NUL, U+2028 … configured or not
	for _, k := range []string{"g", "e"} {
		for _, first := range []rune{0xfeff, 0, 0x2028, 0xfffe, 0x200b, 0xa0} {
			for _, x := range []string{"s", "w", "b", "q", "0"} {
				ops := []cfgOp{{k: "D", lo: int(first), hi: int(first), x: x}}
				for _, rest := range []string{"", "a", " a", "a b", string(first) + "a"} {
					runTokCCase(c, k, 0, ops, append([]rune{first}, []rune(rest)...), "first-character")
				}
			}
			runTokCCase(c, k, 0, []cfgOp{{k: "W", lo: int(first), hi: int(first), x: "1"}}, append([]rune{first}, 'a', first, 'b'), "first-character")
		}
	}
	for i := 0; i < n; i++ {
		kind := []string{"g", "e"}[c.Rng.Intn(2)]
		ops := randCfgOps(c, 1+c.Rng.Intn(5))
		opts := 0
		if c.Rng.Intn(3) == 0 {
			opts = c.Rng.Intn(128)
		}
		runTokCCase(c, kind, opts, ops, cfgInput(c, kind, ops), "")
	}
}

// registered symbols of three to five characters whose longer proper prefixes are not symbols: every prefix at the end of the
// input, before a digit, a letter, a blank, itself, and after the complete symbol
func propLongSymbols(c *Ctx) {
	// a character beyond the BMP whose low 16 bits are those of a registered symbol is another character
	for _, kind := range []string{"g", "e"} {
		ops := []cfgOp{{k: "Y", v: []rune("≤"), typ: tokenizers.Symbol}, {k: "Y", v: []rune("≤≥"), typ: tokenizers.Symbol}}
		for _, in := range [][]rune{{0x12264}, {'a', 0x12264, 'b'}, {0x2264, 0x12265}, {0x12264, 0x2265}, {'x', ' ', 0x22264, ' ', 'y'}} {
			runTokCCase(c, kind, 0, ops, in, "astral-look-alike")
		}
	}
	for _, sym := range []string{"<!--", "=:~", "=:=:", "->>>>", "<==>", "世世世"} {
		for _, kind := range []string{"g", "e"} {
			ops := []cfgOp{{k: "Y", v: []rune(sym), typ: tokenizers.Symbol}}
			rs := []rune(sym)
			for l := 1; l <= len(rs); l++ {
				p := string(rs[:l])
				for _, in := range []string{p, "a" + p, p + "5", p + "x", p + " ", "a " + p + p, sym + p, p + sym, "(" + p + ")" + p} {
					runTokCCase(c, kind, 0, ops, []rune(in), "long-symbol")
				}
			}
		}
	}
}

// cfgKind: the tokenizer kind string (see newTokenizer) of a configured tokenizer
func cfgKind(base string, ops []cfgOp) string {
	if len(ops) == 0 {
		return base
	}
	ss := make([]string, len(ops))
	for i, o := range ops {
		ss[i] = o.String()
	}
	return "K" + base + "|" + strings.Join(ss, "~")
}

// configured tokenizers in the streams of C04 / C12 / C15: the property's own runner and oracle on a random user configuration
func propCfgKinds(c *Ctx, n int, run func(kind string, input []rune)) {
	for i := 0; i < n; i++ {
		base := []string{"g", "e"}[c.Rng.Intn(2)]
		var ops []cfgOp
		for _, o := range randCfgOps(c, 1+c.Rng.Intn(4)) {
			// handing the expression tokenizer's C comment state anything but '/' is the one configuration the
			// library rejects by an explicit panic (Cfg.misuse in the model): outside these properties' precondition
			if !(base == "e" && o.k == "D" && o.x == "c") {
				ops = append(ops, o)
			}
		}
		run(cfgKind(base, ops), cfgInput(c, base, ops))
	}
	c.Notes = append(c.Notes, fmt.Sprintf("%d tokenizers re-configured by the user (SetCharacterState / SetWordChars / SetWhitespaceChars / SymbolState.Add histories of 1-4 operations)", n))
}

func replayTokC(c *Ctx, op string) bool {
	f := strings.Fields(op)
	if len(f) != 5 || f[0] != "tokc" {
		return false
	}
	if c.Prop == "C04" || c.Prop == "C12" || c.Prop == "C15" {
		kind := "K" + f[1] + "|"
		if f[3] != "-" {
			kind += f[3]
		}
		o, _ := strconv.Atoi(f[2])
		switch c.Prop {
		case "C04":
			if o == 0 {
				runC04Case(c, kind, parseRunes(f[4]))
				return true
			}
		case "C12":
			runC12Case(c, kind, []int{o}, parseRunes(f[4]))
			return true
		case "C15":
			runC15Case(c, kind, []int{o}, parseRunes(f[4]))
			return true
		}
	}
	opts, _ := strconv.Atoi(f[2])
	var ops []cfgOp
	for _, s := range strings.Split(f[3], "~") {
		o, ok := parseCfgOp(s)
		if !ok {
			return false
		}
		ops = append(ops, o)
	}
	runTokCCase(c, f[1], opts, ops, parseRunes(f[4]), "")
	return true
}
