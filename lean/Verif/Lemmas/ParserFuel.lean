/-
Fuel lemmas for the expression parser model: a result that is not "out of fuel" is stable under
more fuel (all 14 functions, one induction on the fuel).
-/
import Verif.Lemmas.ParserEqns

namespace Verif
variable {κ : Type}

namespace Parser

/-- fuel order on results: `r` is "out of fuel", or it already is the final answer `r'` -/
def FLe {α : Type} (r r' : Except PErr α) : Prop := r = .error .outOfFuel ∨ r = r'

theorem FLe.refl {α : Type} (r : Except PErr α) : FLe r r := Or.inr rfl
theorem FLe.oof {α : Type} (r : Except PErr α) : FLe (.error .outOfFuel) r := Or.inl rfl

theorem FLe.trans {α : Type} {a b c : Except PErr α} (h1 : FLe a b) (h2 : FLe b c) : FLe a c := by
  rcases h1 with h | h
  · exact Or.inl h
  · subst h; exact h2

theorem FLe.andThen {α β : Type} {a a' : Except PErr α} {k k' : α → Except PErr β}
    (h : FLe a a') (hk : ∀ x, FLe (k x) (k' x)) : FLe (andThen a k) (andThen a' k') := by
  rcases h with h | h
  · subst h; exact Or.inl rfl
  · subst h
    cases a with
    | error e => exact Or.inr rfl
    | ok x => exact hk x

theorem FLe.ite {α : Type} {c : Prop} [Decidable c] {a a' b b' : Except PErr α}
    (h1 : FLe a a') (h2 : FLe b b') : FLe (if c then a else b) (if c then a' else b') := by
  split
  · exact h1
  · exact h2

/-- all 14 functions are monotone from fuel `f` to `f+1` -/
structure MonoAt (κ : Type) (f : Nat) : Prop where
  p0 : ∀ st : PState κ, FLe (p0 f st) (p0 (f+1) st)
  p0loop : ∀ st : PState κ, FLe (p0loop f st) (p0loop (f+1) st)
  p1 : ∀ st : PState κ, FLe (p1 f st) (p1 (f+1) st)
  p2 : ∀ st : PState κ, FLe (p2 f st) (p2 (f+1) st)
  p2loop : ∀ st : PState κ, FLe (p2loop f st) (p2loop (f+1) st)
  p3 : ∀ st : PState κ, FLe (p3 f st) (p3 (f+1) st)
  p3loop : ∀ st : PState κ, FLe (p3loop f st) (p3loop (f+1) st)
  p4 : ∀ st : PState κ, FLe (p4 f st) (p4 (f+1) st)
  p4loop : ∀ st : PState κ, FLe (p4loop f st) (p4loop (f+1) st)
  p5 : ∀ st : PState κ, FLe (p5 f st) (p5 (f+1) st)
  p5loop : ∀ st : PState κ, FLe (p5loop f st) (p5loop (f+1) st)
  p6 : ∀ st : PState κ, FLe (p6 f st) (p6 (f+1) st)
  p6prim : ∀ st : PState κ, FLe (p6prim f st) (p6prim (f+1) st)
  pArgs : ∀ (st : PState κ) (n : Nat), FLe (pArgs f st n) (pArgs (f+1) st n)

theorem monoAt_zero : MonoAt κ 0 := by
  constructor <;> intros <;> exact Or.inl (by simp [Parser.p0, Parser.p0loop, Parser.p1, Parser.p2,
    Parser.p2loop, Parser.p3, Parser.p3loop, Parser.p4, Parser.p4loop, Parser.p5, Parser.p5loop,
    Parser.p6, Parser.p6prim, Parser.pArgs])

theorem monoAt_succ (f : Nat) (ih : MonoAt κ f) : MonoAt κ (f+1) := by
  constructor
  · intro st; rw [p0_succ, p0_succ]
    exact FLe.ite (FLe.refl _) (FLe.andThen (ih.p1 _) ih.p0loop)
  · intro st; rw [p0loop_succ, p0loop_succ]
    cases st.rest with
    | nil => exact FLe.refl _
    | cons t rest =>
      exact FLe.ite (FLe.andThen (ih.p1 _) (fun _ => ih.p0loop _)) (FLe.refl _)
  · intro st; rw [p1_succ, p1_succ]
    cases st.rest with
    | nil => exact FLe.refl _
    | cons t rest =>
      exact FLe.ite (FLe.andThen (ih.p2 _) (fun _ => FLe.refl _)) (ih.p2 _)
  · intro st; rw [p2_succ, p2_succ]
    exact FLe.ite (FLe.refl _) (FLe.andThen (ih.p3 _) ih.p2loop)
  · intro st; rw [p2loop_succ, p2loop_succ]
    cases st.rest with
    | nil => exact FLe.refl _
    | cons t rest =>
      exact FLe.ite (FLe.andThen (ih.p3 _) (fun _ => ih.p2loop _)) (FLe.refl _)
  · intro st; rw [p3_succ, p3_succ]
    exact FLe.ite (FLe.refl _) (FLe.andThen (ih.p4 _) ih.p3loop)
  · intro st; rw [p3loop_succ, p3loop_succ]
    cases st.rest with
    | nil => exact FLe.refl _
    | cons t rest =>
      refine FLe.ite (FLe.andThen (ih.p4 _) (fun _ => ih.p3loop _)) ?_
      unfold p3extra
      cases matchTypes [.not, .like] st.rest with
      | some r => exact FLe.andThen (ih.p4 _) (fun _ => ih.p3loop _)
      | none =>
        cases matchTypes [.is, .null] st.rest with
        | some r => exact ih.p3loop _
        | none =>
          cases matchTypes [.is, .not, .null] st.rest with
          | some r => exact ih.p3loop _
          | none =>
            cases matchTypes [.not, .in_] st.rest with
            | some r => exact FLe.andThen (ih.p4 _) (fun _ => ih.p3loop _)
            | none => exact FLe.refl _
  · intro st; rw [p4_succ, p4_succ]
    exact FLe.ite (FLe.refl _) (FLe.andThen (ih.p5 _) ih.p4loop)
  · intro st; rw [p4loop_succ, p4loop_succ]
    cases st.rest with
    | nil => exact FLe.refl _
    | cons t rest =>
      exact FLe.ite (FLe.andThen (ih.p5 _) (fun _ => ih.p4loop _)) (FLe.refl _)
  · intro st; rw [p5_succ, p5_succ]
    exact FLe.ite (FLe.refl _) (FLe.andThen (ih.p6 _) ih.p5loop)
  · intro st; rw [p5loop_succ, p5loop_succ]
    cases st.rest with
    | nil => exact FLe.refl _
    | cons t rest =>
      exact FLe.ite (FLe.andThen (ih.p6 _) (fun _ => ih.p5loop _)) (FLe.refl _)
  · intro st; rw [p6_succ, p6_succ]
    refine FLe.andThen ?_ ?_
    · unfold p6head
      cases st.rest with
      | nil => exact FLe.refl _
      | cons t rest => exact FLe.andThen (ih.p6prim _) (fun _ => FLe.refl _)
    · intro st3
      unfold p6tail
      cases st3.rest with
      | nil => exact FLe.refl _
      | cons t rest => exact FLe.ite (FLe.andThen (ih.p0 _) (fun _ => FLe.refl _)) (FLe.refl _)
  · intro st; rw [p6prim_succ, p6prim_succ]
    cases st.rest with
    | nil => exact FLe.refl _
    | cons p rest =>
      refine FLe.ite (FLe.andThen (ih.pArgs _ _) (fun _ => FLe.refl _)) ?_
      refine FLe.ite (FLe.refl _) (FLe.ite (FLe.refl _) (FLe.ite ?_ (FLe.refl _)))
      exact FLe.andThen (ih.p0 _) (fun _ => FLe.refl _)
  · intro st n; rw [pArgs_succ, pArgs_succ]
    cases st.rest with
    | nil => exact FLe.refl _
    | cons t rest =>
      refine FLe.ite (FLe.refl _) (FLe.andThen (ih.p0 _) ?_)
      intro st1
      unfold argsNext
      cases st1.rest with
      | nil => exact FLe.refl _
      | cons c rest1 => exact FLe.ite (ih.pArgs _ _) (FLe.refl _)

theorem monoAt (f : Nat) : MonoAt κ f := by
  induction f with
  | zero => exact monoAt_zero
  | succ f ih => exact monoAt_succ f ih

/-- a step-monotone family keeps every non-"out of fuel" answer under any larger fuel -/
theorem FLe.stable {α : Type} {g : Nat → Except PErr α} (hg : ∀ f, FLe (g f) (g (f+1)))
    {f f' : Nat} (hle : f ≤ f') (h : g f ≠ .error .outOfFuel) : g f' = g f := by
  induction hle with
  | refl => rfl
  | @step m _ ih =>
    rcases hg m with h' | h'
    · rw [ih] at h'; exact absurd h' h
    · rw [← h', ih]

/-! ### fuel monotonicity, function by function -/

theorem p0_mono {f f' : Nat} {st : PState κ} (hle : f ≤ f') (h : p0 f st ≠ .error .outOfFuel) :
    p0 f' st = p0 f st := FLe.stable (g := fun f => p0 f st) (fun f => (monoAt f).p0 st) hle h
theorem p0loop_mono {f f' : Nat} {st : PState κ} (hle : f ≤ f')
    (h : p0loop f st ≠ .error .outOfFuel) : p0loop f' st = p0loop f st :=
  FLe.stable (g := fun f => p0loop f st) (fun f => (monoAt f).p0loop st) hle h
theorem p1_mono {f f' : Nat} {st : PState κ} (hle : f ≤ f') (h : p1 f st ≠ .error .outOfFuel) :
    p1 f' st = p1 f st := FLe.stable (g := fun f => p1 f st) (fun f => (monoAt f).p1 st) hle h
theorem p2_mono {f f' : Nat} {st : PState κ} (hle : f ≤ f') (h : p2 f st ≠ .error .outOfFuel) :
    p2 f' st = p2 f st := FLe.stable (g := fun f => p2 f st) (fun f => (monoAt f).p2 st) hle h
theorem p2loop_mono {f f' : Nat} {st : PState κ} (hle : f ≤ f')
    (h : p2loop f st ≠ .error .outOfFuel) : p2loop f' st = p2loop f st :=
  FLe.stable (g := fun f => p2loop f st) (fun f => (monoAt f).p2loop st) hle h
theorem p3_mono {f f' : Nat} {st : PState κ} (hle : f ≤ f') (h : p3 f st ≠ .error .outOfFuel) :
    p3 f' st = p3 f st := FLe.stable (g := fun f => p3 f st) (fun f => (monoAt f).p3 st) hle h
theorem p3loop_mono {f f' : Nat} {st : PState κ} (hle : f ≤ f')
    (h : p3loop f st ≠ .error .outOfFuel) : p3loop f' st = p3loop f st :=
  FLe.stable (g := fun f => p3loop f st) (fun f => (monoAt f).p3loop st) hle h
theorem p4_mono {f f' : Nat} {st : PState κ} (hle : f ≤ f') (h : p4 f st ≠ .error .outOfFuel) :
    p4 f' st = p4 f st := FLe.stable (g := fun f => p4 f st) (fun f => (monoAt f).p4 st) hle h
theorem p4loop_mono {f f' : Nat} {st : PState κ} (hle : f ≤ f')
    (h : p4loop f st ≠ .error .outOfFuel) : p4loop f' st = p4loop f st :=
  FLe.stable (g := fun f => p4loop f st) (fun f => (monoAt f).p4loop st) hle h
theorem p5_mono {f f' : Nat} {st : PState κ} (hle : f ≤ f') (h : p5 f st ≠ .error .outOfFuel) :
    p5 f' st = p5 f st := FLe.stable (g := fun f => p5 f st) (fun f => (monoAt f).p5 st) hle h
theorem p5loop_mono {f f' : Nat} {st : PState κ} (hle : f ≤ f')
    (h : p5loop f st ≠ .error .outOfFuel) : p5loop f' st = p5loop f st :=
  FLe.stable (g := fun f => p5loop f st) (fun f => (monoAt f).p5loop st) hle h
theorem p6_mono {f f' : Nat} {st : PState κ} (hle : f ≤ f') (h : p6 f st ≠ .error .outOfFuel) :
    p6 f' st = p6 f st := FLe.stable (g := fun f => p6 f st) (fun f => (monoAt f).p6 st) hle h
theorem p6prim_mono {f f' : Nat} {st : PState κ} (hle : f ≤ f')
    (h : p6prim f st ≠ .error .outOfFuel) : p6prim f' st = p6prim f st :=
  FLe.stable (g := fun f => p6prim f st) (fun f => (monoAt f).p6prim st) hle h
theorem pArgs_mono {f f' : Nat} {st : PState κ} {n : Nat} (hle : f ≤ f')
    (h : pArgs f st n ≠ .error .outOfFuel) : pArgs f' st n = pArgs f st n :=
  FLe.stable (g := fun f => pArgs f st n) (fun f => (monoAt f).pArgs st n) hle h

/-! ## consumption of input -/

theorem andThen_eq_ok {α β : Type} {a : Except PErr α} {k : α → Except PErr β} {y : β}
    (h : andThen a k = .ok y) : ∃ x, a = .ok x ∧ k x = .ok y := by
  cases a with
  | error e => cases h
  | ok x => exact ⟨x, rfl, h⟩

@[simp] theorem emit_rest (st : PState κ) (t : ET) : (emit st t).rest = st.rest := rfl
@[simp] theorem emitTok_rest (st : PState κ) (t : ETok κ) : (emitTok st t).rest = st.rest := rfl

theorem matchTypes_length {tys : List ET} {rest r : List (ETok κ)} (h : matchTypes tys rest = some r) :
    r.length + tys.length = rest.length := by
  obtain ⟨pre, rfl, rfl⟩ := (matchTypes_eq_some_iff _ _ _).1 h
  simp; omega

/-- every successful call consumes input: the parsers at least one token, the loops possibly none -/
structure LenAt (κ : Type) (f : Nat) : Prop where
  p0 : ∀ st st' : PState κ, p0 f st = .ok st' → st'.rest.length < st.rest.length
  p0loop : ∀ st st' : PState κ, p0loop f st = .ok st' → st'.rest.length ≤ st.rest.length
  p1 : ∀ st st' : PState κ, p1 f st = .ok st' → st'.rest.length < st.rest.length
  p2 : ∀ st st' : PState κ, p2 f st = .ok st' → st'.rest.length < st.rest.length
  p2loop : ∀ st st' : PState κ, p2loop f st = .ok st' → st'.rest.length ≤ st.rest.length
  p3 : ∀ st st' : PState κ, p3 f st = .ok st' → st'.rest.length < st.rest.length
  p3loop : ∀ st st' : PState κ, p3loop f st = .ok st' → st'.rest.length ≤ st.rest.length
  p4 : ∀ st st' : PState κ, p4 f st = .ok st' → st'.rest.length < st.rest.length
  p4loop : ∀ st st' : PState κ, p4loop f st = .ok st' → st'.rest.length ≤ st.rest.length
  p5 : ∀ st st' : PState κ, p5 f st = .ok st' → st'.rest.length < st.rest.length
  p5loop : ∀ st st' : PState κ, p5loop f st = .ok st' → st'.rest.length ≤ st.rest.length
  p6 : ∀ st st' : PState κ, p6 f st = .ok st' → st'.rest.length < st.rest.length
  p6prim : ∀ st st' : PState κ, p6prim f st = .ok st' → st'.rest.length < st.rest.length
  pArgs : ∀ (st : PState κ) (n : Nat) (r : PState κ × Nat), pArgs f st n = .ok r →
    r.1.rest.length ≤ st.rest.length

theorem lenAt_zero : LenAt κ 0 := by
  constructor <;> intros <;> rename_i h <;>
    simp [Parser.p0, Parser.p0loop, Parser.p1, Parser.p2,
      Parser.p2loop, Parser.p3, Parser.p3loop, Parser.p4, Parser.p4loop, Parser.p5, Parser.p5loop,
      Parser.p6, Parser.p6prim, Parser.pArgs] at h

/-- shape shared by p0, p2, p3, p4, p5 -/
theorem len_level {pk pn pl : Nat → PState κ → PRes κ} {f : Nat}
    (hs : ∀ st, pk (f+1) st = if st.rest.isEmpty then .error .unexpectedEnd else andThen (pn f st) (pl f))
    (hn : ∀ st st' : PState κ, pn f st = .ok st' → st'.rest.length < st.rest.length)
    (hl : ∀ st st' : PState κ, pl f st = .ok st' → st'.rest.length ≤ st.rest.length)
    (st st' : PState κ) (h : pk (f+1) st = .ok st') : st'.rest.length < st.rest.length := by
  rw [hs] at h
  split at h
  · cases h
  · obtain ⟨st1, h1, h2⟩ := andThen_eq_ok h
    have := hn _ _ h1
    have := hl _ _ h2
    omega

/-- shape shared by p0loop, p2loop, p4loop, p5loop (and the first branch of p3loop) -/
theorem len_loop {ops : List ET} {pn pl : Nat → PState κ → PRes κ} {f : Nat}
    {extra : PState κ → PRes κ}
    (hs : ∀ st, pl (f+1) st = match st.rest with
      | [] => .ok st
      | t :: rest => if ops.contains t.typ then
          andThen (pn f { st with rest := rest }) (fun st1 => pl f (emit st1 t.typ))
        else extra st)
    (hn : ∀ st st' : PState κ, pn f st = .ok st' → st'.rest.length < st.rest.length)
    (hl : ∀ st st' : PState κ, pl f st = .ok st' → st'.rest.length ≤ st.rest.length)
    (he : ∀ st st' : PState κ, extra st = .ok st' → st'.rest.length ≤ st.rest.length)
    (st st' : PState κ) (h : pl (f+1) st = .ok st') : st'.rest.length ≤ st.rest.length := by
  rw [hs] at h
  obtain ⟨rest0, out, vars⟩ := st
  cases rest0 with
  | nil => injection h with h; subst h; exact Nat.le_refl _
  | cons t rest =>
    dsimp only at h
    split at h
    · obtain ⟨st1, h1, h2⟩ := andThen_eq_ok h
      have := hn _ _ h1
      have := hl _ _ h2
      simp only [emit_rest] at this
      simp only [List.length_cons] at *
      omega
    · exact he _ _ h

theorem lenAt_succ (f : Nat) (ih : LenAt κ f) : LenAt κ (f+1) := by
  constructor
  · exact len_level (p0_succ f) ih.p1 ih.p0loop
  · exact len_loop (extra := fun st => .ok st) (p0loop_succ f) ih.p1 ih.p0loop
      (fun st st' h => by injection h with h; subst h; exact Nat.le_refl _)
  · intro st st' h
    rw [p1_succ] at h
    obtain ⟨rest0, out, vars⟩ := st
    cases rest0 with
    | nil => cases h
    | cons t rest =>
      dsimp only at h
      split at h
      · obtain ⟨st1, h1, h2⟩ := andThen_eq_ok h
        have := ih.p2 _ _ h1
        injection h2 with h2; subst h2
        simp only [emit_rest, List.length_cons] at *
        omega
      · exact ih.p2 _ _ h
  · exact len_level (p2_succ f) ih.p3 ih.p2loop
  · exact len_loop (extra := fun st => .ok st) (p2loop_succ f) ih.p3 ih.p2loop
      (fun st st' h => by injection h with h; subst h; exact Nat.le_refl _)
  · exact len_level (p3_succ f) ih.p4 ih.p3loop
  · refine len_loop (extra := p3extra f) (p3loop_succ f) ih.p4 ih.p3loop ?_
    intro st st' h
    unfold p3extra at h
    split at h
    · rename_i r hm
      have := matchTypes_length hm
      obtain ⟨st1, h1, h2⟩ := andThen_eq_ok h
      have := ih.p4 _ _ h1
      have := ih.p3loop _ _ h2
      simp only [emit_rest, List.length_cons, List.length_nil] at *
      omega
    split at h
    · rename_i r hm
      have := matchTypes_length hm
      have := ih.p3loop _ _ h
      simp only [emit_rest, List.length_cons, List.length_nil] at *
      omega
    split at h
    · rename_i r hm
      have := matchTypes_length hm
      have := ih.p3loop _ _ h
      simp only [emit_rest, List.length_cons, List.length_nil] at *
      omega
    split at h
    · rename_i r hm
      have := matchTypes_length hm
      obtain ⟨st1, h1, h2⟩ := andThen_eq_ok h
      have := ih.p4 _ _ h1
      have := ih.p3loop _ _ h2
      simp only [emit_rest, List.length_cons, List.length_nil] at *
      omega
    · injection h with h; subst h; exact Nat.le_refl _
  · exact len_level (p4_succ f) ih.p5 ih.p4loop
  · exact len_loop (extra := fun st => .ok st) (p4loop_succ f) ih.p5 ih.p4loop
      (fun st st' h => by injection h with h; subst h; exact Nat.le_refl _)
  · exact len_level (p5_succ f) ih.p6 ih.p5loop
  · exact len_loop (extra := fun st => .ok st) (p5loop_succ f) ih.p6 ih.p5loop
      (fun st st' h => by injection h with h; subst h; exact Nat.le_refl _)
  · -- p6
    intro st st' h
    rw [p6_succ] at h
    obtain ⟨st3, h1, h2⟩ := andThen_eq_ok h
    have h3 : st3.rest.length < st.rest.length := by
      unfold p6head at h1
      obtain ⟨rest0, out, vars⟩ := st
      cases rest0 with
      | nil => cases h1
      | cons t rest =>
        dsimp only at h1
        obtain ⟨st2, h4, h5⟩ := andThen_eq_ok h1
        have := ih.p6prim _ _ h4
        injection h5 with h5; subst h5
        split at this <;> split <;> simp only [emit_rest, List.length_cons] at * <;> omega
    have h4 : st'.rest.length ≤ st3.rest.length := by
      unfold p6tail at h2
      obtain ⟨rest3, out3, vars3⟩ := st3
      cases rest3 with
      | nil => injection h2 with h2; subst h2; exact Nat.le_refl _
      | cons t rest =>
        dsimp only at h2
        split at h2
        · obtain ⟨st4, h5, h6⟩ := andThen_eq_ok h2
          have := ih.p0 _ _ h5
          unfold closeSquare at h6
          obtain ⟨rest4, out4, vars4⟩ := st4
          cases rest4 with
          | nil => cases h6
          | cons c rest4 =>
            dsimp only at h6
            split at h6
            · injection h6 with h6; subst h6
              simp only [emit_rest, List.length_cons] at *
              omega
            · cases h6
        · injection h2 with h2; subst h2; exact Nat.le_refl _
    omega
  · -- p6prim
    intro st st' h
    rw [p6prim_succ] at h
    obtain ⟨rest0, out, vars⟩ := st
    cases rest0 with
    | nil => cases h
    | cons p rest =>
      dsimp only at h
      split at h
      · obtain ⟨r, h1, h2⟩ := andThen_eq_ok h
        have := ih.pArgs _ _ _ h1
        unfold closeCall at h2
        obtain ⟨⟨rest1, out1, vars1⟩, n⟩ := r
        cases rest1 with
        | nil => cases h2
        | cons c rest1 =>
          dsimp only at h2
          split at h2
          · injection h2 with h2; subst h2
            simp only [emitTok_rest, List.length_cons, List.length_drop] at *
            omega
          · cases h2
      split at h
      · injection h with h; subst h; simp
      split at h
      · injection h with h; subst h; simp
      split at h
      · obtain ⟨st1, h1, h2⟩ := andThen_eq_ok h
        have := ih.p0 _ _ h1
        unfold closeParen at h2
        obtain ⟨rest1, out1, vars1⟩ := st1
        cases rest1 with
        | nil => cases h2
        | cons c rest1 =>
          dsimp only at h2
          split at h2
          · injection h2 with h2; subst h2
            simp only [List.length_cons] at *
            omega
          · cases h2
      · cases h
  · -- pArgs
    intro st n r h
    rw [pArgs_succ] at h
    obtain ⟨rest0, out, vars⟩ := st
    cases rest0 with
    | nil => injection h with h; subst h; exact Nat.le_refl _
    | cons t rest =>
      dsimp only at h
      split at h
      · injection h with h; subst h; exact Nat.le_refl _
      · obtain ⟨st1, h1, h2⟩ := andThen_eq_ok h
        have := ih.p0 _ _ h1
        unfold argsNext at h2
        obtain ⟨rest1, out1, vars1⟩ := st1
        cases rest1 with
        | nil => injection h2 with h2; subst h2; simp
        | cons c rest1 =>
          dsimp only at h2
          split at h2
          · have := ih.pArgs _ _ _ h2
            simp only [List.length_cons] at *
            omega
          · injection h2 with h2; subst h2
            simp only [List.length_cons] at *
            omega

theorem lenAt (f : Nat) : LenAt κ f := by
  induction f with
  | zero => exact lenAt_zero
  | succ f ih => exact lenAt_succ f ih

/-! ## enough fuel -/

theorem andThen_ne_oof {α β : Type} {a : Except PErr α} {k : α → Except PErr β}
    (ha : a ≠ .error .outOfFuel) (hk : ∀ x, a = .ok x → k x ≠ .error .outOfFuel) :
    andThen a k ≠ .error .outOfFuel := by
  cases a with
  | error e => intro h; injection h with h; subst h; exact ha rfl
  | ok x => exact hk x rfl

/-- with fuel `9 * (remaining tokens) + rank` no function runs out of fuel -/
structure FuelAt (κ : Type) (f : Nat) : Prop where
  p0 : ∀ st : PState κ, 9 * st.rest.length + 8 ≤ f → p0 f st ≠ .error .outOfFuel
  p0loop : ∀ st : PState κ, 9 * st.rest.length + 1 ≤ f → p0loop f st ≠ .error .outOfFuel
  p1 : ∀ st : PState κ, 9 * st.rest.length + 7 ≤ f → p1 f st ≠ .error .outOfFuel
  p2 : ∀ st : PState κ, 9 * st.rest.length + 6 ≤ f → p2 f st ≠ .error .outOfFuel
  p2loop : ∀ st : PState κ, 9 * st.rest.length + 1 ≤ f → p2loop f st ≠ .error .outOfFuel
  p3 : ∀ st : PState κ, 9 * st.rest.length + 5 ≤ f → p3 f st ≠ .error .outOfFuel
  p3loop : ∀ st : PState κ, 9 * st.rest.length + 1 ≤ f → p3loop f st ≠ .error .outOfFuel
  p4 : ∀ st : PState κ, 9 * st.rest.length + 4 ≤ f → p4 f st ≠ .error .outOfFuel
  p4loop : ∀ st : PState κ, 9 * st.rest.length + 1 ≤ f → p4loop f st ≠ .error .outOfFuel
  p5 : ∀ st : PState κ, 9 * st.rest.length + 3 ≤ f → p5 f st ≠ .error .outOfFuel
  p5loop : ∀ st : PState κ, 9 * st.rest.length + 1 ≤ f → p5loop f st ≠ .error .outOfFuel
  p6 : ∀ st : PState κ, 9 * st.rest.length + 2 ≤ f → p6 f st ≠ .error .outOfFuel
  p6prim : ∀ st : PState κ, 9 * st.rest.length + 1 ≤ f → p6prim f st ≠ .error .outOfFuel
  pArgs : ∀ (st : PState κ) (n : Nat), 9 * st.rest.length + 9 ≤ f → pArgs f st n ≠ .error .outOfFuel

theorem fuelAt_zero : FuelAt κ 0 := by
  constructor <;> intros <;> omega

theorem ok_ne_oof {α : Type} {x : α} : (.ok x : Except PErr α) ≠ .error .outOfFuel := by
  intro h; cases h

theorem fuel_level {pk pn pl : Nat → PState κ → PRes κ} {f : Nat} {c : Nat}
    (hs : ∀ st, pk (f+1) st = if st.rest.isEmpty then .error .unexpectedEnd else andThen (pn f st) (pl f))
    (hlen : ∀ st st' : PState κ, pn f st = .ok st' → st'.rest.length < st.rest.length)
    (hn : ∀ st : PState κ, 9 * st.rest.length + c ≤ f → pn f st ≠ .error .outOfFuel)
    (hl : ∀ st : PState κ, 9 * st.rest.length + 1 ≤ f → pl f st ≠ .error .outOfFuel)
    (st : PState κ) (h : 9 * st.rest.length + (c + 1) ≤ f + 1) : pk (f+1) st ≠ .error .outOfFuel := by
  rw [hs]
  split
  · intro h; cases h
  · refine andThen_ne_oof (hn st (by omega)) (fun st1 h1 => hl st1 ?_)
    have := hlen _ _ h1
    omega

theorem fuel_loop {ops : List ET} {pn pl : Nat → PState κ → PRes κ} {f : Nat} {c : Nat}
    {extra : PState κ → PRes κ} (hc : c ≤ 8)
    (hs : ∀ st, pl (f+1) st = match st.rest with
      | [] => .ok st
      | t :: rest => if ops.contains t.typ then
          andThen (pn f { st with rest := rest }) (fun st1 => pl f (emit st1 t.typ))
        else extra st)
    (hlen : ∀ st st' : PState κ, pn f st = .ok st' → st'.rest.length < st.rest.length)
    (hn : ∀ st : PState κ, 9 * st.rest.length + c ≤ f → pn f st ≠ .error .outOfFuel)
    (hl : ∀ st : PState κ, 9 * st.rest.length + 1 ≤ f → pl f st ≠ .error .outOfFuel)
    (he : ∀ st : PState κ, 9 * st.rest.length + 1 ≤ f + 1 → extra st ≠ .error .outOfFuel)
    (st : PState κ) (h : 9 * st.rest.length + 1 ≤ f + 1) : pl (f+1) st ≠ .error .outOfFuel := by
  rw [hs]
  obtain ⟨rest0, out, vars⟩ := st
  cases rest0 with
  | nil => exact ok_ne_oof
  | cons t rest =>
    dsimp only
    split
    · simp only [List.length_cons] at h
      refine andThen_ne_oof (hn _ (by simp only; omega)) (fun st1 h1 => hl _ ?_)
      have := hlen _ _ h1
      simp only [emit_rest] at *
      omega
    · exact he _ h

theorem fuelAt_succ (f : Nat) (ih : FuelAt κ f) : FuelAt κ (f+1) := by
  have L := lenAt (κ := κ) f
  constructor
  · exact fuel_level (c := 7) (p0_succ f) L.p1 ih.p1 ih.p0loop
  · exact fuel_loop (c := 7) (extra := fun st => .ok st) (by omega) (p0loop_succ f) L.p1 ih.p1
      ih.p0loop (fun _ _ => ok_ne_oof)
  · intro st h
    rw [p1_succ]
    obtain ⟨rest0, out, vars⟩ := st
    cases rest0 with
    | nil => intro h; cases h
    | cons t rest =>
      dsimp only
      simp only [List.length_cons] at h
      split
      · exact andThen_ne_oof (ih.p2 _ (by simp only; omega)) (fun _ _ => ok_ne_oof)
      · exact ih.p2 _ (by simp only [List.length_cons]; omega)
  · exact fuel_level (c := 5) (p2_succ f) L.p3 ih.p3 ih.p2loop
  · exact fuel_loop (c := 5) (extra := fun st => .ok st) (by omega) (p2loop_succ f) L.p3 ih.p3
      ih.p2loop (fun _ _ => ok_ne_oof)
  · exact fuel_level (c := 4) (p3_succ f) L.p4 ih.p4 ih.p3loop
  · refine fuel_loop (c := 4) (extra := p3extra f) (by omega) (p3loop_succ f) L.p4 ih.p4
      ih.p3loop ?_
    intro st h
    unfold p3extra
    split
    · rename_i r hm
      have := matchTypes_length hm
      simp only [List.length_cons, List.length_nil] at this
      refine andThen_ne_oof (ih.p4 _ (by simp only; omega)) (fun st1 h1 => ih.p3loop _ ?_)
      have := L.p4 _ _ h1
      simp only [emit_rest] at *
      omega
    split
    · rename_i r hm
      have := matchTypes_length hm
      simp only [List.length_cons, List.length_nil] at this
      exact ih.p3loop _ (by simp only [emit_rest]; omega)
    split
    · rename_i r hm
      have := matchTypes_length hm
      simp only [List.length_cons, List.length_nil] at this
      exact ih.p3loop _ (by simp only [emit_rest]; omega)
    split
    · rename_i r hm
      have := matchTypes_length hm
      simp only [List.length_cons, List.length_nil] at this
      refine andThen_ne_oof (ih.p4 _ (by simp only; omega)) (fun st1 h1 => ih.p3loop _ ?_)
      have := L.p4 _ _ h1
      simp only [emit_rest] at *
      omega
    · exact ok_ne_oof
  · exact fuel_level (c := 3) (p4_succ f) L.p5 ih.p5 ih.p4loop
  · exact fuel_loop (c := 3) (extra := fun st => .ok st) (by omega) (p4loop_succ f) L.p5 ih.p5
      ih.p4loop (fun _ _ => ok_ne_oof)
  · exact fuel_level (c := 2) (p5_succ f) L.p6 ih.p6 ih.p5loop
  · exact fuel_loop (c := 2) (extra := fun st => .ok st) (by omega) (p5loop_succ f) L.p6 ih.p6
      ih.p5loop (fun _ _ => ok_ne_oof)
  · -- p6
    intro st h
    rw [p6_succ]
    refine andThen_ne_oof ?_ ?_
    · unfold p6head
      obtain ⟨rest0, out, vars⟩ := st
      cases rest0 with
      | nil => intro h; cases h
      | cons t rest =>
        dsimp only
        simp only [List.length_cons] at h
        refine andThen_ne_oof (ih.p6prim _ ?_) (fun _ _ => ok_ne_oof)
        split <;> simp only [List.length_cons] <;> omega
    · intro st3 h3
      have hlen : st3.rest.length < st.rest.length := by
        unfold p6head at h3
        obtain ⟨rest0, out, vars⟩ := st
        cases rest0 with
        | nil => cases h3
        | cons t rest =>
          dsimp only at h3
          obtain ⟨st2, h4, h5⟩ := andThen_eq_ok h3
          have := L.p6prim _ _ h4
          injection h5 with h5; subst h5
          split at this <;> split <;> simp only [emit_rest, List.length_cons] at * <;> omega
      unfold p6tail
      obtain ⟨rest3, out3, vars3⟩ := st3
      cases rest3 with
      | nil => exact ok_ne_oof
      | cons t rest =>
        dsimp only
        simp only [List.length_cons] at hlen
        split
        · refine andThen_ne_oof (ih.p0 _ (by simp only; omega)) ?_
          intro st4 _
          unfold closeSquare
          split
          · intro h; cases h
          · split
            · exact ok_ne_oof
            · intro h; cases h
        · exact ok_ne_oof
  · -- p6prim
    intro st h
    rw [p6prim_succ]
    obtain ⟨rest0, out, vars⟩ := st
    cases rest0 with
    | nil => intro h; cases h
    | cons p rest =>
      dsimp only
      simp only [List.length_cons] at h
      split
      · refine andThen_ne_oof (ih.pArgs _ _ (by simp only [List.length_drop]; omega)) ?_
        intro r _
        unfold closeCall
        split
        · intro h; cases h
        · split
          · exact ok_ne_oof
          · intro h; cases h
      split
      · exact ok_ne_oof
      split
      · exact ok_ne_oof
      split
      · refine andThen_ne_oof (ih.p0 _ (by simp only; omega)) ?_
        intro st1 _
        unfold closeParen
        split
        · intro h; cases h
        · split
          · exact ok_ne_oof
          · intro h; cases h
      · intro h; cases h
  · -- pArgs
    intro st n h
    rw [pArgs_succ]
    obtain ⟨rest0, out, vars⟩ := st
    cases rest0 with
    | nil => exact ok_ne_oof
    | cons t rest =>
      dsimp only
      split
      · exact ok_ne_oof
      · refine andThen_ne_oof (ih.p0 _ (by simp only at h ⊢; omega)) ?_
        intro st1 h1
        have := L.p0 _ _ h1
        unfold argsNext
        obtain ⟨rest1, out1, vars1⟩ := st1
        cases rest1 with
        | nil => exact ok_ne_oof
        | cons c rest1 =>
          dsimp only
          split
          · refine ih.pArgs _ _ ?_
            simp only [List.length_cons] at *
            omega
          · exact ok_ne_oof

theorem fuelAt (f : Nat) : FuelAt κ f := by
  induction f with
  | zero => exact fuelAt_zero
  | succ f ih => exact fuelAt_succ f ih

/-- the driver's fuel `16 * (number of tokens + 2)` always suffices -/
theorem p0_enough_fuel (st : PState κ) (f : Nat) (h : 16 * (st.rest.length + 2) ≤ f) :
    p0 f st ≠ .error .outOfFuel := (fuelAt f).p0 st (by omega)

end Parser
end Verif
