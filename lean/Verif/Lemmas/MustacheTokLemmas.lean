/-
The mustache tokenizer's token stream is the mode-alternating specification of
Spec/MustacheStream.lean: `tokenize mustacheCfg o c = mStreamSpec o c` for every option setting
and every input (`tokenize_mustache_eq`).  Foundation of C04 / C12 / C15 for the mustache kind.

* §1  `textLen`: the text before the next `{{`;
* §2  the special state reads exactly that text (`specialLoop_text`, `specialState_text`,
      `spStep_text`);
* §3  what the options do to text tokens and to closing symbols (`processSpec_special`,
      `processSpec_close`);
* §4  one call of MustacheTokenizer.ReadNextToken in each of its three situations;
* §5  `drain = post` with the extra `special` flag (`mdrain_eq_post`) and the main theorem;
* §6  the raw list is a partition of the input (`mRawSpec_ok`), fuel independence of the SPEC.
-/
import Verif.Lemmas.MainLoop
import Verif.Props.C05
import Verif.Spec.MustacheStream

namespace Verif
open Scanner

/-! ## §1 the text before the next `{{` -/

theorem textLen_nil : textLen [] = 0 := rfl

theorem textLen_cons (a : Rune) (rest : List Rune) :
    textLen (a :: rest) = if a == 123 && rest.head? == some 123 then 0 else textLen rest + 1 := rfl

theorem textLen_le (l : List Rune) : textLen l ≤ l.length := by
  induction l with
  | nil => exact Nat.le_refl _
  | cons a rest ih =>
    rw [textLen_cons]
    split
    · exact Nat.zero_le _
    · simp only [List.length_cons]; omega

/-- after the text comes `{{` or the end of the input: the next text is empty -/
theorem textLen_drop (l : List Rune) : textLen (l.drop (textLen l)) = 0 := by
  induction l with
  | nil => rfl
  | cons a rest ih =>
    by_cases h : (a == 123 && rest.head? == some 123) = true
    · have e : textLen (a :: rest) = 0 := by rw [textLen_cons, if_pos h]
      rw [e, List.drop_zero, e]
    · have e : textLen (a :: rest) = textLen rest + 1 := by rw [textLen_cons, if_neg h]
      rw [e, List.drop_succ_cons]
      exact ih

theorem textLen_pos_ne_nil {l : List Rune} (h : textLen l ≠ 0) : l ≠ [] := by
  intro e; rw [e] at h; exact h rfl

/-- the text does not contain `{{` … -/
theorem textLen_no_open (l : List Rune) (i : Nat) (hi : i < textLen l) :
    ¬ (l[i]? = some 123 ∧ l[i+1]? = some 123) := by
  induction l generalizing i with
  | nil => exact absurd hi (Nat.not_lt_zero _)
  | cons a rest ih =>
    by_cases h : (a == 123 && rest.head? == some 123) = true
    · rw [textLen_cons, if_pos h] at hi; exact absurd hi (Nat.not_lt_zero _)
    · rw [textLen_cons, if_neg h] at hi
      cases i with
      | zero =>
        intro ⟨h1, h2⟩
        apply h
        simp only [List.getElem?_cons_zero, Option.some.injEq] at h1
        simp only [Nat.zero_add, List.getElem?_cons_succ] at h2
        rw [List.head?_eq_getElem?, h2, h1]
        rfl
      | succ i =>
        simp only [List.getElem?_cons_succ]
        exact ih i (by omega)

/-- … and is followed by `{{` unless it runs to the end of the input -/
theorem textLen_stop (l : List Rune) (h : textLen l < l.length) :
    l[textLen l]? = some 123 ∧ l[textLen l + 1]? = some 123 := by
  induction l with
  | nil => exact absurd h (Nat.not_lt_zero _)
  | cons a rest ih =>
    by_cases hc : (a == 123 && rest.head? == some 123) = true
    · have e : textLen (a :: rest) = 0 := by rw [textLen_cons, if_pos hc]
      rw [e]
      simp only [Bool.and_eq_true, beq_iff_eq] at hc
      simp only [List.getElem?_cons_zero, Nat.zero_add, List.getElem?_cons_succ]
      rw [← List.head?_eq_getElem?]
      exact ⟨by rw [hc.1], hc.2⟩
    · have e : textLen (a :: rest) = textLen rest + 1 := by rw [textLen_cons, if_neg hc]
      rw [e] at h ⊢
      simp only [List.length_cons] at h
      simp only [List.getElem?_cons_succ]
      exact ih (by omega)

/-! ## §2 the special state reads exactly the text -/

theorem drop_pred_cons (c : List Rune) (k : Nat) (ch : Rune) (hk : 0 < k) (h : c[k-1]? = some ch) :
    c.drop (k-1) = ch :: c.drop k := by
  obtain ⟨hlt, hget⟩ := List.getElem?_eq_some_iff.mp h
  rw [List.drop_eq_getElem_cons hlt, hget]
  congr 2
  omega

/-- the loop of MustacheSpecialState: with the look-ahead `nx` = the rune at offset `pos - 1`, the
accumulator grows by exactly the text in front of the next `{{` -/
theorem specialLoop_text (f : Nat) {c : List Rune} {p0 : Nat} (acc : List Rune)
    (nx : Option Rune) (s : Scanner) (h : LoopInv c p0 acc nx s) (hf : c.length + 1 ≤ f + s.pos) :
    (specialLoop f acc nx s).1
      = acc ++ (c.drop (s.pos - 1)).take (textLen (c.drop (s.pos - 1))) := by
  induction f generalizing acc nx s with
  | zero =>
    have : c.drop (s.pos - 1) = [] := List.drop_eq_nil_of_le (by omega)
    rw [this]
    simp only [specialLoop, textLen_nil, List.take_nil, List.append_nil]
  | succ f ih =>
    cases nx with
    | none =>
      have he := h.eof
      have : c.drop (s.pos - 1) = [] := List.drop_eq_nil_of_le (by omega)
      rw [this]
      simp only [specialLoop, textLen_nil, List.take_nil, List.append_nil]
    | some ch =>
      obtain ⟨hle, hget⟩ := h.pos_le
      have hst := h.started
      have hd := drop_pred_cons c s.pos ch (by omega) hget
      have hpk : s.peek = (c.drop s.pos).head? := by
        rw [peek_eq, h.content, List.head?_drop]
      rw [hd, textLen_cons]
      simp only [specialLoop]
      rw [hpk]
      split
      · simp only [List.take_zero, List.append_nil]
      · have hrp := h.read_pos
        have := ih _ _ _ h.step (by rw [hrp]; omega)
        rw [this, hrp]
        simp only [Nat.add_sub_cancel, List.take_succ_cons, List.append_assoc, List.singleton_append]

/-- MustacheSpecialState.NextToken: the value is the text in front of the next `{{` -/
theorem specialState_text (f : Nat) (s : Scanner) (hw : s.WF) (hp : s.pos ≤ s.content.length)
    (hf : s.content.length ≤ f + s.pos) :
    (specialState f s).1.value
      = (s.content.drop s.pos).take (textLen (s.content.drop s.pos)) := by
  have h0 := LoopInv.first s hw hp
  have hpos : (s.read).2.pos = s.pos + 1 := by
    by_cases hlt : s.pos < s.content.length
    · exact (read_pos_lt s hlt).2
    · exact (read_pos_eq s (by omega)).2
  unfold specialState
  have := specialLoop_text f [] _ _ h0 (by rw [hpos]; omega)
  rw [hpos] at this
  simpa only [Nat.add_sub_cancel, List.nil_append] using this

theorem drop_min (c : List Rune) (p : Nat) : c.drop (min p c.length) = c.drop p := by
  by_cases h : p ≤ c.length
  · rw [Nat.min_eq_left h]
  · rw [Nat.min_eq_right (by omega), List.drop_eq_nil_of_le (Nat.le_refl _),
      List.drop_eq_nil_of_le (by omega)]

theorem take_drop_eq_slice (c : List Rune) (p n : Nat) :
    (c.drop p).take n = slice c p (p + n) := by
  unfold slice
  rw [List.drop_take]
  congr 1
  omega

/-- everything about the text step of MustacheTokenizer.ReadNextToken in text mode: the token is
the Special token holding the text, stamped with the position of its first rune; the scanner
stays well-formed on the same content and has moved across exactly that text -/
theorem spStep_text (st : TState) (hw : st.s.WF) (hsp : st.special = true) :
    (spStep st).1.typ = TT.special ∧
    (spStep st).1.value
      = (st.s.content.drop st.s.pos).take (textLen (st.s.content.drop st.s.pos)) ∧
    (spStep st).2.WF ∧ (spStep st).2.content = st.s.content ∧
    st.s.pos ≤ (spStep st).2.pos ∧
    min (spStep st).2.pos st.s.content.length
      = min st.s.pos st.s.content.length + textLen (st.s.content.drop st.s.pos) ∧
    (st.s.pos < st.s.content.length →
      ((spStep st).1.line, (spStep st).1.col) = lcUpTo st.s.content (st.s.pos + 1)) := by
  have hsp' : spStep st = specialState (st.s.content.length + 2) st.s := by
    unfold spStep; rw [hsp]; rfl
  rw [hsp']
  by_cases hp : st.s.pos ≤ st.s.content.length
  · have hseg := specialState_seg_le (st.s.content.length + 2) st.s hw hp (by omega)
    have htxt := specialState_text (st.s.content.length + 2) st.s hw hp (by omega)
    have hlen := congrArg List.length hseg.seg
    rw [slice_length, htxt, List.length_take, List.length_drop] at hlen
    have hle := textLen_le (st.s.content.drop st.s.pos)
    rw [List.length_drop] at hle
    have hmono := hseg.mono
    refine ⟨rfl, htxt, hseg.wf, hseg.content, hmono, by omega, fun hlt => ?_⟩
    exact specialState_pos _ st.s hw hlt
  · have hgt : st.s.pos > st.s.content.length := by omega
    have hrd : st.s.read = (none, st.s) := by
      unfold Scanner.read; rw [if_pos hgt]
    have h2 : (specialState (st.s.content.length + 2) st.s).2 = st.s := by
      unfold specialState
      simp only [hrd, specialLoop]
    have h1 : (specialState (st.s.content.length + 2) st.s).1.value = [] := by
      unfold specialState
      simp only [hrd, specialLoop]
    have hd : st.s.content.drop st.s.pos = [] := List.drop_eq_nil_of_le (by omega)
    rw [h2, h1, hd]
    refine ⟨rfl, rfl, hw, rfl, Nat.le_refl _, rfl, fun hlt => by omega⟩

/-! ## §3 what the options do to text tokens and to closing symbols -/

/-- the options leave a text token alone (whatever `last` is): it is only stamped with the
position of its first rune -/
theorem processSpec_special (cfg : Cfg) (o : Opts) (c : List Rune) (last : Nat) (v : List Rune)
    (p : Nat) :
    processSpec cfg o c last ⟨TT.special, v, p, none⟩
      = some ⟨TT.special, v, (posOf c p).1, (posOf c p).2⟩ := by
  have h1 : (TT.special == TT.unknown) = false := by decide
  have h2 : (TT.special == TT.comment) = false := by decide
  have h3 : (TT.special == TT.whitespace) = false := by decide
  have h4 : isNumTyp TT.special = false := by decide
  unfold processSpec
  simp only [h1, h2, h3, h4, Bool.false_and, Bool.and_false, Bool.false_eq_true, if_false]

/-- `processSpec` reads `last` only through the test "the previous token was Whitespace" -/
theorem processSpec_congr_last (cfg : Cfg) (o : Opts) (c : List Rune) (l1 l2 : Nat) (r : RawTok)
    (h : (l1 == TT.whitespace) = (l2 == TT.whitespace)) :
    processSpec cfg o c l1 r = processSpec cfg o c l2 r := by
  unfold processSpec
  rw [h]

/-- a Symbol token is never dropped … -/
theorem processSpec_symbol_isSome (cfg : Cfg) (o : Opts) (c : List Rune) (last : Nat) (r : RawTok)
    (h : r.typ = TT.symbol) : processSpec cfg o c last r ≠ none := by
  have h1 : (TT.symbol == TT.unknown) = false := by decide
  have h2 : (TT.symbol == TT.comment) = false := by decide
  have h3 : (TT.symbol == TT.whitespace) = false := by decide
  unfold processSpec
  simp only [h, h1, h2, h3, Bool.false_and, Bool.false_eq_true, if_false]
  exact Option.some_ne_none _

/-- … and "the emitted token is a closing Symbol" can be read off the raw token: the options
neither drop nor rewrite `}}` / `}}}`, and make no other token look like one.  (`hq`: a Symbol
token was not read by the quote state — `rawNext_mustache_symbol_quote`.) -/
theorem processSpec_close (cfg : Cfg) (o : Opts) (c : List Rune) (last : Nat) (r : RawTok) (t : Tok)
    (hq : r.typ = TT.symbol → r.quote = none) (h : processSpec cfg o c last r = some t) :
    (t.typ == TT.symbol && isClose t.value) = r.isCloser := by
  obtain ⟨_, _, _, h4, h5, _⟩ := processSpec_some cfg o c last r t h
  unfold RawTok.isCloser
  by_cases hs : r.typ = TT.symbol
  · have hn : isNumTyp TT.symbol = false := by decide
    have hw : (TT.symbol == TT.whitespace) = false := by decide
    rw [h4, h5, hq hs, hs, hn, hw]
    simp only [Bool.and_false, Bool.false_and, Bool.false_eq_true, if_false, specV1]
  · have hb : (r.typ == TT.symbol) = false := beq_false_of_ne hs
    have ht : (t.typ == TT.symbol) = false := by
      rw [h4]
      split
      · decide
      · exact hb
    rw [hb, ht]
    rfl

/-- the emitted closing Symbol is the raw one, stamped with the position of its first rune -/
theorem processSpec_closer_eq (cfg : Cfg) (o : Opts) (c : List Rune) (last : Nat) (r : RawTok)
    (t : Tok) (hq : r.typ = TT.symbol → r.quote = none) (hc : r.isCloser = true)
    (h : processSpec cfg o c last r = some t) :
    t = ⟨TT.symbol, r.value, (posOf c r.start).1, (posOf c r.start).2⟩ := by
  obtain ⟨_, _, _, h4, h5, h6⟩ := processSpec_some cfg o c last r t h
  unfold RawTok.isCloser at hc
  simp only [Bool.and_eq_true, beq_iff_eq] at hc
  have hs := hc.1
  have hn : isNumTyp TT.symbol = false := by decide
  have hw : (TT.symbol == TT.whitespace) = false := by decide
  have e4 : t.typ = TT.symbol := by
    rw [h4, hs, hn]
    simp only [Bool.and_false, Bool.false_eq_true, if_false]
  have e5 : t.value = r.value := by
    rw [h5, hs, hq hs, hw]
    simp only [Bool.false_and, Bool.false_eq_true, if_false, specV1]
  obtain ⟨ty, v, l, cl⟩ := t
  have e6 : l = (posOf c r.start).1 := congrArg Prod.fst h6
  have e7 : cl = (posOf c r.start).2 := congrArg Prod.snd h6
  simp only at e4 e5
  rw [e4, e5, e6, e7]

/-! ### the quote state of the mustache configuration never produces a Symbol -/

theorem rawNext_quote (cfg : Cfg) (ch : Rune) (s : Scanner) :
    (rawNext cfg ch s).1.quote
      = if cfg.dispatch.lookup ch == some StateId.quote then some ch else none := by
  unfold rawNext
  simp only
  split <;> split <;> rfl

theorem runState_mustache_quote (f : Nat) (s : Scanner) :
    runState mustacheCfg .quote f s = genericQuoteState f s := rfl

theorem rawNext_mustache_symbol_quote (ch : Rune) (s : Scanner)
    (h : (rawNext mustacheCfg ch s).1.tok.typ = TT.symbol) :
    (rawNext mustacheCfg ch s).1.quote = none := by
  rw [rawNext_quote]
  split
  · rename_i hq
    exfalso
    have hd : mustacheCfg.dispatch.lookup ch = some StateId.quote := eq_of_beq hq
    unfold rawNext at h
    simp only [hd, runState_mustache_quote] at h
    split at h
    · exact absurd (show TT.unknown = TT.symbol from h) (by decide)
    · exact absurd (show TT.quoted = TT.symbol from h) (by decide)
  · rfl

/-! ### tag mode never produces a token of type Special -/

/-- no node of the symbol table carries the token type `x` -/
def SymTab.TypesNe (x : Nat) (t : SymTab) : Prop := ∀ e ∈ t.nodes, e.2.2 ≠ x

theorem SymTab.empty_typesNe (x : Nat) : SymTab.empty.TypesNe x := by
  intro e he; exact absurd he List.not_mem_nil

theorem SymTab.set_typesNe {x : Nat} (t : SymTab) (p : List Rune) (v : Bool × Nat)
    (h : t.TypesNe x) (hv : v.2 ≠ x) : (t.set p v).TypesNe x := by
  intro e he
  rcases SymTab.setL_mem p v t.nodes e he with h' | h'
  · rw [h']; exact hv
  · exact h e h'

theorem SymTab.ensure_typesNe {x : Nat} (t : SymTab) (p : List Rune) (h : t.TypesNe x)
    (hu : TT.unknown ≠ x) : (t.ensure p).TypesNe x := by
  unfold SymTab.ensure
  split
  · exact h
  · exact SymTab.set_typesNe t p _ h hu

theorem SymTab.ensureLine_typesNe {x : Nat} (t : SymTab) (pre rest : List Rune) (h : t.TypesNe x)
    (hu : TT.unknown ≠ x) : (t.ensureLine pre rest).TypesNe x := by
  induction rest generalizing t pre with
  | nil => exact h
  | cons c rest ih => exact ih _ _ (SymTab.ensure_typesNe t _ h hu)

theorem SymTab.add_typesNe {x : Nat} (t : SymTab) (sym : List Rune) (typ : Nat) (h : t.TypesNe x)
    (hu : TT.unknown ≠ x) (hs : TT.symbol ≠ x) (ht : typ ≠ x) : (t.add sym typ).TypesNe x := by
  cases sym with
  | nil => exact h
  | cons c0 rest =>
    simp only [SymTab.add]
    apply SymTab.set_typesNe _ _ _ _ ht
    apply SymTab.ensureLine_typesNe _ _ _ _ hu
    split
    · exact SymTab.set_typesNe _ _ _ (SymTab.ensure_typesNe t _ h hu) hs
    · exact SymTab.ensure_typesNe t _ h hu

theorem addSyms_typesNe {x : Nat} (l : List (String × Nat)) (t : SymTab) (h : t.TypesNe x)
    (hu : TT.unknown ≠ x) (hs : TT.symbol ≠ x) (hl : ∀ e ∈ l, e.2 ≠ x) :
    (addSyms t l).TypesNe x := by
  induction l generalizing t with
  | nil => exact h
  | cons e es ih =>
    show (addSyms (t.add (strOf e.1) e.2) es).TypesNe x
    exact ih _ (SymTab.add_typesNe t _ _ h hu hs (hl e List.mem_cons_self))
      (fun e' he' => hl e' (List.mem_cons_of_mem _ he'))

theorem SymTab.typeOf_ne {x : Nat} (t : SymTab) (h : t.TypesNe x) (hu : TT.unknown ≠ x)
    (p : List Rune) : t.typeOf p ≠ x := by
  unfold SymTab.typeOf SymTab.get
  cases hf : t.nodes.find? (fun e => e.1 == p) with
  | none => simp only [Option.map_none, Option.getD_none]; exact hu
  | some e =>
    simp only [Option.map_some, Option.getD_some]
    exact h e (List.mem_of_find?_eq_some hf)

theorem symNextToken_typ_ne {x : Nat} (t : SymTab) (h : t.TypesNe x) (hu : TT.unknown ≠ x)
    (hs : TT.symbol ≠ x) (f : Nat) (s : Scanner) : (t.nextToken f s).1.typ ≠ x := by
  simp only [SymTab.nextToken]
  split
  · exact hs
  · split
    · exact SymTab.typeOf_ne t h hu _
    · exact hs

theorem mustacheSyms_ne_special : mustacheCfg.symbols.TypesNe TT.special :=
  addSyms_typesNe _ _ (SymTab.empty_typesNe _) (by decide) (by decide) (by decide)

theorem symState_mustache (f : Nat) (s : Scanner) :
    symState mustacheCfg f s = mustacheCfg.symbols.nextToken f s := rfl

theorem runState_mustache_ne_special (sid : StateId) (f : Nat) (s : Scanner) :
    (runState mustacheCfg sid f s).1.typ ≠ TT.special := by
  have hsym : ∀ s', (symState mustacheCfg f s').1.typ ≠ TT.special := fun s' => by
    rw [symState_mustache]
    exact symNextToken_typ_ne _ mustacheSyms_ne_special (by decide) (by decide) f s'
  cases sid with
  | symbol => exact hsym s
  | whitespace => exact (by decide : TT.whitespace ≠ TT.special)
  | word => exact (by decide : TT.word ≠ TT.special)
  | number =>
    show (numberState (symState mustacheCfg f) f s).1.typ ≠ TT.special
    rw [numberState_eq]
    split
    · exact hsym _
    · simp only
      split <;> decide
  | quote => exact (by decide : TT.quoted ≠ TT.special)
  | comment => exact (by decide : TT.comment ≠ TT.special)

/-- the ordinary states of the mustache configuration never produce a Special token: in the raw
list of a template the Special tokens are exactly the text tokens -/
theorem rawNext_mustache_ne_special (ch : Rune) (s : Scanner) :
    (rawNext mustacheCfg ch s).1.tok.typ ≠ TT.special := by
  unfold rawNext
  simp only
  split
  · split
    · exact (by decide : TT.unknown ≠ TT.special)
    · exact runState_mustache_ne_special _ _ s
  · split
    · exact (by decide : TT.unknown ≠ TT.special)
    · exact (by decide : TT.unknown ≠ TT.special)

/-! ## §4 one call of MustacheTokenizer.ReadNextToken -/

theorem mustacheTail_none (r : Option Tok × TState) (h : r.1 = none) : mustacheTail r = r := by
  unfold mustacheTail; rw [h]

theorem mustacheTail_not_close (r : Option Tok × TState) (t : Tok) (h : r.1 = some t)
    (hc : (t.typ == TT.symbol && isClose t.value) = false) : mustacheTail r = r := by
  unfold mustacheTail; rw [h]; simp only [hc, Bool.false_eq_true, if_false]

theorem mustacheTail_close (r : Option Tok × TState) (t : Tok) (h : r.1 = some t)
    (hc : (t.typ == TT.symbol && isClose t.value) = true) :
    mustacheTail r = (some t, { r.2 with special := true }) := by
  unfold mustacheTail; rw [h]; simp only [hc, if_true]

theorem nextTok_empty_cache (cfg : Cfg) (o : Opts) (st : TState) (h : st.cached = none) :
    nextTok cfg o st = readNext cfg o st := by
  unfold nextTok; rw [h]

/-- two states on which ReadNextToken agrees deliver the same stream -/
theorem drain_congr (cfg : Cfg) (o : Opts) (fd : Nat) (st st' : TState) (h1 : st.cached = none)
    (h2 : st'.cached = none) (h : readNext cfg o st = readNext cfg o st') :
    drain cfg o fd st = drain cfg o fd st' := by
  cases fd with
  | zero => rfl
  | succ fd =>
    rw [drain_succ, drain_succ, nextTok_empty_cache cfg o st h1, nextTok_empty_cache cfg o st' h2, h]

/-- text mode, non-empty text: the text token is returned as it is; neither the options nor
LastTokenType nor the mode flag are touched -/
theorem readNext_m_text (o : Opts) (st : TState) (hsp : st.special = true)
    (hne : (spStep st).1.value ≠ []) :
    readNext mustacheCfg o st = (some (spStep st).1, { st with s := (spStep st).2 }) := by
  have hb : (spStep st).1.value.isEmpty = false := by
    cases hv : (spStep st).1.value with
    | nil => exact absurd hv hne
    | cons a l => rfl
  rw [readNext_mustache mustacheCfg rfl o st, hsp, hb]
  rfl

/-- tag mode: the main loop, then the mode switch -/
theorem readNext_m_tag (o : Opts) (st : TState) (hsp : st.special = false) :
    readNext mustacheCfg o st
      = mustacheTail (readNextA mustacheCfg o (st.s.content.length + 3) st) := by
  have hs : spStep st = ({ typ := TT.special, value := [], line := 0, col := 0 }, st.s) := by
    unfold spStep; rw [hsp]; rfl
  rw [readNext_mustache mustacheCfg rfl o st, hs, hsp]
  simp only [Bool.false_and, Bool.false_eq_true, if_false]
  rw [TState.eta_s_special st hsp]

/-- text mode, empty text: the call continues as a tag-mode call from where the text step left
the scanner -/
theorem readNext_m_text_empty (o : Opts) (st : TState) (hw : st.s.WF) (hsp : st.special = true)
    (he : (spStep st).1.value = []) :
    readNext mustacheCfg o st
      = readNext mustacheCfg o { st with s := (spStep st).2, special := false } := by
  have hc := (specialStep_wf st hw).2
  rw [readNext_m_tag o { st with s := (spStep st).2, special := false } rfl,
    readNext_mustache mustacheCfg rfl o st, hsp, he]
  show mustacheTail (readNextA mustacheCfg o (st.s.content.length + 3) _)
    = mustacheTail (readNextA mustacheCfg o ((spStep st).2.content.length + 3) _)
  rw [hc]

/-- one iteration of the main loop in terms of `processSpec` -/
theorem readNextA_step_spec (cfg : Cfg) (hc : RawContract cfg) (o : Opts) (c : List Rune) (f : Nat)
    (st : TState) (ch : Rune) (hw : st.s.WF) (hcont : st.s.content = c)
    (hpk : st.s.peek = some ch) :
    readNextA cfg o (f+1) st =
      match processSpec cfg o c st.last
          ⟨(rawNext cfg ch st.s).1.tok.typ, (rawNext cfg ch st.s).1.tok.value, st.s.pos,
            (rawNext cfg ch st.s).1.quote⟩ with
      | none => readNextA cfg o f { st with s := (rawNext cfg ch st.s).2 }
      | some t => (some t, { st with s := (rawNext cfg ch st.s).2, last := t.typ }) := by
  have hlt := (peek_some_lt hpk).1
  have hr := hc st.s ch hw hpk
  have hpl := peekLC_eq st.s hw hlt
  have e1 : st.s.peekLine = (posOf c st.s.pos).1 := by
    have := congrArg Prod.fst hpl; rw [hcont] at this; exact this
  have e2 : st.s.peekColumn = (posOf c st.s.pos).2 := by
    have := congrArg Prod.snd hpl; rw [hcont] at this; exact this
  have hpos : ((rawNext cfg ch st.s).1.tok.line, (rawNext cfg ch st.s).1.tok.col)
      = posOf c st.s.pos := by rw [hr.pos, hcont]; rfl
  rw [readNextA_some cfg o f st ch hpk, e1, e2,
    processRaw_eq_spec cfg o c st.last _ st.s.pos hpos]
  rfl

theorem scanAt_eq (s : Scanner) (hw : s.WF) : scanAt s.content s.pos = s :=
  Scanner.wf_ext s (scanAt s.content s.pos) hw ⟨hw.1, rfl⟩ rfl rfl

/-! ### unfolding the SPEC -/

theorem mRawSpecA_end (c : List Rune) (f : Nat) (m : Bool) (p : Nat) (h : c.length ≤ p) :
    mRawSpecA c f m p = [] := by
  induction f generalizing m with
  | zero => rfl
  | succ f ih =>
    cases m with
    | false =>
      have : c[p]? = none := List.getElem?_eq_none_iff.mpr h
      simp only [mRawSpecA, this]
    | true =>
      have hd : c.drop p = [] := List.drop_eq_nil_of_le h
      show (if textLen (c.drop p) = 0 then mRawSpecA c f false p else _) = _
      rw [if_pos (by rw [hd]; rfl)]
      exact ih false

theorem mRawSpecA_text_empty (c : List Rune) (f p : Nat) (h : textLen (c.drop p) = 0) :
    mRawSpecA c (f+1) true p = mRawSpecA c f false p := by
  show (if textLen (c.drop p) = 0 then mRawSpecA c f false p else _) = _
  rw [if_pos h]

theorem mRawSpecA_text (c : List Rune) (f p : Nat) (h : textLen (c.drop p) ≠ 0) :
    mRawSpecA c (f+1) true p =
      ⟨TT.special, (c.drop p).take (textLen (c.drop p)), p, none⟩
        :: mRawSpecA c f false (p + textLen (c.drop p)) := by
  show (if textLen (c.drop p) = 0 then mRawSpecA c f false p else _) = _
  rw [if_neg h]

theorem mRawSpecA_tag (c : List Rune) (f p : Nat) (ch : Rune) (h : c[p]? = some ch) :
    mRawSpecA c (f+1) false p =
      ⟨(rawNext mustacheCfg ch (scanAt c p)).1.tok.typ, (rawNext mustacheCfg ch (scanAt c p)).1.tok.value,
        p, (rawNext mustacheCfg ch (scanAt c p)).1.quote⟩
        :: mRawSpecA c f
             ((rawNext mustacheCfg ch (scanAt c p)).1.tok.typ == TT.symbol
               && isClose (rawNext mustacheCfg ch (scanAt c p)).1.tok.value)
             (p + (rawNext mustacheCfg ch (scanAt c p)).1.tok.value.length) := by
  simp only [mRawSpecA, h]

/-- at the end of the input in tag mode: the Eof token (unless skipped) and nothing more -/
theorem mdrain_at_end (o : Opts) (fd : Nat) (st : TState) (hcache : st.cached = none)
    (hsp : st.special = false) (hw : st.s.WF) (hlast : st.last ≠ TT.eof)
    (hpk : st.s.peek = none) :
    drain mustacheCfg o (fd+1) st = if o.skipEof then [] else [eofTok st.s.content] := by
  have hl : (st.last != TT.eof) = true := bne_iff_ne.mpr hlast
  rw [drain_succ, nextTok_empty_cache mustacheCfg o st hcache, readNext_m_tag o st hsp,
    readNextA_none mustacheCfg o _ st hpk]
  cases hse : o.skipEof with
  | true =>
    simp only [hl, Bool.not_true, Bool.and_false, Bool.false_eq_true, if_false, if_true]
    rw [mustacheTail_none _ rfl]
  | false =>
    simp only [hl, Bool.not_false, Bool.and_true, if_true, Bool.false_eq_true, if_false]
    rw [mustacheTail_not_close _ _ rfl rfl]
    simp only
    rw [eof_tok_eq st.s hw hpk]
    congr 1
    cases fd with
    | zero => rfl
    | succ fd =>
      rw [drain_succ, nextTok_empty_cache mustacheCfg o { st with last := TT.eof } hcache,
        readNext_m_tag o { st with last := TT.eof } hsp,
        readNextA_none mustacheCfg o _ { st with last := TT.eof } hpk]
      simp only [bne_self_eq_false, Bool.false_and, Bool.false_eq_true, if_false]
      rw [mustacheTail_none _ rfl]

/-! ## §5 the token loop with the mode flag -/

/-- `drain = post` for the mustache tokenizer.  `m` = the mode flag, `last'` = the SPEC's idea of
the previous token type (it differs from the model's LastTokenType after a text token, but never
in the only thing that is read from it); the measure `2 * slots + mode` decreases with every call
of ReadNextToken and with the text → tag switch inside a call. -/
theorem mdrain_eq_post (o : Opts) (c : List Rune) (n : Nat) :
    ∀ (st : TState) (m : Bool) (fd fr last' : Nat),
      2 * (c.length + 1 - st.s.pos) + m.toNat < n → st.special = m → st.cached = none → st.s.WF →
      st.s.content = c → st.last ≠ TT.eof → (m = true → st.last ≠ TT.whitespace) →
      (st.last == TT.whitespace) = (last' == TT.whitespace) →
      c.length + 1 - st.s.pos < fd → 2 * (c.length + 1 - st.s.pos) + m.toNat < fr →
      drain mustacheCfg o fd st =
        postSpec mustacheCfg o c last' (mRawSpecA c fr m (min st.s.pos c.length))
          ++ (if o.skipEof then [] else [eofTok c]) := by
  induction n with
  | zero => intro st m fd fr last' hn; exact absurd hn (Nat.not_lt_zero _)
  | succ n ih =>
    intro st m fd fr last' hn hsp hcache hw hcont hlast hspl hws hfd hfr
    obtain ⟨fd', rfl⟩ : ∃ k, fd = k + 1 := ⟨fd - 1, by omega⟩
    obtain ⟨fr', rfl⟩ : ∃ k, fr = k + 1 := ⟨fr - 1, by omega⟩
    have hwp := hw.1
    rw [hcont] at hwp
    cases m with
    | false =>
      have hn' : 2 * (c.length + 1 - st.s.pos) < n + 1 := hn
      have hfr' : 2 * (c.length + 1 - st.s.pos) < fr' + 1 := hfr
      cases hpk : st.s.peek with
      | none =>
        have hge := peek_none_ge hpk
        rw [hcont] at hge
        rw [mdrain_at_end o fd' st hcache hsp hw hlast hpk, mRawSpecA_end c _ _ _ (by omega), hcont]
        rfl
      | some ch =>
        obtain ⟨hlt, hget⟩ := peek_some_lt hpk
        rw [hcont] at hlt hget
        have hr := rawContract_mustache st.s ch hw hpk
        have hrc : (rawNext mustacheCfg ch st.s).2.content = c := hr.content.trans hcont
        have hrp := hr.progress
        have hrw := hr.wf.1
        rw [hrc] at hrw
        have hlen := congrArg List.length hr.seg
        rw [slice_length, hcont] at hlen
        have hsa : scanAt c st.s.pos = st.s := by rw [← hcont]; exact scanAt_eq st.s hw
        have hnextpos : st.s.pos + (rawNext mustacheCfg ch st.s).1.tok.value.length
            = min (rawNext mustacheCfg ch st.s).2.pos c.length := by omega
        have hstep : readNextA mustacheCfg o (st.s.content.length + 3) st = _ :=
          readNextA_step_spec mustacheCfg rawContract_mustache o c (st.s.content.length + 2) st ch
            hw hcont hpk
        have hrn := readNext_m_tag o st hsp
        rw [Nat.min_eq_left (Nat.le_of_lt hlt), mRawSpecA_tag c fr' st.s.pos ch hget, hsa,
          postSpec_cons, ← processSpec_congr_last mustacheCfg o c st.last last' _ hws, hnextpos]
        cases hps : processSpec mustacheCfg o c st.last
            ⟨(rawNext mustacheCfg ch st.s).1.tok.typ, (rawNext mustacheCfg ch st.s).1.tok.value,
              st.s.pos, (rawNext mustacheCfg ch st.s).1.quote⟩ with
        | none =>
          rw [hps] at hstep
          simp only at hstep ⊢
          -- a skipped token is not a closing symbol: still tag mode
          have hns : (rawNext mustacheCfg ch st.s).1.tok.typ ≠ TT.symbol :=
            fun h => processSpec_symbol_isSome mustacheCfg o c st.last _ h hps
          have hcl : ((rawNext mustacheCfg ch st.s).1.tok.typ == TT.symbol
              && isClose (rawNext mustacheCfg ch st.s).1.tok.value) = false := by
            rw [beq_false_of_ne hns]; rfl
          rw [hcl]
          -- the same call continues = a fresh call from the next position
          have hfu := readNextA_fuel mustacheCfg rawContract_mustache o (st.s.content.length + 2)
            (st.s.content.length + 3) { st with s := (rawNext mustacheCfg ch st.s).2 } hr.wf
            (by show (rawNext mustacheCfg ch st.s).2.content.length + 1 - _ < _
                rw [hr.content]; omega)
            (by show (rawNext mustacheCfg ch st.s).2.content.length + 1 - _ < _
                rw [hr.content]; omega)
          have hrn1 := readNext_m_tag o { st with s := (rawNext mustacheCfg ch st.s).2 } hsp
          have hlen1 : ({ st with s := (rawNext mustacheCfg ch st.s).2 } : TState).s.content.length
              = st.s.content.length := by
            show (rawNext mustacheCfg ch st.s).2.content.length = _; rw [hr.content]
          rw [hlen1, ← hfu, ← hstep, ← hrn] at hrn1
          rw [drain_congr mustacheCfg o (fd'+1) st { st with s := (rawNext mustacheCfg ch st.s).2 } hcache
            hcache hrn1.symm]
          exact ih { st with s := (rawNext mustacheCfg ch st.s).2 } false (fd'+1) fr' last'
            (by show 2 * (c.length + 1 - (rawNext mustacheCfg ch st.s).2.pos) + 0 < n; omega)
            hsp hcache hr.wf hrc hlast (fun h => absurd h (by decide)) hws
            (by show c.length + 1 - (rawNext mustacheCfg ch st.s).2.pos < _; omega)
            (by show 2 * (c.length + 1 - (rawNext mustacheCfg ch st.s).2.pos) + 0 < _; omega)
        | some t =>
          rw [hps] at hstep
          simp only at hstep ⊢
          have hclose := processSpec_close mustacheCfg o c st.last _ t
            (fun h => rawNext_mustache_symbol_quote ch st.s h) hps
          have hne := processSpec_typ_ne_eof mustacheCfg o c st.last _ t hps hr.notEof
          unfold RawTok.isCloser at hclose
          simp only at hclose
          rw [hstep] at hrn
          rw [drain_succ, nextTok_empty_cache _ _ _ hcache, hrn]
          cases hcl : ((rawNext mustacheCfg ch st.s).1.tok.typ == TT.symbol
              && isClose (rawNext mustacheCfg ch st.s).1.tok.value) with
          | false =>
            rw [hcl] at hclose
            rw [mustacheTail_not_close _ t rfl hclose]
            simp only [List.cons_append]
            congr 1
            exact ih { st with s := (rawNext mustacheCfg ch st.s).2, last := t.typ } false fd' fr'
              t.typ
              (by show 2 * (c.length + 1 - (rawNext mustacheCfg ch st.s).2.pos) + 0 < n; omega)
              hsp hcache hr.wf hrc hne (fun h => absurd h (by decide)) rfl
              (by show c.length + 1 - (rawNext mustacheCfg ch st.s).2.pos < _; omega)
              (by show 2 * (c.length + 1 - (rawNext mustacheCfg ch st.s).2.pos) + 0 < _; omega)
          | true =>
            rw [hcl] at hclose
            rw [mustacheTail_close _ t rfl hclose]
            simp only [List.cons_append]
            congr 1
            have hts : t.typ = TT.symbol := by
              simp only [Bool.and_eq_true, beq_iff_eq] at hclose; exact hclose.1
            exact ih { st with s := (rawNext mustacheCfg ch st.s).2, last := t.typ, special := true }
              true fd' fr' t.typ
              (by show 2 * (c.length + 1 - (rawNext mustacheCfg ch st.s).2.pos) + 1 < n; omega)
              rfl hcache hr.wf hrc hne (fun _ => by show t.typ ≠ _; rw [hts]; decide) rfl
              (by show c.length + 1 - (rawNext mustacheCfg ch st.s).2.pos < _; omega)
              (by show 2 * (c.length + 1 - (rawNext mustacheCfg ch st.s).2.pos) + 1 < _; omega)
    | true =>
      have hn' : 2 * (c.length + 1 - st.s.pos) + 1 < n + 1 := hn
      have hfr' : 2 * (c.length + 1 - st.s.pos) + 1 < fr' + 1 := hfr
      obtain ⟨hty, hval, hw', hc', hmono, hminpos, hlc⟩ := spStep_text st hw hsp
      rw [hcont] at hval hminpos hlc
      have hwp' := hw'.1
      rw [hc', hcont] at hwp'
      have hdm := drop_min c st.s.pos
      by_cases hn0 : textLen (c.drop st.s.pos) = 0
      · -- empty text: the same call goes on in tag mode
        have he : (spStep st).1.value = [] := by rw [hval, hn0]; rfl
        have hmin0 : min (spStep st).2.pos c.length = min st.s.pos c.length := by omega
        rw [drain_congr mustacheCfg o (fd'+1) st { st with s := (spStep st).2, special := false }
            hcache hcache (readNext_m_text_empty o st hw hsp he),
          mRawSpecA_text_empty c fr' _ (by rw [hdm]; exact hn0), ← hmin0]
        exact ih { st with s := (spStep st).2, special := false } false (fd'+1) fr' last'
          (by show 2 * (c.length + 1 - (spStep st).2.pos) + 0 < n; omega)
          rfl hcache hw' (hc'.trans hcont) hlast (fun h => absurd h (by decide)) hws
          (by show c.length + 1 - (spStep st).2.pos < _; omega)
          (by show 2 * (c.length + 1 - (spStep st).2.pos) + 0 < _; omega)
      · -- the text token
        have hle := textLen_le (c.drop st.s.pos)
        rw [List.length_drop] at hle
        have hlt : st.s.pos < c.length := by omega
        have hne : (spStep st).1.value ≠ [] := by
          intro h0
          have := congrArg List.length h0
          rw [hval, List.length_take, List.length_drop] at this
          simp only [List.length_nil] at this
          omega
        have hminp : min st.s.pos c.length = st.s.pos := by omega
        rw [hminp] at hminpos ⊢
        have htok : (spStep st).1 = ⟨TT.special,
            (c.drop st.s.pos).take (textLen (c.drop st.s.pos)),
            (posOf c st.s.pos).1, (posOf c st.s.pos).2⟩ := by
          have hl := hlc hlt
          cases hx : (spStep st).1 with
          | mk ty v l cl =>
            rw [hx] at hty hval hl
            simp only at hty hval hl
            have e1 : l = (posOf c st.s.pos).1 := congrArg Prod.fst hl
            have e2 : cl = (posOf c st.s.pos).2 := congrArg Prod.snd hl
            rw [hty, hval, e1, e2]
        have hd0 : textLen (c.drop (st.s.pos + textLen (c.drop st.s.pos))) = 0 := by
          rw [← List.drop_drop]; exact textLen_drop _
        rw [drain_succ, nextTok_empty_cache _ _ _ hcache, readNext_m_text o st hsp hne,
          mRawSpecA_text c fr' st.s.pos hn0, postSpec_cons, processSpec_special]
        simp only [List.cons_append]
        rw [htok]
        congr 1
        rw [← mRawSpecA_text_empty c fr' _ hd0, ← hminpos]
        exact ih { st with s := (spStep st).2 } true fd' (fr'+1) TT.special
          (by show 2 * (c.length + 1 - (spStep st).2.pos) + 1 < n; omega)
          hsp hcache hw' (hc'.trans hcont) hlast hspl
          (by rw [beq_false_of_ne (hspl rfl)]; rfl)
          (by show c.length + 1 - (spStep st).2.pos < _; omega)
          (by show 2 * (c.length + 1 - (spStep st).2.pos) + 1 < _; omega)

/-- **the mustache tokenizer's token stream is the specified one**, for every option setting and
every input -/
theorem tokenize_mustache_eq (o : Opts) (c : List Rune) :
    tokenize mustacheCfg o c = mStreamSpec o c := by
  unfold tokenize mStreamSpec mRawSpec
  exact mdrain_eq_post o c (2 * c.length + 4) (TState.start c) true (c.length + 3)
    (2 * c.length + 4) TT.unknown
    (by show 2 * (c.length + 1 - 0) + 1 < _; omega) rfl rfl (new_wf c) rfl
    (show TT.unknown ≠ TT.eof by decide) (fun _ => show TT.unknown ≠ TT.whitespace by decide) rfl
    (by show c.length + 1 - 0 < _; omega) (by show 2 * (c.length + 1 - 0) + 1 < _; omega)

/-! ## §6 the raw list is a partition of the input; the SPEC does not depend on its fuel -/

theorem scanAt_wf (c : List Rune) (p : Nat) (h : p ≤ c.length + 1) : (scanAt c p).WF := ⟨h, rfl⟩

/-- the tag step of the SPEC at an offset with a next rune: the contract of `rawNext` -/
theorem scanAt_rawOK (c : List Rune) (p : Nat) (ch : Rune) (h : c[p]? = some ch) :
    RawOK c p (rawNext mustacheCfg ch (scanAt c p)) := by
  have hlt := (List.getElem?_eq_some_iff.mp h).1
  have hpk : (scanAt c p).peek = some ch := by rw [peek_eq]; exact h
  exact rawContract_mustache (scanAt c p) ch (scanAt_wf c p (by omega)) hpk

/-- the length of a tag-mode token: it ends where the scanner stands (clipped to the input) -/
theorem scanAt_raw_len (c : List Rune) (p : Nat) (ch : Rune) (h : c[p]? = some ch) :
    1 ≤ (rawNext mustacheCfg ch (scanAt c p)).1.tok.value.length ∧
    p + (rawNext mustacheCfg ch (scanAt c p)).1.tok.value.length ≤ c.length ∧
    (rawNext mustacheCfg ch (scanAt c p)).1.tok.value
      = slice c p (p + (rawNext mustacheCfg ch (scanAt c p)).1.tok.value.length) := by
  have hlt := (List.getElem?_eq_some_iff.mp h).1
  have hr := scanAt_rawOK c p ch h
  have hlen := congrArg List.length hr.seg
  rw [slice_length] at hlen
  have hp := hr.progress
  have hnext : p + (rawNext mustacheCfg ch (scanAt c p)).1.tok.value.length
      = min (rawNext mustacheCfg ch (scanAt c p)).2.pos c.length := by omega
  refine ⟨by omega, by omega, ?_⟩
  rw [hnext]; exact hr.seg

/-- with enough fuel the segmentation is a partition of the rest of the input into contiguous,
non-empty, Eof-free slices -/
theorem mRawSpecA_ok (c : List Rune) (f : Nat) :
    ∀ (m : Bool) (p : Nat), p ≤ c.length → 2 * (c.length - p) + m.toNat < f →
      RawsOK c p (mRawSpecA c f m p) := by
  induction f with
  | zero => intro m p _ h; exact absurd h (Nat.not_lt_zero _)
  | succ f ih =>
    intro m p hp hf
    cases m with
    | false =>
      have hf' : 2 * (c.length - p) < f + 1 := hf
      cases hget : c[p]? with
      | none =>
        simp only [mRawSpecA, hget]
        exact List.getElem?_eq_none_iff.mp hget
      | some ch =>
        obtain ⟨h1, h2, h3⟩ := scanAt_raw_len c p ch hget
        have hr := scanAt_rawOK c p ch hget
        rw [mRawSpecA_tag c f p ch hget]
        refine ⟨rfl, ?_, h3, h2, hr.notEof, ?_⟩
        · intro h0
          have h0' : (rawNext mustacheCfg ch (scanAt c p)).1.tok.value = [] := h0
          rw [h0'] at h1
          exact absurd h1 (by decide)
        · apply ih _ _ h2
          have := Bool.toNat_le ((rawNext mustacheCfg ch (scanAt c p)).1.tok.typ == TT.symbol
            && isClose (rawNext mustacheCfg ch (scanAt c p)).1.tok.value)
          show 2 * (c.length - (p + (rawNext mustacheCfg ch (scanAt c p)).1.tok.value.length)) + _ < f
          omega
    | true =>
      have hf' : 2 * (c.length - p) + 1 < f + 1 := hf
      by_cases hn0 : textLen (c.drop p) = 0
      · rw [mRawSpecA_text_empty c f p hn0]
        exact ih false p hp (by show 2 * (c.length - p) + 0 < f; omega)
      · have hle := textLen_le (c.drop p)
        rw [List.length_drop] at hle
        have hl : ((c.drop p).take (textLen (c.drop p))).length = textLen (c.drop p) := by
          rw [List.length_take, List.length_drop]; omega
        rw [mRawSpecA_text c f p hn0]
        refine ⟨rfl, ?_, ?_, ?_, (by decide : TT.special ≠ TT.eof), ?_⟩
        · intro h0
          have h0' : (c.drop p).take (textLen (c.drop p)) = [] := h0
          rw [h0'] at hl
          exact hn0 hl.symm
        · show (c.drop p).take (textLen (c.drop p)) = slice c p (p + _)
          rw [hl]; exact take_drop_eq_slice c p _
        · show p + ((c.drop p).take (textLen (c.drop p))).length ≤ _
          rw [hl]; omega
        · show RawsOK c (p + ((c.drop p).take (textLen (c.drop p))).length) _
          rw [hl]
          exact ih false _ (by omega) (by show 2 * (c.length - (p + textLen (c.drop p))) + 0 < f; omega)

theorem mRawSpec_ok (c : List Rune) : RawsOK c 0 (mRawSpec c) :=
  mRawSpecA_ok c (2 * c.length + 4) true 0 (Nat.zero_le _)
    (by show 2 * (c.length - 0) + 1 < _; omega)

/-- one more unit of fuel changes nothing … -/
theorem mRawSpecA_fuel_succ (c : List Rune) (f : Nat) :
    ∀ (m : Bool) (p : Nat), 2 * (c.length - p) + m.toNat < f →
      mRawSpecA c f m p = mRawSpecA c (f+1) m p := by
  induction f with
  | zero => intro m p h; exact absurd h (Nat.not_lt_zero _)
  | succ f ih =>
    intro m p hf
    by_cases hp : c.length ≤ p
    · rw [mRawSpecA_end c _ m p hp, mRawSpecA_end c _ m p hp]
    · cases m with
      | false =>
        have hf' : 2 * (c.length - p) < f + 1 := hf
        cases hget : c[p]? with
        | none => exact absurd (List.getElem?_eq_none_iff.mp hget) hp
        | some ch =>
          obtain ⟨h1, h2, _⟩ := scanAt_raw_len c p ch hget
          rw [mRawSpecA_tag c f p ch hget, mRawSpecA_tag c (f+1) p ch hget]
          congr 1
          apply ih
          have := Bool.toNat_le ((rawNext mustacheCfg ch (scanAt c p)).1.tok.typ == TT.symbol
            && isClose (rawNext mustacheCfg ch (scanAt c p)).1.tok.value)
          omega
      | true =>
        have hf' : 2 * (c.length - p) + 1 < f + 1 := hf
        by_cases hn0 : textLen (c.drop p) = 0
        · rw [mRawSpecA_text_empty c f p hn0, mRawSpecA_text_empty c (f+1) p hn0]
          exact ih false p (by show 2 * (c.length - p) + 0 < f; omega)
        · rw [mRawSpecA_text c f p hn0, mRawSpecA_text c (f+1) p hn0]
          congr 1
          exact ih false _ (by show 2 * (c.length - (p + textLen (c.drop p))) + 0 < f; omega)

/-- … so any fuel above `2 * remaining + mode` gives the same list: `mRawSpec`'s `2 * length + 4`
is not special -/
theorem mRawSpecA_fuel (c : List Rune) (m : Bool) (p f1 f2 : Nat)
    (h1 : 2 * (c.length - p) + m.toNat < f1) (h2 : 2 * (c.length - p) + m.toNat < f2) :
    mRawSpecA c f1 m p = mRawSpecA c f2 m p := by
  have key : ∀ f k, 2 * (c.length - p) + m.toNat < f →
      mRawSpecA c f m p = mRawSpecA c (f + k) m p := by
    intro f k hf
    induction k with
    | zero => rfl
    | succ k ihk =>
      rw [ihk, ← Nat.add_assoc]
      exact mRawSpecA_fuel_succ c (f + k) m p (by omega)
  by_cases h : f1 ≤ f2
  · have := key f1 (f2 - f1) h1
    rw [this]; congr 1; omega
  · have := key f2 (f1 - f2) h2
    rw [this]; congr 1; omega

/-! ### every raw token is a text token or one `rawNext` step -/

theorem mRawSpecA_forall (c : List Rune) (P : RawTok → Prop)
    (htext : ∀ p, textLen (c.drop p) ≠ 0 →
      P ⟨TT.special, (c.drop p).take (textLen (c.drop p)), p, none⟩)
    (htag : ∀ p ch, c[p]? = some ch →
      P ⟨(rawNext mustacheCfg ch (scanAt c p)).1.tok.typ,
        (rawNext mustacheCfg ch (scanAt c p)).1.tok.value, p,
        (rawNext mustacheCfg ch (scanAt c p)).1.quote⟩) (f : Nat) :
    ∀ (m : Bool) (p : Nat), ∀ r ∈ mRawSpecA c f m p, P r := by
  induction f with
  | zero => intro m p r hr; exact absurd hr List.not_mem_nil
  | succ f ih =>
    intro m p r hr
    cases m with
    | false =>
      cases hget : c[p]? with
      | none =>
        simp only [mRawSpecA, hget] at hr
        exact absurd hr List.not_mem_nil
      | some ch =>
        rw [mRawSpecA_tag c f p ch hget, List.mem_cons] at hr
        rcases hr with rfl | hr
        · exact htag p ch hget
        · exact ih _ _ r hr
    | true =>
      by_cases hn0 : textLen (c.drop p) = 0
      · rw [mRawSpecA_text_empty c f p hn0] at hr
        exact ih false p r hr
      · rw [mRawSpecA_text c f p hn0, List.mem_cons] at hr
        rcases hr with rfl | hr
        · exact htext p hn0
        · exact ih false _ r hr

/-- in the raw list of a template a Symbol token was never read by the quote state -/
theorem mRawSpec_symbol_quote (c : List Rune) :
    ∀ r ∈ mRawSpec c, r.typ = TT.symbol → r.quote = none :=
  mRawSpecA_forall c (fun r => r.typ = TT.symbol → r.quote = none)
    (fun _ _ _ => rfl) (fun p ch _ h => rawNext_mustache_symbol_quote ch (scanAt c p) h) _ true 0

/-- a text token of the raw list: no quote character, its text is free of `{{` and is followed by
`{{` or by the end of the input -/
theorem mRawSpec_special (c : List Rune) :
    ∀ r ∈ mRawSpec c, r.typ = TT.special →
      r.quote = none ∧ r.value = (c.drop r.start).take (textLen (c.drop r.start)) ∧
      (∀ i, i + 1 < r.value.length → ¬ (r.value[i]? = some 123 ∧ r.value[i+1]? = some 123)) ∧
      (r.start + r.value.length < c.length →
        c[r.start + r.value.length]? = some 123 ∧ c[r.start + r.value.length + 1]? = some 123) := by
  apply mRawSpecA_forall c (fun r => r.typ = TT.special →
      r.quote = none ∧ r.value = (c.drop r.start).take (textLen (c.drop r.start)) ∧
      (∀ i, i + 1 < r.value.length → ¬ (r.value[i]? = some 123 ∧ r.value[i+1]? = some 123)) ∧
      (r.start + r.value.length < c.length →
        c[r.start + r.value.length]? = some 123 ∧ c[r.start + r.value.length + 1]? = some 123))
  · intro p hn0 _
    have hle := textLen_le (c.drop p)
    have hl : ((c.drop p).take (textLen (c.drop p))).length = textLen (c.drop p) := by
      rw [List.length_take]; omega
    refine ⟨rfl, rfl, ?_, ?_⟩
    · intro i hi
      show ¬ (((c.drop p).take (textLen (c.drop p)))[i]? = some 123 ∧
        ((c.drop p).take (textLen (c.drop p)))[i+1]? = some 123)
      have hi' : i + 1 < textLen (c.drop p) := by
        have : i + 1 < ((c.drop p).take (textLen (c.drop p))).length := hi
        omega
      rw [List.getElem?_take_of_lt (by omega), List.getElem?_take_of_lt hi']
      exact textLen_no_open (c.drop p) i (by omega)
    · intro hlt
      have hlt' : p + textLen (c.drop p) < c.length := by
        have : p + ((c.drop p).take (textLen (c.drop p))).length < c.length := hlt
        omega
      show c[p + ((c.drop p).take (textLen (c.drop p))).length]? = some 123 ∧
        c[p + ((c.drop p).take (textLen (c.drop p))).length + 1]? = some 123
      rw [hl]
      have := textLen_stop (c.drop p) (by rw [List.length_drop]; omega)
      rw [List.getElem?_drop, List.getElem?_drop] at this
      exact ⟨this.1, by rw [Nat.add_assoc]; exact this.2⟩
  · intro p ch hget hsp
    -- a tag-mode token of type Special does not exist, but the statement holds vacuously only
    -- if we know that; we do not need it: `rawNext` of the mustache configuration never yields it
    exact absurd hsp (rawNext_mustache_ne_special ch (scanAt c p))

/-! ### tokens the options always let through -/

/-- a raw token that `processSpec` turns into `t` whatever the previous token was shows up as `t`
in the post-processed list -/
theorem mem_postSpec_of_forall (cfg : Cfg) (o : Opts) (c : List Rune) (raws : List RawTok)
    (r : RawTok) (t : Tok) (hr : r ∈ raws) (h : ∀ last, processSpec cfg o c last r = some t) :
    ∀ last, t ∈ postSpec cfg o c last raws := by
  induction raws with
  | nil => exact absurd hr List.not_mem_nil
  | cons x xs ih =>
    intro last
    rw [postSpec_cons]
    rcases List.mem_cons.mp hr with rfl | hr'
    · rw [h last]; exact List.mem_cons_self
    · cases processSpec cfg o c last x with
      | none => exact ih hr' last
      | some t' => exact List.mem_cons_of_mem _ (ih hr' t'.typ)

/-- the options leave a Symbol token (not read by the quote state) alone -/
theorem processSpec_symbol (cfg : Cfg) (o : Opts) (c : List Rune) (last : Nat) (r : RawTok)
    (hs : r.typ = TT.symbol) (hq : r.quote = none) :
    processSpec cfg o c last r
      = some ⟨TT.symbol, r.value, (posOf c r.start).1, (posOf c r.start).2⟩ := by
  have h1 : (TT.symbol == TT.unknown) = false := by decide
  have h2 : (TT.symbol == TT.comment) = false := by decide
  have h3 : (TT.symbol == TT.whitespace) = false := by decide
  have h4 : isNumTyp TT.symbol = false := by decide
  unfold processSpec
  simp only [hs, hq, h1, h2, h3, h4, Bool.false_and, Bool.and_false, Bool.false_eq_true, if_false]

end Verif
