/-
Model of calculator/parsers/ExpressionParser.go: the syntax analysis (seven-level recursive
descent compiling to post-order), after the `fix:` repairs (D09 multi-token matcher, D10 missing
']' reported, D11 trailing comma, D12 error text).

The parser works on the list of the remaining "initial tokens"; constants carry an opaque
payload of type `κ`.
-/
import Verif.Model.Scanner

namespace Verif

/-- calculator/parsers/ExpressionTokenType.go (iota order) -/
inductive ET where
  | unknown | leftBrace | rightBrace | leftSquareBrace | rightSquareBrace
  | plus | minus | star | slash | procent | power
  | equal | notEqual | more | less | equalMore | equalLess
  | shiftLeft | shiftRight | and | or | xor | is | in_ | notIn | element | null
  | not | like | notLike | isNull | isNotNull | comma | unary | function | variable | constant
  deriving Repr, DecidableEq

def ET.toNat : ET → Nat
  | .unknown => 0 | .leftBrace => 1 | .rightBrace => 2 | .leftSquareBrace => 3
  | .rightSquareBrace => 4 | .plus => 5 | .minus => 6 | .star => 7 | .slash => 8 | .procent => 9
  | .power => 10 | .equal => 11 | .notEqual => 12 | .more => 13 | .less => 14 | .equalMore => 15
  | .equalLess => 16 | .shiftLeft => 17 | .shiftRight => 18 | .and => 19 | .or => 20 | .xor => 21
  | .is => 22 | .in_ => 23 | .notIn => 24 | .element => 25 | .null => 26 | .not => 27 | .like => 28
  | .notLike => 29 | .isNull => 30 | .isNotNull => 31 | .comma => 32 | .unary => 33
  | .function => 34 | .variable => 35 | .constant => 36

def ET.all : List ET :=
  [.unknown, .leftBrace, .rightBrace, .leftSquareBrace, .rightSquareBrace, .plus, .minus, .star,
   .slash, .procent, .power, .equal, .notEqual, .more, .less, .equalMore, .equalLess, .shiftLeft,
   .shiftRight, .and, .or, .xor, .is, .in_, .notIn, .element, .null, .not, .like, .notLike,
   .isNull, .isNotNull, .comma, .unary, .function, .variable, .constant]

def ET.ofCode (n : Nat) : ET := (ET.all.find? (fun t => t.toNat == n)).getD .unknown

/-- an expression token: type, name (variables / functions), constant payload; `argc` is the
argument-count constant the parser emits in front of a Function token (`cst = none` then) -/
structure ETok (κ : Type) where
  typ : ET
  name : List Rune := []
  cst : Option κ := none
  argc : Nat := 0
  deriving Repr, DecidableEq

inductive PErr where
  | unexpectedEnd | errorAt | errorNear | missedCloseParen | missedCloseSquare | internal | outOfFuel
  deriving Repr, DecidableEq

def PErr.code : PErr → String
  | .unexpectedEnd => "UNEXPECTED_END" | .errorAt => "ERROR_AT" | .errorNear => "ERROR_NEAR"
  | .missedCloseParen => "MISSED_CLOSE_PARENTHESIS"
  | .missedCloseSquare => "MISSED_CLOSE_SQUARE_BRACKET" | .internal => "INTERNAL"
  | .outOfFuel => "OUT_OF_FUEL"

structure PState (κ : Type) where
  rest : List (ETok κ)
  out : List (ETok κ)
  vars : List (List Rune)
  deriving Repr

abbrev PRes (κ : Type) := Except PErr (PState κ)

namespace Parser
variable {κ : Type}

def emit (st : PState κ) (t : ET) : PState κ := { st with out := st.out ++ [⟨t, [], none, 0⟩] }
def emitTok (st : PState κ) (t : ETok κ) : PState κ := { st with out := st.out ++ [t] }

/-- the per-level operator sets (`token.Type() == X || …` conditions) -/
def ops0 : List ET := [.and, .or, .xor]
def ops2 : List ET := [.equal, .notEqual, .more, .less, .equalMore, .equalLess]
def ops3 : List ET := [.plus, .minus, .like]
def ops4 : List ET := [.star, .slash, .procent]
def ops5 : List ET := [.power, .in_, .shiftLeft, .shiftRight]

/-- `matchTokensWithTypes` (repaired): all listed types must match, in order -/
def matchTypes (tys : List ET) (rest : List (ETok κ)) : Option (List (ETok κ)) :=
  if (rest.take tys.length).map (·.typ) == tys then some (rest.drop tys.length) else none

def addVar (vars : List (List Rune)) (n : List Rune) : List (List Rune) :=
  if vars.contains n then vars else vars ++ [n]

mutual

/-- performSyntaxAnalysis -/
def p0 : Nat → PState κ → PRes κ
  | 0, _ => .error .outOfFuel
  | f+1, st =>
    if st.rest.isEmpty then .error .unexpectedEnd
    else match p1 f st with
      | .error e => .error e
      | .ok st1 => p0loop f st1

def p0loop : Nat → PState κ → PRes κ
  | 0, _ => .error .outOfFuel
  | f+1, st =>
    match st.rest with
    | [] => .ok st
    | t :: rest =>
      if ops0.contains t.typ then
        match p1 f { st with rest := rest } with
        | .error e => .error e
        | .ok st1 => p0loop f (emit st1 t.typ)
      else .ok st

/-- level 1: prefix NOT -/
def p1 : Nat → PState κ → PRes κ
  | 0, _ => .error .outOfFuel
  | f+1, st =>
    match st.rest with
    | [] => .error .unexpectedEnd
    | t :: rest =>
      if t.typ == .not then
        match p2 f { st with rest := rest } with
        | .error e => .error e
        | .ok st1 => .ok (emit st1 .not)
      else p2 f st

/-- level 2: comparisons -/
def p2 : Nat → PState κ → PRes κ
  | 0, _ => .error .outOfFuel
  | f+1, st =>
    if st.rest.isEmpty then .error .unexpectedEnd
    else match p3 f st with
      | .error e => .error e
      | .ok st1 => p2loop f st1

def p2loop : Nat → PState κ → PRes κ
  | 0, _ => .error .outOfFuel
  | f+1, st =>
    match st.rest with
    | [] => .ok st
    | t :: rest =>
      if ops2.contains t.typ then
        match p3 f { st with rest := rest } with
        | .error e => .error e
        | .ok st1 => p2loop f (emit st1 t.typ)
      else .ok st

/-- level 3: additive operators and the postfix tests -/
def p3 : Nat → PState κ → PRes κ
  | 0, _ => .error .outOfFuel
  | f+1, st =>
    if st.rest.isEmpty then .error .unexpectedEnd
    else match p4 f st with
      | .error e => .error e
      | .ok st1 => p3loop f st1

def p3loop : Nat → PState κ → PRes κ
  | 0, _ => .error .outOfFuel
  | f+1, st =>
    match st.rest with
    | [] => .ok st
    | t :: rest =>
      if ops3.contains t.typ then
        match p4 f { st with rest := rest } with
        | .error e => .error e
        | .ok st1 => p3loop f (emit st1 t.typ)
      else match matchTypes [.not, .like] st.rest with
        | some r =>
          match p4 f { st with rest := r } with
          | .error e => .error e
          | .ok st1 => p3loop f (emit st1 .notLike)
        | none =>
          match matchTypes [.is, .null] st.rest with
          | some r => p3loop f (emit { st with rest := r } .isNull)
          | none =>
            match matchTypes [.is, .not, .null] st.rest with
            | some r => p3loop f (emit { st with rest := r } .isNotNull)
            | none =>
              match matchTypes [.not, .in_] st.rest with
              | some r =>
                match p4 f { st with rest := r } with
                | .error e => .error e
                | .ok st1 => p3loop f (emit st1 .notIn)
              | none => .ok st

/-- level 4: multiplicative -/
def p4 : Nat → PState κ → PRes κ
  | 0, _ => .error .outOfFuel
  | f+1, st =>
    if st.rest.isEmpty then .error .unexpectedEnd
    else match p5 f st with
      | .error e => .error e
      | .ok st1 => p4loop f st1

def p4loop : Nat → PState κ → PRes κ
  | 0, _ => .error .outOfFuel
  | f+1, st =>
    match st.rest with
    | [] => .ok st
    | t :: rest =>
      if ops4.contains t.typ then
        match p5 f { st with rest := rest } with
        | .error e => .error e
        | .ok st1 => p4loop f (emit st1 t.typ)
      else .ok st

/-- level 5: power, IN, shifts -/
def p5 : Nat → PState κ → PRes κ
  | 0, _ => .error .outOfFuel
  | f+1, st =>
    if st.rest.isEmpty then .error .unexpectedEnd
    else match p6 f st with
      | .error e => .error e
      | .ok st1 => p5loop f st1

def p5loop : Nat → PState κ → PRes κ
  | 0, _ => .error .outOfFuel
  | f+1, st =>
    match st.rest with
    | [] => .ok st
    | t :: rest =>
      if ops5.contains t.typ then
        match p6 f { st with rest := rest } with
        | .error e => .error e
        | .ok st1 => p5loop f (emit st1 t.typ)
      else .ok st

/-- level 6: optional sign, primary, optional index suffix -/
def p6 : Nat → PState κ → PRes κ
  | 0, _ => .error .outOfFuel
  | f+1, st =>
    match st.rest with
    | [] => .error .unexpectedEnd
    | t0 :: rest0 =>
      let neg : Bool := t0.typ == .minus
      let st1 : PState κ := if t0.typ == .plus || t0.typ == .minus then { st with rest := rest0 } else st
      match p6prim f st1 with
      | .error e => .error e
      | .ok st2 =>
        let st3 := if neg then emit st2 .unary else st2
        match st3.rest with
        | [] => .ok st3
        | t :: rest =>
          if t.typ == .leftSquareBrace then
            match p0 f { st3 with rest := rest } with
            | .error e => .error e
            | .ok st4 =>
              match st4.rest with
              | [] => .error .unexpectedEnd
              | c :: rest4 =>
                if c.typ == .rightSquareBrace then .ok (emit { st4 with rest := rest4 } .element)
                else .error .missedCloseSquare
          else .ok st3

/-- the primary: constant, variable, parenthesised expression or call -/
def p6prim : Nat → PState κ → PRes κ
  | 0, _ => .error .outOfFuel
  | f+1, st =>
    match st.rest with
    | [] => .error .unexpectedEnd
    | p :: rest =>
      let isCall : Bool := p.typ == .variable && (rest.head?.map (·.typ)) == some .leftBrace
      if isCall then
        -- moveToNextToken; the '(' is consumed by the first moveToNextToken of the argument loop
        match pArgs f { st with rest := rest.drop 1 } 0 with
        | .error e => .error e
        | .ok (st1, n) =>
          match st1.rest with
          | [] => .error .unexpectedEnd
          | c :: rest1 =>
            if c.typ == .rightBrace then
              .ok (emitTok (emitTok { st1 with rest := rest1 } ⟨.constant, [], none, n⟩) ⟨.function, p.name, none, 0⟩)
            else .error .missedCloseParen
      else if p.typ == .constant then .ok (emitTok { st with rest := rest } p)
      else if p.typ == .variable then
        .ok (emitTok { st with rest := rest, vars := addVar st.vars p.name } p)
      else if p.typ == .leftBrace then
        match p0 f { st with rest := rest } with
        | .error e => .error e
        | .ok st1 =>
          match st1.rest with
          | [] => .error .unexpectedEnd
          | c :: rest1 =>
            if c.typ == .rightBrace then .ok { st1 with rest := rest1 }
            else .error .missedCloseParen
      else .error .errorAt

/-- the argument loop of a call (after `(`): returns the state positioned at the token that
ended the loop and the number of arguments -/
def pArgs : Nat → PState κ → Nat → Except PErr (PState κ × Nat)
  | 0, _, _ => .error .outOfFuel
  | f+1, st, n =>
    match st.rest with
    | [] => .ok (st, n)
    | t :: _ =>
      if t.typ == .rightBrace && n == 0 then .ok (st, n)
      else
        match p0 f st with
        | .error e => .error e
        | .ok st1 =>
          match st1.rest with
          | [] => .ok (st1, n + 1)
          | c :: rest1 =>
            if c.typ == .comma then pArgs f { st1 with rest := rest1 } (n + 1)
            else .ok (st1, n + 1)

end

end Parser
end Verif
