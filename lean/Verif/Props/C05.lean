/-
C05: "The tokens produced for an input do not depend on what the same tokenizer instance
processed earlier, nor on how often the presence of a next token was queried before fetching
it: they equal what a freshly constructed instance produces for that input."

* `C05_history_independent` : re-using an instance in ANY earlier state = a fresh instance.
* `hasNext_cached`, `hasNext_idem_some`, `hasNext_idem` : HasNextToken is idempotent.
* `C05_hasNext_transparent*` : NextToken after HasNextToken = NextToken.
* `C05_drainH_eq_drain*` : any interleaving of HasNextToken queries yields the same stream.

Hypotheses.  Everything about the case "a token was found" is unconditional.  The corner
"HasNextToken / NextToken after the end of the stream" needs that a `nil` answer of
ReadNextToken really means "input exhausted" (and not "fuel of the model exhausted"); this is
what `RawContract cfg` (proved for the four built-in configurations in Lemmas/MainLoop.lean)
together with well-formedness of the scanner (`Scanner.WF`, an invariant of every reachable
state) provides.  No hypothesis on the kind is needed: the mustache override is covered.
-/
import Verif.Lemmas.MainLoop
import Verif.Model.Instance

namespace Verif
open Scanner

/-! ## (1) history independence -/

/-- SetReader forgets the previous state completely -/
theorem setReader_eq_start (old : TState) (content : List Rune) :
    old.setReader content = TState.start content := rfl

/-- C05, first half: tokenizing `content` on an instance in an arbitrary earlier state `old`
(mid-stream, with a cached token, in tag mode, after an aborted iteration, …) gives exactly the
tokens of a freshly constructed instance. -/
theorem C05_history_independent (cfg : Cfg) (o : Opts) (old : TState) (content : List Rune) :
    tokenizeOn cfg o old content = tokenize cfg o content := rfl

/-- two instances with different pasts agree -/
theorem C05_history_independent' (cfg : Cfg) (o : Opts) (old1 old2 : TState)
    (content : List Rune) : tokenizeOn cfg o old1 content = tokenizeOn cfg o old2 content := rfl

/-! ## (2) what ReadNextToken leaves behind -/

theorem TState.eta_last (st : TState) (h : st.last = TT.eof) : { st with last := TT.eof } = st := by
  cases st; simp only at h; subst h; rfl

theorem TState.eta_cached (st : TState) (c : Option Tok) (h : st.cached = c) :
    { st with cached := c } = st := by
  cases st; simp only at h; subst h; rfl

theorem TState.eta_s_special (st : TState) (h : st.special = false) :
    { st with s := st.s, special := false } = st := by
  cases st; simp only at h; subst h; rfl

/-- ReadNextToken never touches the cached token or the mustache mode flag (no hypothesis) -/
theorem readNextA_fields (cfg : Cfg) (o : Opts) (f : Nat) (st : TState) :
    (readNextA cfg o f st).2.cached = st.cached ∧ (readNextA cfg o f st).2.special = st.special := by
  induction f generalizing st with
  | zero => exact ⟨rfl, rfl⟩
  | succ f ih =>
    cases hpk : st.s.peek with
    | none =>
      rw [readNextA_none cfg o f st hpk]
      split <;> exact ⟨rfl, rfl⟩
    | some ch =>
      rw [readNextA_some cfg o f st ch hpk]
      cases processRaw cfg o st.last (rawNext cfg ch st.s).1 st.s.peekLine st.s.peekColumn with
      | none => exact ih { st with s := (rawNext cfg ch st.s).2 }
      | some t => exact ⟨rfl, rfl⟩

/-- with enough fuel: the scanner stays well-formed on the same content, and a `nil` answer
means "at the end of the input, Eof already reported (or suppressed)" -/
theorem readNextA_spec (cfg : Cfg) (hc : RawContract cfg) (o : Opts) (f : Nat) (st : TState)
    (hw : st.s.WF) (hf : st.s.content.length + 1 - st.s.pos < f) :
    (readNextA cfg o f st).2.s.WF ∧ (readNextA cfg o f st).2.s.content = st.s.content ∧
    ((readNextA cfg o f st).1 = none →
      (readNextA cfg o f st).2.s.peek = none ∧ (readNextA cfg o f st).2.last = TT.eof) := by
  induction f generalizing st with
  | zero => omega
  | succ f ih =>
    cases hpk : st.s.peek with
    | none =>
      rw [readNextA_none cfg o f st hpk]
      split
      · exact ⟨hw, rfl, fun h => absurd h (by simp)⟩
      · exact ⟨hw, rfl, fun _ => ⟨hpk, rfl⟩⟩
    | some ch =>
      rw [readNextA_some cfg o f st ch hpk]
      have hr := hc st.s ch hw hpk
      cases processRaw cfg o st.last (rawNext cfg ch st.s).1 st.s.peekLine st.s.peekColumn with
      | some t => exact ⟨hr.wf, hr.content, fun h => absurd h (by simp)⟩
      | none =>
        have h1 := hr.content
        have h2 := hr.progress
        have h3 := (peek_some_lt hpk).1
        have := ih { st with s := (rawNext cfg ch st.s).2 } hr.wf
          (by show (rawNext cfg ch st.s).2.content.length + 1 - (rawNext cfg ch st.s).2.pos < f
              rw [h1]; omega)
        exact ⟨this.1, this.2.1.trans h1, this.2.2⟩

/-- an exhausted state is a fixed point of ReadNextToken: `nil` again, nothing changes -/
theorem readNextA_exhausted (cfg : Cfg) (o : Opts) (f : Nat) (st : TState)
    (hpk : st.s.peek = none) (hl : st.last = TT.eof) :
    readNextA cfg o (f+1) st = (none, st) := by
  have hb : (st.last != TT.eof) = false := by rw [hl]; rfl
  rw [readNextA_none cfg o f st hpk]
  simp only [hb, Bool.false_and, Bool.false_eq_true, if_false]
  rw [TState.eta_last st hl]

theorem wf_fuel (s : Scanner) (hw : s.WF) (k : Nat) :
    s.content.length + 1 - s.pos < s.content.length + 1 + (k + 1) := by
  have := hw.1; omega

/-- the text step of MustacheTokenizer.ReadNextToken (only taken in text mode) -/
def spStep (st : TState) : Tok × Scanner :=
  if st.special then specialState (st.s.content.length + 2) st.s
  else ({ typ := TT.special, value := [], line := 0, col := 0 }, st.s)

/-- the mode switch after a closing `}}` / `}}}` -/
def mustacheTail (r : Option Tok × TState) : Option Tok × TState :=
  match r.1 with
  | some t => if t.typ == TT.symbol && isClose t.value then (r.1, { r.2 with special := true }) else r
  | none => r

/-- the text step of the mustache tokenizer keeps the scanner well-formed on the same content -/
theorem specialStep_wf (st : TState) (hw : st.s.WF) :
    (spStep st).2.WF ∧ (spStep st).2.content = st.s.content := by
  unfold spStep
  cases st.special with
  | false => exact ⟨hw, rfl⟩
  | true =>
    simp only [if_true]
    by_cases hp : st.s.pos ≤ st.s.content.length
    · have := specialState_seg_le (st.s.content.length + 2) st.s hw hp (by omega)
      exact ⟨this.wf, this.content⟩
    · have hgt : st.s.pos > st.s.content.length := by omega
      have hrd : st.s.read = (none, st.s) := by
        unfold Scanner.read; rw [if_pos hgt]
      have : (specialState (st.s.content.length + 2) st.s).2 = st.s := by
        unfold specialState
        simp only [hrd, specialLoop]
      rw [this]; exact ⟨hw, rfl⟩

theorem readNext_mustache (cfg : Cfg) (hk : cfg.kind = .mustache) (o : Opts) (st : TState) :
    readNext cfg o st =
      if st.special && !(spStep st).1.value.isEmpty
      then (some (spStep st).1, { st with s := (spStep st).2 })
      else mustacheTail (readNextA cfg o (st.s.content.length + 3)
        { st with s := (spStep st).2, special := false }) := by
  unfold readNext
  rw [hk]
  rfl

/-- ReadNextToken (with the mustache override) on a well-formed state: the scanner stays
well-formed on the same content, the cached token is untouched, and after a `nil` answer the
state is a fixed point: asking again gives `nil` again and changes nothing. -/
theorem readNext_spec (cfg : Cfg) (hc : RawContract cfg) (o : Opts) (st : TState) (hw : st.s.WF) :
    (readNext cfg o st).2.s.WF ∧ (readNext cfg o st).2.s.content = st.s.content ∧
    ((readNext cfg o st).1 = none →
      readNext cfg o (readNext cfg o st).2 = (none, (readNext cfg o st).2)) := by
  by_cases hk : cfg.kind = .mustache
  · -- mustache
    obtain ⟨hspw, hspc⟩ := specialStep_wf st hw
    rw [readNext_mustache cfg hk o st]
    split
    · exact ⟨hspw, hspc, fun h => absurd h (by simp)⟩
    · have hA := readNextA_spec cfg hc o (st.s.content.length + 3)
        { st with s := (spStep st).2, special := false } hspw
        (by show (spStep st).2.content.length + 1 - (spStep st).2.pos < _
            rw [hspc]; omega)
      have hF := readNextA_fields cfg o (st.s.content.length + 3)
        { st with s := (spStep st).2, special := false }
      generalize readNextA cfg o (st.s.content.length + 3)
        { st with s := (spStep st).2, special := false } = r at hA hF
      have hAc : r.2.s.content = st.s.content := hA.2.1.trans hspc
      unfold mustacheTail
      cases hr1 : r.1 with
      | some t =>
        simp only
        split
        · exact ⟨hA.1, hAc, fun h => absurd h (by simp)⟩
        · exact ⟨hA.1, hAc, fun h => absurd h (by rw [hr1]; simp)⟩
      | none =>
        simp only
        refine ⟨hA.1, hAc, fun _ => ?_⟩
        obtain ⟨hpk, hl⟩ := hA.2.2 hr1
        have hsF : r.2.special = false := hF.2
        have hsp : spStep r.2 = ({ typ := TT.special, value := [], line := 0, col := 0 }, r.2.s) := by
          unfold spStep; rw [hsF]; rfl
        rw [readNext_mustache cfg hk o r.2, hsp]
        simp only [hsF, Bool.false_and, Bool.false_eq_true, if_false]
        rw [TState.eta_s_special r.2 hsF, readNextA_exhausted cfg o _ r.2 hpk hl]
        rfl
  · -- the three plain kinds
    rw [readNext_eq cfg hk o st]
    have hA := readNextA_spec cfg hc o (st.s.content.length + 3) st hw (wf_fuel st.s hw 1)
    refine ⟨hA.1, hA.2.1, fun h => ?_⟩
    obtain ⟨hpk, hl⟩ := hA.2.2 h
    rw [readNext_eq cfg hk o]
    exact readNextA_exhausted cfg o _ _ hpk hl

/-- ReadNextToken never touches the cached token (no hypothesis) -/
theorem readNext_cached (cfg : Cfg) (o : Opts) (st : TState) :
    (readNext cfg o st).2.cached = st.cached := by
  by_cases hk : cfg.kind = .mustache
  · rw [readNext_mustache cfg hk o st]
    split
    · rfl
    · have hF := (readNextA_fields cfg o (st.s.content.length + 3)
        { st with s := (spStep st).2, special := false }).1
      unfold mustacheTail
      split
      · split
        · exact hF
        · exact hF
      · exact hF
  · rw [readNext_eq cfg hk o st]
    exact (readNextA_fields cfg o _ st).1

/-! ## (3) HasNextToken -/

/-- after HasNextToken the answer is exactly "a token is cached" -/
theorem hasNext_cached (cfg : Cfg) (o : Opts) (st : TState) :
    (hasNext cfg o st).2.cached.isSome = (hasNext cfg o st).1 := by
  unfold hasNext
  cases hcache : st.cached with
  | some t => simp only [hcache, Option.isSome_some]
  | none => rfl

/-- a negative answer can only come from an empty cache -/
theorem hasNext_false_cached (cfg : Cfg) (o : Opts) (st : TState)
    (h : (hasNext cfg o st).1 = false) : st.cached = none := by
  unfold hasNext at h
  cases hcache : st.cached with
  | some t => rw [hcache] at h; exact absurd h (by simp)
  | none => rfl

/-- HasNextToken with a token in the cache: answers true and changes nothing -/
theorem hasNext_of_cached (cfg : Cfg) (o : Opts) (st : TState) (t : Tok)
    (h : st.cached = some t) : hasNext cfg o st = (true, st) := by
  unfold hasNext; rw [h]

/-- HasNextToken with an empty cache: runs ReadNextToken and caches the answer -/
theorem hasNext_of_empty (cfg : Cfg) (o : Opts) (st : TState) (h : st.cached = none) :
    hasNext cfg o st =
      ((readNext cfg o st).1.isSome, { (readNext cfg o st).2 with cached := (readNext cfg o st).1 }) := by
  unfold hasNext; rw [h]

/-- idempotence, positive case (unconditional): once HasNextToken has answered true, asking
again answers true and leaves the state untouched -/
theorem hasNext_idem_some (cfg : Cfg) (o : Opts) (st : TState)
    (h : (hasNext cfg o st).1 = true) :
    hasNext cfg o (hasNext cfg o st).2 = hasNext cfg o st := by
  have hc := hasNext_cached cfg o st
  rw [h] at hc
  obtain ⟨t, ht⟩ := Option.isSome_iff_exists.mp hc
  rw [hasNext_of_cached cfg o _ t ht]
  exact Prod.ext h.symm rfl

/-- idempotence, negative case: the second call re-runs ReadNextToken on the state the first
call left; on a well-formed state of a configuration meeting `RawContract` that state is
exhausted (end of input, `last = Eof`), so the second call answers false again and changes
nothing. -/
theorem hasNext_idem_none (cfg : Cfg) (hc : RawContract cfg) (o : Opts) (st : TState)
    (hw : st.s.WF) (h : (hasNext cfg o st).1 = false) :
    hasNext cfg o (hasNext cfg o st).2 = hasNext cfg o st := by
  have hcache := hasNext_false_cached cfg o st h
  have hE := hasNext_of_empty cfg o st hcache
  rw [hE] at h
  have hnone : (readNext cfg o st).1 = none := by
    cases hr : (readNext cfg o st).1 with
    | none => rfl
    | some t => rw [hr] at h; exact absurd h (by simp)
  have hst : ({ (readNext cfg o st).2 with cached := (readNext cfg o st).1 } : TState)
      = (readNext cfg o st).2 :=
    TState.eta_cached _ _ (by rw [readNext_cached, hcache, hnone])
  rw [hE, hst]
  have hfix := (readNext_spec cfg hc o st hw).2.2 hnone
  have hcache' : (readNext cfg o st).2.cached = none := by rw [readNext_cached, hcache]
  rw [hasNext_of_empty cfg o _ hcache', hfix, hnone]
  simp only [Option.isSome_none]
  rw [TState.eta_cached _ _ hcache']

/-- HasNextToken is idempotent on every well-formed state -/
theorem hasNext_idem (cfg : Cfg) (hc : RawContract cfg) (o : Opts) (st : TState) (hw : st.s.WF) :
    hasNext cfg o (hasNext cfg o st).2 = hasNext cfg o st := by
  cases h : (hasNext cfg o st).1 with
  | true => exact hasNext_idem_some cfg o st h
  | false => exact hasNext_idem_none cfg hc o st hw h

/-! ## (4) NextToken after HasNextToken -/

/-- C05, transparency, positive case (unconditional): if NextToken would deliver a token, then
NextToken after HasNextToken delivers the same token AND leaves the same state (scanner,
last type, mode, empty cache). -/
theorem C05_hasNext_transparent_some (cfg : Cfg) (o : Opts) (st : TState)
    (hcache : st.cached = none) (t : Tok) (h : (nextTok cfg o st).1 = some t) :
    nextTok cfg o (hasNext cfg o st).2 = nextTok cfg o st := by
  have hnt : nextTok cfg o st = readNext cfg o st := by unfold nextTok; rw [hcache]
  rw [hnt] at h
  rw [hnt, hasNext_of_empty cfg o st hcache]
  unfold nextTok
  simp only [h]
  refine Prod.ext h.symm ?_
  exact TState.eta_cached _ _ (by rw [readNext_cached, hcache])

/-- transparency with a token already cached (unconditional): HasNextToken is the identity -/
theorem C05_hasNext_transparent_cached (cfg : Cfg) (o : Opts) (st : TState) (t : Tok)
    (hcache : st.cached = some t) :
    nextTok cfg o (hasNext cfg o st).2 = nextTok cfg o st := by
  rw [hasNext_of_cached cfg o st t hcache]

/-- C05, transparency, negative case: if NextToken would deliver `nil`, then NextToken after
HasNextToken delivers `nil` too and leaves the same state. -/
theorem C05_hasNext_transparent_none (cfg : Cfg) (hc : RawContract cfg) (o : Opts) (st : TState)
    (hw : st.s.WF) (hcache : st.cached = none) (h : (nextTok cfg o st).1 = none) :
    nextTok cfg o (hasNext cfg o st).2 = nextTok cfg o st := by
  have hnt : nextTok cfg o st = readNext cfg o st := by unfold nextTok; rw [hcache]
  rw [hnt] at h
  rw [hnt, hasNext_of_empty cfg o st hcache]
  have hcache' : (readNext cfg o st).2.cached = none := by rw [readNext_cached, hcache]
  have hst : ({ (readNext cfg o st).2 with cached := (readNext cfg o st).1 } : TState)
      = (readNext cfg o st).2 := TState.eta_cached _ _ (by rw [hcache', h])
  rw [hst]
  have hfix := (readNext_spec cfg hc o st hw).2.2 h
  unfold nextTok
  rw [hcache']
  simp only
  rw [hfix]
  exact Prod.ext h.symm rfl

/-- C05, transparency: on every well-formed state (cache empty or not, token pending or not)
NextToken after HasNextToken = NextToken, result and state -/
theorem C05_hasNext_transparent (cfg : Cfg) (hc : RawContract cfg) (o : Opts) (st : TState)
    (hw : st.s.WF) : nextTok cfg o (hasNext cfg o st).2 = nextTok cfg o st := by
  cases hcache : st.cached with
  | some t => exact C05_hasNext_transparent_cached cfg o st t hcache
  | none =>
    cases h : (nextTok cfg o st).1 with
    | some t => exact C05_hasNext_transparent_some cfg o st hcache t h
    | none => exact C05_hasNext_transparent_none cfg hc o st hw hcache h

/-- HasNextToken keeps the scanner well-formed -/
theorem hasNext_wf (cfg : Cfg) (hc : RawContract cfg) (o : Opts) (st : TState) (hw : st.s.WF) :
    (hasNext cfg o st).2.s.WF := by
  cases hcache : st.cached with
  | some t => rw [hasNext_of_cached cfg o st t hcache]; exact hw
  | none => rw [hasNext_of_empty cfg o st hcache]; exact (readNext_spec cfg hc o st hw).1

/-- any number of HasNextToken calls before NextToken is invisible -/
theorem C05_hasNextN_transparent (cfg : Cfg) (hc : RawContract cfg) (o : Opts) (k : Nat)
    (st : TState) (hw : st.s.WF) :
    nextTok cfg o (hasNextN cfg o k st) = nextTok cfg o st := by
  induction k generalizing st with
  | zero => rfl
  | succ k ih =>
    show nextTok cfg o (hasNextN cfg o k (hasNext cfg o st).2) = _
    rw [ih _ (hasNext_wf cfg hc o st hw)]
    exact C05_hasNext_transparent cfg hc o st hw

/-! ## (5) the whole stream -/

/-- NextToken keeps the scanner well-formed -/
theorem nextTok_wf (cfg : Cfg) (hc : RawContract cfg) (o : Opts) (st : TState) (hw : st.s.WF) :
    (nextTok cfg o st).2.s.WF := by
  unfold nextTok
  cases st.cached with
  | some t => exact hw
  | none => exact (readNext_spec cfg hc o st hw).1

theorem drainH_eq_drain (cfg : Cfg) (hc : RawContract cfg) (o : Opts) (fuel : Nat) :
    ∀ (ks : List Nat) (st : TState), st.s.WF → drainH cfg o ks fuel st = drain cfg o fuel st := by
  induction fuel with
  | zero => intro ks st _; rfl
  | succ f ih =>
    intro ks st hw
    show (match (nextTok cfg o (hasNextN cfg o (ks.headD 0) st)).1 with
      | none => []
      | some t => t :: drainH cfg o ks.tail f (nextTok cfg o (hasNextN cfg o (ks.headD 0) st)).2) = _
    rw [C05_hasNextN_transparent cfg hc o _ st hw, drain_succ]
    cases (nextTok cfg o st).1 with
    | none => rfl
    | some t =>
      simp only
      rw [ih ks.tail _ (nextTok_wf cfg hc o st hw)]

/-- C05, second half: for every configuration meeting `RawContract` (all four built-in ones,
including mustache), every has-next pattern `ks` and every input `c`, the driver that calls
HasNextToken `ks[i]` times before the i-th NextToken produces exactly the tokens of the plain
NextToken loop — with any fuel, in particular `c.length + 3`. -/
theorem C05_drainH_eq_drain (cfg : Cfg) (hc : RawContract cfg) (o : Opts) (ks : List Nat)
    (c : List Rune) :
    drainH cfg o ks (c.length + 3) (TState.start c) = drain cfg o (c.length + 3) (TState.start c) :=
  drainH_eq_drain cfg hc o _ ks _ (new_wf c)

/-- … and therefore equals `tokenize`, also on a re-used instance -/
theorem C05_drainH_eq_tokenize (cfg : Cfg) (hc : RawContract cfg) (o : Opts) (ks : List Nat)
    (old : TState) (c : List Rune) :
    drainH cfg o ks (c.length + 3) (old.setReader c) = tokenize cfg o c :=
  C05_drainH_eq_drain cfg hc o ks c

theorem C05_generic (o : Opts) (ks : List Nat) (old : TState) (c : List Rune) :
    drainH genericCfg o ks (c.length + 3) (old.setReader c) = tokenize genericCfg o c :=
  C05_drainH_eq_tokenize _ rawContract_generic o ks old c

theorem C05_expression (o : Opts) (ks : List Nat) (old : TState) (c : List Rune) :
    drainH expressionCfg o ks (c.length + 3) (old.setReader c) = tokenize expressionCfg o c :=
  C05_drainH_eq_tokenize _ rawContract_expression o ks old c

theorem C05_csv (seps quotes : List Rune) (o : Opts) (ks : List Nat) (old : TState) (c : List Rune) :
    drainH (csvCfg seps quotes) o ks (c.length + 3) (old.setReader c)
      = tokenize (csvCfg seps quotes) o c :=
  C05_drainH_eq_tokenize _ (rawContract_csv seps quotes) o ks old c

theorem C05_mustache (o : Opts) (ks : List Nat) (old : TState) (c : List Rune) :
    drainH mustacheCfg o ks (c.length + 3) (old.setReader c) = tokenize mustacheCfg o c :=
  C05_drainH_eq_tokenize _ rawContract_mustache o ks old c

/-! ## non-vacuity (kernel-evaluated) -/

/-- `<=` with the has-next pattern 2, 0, 1 (the third query happens AFTER the end of the stream) -/
example : drainH expressionCfg Opts.allOff [2, 0, 1] 5 (TState.start [60, 61])
    = [⟨TT.symbol, [60, 61], 1, 1⟩, ⟨TT.eof, [], 1, 3⟩] := by decide

example : tokenize expressionCfg Opts.allOff [60, 61]
    = [⟨TT.symbol, [60, 61], 1, 1⟩, ⟨TT.eof, [], 1, 3⟩] := by decide

/-- an instance that was left mid-stream, in tag mode, with a cached token (`{{a` after one
HasNextToken + NextToken + HasNextToken), re-used for `<=` -/
example :
    tokenizeOn expressionCfg Opts.allOff
      (hasNext mustacheCfg Opts.allOff
        (nextTok mustacheCfg Opts.allOff
          (hasNext mustacheCfg Opts.allOff (TState.start [123, 123, 97])).2).2).2 [60, 61]
    = [⟨TT.symbol, [60, 61], 1, 1⟩, ⟨TT.eof, [], 1, 3⟩] := by decide

/-- … and that earlier state really is "dirty": tag mode, a cached token, scanner advanced -/
example :
    let old := (hasNext mustacheCfg Opts.allOff
        (nextTok mustacheCfg Opts.allOff
          (hasNext mustacheCfg Opts.allOff (TState.start [123, 123, 97])).2).2).2
    old.special = false ∧ old.cached.isSome = true ∧ old.s.pos ≠ 0 := by decide

/-- mustache, text + tag, has-next pattern 3, 1, 0, 2 -/
example : drainH mustacheCfg Opts.allOff [3, 1, 0, 2] 8 (TState.start [120, 123, 123, 97, 125, 125])
    = tokenize mustacheCfg Opts.allOff [120, 123, 123, 97, 125, 125] := by decide

end Verif
