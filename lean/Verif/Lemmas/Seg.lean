/-
Segment lemmas: every reading loop / tokenizer state moves a *contiguous slice* of the content
across the cursor, and that slice is exactly the token value.  Foundation for C04 (lossless),
C12 (positions) and C15 (fuel sufficiency).
-/
import Verif.Model.States
import Verif.Props.C11

namespace Verif
open Scanner

/-- `slice c a b` = the runes of `c` at offsets `a ≤ i < b`. -/
def slice (c : List Rune) (a b : Nat) : List Rune := (c.take b).drop a

theorem slice_self (c : List Rune) (a : Nat) : slice c a a = [] := by
  simp [slice]

theorem slice_succ (c : List Rune) (a k : Nat) (hk : k < c.length) (ha : a ≤ k) :
    slice c a (k+1) = slice c a k ++ [c[k]] := by
  unfold slice
  rw [List.take_succ_eq_append_getElem hk, List.drop_append_of_le_length]
  simp; omega

/-- number of real characters consumed by a scanner (the EOF slot is not a character) -/
def Scanner.chars (s : Scanner) : Nat := min s.pos s.content.length

/-! ### basic facts about `read` / `unread` on well-formed scanners -/

theorem read_pos_lt (s : Scanner) (h : s.pos < s.content.length) :
    (s.read).1 = some (s.content[s.pos]'h) ∧ (s.read).2.pos = s.pos + 1 := by
  have := C11_read_spec s
  simp [h, Nat.le_of_lt h] at this
  exact this

theorem read_pos_eq (s : Scanner) (h : s.pos = s.content.length) :
    (s.read).1 = none ∧ (s.read).2.pos = s.pos + 1 := by
  have := C11_read_spec s
  simp [h] at this
  simpa [h] using this

theorem read_pos_gt (s : Scanner) (h : s.pos > s.content.length) :
    (s.read).1 = none ∧ (s.read).2.pos = s.pos := by
  have := C11_read_spec s
  have h1 : ¬ s.pos < s.content.length := by omega
  have h2 : ¬ s.pos ≤ s.content.length := by omega
  simp [h1, h2] at this
  exact this

theorem unread_pos (s : Scanner) : s.unread.pos = s.pos - 1 := by
  unfold unread
  split
  · rename_i h; simp [h]
  · split
    · rfl
    · split <;> rfl

theorem slot_pos (c : List Rune) (k : Nat) (h : 0 < k) : slot c k = c[k-1]? := by
  unfold slot
  have : ¬ k = 0 := by omega
  simp [this]

theorem peek_eq (s : Scanner) : s.peek = s.content[s.pos]? := by
  unfold peek; rw [slot_pos _ _ (by omega)]; simp

/-- loop invariant shared by all reading loops: `acc` plus the pending look-ahead character is
the slice from the token start `p0` to the characters consumed so far. -/
structure LoopInv (c : List Rune) (p0 : Nat) (acc : List Rune) (nx : Option Rune) (s : Scanner) : Prop where
  content : s.content = c
  wf : s.WF
  started : p0 < s.pos
  nxIs : nx = slot c s.pos
  seg : acc ++ nx.toList = slice c p0 (min s.pos c.length)

/-- what a finished state guarantees -/
structure SegOK (c : List Rune) (p0 : Nat) (v : List Rune) (s' : Scanner) : Prop where
  content : s'.content = c
  wf : s'.WF
  mono : p0 ≤ s'.pos
  seg : v = slice c p0 (min s'.pos c.length)

theorem LoopInv.pos_le {c : List Rune} {p0 : Nat} {acc : List Rune} {ch : Rune} {s : Scanner}
    (h : LoopInv c p0 acc (some ch) s) : s.pos ≤ c.length ∧ c[s.pos - 1]? = some ch := by
  have h1 := h.nxIs
  rw [slot_pos _ _ (by have := h.started; omega)] at h1
  have h2 := h1.symm
  refine ⟨?_, h2⟩
  obtain ⟨hlt, _⟩ := List.getElem?_eq_some_iff.mp h2
  have := h.started
  omega

theorem LoopInv.eof {c : List Rune} {p0 : Nat} {acc : List Rune} {s : Scanner}
    (h : LoopInv c p0 acc none s) : s.pos = c.length + 1 := by
  have h1 := h.nxIs
  rw [slot_pos _ _ (by have := h.started; omega)] at h1
  have := List.getElem?_eq_none_iff.mp h1.symm
  have hw := h.wf.1
  rw [h.content] at hw
  have := h.started
  omega

/-- reading one more character after appending the pending one keeps the invariant -/
theorem LoopInv.step {c : List Rune} {p0 : Nat} {acc : List Rune} {ch : Rune} {s : Scanner}
    (h : LoopInv c p0 acc (some ch) s) :
    LoopInv c p0 (acc ++ [ch]) (s.read).1 (s.read).2 := by
  obtain ⟨hle, hget⟩ := h.pos_le
  have hc := h.content
  have hst := h.started
  have hseg := h.seg
  simp only [Option.toList_some] at hseg
  have hmin : min s.pos c.length = s.pos := by omega
  rw [hmin] at hseg
  by_cases hlt : s.pos < c.length
  · have hr := read_pos_lt s (by rw [hc]; exact hlt)
    refine ⟨by rw [read_content, hc], read_wf s h.wf, by rw [hr.2]; omega, ?_, ?_⟩
    · rw [hr.1, hr.2, slot_pos _ _ (by omega)]
      simp [hc, List.getElem?_eq_getElem hlt]
    · rw [hr.1, hr.2]
      have : min (s.pos + 1) c.length = s.pos + 1 := by omega
      rw [this, slice_succ c p0 s.pos hlt (by omega), ← hseg]
      simp [hc]
  · have heq : s.pos = c.length := by omega
    have hr := read_pos_eq s (by rw [hc]; exact heq)
    refine ⟨by rw [read_content, hc], read_wf s h.wf, by rw [hr.2]; omega, ?_, ?_⟩
    · rw [hr.1, hr.2, slot_pos _ _ (by omega)]
      simp; omega
    · rw [hr.1, hr.2]
      have : min (s.pos + 1) c.length = s.pos := by omega
      rw [this]
      simpa using hseg

/-- the invariant right after the first `read` of a state entered at `s` -/
theorem LoopInv.first (s : Scanner) (hw : s.WF) (hp : s.pos ≤ s.content.length) :
    LoopInv s.content s.pos [] (s.read).1 (s.read).2 := by
  by_cases hlt : s.pos < s.content.length
  · have hr := read_pos_lt s hlt
    refine ⟨read_content s, read_wf s hw, by rw [hr.2]; omega, ?_, ?_⟩
    · rw [hr.1, hr.2, slot_pos _ _ (by omega)]
      simp [List.getElem?_eq_getElem hlt]
    · rw [hr.1, hr.2]
      have : min (s.pos + 1) s.content.length = s.pos + 1 := by omega
      rw [this, slice_succ _ _ _ hlt (Nat.le_refl _), slice_self]
      simp
  · have heq : s.pos = s.content.length := by omega
    have hr := read_pos_eq s heq
    refine ⟨read_content s, read_wf s hw, by rw [hr.2]; omega, ?_, ?_⟩
    · rw [hr.1, hr.2, slot_pos _ _ (by omega)]
      simp; omega
    · rw [hr.1, hr.2]
      have : min (s.pos + 1) s.content.length = s.pos := by omega
      rw [this, slice_self]
      simp

/-- `readWhile` keeps the invariant, for every fuel -/
theorem readWhile_inv (p : Rune → Bool) (f : Nat) {c : List Rune} {p0 : Nat} (acc : List Rune)
    (nx : Option Rune) (s : Scanner) (h : LoopInv c p0 acc nx s) :
    LoopInv c p0 (readWhile p f acc nx s).acc (readWhile p f acc nx s).nx (readWhile p f acc nx s).s := by
  induction f generalizing acc nx s with
  | zero => simpa [readWhile] using h
  | succ f ih =>
    cases nx with
    | none => simpa [readWhile] using h
    | some ch =>
      simp only [readWhile]
      split
      · exact ih _ _ _ h.step
      · exact h

/-- `if !eof { Unread() }` turns the loop invariant into the finished-state guarantee -/
theorem LoopInv.finish {c : List Rune} {p0 : Nat} {acc : List Rune} {nx : Option Rune} {s : Scanner}
    (h : LoopInv c p0 acc nx s) : SegOK c p0 acc (unreadIfNotEof nx s) := by
  cases nx with
  | none =>
    have he := h.eof
    have hseg := h.seg
    simp only [Option.toList_none, List.append_nil] at hseg
    exact ⟨h.content, h.wf, by have := h.started; simp [unreadIfNotEof]; omega, by simpa [unreadIfNotEof] using hseg⟩
  | some ch =>
    obtain ⟨hle, hget⟩ := h.pos_le
    have hst := h.started
    have hseg := h.seg
    simp only [Option.toList_some] at hseg
    have hmin : min s.pos c.length = s.pos := by omega
    rw [hmin] at hseg
    have hlt : s.pos - 1 < c.length := by omega
    have hsl := slice_succ c p0 (s.pos - 1) hlt (by omega)
    have e : s.pos - 1 + 1 = s.pos := by omega
    rw [e] at hsl
    have hch : c[s.pos - 1]'hlt = ch := by
      have e2 := List.getElem?_eq_getElem hlt
      rw [e2] at hget; exact Option.some.inj hget
    rw [hsl, hch] at hseg
    have hacc : acc = slice c p0 (s.pos - 1) := List.append_cancel_right hseg
    refine ⟨by simp [unreadIfNotEof, unread_content, h.content], by simp [unreadIfNotEof]; exact unread_wf s h.wf,
      by simp [unreadIfNotEof, unread_pos]; omega, ?_⟩
    simp only [unreadIfNotEof, Option.isSome_some, if_true, unread_pos]
    have : min (s.pos - 1) c.length = s.pos - 1 := by omega
    rw [this]; exact hacc

/-- **span states** (word, whitespace, `#` comment): value = the slice moved across the cursor -/
theorem spanState_seg (typ : Nat) (p : Rune → Bool) (f : Nat) (s : Scanner) (hw : s.WF)
    (hp : s.pos ≤ s.content.length) :
    SegOK s.content s.pos (spanState typ p f s).1.value (spanState typ p f s).2 := by
  unfold spanState
  exact (readWhile_inv p f [] _ _ (LoopInv.first s hw hp)).finish

end Verif
