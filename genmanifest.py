#!/usr/bin/env python3
"""Regenerates MANIFEST.json from propcfg.PROPS + manifest_extra (single source of truth)."""
import json, os, sys
ROOT = os.path.dirname(os.path.abspath(__file__))
sys.path.insert(0, ROOT)
from propcfg import PROPS
from manifest_extra import LEVEL, NOT_APPLICABLE, HOOK_COMMITS

allp = [json.loads(l)["id"] for l in open(os.path.join(ROOT, "properties.jsonl"))]
checks = []
for pid in allp:
    if pid not in PROPS:
        continue
    lv = LEVEL[pid]
    checks.append({
        "property_id": pid,
        "quick_cmd": f"./check {pid} quick",
        "thorough_cmd": f"./check {pid} thorough",
        "evidence_file": f"/verif/evidence/{pid}.json",
        "replay_cmd_template": f"./check {pid} --replay {{path}}",
        "engine": "lean4-model+go-differential",
        "level_claimed": {"category": "proof", "text": lv["text"], "design_ref": lv["design_ref"]},
        "level_note": lv["note"],
        "technique": lv["technique"],
    })
na = [{"property_id": p, "reason": NOT_APPLICABLE.get(p, "not claimed yet: the Lean model and check for this property are still under construction (see DESIGN.md section 5 staging); no technique switch is intended")} for p in allp if p not in PROPS]
man = {
    "version": 1,
    "setup_cmd": "./setup.sh",
    "hooks": {
        "guard": "verif",
        "enable": "go build -tags verif (the harness is always built with the tag; no guarded source exists in /repo at present)",
        "baseline_off_cmd": "cd /repo && GOFLAGS=-mod=mod GOPROXY=off GOSUMDB=off GOTOOLCHAIN=local go test -vet=off -count=1 ./...",
        "source_commits": HOOK_COMMITS,
        "add_only": True,
    },
    "engines": [{
        "name": "lean4-model+go-differential",
        "path": "/verif/check",
        "serves_properties": [c["property_id"] for c in checks],
        "kind_free_text": "Lean 4 executable model + theorems (lean/), Go harness running the real code in-process against the compiled model and direct oracles (harness/), Python orchestration (check)",
    }],
    "checks": checks,
    "not_applicable": na,
    "notes": "All checks share one entry point ./check <id> <tier>; see DESIGN.md. Every violation line is backed by a replay file under replays/.",
}
json.dump(man, open(os.path.join(ROOT, "MANIFEST.json"), "w"), indent=1)
print("claimed:", [c["property_id"] for c in checks])
