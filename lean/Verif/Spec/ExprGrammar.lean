/-
SPEC for C01 / C02: the expression grammar as a syntax tree with an explicit level discipline,
its token sequence (`unparse`), its post-order (`postorder`) and the direct tree evaluator.

Precedence table (lowest first):
  0  AND OR XOR              (binary, left-assoc)
  1  prefix NOT
  2  = <> > < >= <=          (binary, left-assoc)
  3  + - LIKE, NOT LIKE, NOT IN (binary, left-assoc); postfix IS NULL, IS NOT NULL
  4  * / %                   (binary, left-assoc)
  5  ^ IN << >>              (binary, left-assoc)
  6  index suffix  e[i]
  7  unary sign    -p  +p
  8  primary: constant, variable, ( e ), f(args)
-/
import Verif.Model.ExprParser
import Verif.Model.ExprEval

namespace Verif

mutual
inductive Expr (κ : Type) where
  | const (v : κ)
  | var (name : List Rune)
  | paren (e : Expr κ)
  | call (name : List Rune) (args : Args κ)
  | neg (e : Expr κ)
  | pos (e : Expr κ)
  | index (e : Expr κ) (i : Expr κ)
  | bin (op : ET) (l : Expr κ) (r : Expr κ)
  | notLike (l : Expr κ) (r : Expr κ)
  | notIn (l : Expr κ) (r : Expr κ)
  | not (e : Expr κ)
  | isNull (e : Expr κ)
  | isNotNull (e : Expr κ)
inductive Args (κ : Type) where
  | nil
  | cons (e : Expr κ) (rest : Args κ)
end

namespace Expr
variable {κ : Type}

/-- level of a binary operator token, `none` if it is not a (single-token) binary operator -/
def opLevel (op : ET) : Option Nat :=
  if Parser.ops0.contains op then some 0
  else if Parser.ops2.contains op then some 2
  else if Parser.ops3.contains op then some 3
  else if Parser.ops4.contains op then some 4
  else if Parser.ops5.contains op then some 5
  else none

def lvl : Expr κ → Nat
  | .const _ => 8 | .var _ => 8 | .paren _ => 8 | .call _ _ => 8
  | .neg _ => 7 | .pos _ => 7
  | .index _ _ => 6
  | .bin op _ _ => (opLevel op).getD 0
  | .notLike _ _ => 3 | .notIn _ _ => 3
  | .not _ => 1
  | .isNull _ => 3 | .isNotNull _ => 3

mutual
/-- well-levelled: every operand sits at a level its position allows without parentheses
(left operands ≥ the operator's level, right operands strictly above it) -/
def wl : Expr κ → Bool
  | .const _ => true
  | .var _ => true
  | .paren e => wl e
  | .call _ args => wlArgs args
  | .neg e => wl e && lvl e == 8
  | .pos e => wl e && lvl e == 8
  | .index e i => wl e && wl i && lvl e ≥ 7
  | .bin op l r =>
    match opLevel op with
    | some k => wl l && wl r && lvl l ≥ k && lvl r ≥ k + 1
    | none => false
  | .notLike l r => wl l && wl r && lvl l ≥ 3 && lvl r ≥ 4
  | .notIn l r => wl l && wl r && lvl l ≥ 3 && lvl r ≥ 4
  | .not e => wl e && lvl e ≥ 2
  | .isNull e => wl e && lvl e ≥ 3
  | .isNotNull e => wl e && lvl e ≥ 3
def wlArgs : Args κ → Bool
  | .nil => true
  | .cons e rest => wl e && wlArgs rest
end

def tk (t : ET) : ETok κ := ⟨t, [], none, 0⟩

mutual
/-- the token sequence of a tree (what the tokenizer + lexical analysis deliver) -/
def unparse : Expr κ → List (ETok κ)
  | .const v => [⟨.constant, [], some v, 0⟩]
  | .var n => [⟨.variable, n, none, 0⟩]
  | .paren e => [tk .leftBrace] ++ unparse e ++ [tk .rightBrace]
  | .call n args => [⟨.variable, n, none, 0⟩, tk .leftBrace] ++ unparseArgs args ++ [tk .rightBrace]
  | .neg e => [tk .minus] ++ unparse e
  | .pos e => [tk .plus] ++ unparse e
  | .index e i => unparse e ++ [tk .leftSquareBrace] ++ unparse i ++ [tk .rightSquareBrace]
  | .bin op l r => unparse l ++ [tk op] ++ unparse r
  | .notLike l r => unparse l ++ [tk .not, tk .like] ++ unparse r
  | .notIn l r => unparse l ++ [tk .not, tk .in_] ++ unparse r
  | .not e => [tk .not] ++ unparse e
  | .isNull e => unparse e ++ [tk .is, tk .null]
  | .isNotNull e => unparse e ++ [tk .is, tk .not, tk .null]
def unparseArgs : Args κ → List (ETok κ)
  | .nil => []
  | .cons e .nil => unparse e
  | .cons e rest => unparse e ++ [tk .comma] ++ unparseArgs rest
end

def argsLength : Args κ → Nat
  | .nil => 0
  | .cons _ rest => argsLength rest + 1

mutual
/-- the post-order the parser must compile a tree to -/
def postorder : Expr κ → List (ETok κ)
  | .const v => [⟨.constant, [], some v, 0⟩]
  | .var n => [⟨.variable, n, none, 0⟩]
  | .paren e => postorder e
  | .call n args => postorderArgs args ++ [⟨.constant, [], none, argsLength args⟩, ⟨.function, n, none, 0⟩]
  | .neg e => postorder e ++ [tk .unary]
  | .pos e => postorder e
  | .index e i => postorder e ++ postorder i ++ [tk .element]
  | .bin op l r => postorder l ++ postorder r ++ [tk op]
  | .notLike l r => postorder l ++ postorder r ++ [tk .notLike]
  | .notIn l r => postorder l ++ postorder r ++ [tk .notIn]
  | .not e => postorder e ++ [tk .not]
  | .isNull e => postorder e ++ [tk .isNull]
  | .isNotNull e => postorder e ++ [tk .isNotNull]
def postorderArgs : Args κ → List (ETok κ)
  | .nil => []
  | .cons e rest => postorder e ++ postorderArgs rest
end

def addVars (vars : List (List Rune)) : List (List Rune) → List (List Rune)
  | [] => vars
  | n :: ns => addVars (Parser.addVar vars n) ns

mutual
/-- identifiers in variable position, in written order (with repetitions) -/
def varOcc : Expr κ → List (List Rune)
  | .const _ => []
  | .var n => [n]
  | .paren e => varOcc e
  | .call _ args => varOccArgs args
  | .neg e => varOcc e
  | .pos e => varOcc e
  | .index e i => varOcc e ++ varOcc i
  | .bin _ l r => varOcc l ++ varOcc r
  | .notLike l r => varOcc l ++ varOcc r
  | .notIn l r => varOcc l ++ varOcc r
  | .not e => varOcc e
  | .isNull e => varOcc e
  | .isNotNull e => varOcc e
def varOccArgs : Args κ → List (List Rune)
  | .nil => []
  | .cons e rest => varOcc e ++ varOccArgs rest
end


/-! ### the direct tree evaluator (C01's reference semantics) -/
variable {V : Type}

def evalList (f : Expr κ → Out V) : List (Expr κ) → Out (List V)
  | [] => .ok []
  | e :: es => (f e).bind fun v => (evalList f es).bind fun vs => .ok (v :: vs)

mutual
/-- value of the syntax tree: each node applies its variant operation to its operands in written
order, operands evaluated left to right; parentheses and unary plus are the identity -/
def evalTree (env : EvalEnv κ V) : Expr κ → Out V
  | .const v => .ok (env.ofConst v)
  | .var n =>
    match env.lookupVar n with
    | some v => .ok v
    | none => .err "VAR_NOT_FOUND"
  | .paren e => evalTree env e
  | .call n args =>
    (evalArgs env args).bind fun vs =>
      if env.hasFn n then env.callFn n vs else .err "FUNC_NOT_FOUND"
  | .neg e => (evalTree env e).bind fun v => env.unop .unary v
  | .pos e => evalTree env e
  | .index e i => (evalTree env e).bind fun v => (evalTree env i).bind fun w => env.binop .element v w
  | .bin op l r => (evalTree env l).bind fun v => (evalTree env r).bind fun w =>
      if binaryTypes.contains op then env.binop op v w else .err "INTERNAL"
  | .notLike l r => (evalTree env l).bind fun _ => (evalTree env r).bind fun _ => .err "INTERNAL"
  | .notIn l r => (evalTree env l).bind fun v => (evalTree env r).bind fun w => env.binop .notIn v w
  | .not e => (evalTree env e).bind fun v => env.unop .not v
  | .isNull e => (evalTree env e).bind fun v => env.unop .isNull v
  | .isNotNull e => (evalTree env e).bind fun v => env.unop .isNotNull v
def evalArgs (env : EvalEnv κ V) : Args κ → Out (List V)
  | .nil => .ok []
  | .cons e rest => (evalTree env e).bind fun v => (evalArgs env rest).bind fun vs => .ok (v :: vs)
end

end Expr
end Verif
