package main

import (
	"fmt"
	"sort"
	"strings"
	"time"

	"github.com/pip-services3-gox/pip-services3-expressions-gox/mustache"
	mparsers "github.com/pip-services3-gox/pip-services3-expressions-gox/mustache/parsers"
)

// C10 mustache rendering; template parts of C03 / C05 / C18 / C19

type tnode struct {
	k     byte // t text, v var, e escaped, c comment, s section, i inverted
	text  string
	open  string // spelling of the opening tag
	close string // spelling of the closing tag
	kids  []*tnode
}

var tplNames = []string{"a", "B", "name", "NAME", "x_1", "Жук", "éa", "Flag"}

func (g *exGen) tplText(afterTag, beforeTag bool) string {
	pool := []string{"a", "b ", " ", "\n", "x{y", "}z", "1/2", "\"q\"", "\\", "é世", ".", ",", "#", "if", "\t", "{ }", "}}"}
	n := 1 + g.c.Rng.Intn(4)
	var sb strings.Builder
	for i := 0; i < n; i++ {
		sb.WriteString(pool[g.c.Rng.Intn(len(pool))])
	}
	s := sb.String()
	for afterTag && strings.HasPrefix(s, "}") {
		s = "_" + s
	}
	for beforeTag && strings.HasSuffix(s, "{") {
		s = s + "_"
	}
	return s
}

func sp(c *Ctx) string { return []string{"", "", " ", "  "}[c.Rng.Intn(4)] }

func (g *exGen) genTpl(depth int, n int, inSection ...bool) []*tnode {
	afterOpen := len(inSection) > 0 && inSection[0]
	var out []*tnode
	for i := 0; i < n; i++ {
		r := g.c.Rng.Intn(10)
		if len(out) > 0 && out[len(out)-1].k == 't' && r < 3 {
			r = 5 // no adjacent text nodes
		}
		name := tplNames[g.c.Rng.Intn(len(tplNames))]
		switch {
		case r < 3:
			out = append(out, &tnode{k: 't', text: g.tplText(len(out) > 0 || afterOpen, true)})
		case r < 5:
			out = append(out, &tnode{k: 'v', text: name, open: "{{" + sp(g.c) + name + sp(g.c) + "}}"})
		case r < 6:
			out = append(out, &tnode{k: 'e', text: name, open: "{{{" + sp(g.c) + name + sp(g.c) + "}}}"})
		case r < 7:
			body := []string{"", " note ", "todo: x, y", "a b c"}[g.c.Rng.Intn(4)]
			br := [][2]string{{"{{", "}}"}, {"{{{", "}}}"}}[g.c.Rng.Intn(2)]
			out = append(out, &tnode{k: 'c', open: br[0] + sp(g.c) + "!" + body + br[1]})
		default:
			if depth <= 0 {
				out = append(out, &tnode{k: 'v', text: name, open: "{{" + name + "}}"})
				continue
			}
			br := [][2]string{{"{{", "}}"}, {"{{", "}}"}, {"{{{", "}}}"}}[g.c.Rng.Intn(3)]
			br2 := [][2]string{{"{{", "}}"}, {"{{", "}}"}, {"{{{", "}}}"}}[g.c.Rng.Intn(3)]
			nd := &tnode{text: name}
			switch g.c.Rng.Intn(4) {
			case 0:
				nd.k = 's'
				nd.open = br[0] + sp(g.c) + "#" + sp(g.c) + name + sp(g.c) + br[1]
			case 1:
				nd.k = 's'
				nd.open = br[0] + sp(g.c) + "#if " + name + sp(g.c) + br[1]
			case 2:
				nd.k = 'i'
				nd.open = br[0] + sp(g.c) + "^" + name + sp(g.c) + br[1]
			default:
				nd.k = 'i'
				nd.open = br[0] + "#unless " + name + sp(g.c) + br[1]
			}
			switch g.c.Rng.Intn(4) {
			case 0:
				nd.close = br2[0] + "/" + name + br2[1]
			case 1:
				nd.close = br2[0] + sp(g.c) + "/if" + sp(g.c) + br2[1]
			case 2:
				nd.close = br2[0] + "/unless" + br2[1]
			default:
				nd.close = br2[0] + "/ " + name + " " + br2[1]
			}
			nd.kids = g.genTpl(depth-1, g.c.Rng.Intn(4), true)
			out = append(out, nd)
		}
	}
	return out
}

func printTpl(ns []*tnode) string {
	var sb strings.Builder
	for _, n := range ns {
		switch n.k {
		case 't':
			sb.WriteString(n.text)
		case 'v', 'e', 'c':
			sb.WriteString(n.open)
		default:
			sb.WriteString(n.open)
			sb.WriteString(printTpl(n.kids))
			sb.WriteString(n.close)
		}
	}
	return sb.String()
}

// the (repaired) deterministic lookup: exact key, else the smallest case-insensitive match
func refGet(vars map[string]string, name string) (string, bool) {
	if v, ok := vars[name]; ok {
		return v, true
	}
	best, found := "", false
	for k := range vars {
		if strings.ToLower(k) == strings.ToLower(name) && (!found || k < best) {
			best, found = k, true
		}
	}
	if found {
		return vars[best], true
	}
	return "", false
}

func jsonEscape(s string) string {
	var sb strings.Builder
	for i := 0; i < len(s); i++ {
		// byte by byte: the escaped characters are ASCII, everything else (also bytes that are no valid UTF-8) is copied
		switch r := s[i]; r {
		case '\\':
			sb.WriteString("\\\\")
		case '"':
			sb.WriteString("\\\"")
		case '/':
			sb.WriteString("\\/")
		case '\b':
			sb.WriteString("\\b")
		case '\f':
			sb.WriteString("\\f")
		case '\n':
			sb.WriteString("\\n")
		case '\r':
			sb.WriteString("\\r")
		case '\t':
			sb.WriteString("\\t")
		default:
			sb.WriteByte(r)
		}
	}
	return sb.String()
}

func refRender(ns []*tnode, vars map[string]string) string {
	var sb strings.Builder
	for _, n := range ns {
		v, ok := refGet(vars, n.text)
		switch n.k {
		case 't':
			sb.WriteString(n.text)
		case 'v':
			sb.WriteString(v)
		case 'e':
			sb.WriteString(jsonEscape(v))
		case 's':
			if ok && v != "" {
				sb.WriteString(refRender(n.kids, vars))
			}
		case 'i':
			if !(ok && v != "") {
				sb.WriteString(refRender(n.kids, vars))
			}
		}
	}
	return sb.String()
}

func encTplTree(ts []*mparsers.MustacheToken) string {
	var parts []string
	for _, t := range ts {
		s := fmt.Sprintf("%d:%s", t.Type(), strRunes(t.Value()))
		if t.Type() == mparsers.TokenSection || t.Type() == mparsers.TokenInvertedSection {
			s += "{" + encTplTree(t.Tokens()) + "}"
		}
		parts = append(parts, s)
	}
	return strings.Join(parts, " ")
}

func varsStr(vars map[string]string) string {
	keys := make([]string, 0, len(vars))
	for k := range vars {
		keys = append(keys, k)
	}
	sort.Strings(keys)
	var p []string
	for _, k := range keys {
		p = append(p, strRunes(k)+"="+strRunes(vars[k]))
	}
	return strings.Join(p, " ")
}

type tplOut struct {
	status string
	code   string
	tree   string
	vars   []string
	render string
	rcode  string
}

func runTemplate(src string, vars map[string]string) tplOut {
	var o tplOut
	o.status = safeCallT(3*time.Second, func() string {
		t := mustache.NewMustacheTemplate()
		t.SetAutoVariables(false)
		err := t.SetTemplate(src)
		if err != nil {
			o.code = errCode(err)
			return ""
		}
		o.tree = encTplTree(t.ResultTokens())
		p := mparsers.NewMustacheParser()
		p.ParseString(src)
		o.vars = p.VariableNames()
		r, err := t.EvaluateWithVariables(vars)
		if err != nil {
			o.rcode = errCode(err)
			if r != "" {
				o.rcode = "both"
			}
		} else {
			o.render = r
		}
		return ""
	})
	return o
}

func trimTplAST(ns []*tnode) []*tnode {
	// SetTemplate trims blanks around the whole template: only a leading / trailing text node is affected
	out := append([]*tnode(nil), ns...)
	if len(out) > 0 && out[0].k == 't' {
		c := *out[0]
		c.text = strings.TrimLeft(c.text, " \t\r\n")
		out[0] = &c
	}
	if len(out) > 0 && out[len(out)-1].k == 't' {
		c := *out[len(out)-1]
		c.text = strings.TrimRight(c.text, " \t\r\n")
		out[len(out)-1] = &c
	}
	return out
}

func runTplCase(c *Ctx, ast []*tnode, src string, vars map[string]string, label string) {
	op := strings.TrimSpace(fmt.Sprintf("tpl %s ; %s", strRunes(src), varsStr(vars)))
	o := runTemplate(src, vars)
	c.record(op, len(src) > 8)
	c.count(label)
	if o.status != "" || o.rcode == "both" {
		c.fail(Failure{Kind: "oracle", Op: op, Impl: o.status + o.rcode, Note: fmt.Sprintf("template %q did not yield exactly one of a rendering or an error", src)})
		return
	}
	impl := "ok " + strRunes(o.render)
	if o.code != "" {
		impl = "err " + o.code
	} else if o.rcode != "" {
		impl = "err " + o.rcode
	}
	if c.Prop == "C10" {
		reuseTpl(c, tplStep{src, vars}, impl)
		if c.Evals%2 == 0 {
			checkTplEntryPoints(c, src, vars, impl)
		}
	}
	if ast != nil {
		if o.code != "" || o.rcode != "" {
			c.fail(Failure{Kind: "oracle", Op: op, Impl: impl, Note: fmt.Sprintf("well-formed template %q was rejected", src)})
			return
		}
		want := refRender(trimTplAST(ast), vars)
		if want != o.render {
			c.fail(Failure{Kind: "oracle", Op: op, Impl: impl, Note: fmt.Sprintf("template %q rendered %q, the reference semantics gives %q", src, o.render, want)})
			return
		}
	}
	if strings.HasPrefix(impl, "err") {
		c.count("tpl-outcome:" + impl)
		c.model(op, "err", "errprefix")
	} else {
		c.count("tpl-outcome:ok")
		c.model(op, impl, "model")
		c.model("tplparse "+strRunes(src), "ok "+o.tree+" ; "+namesStr(o.vars), "model")
	}
}

func namesStr(ns []string) string {
	if len(ns) == 0 {
		return "-"
	}
	return strings.Join(mapStr(ns, strRunes), " ")
}

func randVars(c *Ctx) map[string]string {
	vals := []string{"", "1", "Alex", "a/b", "\"q\"\n", "\\t\t", "é世", "x", " ", "{{a}}", "a\tb", "\t", "\b", "\f", "\r", "\n", "/", "\\", "\""}
	m := map[string]string{}
	for _, n := range tplNames {
		switch c.Rng.Intn(5) {
		case 0: // absent
		case 1:
			m[n] = ""
		default:
			k := n
			switch c.Rng.Intn(3) {
			case 0:
				k = strings.ToUpper(n)
			case 1:
				k = strings.ToLower(n)
			}
			m[k] = vals[c.Rng.Intn(len(vals))]
			if c.Rng.Intn(6) == 0 {
				// a second key that differs in letter case only, holding another value
				for _, k2 := range []string{strings.ToUpper(n), strings.ToLower(n), n} {
					if k2 != k {
						m[k2] = vals[c.Rng.Intn(len(vals))]
						break
					}
				}
			}
		}
	}
	return m
}

// ---- accept / reject over the alphabet of template lexemes ------------------------------------

var tplLexemes = []string{"{{", "{{{", "}}", "}}}", "#", "^", "/", "!", "if", "unless", "a", " ", "t."}

func isWordLex(s string) bool { return s == "if" || s == "unless" || s == "a" }

func joinLex(ls []string) string {
	var sb strings.Builder
	for i, l := range ls {
		if i > 0 && isWordLex(l) && (isWordLex(ls[i-1]) || ls[i-1] == "t.") {
			sb.WriteString(" ")
		}
		sb.WriteString(l)
	}
	return sb.String()
}

// values are strings of BYTES: what is no valid UTF-8 is rendered as it is, plainly and escaped
func propTplBytes(c *Ctx) {
	for _, v := range []string{"\xff", "caf\xe9", "a\x80\"b", "\xe4\xb8", "ok\xf0\x9f\x98/", "\xc3\x28\t"} {
		op := "tplbytes " + fmt.Sprintf("%x", v)
		c.record(op, true)
		c.count("values-with-invalid-utf8")
		note := ""
		st := safeCallT(5*time.Second, func() string {
			t := mustache.NewMustacheTemplate()
			t.SetAutoVariables(false)
			t.SetTemplate("[{{v}}|{{{v}}}|{{#v}}in{{/v}}]")
			r, err := t.EvaluateWithVariables(map[string]string{"v": v})
			want := "[" + v + "|" + jsonEscape(v) + "|in]"
			if err != nil || r != want {
				note = fmt.Sprintf("the value %q renders as %q (%v), expected %q: every byte of the value, escaped only where the escape table says so", v, r, err, want)
			}
			return ""
		})
		if st != "" || note != "" {
			c.fail(Failure{Kind: "oracle", Op: op, Impl: st, Note: note})
		}
	}
}

func propTplMaps(c *Ctx) {
	// the variable map is an input of every rendering: the SAME map object cleared and refilled with as many other keys, keys
	// re-spelled in another case, default variables edited in place between two renderings
	for _, sc := range []struct{ tpl, k1, v1, k2, v2 string }{{"[{{town}}]{{^city}}none{{/city}}", "town", "X", "Town", "Y"}, {"Hello, {{NAME}}!", "name", "Bob", "Name", "Cid"},
		{"{{#a}}in{{/a}}{{^a}}out{{/a}}", "a", "1", "b", "1"}, {"{{x}}", "x", "1", "X", ""}, {"{{x}}{{y}}", "x", "1", "y", "2"}} {
		op := "tplmap " + strRunes(sc.tpl) + " " + strRunes(sc.k1) + " " + strRunes(sc.k2)
		c.record(op, true)
		c.count("map-refilled-in-place")
		note := ""
		st := safeCallT(5*time.Second, func() string {
			ref := func(m map[string]string) string {
				t := mustache.NewMustacheTemplate()
				t.SetAutoVariables(false)
				t.SetTemplate(sc.tpl)
				own := map[string]string{}
				for k, v := range m {
					own[k] = v
				}
				r, err := t.EvaluateWithVariables(own)
				return r + "|" + errCode(err)
			}
			// (1) an explicit map, refilled in place
			t := mustache.NewMustacheTemplate()
			t.SetAutoVariables(false)
			t.SetTemplate(sc.tpl)
			m := map[string]string{sc.k1: sc.v1, "other": "o"}
			t.EvaluateWithVariables(m)
			delete(m, sc.k1)
			m[sc.k2] = sc.v2
			r, err := t.EvaluateWithVariables(m)
			if got, want := r+"|"+errCode(err), ref(m); got != want {
				note = fmt.Sprintf("template %q: after the map {%s} was refilled in place to {%s, other} the rendering is %q, a new template object gives %q", sc.tpl, sc.k1, sc.k2, got, want)
				return ""
			}
			// (2) the template's own default variables, edited in place
			t2 := mustache.NewMustacheTemplate()
			t2.SetAutoVariables(false)
			t2.SetTemplate(sc.tpl)
			t2.DefaultVariables()[sc.k1] = sc.v1
			t2.Evaluate()
			delete(t2.DefaultVariables(), sc.k1)
			t2.DefaultVariables()[sc.k2] = sc.v2
			r2, err2 := t2.Evaluate()
			if got, want := r2+"|"+errCode(err2), ref(map[string]string{sc.k2: sc.v2}); got != want {
				note = fmt.Sprintf("template %q: after the default variables {%s} were edited in place to {%s} Evaluate() gives %q, a new template object with those variables gives %q", sc.tpl, sc.k1, sc.k2, got, want)
			}
			return ""
		})
		if st != "" || note != "" {
			c.fail(Failure{Kind: "oracle", Op: op, Impl: st, Note: note})
		}
	}
}

func propC10(c *Ctx) {
	propScaleTemplates(c)
	g := newExGen(c)
	n := 2500
	if c.Thorough {
		n = 60000
	}
	for i := 0; i < n; i++ {
		depth := c.Rng.Intn(4)
		if c.Thorough && c.Rng.Intn(40) == 0 {
			depth = 5
		}
		ast := g.genTpl(depth, 1+c.Rng.Intn(5))
		src := printTpl(ast)
		if c.Rng.Intn(5) == 0 {
			src = " \n" + src + "\t "
			if len(ast) > 0 && ast[0].k == 't' {
				ast[0].text = " \n" + ast[0].text
			}
			if len(ast) > 0 && ast[len(ast)-1].k == 't' {
				ast[len(ast)-1].text += "\t "
			}
		}
		for k := 0; k < 2; k++ {
			runTplCase(c, ast, src, randVars(c), "generated-template")
		}
	}
	// text at the very edges of a template: only blank, tab, CR and LF are trimmed; every other space-like or invisible
	// character is text and is rendered
	for _, ws := range []string{"\u00a0", "\u3000", "\f", "\v", "\u0085", "\u2028", "\u2029", "\u1680", "\u2003", "\u202f", "\u205f", "\ufeff", "\x00", "\x1f", "\x7f", " \u00a0", "\u00a0 ", "\u200b"} {
		for _, mk := range []func() []*tnode{
			func() []*tnode { return []*tnode{{k: 't', text: ws}} },
			func() []*tnode {
				return []*tnode{{k: 't', text: ws + "Hello, "}, {k: 'v', text: "name", open: "{{name}}"}, {k: 't', text: "!" + ws}}
			},
			func() []*tnode {
				return []*tnode{{k: 't', text: ws}, {k: 's', text: "a", open: "{{#a}}", close: "{{/a}}", kids: []*tnode{{k: 't', text: ws + "x" + ws}}}, {k: 't', text: ws}}
			},
			func() []*tnode { return []*tnode{{k: 'v', text: "name", open: "{{name}}"}, {k: 't', text: ws}} },
		} {
			ast := mk()
			runTplCase(c, ast, printTpl(ast), map[string]string{"name": "World", "a": "1"}, "edge-character")
		}
	}
	// names are matched by their lower-case mappings (İ maps to i; final sigma, long s and the Kelvin sign have mappings
	// of their own): exactly the pairs that agree under that mapping match
	for _, pr := range [][2]string{{"dil", "DİL"}, {"DİL", "dil"}, {"σας", "ΣΑΣ"}, {"σασ", "ΣΑΣ"}, {"ſet", "SET"}, {"set", "ſET"}, {"k", "\u212a"}, {"\u212a", "K"}, {"straße", "STRASSE"}, {"ǆ", "ǅ"}, {"i", "I"}, {"ı", "I"}} {
		for _, mk := range []func(n string) []*tnode{
			func(n string) []*tnode { return []*tnode{{k: 't', text: "["}, {k: 'v', text: n, open: "{{" + n + "}}"}, {k: 't', text: "]"}} },
			func(n string) []*tnode {
				return []*tnode{{k: 's', text: n, open: "{{#" + n + "}}", close: "{{/" + n + "}}", kids: []*tnode{{k: 't', text: "in"}}}, {k: 'i', text: n, open: "{{^" + n + "}}", close: "{{/" + n + "}}", kids: []*tnode{{k: 't', text: "out"}}}}
			},
		} {
			ast := mk(pr[0])
			runTplCase(c, ast, printTpl(ast), map[string]string{pr[1]: "v"}, "case-mapping-names")
		}
	}
	propTplMaps(c)
	propTplBytes(c)
	// variables that are literally called "if" / "unless": the bare '#' and '^' spellings are sections on those variables
	for _, w := range []string{"unless", "if", "UNLESS", "If"} {
		for _, mk := range []func() []*tnode{
			func() []*tnode {
				return []*tnode{{k: 's', text: w, open: "{{#" + w + "}}", close: "{{/" + w + "}}", kids: []*tnode{{k: 't', text: "body"}}}}
			},
			func() []*tnode {
				return []*tnode{{k: 'i', text: w, open: "{{^" + w + "}}", close: "{{/" + w + "}}", kids: []*tnode{{k: 't', text: "body"}}}}
			},
			func() []*tnode {
				return []*tnode{{k: 's', text: w, open: "{{#" + w + "}}", close: "{{/" + w + "}}", kids: []*tnode{{k: 'v', text: w, open: "{{" + w + "}}"}}}, {k: 't', text: "."},
					{k: 's', text: "a", open: "{{#if a}}", close: "{{/if}}", kids: []*tnode{{k: 't', text: "A"}}}, {k: 'i', text: "a", open: "{{#unless a}}", close: "{{/unless}}", kids: []*tnode{{k: 't', text: "B"}}}}
			},
		} {
			ast := mk()
			for _, vars := range []map[string]string{{w: "1"}, {}, {strings.ToLower(w): "x", "a": "1"}, {w: ""}} {
				runTplCase(c, ast, printTpl(ast), vars, "keyword-named-variable")
			}
		}
	}
	// accept / reject: every string over the lexeme alphabet up to a bounded length
	maxL := 4
	if c.Thorough {
		maxL = 5
	}
	var rec func(cur []string)
	rec = func(cur []string) {
		if len(cur) > 0 {
			runTplCase(c, nil, joinLex(cur), map[string]string{"a": "1"}, fmt.Sprintf("lexeme-string-len:%d", len(cur)))
		}
		if len(cur) == maxL {
			return
		}
		for _, l := range tplLexemes {
			rec(append(cur, l))
		}
	}
	rec(nil)
	// the malformed classes the property names, at every nesting position
	for _, bad := range []string{"{{#if}}}x{{/if}}", "{{{#unless}}x{{/unless}}", "{{#unless}}}x{{/unless}}", "{{^if}}}x{{/if}}", "{{{^unless}}x{{/unless}}", "{{#if}}x{{/if}}}", "{{{#if a}}x{{/if}}",
		"{{#if a}}x{{/if b}}", "{{#a}}x{{/if b}}", "{{^a}}x{{/unless b}}", "{{#unless a}}x{{/unless b}}", "{{#a}}{{#b}}x{{/if a}}{{/if b}}",
		"{{a", "{{#a}}x", "x{{/a}}", "{{#a}}x{{/b}}", "{{a}}}", "{{{a}}", "{{#a}}{{#b}}x{{/a}}{{/b}}", "{{^a}}", "{{#if a}}x{{/unless}}{{/if}}", "{{/}}", "{{}}", "{{# }}x{{/}}", "{{a b}}", "{{!c",
		// the section keywords are lower-case words: any other spelling is an ordinary name
		"{{#a}}x{{/IF}}", "{{#a}}x{{/Unless}}", "{{^a}}x{{/UNLESS}}", "{{#IF a}}x{{/IF}}", "{{#If a}}x{{/a}}", "{{#Unless a}}x{{/a}}", "{{^UNLESS a}}x{{/a}}", "{{#a}}x{{/If a}}", "{{#a}}x{{/iF}}", "{{#ıf a}}x{{/a}}"} {
		o := runTemplate(bad, map[string]string{"a": "1", "b": "1"})
		op := "tpl " + strRunes(bad)
		c.record(op, true)
		if o.status != "" || (o.code == "" && o.rcode == "") && bad != "{{#if a}}x{{/unless}}{{/if}}" {
			c.fail(Failure{Kind: "oracle", Op: op, Impl: o.status + " rendered " + o.render, Note: fmt.Sprintf("malformed template %q must be rejected with an error", bad)})
		}
		runTplCase(c, nil, bad, map[string]string{"a": "1"}, "malformed-class")
	}
	c.Notes = append(c.Notes, fmt.Sprintf("%d generated template trees (depth 0..3, thorough up to 5; text with single braces / non-ASCII / every escapable character, variables, escaped variables, comments, sections and inverted sections in all spellings #, #if, ^, #unless closed by name, /if, /unless, with double or triple braces and optional blanks) x 2 random variable maps (present/absent/empty, Unicode values, random key case); every string of length <= %d over 13 template lexemes for accept/reject against the model; the named malformed classes; oracle = independent reference renderer", n, maxL))
}

func replayTpl(c *Ctx, op string) {
	if replaySeq(c, op) || replayEntry(c, op) {
		return
	}
	if strings.HasPrefix(op, "tplbytes ") {
		propTplBytes(c)
		return
	}
	if strings.HasPrefix(op, "tplmap ") {
		propTplMaps(c)
		return
	}
	f := strings.Fields(op)
	if len(f) >= 2 && f[0] == "tpl" {
		vars := map[string]string{}
		for _, b := range f[2:] {
			if b == ";" {
				continue
			}
			p := strings.SplitN(b, "=", 2)
			if len(p) == 2 {
				vars[string(parseRunes(p[0]))] = string(parseRunes(p[1]))
			}
		}
		runTplCase(c, nil, string(parseRunes(f[1])), vars, "replay")
	}
}

func init() {
	props["C10"] = propC10
	replays["C10"] = replayTpl
	tplReplay = replayTpl
	crashTemplates = func(c *Ctx) {
		n := 1500
		if c.Thorough {
			n = 40000
		}
		for i := 0; i < n; i++ {
			src := string(lexSoup(c, "m", 10))
			if c.Rng.Intn(3) == 0 {
				src = string(randInput(c, 24))
			}
			runTplCase(c, nil, src, randVars(c), "template-soup")
		}
	}
	mustacheVars = func(c *Ctx) {
		g := newExGen(c)
		n := 600
		if c.Thorough {
			n = 15000
		}
		for i := 0; i < n; i++ {
			ast := g.genTpl(c.Rng.Intn(3), 1+c.Rng.Intn(5))
			src := printTpl(ast)
			// expected: names of all tags, once each compared case-insensitively, first spelling kept
			var want []string
			var walk func(ns []*tnode)
			walk = func(ns []*tnode) {
				for _, n := range ns {
					if n.k != 't' && n.k != 'c' {
						seen := false
						for _, w := range want {
							if strings.ToLower(w) == strings.ToLower(n.text) {
								seen = true
							}
						}
						if !seen {
							want = append(want, n.text)
						}
					}
					walk(n.kids)
					if (n.k == 's' || n.k == 'i') && strings.Contains(n.close, "/"+n.text) || strings.Contains(n.close, "/ "+n.text) {
						// the closing tag's name is the same variable
					}
				}
			}
			walk(ast)
			o := runTemplate(src, map[string]string{})
			op := "tplvars " + strRunes(src)
			c.record(op, len(want) >= 2)
			c.count("template-vars-case")
			if o.status == "" && o.code == "" && strings.Join(o.vars, "\x00") != strings.Join(want, "\x00") {
				c.fail(Failure{Kind: "oracle", Op: op, Impl: namesStr(o.vars), Note: fmt.Sprintf("template %q reports variables %q, tags name %q", src, o.vars, want)})
			}
			// automatic variables: entries that were already there (in another letter case, with and without a
			// value) are kept and no second entry for the same name appears; on a second template the same holds
			if o.status == "" && o.code == "" && len(want) > 0 {
				var note string
				safeCall(func() string {
					t := mustache.NewMustacheTemplate()
					pre := map[string]string{}
					for i, w := range want {
						switch i % 3 {
						case 0:
							pre[strings.ToUpper(w)+""] = "" // same name, other case, EMPTY value
						case 1:
							pre[strings.ToUpper(w)] = "kept"
						}
					}
					t.SetDefaultVariables(pre)
					t.SetTemplate(src)
					t.SetTemplate(src)
					count := map[string]int{}
					for k := range t.DefaultVariables() {
						count[strings.ToLower(k)]++
					}
					for _, w := range want {
						if count[strings.ToLower(w)] != 1 && note == "" {
							note = fmt.Sprintf("the default variables hold %d entries for the name %q (compared case-insensitively)", count[strings.ToLower(w)], w)
						}
					}
					for k, v := range pre {
						if got, ok := t.DefaultVariables()[k]; (!ok || got != v) && note == "" {
							note = fmt.Sprintf("the entry %q=%q that was already in the default variables was not kept", k, v)
						}
					}
					return ""
				})
				if note != "" {
					c.fail(Failure{Kind: "oracle", Op: op, Impl: namesStr(o.vars), Note: note})
				}
			}
		}
	}
}
