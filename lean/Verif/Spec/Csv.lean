/-
SPEC for C09: writing a table of string fields as CSV text, and regrouping a token stream into
rows and fields.  Plain list functions; nothing refers to the scanner or the tokenizer states.
-/
import Verif.Spec.Lexemes

namespace Verif

/-- a field must be quoted when it contains a separator, a quote symbol or a line break -/
def needsQuote (seps quotes : List Rune) (f : List Rune) : Bool :=
  f.any (fun c => seps.contains c || quotes.contains c || c == 10 || c == 13)

/-- raw when allowed (and not forced by `always`), else quote-encoded with `q` -/
def writeField (seps quotes : List Rune) (always : Bool) (q : Rune) (f : List Rune) : List Rune :=
  if always || needsQuote seps quotes f then encodeEsc q f else f

/-- fields joined with the separator `sep` -/
def writeRow (seps quotes : List Rune) (always : Bool) (q sep : Rune) : List (List Rune) → List Rune
  | [] => []
  | [f] => writeField seps quotes always q f
  | f :: fs => writeField seps quotes always q f ++ sep :: writeRow seps quotes always q sep fs

/-- rows joined with the line ending `eol` -/
def writeTable (seps quotes : List Rune) (always : Bool) (q sep : Rune) (eol : List Rune) :
    List (List (List Rune)) → List Rune
  | [] => []
  | [r] => writeRow seps quotes always q sep r
  | r :: rs => writeRow seps quotes always q sep r ++ eol ++
      writeTable seps quotes always q sep eol rs

/-- the four line endings -/
def isEolText (e : List Rune) : Bool := e == [10] || e == [13] || e == [13, 10] || e == [10, 13]

/-- regrouping over (type, text) pairs: an Eol token ends the row, a Symbol token (a separator)
ends the field, any other token contributes its text to the current field; the Eof token (or
the end of the list) ends the table. -/
def regroupP : List (Nat × List Rune) → List Rune → List (List Rune) → List (List (List Rune)) →
    List (List (List Rune))
  | [], field, row, rows => rows ++ [row ++ [field]]
  | t :: ts, field, row, rows =>
    if t.1 == TT.eof then rows ++ [row ++ [field]]
    else if t.1 == TT.eol then regroupP ts [] [] (rows ++ [row ++ [field]])
    else if t.1 == TT.symbol then regroupP ts [] (row ++ [field]) rows
    else regroupP ts (field ++ t.2) row rows

/-- split a token stream at Eol tokens into rows and at separator tokens into fields -/
def regroup (ts : List Tok) : List (List (List Rune)) :=
  regroupP (ts.map (fun t => (t.typ, t.value))) [] [] []

/-! ### the lexemes of a written table (the bridge between text and tokens) -/

def csvRegs : Regs :=
  regsOf [("\n", TT.eol), ("\r", TT.eol), ("\r\n", TT.eol), ("\n\r", TT.eol)]

def fieldLex (seps quotes : List Rune) (always : Bool) (q : Rune) (f : List Rune) : List Lexeme :=
  if always || needsQuote seps quotes f then [⟨TT.quoted, encodeEsc q f, some q⟩]
  else if f.isEmpty then [] else [⟨TT.word, f, none⟩]

def rowLex (seps quotes : List Rune) (always : Bool) (q sep : Rune) : List (List Rune) → List Lexeme
  | [] => []
  | [f] => fieldLex seps quotes always q f
  | f :: fs => fieldLex seps quotes always q f ++
      ⟨TT.symbol, [sep], none⟩ :: rowLex seps quotes always q sep fs

def tableLex (seps quotes : List Rune) (always : Bool) (q sep : Rune) (eol : List Rune) :
    List (List (List Rune)) → List Lexeme
  | [] => []
  | [r] => rowLex seps quotes always q sep r
  | r :: rs => rowLex seps quotes always q sep r ++
      ⟨TT.eol, eol, none⟩ :: tableLex seps quotes always q sep eol rs

end Verif
