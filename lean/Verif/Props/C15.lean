/-
C15 — the seven options only drop or rewrite WHOLE tokens of the option-free segmentation; they
never re-segment the input.

`streamSpec cfg o c` (Spec/Stream.lean) = one pass of `processSpec` over the option-free raw
token list `rawSpec cfg _ (Scanner.new c)` — which does not mention the options at all — plus
the Eof token.  `C15_options_factor` says the tokenizer's output IS that stream, for every option
setting and every input.  The corollaries read off what each option guarantees.
-/
import Verif.Lemmas.MainLoop
import Verif.Spec.Stream

namespace Verif

/-- **C15**: for every non-mustache configuration meeting the segmentation contract, every
option setting and every input, the token stream is the option-free segmentation post-processed
token by token. -/
theorem C15_options_factor (cfg : Cfg) (hk : cfg.kind ≠ .mustache) (hc : RawContract cfg)
    (o : Opts) (c : List Rune) : tokenize cfg o c = streamSpec cfg o c :=
  tokenize_eq_streamSpec cfg hk hc o c

theorem C15_generic (o : Opts) (c : List Rune) :
    tokenize genericCfg o c = streamSpec genericCfg o c :=
  C15_options_factor genericCfg (by decide) rawContract_generic o c

theorem C15_expression (o : Opts) (c : List Rune) :
    tokenize expressionCfg o c = streamSpec expressionCfg o c :=
  C15_options_factor expressionCfg (by decide) rawContract_expression o c

theorem C15_csv (seps quotes : List Rune) (o : Opts) (c : List Rune) :
    tokenize (csvCfg seps quotes) o c = streamSpec (csvCfg seps quotes) o c :=
  C15_options_factor (csvCfg seps quotes) (show Kind.csv ≠ Kind.mustache by decide)
    (rawContract_csv seps quotes) o c

/-! ### what each option guarantees (for every `last` and every raw list) -/

/-- skipUnknown: no Unknown token survives -/
theorem C15_no_unknown (cfg : Cfg) (o : Opts) (c : List Rune) (last : Nat) (raws : List RawTok)
    (h : o.skipUnknown = true) : ∀ t ∈ postSpec cfg o c last raws, t.typ ≠ TT.unknown := by
  intro t ht
  obtain ⟨l', r, _, hp⟩ := mem_postSpec cfg o c raws last t ht
  obtain ⟨h1, _, _, h4, _, _⟩ := processSpec_some cfg o c l' r t hp
  rw [h4]
  split
  · exact (by decide : TT.number ≠ TT.unknown)
  · exact fun hu => h1 ⟨hu, h⟩

/-- skipComments: no Comment token survives -/
theorem C15_no_comment (cfg : Cfg) (o : Opts) (c : List Rune) (last : Nat) (raws : List RawTok)
    (h : o.skipComments = true) : ∀ t ∈ postSpec cfg o c last raws, t.typ ≠ TT.comment := by
  intro t ht
  obtain ⟨l', r, _, hp⟩ := mem_postSpec cfg o c raws last t ht
  obtain ⟨_, h2, _, h4, _, _⟩ := processSpec_some cfg o c l' r t hp
  rw [h4]
  split
  · exact (by decide : TT.number ≠ TT.comment)
  · exact fun hu => h2 ⟨hu, h⟩

/-- post-processing never creates an Eof token -/
theorem C15_post_no_eof (cfg : Cfg) (o : Opts) (c : List Rune) (last : Nat) (raws : List RawTok)
    (hraw : ∀ r ∈ raws, r.typ ≠ TT.eof) : ∀ t ∈ postSpec cfg o c last raws, t.typ ≠ TT.eof := by
  intro t ht
  obtain ⟨l', r, hr, hp⟩ := mem_postSpec cfg o c raws last t ht
  exact processSpec_typ_ne_eof cfg o c l' r t hp (hraw r hr)

/-- the raw segmentation contains no Eof token -/
theorem rawSpec_no_eof (cfg : Cfg) (hc : RawContract cfg) (c : List Rune) :
    ∀ r ∈ rawSpec cfg (c.length + 2) (Scanner.new c), r.typ ≠ TT.eof := by
  intro r hr
  have h := rawSpec_ok cfg hc (c.length + 1) (Scanner.new c) (c.length + 2)
    (by show c.length + 1 - 0 ≤ _; omega) (Scanner.new_wf c) (by show c.length + 1 - 0 < _; omega)
  exact (h.mem r hr).2.2.2

/-- skipEof: the stream contains no Eof token at all -/
theorem C15_no_eof_when_skipEof (cfg : Cfg) (hc : RawContract cfg) (o : Opts) (c : List Rune)
    (h : o.skipEof = true) : ∀ t ∈ streamSpec cfg o c, t.typ ≠ TT.eof := by
  intro t ht
  unfold streamSpec at ht
  rw [h] at ht
  simp only [if_true, List.append_nil] at ht
  exact C15_post_no_eof cfg o c _ _ (rawSpec_no_eof cfg hc c) t ht

/-- no Whitespace token directly after a Whitespace token (`last` = the type of the token
emitted before the list) -/
def NoAdjWs : Nat → List Tok → Prop
  | _, [] => True
  | last, t :: ts => ¬ (last = TT.whitespace ∧ t.typ = TT.whitespace) ∧ NoAdjWs t.typ ts

/-- skipWhitespaces: never two Whitespace tokens in a row (also across dropped tokens) -/
theorem C15_no_adjacent_ws (cfg : Cfg) (o : Opts) (c : List Rune) (last : Nat) (raws : List RawTok)
    (h : o.skipWhitespaces = true) : NoAdjWs last (postSpec cfg o c last raws) := by
  induction raws generalizing last with
  | nil => exact True.intro
  | cons r rest ih =>
    rw [postSpec_cons]
    cases hps : processSpec cfg o c last r with
    | none => exact ih last
    | some t =>
      obtain ⟨_, _, h3, h4, _, _⟩ := processSpec_some cfg o c last r t hps
      refine ⟨?_, ih t.typ⟩
      intro ⟨hl, ht⟩
      rw [h4] at ht
      split at ht
      · exact absurd ht (by decide)
      · exact h3 ⟨ht, hl, h⟩

/-- the same, by index -/
theorem NoAdjWs.index {last : Nat} {l : List Tok} (h : NoAdjWs last l) :
    ∀ (i : Nat) (a b : Tok), l[i]? = some a → l[i+1]? = some b →
      ¬ (a.typ = TT.whitespace ∧ b.typ = TT.whitespace) := by
  induction l generalizing last with
  | nil => intro i a b ha; exact absurd ha (by simp)
  | cons x xs ih =>
    intro i a b ha hb
    cases i with
    | zero =>
      simp only [List.getElem?_cons_zero, Option.some.injEq] at ha
      simp only [Nat.zero_add, List.getElem?_cons_succ] at hb
      cases xs with
      | nil => exact absurd hb (by simp)
      | cons y ys =>
        simp only [List.getElem?_cons_zero, Option.some.injEq] at hb
        rw [← ha, ← hb]
        exact h.2.1
    | succ i =>
      simp only [List.getElem?_cons_succ] at ha hb
      exact ih h.2 i a b ha hb

theorem NoAdjWs.append_eof {last : Nat} {l : List Tok} (h : NoAdjWs last l) (e : Tok)
    (he : e.typ ≠ TT.whitespace) : NoAdjWs last (l ++ [e]) := by
  induction l generalizing last with
  | nil => exact ⟨fun hh => he hh.2, True.intro⟩
  | cons x xs ih => exact ⟨h.1, ih h.2⟩

/-- skipWhitespaces on the tokenizer's output: no two adjacent Whitespace tokens -/
theorem C15_tokenize_no_adjacent_ws (cfg : Cfg) (hk : cfg.kind ≠ .mustache) (hc : RawContract cfg)
    (o : Opts) (c : List Rune) (h : o.skipWhitespaces = true) :
    ∀ (i : Nat) (a b : Tok), (tokenize cfg o c)[i]? = some a → (tokenize cfg o c)[i+1]? = some b →
      ¬ (a.typ = TT.whitespace ∧ b.typ = TT.whitespace) := by
  rw [C15_options_factor cfg hk hc o c]
  unfold streamSpec
  have h1 := C15_no_adjacent_ws cfg o c TT.unknown
    (rawSpec cfg (c.length + 2) (Scanner.new c)) h
  cases o.skipEof with
  | true => simp only [if_true, List.append_nil]; exact h1.index
  | false =>
    simp only [Bool.false_eq_true, if_false]
    exact (h1.append_eof (eofTok c) (show TT.eof ≠ TT.whitespace by decide)).index

/-- mergeWhitespaces: every Whitespace token is a single space -/
theorem C15_ws_single_space (cfg : Cfg) (o : Opts) (c : List Rune) (last : Nat)
    (raws : List RawTok) (h : o.mergeWhitespaces = true) :
    ∀ t ∈ postSpec cfg o c last raws, t.typ = TT.whitespace → t.value = [32] := by
  intro t ht hws
  obtain ⟨l', r, _, hp⟩ := mem_postSpec cfg o c raws last t ht
  obtain ⟨_, _, _, h4, h5, _⟩ := processSpec_some cfg o c l' r t hp
  rw [h4] at hws
  have hr : r.typ = TT.whitespace := by
    split at hws
    · exact absurd hws (by decide)
    · exact hws
  rw [h5, hr, h]
  rfl

/-- unifyNumbers: no Integer / Float / HexDecimal token survives -/
theorem C15_numbers_unified (cfg : Cfg) (o : Opts) (c : List Rune) (last : Nat)
    (raws : List RawTok) (h : o.unifyNumbers = true) :
    ∀ t ∈ postSpec cfg o c last raws,
      t.typ ≠ TT.integer ∧ t.typ ≠ TT.float ∧ t.typ ≠ TT.hexDecimal := by
  intro t ht
  obtain ⟨l', r, _, hp⟩ := mem_postSpec cfg o c raws last t ht
  obtain ⟨_, _, _, h4, _, _⟩ := processSpec_some cfg o c l' r t hp
  rw [h4, h]
  simp only [Bool.true_and]
  split
  · exact ⟨by decide, by decide, by decide⟩
  · rename_i hn
    unfold isNumTyp at hn
    simp only [Bool.or_eq_true, beq_iff_eq, not_or] at hn
    exact ⟨hn.1.1, hn.1.2, hn.2⟩

/-- all options off: every raw token comes through unchanged, stamped with the forward-scan
position of its first character -/
theorem C15_off_untouched (cfg : Cfg) (c : List Rune) (last : Nat) (raws : List RawTok) :
    postSpec cfg Opts.allOff c last raws =
      raws.map (fun r => ⟨r.typ, r.value, (posOf c r.start).1, (posOf c r.start).2⟩) :=
  postSpec_allOff cfg c last raws

/-- non-vacuity: `a<=1` through the expression tokenizer, all options off … -/
example : tokenize expressionCfg Opts.allOff [97, 60, 61, 49] =
    [⟨TT.word, [97], 1, 1⟩, ⟨TT.symbol, [60, 61], 1, 2⟩, ⟨TT.integer, [49], 1, 4⟩,
     ⟨TT.eof, [], 1, 5⟩] := by decide

/-- … and `a  <=⏎1` with skipWhitespaces + unifyNumbers + skipEof: same cuts, Integer became
Number, no Eof -/
example : tokenize expressionCfg
      { Opts.allOff with unifyNumbers := true, skipEof := true, skipWhitespaces := true }
      [97, 32, 32, 60, 61, 10, 49] =
    [⟨TT.word, [97], 1, 1⟩, ⟨TT.whitespace, [32, 32], 1, 2⟩, ⟨TT.symbol, [60, 61], 1, 4⟩,
     ⟨TT.whitespace, [10], 2, 0⟩, ⟨TT.number, [49], 2, 1⟩] := by decide

end Verif
