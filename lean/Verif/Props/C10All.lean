/-
C10 from tokens upward (Props/C10.lean) and from the characters of a printed template (Props/C10Text.lean).
-/
import Verif.Props.C10
import Verif.Props.C10Text
import Verif.Props.ClauseExamples
