/-
C04 — tokenization is lossless: with all options off, the token values concatenate to the input,
no token (but the final Eof) is empty, and consecutive tokens are contiguous slices of the input.
-/
import Verif.Lemmas.MainLoop
import Verif.Spec.Stream

namespace Verif
open Scanner

/-- the option-free segmentation from any well-formed scanner position, with enough fuel:
(1) the values concatenate to the rest of the input, (2) every value is non-empty, (3) the first
token starts at the cursor and (4) every next token starts where the previous one ends. -/
theorem rawSpec_lossless (cfg : Cfg) (hc : RawContract cfg) (s : Scanner) (f : Nat) (hw : s.WF)
    (hf : s.content.length + 1 - s.pos < f) :
    ((rawSpec cfg f s).map (·.value)).flatten = s.content.drop s.pos ∧
    (∀ r ∈ rawSpec cfg f s, r.value ≠ []) ∧
    (∀ r, (rawSpec cfg f s).head? = some r → r.start = s.pos) ∧
    (∀ (i : Nat) (a b : RawTok), (rawSpec cfg f s)[i]? = some a → (rawSpec cfg f s)[i+1]? = some b →
      b.start = a.start + a.value.length) := by
  have h := rawSpec_ok cfg hc (s.content.length + 1 - s.pos) s f (Nat.le_refl _) hw hf
  refine ⟨?_, fun r hr => (h.mem r hr).1, ?_, h.contig⟩
  · rw [h.flatten]
    by_cases hp : s.pos ≤ s.content.length
    · rw [Nat.min_eq_left hp]
    · rw [Nat.min_eq_right (by omega), List.drop_eq_nil_of_le (Nat.le_refl _),
        List.drop_eq_nil_of_le (by omega)]
  · intro r hr
    have hpk : ∃ ch, s.peek = some ch := by
      cases hpk : s.peek with
      | none => rw [rawSpec_none cfg f s hpk] at hr; exact absurd hr (by simp)
      | some ch => exact ⟨ch, rfl⟩
    obtain ⟨ch, hpk⟩ := hpk
    have := h.head r hr
    rw [this, Nat.min_eq_left (Nat.le_of_lt (peek_some_lt hpk).1)]

/-- **C04**: with all options off the token values concatenate to exactly the input, the stream
ends with the Eof token, and every token before it is non-empty. -/
theorem C04_lossless (cfg : Cfg) (hk : cfg.kind ≠ .mustache) (hc : RawContract cfg) (c : List Rune) :
    ((tokenize cfg Opts.allOff c).map (·.value)).flatten = c ∧
    (tokenize cfg Opts.allOff c).getLast? = some (eofTok c) ∧
    (∀ t ∈ (tokenize cfg Opts.allOff c).dropLast, t.value ≠ []) := by
  have hl := rawSpec_lossless cfg hc (Scanner.new c) (c.length + 2) (new_wf c)
    (by show c.length + 1 - 0 < _; omega)
  have e : tokenize cfg Opts.allOff c =
      (rawSpec cfg (c.length + 2) (Scanner.new c)).map
        (fun r => (⟨r.typ, r.value, (posOf c r.start).1, (posOf c r.start).2⟩ : Tok))
      ++ [eofTok c] := by
    rw [tokenize_eq_streamSpec cfg hk hc]
    unfold streamSpec
    rw [postSpec_allOff]
    rfl
  rw [e]
  refine ⟨?_, ?_, ?_⟩
  · rw [List.map_append, List.flatten_append, List.map_map]
    have : ((fun t : Tok => t.value) ∘ fun r : RawTok =>
        (⟨r.typ, r.value, (posOf c r.start).1, (posOf c r.start).2⟩ : Tok)) = (·.value) := rfl
    rw [this, hl.1]
    show List.drop 0 c ++ [] = c
    simp only [List.drop_zero, List.append_nil]
  · exact List.getLast?_concat
  · rw [List.dropLast_concat]
    intro t ht
    obtain ⟨r, hr, rfl⟩ := List.mem_map.mp ht
    exact hl.2.1 r hr

theorem C04_generic (c : List Rune) :
    ((tokenize genericCfg Opts.allOff c).map (·.value)).flatten = c ∧
    (tokenize genericCfg Opts.allOff c).getLast? = some (eofTok c) ∧
    (∀ t ∈ (tokenize genericCfg Opts.allOff c).dropLast, t.value ≠ []) :=
  C04_lossless genericCfg (by decide) rawContract_generic c

theorem C04_expression (c : List Rune) :
    ((tokenize expressionCfg Opts.allOff c).map (·.value)).flatten = c ∧
    (tokenize expressionCfg Opts.allOff c).getLast? = some (eofTok c) ∧
    (∀ t ∈ (tokenize expressionCfg Opts.allOff c).dropLast, t.value ≠ []) :=
  C04_lossless expressionCfg (by decide) rawContract_expression c

theorem C04_csv (seps quotes : List Rune) (c : List Rune) :
    ((tokenize (csvCfg seps quotes) Opts.allOff c).map (·.value)).flatten = c ∧
    (tokenize (csvCfg seps quotes) Opts.allOff c).getLast? = some (eofTok c) ∧
    (∀ t ∈ (tokenize (csvCfg seps quotes) Opts.allOff c).dropLast, t.value ≠ []) :=
  C04_lossless (csvCfg seps quotes) (show Kind.csv ≠ Kind.mustache by decide)
    (rawContract_csv seps quotes) c

/-- non-vacuity: `a,"b"⏎1` through the csv tokenizer -/
example : (tokenize (csvCfg [44] [34]) Opts.allOff [97, 44, 34, 98, 34, 10, 49]).map (·.value)
    = [[97], [44], [34, 98, 34], [10], [49], []] := by decide

end Verif
