/-
C09 — CSV round trip: a table of string fields written as CSV text (raw or quote-encoded
fields, joined by a separator, rows joined by a line ending) and tokenized with string decoding
enabled regroups into exactly the original rows and fields.

Per token kind a one-step theorem (`Cuts`, Lemmas/LexStep.lean) and then the assembly over
fields and rows.  Hypotheses: `csvValid seps quotes` (the check of `SetFieldSeparators` /
`SetQuoteSymbols`) and `CsvBound` — separators and quotes are ≤ U+FFFE (a registration for a
rune ≥ U+FFFF is clamped to an empty interval, see `C09_separator_above_FFFE_not_recognised`).
-/
import Verif.Lemmas.LexCsv

namespace Verif
open Scanner

/-- separators and quote symbols lie in the range the character maps can register -/
def CsvBound (seps quotes : List Rune) : Prop := ∀ c ∈ seps ++ quotes, c ≤ 0xfffe

/-! ## 1. line endings -/

theorem csv_runState_symbol_eol (seps quotes : List Rune) (s : Scanner) (hw : s.WF) (c : Rune)
    (hpk : s.peek = some c) (hc : c = 10 ∨ c = 13) :
    runState (csvCfg seps quotes) .symbol (s.content.length + 2) s
      = (build csvRegs).nextToken (s.content.length + 2) s := by
  have hlt := (peek_some_lt hpk).1
  have hr : (s.read).1 = some c := by rw [← C11_peek_is_next]; exact hpk
  have hun : (s.read).2.unread = s := C11_unread_read s hw (Nat.le_of_lt hlt)
  show csvSymbolState (csvCfg seps quotes).symbols _ s = _
  have hcond : (c != 10 && c != 13) = false := by
    rcases hc with rfl | rfl <;> rfl
  simp only [csvSymbolState, hr, hcond, Bool.false_eq_true, if_false, hun]
  rw [csvSymbols_eq]

theorem csv_dispatch_eol (seps quotes : List Rune) (hv : csvValid seps quotes = true) (c : Nat)
    (hc : c = 10 ∨ c = 13) : (csvCfg seps quotes).dispatch.lookup c = some .symbol := by
  obtain ⟨h1, _⟩ := (csvValid_iff seps quotes).mp hv
  have hq : quotes.contains c = false := by
    cases h : quotes.contains c with
    | false => rfl
    | true =>
      have := h1 c (List.mem_append_right _ (List.contains_iff_mem.mp h))
      rcases hc with hc | hc
      · exact absurd hc this.2.1
      · exact absurd hc this.1
  have hs : seps.contains c = false := by
    cases h : seps.contains c with
    | false => rfl
    | true =>
      have := h1 c (List.mem_append_left _ (List.contains_iff_mem.mp h))
      rcases hc with hc | hc
      · exact absurd hc this.2.1
      · exact absurd hc this.1
  rw [csv_dispatch seps quotes c (by omega), hq, hs]
  simp only [Bool.false_eq_true, if_false]
  rw [if_pos hc]

/-- shared core of the four line endings -/
theorem eol_step (seps quotes : List Rune) (hv : csvValid seps quotes = true) (s : Scanner)
    (hw : s.WF) (c : Nat) (hc : c = 10 ∨ c = 13) (e rest : List Rune) (hhead : e.head? = some c)
    (hin : s.content.drop s.pos = e ++ rest)
    (hlong : longest csvRegs (e ++ rest) = some e) (hreg : registered csvRegs e = true) :
    Cuts (csvCfg seps quotes) s TT.eol e none rest := by
  have hpk : s.peek = some c := by
    rw [peek_drop, hin]
    cases e with
    | nil => cases hhead
    | cons a t => simpa using hhead
  obtain ⟨h1, h2, h3⟩ := rawNext_via_symbol (csvCfg seps quotes) csvRegs csvRegs_ok s c hpk
    .symbol (csv_dispatch_eol seps quotes hv c hc) (by decide)
    (csv_runState_symbol_eol seps quotes s hw c hpk hc)
  apply Cuts.of_value' (csvCfg seps quotes) (rawContract_csv seps quotes) s hw c e rest hhead hin
  refine ⟨?_, ?_, h3⟩
  · rw [h2, hin, hlong]
    show specType csvRegs e = TT.eol
    obtain ⟨r, hr, hre⟩ := (registered_iff csvRegs e).mp hreg
    unfold specType
    split
    · rename_i r' hf
      have hm := List.mem_of_find?_eq_some hf
      have : r' ∈ csvRegs := by simpa using hm
      rw [csvRegs_eq] at this
      simp only [List.mem_cons, List.not_mem_nil, or_false] at this
      rcases this with rfl | rfl | rfl | rfl <;> rfl
    · rename_i hnone
      exfalso
      rw [List.find?_eq_none] at hnone
      exact hnone r (by simpa using hr) (by simpa using hre)
  · rw [h1, hin]; unfold symCut; rw [hlong]; rfl

/-- **C09 (line endings)**: each of LF, CR, CRLF, LFCR at the head of the input — followed by
something that does not extend it (after a lone LF no CR, after a lone CR no LF) — is ONE token
of type `Eol` whose text is that line ending. -/
theorem C09_eol_single (seps quotes : List Rune) (hv : csvValid seps quotes = true)
    (s : Scanner) (hw : s.WF) (e rest : List Rune) (he : isEolText e = true)
    (hb : (e = [10] → rest.head? ≠ some 13) ∧ (e = [13] → rest.head? ≠ some 10))
    (hin : s.content.drop s.pos = e ++ rest) :
    Cuts (csvCfg seps quotes) s TT.eol e none rest := by
  simp only [isEolText, Bool.or_eq_true, beq_iff_eq] at he
  rcases he with ((rfl | rfl) | rfl) | rfl
  · refine eol_step seps quotes hv s hw 10 (Or.inl rfl) [10] rest rfl hin ?_ (by decide)
    apply longest_one csvRegs csvRegs_len 10 rest (by decide)
    intro x hx
    have hne : x ≠ 13 := fun h => hb.1 rfl (by rw [hx, h])
    rw [csvRegs_eq]
    simp [registered, Ne.symm hne]
  · refine eol_step seps quotes hv s hw 13 (Or.inr rfl) [13] rest rfl hin ?_ (by decide)
    apply longest_one csvRegs csvRegs_len 13 rest (by decide)
    intro x hx
    have hne : x ≠ 10 := fun h => hb.2 rfl (by rw [hx, h])
    rw [csvRegs_eq]
    simp [registered, Ne.symm hne]
  · exact eol_step seps quotes hv s hw 13 (Or.inr rfl) [13, 10] rest rfl hin
      (longest_two csvRegs csvRegs_len 13 10 rest (by decide)) (by decide)
  · exact eol_step seps quotes hv s hw 10 (Or.inl rfl) [10, 13] rest rfl hin
      (longest_two csvRegs csvRegs_len 10 13 rest (by decide)) (by decide)

/-! ## 2. raw fields -/

theorem csvPlain_iff (seps quotes : List Rune) (x : Nat) : csvPlain seps quotes x = true ↔
    x ≤ 0xfffe ∧ x ≠ 13 ∧ x ≠ 10 ∧ x ∉ seps ∧ x ∉ quotes := by
  simp [csvPlain, and_assoc]

/-- **C09 (raw field)**: a non-empty run of plain runes (≤ U+FFFE, no separator, quote, CR,
LF) followed by a separator, a quote, a line break or the end of the input is one `Word`
token with that text. -/
theorem C09_raw_field (seps quotes : List Rune) (hb : CsvBound seps quotes)
    (s : Scanner) (hw : s.WF) (c : Nat) (w rest : List Rune)
    (hall : ∀ x ∈ c :: w, csvPlain seps quotes x = true)
    (hnext : ∀ x, rest.head? = some x → x = 10 ∨ x = 13 ∨ x ∈ seps ∨ x ∈ quotes)
    (hin : s.content.drop s.pos = (c :: w) ++ rest) :
    Cuts (csvCfg seps quotes) s TT.word (c :: w) none rest := by
  have hc := (csvPlain_iff seps quotes c).mp (hall c List.mem_cons_self)
  have hd : (csvCfg seps quotes).dispatch.lookup c = some .word := by
    rw [csv_dispatch seps quotes c hc.1]
    have h1 : quotes.contains c = false := by
      cases h : quotes.contains c with
      | false => rfl
      | true => exact absurd (List.contains_iff_mem.mp h) hc.2.2.2.2
    have h2 : seps.contains c = false := by
      cases h : seps.contains c with
      | false => rfl
      | true => exact absurd (List.contains_iff_mem.mp h) hc.2.2.2.1
    rw [h1, h2]
    simp only [Bool.false_eq_true, if_false]
    rw [if_neg (by omega)]
  have h := rawNext_span (csvCfg seps quotes) s hw .word TT.word
    (inMap (csvCfg seps quotes).wordChars) c w rest hin hd (by decide) rfl
    (by
      intro x hx
      have hp := hall x hx
      show inMap (csvWordChars seps quotes) x = true
      rw [inMap_csvWordChars seps quotes x ((csvPlain_iff seps quotes x).mp hp).1]
      exact hp)
    (by
      intro x hx
      show inMap (csvWordChars seps quotes) x = false
      have hx' := hnext x hx
      have hxb : x ≤ 0xfffe := by
        rcases hx' with h | h | h | h
        · rw [h]; decide
        · rw [h]; decide
        · exact hb x (List.mem_append_left _ h)
        · exact hb x (List.mem_append_right _ h)
      rw [inMap_csvWordChars seps quotes x hxb, Bool.eq_false_iff]
      intro hp
      have := (csvPlain_iff seps quotes x).mp hp
      rcases hx' with h | h | h | h
      · exact this.2.2.1 h
      · exact this.2.1 h
      · exact this.2.2.2.1 h
      · exact this.2.2.2.2 h)
  apply Cuts.of_value (csvCfg seps quotes) (rawContract_csv seps quotes) s hw c w rest hin
  refine ⟨?_, h.2.1, h.2.2⟩
  rw [h.1]; rfl

/-! ## 3. quoted fields -/

/-- **C09 (quoted field)**: `encodeEsc q f` for a configured quote `q`, followed by anything
but another `q`, is one `Quoted` token; its decoded value is `f`. -/
theorem C09_quoted_field (seps quotes : List Rune) (hb : CsvBound seps quotes)
    (s : Scanner) (hw : s.WF) (q : Rune) (hq : q ∈ quotes) (f rest : List Rune)
    (hrest : rest.head? ≠ some q) (hin : s.content.drop s.pos = encodeEsc q f ++ rest) :
    Cuts (csvCfg seps quotes) s TT.quoted (encodeEsc q f) (some q) rest ∧
    decodeFor (csvCfg seps quotes) q (encodeEsc q f) = f := by
  refine ⟨?_, C14_decode_encode_esc q f⟩
  have henc : encodeEsc q f = q :: (doubleQ q f ++ [q]) := by simp [encodeEsc]
  have hin' : s.content.drop s.pos = (q :: (doubleQ q f ++ [q])) ++ rest := by rw [← henc]; exact hin
  have hrt := C14_token_roundtrip false q f rest hrest s hw hin (s.content.length + 2) (Nat.le_refl _)
  have hrun : runState (csvCfg seps quotes) .quote (s.content.length + 2) s
      = escQuoteState false (s.content.length + 2) s := rfl
  have hd : (csvCfg seps quotes).dispatch.lookup q = some .quote := by
    rw [csv_dispatch seps quotes q (hb q (List.mem_append_right _ hq)),
      List.contains_iff_mem.mpr hq]
    rfl
  obtain ⟨h1, h2, _⟩ := rawNext_of_state (csvCfg seps quotes) q s .quote hd
    (by rw [hrun, hrt.1, henc]; exact List.cons_ne_nil _ _)
  rw [henc]
  apply Cuts.of_value (csvCfg seps quotes) (rawContract_csv seps quotes) s hw q _ rest hin'
  refine ⟨?_, by rw [h1, hrun, hrt.1, henc], by rw [h2]; rfl⟩
  rw [h1, hrun]
  rfl

/-! ## 4. separators -/

/-- **C09 (separator)**: a configured separator is one `Symbol` token -/
theorem C09_separator (seps quotes : List Rune) (hv : csvValid seps quotes = true)
    (hb : CsvBound seps quotes) (s : Scanner) (hw : s.WF) (c : Rune) (hc : c ∈ seps)
    (rest : List Rune) (hin : s.content.drop s.pos = [c] ++ rest) :
    Cuts (csvCfg seps quotes) s TT.symbol [c] none rest := by
  obtain ⟨h1, h2⟩ := (csvValid_iff seps quotes).mp hv
  have hne := h1 c (List.mem_append_left _ hc)
  have hd : (csvCfg seps quotes).dispatch.lookup c = some .symbol := by
    rw [csv_dispatch seps quotes c (hb c (List.mem_append_left _ hc))]
    have hq : quotes.contains c = false := by
      cases h : quotes.contains c with
      | false => rfl
      | true => exact absurd (List.contains_iff_mem.mp h) (h2 c hc)
    rw [hq, List.contains_iff_mem.mpr hc]
    rfl
  obtain ⟨hr, _, _⟩ := read_drop_cons s c rest hin
  have hcond : (c != 10 && c != 13) = true := by
    simp [hne.1, hne.2.1]
  have hrun : (runState (csvCfg seps quotes) .symbol (s.content.length + 2) s).1
      = { typ := TT.symbol, value := [c], line := (s.read).2.line, col := (s.read).2.col } := by
    show (csvSymbolState (csvCfg seps quotes).symbols _ s).1 = _
    simp only [csvSymbolState, hr, hcond, if_true]
  obtain ⟨h3, h4, _⟩ := rawNext_of_state (csvCfg seps quotes) c s .symbol hd
    (by rw [hrun]; exact List.cons_ne_nil _ _)
  apply Cuts.of_value (csvCfg seps quotes) (rawContract_csv seps quotes) s hw c [] rest hin
  exact ⟨by rw [h3, hrun], by rw [h3, hrun], by rw [h4]; rfl⟩

/-! ## 5. assembly: fields → rows → table -/

/-- the per-lexeme condition of a written table: a raw field in front of a separator / quote /
line break / end, a quoted field not followed by its quote, a separator, or a line ending that
is not extended by what follows -/
def CsvOK (seps quotes : List Rune) (l : Lexeme) (rest : List Rune) : Prop :=
  (l.typ = TT.word ∧ l.quote = none ∧ l.text ≠ [] ∧ (∀ x ∈ l.text, csvPlain seps quotes x = true) ∧
    (∀ x, rest.head? = some x → x = 10 ∨ x = 13 ∨ x ∈ seps ∨ x ∈ quotes)) ∨
  (∃ q f, q ∈ quotes ∧ l = ⟨TT.quoted, encodeEsc q f, some q⟩ ∧ rest.head? ≠ some q) ∨
  (∃ c, c ∈ seps ∧ l = ⟨TT.symbol, [c], none⟩) ∨
  (l.typ = TT.eol ∧ l.quote = none ∧ isEolText l.text = true ∧
    (l.text = [10] → rest.head? ≠ some 13) ∧ (l.text = [13] → rest.head? ≠ some 10))

theorem csvOK_step (seps quotes : List Rune) (hv : csvValid seps quotes = true)
    (hb : CsvBound seps quotes) (s : Scanner) (l : Lexeme) (rest : List Rune) (hw : s.WF)
    (hin : s.content.drop s.pos = l.text ++ rest) (hok : CsvOK seps quotes l rest) :
    Cuts (csvCfg seps quotes) s l.typ l.text l.quote rest := by
  obtain ⟨typ, text, quote⟩ := l
  rcases hok with ⟨h1, h2, h3, h4, h5⟩ | ⟨q, f, hq, hl, hr⟩ | ⟨c, hc, hl⟩ | ⟨h1, h2, h3, h4, h5⟩
  · simp only at h1 h2 h3 h4 hin ⊢
    subst h1; subst h2
    cases text with
    | nil => exact absurd rfl h3
    | cons c w => exact C09_raw_field seps quotes hb s hw c w rest h4 h5 hin
  · cases hl
    exact (C09_quoted_field seps quotes hb s hw q hq f rest hr hin).1
  · cases hl
    exact C09_separator seps quotes hv hb s hw c hc rest hin
  · simp only at h1 h2 h3 h4 h5 hin ⊢
    subst h1; subst h2
    exact C09_eol_single seps quotes hv s hw text rest h3 ⟨h4, h5⟩ hin

/-! ### the written text is the text of the lexemes -/

theorem lexText_fieldLex (seps quotes : List Rune) (always : Bool) (q : Rune) (f : List Rune) :
    lexText (fieldLex seps quotes always q f) = writeField seps quotes always q f := by
  unfold fieldLex writeField
  split
  · simp [lexText]
  · split
    · rename_i h; rw [List.isEmpty_iff.mp h]; rfl
    · simp [lexText]

theorem lexText_rowLex (seps quotes : List Rune) (always : Bool) (q sep : Rune)
    (row : List (List Rune)) :
    lexText (rowLex seps quotes always q sep row) = writeRow seps quotes always q sep row := by
  induction row with
  | nil => rfl
  | cons f fs ih =>
    cases fs with
    | nil => exact lexText_fieldLex seps quotes always q f
    | cons f' fs' =>
      show lexText (fieldLex seps quotes always q f ++ _ :: rowLex seps quotes always q sep (f' :: fs')) = _
      rw [lexText_append, lexText_cons, ih, lexText_fieldLex]
      rfl

theorem lexText_tableLex (seps quotes : List Rune) (always : Bool) (q sep : Rune) (eol : List Rune)
    (rows : List (List (List Rune))) :
    lexText (tableLex seps quotes always q sep eol rows)
      = writeTable seps quotes always q sep eol rows := by
  induction rows with
  | nil => rfl
  | cons r rs ih =>
    cases rs with
    | nil => exact lexText_rowLex seps quotes always q sep r
    | cons r' rs' =>
      show lexText (rowLex seps quotes always q sep r ++ _ :: tableLex seps quotes always q sep eol (r' :: rs')) = _
      rw [lexText_append, lexText_cons, ih, lexText_rowLex]
      show _ = writeRow seps quotes always q sep r ++ eol ++ _
      rw [List.append_assoc]

/-! ### the lexemes of a written table satisfy `CsvOK` -/

/-- what may follow a field: nothing, a line break or a separator -/
def FieldEnd (seps : List Rune) (T : List Rune) : Prop :=
  ∀ x, T.head? = some x → x = 10 ∨ x = 13 ∨ x ∈ seps

theorem needsQuote_false (seps quotes : List Rune) (f : List Rune)
    (h : needsQuote seps quotes f = false) :
    ∀ x ∈ f, x ∉ seps ∧ x ∉ quotes ∧ x ≠ 10 ∧ x ≠ 13 := by
  intro x hx
  unfold needsQuote at h
  rw [List.any_eq_false] at h
  have := h x hx
  simp only [Bool.or_eq_true, beq_iff_eq, not_or, List.contains_iff_mem] at this
  exact ⟨this.1.1.1, this.1.1.2, this.1.2, this.2⟩

theorem field_chain (seps quotes : List Rune) (hv : csvValid seps quotes = true) (always : Bool)
    (q : Rune) (hq : q ∈ quotes) (f : List Rune) (hf : ∀ x ∈ f, x ≤ 0xfffe) (T : List Rune)
    (hT : FieldEnd seps T) :
    Chain (fun l r => CsvOK seps quotes l (r ++ T)) (fieldLex seps quotes always q f) := by
  obtain ⟨h1, h2⟩ := (csvValid_iff seps quotes).mp hv
  have hqne := h1 q (List.mem_append_right _ hq)
  unfold fieldLex
  split
  · refine ⟨Or.inr (Or.inl ⟨q, f, hq, rfl, ?_⟩), trivial⟩
    show (lexText [] ++ T).head? ≠ some q
    intro h
    rcases hT q h with h | h | h
    · exact hqne.2.1 h
    · exact hqne.1 h
    · exact h2 q h hq
  · rename_i hnq
    have hnq' : needsQuote seps quotes f = false := by
      cases hh : needsQuote seps quotes f with
      | false => rfl
      | true => rw [hh] at hnq; simp at hnq
    split
    · trivial
    · rename_i hne
      refine ⟨Or.inl ⟨rfl, rfl, ?_, ?_, ?_⟩, trivial⟩
      · intro h
        have h' : f = [] := h
        rw [h'] at hne; exact hne rfl
      · intro x hx
        have := needsQuote_false seps quotes f hnq' x hx
        exact (csvPlain_iff seps quotes x).mpr ⟨hf x hx, this.2.2.2, this.2.2.1, this.1, this.2.1⟩
      · intro x hx
        rcases hT x hx with h | h | h
        · exact Or.inl h
        · exact Or.inr (Or.inl h)
        · exact Or.inr (Or.inr (Or.inl h))

theorem row_chain (seps quotes : List Rune) (hv : csvValid seps quotes = true) (always : Bool)
    (q sep : Rune) (hq : q ∈ quotes) (hsep : sep ∈ seps) (row : List (List Rune))
    (hf : ∀ f ∈ row, ∀ x ∈ f, x ≤ 0xfffe) (T : List Rune) (hT : FieldEnd seps T) :
    Chain (fun l r => CsvOK seps quotes l (r ++ T)) (rowLex seps quotes always q sep row) := by
  induction row with
  | nil => trivial
  | cons f fs ih =>
    cases fs with
    | nil => exact field_chain seps quotes hv always q hq f (hf f List.mem_cons_self) T hT
    | cons f' fs' =>
      show Chain _ (fieldLex seps quotes always q f ++
        ⟨TT.symbol, [sep], none⟩ :: rowLex seps quotes always q sep (f' :: fs'))
      apply Chain.append
      · apply field_chain seps quotes hv always q hq f (hf f List.mem_cons_self)
        intro x hx
        rw [lexText_cons] at hx
        simp only [List.cons_append, List.nil_append, List.head?_cons, Option.some.injEq] at hx
        rw [← hx]; exact Or.inr (Or.inr hsep)
      · exact ⟨Or.inr (Or.inr (Or.inl ⟨sep, hsep, rfl⟩)),
          ih (fun g hg => hf g (List.mem_cons_of_mem _ hg))⟩

/-- the first rune of a written row (followed by `T`): a plain rune, the quote, the separator,
or the first rune of `T` -/
theorem row_first (seps quotes : List Rune) (always : Bool) (q sep : Rune)
    (row : List (List Rune)) (T : List Rune) (x : Rune)
    (hx : (lexText (rowLex seps quotes always q sep row) ++ T).head? = some x) :
    (x ≠ 10 ∧ x ≠ 13 ∧ x ∉ seps ∧ x ∉ quotes) ∨ x = q ∨ x = sep ∨ T.head? = some x := by
  have hfield : ∀ (f : List Rune) (T' : List Rune),
      (lexText (fieldLex seps quotes always q f) ++ T').head? = some x →
      (x ≠ 10 ∧ x ≠ 13 ∧ x ∉ seps ∧ x ∉ quotes) ∨ x = q ∨ T'.head? = some x := by
    intro f T' h
    unfold fieldLex at h
    split at h
    · simp [lexText, encodeEsc] at h
      exact Or.inr (Or.inl h.symm)
    · rename_i hnq
      have hnq' : needsQuote seps quotes f = false := by
        cases hh : needsQuote seps quotes f with
        | false => rfl
        | true => rw [hh] at hnq; simp at hnq
      split at h
      · exact Or.inr (Or.inr (by simpa [lexText] using h))
      · cases f with
        | nil => simp at *
        | cons a t =>
          simp [lexText] at h
          have := needsQuote_false seps quotes (a :: t) hnq' a List.mem_cons_self
          rw [h] at this
          exact Or.inl ⟨this.2.2.1, this.2.2.2, this.1, this.2.1⟩
  cases row with
  | nil => exact Or.inr (Or.inr (Or.inr (by simpa [rowLex, lexText] using hx)))
  | cons f fs =>
    cases fs with
    | nil =>
      rcases hfield f T hx with h | h | h
      · exact Or.inl h
      · exact Or.inr (Or.inl h)
      · exact Or.inr (Or.inr (Or.inr h))
    | cons f' fs' =>
      have hx' : (lexText (fieldLex seps quotes always q f) ++
          (sep :: (lexText (rowLex seps quotes always q sep (f' :: fs')) ++ T))).head? = some x := by
        have e : lexText (rowLex seps quotes always q sep (f :: f' :: fs')) =
            lexText (fieldLex seps quotes always q f) ++
              (sep :: lexText (rowLex seps quotes always q sep (f' :: fs'))) := by
          show lexText (fieldLex seps quotes always q f ++ _ :: _) = _
          rw [lexText_append, lexText_cons]; rfl
        rw [e, List.append_assoc] at hx
        exact hx
      rcases hfield f _ hx' with h | h | h
      · exact Or.inl h
      · exact Or.inr (Or.inl h)
      · simp only [List.head?_cons, Option.some.injEq] at h
        exact Or.inr (Or.inr (Or.inl h.symm))

/-- the first rune of a written table is a plain rune, the quote, the separator or the first
rune of the line ending -/
theorem table_first (seps quotes : List Rune) (always : Bool) (q sep : Rune) (eol : List Rune)
    (heol : eol ≠ []) (rows : List (List (List Rune))) (x : Rune)
    (hx : (lexText (tableLex seps quotes always q sep eol rows)).head? = some x) :
    (x ≠ 10 ∧ x ≠ 13 ∧ x ∉ seps ∧ x ∉ quotes) ∨ x = q ∨ x = sep ∨ eol.head? = some x := by
  cases rows with
  | nil => simp [tableLex, lexText] at hx
  | cons r rs =>
    cases rs with
    | nil =>
      have hx' : (lexText (rowLex seps quotes always q sep r) ++ []).head? = some x := by
        rw [List.append_nil]; exact hx
      rcases row_first seps quotes always q sep r [] x hx' with h | h | h | h
      · exact Or.inl h
      · exact Or.inr (Or.inl h)
      · exact Or.inr (Or.inr (Or.inl h))
      · simp at h
    | cons r' rs' =>
      have e : lexText (tableLex seps quotes always q sep eol (r :: r' :: rs')) =
          lexText (rowLex seps quotes always q sep r) ++
            (eol ++ lexText (tableLex seps quotes always q sep eol (r' :: rs'))) := by
        show lexText (rowLex seps quotes always q sep r ++ _ :: _) = _
        rw [lexText_append, lexText_cons]
      rw [e] at hx
      rcases row_first seps quotes always q sep r _ x hx with h | h | h | h
      · exact Or.inl h
      · exact Or.inr (Or.inl h)
      · exact Or.inr (Or.inr (Or.inl h))
      · cases eol with
        | nil => exact absurd rfl heol
        | cons a t =>
          simp only [List.cons_append, List.head?_cons] at h ⊢
          exact Or.inr (Or.inr (Or.inr h))

theorem isEolText_cases (e : List Rune) (h : isEolText e = true) :
    e = [10] ∨ e = [13] ∨ e = [13, 10] ∨ e = [10, 13] := by
  simp only [isEolText, Bool.or_eq_true, beq_iff_eq] at h
  rcases h with ((h | h) | h) | h
  · exact Or.inl h
  · exact Or.inr (Or.inl h)
  · exact Or.inr (Or.inr (Or.inl h))
  · exact Or.inr (Or.inr (Or.inr h))

theorem table_chain (seps quotes : List Rune) (hv : csvValid seps quotes = true) (always : Bool)
    (q sep : Rune) (hq : q ∈ quotes) (hsep : sep ∈ seps) (eol : List Rune)
    (heol : isEolText eol = true) (rows : List (List (List Rune)))
    (hf : ∀ r ∈ rows, ∀ f ∈ r, ∀ x ∈ f, x ≤ 0xfffe) :
    Chain (fun l r => CsvOK seps quotes l (r ++ [])) (tableLex seps quotes always q sep eol rows) := by
  obtain ⟨h1, h2⟩ := (csvValid_iff seps quotes).mp hv
  have hqne := h1 q (List.mem_append_right _ hq)
  have hsne := h1 sep (List.mem_append_left _ hsep)
  have hene : eol ≠ [] := by
    rcases isEolText_cases eol heol with h | h | h | h <;> rw [h] <;> exact List.cons_ne_nil _ _
  induction rows with
  | nil => trivial
  | cons r rs ih =>
    cases rs with
    | nil =>
      exact row_chain seps quotes hv always q sep hq hsep r (hf r List.mem_cons_self) []
        (fun x hx => by simp at hx)
    | cons r' rs' =>
      show Chain _ (rowLex seps quotes always q sep r ++
        ⟨TT.eol, eol, none⟩ :: tableLex seps quotes always q sep eol (r' :: rs'))
      apply Chain.append
      · apply row_chain seps quotes hv always q sep hq hsep r (hf r List.mem_cons_self)
        intro x hx
        rw [lexText_cons] at hx
        rcases isEolText_cases eol heol with h | h | h | h <;> rw [h] at hx <;>
          simp only [List.cons_append, List.head?_cons, Option.some.injEq] at hx <;>
          rw [← hx] <;> simp
      · refine ⟨Or.inr (Or.inr (Or.inr ⟨rfl, rfl, heol, ?_, ?_⟩)),
          ih (fun g hg => hf g (List.mem_cons_of_mem _ hg))⟩
        · intro he hx
          have hx' : (lexText (tableLex seps quotes always q sep eol (r' :: rs'))).head? = some 13 := by
            rw [List.append_nil] at hx; exact hx
          rcases table_first seps quotes always q sep eol hene _ 13 hx' with h | h | h | h
          · exact h.2.1 rfl
          · exact hqne.1 h.symm
          · exact hsne.1 h.symm
          · have he' : eol = [10] := he
            rw [he'] at h; simp at h
        · intro he hx
          have hx' : (lexText (tableLex seps quotes always q sep eol (r' :: rs'))).head? = some 10 := by
            rw [List.append_nil] at hx; exact hx
          rcases table_first seps quotes always q sep eol hene _ 10 hx' with h | h | h | h
          · exact h.1 rfl
          · exact hqne.2.1 h.symm
          · exact hsne.2.1 h.symm
          · have he' : eol = [13] := he
            rw [he'] at h; simp at h

/-! ### regrouping the tokens of a written table -/

theorem regroup_field (seps quotes : List Rune) (always : Bool) (q : Rune) (f : List Rune)
    (more : List (Nat × List Rune)) (fld : List Rune) (row : List (List Rune))
    (rows : List (List (List Rune))) :
    regroupP ((fieldLex seps quotes always q f).map (lexPair (csvCfg seps quotes)) ++ more)
        fld row rows = regroupP more (fld ++ f) row rows := by
  unfold fieldLex
  split
  · have hd : decodeFor (csvCfg seps quotes) q (encodeEsc q f) = f := C14_decode_encode_esc q f
    simp only [List.map_cons, List.map_nil, List.cons_append, List.nil_append, lexPair, hd]
    rfl
  · split
    · rename_i h
      rw [List.isEmpty_iff.mp h]
      simp
    · simp only [List.map_cons, List.map_nil, List.cons_append, List.nil_append, lexPair]
      rfl

theorem regroup_row (seps quotes : List Rune) (always : Bool) (q sep : Rune) :
    ∀ (fs : List (List Rune)) (f : List Rune) (more : List (Nat × List Rune))
      (acc : List (List Rune)) (rows : List (List (List Rune))),
      regroupP ((rowLex seps quotes always q sep (f :: fs)).map (lexPair (csvCfg seps quotes)) ++ more)
        [] acc rows
      = regroupP more ((f :: fs).getLast (List.cons_ne_nil _ _)) (acc ++ (f :: fs).dropLast) rows := by
  intro fs
  induction fs with
  | nil =>
    intro f more acc rows
    show regroupP ((fieldLex seps quotes always q f).map _ ++ more) [] acc rows = _
    rw [regroup_field]
    simp
  | cons f' fs' ih =>
    intro f more acc rows
    show regroupP ((fieldLex seps quotes always q f ++
      ⟨TT.symbol, [sep], none⟩ :: rowLex seps quotes always q sep (f' :: fs')).map _ ++ more)
      [] acc rows = _
    rw [List.map_append, List.append_assoc, regroup_field, List.map_cons, List.cons_append]
    show regroupP ((rowLex seps quotes always q sep (f' :: fs')).map _ ++ more) [] (acc ++ [[] ++ f]) rows = _
    rw [ih]
    simp

theorem regroup_table (seps quotes : List Rune) (always : Bool) (q sep : Rune) (eol : List Rune) :
    ∀ (rows' : List (List (List Rune))), rows' ≠ [] → (∀ r ∈ rows', r ≠ []) →
      ∀ (rows : List (List (List Rune))),
      regroupP ((tableLex seps quotes always q sep eol rows').map (lexPair (csvCfg seps quotes))
        ++ [(TT.eof, [])]) [] [] rows = rows ++ rows' := by
  intro rows'
  induction rows' with
  | nil => intro h; exact absurd rfl h
  | cons r rs ih =>
    intro _ hne rows
    have hr := hne r List.mem_cons_self
    cases r with
    | nil => exact absurd rfl hr
    | cons f fs =>
      cases rs with
      | nil =>
        show regroupP ((rowLex seps quotes always q sep (f :: fs)).map _ ++ [(TT.eof, [])]) [] [] rows = _
        rw [regroup_row]
        show rows ++ [([] ++ (f :: fs).dropLast) ++ [(f :: fs).getLast _]] = _
        rw [List.nil_append, List.dropLast_concat_getLast]
      | cons r' rs' =>
        show regroupP ((rowLex seps quotes always q sep (f :: fs) ++
          ⟨TT.eol, eol, none⟩ :: tableLex seps quotes always q sep eol (r' :: rs')).map _
          ++ [(TT.eof, [])]) [] [] rows = _
        rw [List.map_append, List.append_assoc, regroup_row, List.map_cons, List.cons_append]
        show regroupP ((tableLex seps quotes always q sep eol (r' :: rs')).map _ ++ [(TT.eof, [])])
          [] [] (rows ++ [([] ++ (f :: fs).dropLast) ++ [(f :: fs).getLast _]]) = _
        rw [List.nil_append, List.dropLast_concat_getLast,
          ih (List.cons_ne_nil _ _) (fun g hg => hne g (List.mem_cons_of_mem _ hg))]
        simp

/-! ## the round trip -/

/-- **C09**: for valid separators and quotes (≤ U+FFFE), a chosen separator `sep`, quote `q`
and line ending `eol` (LF, CR, CRLF or LFCR), any non-empty table with non-empty rows of fields
over runes ≤ U+FFFE — each field written raw when it contains no separator, quote or line
break (or quote-encoded anyway when `always` is set), else quote-encoded — the written text,
tokenized with string decoding enabled and regrouped at Eol / separator tokens, is the original
table. -/
theorem C09_roundtrip (seps quotes : List Rune) (hv : csvValid seps quotes = true)
    (hb : CsvBound seps quotes) (always : Bool) (q sep : Rune) (hq : q ∈ quotes)
    (hsep : sep ∈ seps) (eol : List Rune) (heol : isEolText eol = true)
    (rows : List (List (List Rune))) (hrows : rows ≠ []) (hrow : ∀ r ∈ rows, r ≠ [])
    (hf : ∀ r ∈ rows, ∀ f ∈ r, ∀ x ∈ f, x ≤ 0xfffe) :
    regroup (tokenize (csvCfg seps quotes) Opts.decodeOn
      (writeTable seps quotes always q sep eol rows)) = rows := by
  have hch : Chain (CsvOK seps quotes) (tableLex seps quotes always q sep eol rows) :=
    Chain.imp (fun l r h => by rw [List.append_nil] at h; exact h)
      (table_chain seps quotes hv always q sep hq hsep eol heol rows hf)
  have ht := tokenize_of_chain_decode (csvCfg seps quotes)
    (show Kind.csv ≠ Kind.mustache by decide) (rawContract_csv seps quotes) (CsvOK seps quotes)
    (fun s l rest hw hin hok => csvOK_step seps quotes hv hb s l rest hw hin hok)
    (tableLex seps quotes always q sep eol rows) hch
  rw [lexText_tableLex] at ht
  unfold regroup
  rw [ht, regroup_table seps quotes always q sep eol rows hrows hrow []]
  rfl

/-- instance: a single row -/
theorem C09_roundtrip_single_row (seps quotes : List Rune) (hv : csvValid seps quotes = true)
    (hb : CsvBound seps quotes) (always : Bool) (q sep : Rune) (hq : q ∈ quotes)
    (hsep : sep ∈ seps) (row : List (List Rune)) (hrow : row ≠ [])
    (hf : ∀ f ∈ row, ∀ x ∈ f, x ≤ 0xfffe) :
    regroup (tokenize (csvCfg seps quotes) Opts.decodeOn
      (writeRow seps quotes always q sep row)) = [row] := by
  have := C09_roundtrip seps quotes hv hb always q sep hq hsep [10] (by decide) [row]
    (List.cons_ne_nil _ _) (by intro r hr; simp at hr; rw [hr]; exact hrow)
    (by intro r hr; simp at hr; rw [hr]; exact hf)
  exact this

/-! ## non-vacuity and the limits of the statement (kernel-checked) -/

/-- separators `,` `;`, quotes `"` `'`, CRLF line ending, table
`[["a,", "", "'b"], [""], ["<LF><CR>", "中"]]`: a field with a separator, an empty field, a
field with the quote, an empty row, a field holding a line break, a non-Latin field. -/
example :
    let rows : List (List (List Rune)) := [[[97, 44], [], [39, 98]], [[]], [[10, 13], [0x4e2d]]]
    csvValid [44, 59] [34, 39] = true ∧
    writeTable [44, 59] [34, 39] false 39 59 [13, 10] rows =
      [39, 97, 44, 39, 59, 59, 39, 39, 39, 98, 39, 13, 10, 13, 10, 39, 10, 13, 39, 59, 20013] ∧
    regroup (tokenize (csvCfg [44, 59] [34, 39]) Opts.decodeOn
      (writeTable [44, 59] [34, 39] false 39 59 [13, 10] rows)) = rows := by decide

/-- why the table and every row must be non-empty: the empty table, the table with one empty
row and the table with one row holding one empty field are all written as the empty text. -/
example : writeTable [44] [34] false 34 44 [10] [] = [] ∧
    writeTable [44] [34] false 34 44 [10] [[]] = [] ∧
    writeTable [44] [34] false 34 44 [10] [[[]]] = [] := by decide

/-- **finding** (why `CsvBound` is needed): a separator ≥ U+FFFF passes `csvValid`, but its
registration is clamped to an empty interval — it is neither dispatched to the symbol state nor
removed from the word characters; the two fields `a`, `b` come back as ONE field (the
separator arrives as an Unknown token). -/
theorem C09_separator_above_FFFE_not_recognised :
    csvValid [0x10000] [34] = true ∧
    (tokenize (csvCfg [0x10000] [34]) Opts.decodeOn [97, 0x10000, 98]).map (fun t => (t.typ, t.value))
      = [(TT.word, [97]), (TT.unknown, [0x10000]), (TT.word, [98]), (TT.eof, [])] ∧
    regroup (tokenize (csvCfg [0x10000] [34]) Opts.decodeOn
      (writeTable [0x10000] [34] false 34 0x10000 [10] [[[97], [98]]])) = [[[97, 0x10000, 98]]] := by
  decide

/-- the same for U+FFFF itself (the first rune outside every character map) -/
example : regroup (tokenize (csvCfg [0xffff] [34]) Opts.decodeOn
    (writeTable [0xffff] [34] false 34 0xffff [10] [[[97], [98]]])) = [[[97, 0xffff, 98]]] := by
  decide

/-- why fields are bounded by U+FFFE: U+FFFF in a field is not a word character; it is cut
off as an Unknown token. -/
example : (tokenize (csvCfg [44] [34]) Opts.decodeOn [0xffff, 97]).map (fun t => (t.typ, t.value))
    = [(TT.unknown, [0xffff]), (TT.word, [97]), (TT.eof, [])] := by decide

end Verif
