/-
The main loop: one segmentation step (`rawNext`) satisfies the contract `RawOK` for each of the
four built-in configurations; `readNextA` / `rawSpec` do not depend on their fuel once it
exceeds the number of remaining slots; and the token stream factors through the option-free
segmentation (`tokenize = streamSpec`).  Foundation of C04, C12 and C15.
-/
import Verif.Lemmas.SegQuote
import Verif.Lemmas.SegSym
import Verif.Model.Tokenizer
import Verif.Props.C17
import Verif.Spec.Stream

namespace Verif
open Scanner

/-! ## (a) the contract of one segmentation step -/

structure RawOK (c : List Rune) (p0 : Nat) (r : Raw × Scanner) : Prop where
  content : r.2.content = c
  wf : r.2.WF
  progress : p0 < r.2.pos
  seg : r.1.tok.value = slice c p0 (min r.2.pos c.length)
  pos : (r.1.tok.line, r.1.tok.col) = lcUpTo c (p0 + 1)
  notEof : r.1.tok.typ ≠ TT.eof

def RawContract (cfg : Cfg) : Prop :=
  ∀ (s : Scanner) (ch : Rune), s.WF → s.peek = some ch → RawOK s.content s.pos (rawNext cfg ch s)

/-- what one state invocation guarantees: slice, position of the first character, type ≠ Eof -/
structure StOK (s : Scanner) (r : Tok × Scanner) : Prop where
  seg : SegOK s.content s.pos r.1.value r.2
  pos : (r.1.line, r.1.col) = lcUpTo s.content (s.pos + 1)
  typ : r.1.typ ≠ TT.eof

theorem peek_some_lt {s : Scanner} {ch : Rune} (h : s.peek = some ch) :
    s.pos < s.content.length ∧ s.content[s.pos]? = some ch := by
  rw [peek_eq] at h
  exact ⟨(List.getElem?_eq_some_iff.mp h).1, h⟩

/-! ### symbol tables never store the Eof type -/

def SymTab.TypesOK (t : SymTab) : Prop := ∀ e ∈ t.nodes, e.2.2 ≠ TT.eof

theorem SymTab.empty_typesOK : SymTab.empty.TypesOK := by
  intro e he; exact absurd he List.not_mem_nil

theorem SymTab.setL_mem (p : List Rune) (v : Bool × Nat) (l : List (List Rune × (Bool × Nat)))
    (e : List Rune × (Bool × Nat)) (he : e ∈ SymTab.setL p v l) : e = (p, v) ∨ e ∈ l := by
  induction l with
  | nil =>
    simp only [SymTab.setL, List.mem_singleton] at he
    exact Or.inl he
  | cons x xs ih =>
    simp only [SymTab.setL] at he
    split at he
    · simp only [List.mem_cons] at he
      rcases he with h | h
      · exact Or.inl h
      · exact Or.inr (List.mem_cons_of_mem _ h)
    · simp only [List.mem_cons] at he
      rcases he with h | h
      · exact Or.inr (by rw [h]; exact List.mem_cons_self)
      · rcases ih h with h' | h'
        · exact Or.inl h'
        · exact Or.inr (List.mem_cons_of_mem _ h')

theorem SymTab.set_typesOK (t : SymTab) (p : List Rune) (v : Bool × Nat) (h : t.TypesOK)
    (hv : v.2 ≠ TT.eof) : (t.set p v).TypesOK := by
  intro e he
  rcases SymTab.setL_mem p v t.nodes e he with h' | h'
  · rw [h']; exact hv
  · exact h e h'

theorem SymTab.ensure_typesOK (t : SymTab) (p : List Rune) (h : t.TypesOK) :
    (t.ensure p).TypesOK := by
  unfold SymTab.ensure
  split
  · exact h
  · exact SymTab.set_typesOK t p _ h (by decide)

theorem SymTab.ensureLine_typesOK (t : SymTab) (pre rest : List Rune) (h : t.TypesOK) :
    (t.ensureLine pre rest).TypesOK := by
  induction rest generalizing t pre with
  | nil => exact h
  | cons c rest ih => exact ih _ _ (SymTab.ensure_typesOK t _ h)

theorem SymTab.add_typesOK (t : SymTab) (sym : List Rune) (typ : Nat) (h : t.TypesOK)
    (ht : typ ≠ TT.eof) : (t.add sym typ).TypesOK := by
  cases sym with
  | nil => exact h
  | cons c0 rest =>
    simp only [SymTab.add]
    apply SymTab.set_typesOK _ _ _ _ ht
    apply SymTab.ensureLine_typesOK
    split
    · exact SymTab.set_typesOK _ _ _ (SymTab.ensure_typesOK t _ h) (by decide)
    · exact SymTab.ensure_typesOK t _ h

theorem addSyms_typesOK (l : List (String × Nat)) (t : SymTab) (h : t.TypesOK)
    (hl : ∀ e ∈ l, e.2 ≠ TT.eof) : (addSyms t l).TypesOK := by
  induction l generalizing t with
  | nil => exact h
  | cons e es ih =>
    show (addSyms (t.add (strOf e.1) e.2) es).TypesOK
    exact ih _ (SymTab.add_typesOK t _ _ h (hl e List.mem_cons_self))
      (fun e' he' => hl e' (List.mem_cons_of_mem _ he'))

theorem SymTab.typeOf_ne_eof (t : SymTab) (h : t.TypesOK) (p : List Rune) : t.typeOf p ≠ TT.eof := by
  unfold SymTab.typeOf SymTab.get
  cases hf : t.nodes.find? (fun e => e.1 == p) with
  | none => simp only [Option.map_none, Option.getD_none]; decide
  | some e =>
    simp only [Option.map_some, Option.getD_some]
    exact h e (List.mem_of_find?_eq_some hf)

/-! ### token types of the states -/

theorem symNextToken_typ (t : SymTab) (h : t.TypesOK) (f : Nat) (s : Scanner) :
    (t.nextToken f s).1.typ ≠ TT.eof := by
  simp only [SymTab.nextToken]
  split
  · exact (by decide : TT.symbol ≠ TT.eof)
  · split
    · exact SymTab.typeOf_ne_eof t h _
    · exact (by decide : TT.symbol ≠ TT.eof)

theorem csvSymbolState_typ (t : SymTab) (h : t.TypesOK) (f : Nat) (s : Scanner) :
    (csvSymbolState t f s).1.typ ≠ TT.eof := by
  simp only [csvSymbolState]
  split
  · split
    · exact (by decide : TT.symbol ≠ TT.eof)
    · exact symNextToken_typ t h f _
  · exact (by decide : TT.symbol ≠ TT.eof)

theorem numberState_typ (sym : Scanner → Tok × Scanner) (f : Nat) (s : Scanner)
    (hsym : ∀ s', (sym s').1.typ ≠ TT.eof) : (numberState sym f s).1.typ ≠ TT.eof := by
  rw [numberState_eq]
  split
  · exact hsym _
  · simp only
    split <;> decide

theorem exprNumberState_typ (sym : Scanner → Tok × Scanner) (f : Nat) (s : Scanner)
    (hsym : ∀ s', (sym s').1.typ ≠ TT.eof) : (exprNumberState sym f s).1.typ ≠ TT.eof := by
  have hg := numberState_typ sym f s hsym
  rw [exprNumberState_eq]
  split
  · exact hsym s
  · split
    · exact hg
    · split
      · exact hg
      · split
        · exact hg
        · split
          · exact hg
          · exact (by decide : TT.float ≠ TT.eof)

theorem cCommentState_typ (sym : Scanner → Tok × Scanner) (f : Nat) (s : Scanner)
    (hsym : ∀ s', (sym s').1.typ ≠ TT.eof) : (cCommentState sym f s).1.typ ≠ TT.eof := by
  simp only [cCommentState]
  split
  · exact (by decide : TT.comment ≠ TT.eof)
  · exact hsym _

/-! ### every state of every configuration meets `StOK` -/

theorem symState_ok (cfg : Cfg) (htab : cfg.symbols.TypesOK) (f : Nat) (s : Scanner) (hw : s.WF)
    (hp : s.pos < s.content.length) : StOK s (symState cfg f s) := by
  unfold symState
  split
  · exact ⟨csvSymbolState_seg _ f s hw hp, csvSymbolState_pos _ f s hw hp,
      csvSymbolState_typ _ htab f s⟩
  · exact ⟨symNextToken_seg _ f s hw hp, symNextToken_pos _ f s hw hp,
      symNextToken_typ _ htab f s⟩

theorem symState_typ (cfg : Cfg) (htab : cfg.symbols.TypesOK) (f : Nat) (s : Scanner) :
    (symState cfg f s).1.typ ≠ TT.eof := by
  unfold symState
  split
  · exact csvSymbolState_typ _ htab f s
  · exact symNextToken_typ _ htab f s

/-- the symbol state as the fall-back of number / comment states: any well-formed scanner at the
same content and position IS the entry scanner -/
theorem symState_contract (cfg : Cfg) (htab : cfg.symbols.TypesOK) (f : Nat) (s : Scanner)
    (hw : s.WF) (hp : s.pos < s.content.length) :
    ∀ s' : Scanner, s'.WF → s'.content = s.content → s'.pos = s.pos →
      SegOK s.content s.pos (symState cfg f s').1.value (symState cfg f s').2 := by
  intro s' hw' hc' hp'
  rw [Scanner.wf_ext s s' hw hw' hc' hp']
  exact (symState_ok cfg htab f s hw hp).seg

theorem symState_contractPos (cfg : Cfg) (htab : cfg.symbols.TypesOK) (f : Nat) (s : Scanner)
    (hw : s.WF) (hp : s.pos < s.content.length) :
    ∀ s' : Scanner, s'.WF → s'.content = s.content → s'.pos = s.pos →
      ((symState cfg f s').1.line, (symState cfg f s').1.col) = lcUpTo s.content (s.pos + 1) := by
  intro s' hw' hc' hp'
  rw [Scanner.wf_ext s s' hw hw' hc' hp']
  exact (symState_ok cfg htab f s hw hp).pos

theorem spanState_ok (typ : Nat) (ht : typ ≠ TT.eof) (p : Rune → Bool) (f : Nat) (s : Scanner)
    (hw : s.WF) (hp : s.pos < s.content.length) : StOK s (spanState typ p f s) :=
  ⟨spanState_seg typ p f s hw (Nat.le_of_lt hp), read_lc s hw (Nat.le_of_lt hp), ht⟩

theorem exprWordState_ok (cfg : Cfg) (f : Nat) (s : Scanner) (hw : s.WF)
    (hp : s.pos < s.content.length) : StOK s (exprWordState cfg f s) := by
  have h := spanState_ok TT.word (by decide) (inMap cfg.wordChars) f s hw hp
  unfold exprWordState
  simp only
  split
  · exact ⟨h.seg, peekLC_eq s hw hp, (by decide : TT.keyword ≠ TT.eof)⟩
  · exact h

theorem runState_ok (cfg : Cfg) (htab : cfg.symbols.TypesOK) (sid : StateId) (s : Scanner)
    (hw : s.WF) (hp : s.pos < s.content.length)
    (h47 : cfg.kind = .expression → sid = .comment → s.peek = some 47) :
    StOK s (runState cfg sid (s.content.length + 2) s) := by
  have hsymT : ∀ s', (symState cfg (s.content.length + 2) s').1.typ ≠ TT.eof :=
    fun s' => symState_typ cfg htab _ s'
  have hsymS := symState_contract cfg htab (s.content.length + 2) s hw hp
  have hsymP := symState_contractPos cfg htab (s.content.length + 2) s hw hp
  cases sid with
  | symbol => exact symState_ok cfg htab _ s hw hp
  | whitespace => exact spanState_ok _ (by decide) _ _ s hw hp
  | word =>
    simp only [runState]
    split
    · exact exprWordState_ok cfg _ s hw hp
    · exact spanState_ok _ (by decide) _ _ s hw hp
  | number =>
    simp only [runState]
    split
    · exact ⟨exprNumberState_seg _ _ s hw hp hsymS, exprNumberState_pos _ _ s hw hp hsymP,
        exprNumberState_typ _ _ s hsymT⟩
    · exact ⟨numberState_seg _ _ s hw hp hsymS, numberState_pos _ _ s hw hp hsymP,
        numberState_typ _ _ s hsymT⟩
  | quote =>
    simp only [runState]
    split
    · refine ⟨escQuoteState_seg _ _ s hw hp (by omega), escQuoteState_pos _ _ s hw hp, ?_⟩
      simp only [escQuoteState]
      split <;> decide
    · refine ⟨escQuoteState_seg _ _ s hw hp (by omega), escQuoteState_pos _ _ s hw hp, ?_⟩
      simp only [escQuoteState]
      split <;> decide
    · exact ⟨genericQuoteState_seg _ s hw hp (by omega), genericQuoteState_pos _ s hw hp,
        by simp only [genericQuoteState]; decide⟩
  | comment =>
    simp only [runState]
    split
    · rename_i hk
      exact ⟨cCommentState_seg' _ _ s hw hp (h47 hk rfl) (by omega) hsymS,
        cCommentState_pos _ _ s hw hp hsymP, cCommentState_typ _ _ s hsymT⟩
    · exact spanState_ok _ (by decide) _ _ s hw hp

/-! ### the Unknown fall-back and the contract of `rawNext` -/

theorem fallback_ok (s : Scanner) (ch : Rune) (hw : s.WF) (hpk : s.peek = some ch)
    (r : Tok × Scanner) (q : Option Rune)
    (hseg : SegOK s.content s.pos r.1.value r.2)
    (hne : r.1.value ≠ [] →
      (r.1.line, r.1.col) = lcUpTo s.content (s.pos + 1) ∧ r.1.typ ≠ TT.eof) :
    RawOK s.content s.pos
      (if r.1.value.isEmpty then
        (⟨{ typ := TT.unknown, value := [(r.2.read).1.getD 0xFFFD], line := s.peekLine,
            col := s.peekColumn }, q⟩, (r.2.read).2)
       else (⟨r.1, q⟩, r.2)) := by
  obtain ⟨hp, hget⟩ := peek_some_lt hpk
  have hlen := congrArg List.length hseg.seg
  rw [slice_length] at hlen
  have hmono := hseg.mono
  split
  · rename_i hemp
    have hv : r.1.value = [] := List.isEmpty_iff.mp hemp
    rw [hv, List.length_nil] at hlen
    have hpos : r.2.pos = s.pos := by omega
    have hrs : r.2 = s := Scanner.wf_ext s r.2 hw hseg.wf hseg.content hpos
    rw [hrs]
    have hr := read_pos_lt s hp
    refine ⟨read_content s, read_wf s hw, by rw [hr.2]; omega, ?_, peekLC_eq s hw hp,
      (by decide : TT.unknown ≠ TT.eof)⟩
    show [(s.read).1.getD 0xFFFD] = _
    rw [hr.1, hr.2]
    have : min (s.pos + 1) s.content.length = s.pos + 1 := by omega
    rw [this, slice_one s.content s.pos ch hget]
    have e := List.getElem?_eq_getElem hp
    rw [e] at hget
    rw [Option.some.inj hget]
    rfl
  · rename_i hemp
    have hv : r.1.value ≠ [] := fun h => hemp (List.isEmpty_iff.mpr h)
    have hl : 0 < r.1.value.length := List.length_pos_iff.mpr hv
    refine ⟨hseg.content, hseg.wf, by show s.pos < r.2.pos; omega, hseg.seg, (hne hv).1, (hne hv).2⟩

/-- every configuration whose symbol table stores no Eof type and whose C-comment state (kind
`expression`) is dispatched on `/` only meets the contract -/
theorem rawContract_of (cfg : Cfg) (htab : cfg.symbols.TypesOK)
    (h47 : cfg.kind = .expression → ∀ ch, cfg.dispatch.lookup ch = some .comment → ch = 47) :
    RawContract cfg := by
  intro s ch hw hpk
  obtain ⟨hp, _⟩ := peek_some_lt hpk
  unfold rawNext
  simp only
  apply fallback_ok s ch hw hpk
  · cases hd : cfg.dispatch.lookup ch with
    | none => exact ⟨rfl, hw, Nat.le_refl _, by
        rw [Nat.min_eq_left (Nat.le_of_lt hp), slice_self]⟩
    | some id =>
      exact (runState_ok cfg htab id s hw hp (fun hk hid => by
        rw [hid] at hd; rw [h47 hk ch hd] at hpk; exact hpk)).seg
  · cases hd : cfg.dispatch.lookup ch with
    | none => intro h; exact absurd rfl h
    | some id =>
      intro _
      have := runState_ok cfg htab id s hw hp (fun hk hid => by
        rw [hid] at hd; rw [h47 hk ch hd] at hpk; exact hpk)
      exact ⟨this.pos, this.typ⟩

/-! ### the four built-in configurations -/

theorem setStates_inv (l : List (Nat × Nat × StateId)) (m : CharMap StateId) (h : m.Inv) :
    (setStates m l).Inv := by
  induction l generalizing m with
  | nil => exact h
  | cons e es ih => exact ih _ (CharMap.add_inv m _ _ _ h)

/-- a dispatch answer comes from one of the registered ranges (or from the initial map) -/
theorem setStates_lookup_mem (l : List (Nat × Nat × StateId)) (m : CharMap StateId) (hm : m.Inv)
    (c : Nat) (x : StateId) (h : (setStates m l).lookup c = some x) :
    (∃ e ∈ l, e.2.2 = x ∧ e.1 ≤ c ∧ c ≤ CharMap.clampEnd e.2.1) ∨ m.lookup c = some x := by
  induction l generalizing m with
  | nil => exact Or.inr h
  | cons e es ih =>
    have h' : (setStates (m.add e.1 e.2.1 (some e.2.2)) es).lookup c = some x := h
    rcases ih _ (CharMap.add_inv m _ _ _ hm) h' with ⟨e', he', h1⟩ | h1
    · exact Or.inl ⟨e', List.mem_cons_of_mem _ he', h1⟩
    · rw [CharMap.lookup_add m _ _ _ c hm] at h1
      split at h1
      · rename_i hr
        exact Or.inl ⟨e, List.mem_cons_self, Option.some.inj h1, hr.1, hr.2⟩
      · exact Or.inr h1

theorem expression_comment_47 (ch : Rune)
    (h : expressionCfg.dispatch.lookup ch = some .comment) : ch = 47 := by
  have h' : (setStates CharMap.empty
      [(0, 0xffff, .symbol), (0, 32, .whitespace), (97, 122, .word), (65, 90, .word),
       (0xc0, 0xff, .word), (95, 95, .word), (48, 57, .number), (45, 45, .number),
       (46, 46, .number), (34, 34, .quote), (39, 39, .quote), (47, 47, .comment)]).lookup ch
      = some StateId.comment := h
  rcases setStates_lookup_mem _ _ CharMap.empty_inv ch _ h' with ⟨e, he, h1, h2, h3⟩ | h1
  · simp only [List.mem_cons, List.not_mem_nil, or_false] at he
    rcases he with rfl | rfl | rfl | rfl | rfl | rfl | rfl | rfl | rfl | rfl | rfl | rfl
    all_goals first
      | exact absurd h1 (by decide)
      | (have e47 : CharMap.clampEnd 47 = 47 := by decide
         have h2' : 47 ≤ ch := h2
         have h3' : ch ≤ 47 := by rw [← e47]; exact h3
         exact Nat.le_antisymm h3' h2')
  · rw [CharMap.lookup_empty] at h1
    exact absurd h1 (by decide)


theorem genericSyms_ok : genericCfg.symbols.TypesOK :=
  addSyms_typesOK _ _ SymTab.empty_typesOK (by decide)

theorem expressionSyms_ok : expressionCfg.symbols.TypesOK :=
  addSyms_typesOK _ _ SymTab.empty_typesOK (by decide)

theorem csvSyms_ok : csvSymbols.TypesOK :=
  addSyms_typesOK _ _ SymTab.empty_typesOK (by decide)

theorem mustacheSyms_ok : mustacheCfg.symbols.TypesOK :=
  addSyms_typesOK _ _ SymTab.empty_typesOK (by decide)

theorem rawContract_generic : RawContract genericCfg :=
  rawContract_of genericCfg genericSyms_ok (fun h => absurd h (by decide))

theorem rawContract_expression : RawContract expressionCfg :=
  rawContract_of expressionCfg expressionSyms_ok (fun _ ch h => expression_comment_47 ch h)

theorem rawContract_csv (seps quotes : List Rune) : RawContract (csvCfg seps quotes) :=
  rawContract_of (csvCfg seps quotes) csvSyms_ok
    (fun h => absurd (show Kind.csv = Kind.expression from h) (by decide))

theorem rawContract_mustache : RawContract mustacheCfg :=
  rawContract_of mustacheCfg mustacheSyms_ok (fun h => absurd h (by decide))

/-! ## (b) fuel independence -/

theorem readNextA_none (cfg : Cfg) (o : Opts) (f : Nat) (st : TState) (h : st.s.peek = none) :
    readNextA cfg o (f+1) st =
      if st.last != TT.eof && !o.skipEof then
        (some { typ := TT.eof, value := [], line := st.s.peekLine, col := st.s.peekColumn },
         { st with last := TT.eof })
      else (none, { st with last := TT.eof }) := by
  simp only [readNextA, h]

theorem readNextA_some (cfg : Cfg) (o : Opts) (f : Nat) (st : TState) (ch : Rune)
    (h : st.s.peek = some ch) :
    readNextA cfg o (f+1) st =
      match processRaw cfg o st.last (rawNext cfg ch st.s).1 st.s.peekLine st.s.peekColumn with
      | none => readNextA cfg o f { st with s := (rawNext cfg ch st.s).2 }
      | some t => (some t, { st with s := (rawNext cfg ch st.s).2, last := t.typ }) := by
  simp only [readNextA, h]
  rfl

theorem readNextA_fuel_succ (cfg : Cfg) (hc : RawContract cfg) (o : Opts) (f : Nat) (st : TState)
    (hw : st.s.WF) (hf : st.s.content.length + 1 - st.s.pos < f) :
    readNextA cfg o f st = readNextA cfg o (f+1) st := by
  induction f generalizing st with
  | zero => omega
  | succ f ih =>
    cases hpk : st.s.peek with
    | none => rw [readNextA_none cfg o f st hpk, readNextA_none cfg o (f+1) st hpk]
    | some ch =>
      rw [readNextA_some cfg o f st ch hpk, readNextA_some cfg o (f+1) st ch hpk]
      have hr := hc st.s ch hw hpk
      cases processRaw cfg o st.last (rawNext cfg ch st.s).1 st.s.peekLine st.s.peekColumn with
      | some t => rfl
      | none =>
        simp only
        apply ih
        · exact hr.wf
        · have h1 := hr.content
          have h2 := hr.progress
          show (rawNext cfg ch st.s).2.content.length + 1 - (rawNext cfg ch st.s).2.pos < f
          have h3 := (peek_some_lt hpk).1
          rw [h1]; omega

theorem readNextA_fuel_add (cfg : Cfg) (hc : RawContract cfg) (o : Opts) (f k : Nat) (st : TState)
    (hw : st.s.WF) (hf : st.s.content.length + 1 - st.s.pos < f) :
    readNextA cfg o f st = readNextA cfg o (f+k) st := by
  induction k with
  | zero => rfl
  | succ k ih =>
    rw [ih, ← Nat.add_assoc]
    exact readNextA_fuel_succ cfg hc o (f+k) st hw (by omega)

theorem readNextA_fuel (cfg : Cfg) (hc : RawContract cfg) (o : Opts) (f1 f2 : Nat) (st : TState)
    (hw : st.s.WF) (h1 : st.s.content.length + 1 - st.s.pos < f1)
    (h2 : st.s.content.length + 1 - st.s.pos < f2) :
    readNextA cfg o f1 st = readNextA cfg o f2 st := by
  by_cases h : f1 ≤ f2
  · have := readNextA_fuel_add cfg hc o f1 (f2 - f1) st hw h1
    rw [this]; congr 1; omega
  · have := readNextA_fuel_add cfg hc o f2 (f1 - f2) st hw h2
    rw [this]; congr 1; omega

theorem rawSpec_none (cfg : Cfg) (f : Nat) (s : Scanner) (h : s.peek = none) :
    rawSpec cfg f s = [] := by
  cases f with
  | zero => rfl
  | succ f => simp only [rawSpec, h]

theorem rawSpec_some (cfg : Cfg) (f : Nat) (s : Scanner) (ch : Rune) (h : s.peek = some ch) :
    rawSpec cfg (f+1) s =
      ⟨(rawNext cfg ch s).1.tok.typ, (rawNext cfg ch s).1.tok.value, s.pos, (rawNext cfg ch s).1.quote⟩
        :: rawSpec cfg f (rawNext cfg ch s).2 := by
  simp only [rawSpec, h]

theorem rawSpec_fuel_succ (cfg : Cfg) (hc : RawContract cfg) (f : Nat) (s : Scanner)
    (hw : s.WF) (hf : s.content.length + 1 - s.pos < f) :
    rawSpec cfg f s = rawSpec cfg (f+1) s := by
  induction f generalizing s with
  | zero => omega
  | succ f ih =>
    cases hpk : s.peek with
    | none => rw [rawSpec_none cfg _ s hpk, rawSpec_none cfg _ s hpk]
    | some ch =>
      rw [rawSpec_some cfg f s ch hpk, rawSpec_some cfg (f+1) s ch hpk]
      have hr := hc s ch hw hpk
      congr 1
      apply ih _ hr.wf
      have h1 := hr.content
      have h2 := hr.progress
      have h3 := (peek_some_lt hpk).1
      rw [h1]; omega

theorem rawSpec_fuel_add (cfg : Cfg) (hc : RawContract cfg) (f k : Nat) (s : Scanner)
    (hw : s.WF) (hf : s.content.length + 1 - s.pos < f) :
    rawSpec cfg f s = rawSpec cfg (f+k) s := by
  induction k with
  | zero => rfl
  | succ k ih =>
    rw [ih, ← Nat.add_assoc]
    exact rawSpec_fuel_succ cfg hc (f+k) s hw (by omega)

theorem rawSpec_fuel (cfg : Cfg) (hc : RawContract cfg) (f1 f2 : Nat) (s : Scanner)
    (hw : s.WF) (h1 : s.content.length + 1 - s.pos < f1) (h2 : s.content.length + 1 - s.pos < f2) :
    rawSpec cfg f1 s = rawSpec cfg f2 s := by
  by_cases h : f1 ≤ f2
  · have := rawSpec_fuel_add cfg hc f1 (f2 - f1) s hw h1
    rw [this]; congr 1; omega
  · have := rawSpec_fuel_add cfg hc f2 (f1 - f2) s hw h2
    rw [this]; congr 1; omega

/-! ## (c) the options factor through the option-free segmentation -/

/-- the decoded text of a raw token -/
def specV1 (cfg : Cfg) (o : Opts) (q : Option Rune) (v : List Rune) : List Rune :=
  match q with
  | some q => if o.decodeStrings then decodeFor cfg q v else v
  | none => v

/-- merge + unify on a token that already carries the iteration's position -/
def finishTok (o : Opts) (t1 : Tok) (pl pc : Nat) : Tok :=
  let t2 : Tok := if t1.typ == TT.whitespace && o.mergeWhitespaces then { typ := TT.whitespace, value := [32], line := pl, col := pc } else t1
  if o.unifyNumbers && isNumTyp t2.typ then { typ := TT.number, value := t2.value, line := pl, col := pc } else t2

theorem finishTok_eq (o : Opts) (typ : Nat) (v : List Rune) (pl pc : Nat) :
    finishTok o ⟨typ, v, pl, pc⟩ pl pc =
      ⟨if o.unifyNumbers && isNumTyp typ then TT.number else typ,
       if typ == TT.whitespace && o.mergeWhitespaces then [32] else v, pl, pc⟩ := by
  unfold finishTok
  by_cases hws : typ = TT.whitespace
  · subst hws
    cases o.mergeWhitespaces <;> cases o.unifyNumbers <;> rfl
  · have hb : (typ == TT.whitespace) = false := beq_false_of_ne hws
    simp only [hb, Bool.false_and, Bool.false_eq_true, if_false]
    split <;> rfl

theorem processRaw_eq_spec (cfg : Cfg) (o : Opts) (c : List Rune) (last : Nat) (r : Raw)
    (start : Nat) (hpos : (r.tok.line, r.tok.col) = posOf c start) :
    processRaw cfg o last r (posOf c start).1 (posOf c start).2 =
      processSpec cfg o c last ⟨r.tok.typ, r.tok.value, start, r.quote⟩ := by
  obtain ⟨⟨typ, v, l, cl⟩, q⟩ := r
  have e1 : l = (posOf c start).1 := congrArg Prod.fst hpos
  have e2 : cl = (posOf c start).2 := congrArg Prod.snd hpos
  subst e1; subst e2
  clear hpos
  have hL : processRaw cfg o last ⟨⟨typ, v, (posOf c start).1, (posOf c start).2⟩, q⟩
      (posOf c start).1 (posOf c start).2 =
      if typ == TT.unknown && o.skipUnknown then none
      else if typ == TT.comment && o.skipComments then none
      else if typ == TT.whitespace && last == TT.whitespace && o.skipWhitespaces then none
      else some (finishTok o ⟨typ, specV1 cfg o q v, (posOf c start).1, (posOf c start).2⟩
        (posOf c start).1 (posOf c start).2) := by
    cases q with
    | none => rfl
    | some q' =>
      unfold processRaw specV1
      cases o.decodeStrings <;> rfl
  rw [hL, finishTok_eq]
  rfl

theorem processSpec_typ_ne_eof (cfg : Cfg) (o : Opts) (c : List Rune) (last : Nat) (r : RawTok)
    (t : Tok) (h : processSpec cfg o c last r = some t) (hr : r.typ ≠ TT.eof) : t.typ ≠ TT.eof := by
  unfold processSpec at h
  split at h
  · exact absurd h (by simp)
  · simp only at h
    split at h
    · exact absurd h (by simp)
    · split at h
      · exact absurd h (by simp)
      · have := Option.some.inj h
        rw [← this]
        simp only
        split
        · exact (by decide : TT.number ≠ TT.eof)
        · exact hr

theorem readNext_eq (cfg : Cfg) (hk : cfg.kind ≠ .mustache) (o : Opts) (st : TState) :
    readNext cfg o st = readNextA cfg o (st.s.content.length + 3) st := by
  unfold readNext
  split
  · rename_i h; exact absurd h hk
  · rfl

theorem nextTok_eq (cfg : Cfg) (hk : cfg.kind ≠ .mustache) (o : Opts) (st : TState)
    (hcache : st.cached = none) :
    nextTok cfg o st = readNextA cfg o (st.s.content.length + 3) st := by
  unfold nextTok
  rw [hcache]
  exact readNext_eq cfg hk o st

theorem peek_none_ge {s : Scanner} (h : s.peek = none) : s.content.length ≤ s.pos := by
  rw [peek_eq] at h
  exact List.getElem?_eq_none_iff.mp h

/-- the Eof token of the model is the SPEC's `eofTok` -/
theorem eof_tok_eq (s : Scanner) (hw : s.WF) (hpk : s.peek = none) :
    ({ typ := TT.eof, value := [], line := s.peekLine, col := s.peekColumn } : Tok)
      = eofTok s.content := by
  have hge := peek_none_ge hpk
  have h1 := C11_peekLC_eof s hge
  have e1 : s.peekLine = s.line := congrArg Prod.fst h1
  have e2 : s.peekColumn = s.col + 1 := congrArg Prod.snd h1
  have hlc : (s.line, s.col) = lcUpTo s.content s.content.length := by
    have h2 := hw.2
    have h3 := hw.1
    by_cases hp : s.pos = s.content.length
    · rw [hp] at h2; exact h2
    · have hp' : s.pos = s.content.length + 1 := by omega
      rw [hp', lcUpTo_succ_gt _ _ (by omega)] at h2
      exact h2
  have e3 : s.line = (lcUpTo s.content s.content.length).1 := congrArg Prod.fst hlc
  have e4 : s.col = (lcUpTo s.content s.content.length).2 := congrArg Prod.snd hlc
  unfold eofTok
  rw [e1, e2, e3, e4]

theorem postSpec_cons (cfg : Cfg) (o : Opts) (c : List Rune) (last : Nat) (r : RawTok)
    (rest : List RawTok) :
    postSpec cfg o c last (r :: rest) =
      match processSpec cfg o c last r with
      | none => postSpec cfg o c last rest
      | some t => t :: postSpec cfg o c t.typ rest := rfl

theorem drain_succ (cfg : Cfg) (o : Opts) (f : Nat) (st : TState) :
    drain cfg o (f+1) st =
      match (nextTok cfg o st).1 with
      | none => []
      | some t => t :: drain cfg o f (nextTok cfg o st).2 := rfl

/-- at the end of the input: the Eof token (unless skipped) and nothing more -/
theorem drain_at_end (cfg : Cfg) (hk : cfg.kind ≠ .mustache) (o : Opts) (fd : Nat) (st : TState)
    (hcache : st.cached = none) (hw : st.s.WF) (hlast : st.last ≠ TT.eof)
    (hpk : st.s.peek = none) :
    drain cfg o (fd+1) st = if o.skipEof then [] else [eofTok st.s.content] := by
  have hl : (st.last != TT.eof) = true := bne_iff_ne.mpr hlast
  rw [drain_succ, nextTok_eq cfg hk o st hcache, readNextA_none cfg o _ st hpk]
  cases hse : o.skipEof with
  | true => simp only [hl, Bool.not_true, Bool.and_false, Bool.false_eq_true, if_false, if_true]
  | false =>
    simp only [hl, Bool.not_false, Bool.and_true, if_true, Bool.false_eq_true, if_false]
    rw [eof_tok_eq st.s hw hpk]
    congr 1
    cases fd with
    | zero => rfl
    | succ fd =>
      rw [drain_succ, nextTok_eq cfg hk o { st with last := TT.eof } hcache,
        readNextA_none cfg o _ { st with last := TT.eof } hpk]
      simp only [bne_self_eq_false, Bool.false_and, Bool.false_eq_true, if_false]

theorem drain_eq_post (cfg : Cfg) (hk : cfg.kind ≠ .mustache) (hc : RawContract cfg) (o : Opts)
    (c : List Rune) (n : Nat) :
    ∀ (st : TState) (fd fr : Nat), c.length + 1 - st.s.pos ≤ n → st.cached = none → st.s.WF →
      st.s.content = c → st.last ≠ TT.eof → c.length + 1 - st.s.pos < fd →
      c.length + 1 - st.s.pos < fr →
      drain cfg o fd st = postSpec cfg o c st.last (rawSpec cfg fr st.s)
        ++ (if o.skipEof then [] else [eofTok c]) := by
  induction n with
  | zero =>
    intro st fd fr hn hcache hw hcont hlast hfd hfr
    cases hpk : st.s.peek with
    | some ch =>
      have := (peek_some_lt hpk).1
      rw [hcont] at this; omega
    | none =>
      obtain ⟨fd', rfl⟩ : ∃ k, fd = k + 1 := ⟨fd - 1, by omega⟩
      rw [drain_at_end cfg hk o fd' st hcache hw hlast hpk, rawSpec_none cfg fr st.s hpk, hcont]
      rfl
  | succ n ih =>
    intro st fd fr hn hcache hw hcont hlast hfd hfr
    obtain ⟨fd', rfl⟩ : ∃ k, fd = k + 1 := ⟨fd - 1, by omega⟩
    cases hpk : st.s.peek with
    | none =>
      rw [drain_at_end cfg hk o fd' st hcache hw hlast hpk, rawSpec_none cfg fr st.s hpk, hcont]
      rfl
    | some ch =>
      obtain ⟨fr', rfl⟩ : ∃ k, fr = k + 1 := ⟨fr - 1, by omega⟩
      have hlt := (peek_some_lt hpk).1
      have hr := hc st.s ch hw hpk
      have hrc := hr.content
      have hrp := hr.progress
      have hpl := peekLC_eq st.s hw hlt
      have e1 : st.s.peekLine = (posOf c st.s.pos).1 := by
        have := congrArg Prod.fst hpl; rw [hcont] at this; exact this
      have e2 : st.s.peekColumn = (posOf c st.s.pos).2 := by
        have := congrArg Prod.snd hpl; rw [hcont] at this; exact this
      have hpos : ((rawNext cfg ch st.s).1.tok.line, (rawNext cfg ch st.s).1.tok.col)
          = posOf c st.s.pos := by rw [hr.pos, hcont]; rfl
      have hnt := nextTok_eq cfg hk o st hcache
      rw [readNextA_some cfg o _ st ch hpk, e1, e2,
        processRaw_eq_spec cfg o c st.last _ st.s.pos hpos] at hnt
      rw [rawSpec_some cfg fr' st.s ch hpk, postSpec_cons]
      rw [hcont] at hlt hrc
      cases hps : processSpec cfg o c st.last
          ⟨(rawNext cfg ch st.s).1.tok.typ, (rawNext cfg ch st.s).1.tok.value, st.s.pos,
            (rawNext cfg ch st.s).1.quote⟩ with
      | none =>
        rw [hps] at hnt
        simp only at hnt ⊢
        -- the skipped token: the same call continues = a fresh call from the next position
        have hfu := readNextA_fuel cfg hc o (st.s.content.length + 2)
          (st.s.content.length + 3) { st with s := (rawNext cfg ch st.s).2 } hr.wf
          (by show (rawNext cfg ch st.s).2.content.length + 1 - _ < _; rw [hr.content]; omega)
          (by show (rawNext cfg ch st.s).2.content.length + 1 - _ < _; rw [hr.content]; omega)
        have hnt2 := nextTok_eq cfg hk o { st with s := (rawNext cfg ch st.s).2 } hcache
        have hlen : ({ st with s := (rawNext cfg ch st.s).2 } : TState).s.content.length
            = st.s.content.length := by
          show (rawNext cfg ch st.s).2.content.length = _; rw [hr.content]
        rw [hlen, ← hfu, ← hnt] at hnt2
        have hd : drain cfg o (fd'+1) st
            = drain cfg o (fd'+1) { st with s := (rawNext cfg ch st.s).2 } := by
          rw [drain_succ, drain_succ, hnt2]
        rw [hd]
        exact ih { st with s := (rawNext cfg ch st.s).2 } (fd'+1) fr'
          (by show c.length + 1 - (rawNext cfg ch st.s).2.pos ≤ n; omega) hcache hr.wf hrc hlast
          (by show c.length + 1 - (rawNext cfg ch st.s).2.pos < _; omega)
          (by show c.length + 1 - (rawNext cfg ch st.s).2.pos < _; omega)
      | some t =>
        rw [hps] at hnt
        simp only at hnt ⊢
        rw [drain_succ, hnt]
        simp only [List.cons_append]
        congr 1
        exact ih { st with s := (rawNext cfg ch st.s).2, last := t.typ } fd' fr'
          (by show c.length + 1 - (rawNext cfg ch st.s).2.pos ≤ n; omega) hcache hr.wf hrc
          (processSpec_typ_ne_eof cfg o c st.last _ t hps hr.notEof)
          (by show c.length + 1 - (rawNext cfg ch st.s).2.pos < _; omega)
          (by show c.length + 1 - (rawNext cfg ch st.s).2.pos < _; omega)

theorem tokenize_eq_streamSpec (cfg : Cfg) (hk : cfg.kind ≠ .mustache) (hc : RawContract cfg)
    (o : Opts) (c : List Rune) : tokenize cfg o c = streamSpec cfg o c := by
  unfold tokenize streamSpec
  exact drain_eq_post cfg hk hc o c (c.length + 1) (TState.start c) (c.length + 3) (c.length + 2)
    (by show c.length + 1 - 0 ≤ _; omega) rfl (new_wf c) rfl (show TT.unknown ≠ TT.eof by decide)
    (by show c.length + 1 - 0 < _; omega) (by show c.length + 1 - 0 < _; omega)

/-! ## glue for the property files -/

/-- everything `processSpec` says about an emitted token -/
theorem processSpec_some (cfg : Cfg) (o : Opts) (c : List Rune) (last : Nat) (r : RawTok) (t : Tok)
    (h : processSpec cfg o c last r = some t) :
    ¬ (r.typ = TT.unknown ∧ o.skipUnknown = true) ∧
    ¬ (r.typ = TT.comment ∧ o.skipComments = true) ∧
    ¬ (r.typ = TT.whitespace ∧ last = TT.whitespace ∧ o.skipWhitespaces = true) ∧
    t.typ = (if o.unifyNumbers && isNumTyp r.typ then TT.number else r.typ) ∧
    t.value = (if r.typ == TT.whitespace && o.mergeWhitespaces then [32]
               else specV1 cfg o r.quote r.value) ∧
    (t.line, t.col) = posOf c r.start := by
  unfold processSpec at h
  split at h
  · exact absurd h (by simp)
  · rename_i h1
    simp only at h
    split at h
    · exact absurd h (by simp)
    · rename_i h2
      split at h
      · exact absurd h (by simp)
      · rename_i h3
        have ht := Option.some.inj h
        simp only [Bool.and_eq_true, beq_iff_eq] at h1 h2 h3
        refine ⟨h1, h2, fun hh => h3 ⟨⟨hh.1, hh.2.1⟩, hh.2.2⟩, ?_, ?_, ?_⟩
        · rw [← ht]
        · rw [← ht]; rfl
        · rw [← ht]

theorem mem_postSpec (cfg : Cfg) (o : Opts) (c : List Rune) (raws : List RawTok) (last : Nat)
    (t : Tok) (h : t ∈ postSpec cfg o c last raws) :
    ∃ last' r, r ∈ raws ∧ processSpec cfg o c last' r = some t := by
  induction raws generalizing last with
  | nil => exact absurd h List.not_mem_nil
  | cons r rest ih =>
    rw [postSpec_cons] at h
    cases hps : processSpec cfg o c last r with
    | none =>
      rw [hps] at h
      obtain ⟨l', r', hr', hp'⟩ := ih last h
      exact ⟨l', r', List.mem_cons_of_mem _ hr', hp'⟩
    | some t' =>
      rw [hps] at h
      simp only [List.mem_cons] at h
      rcases h with h | h
      · exact ⟨last, r, List.mem_cons_self, by rw [hps, h]⟩
      · obtain ⟨l', r', hr', hp'⟩ := ih t'.typ h
        exact ⟨l', r', List.mem_cons_of_mem _ hr', hp'⟩

/-- the raw list is a partition of the input from offset `p` on: contiguous, non-empty,
Eof-free slices -/
def RawsOK (c : List Rune) : Nat → List RawTok → Prop
  | p, [] => c.length ≤ p
  | p, r :: rs => r.start = p ∧ r.value ≠ [] ∧ r.value = slice c p (p + r.value.length) ∧
      p + r.value.length ≤ c.length ∧ r.typ ≠ TT.eof ∧ RawsOK c (p + r.value.length) rs

theorem rawSpec_ok (cfg : Cfg) (hc : RawContract cfg) (n : Nat) :
    ∀ (s : Scanner) (f : Nat), s.content.length + 1 - s.pos ≤ n → s.WF →
      s.content.length + 1 - s.pos < f →
      RawsOK s.content (min s.pos s.content.length) (rawSpec cfg f s) := by
  induction n with
  | zero =>
    intro s f hn hw hf
    cases hpk : s.peek with
    | some ch => have := (peek_some_lt hpk).1; omega
    | none =>
      rw [rawSpec_none cfg f s hpk]
      have := peek_none_ge hpk
      show s.content.length ≤ _
      omega
  | succ n ih =>
    intro s f hn hw hf
    cases hpk : s.peek with
    | none =>
      rw [rawSpec_none cfg f s hpk]
      have := peek_none_ge hpk
      show s.content.length ≤ _
      omega
    | some ch =>
      obtain ⟨f', rfl⟩ : ∃ k, f = k + 1 := ⟨f - 1, by omega⟩
      have hlt := (peek_some_lt hpk).1
      have hr := hc s ch hw hpk
      have hrc := hr.content
      have hrp := hr.progress
      have hrw := hr.wf.1
      rw [hrc] at hrw
      have hlen := congrArg List.length hr.seg
      rw [slice_length] at hlen
      rw [rawSpec_some cfg f' s ch hpk, Nat.min_eq_left (Nat.le_of_lt hlt)]
      have hnext : s.pos + (rawNext cfg ch s).1.tok.value.length
          = min (rawNext cfg ch s).2.pos s.content.length := by omega
      have hrec := ih (rawNext cfg ch s).2 f' (by rw [hrc]; omega) hr.wf (by rw [hrc]; omega)
      rw [hrc] at hrec
      refine ⟨rfl, ?_, ?_, ?_, hr.notEof, ?_⟩
      · intro h0
        have h0' : (rawNext cfg ch s).1.tok.value = [] := h0
        rw [h0'] at hlen
        simp only [List.length_nil] at hlen
        omega
      · show (rawNext cfg ch s).1.tok.value = slice s.content s.pos (s.pos + (rawNext cfg ch s).1.tok.value.length)
        rw [hnext]; exact hr.seg
      · show s.pos + (rawNext cfg ch s).1.tok.value.length ≤ _
        omega
      · show RawsOK s.content (s.pos + (rawNext cfg ch s).1.tok.value.length) _
        rw [hnext]; exact hrec

theorem RawsOK.mem {c : List Rune} {p : Nat} {l : List RawTok} (h : RawsOK c p l) :
    ∀ r ∈ l, r.value ≠ [] ∧ r.value = slice c r.start (r.start + r.value.length) ∧
      r.start + r.value.length ≤ c.length ∧ r.typ ≠ TT.eof := by
  induction l generalizing p with
  | nil => intro r hr; exact absurd hr List.not_mem_nil
  | cons x xs ih =>
    obtain ⟨h1, h2, h3, h4, h5, h6⟩ := h
    intro r hr
    simp only [List.mem_cons] at hr
    rcases hr with rfl | hr
    · rw [h1]; exact ⟨h2, h3, h4, h5⟩
    · exact ih h6 r hr

theorem RawsOK.flatten {c : List Rune} {p : Nat} {l : List RawTok} (h : RawsOK c p l) :
    (l.map (·.value)).flatten = c.drop p := by
  induction l generalizing p with
  | nil =>
    have h' : c.length ≤ p := h
    simp only [List.map_nil, List.flatten_nil]
    exact (List.drop_eq_nil_of_le h').symm
  | cons x xs ih =>
    obtain ⟨h1, h2, h3, h4, h5, h6⟩ := h
    simp only [List.map_cons, List.flatten_cons]
    rw [ih h6]
    conv => lhs; lhs; rw [h3]
    unfold slice
    have hle : p ≤ (c.take (p + x.value.length)).length := by
      rw [List.length_take]; omega
    rw [← List.drop_append_of_le_length hle, List.take_append_drop]

theorem RawsOK.head {c : List Rune} {p : Nat} {l : List RawTok} (h : RawsOK c p l) :
    ∀ r, l.head? = some r → r.start = p := by
  cases l with
  | nil => intro r hr; exact absurd hr (by simp)
  | cons x xs =>
    intro r hr
    simp only [List.head?_cons, Option.some.injEq] at hr
    rw [← hr]; exact h.1

theorem RawsOK.contig {c : List Rune} {p : Nat} {l : List RawTok} (h : RawsOK c p l) :
    ∀ (i : Nat) (a b : RawTok), l[i]? = some a → l[i+1]? = some b →
      b.start = a.start + a.value.length := by
  induction l generalizing p with
  | nil => intro i a b ha; exact absurd ha (by simp)
  | cons x xs ih =>
    obtain ⟨h1, h2, h3, h4, h5, h6⟩ := h
    intro i a b ha hb
    cases i with
    | zero =>
      simp only [List.getElem?_cons_zero, Option.some.injEq] at ha
      simp only [Nat.zero_add, List.getElem?_cons_succ] at hb
      have := h6.head b (by rw [List.head?_eq_getElem?]; exact hb)
      rw [this, ← ha, h1]
    | succ i =>
      simp only [List.getElem?_cons_succ] at ha hb
      exact ih h6 i a b ha hb

/-- all options off: `postSpec` only stamps the positions -/
theorem postSpec_allOff (cfg : Cfg) (c : List Rune) (last : Nat) (raws : List RawTok) :
    postSpec cfg Opts.allOff c last raws =
      raws.map (fun r => ⟨r.typ, r.value, (posOf c r.start).1, (posOf c r.start).2⟩) := by
  induction raws generalizing last with
  | nil => rfl
  | cons r rest ih =>
    have hp : processSpec cfg Opts.allOff c last r =
        some ⟨r.typ, r.value, (posOf c r.start).1, (posOf c r.start).2⟩ := by
      unfold processSpec
      simp only [Opts.allOff, Bool.and_false, Bool.false_and, Bool.false_eq_true, if_false]
      cases r.quote <;> rfl
    rw [postSpec_cons, hp]
    simp only [List.map_cons]
    rw [ih]

end Verif
