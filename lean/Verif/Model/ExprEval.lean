/-
Model of calculator/ExpressionCalculator.go `EvaluateUsingVariablesAndFunctions` (the RPN stack
machine) and of calculator/CalculationStack.go, parametric in the value type and in the variant
operations / variable / function look-ups (`EvalEnv`).  Go panics (Pop on an empty stack, the
single-value type assertion on the popped argument count) are explicit `Out.panic` results.
After the `fix:` repair of NOT IN on a Null membership result.
-/
import Verif.Model.ExprParser

namespace Verif

inductive Out (α : Type) where
  | ok (v : α)
  | err (code : String)
  | panic (site : String)
  deriving Repr, DecidableEq

def Out.bind {α β : Type} (o : Out α) (f : α → Out β) : Out β :=
  match o with
  | .ok v => f v
  | .err c => .err c
  | .panic s => .panic s

/-- what the evaluator is parametric in -/
structure EvalEnv (κ V : Type) where
  ofConst : κ → V
  ofArgc : Nat → V
  /-- `Variant.AsInteger()` on the popped argument count: `none` = Go panics -/
  asArgc : V → Option Nat
  lookupVar : List Rune → Option V
  hasFn : List Rune → Bool
  callFn : List Rune → List V → Out V
  /-- `variantOperations.X(value1, value2)` for the binary token types, operands in written
  order (for IN / NOT IN the Go code calls `In(value2, value1)`; the instance does that swap) -/
  binop : ET → V → V → Out V
  /-- Not, Unary, IsNull, IsNotNull -/
  unop : ET → V → Out V

def binaryTypes : List ET :=
  [.and, .or, .xor, .plus, .minus, .star, .slash, .procent, .power, .shiftLeft, .shiftRight,
   .equal, .notEqual, .more, .less, .equalMore, .equalLess, .in_, .notIn, .element]

def unaryTypes : List ET := [.not, .unary, .isNull, .isNotNull]

/-- pop `n` values (last popped first in the result = written order) -/
def popN {V : Type} : Nat → List V → List V → Option (List V × List V)
  | 0, st, acc => some (acc, st)
  | _+1, [], _ => none
  | n+1, v :: st, acc => popN n st (v :: acc)

variable {κ V : Type}

/-- one token of the program against the stack (top of stack = head of the list) -/
def evalStep (env : EvalEnv κ V) (t : ETok κ) (st : List V) : Out (List V) :=
  match t.typ with
  | .constant =>
    match t.cst with
    | some c => .ok (env.ofConst c :: st)
    | none => .ok (env.ofArgc t.argc :: st)
  | .variable =>
    match env.lookupVar t.name with
    | some v => .ok (v :: st)
    | none => .err "VAR_NOT_FOUND"
  | .function =>
    if !env.hasFn t.name then .err "FUNC_NOT_FOUND"
    else match st with
      | [] => .panic "Stack is empty."
      | cnt :: st1 =>
        match env.asArgc cnt with
        | none => .panic "argument count is not an integer"
        | some n =>
          match popN n st1 [] with
          | none => .panic "Stack is empty."
          | some (args, st2) => (env.callFn t.name args).bind fun r => .ok (r :: st2)
  | ty =>
    if binaryTypes.contains ty then
      match st with
      | v2 :: v1 :: st1 => (env.binop ty v1 v2).bind fun r => .ok (r :: st1)
      | _ => .panic "Stack is empty."
    else if unaryTypes.contains ty then
      match st with
      | v :: st1 => (env.unop ty v).bind fun r => .ok (r :: st1)
      | [] => .panic "Stack is empty."
    else .err "INTERNAL"

/-- the evaluation loop -/
def run (env : EvalEnv κ V) : List (ETok κ) → List V → Out V
  | [], [v] => .ok v
  | [], _ => .err "INTERNAL"
  | t :: ts, st => (evalStep env t st).bind fun st' => run env ts st'

def evaluate (env : EvalEnv κ V) (prog : List (ETok κ)) : Out V := run env prog []

end Verif
