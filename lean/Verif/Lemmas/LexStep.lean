/-
One segmentation step as a statement about lexemes (`Cuts`), and the induction that turns
per-lexeme steps into the token stream of a whole lexeme sequence (`rawSpec_of_chain`,
`tokenize_of_chain`).  Shared by C13 (generic / expression lexemes) and C09 (CSV tables).
-/
import Verif.Lemmas.LexClass
import Verif.Props.C12

namespace Verif
open Scanner

/-- One segmentation step from `s` cuts off exactly the token `(typ, lex)` (quote tag `q`) and
leaves the scanner right after it: well formed, same content, `pos + lex.length` characters
consumed (`min` discounts the end-of-input slot, which a state may have consumed when the
lexeme ends the input), remaining input `rest`. -/
def Cuts (cfg : Cfg) (s : Scanner) (typ : Nat) (lex : List Rune) (q : Option Rune)
    (rest : List Rune) : Prop :=
  ∃ c, s.peek = some c ∧ lex.head? = some c ∧
    (rawNext cfg c s).1.tok.typ = typ ∧ (rawNext cfg c s).1.tok.value = lex ∧
    (rawNext cfg c s).1.quote = q ∧ (rawNext cfg c s).2.WF ∧
    (rawNext cfg c s).2.content = s.content ∧
    min (rawNext cfg c s).2.pos s.content.length = s.pos + lex.length ∧
    (rawNext cfg c s).2.content.drop (rawNext cfg c s).2.pos = rest

/-- type, value and quote tag suffice: the segmentation contract supplies the cursor facts -/
theorem Cuts.of_value (cfg : Cfg) (hc : RawContract cfg) (s : Scanner) (hw : s.WF)
    (c : Rune) (w rest : List Rune) (hin : s.content.drop s.pos = (c :: w) ++ rest)
    (typ : Nat) (q : Option Rune)
    (h : (rawNext cfg c s).1.tok.typ = typ ∧ (rawNext cfg c s).1.tok.value = c :: w ∧
      (rawNext cfg c s).1.quote = q) : Cuts cfg s typ (c :: w) q rest := by
  have hpk : s.peek = some c := peek_of_drop hin
  obtain ⟨h1, h2, h3, h4⟩ := rawNext_after cfg hc s hw c hpk (c :: w) rest hin h.2.1
  exact ⟨c, hpk, rfl, h.1, h.2.1, h.2.2, h1, h2, h3, h4⟩

/-- the same for a lexeme given as a list with a known head -/
theorem Cuts.of_value' (cfg : Cfg) (hc : RawContract cfg) (s : Scanner) (hw : s.WF)
    (c : Rune) (lex rest : List Rune) (hhead : lex.head? = some c)
    (hin : s.content.drop s.pos = lex ++ rest) (typ : Nat) (q : Option Rune)
    (h : (rawNext cfg c s).1.tok.typ = typ ∧ (rawNext cfg c s).1.tok.value = lex ∧
      (rawNext cfg c s).1.quote = q) : Cuts cfg s typ lex q rest := by
  cases lex with
  | nil => cases hhead
  | cons a w =>
    have : a = c := by simpa using hhead
    subst this
    exact Cuts.of_value cfg hc s hw a w rest hin typ q h

/-- one step through a dispatched state that behaves like a span state (`takeWhile p`) -/
theorem rawNext_span (cfg : Cfg) (s : Scanner) (hw : s.WF) (sid : StateId) (typ : Nat)
    (p : Rune → Bool) (c : Rune) (w rest : List Rune)
    (hin : s.content.drop s.pos = (c :: w) ++ rest)
    (hd : cfg.dispatch.lookup c = some sid) (hsid : sid ≠ .quote)
    (hrun : (runState cfg sid (s.content.length + 2) s).1.value =
      (spanState typ p (s.content.length + 2) s).1.value)
    (hall : ∀ x ∈ c :: w, p x = true) (hb : ∀ x, rest.head? = some x → p x = false) :
    (rawNext cfg c s).1.tok = (runState cfg sid (s.content.length + 2) s).1 ∧
    (rawNext cfg c s).1.tok.value = c :: w ∧ (rawNext cfg c s).1.quote = none := by
  have hlt := pos_lt_of_drop hin
  have hv : (runState cfg sid (s.content.length + 2) s).1.value = c :: w := by
    rw [hrun, spanState_value typ p _ s hw (Nat.le_of_lt hlt) (by omega), hin,
      takeWhile_append_stop p _ rest hall hb]
  obtain ⟨h1, h2, _⟩ := rawNext_of_state cfg c s sid hd (by rw [hv]; exact List.cons_ne_nil _ _)
  refine ⟨h1, by rw [h1, hv], ?_⟩
  rw [h2, if_neg hsid]

/-! ### from steps to the stream -/

theorem lexText_cons (l : Lexeme) (ls : List Lexeme) : lexText (l :: ls) = l.text ++ lexText ls := by
  simp [lexText]

/-- **the option-free segmentation of a lexeme sequence**: if every lexeme (in front of the
text of the following ones) is cut off by one step, the raw segmentation of the whole text is
the lexeme sequence, each lexeme at the offset where it was written. -/
theorem rawSpec_of_chain (cfg : Cfg) (P : Lexeme → List Rune → Prop)
    (hstep : ∀ (s : Scanner) (l : Lexeme) (rest : List Rune), s.WF →
      s.content.drop s.pos = l.text ++ rest → P l rest → Cuts cfg s l.typ l.text l.quote rest) :
    ∀ (ls : List Lexeme) (s : Scanner) (f : Nat), s.WF → s.content.drop s.pos = lexText ls →
      Chain P ls → s.content.length + 1 - s.pos < f →
      rawSpec cfg f s = expectRaw (min s.pos s.content.length) ls := by
  intro ls
  induction ls with
  | nil =>
    intro s f _ hin _ _
    have hpk : s.peek = none := by rw [peek_drop, hin]; rfl
    rw [rawSpec_none cfg f s hpk]; rfl
  | cons l ls ih =>
    intro s f hw hin hch hf
    rw [lexText_cons] at hin
    obtain ⟨c, hpk, hhead, h1, h2, h3, h4, h5, h6, h7⟩ := hstep s l (lexText ls) hw hin hch.1
    have hlt := (peek_some_lt hpk).1
    obtain ⟨f', rfl⟩ : ∃ k, f = k + 1 := ⟨f - 1, by omega⟩
    have hne : 0 < l.text.length := by
      cases hl : l.text with
      | nil => rw [hl] at hhead; cases hhead
      | cons a t => simp
    rw [rawSpec_some cfg f' s c hpk, h1, h2, h3]
    have hmin : min s.pos s.content.length = s.pos := by omega
    rw [hmin]
    show _ :: _ = _ :: _
    congr 1
    have := ih (rawNext cfg c s).2 f' h4 h7 hch.2 (by rw [h5]; omega)
    rw [this, h5, h6]

theorem expectRaw_stamp (c : List Rune) (off : Nat) (ls : List Lexeme) :
    (expectRaw off ls).map
        (fun r => (⟨r.typ, r.value, (posOf c r.start).1, (posOf c r.start).2⟩ : Tok))
      = expectToks c off ls := by
  induction ls generalizing off with
  | nil => rfl
  | cons l ls ih =>
    simp only [expectRaw, expectToks, List.map_cons]
    rw [ih]

/-- **the token stream of a lexeme sequence**, all options off: exactly the lexemes, each with
its class and the line/column of its first rune, followed by the Eof token. -/
theorem tokenize_of_chain (cfg : Cfg) (hk : cfg.kind ≠ .mustache) (hc : RawContract cfg)
    (P : Lexeme → List Rune → Prop)
    (hstep : ∀ (s : Scanner) (l : Lexeme) (rest : List Rune), s.WF →
      s.content.drop s.pos = l.text ++ rest → P l rest → Cuts cfg s l.typ l.text l.quote rest)
    (ls : List Lexeme) (hch : Chain P ls) :
    tokenize cfg Opts.allOff (lexText ls) =
      expectToks (lexText ls) 0 ls ++ [eofTok (lexText ls)] := by
  rw [C12_positions_off cfg hk hc]
  have h := rawSpec_of_chain cfg P hstep ls (Scanner.new (lexText ls)) ((lexText ls).length + 2)
    (new_wf _) (by simp [Scanner.new]) hch (by simp [Scanner.new])
  rw [h]
  have e : min (Scanner.new (lexText ls)).pos (Scanner.new (lexText ls)).content.length = 0 := by
    simp [Scanner.new]
  rw [e, expectRaw_stamp]

/-! ### the same with string decoding switched on -/

/-- type and (decoded) text of the token made from a lexeme -/
def lexPair (cfg : Cfg) (l : Lexeme) : Nat × List Rune :=
  (l.typ, match l.quote with
          | some q => decodeFor cfg q l.text
          | none => l.text)

theorem postSpec_decodeOn (cfg : Cfg) (c : List Rune) (last : Nat) (raws : List RawTok) :
    (postSpec cfg Opts.decodeOn c last raws).map (fun t => (t.typ, t.value)) =
      raws.map (fun r => (r.typ, match r.quote with
                                  | some q => decodeFor cfg q r.value
                                  | none => r.value)) := by
  induction raws generalizing last with
  | nil => rfl
  | cons r rest ih =>
    have hp : processSpec cfg Opts.decodeOn c last r =
        some ⟨r.typ, (match r.quote with
                      | some q => decodeFor cfg q r.value
                      | none => r.value), (posOf c r.start).1, (posOf c r.start).2⟩ := by
      unfold processSpec
      simp only [Opts.decodeOn, Opts.allOff, Bool.and_false, Bool.false_and, Bool.false_eq_true,
        if_false, if_true]
      cases r.quote <;> rfl
    rw [postSpec_cons, hp]
    simp only [List.map_cons]
    rw [ih]

theorem expectRaw_pairs (cfg : Cfg) (off : Nat) (ls : List Lexeme) :
    (expectRaw off ls).map (fun r => (r.typ, match r.quote with
                                             | some q => decodeFor cfg q r.value
                                             | none => r.value)) = ls.map (lexPair cfg) := by
  induction ls generalizing off with
  | nil => rfl
  | cons l ls ih =>
    simp only [expectRaw, List.map_cons]
    rw [ih]
    rfl

/-- **the token stream of a lexeme sequence with string decoding on**: types and (decoded)
texts are those of the lexemes, then the Eof token. -/
theorem tokenize_of_chain_decode (cfg : Cfg) (hk : cfg.kind ≠ .mustache) (hc : RawContract cfg)
    (P : Lexeme → List Rune → Prop)
    (hstep : ∀ (s : Scanner) (l : Lexeme) (rest : List Rune), s.WF →
      s.content.drop s.pos = l.text ++ rest → P l rest → Cuts cfg s l.typ l.text l.quote rest)
    (ls : List Lexeme) (hch : Chain P ls) :
    (tokenize cfg Opts.decodeOn (lexText ls)).map (fun t => (t.typ, t.value)) =
      ls.map (lexPair cfg) ++ [(TT.eof, [])] := by
  rw [tokenize_eq_streamSpec cfg hk hc]
  unfold streamSpec
  have h := rawSpec_of_chain cfg P hstep ls (Scanner.new (lexText ls)) ((lexText ls).length + 2)
    (new_wf _) (by simp [Scanner.new]) hch (by simp [Scanner.new])
  rw [h, List.map_append, postSpec_decodeOn, expectRaw_pairs]
  rfl

/-! ### `Chain` over concatenations -/

theorem lexText_append (a b : List Lexeme) : lexText (a ++ b) = lexText a ++ lexText b := by
  simp [lexText]

theorem Chain.imp {P Q : Lexeme → List Rune → Prop} (h : ∀ l r, P l r → Q l r) :
    ∀ {ls : List Lexeme}, Chain P ls → Chain Q ls
  | [], _ => trivial
  | _ :: _, hc => ⟨h _ _ hc.1, Chain.imp h hc.2⟩

/-- a chain over `a ++ b`, relative to a tail text `T` -/
theorem Chain.append (Q : Lexeme → List Rune → Prop) (T : List Rune) (a b : List Lexeme)
    (ha : Chain (fun l r => Q l (r ++ (lexText b ++ T))) a)
    (hb : Chain (fun l r => Q l (r ++ T)) b) :
    Chain (fun l r => Q l (r ++ T)) (a ++ b) := by
  induction a with
  | nil => exact hb
  | cons x a ih =>
    refine ⟨?_, ih ha.2⟩
    have := ha.1
    show Q x (lexText (a ++ b) ++ T)
    rw [lexText_append, List.append_assoc]
    exact this

end Verif
