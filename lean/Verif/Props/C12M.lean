/-
C12 for all four built-in tokenizers: the generic development (Props/C12.lean: generic, expression, csv)
and the mustache tokenizer with its mode-alternating override (Props/MustacheTok.lean).
-/
import Verif.Props.C12
import Verif.Props.MustacheTok
import Verif.Props.CfgTok
