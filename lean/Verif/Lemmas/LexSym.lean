/-
Symbol-state facts for C13 / C09: the built-in symbol tables are `build` of their registration
lists (so C16 applies), the longest-match SPEC only looks at as many runes as the longest
registered symbol has, and one `rawNext` step through the symbol state returns `symCut`.
-/
import Verif.Lemmas.LexStep
import Verif.Props.C16

namespace Verif
open Scanner

theorem addSyms_eq_build (l : List (String × Nat)) : addSyms SymTab.empty l = build (regsOf l) := by
  unfold addSyms build regsOf
  rw [List.foldl_map]

theorem generic_symbols : genericCfg.symbols = build genericRegs := addSyms_eq_build _
theorem expression_symbols : expressionCfg.symbols = build expressionRegs := addSyms_eq_build _

/-! ### the longest-match SPEC is local -/

theorem returnable_length_le (regs : Regs) (n : Nat) (hn : 1 ≤ n)
    (hlen : ∀ r ∈ regs, r.1.length ≤ n) (p : List Rune) (h : returnable regs p = true) :
    p.length ≤ n := by
  rcases (returnable_iff regs p).mp h with h | ⟨h1, _⟩
  · obtain ⟨r, hr, rfl⟩ := (registered_iff regs p).mp h
    exact hlen r hr
  · omega

theorem longestUpTo_stable (regs : Regs) (n : Nat) (hn : 1 ≤ n)
    (hlen : ∀ r ∈ regs, r.1.length ≤ n) (input : List Rune) (m : Nat) (h1 : n ≤ m)
    (h2 : m ≤ input.length) : longestUpTo regs input m = longestUpTo regs input n := by
  induction m with
  | zero => have : n = 0 := by omega
            rw [this]
  | succ m ih =>
    by_cases h : n = m + 1
    · rw [h]
    · have hr : returnable regs (input.take (m+1)) = false := by
        rw [Bool.eq_false_iff]
        intro hret
        have := returnable_length_le regs n hn hlen _ hret
        rw [List.length_take] at this
        omega
      rw [longestUpTo, hr]
      simp only [Bool.false_eq_true, if_false]
      exact ih (by omega) (by omega)

theorem longestUpTo_congr (regs : Regs) (a b : List Rune) (n : Nat)
    (h : ∀ k, k ≤ n → a.take k = b.take k) : longestUpTo regs a n = longestUpTo regs b n := by
  induction n with
  | zero => rfl
  | succ n ih =>
    rw [longestUpTo, longestUpTo, h (n+1) (Nat.le_refl _), ih (fun k hk => h k (by omega))]

/-- only the first `n` runes matter when no registered symbol is longer than `n` -/
theorem longest_take (regs : Regs) (n : Nat) (hn : 1 ≤ n) (hlen : ∀ r ∈ regs, r.1.length ≤ n)
    (input : List Rune) : longest regs input = longest regs (input.take n) := by
  by_cases h : input.length ≤ n
  · rw [List.take_of_length_le h]
  · rw [longest_eq, longest_eq, List.length_take, Nat.min_eq_left (by omega),
      longestUpTo_stable regs n hn hlen input input.length (by omega) (Nat.le_refl _)]
    apply longestUpTo_congr
    intro k hk
    rw [List.take_take, Nat.min_eq_left hk]

theorem symCut_take (regs : Regs) (n : Nat) (hn : 1 ≤ n) (hlen : ∀ r ∈ regs, r.1.length ≤ n)
    (input : List Rune) : symCut regs input = symCut regs (input.take n) := by
  unfold symCut
  rw [← longest_take regs n hn hlen, List.take_take, Nat.min_eq_left hn]

/-- for a non-empty lexeme only the first rune of what follows matters (tables with symbols
of at most two runes) -/
theorem symCut_head (regs : Regs) (hlen : ∀ r ∈ regs, r.1.length ≤ 2) (lex rest : List Rune)
    (hne : lex ≠ []) : symCut regs (lex ++ rest) = symCut regs (lex ++ rest.head?.toList) := by
  rw [symCut_take regs 2 (by omega) hlen (lex ++ rest),
    symCut_take regs 2 (by omega) hlen (lex ++ rest.head?.toList)]
  congr 1
  cases lex with
  | nil => exact absurd rfl hne
  | cons a t =>
    cases t with
    | cons b t' => simp
    | nil =>
      cases rest with
      | nil => rfl
      | cons x xs => simp

/-- a registered two-rune symbol is the longest match, whatever follows -/
theorem longest_two (regs : Regs) (hlen : ∀ r ∈ regs, r.1.length ≤ 2) (a b : Rune)
    (rest : List Rune) (hreg : registered regs [a, b] = true) :
    longest regs (a :: b :: rest) = some [a, b] := by
  rw [longest_take regs 2 (by omega) hlen]
  show longest regs [a, b] = some [a, b]
  rw [longest_eq]
  have hret : returnable regs [a, b] = true := (returnable_iff regs _).mpr (Or.inl hreg)
  show (if returnable regs [a, b] then some [a, b] else longestUpTo regs [a, b] 1) = _
  rw [hret]; rfl

/-- a returnable rune not followed by a rune completing a registered symbol is the match -/
theorem longest_one (regs : Regs) (hlen : ∀ r ∈ regs, r.1.length ≤ 2) (a : Rune)
    (rest : List Rune) (hret : returnable regs [a] = true)
    (hreg : ∀ x, rest.head? = some x → registered regs [a, x] = false) :
    longest regs (a :: rest) = some [a] := by
  rw [longest_take regs 2 (by omega) hlen, longest_eq]
  have h1 : ∀ l : List Rune, l.take 1 = [a] → longestUpTo regs l 1 = some [a] := by
    intro l hl
    show (if returnable regs (l.take 1) then some (l.take 1) else longestUpTo regs l 0) = _
    rw [hl, hret]; rfl
  cases rest with
  | nil => exact h1 [a] rfl
  | cons x xs =>
    show longestUpTo regs [a, x] 2 = some [a]
    have hr : returnable regs [a, x] = false := by
      rw [Bool.eq_false_iff]
      intro h
      rcases (returnable_iff regs _).mp h with h | ⟨h, _⟩
      · rw [hreg x rfl] at h; cases h
      · simp at h
    have e : longestUpTo regs [a, x] 2 = longestUpTo regs [a, x] 1 := by
      show (if returnable regs [a, x] then some [a, x] else longestUpTo regs [a, x] 1) = _
      rw [hr]; rfl
    rw [e]
    exact h1 [a, x] rfl

/-! ### the type reported by a table that registers only one type -/

theorem specType_const (regs : Regs) (t : Nat) (ht : ∀ r ∈ regs, r.2 = t) (hs : t = TT.symbol)
    (p : List Rune) : specType regs p = TT.symbol := by
  unfold specType
  split
  · rename_i r hf
    have hm := List.mem_of_find?_eq_some hf
    rw [ht r (by simpa using hm), hs]
  · rfl

/-! ### one step through the symbol state -/

/-- **symbol step**: whenever the dispatched state ends up running the trie of `regs` on the
scanner it was entered with, the raw token is the longest returnable prefix of the remaining
input (one rune when there is none) -/
theorem rawNext_via_symbol (cfg : Cfg) (regs : Regs) (hok : ∀ r ∈ regs, regOk r = true)
    (s : Scanner) (c : Rune) (hpk : s.peek = some c) (sid : StateId)
    (hd : cfg.dispatch.lookup c = some sid) (hsid : sid ≠ .quote)
    (hrun : runState cfg sid (s.content.length + 2) s
      = (build regs).nextToken (s.content.length + 2) s) :
    (rawNext cfg c s).1.tok.value = symCut regs (s.content.drop s.pos) ∧
    (rawNext cfg c s).1.tok.typ =
      (match longest regs (s.content.drop s.pos) with
       | some p => specType regs p
       | none => TT.symbol) ∧
    (rawNext cfg c s).1.quote = none := by
  have hlt := (peek_some_lt hpk).1
  have hcore := C16_core regs hok s hlt
  have hd1 := drop_of_peek hpk
  have key : (runState cfg sid (s.content.length + 2) s).1.value
        = symCut regs (s.content.drop s.pos) ∧
      (runState cfg sid (s.content.length + 2) s).1.typ =
        (match longest regs (s.content.drop s.pos) with
         | some p => specType regs p
         | none => TT.symbol) ∧
      (runState cfg sid (s.content.length + 2) s).1.value ≠ [] := by
    rw [hrun]
    rcases hcore with ⟨hl, hv, ht, _⟩ | ⟨p, hl, hret, hv, ht, _⟩
    · refine ⟨?_, ?_, ?_⟩
      · rw [hv]; unfold symCut; rw [hl]; rfl
      · rw [ht, hl]
      · rw [hv, hd1]; simp
    · refine ⟨?_, ?_, ?_⟩
      · rw [hv]; unfold symCut; rw [hl]; rfl
      · rw [ht, hl]
      · rw [hv]
        exact ((isNode_iff regs p).mp (isNode_of_returnable regs hok p hret)).1
  obtain ⟨h1, h2, _⟩ := rawNext_of_state cfg c s sid hd key.2.2
  refine ⟨by rw [h1]; exact key.1, by rw [h1]; exact key.2.1, ?_⟩
  rw [h2, if_neg hsid]

theorem symState_eq_build (cfg : Cfg) (regs : Regs) (hsyms : cfg.symbols = build regs)
    (hkind : cfg.kind ≠ .csv) (f : Nat) (s : Scanner) :
    symState cfg f s = (build regs).nextToken f s := by
  unfold symState
  split
  · rename_i hk; exact absurd hk hkind
  · rw [hsyms]

/-- the instance for a rune dispatched to the symbol state -/
theorem rawNext_symbol (cfg : Cfg) (regs : Regs) (hsyms : cfg.symbols = build regs)
    (hok : ∀ r ∈ regs, regOk r = true) (hkind : cfg.kind ≠ .csv)
    (s : Scanner) (c : Rune) (hpk : s.peek = some c)
    (hd : cfg.dispatch.lookup c = some .symbol) :
    (rawNext cfg c s).1.tok.value = symCut regs (s.content.drop s.pos) ∧
    (rawNext cfg c s).1.tok.typ =
      (match longest regs (s.content.drop s.pos) with
       | some p => specType regs p
       | none => TT.symbol) ∧
    (rawNext cfg c s).1.quote = none :=
  rawNext_via_symbol cfg regs hok s c hpk .symbol hd (by decide)
    (symState_eq_build cfg regs hsyms hkind _ s)

end Verif
