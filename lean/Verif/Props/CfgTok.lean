/-
C04 / C12 / C15 for tokenizers RECONFIGURED BY THE USER.

The segmentation contract (`RawContract`) is proved in `Lemmas/MainLoop.lean` for every configuration
whose symbol table stores no Eof type and whose C comment state is handed '/' only (`rawContract_of`).
A user configuration (`Cfg.configureAll`, Model/Tokenizer.lean) keeps the first condition as long as no
symbol is registered with the Eof type, and the second one is exactly "the comment state is not misused"
(`Cfg.misuse`, the explicit panic of `CCommentState`).  So every theorem of the option-free / option
stream development holds for every constructed generic, expression or csv tokenizer after ANY history of
`SetCharacterState` / `ClearCharacterStates` / `SetWordChars` / `SetWhitespaceChars` / `SymbolState.Add`
— including configurations that make no sense (digits handed to the quote state, letters to the number
state, everything disabled): the tokens still concatenate to the input, carry the forward-scan
positions, and the options still act as a one-pass filter.
-/
import Verif.Props.C04
import Verif.Props.C12
import Verif.Props.C15
import Verif.Props.C17Tok

namespace Verif

/-- no symbol is registered with the Eof token type -/
def CfgOp.noEof : CfgOp → Prop
  | .symbol _ t => t ≠ TT.eof
  | _ => True

theorem configure_typesOK (cfg : Cfg) (op : CfgOp) (h : cfg.symbols.TypesOK) (ho : op.noEof) :
    (cfg.configure op).symbols.TypesOK := by
  cases op with
  | symbol v t => exact SymTab.add_typesOK cfg.symbols v t h ho
  | state lo hi st => exact h
  | clearStates => exact h
  | wordChars lo hi en => exact h
  | clearWordChars => exact h
  | wsChars lo hi en => exact h
  | clearWsChars => exact h

theorem configureAll_typesOK (cfg : Cfg) (ops : List CfgOp) (h : cfg.symbols.TypesOK)
    (ho : ∀ op ∈ ops, op.noEof) : (cfg.configureAll ops).symbols.TypesOK := by
  induction ops generalizing cfg with
  | nil => exact h
  | cons op ops ih =>
    show ((cfg.configure op).configureAll ops).symbols.TypesOK
    exact ih _ (configure_typesOK cfg op h (ho op (List.mem_cons_self ..)))
      (fun o hm => ho o (List.mem_cons_of_mem _ hm))

/-- **the segmentation contract survives every user configuration** that registers no Eof-typed symbol and
does not hand the C comment state anything but '/' -/
theorem rawContract_configured (base : Cfg) (hb : base.symbols.TypesOK) (ops : List CfgOp)
    (ho : ∀ op ∈ ops, op.noEof) (hm : ∀ c, (base.configureAll ops).misuse c = false) :
    RawContract (base.configureAll ops) := by
  apply rawContract_of _ (configureAll_typesOK base ops hb ho)
  intro hk ch hd
  have h := hm ch
  unfold Cfg.misuse at h
  rw [hk, hd] at h
  simp at h
  exact h

/-- a configuration of a non-expression tokenizer cannot misuse the C comment state at all -/
theorem misuse_of_kind (base : Cfg) (hk : base.kind ≠ .expression) (ops : List CfgOp) (c : Rune) :
    (base.configureAll ops).misuse c = false := by
  unfold Cfg.misuse
  rw [configureAll_kind]
  cases hkk : base.kind <;> simp_all

theorem configureAll_kind_ne_mustache (base : Cfg) (hk : base.kind ≠ .mustache) (ops : List CfgOp) :
    (base.configureAll ops).kind ≠ .mustache := by
  rw [configureAll_kind]; exact hk

/-! ### the three stream properties for configured tokenizers -/

/-- **C04, any configuration**: the token values concatenate to the input, the last token is Eof, all others
are non-empty -/
theorem C04_configured (base : Cfg) (hk : base.kind ≠ .mustache) (hb : base.symbols.TypesOK)
    (ops : List CfgOp) (ho : ∀ op ∈ ops, op.noEof) (hm : ∀ c, (base.configureAll ops).misuse c = false)
    (c : List Rune) :
    ((tokenize (base.configureAll ops) Opts.allOff c).map (·.value)).flatten = c ∧
    (tokenize (base.configureAll ops) Opts.allOff c).getLast? = some (eofTok c) ∧
    (∀ t ∈ (tokenize (base.configureAll ops) Opts.allOff c).dropLast, t.value ≠ []) :=
  C04_lossless _ (configureAll_kind_ne_mustache base hk ops) (rawContract_configured base hb ops ho hm) c

/-- **C15, any configuration**: the options act as a one-pass filter of the option-free segmentation -/
theorem C15_configured (base : Cfg) (hk : base.kind ≠ .mustache) (hb : base.symbols.TypesOK)
    (ops : List CfgOp) (ho : ∀ op ∈ ops, op.noEof) (hm : ∀ c, (base.configureAll ops).misuse c = false)
    (o : Opts) (c : List Rune) :
    tokenize (base.configureAll ops) o c = streamSpec (base.configureAll ops) o c :=
  C15_options_factor _ (configureAll_kind_ne_mustache base hk ops) (rawContract_configured base hb ops ho hm) o c

/-- **C12, any configuration**: every token carries the forward-scan position of its first rune -/
theorem C12_configured (base : Cfg) (hk : base.kind ≠ .mustache) (hb : base.symbols.TypesOK)
    (ops : List CfgOp) (ho : ∀ op ∈ ops, op.noEof) (hm : ∀ c, (base.configureAll ops).misuse c = false)
    (o : Opts) (c : List Rune) :
    ∀ t ∈ tokenize (base.configureAll ops) o c, t = eofTok c ∨
      ∃ r ∈ rawSpec (base.configureAll ops) (c.length + 2) (Scanner.new c),
        (t.line, t.col) = posOf c r.start ∧
        r.value = slice c r.start (r.start + r.value.length) ∧ r.value ≠ [] :=
  C12_positions _ (configureAll_kind_ne_mustache base hk ops) (rawContract_configured base hb ops ho hm) o c

/-! ### instances: the generic and csv tokenizers need no side condition on the comment state -/

theorem C04_generic_configured (ops : List CfgOp) (ho : ∀ op ∈ ops, op.noEof) (c : List Rune) :
    ((tokenize (genericCfg.configureAll ops) Opts.allOff c).map (·.value)).flatten = c :=
  (C04_configured genericCfg (by decide) genericSyms_ok ops ho
    (misuse_of_kind genericCfg (by decide) ops) c).1

theorem C15_generic_configured (ops : List CfgOp) (ho : ∀ op ∈ ops, op.noEof) (o : Opts) (c : List Rune) :
    tokenize (genericCfg.configureAll ops) o c = streamSpec (genericCfg.configureAll ops) o c :=
  C15_configured genericCfg (by decide) genericSyms_ok ops ho (misuse_of_kind genericCfg (by decide) ops) o c

theorem C04_csv_configured (seps quotes : List Rune) (ops : List CfgOp) (ho : ∀ op ∈ ops, op.noEof)
    (c : List Rune) :
    ((tokenize ((csvCfg seps quotes).configureAll ops) Opts.allOff c).map (·.value)).flatten = c :=
  (C04_configured (csvCfg seps quotes)
    (fun h => absurd (show Kind.csv = Kind.mustache from h) (by decide)) csvSyms_ok ops ho
    (misuse_of_kind (csvCfg seps quotes)
      (fun h => absurd (show Kind.csv = Kind.expression from h) (by decide)) ops) c).1

/-- the expression tokenizer: as long as the configuration leaves the comment state on '/' only -/
theorem C04_expression_configured (ops : List CfgOp) (ho : ∀ op ∈ ops, op.noEof)
    (hm : ∀ c, (expressionCfg.configureAll ops).misuse c = false) (c : List Rune) :
    ((tokenize (expressionCfg.configureAll ops) Opts.allOff c).map (·.value)).flatten = c :=
  (C04_configured expressionCfg (by decide) expressionSyms_ok ops ho hm c).1

/-- … which holds in particular when the configuration never mentions the comment state -/
theorem misuse_free_of_no_comment (ops : List CfgOp)
    (h : ∀ op ∈ ops, ∀ lo hi, op ≠ .state lo hi (some .comment)) (c : Rune) :
    (expressionCfg.configureAll ops).misuse c = false := by
  unfold Cfg.misuse
  rw [configureAll_kind]
  by_cases hc : c = 47
  · simp [hc]
  · have hl : (expressionCfg.configureAll ops).dispatch.lookup c ≠ some .comment := by
      rw [C17_tokenizer_dispatch expressionCfg expression_dispatch_inv]
      -- the latest covering registration is either one of `ops` (never the comment state) or the built-in one
      suffices ∀ (l : List CfgOp) (d : Option StateId), d ≠ some .comment →
          (∀ op ∈ l, ∀ lo hi, op ≠ .state lo hi (some .comment)) →
          MapOp.specRevD d c (l.filterMap CfgOp.toStateOp).reverse ≠ some .comment by
        apply this ops _ _ h
        intro hd
        exact hc (expression_comment_47 c hd)
      intro l
      induction l with
      | nil => intro d hd _; simpa [MapOp.specRevD] using hd
      | cons op l ih =>
        intro d hd hl
        have hl' : ∀ o ∈ l, ∀ lo hi, o ≠ .state lo hi (some .comment) :=
          fun o ho => hl o (List.mem_cons_of_mem _ ho)
        have hop := hl op (List.mem_cons_self ..)
        cases op with
        | state lo hi st =>
          simp only [List.filterMap_cons, CfgOp.toStateOp, List.reverse_cons]
          rw [MapOp.specRevD_append_single]
          apply ih _ _ hl'
          simp only [MapOp.specRevD]
          split
          · intro hs; exact hop lo hi (by rw [hs])
          · exact hd
        | clearStates =>
          simp only [List.filterMap_cons, CfgOp.toStateOp, List.reverse_cons]
          rw [MapOp.specRevD_append_single]
          apply ih _ _ hl'
          simp [MapOp.specRevD]
        | wordChars lo hi en =>
          have e : List.filterMap CfgOp.toStateOp (CfgOp.wordChars lo hi en :: l) = List.filterMap CfgOp.toStateOp l := rfl
          rw [e]; exact ih d hd hl'
        | clearWordChars =>
          have e : List.filterMap CfgOp.toStateOp (CfgOp.clearWordChars :: l) = List.filterMap CfgOp.toStateOp l := rfl
          rw [e]; exact ih d hd hl'
        | wsChars lo hi en =>
          have e : List.filterMap CfgOp.toStateOp (CfgOp.wsChars lo hi en :: l) = List.filterMap CfgOp.toStateOp l := rfl
          rw [e]; exact ih d hd hl'
        | clearWsChars =>
          have e : List.filterMap CfgOp.toStateOp (CfgOp.clearWsChars :: l) = List.filterMap CfgOp.toStateOp l := rfl
          rw [e]; exact ih d hd hl'
        | symbol v t =>
          have e : List.filterMap CfgOp.toStateOp (CfgOp.symbol v t :: l) = List.filterMap CfgOp.toStateOp l := rfl
          rw [e]; exact ih d hd hl'
    simp [hl]

/-- Non-vacuity: the configuration of the C13 stream (Cyrillic and Greek as word starts) and a nonsensical one
(digits to the quote state, letters disabled, a new three-character symbol) both satisfy the hypotheses -/
example : ∀ op ∈ [CfgOp.state 0x400 0x4ff (some .word), .state 0x370 0x3ff (some .word),
    .state 48 57 (some .quote), .state 97 122 none, .symbol [61, 58, 61] TT.symbol], op.noEof := by
  intro op h
  simp only [List.mem_cons, List.mem_nil_iff, or_false] at h
  rcases h with rfl | rfl | rfl | rfl | rfl <;> simp [CfgOp.noEof, TT.symbol, TT.eof]

end Verif
