/-
The character classes of `Spec/Lexemes.lean` derived from the configuration maps: which state
the generic / expression tokenizer dispatches a rune to, and which runes its word / whitespace
states accept.  Everything goes through `MapOp.C17_lookup_latest` (the latest covering
registration wins); nothing is decided by enumeration of the 65 535 runes.
-/
import Verif.Lemmas.LexBase
import Verif.Spec.Lexemes

namespace Verif
open Scanner

/-- decide a chain of `if lo ≤ c ∧ c ≤ hi then … else …` with `omega` -/
macro "ifs_omega" : tactic =>
  `(tactic| ((repeat (first | refine Eq.trans (if_neg (by omega)) ?_
                            | refine Eq.trans (if_pos (by omega)) ?_)); try rfl))

theorem inR_iff (lo hi c : Nat) : inR lo hi c = true ↔ lo ≤ c ∧ c ≤ hi := by
  simp [inR]

theorem inR_false_iff (lo hi c : Nat) : inR lo hi c = false ↔ ¬ (lo ≤ c ∧ c ≤ hi) := by
  rw [← inR_iff]; simp

/-! ### dispatch maps -/

theorem setStates_eq_run (l : List (Nat × Nat × StateId)) (m : CharMap StateId) :
    setStates m l = MapOp.run m (l.map (fun e => MapOp.add e.1 e.2.1 (some e.2.2))) := by
  unfold setStates MapOp.run
  rw [List.foldl_map]
  rfl

theorem setStates_lookup (l : List (Nat × Nat × StateId)) (c : Nat) :
    (setStates CharMap.empty l).lookup c =
      MapOp.spec (l.map (fun e => MapOp.add e.1 e.2.1 (some e.2.2))) c := by
  rw [setStates_eq_run]; exact MapOp.C17_lookup_latest _ _

/-- the generic dispatch map, newest registration first -/
theorem generic_dispatch (c : Nat) : genericCfg.dispatch.lookup c =
    if 35 ≤ c ∧ c ≤ 35 then some .comment else if 39 ≤ c ∧ c ≤ 39 then some .quote
    else if 34 ≤ c ∧ c ≤ 34 then some .quote
    else if 46 ≤ c ∧ c ≤ 46 then some .number else if 48 ≤ c ∧ c ≤ 57 then some .number
    else if 45 ≤ c ∧ c ≤ 45 then some .number else if 0x100 ≤ c ∧ c ≤ 0xfffe then some .word
    else if 0xc0 ≤ c ∧ c ≤ 0xff then some .word else if 65 ≤ c ∧ c ≤ 90 then some .word
    else if 97 ≤ c ∧ c ≤ 122 then some .word else if 0 ≤ c ∧ c ≤ 32 then some .whitespace
    else if 0 ≤ c ∧ c ≤ 0xff then some .symbol else none := by
  show (setStates CharMap.empty _).lookup c = _
  rw [setStates_lookup]
  simp only [MapOp.spec, List.map, List.reverse_cons, List.reverse_nil, List.nil_append,
    List.cons_append, MapOp.specRevD, CharMap.clampEnd]
  simp only [ge_iff_le, Nat.reduceLeDiff, if_false, if_true]

/-- the expression dispatch map, newest registration first -/
theorem expression_dispatch (c : Nat) : expressionCfg.dispatch.lookup c =
    if 47 ≤ c ∧ c ≤ 47 then some .comment else if 39 ≤ c ∧ c ≤ 39 then some .quote
    else if 34 ≤ c ∧ c ≤ 34 then some .quote
    else if 46 ≤ c ∧ c ≤ 46 then some .number else if 45 ≤ c ∧ c ≤ 45 then some .number
    else if 48 ≤ c ∧ c ≤ 57 then some .number else if 95 ≤ c ∧ c ≤ 95 then some .word
    else if 0xc0 ≤ c ∧ c ≤ 0xff then some .word else if 65 ≤ c ∧ c ≤ 90 then some .word
    else if 97 ≤ c ∧ c ≤ 122 then some .word else if 0 ≤ c ∧ c ≤ 32 then some .whitespace
    else if 0 ≤ c ∧ c ≤ 0xfffe then some .symbol else none := by
  show (setStates CharMap.empty _).lookup c = _
  rw [setStates_lookup]
  simp only [MapOp.spec, List.map, List.reverse_cons, List.reverse_nil, List.nil_append,
    List.cons_append, MapOp.specRevD, CharMap.clampEnd]
  simp only [ge_iff_le, Nat.reduceLeDiff, if_false, if_true]

theorem isWordStartG_iff (c : Nat) : isWordStartG c = true ↔
    (97 ≤ c ∧ c ≤ 122) ∨ (65 ≤ c ∧ c ≤ 90) ∨ (0xc0 ≤ c ∧ c ≤ 0xff) ∨ (0x100 ≤ c ∧ c ≤ 0xfffe) := by
  simp only [isWordStartG, Bool.or_eq_true, inR_iff, or_assoc]

theorem isWordStartE_iff (c : Nat) : isWordStartE c = true ↔
    (97 ≤ c ∧ c ≤ 122) ∨ (65 ≤ c ∧ c ≤ 90) ∨ (95 ≤ c ∧ c ≤ 95) ∨ (0xc0 ≤ c ∧ c ≤ 0xff) := by
  simp only [isWordStartE, Bool.or_eq_true, inR_iff, or_assoc]

theorem isWs_iff (c : Nat) : isWs c = true ↔ c ≤ 32 := by
  simp [isWs, inR]

/-- **generic: a rune starts an identifier iff it is dispatched to the word state** -/
theorem generic_dispatch_word (c : Nat) (h : isWordStartG c = true) :
    genericCfg.dispatch.lookup c = some .word := by
  rw [generic_dispatch]
  rw [isWordStartG_iff] at h
  rcases h with h | h | h | h <;> ifs_omega

theorem generic_dispatch_word_iff (c : Nat) :
    genericCfg.dispatch.lookup c = some .word ↔ isWordStartG c = true := by
  refine ⟨fun h => ?_, generic_dispatch_word c⟩
  cases hb : isWordStartG c with
  | true => rfl
  | false =>
    exfalso
    have hn : ¬ ((97 ≤ c ∧ c ≤ 122) ∨ (65 ≤ c ∧ c ≤ 90) ∨ (0xc0 ≤ c ∧ c ≤ 0xff) ∨
        (0x100 ≤ c ∧ c ≤ 0xfffe)) := by
      rw [← isWordStartG_iff, hb]; exact Bool.false_ne_true
    rw [generic_dispatch] at h
    by_cases h1 : 35 ≤ c ∧ c ≤ 35
    · rw [if_pos h1] at h; cases h
    rw [if_neg h1] at h
    by_cases h2 : 39 ≤ c ∧ c ≤ 39
    · rw [if_pos h2] at h; cases h
    rw [if_neg h2] at h
    by_cases h3 : 34 ≤ c ∧ c ≤ 34
    · rw [if_pos h3] at h; cases h
    rw [if_neg h3] at h
    by_cases h4 : 46 ≤ c ∧ c ≤ 46
    · rw [if_pos h4] at h; cases h
    rw [if_neg h4] at h
    by_cases h5 : 48 ≤ c ∧ c ≤ 57
    · rw [if_pos h5] at h; cases h
    rw [if_neg h5] at h
    by_cases h6 : 45 ≤ c ∧ c ≤ 45
    · rw [if_pos h6] at h; cases h
    rw [if_neg h6, if_neg (by omega), if_neg (by omega), if_neg (by omega), if_neg (by omega)] at h
    by_cases h7 : 0 ≤ c ∧ c ≤ 32
    · rw [if_pos h7] at h; cases h
    rw [if_neg h7] at h
    by_cases h8 : 0 ≤ c ∧ c ≤ 0xff
    · rw [if_pos h8] at h; cases h
    rw [if_neg h8] at h; cases h

/-- **expression: word starts** -/
theorem expression_dispatch_word (c : Nat) (h : isWordStartE c = true) :
    expressionCfg.dispatch.lookup c = some .word := by
  rw [expression_dispatch]
  rw [isWordStartE_iff] at h
  rcases h with h | h | h | h <;> ifs_omega

theorem generic_dispatch_ws (c : Nat) (h : isWs c = true) :
    genericCfg.dispatch.lookup c = some .whitespace := by
  rw [generic_dispatch]; rw [isWs_iff] at h; ifs_omega

theorem expression_dispatch_ws (c : Nat) (h : isWs c = true) :
    expressionCfg.dispatch.lookup c = some .whitespace := by
  rw [expression_dispatch]; rw [isWs_iff] at h; ifs_omega

theorem isDigit_iff (c : Nat) : isDigit c = true ↔ 48 ≤ c ∧ c ≤ 57 := by
  simp [isDigit]

/-- number state: digits, `-` and `.` -/
theorem generic_dispatch_number (c : Nat) (h : isDigit c = true ∨ c = 45 ∨ c = 46) :
    genericCfg.dispatch.lookup c = some .number := by
  rw [generic_dispatch]; rw [isDigit_iff] at h
  rcases h with h | h | h <;> ifs_omega

theorem expression_dispatch_number (c : Nat) (h : isDigit c = true ∨ c = 45 ∨ c = 46) :
    expressionCfg.dispatch.lookup c = some .number := by
  rw [expression_dispatch]; rw [isDigit_iff] at h
  rcases h with h | h | h <;> ifs_omega

theorem generic_dispatch_quote (c : Nat) (h : c = 34 ∨ c = 39) :
    genericCfg.dispatch.lookup c = some .quote := by
  rw [generic_dispatch]; rcases h with h | h <;> ifs_omega

theorem expression_dispatch_quote (c : Nat) (h : c = 34 ∨ c = 39) :
    expressionCfg.dispatch.lookup c = some .quote := by
  rw [expression_dispatch]; rcases h with h | h <;> ifs_omega

theorem generic_dispatch_comment : genericCfg.dispatch.lookup 35 = some .comment := by
  rw [generic_dispatch]; ifs_omega

theorem expression_dispatch_comment : expressionCfg.dispatch.lookup 47 = some .comment := by
  rw [expression_dispatch]; ifs_omega

theorem isSymStartG_iff (c : Nat) : isSymStartG c = true ↔
    (33 ≤ c ∧ c ≤ 0xbf) ∧ ¬ ((97 ≤ c ∧ c ≤ 122) ∨ (65 ≤ c ∧ c ≤ 90) ∨ (48 ≤ c ∧ c ≤ 57) ∨
      (45 ≤ c ∧ c ≤ 46) ∨ (34 ≤ c ∧ c ≤ 35) ∨ (39 ≤ c ∧ c ≤ 39)) := by
  simp only [isSymStartG, Bool.and_eq_true, Bool.not_eq_true', Bool.or_eq_false_iff,
    inR_iff, inR_false_iff, not_or, and_assoc]

theorem isSymStartE_iff (c : Nat) : isSymStartE c = true ↔
    (33 ≤ c ∧ c ≤ 0xfffe) ∧ ¬ ((97 ≤ c ∧ c ≤ 122) ∨ (65 ≤ c ∧ c ≤ 90) ∨ (95 ≤ c ∧ c ≤ 95) ∨
      (0xc0 ≤ c ∧ c ≤ 0xff) ∨ (48 ≤ c ∧ c ≤ 57) ∨ (45 ≤ c ∧ c ≤ 47) ∨ (34 ≤ c ∧ c ≤ 34) ∨
      (39 ≤ c ∧ c ≤ 39)) := by
  simp only [isSymStartE, Bool.and_eq_true, Bool.not_eq_true', Bool.or_eq_false_iff,
    inR_iff, inR_false_iff, not_or, and_assoc]

theorem generic_dispatch_symbol (c : Nat) (h : isSymStartG c = true) :
    genericCfg.dispatch.lookup c = some .symbol := by
  rw [generic_dispatch]; rw [isSymStartG_iff] at h; ifs_omega

theorem expression_dispatch_symbol (c : Nat) (h : isSymStartE c = true) :
    expressionCfg.dispatch.lookup c = some .symbol := by
  rw [expression_dispatch]; rw [isSymStartE_iff] at h; ifs_omega

/-! ### word / whitespace character sets -/

theorem setChars_inv (m : CharMap Unit) (lo hi : Nat) (en : Bool) (h : m.Inv) :
    (setChars m lo hi en).Inv := CharMap.add_inv m _ _ _ h

theorem inMap_setChars (m : CharMap Unit) (lo hi : Nat) (en : Bool) (c : Nat) (h : m.Inv) :
    inMap (setChars m lo hi en) c =
      if lo ≤ c ∧ c ≤ CharMap.clampEnd hi then en else inMap m c := by
  unfold inMap setChars
  rw [CharMap.lookup_add m lo hi _ c h]
  split
  · cases en <;> rfl
  · rfl

theorem inMap_empty (c : Nat) : inMap CharMap.empty c = false := by
  unfold inMap; rw [CharMap.lookup_empty]; rfl

theorem isWordCharG_iff (c : Nat) : isWordCharG c = true ↔
    (97 ≤ c ∧ c ≤ 122) ∨ (65 ≤ c ∧ c ≤ 90) ∨ (0xc0 ≤ c ∧ c ≤ 0xff) ∨ (0x100 ≤ c ∧ c ≤ 0xfffe) ∨
    (48 ≤ c ∧ c ≤ 57) ∨ (45 ≤ c ∧ c ≤ 45) ∨ (95 ≤ c ∧ c ≤ 95) := by
  simp only [isWordCharG, Bool.or_eq_true, inR_iff, or_assoc]

theorem isWordCharE_iff (c : Nat) : isWordCharE c = true ↔
    (97 ≤ c ∧ c ≤ 122) ∨ (65 ≤ c ∧ c ≤ 90) ∨ (95 ≤ c ∧ c ≤ 95) ∨ (0xc0 ≤ c ∧ c ≤ 0xff) ∨
    (48 ≤ c ∧ c ≤ 57) ∨ (0x100 ≤ c ∧ c ≤ 0xfffe) := by
  simp only [isWordCharE, Bool.or_eq_true, inR_iff, or_assoc]

theorem genericWordChars_nf (c : Nat) : inMap genericWordChars c =
    if 0x100 ≤ c ∧ c ≤ 0xfffe then true else if 0xc0 ≤ c ∧ c ≤ 0xff then true
    else if 95 ≤ c ∧ c ≤ 95 then true else if 45 ≤ c ∧ c ≤ 45 then true
    else if 48 ≤ c ∧ c ≤ 57 then true else if 65 ≤ c ∧ c ≤ 90 then true
    else if 97 ≤ c ∧ c ≤ 122 then true else false := by
  dsimp only [genericWordChars]
  simp (maxDischargeDepth := 12) only [inMap_setChars, setChars_inv, CharMap.empty_inv, inMap_empty,
    CharMap.clampEnd]
  simp only [ge_iff_le, Nat.reduceLeDiff, if_false, if_true]

theorem exprWordChars_nf (c : Nat) : inMap exprWordChars c =
    if 0x100 ≤ c ∧ c ≤ 0xfffe then true else if 0xc0 ≤ c ∧ c ≤ 0xff then true
    else if 95 ≤ c ∧ c ≤ 95 then true
    else if 48 ≤ c ∧ c ≤ 57 then true else if 65 ≤ c ∧ c ≤ 90 then true
    else if 97 ≤ c ∧ c ≤ 122 then true else false := by
  dsimp only [exprWordChars]
  simp (maxDischargeDepth := 12) only [inMap_setChars, setChars_inv, CharMap.empty_inv, inMap_empty,
    CharMap.clampEnd]
  simp only [ge_iff_le, Nat.reduceLeDiff, if_false, if_true]

/-- **generic word characters**, from the configuration map -/
theorem inMap_genericWordChars (c : Nat) : inMap genericWordChars c = isWordCharG c := by
  rw [genericWordChars_nf]
  cases hb : isWordCharG c with
  | true =>
    rw [isWordCharG_iff] at hb
    rcases hb with h | h | h | h | h | h | h <;> ifs_omega
  | false =>
    have hn : ¬ _ := fun h => Bool.false_ne_true (hb ▸ (isWordCharG_iff c).mpr h)
    ifs_omega

/-- **expression word characters**, from the configuration map -/
theorem inMap_exprWordChars (c : Nat) : inMap exprWordChars c = isWordCharE c := by
  rw [exprWordChars_nf]
  cases hb : isWordCharE c with
  | true =>
    rw [isWordCharE_iff] at hb
    rcases hb with h | h | h | h | h | h <;> ifs_omega
  | false =>
    have hn : ¬ _ := fun h => Bool.false_ne_true (hb ▸ (isWordCharE_iff c).mpr h)
    ifs_omega

/-- **whitespace characters** (both tokenizers) -/
theorem inMap_defaultWsChars (c : Nat) : inMap defaultWsChars c = isWs c := by
  unfold defaultWsChars
  rw [inMap_setChars _ _ _ _ _ CharMap.empty_inv, inMap_empty]
  have e : CharMap.clampEnd 32 = 32 := by decide
  rw [e]
  cases hb : isWs c with
  | true => rw [isWs_iff] at hb; ifs_omega
  | false =>
    have hn : ¬ c ≤ 32 := fun h => Bool.false_ne_true (hb ▸ (isWs_iff c).mpr h)
    ifs_omega

/-- word starts are word characters -/
theorem isWordCharG_of_start (c : Nat) (h : isWordStartG c = true) : isWordCharG c = true := by
  rw [isWordStartG_iff] at h; rw [isWordCharG_iff]; omega

theorem isWordCharE_of_start (c : Nat) (h : isWordStartE c = true) : isWordCharE c = true := by
  rw [isWordStartE_iff] at h; rw [isWordCharE_iff]; omega

end Verif
