/-
SPEC for C13: the lexical classes of the generic and the expression tokenizer, written as plain
decidable predicates over rune lists, the boundary ("neighbours cannot merge") conditions, and
the expected token list of a lexeme sequence.

Nothing here mentions the scanner, the states or the dispatch maps; `Lemmas/LexClass.lean`
derives the character classes from the configuration maps and `Props/C13.lean` proves that the
tokenizers read every such lexeme back as exactly one token of its class.
-/
import Verif.Model.Tokenizer
import Verif.Spec.Symbols
import Verif.Spec.Stream

namespace Verif

/-! ### character classes -/

def inR (lo hi c : Nat) : Bool := decide (lo ≤ c) && decide (c ≤ hi)

/-- generic tokenizer: runes dispatched to the word state: a–z, A–Z, U+00C0–U+00FF,
U+0100–U+FFFE -/
def isWordStartG (c : Nat) : Bool :=
  inR 97 122 c || inR 65 90 c || inR 0xc0 0xff c || inR 0x100 0xfffe c

/-- generic tokenizer: word characters = word starts, digits, `-`, `_` -/
def isWordCharG (c : Nat) : Bool :=
  inR 97 122 c || inR 65 90 c || inR 0xc0 0xff c || inR 0x100 0xfffe c ||
    inR 48 57 c || inR 45 45 c || inR 95 95 c

/-- expression tokenizer: runes dispatched to the word state: a–z, A–Z, `_`, U+00C0–U+00FF -/
def isWordStartE (c : Nat) : Bool :=
  inR 97 122 c || inR 65 90 c || inR 95 95 c || inR 0xc0 0xff c

/-- expression tokenizer: word characters = word starts, digits, U+0100–U+FFFE -/
def isWordCharE (c : Nat) : Bool :=
  inR 97 122 c || inR 65 90 c || inR 95 95 c || inR 0xc0 0xff c || inR 48 57 c ||
    inR 0x100 0xfffe c

/-- whitespace: every rune ≤ U+0020 -/
def isWs (c : Nat) : Bool := inR 0 32 c

/-- generic tokenizer: runes dispatched to the symbol state (everything ≤ U+00FF that is not
whitespace, a letter, a digit, `-`, `.`, a quote or `#`) -/
def isSymStartG (c : Nat) : Bool :=
  inR 33 0xbf c && !(inR 97 122 c || inR 65 90 c || inR 48 57 c || inR 45 46 c ||
    inR 34 35 c || inR 39 39 c)

/-- expression tokenizer: runes dispatched to the symbol state (everything ≤ U+FFFE that is not
whitespace, a word start, a digit, `-`, `.`, a quote or `/`) -/
def isSymStartE (c : Nat) : Bool :=
  inR 33 0xfffe c && !(inR 97 122 c || inR 65 90 c || inR 95 95 c || inR 0xc0 0xff c ||
    inR 48 57 c || inR 45 47 c || inR 34 34 c || inR 39 39 c)

/-! ### the two built-in symbol tables as registration lists -/

def regsOf (l : List (String × Nat)) : Regs := l.map (fun e => (strOf e.1, e.2))

def genericRegs : Regs := regsOf [("<>", TT.symbol), ("<=", TT.symbol), (">=", TT.symbol)]

def expressionRegs : Regs :=
  regsOf [("<=", TT.symbol), (">=", TT.symbol), ("<>", TT.symbol), ("!=", TT.symbol),
          (">>", TT.symbol), ("<<", TT.symbol)]

/-- the text the symbol state cuts off `input`: the longest returnable prefix, else one rune -/
def symCut (regs : Regs) (input : List Rune) : List Rune :=
  (longest regs input).getD (input.take 1)

/-! ### lexeme shapes -/

def allDigits (l : List Rune) : Bool := l.all isDigit

/-- no `*/` inside, where `last` is the rune before the list -/
def noStarSlash : Rune → List Rune → Bool
  | _, [] => true
  | last, c :: cs => !(last == 42 && c == 47) && noStarSlash c cs

def headIs (p : Rune → Bool) (nx : Option Rune) : Bool :=
  match nx with
  | some c => p c
  | none => false

/-- a generic-tokenizer number body: `[-] digits [ . digits ]`; result = (is it a float?) -/
structure NumShape where
  sign : List Rune
  ip : List Rune
  dot : Bool
  fp : List Rune

def NumShape.text (n : NumShape) : List Rune :=
  n.sign ++ n.ip ++ (if n.dot then 46 :: n.fp else [])

def NumShape.ok (n : NumShape) : Bool :=
  (n.sign == [] || n.sign == [45]) && allDigits n.ip && allDigits n.fp &&
    (!n.ip.isEmpty || (n.dot && !n.fp.isEmpty)) && (n.dot || n.fp.isEmpty)

def NumShape.typ (n : NumShape) : Nat := if n.dot then TT.float else TT.integer

/-- what may follow a number: after an integer neither a digit nor `.`; after a decimal no
digit -/
def NumShape.boundary (n : NumShape) (nx : Option Rune) : Bool :=
  !headIs isDigit nx && (n.dot || nx != some 46)

/-- parse `[-] digits [ . digits ]` off the front of a list (the SPEC reading of a number) -/
def parseNum (l : List Rune) : NumShape :=
  let sign : List Rune := if l.head? == some 45 then [45] else []
  let l1 := l.drop sign.length
  let ip := l1.takeWhile isDigit
  let l2 := l1.drop ip.length
  let dot := l2.head? == some 46
  let fp := if dot then (l2.drop 1).takeWhile isDigit else []
  ⟨sign, ip, dot, fp⟩

/-! ### expected tokens of a lexeme sequence -/

/-- a lexeme: class (token type), text, and the quote rune when it is read by a quote state -/
structure Lexeme where
  typ : Nat
  text : List Rune
  quote : Option Rune := none
  deriving Repr, DecidableEq

def lexText (ls : List Lexeme) : List Rune := (ls.map (·.text)).flatten

/-- the raw segmentation expected for a lexeme sequence starting at offset `off` -/
def expectRaw : Nat → List Lexeme → List RawTok
  | _, [] => []
  | off, l :: ls => ⟨l.typ, l.text, off, l.quote⟩ :: expectRaw (off + l.text.length) ls

/-- the tokens expected for a lexeme sequence written as the text `c`, all options off -/
def expectToks (c : List Rune) : Nat → List Lexeme → List Tok
  | _, [] => []
  | off, l :: ls =>
    ⟨l.typ, l.text, (posOf c off).1, (posOf c off).2⟩ :: expectToks c (off + l.text.length) ls

/-- the tokenizer options of C09: string decoding on, every other option off -/
def Opts.decodeOn : Opts := { Opts.allOff with decodeStrings := true }

/-- every lexeme satisfies `P lexeme (rest of the text)` -/
def Chain (P : Lexeme → List Rune → Prop) : List Lexeme → Prop
  | [] => True
  | l :: ls => P l (lexText ls) ∧ Chain P ls

/-! ### decidable well-formedness + boundary predicates, per tokenizer

`lexOKG l nx` / `lexOKE l nx`: the lexeme `l` is a well-formed lexeme of its class for the
generic / expression tokenizer, and the rune `nx` that follows it (`none` = end of input)
cannot merge with it. -/

def wordShape (start char : Nat → Bool) : List Rune → Bool
  | [] => false
  | c :: w => start c && w.all char

def wsShape : List Rune → Bool
  | [] => false
  | c :: w => isWs c && w.all isWs

/-- a symbol lexeme: starts with a symbol-state rune and is exactly what the longest-match
SPEC cuts off the lexeme followed by `nx` -/
def symShape (start : Nat → Bool) (regs : Regs) (t : List Rune) (nx : Option Rune) : Bool :=
  match t with
  | [] => false
  | c :: _ => start c && symCut regs (t ++ nx.toList) == t

/-- `[-] digits [. digits]` of the stated type, followed by no digit (and no `.` after an
integer) -/
def numShapeG (typ : Nat) (t : List Rune) (nx : Option Rune) : Bool :=
  let n := parseNum t
  n.ok && n.text == t && typ == n.typ && n.boundary nx

/-- expression: unsigned, and not followed by `e` / `E` -/
def numShapeE (typ : Nat) (t : List Rune) (nx : Option Rune) : Bool :=
  let n := parseNum t
  n.ok && n.sign == [] && n.text == t && typ == n.typ && n.boundary nx &&
    nx != some 101 && nx != some 69

/-- the optional exponent sign at the head of `more` -/
def expSign (more : List Rune) : List Rune :=
  if more.head? == some 45 || more.head? == some 43 then more.take 1 else []

/-- expression: mantissa, `e`/`E`, optional sign, digits; followed by no digit -/
def sciShapeE (t : List Rune) (nx : Option Rune) : Bool :=
  let n := parseNum t
  match t.drop n.text.length with
  | [] => false
  | e :: more =>
    let sgn : List Rune := expSign more
    match more.drop sgn.length with
    | [] => false
    | d :: ds =>
      n.ok && n.sign == [] && (e == 101 || e == 69) && isDigit d && ds.all isDigit &&
        t == n.text ++ e :: (sgn ++ d :: ds) && !headIs isDigit nx

def quotedShapeG (q : Rune) (t : List Rune) : Bool :=
  (q == 39 || q == 34) && t == encodeGeneric q (decodeGeneric q t) &&
    !(decodeGeneric q t).contains q

def quotedShapeE (q : Rune) (t : List Rune) (nx : Option Rune) : Bool :=
  t == encodeEsc q (decodeEsc q t) && nx != some q

def commentShapeG : List Rune → Bool
  | [] => false
  | c :: body => c == 35 && body.all notEol

def commentShapeE (t : List Rune) : Bool :=
  let body := ((t.drop 2).dropLast).dropLast
  t == 47 :: 42 :: (body ++ [42, 47]) && noStarSlash 0 body

def lexOKG (l : Lexeme) (nx : Option Rune) : Bool :=
  match l.quote with
  | some q => l.typ == TT.quoted && quotedShapeG q l.text
  | none =>
    (l.typ == TT.word && wordShape isWordStartG isWordCharG l.text && !headIs isWordCharG nx) ||
    (l.typ == TT.whitespace && wsShape l.text && !headIs isWs nx) ||
    (l.typ == TT.symbol && (symShape isSymStartG genericRegs l.text nx ||
      (l.text == [45] && !headIs isDigit nx && nx != some 46) ||
      (l.text == [46] && !headIs isDigit nx))) ||
    ((l.typ == TT.integer || l.typ == TT.float) && numShapeG l.typ l.text nx) ||
    (l.typ == TT.comment && commentShapeG l.text && !headIs notEol nx)

def lexOKE (l : Lexeme) (nx : Option Rune) : Bool :=
  match l.quote with
  | some q =>
    ((q == 39 && l.typ == TT.quoted) || (q == 34 && l.typ == TT.word)) && quotedShapeE q l.text nx
  | none =>
    ((l.typ == TT.word || l.typ == TT.keyword) && wordShape isWordStartE isWordCharE l.text &&
      l.typ == (if isKeyword l.text then TT.keyword else TT.word) && !headIs isWordCharE nx) ||
    (l.typ == TT.whitespace && wsShape l.text && !headIs isWs nx) ||
    (l.typ == TT.symbol && (symShape isSymStartE expressionRegs l.text nx || l.text == [45] ||
      (l.text == [47] && nx != some 42) || (l.text == [46] && !headIs isDigit nx))) ||
    ((l.typ == TT.integer || l.typ == TT.float) && numShapeE l.typ l.text nx) ||
    (l.typ == TT.float && sciShapeE l.text nx) ||
    (l.typ == TT.comment && commentShapeE l.text)

/-- Boolean form of `Chain` for predicates that only look at the first following rune -/
def chainB (p : Lexeme → Option Rune → Bool) : List Lexeme → Bool
  | [] => true
  | l :: ls => p l (lexText ls).head? && chainB p ls

end Verif
