/-
C14 — quote codecs round-trip, decoding is total and shape-preserving, and the escaping
quote states (expression / CSV) read an encoded string back as exactly one token.
-/
import Verif.Lemmas.Seg

namespace Verif
open Scanner

/-! ### 1. `undoubleQ ∘ doubleQ = id` -/

theorem undoubleQ_cons_ne (q c : Rune) (l : List Rune) (h : (c == q) = false) :
    undoubleQ q (c :: l) = c :: undoubleQ q l := by
  cases l with
  | nil => simp [undoubleQ]
  | cons d ds => simp [undoubleQ, h]

theorem undoubleQ_doubleQ (q : Rune) (v : List Rune) : undoubleQ q (doubleQ q v) = v := by
  induction v with
  | nil => simp [doubleQ, undoubleQ]
  | cons c cs ih =>
    cases h : (c == q) with
    | true =>
      have hc : c = q := by simpa using h
      simp [doubleQ, undoubleQ, ih, hc]
    | false =>
      simp only [doubleQ, h, Bool.false_eq_true, if_false]
      rw [undoubleQ_cons_ne q c _ h, ih]

/-! ### 2. decode ∘ encode = id -/

theorem stripQ_wrap (q : Rune) (w : List Rune) : stripQ q ([q] ++ w ++ [q]) = some w := by
  have h : (q :: (w ++ [q])).getLast? = some q := by
    rw [← List.cons_append, List.getLast?_concat]
  simp [stripQ, h]

theorem C14_decode_encode_generic (q : Rune) (v : List Rune) :
    decodeGeneric q (encodeGeneric q v) = v := by
  unfold decodeGeneric encodeGeneric
  rw [stripQ_wrap]; rfl

theorem C14_decode_encode_esc (q : Rune) (v : List Rune) :
    decodeEsc q (encodeEsc q v) = v := by
  unfold decodeEsc encodeEsc
  rw [stripQ_wrap]
  exact undoubleQ_doubleQ q v

/-! ### 3. totality: decoding is a total function; the shape facts replacing "never fails" -/

theorem C14_decode_untouched_generic (q : Rune) (v : List Rune) (h : stripQ q v = none) :
    decodeGeneric q v = v := by
  unfold decodeGeneric; rw [h]; rfl

theorem C14_decode_untouched_esc (q : Rune) (v : List Rune) (h : stripQ q v = none) :
    decodeEsc q v = v := by
  unfold decodeEsc; rw [h]

theorem undoubleQ_length_le (q : Rune) : ∀ (n : Nat) (v : List Rune), v.length ≤ n →
    (undoubleQ q v).length ≤ v.length := by
  intro n
  induction n with
  | zero =>
    intro v hv
    cases v with
    | nil => simp [undoubleQ]
    | cons a t => simp at hv
  | succ n ih =>
    intro v hv
    match v, hv with
    | [], _ => simp [undoubleQ]
    | [c], _ => simp [undoubleQ]
    | c :: d :: cs, hv =>
      simp only [List.length_cons] at hv
      simp only [undoubleQ]
      split
      · have := ih cs (by omega)
        simp only [List.length_cons]; omega
      · have := ih (d :: cs) (by simp only [List.length_cons]; omega)
        simp only [List.length_cons] at this ⊢; omega

theorem stripQ_length (q : Rune) (v w : List Rune) (h : stripQ q v = some w) :
    w.length + 2 = v.length := by
  unfold stripQ at h
  split at h
  · rename_i hc
    simp only [Bool.and_eq_true, decide_eq_true_eq] at hc
    have := Option.some.inj h
    subst this
    simp only [List.length_dropLast, List.length_drop]
    omega
  · cases h

theorem C14_decode_length_le_generic (q : Rune) (v : List Rune) :
    (decodeGeneric q v).length ≤ v.length := by
  unfold decodeGeneric
  cases h : stripQ q v with
  | none => simp
  | some w => have := stripQ_length q v w h; simp only [Option.getD_some]; omega

theorem C14_decode_length_le (q : Rune) (v : List Rune) :
    (decodeEsc q v).length ≤ v.length := by
  unfold decodeEsc
  cases h : stripQ q v with
  | none => simp
  | some w =>
    have h1 := stripQ_length q v w h
    have h2 := undoubleQ_length_le q w.length w (Nat.le_refl _)
    simp only; omega

/-! ### 4. token round trip for the escaping states -/

/-- one `read` when the unread input is `c :: t` -/
theorem read_drop_cons (s : Scanner) (c : Rune) (t : List Rune)
    (h : s.content.drop s.pos = c :: t) :
    (s.read).1 = some c ∧ (s.read).2.pos = s.pos + 1 ∧
    (s.read).2.content.drop (s.read).2.pos = t := by
  have hlt : s.pos < s.content.length := by
    apply Classical.byContradiction
    intro hn
    rw [List.drop_eq_nil_of_le (by omega)] at h
    cases h
  have hr := read_pos_lt s hlt
  rw [List.drop_eq_getElem_cons hlt] at h
  have hc : s.content[s.pos] = c := (List.cons.inj h).1
  have ht : s.content.drop (s.pos + 1) = t := (List.cons.inj h).2
  refine ⟨by rw [hr.1, hc], hr.2, ?_⟩
  rw [read_content, hr.2, ht]

theorem peek_drop (s : Scanner) : s.peek = (s.content.drop s.pos).head? := by
  rw [peek_eq, List.head?_drop]

theorem doubleQ_length_ge (q : Rune) (v : List Rune) : v.length ≤ (doubleQ q v).length := by
  induction v with
  | nil => simp [doubleQ]
  | cons c cs ih =>
    simp only [doubleQ]
    split <;> simp only [List.length_cons] <;> omega

/-- The escaping loop on `doubleQ q v ++ q :: rest` (pending look-ahead = its first rune):
it appends exactly `doubleQ q v ++ [q]` and stops right after the closing quote. -/
theorem quoteLoop2_encoded (q : Rune) (rest : List Rune) (hrest : rest.head? ≠ some q) :
    ∀ (v : List Rune) (f : Nat) (acc : List Rune) (c : Rune) (s : Scanner),
      c :: s.content.drop s.pos = doubleQ q v ++ q :: rest →
      (doubleQ q v).length + 1 ≤ f →
      (quoteLoop2 q f acc (some c) s).1 = acc ++ doubleQ q v ++ [q] ∧
      (quoteLoop2 q f acc (some c) s).2.pos = s.pos + (doubleQ q v).length := by
  intro v
  induction v with
  | nil =>
    intro f acc c s h hf
    simp only [doubleQ, List.nil_append] at h hf ⊢
    obtain ⟨hc, ht⟩ := List.cons.inj h
    cases f with
    | zero => omega
    | succ f =>
      have hpk : ¬ (s.peek = some q) := by rw [peek_drop, ht]; exact hrest
      subst hc
      simp only [quoteLoop2, beq_self_eq_true, if_true]
      have : (s.peek == some c) = false := by simpa using hpk
      simp [this]
  | cons a v ih =>
    intro f acc c s h hf
    cases f with
    | zero => omega
    | succ f =>
      cases ha : (a == q) with
      | true =>
        have haq : a = q := by simpa using ha
        simp only [doubleQ, ha, if_true, List.cons_append, List.length_cons] at h hf ⊢
        obtain ⟨hc, ht⟩ := List.cons.inj h
        subst hc
        -- first read: the second `q`
        obtain ⟨_, hp1, hd1⟩ := read_drop_cons s c _ ht
        have hpk : s.peek = some c := by rw [peek_drop, ht]; rfl
        -- the rest is non-empty
        cases hd : (s.read).2.content.drop (s.read).2.pos with
        | nil =>
          rw [hd] at hd1
          have := congrArg List.length hd1
          simp at this
        | cons c' t' =>
          obtain ⟨hr2, hp2, hd2⟩ := read_drop_cons (s.read).2 c' t' hd
          have hih := ih f (acc ++ [c, c]) c' ((s.read).2.read).2
            (by rw [hd2, ← hd, hd1]) (by omega)
          simp only [quoteLoop2, beq_self_eq_true, if_true, hpk, hr2]
          refine ⟨?_, ?_⟩
          · rw [hih.1]; simp
          · rw [hih.2, hp2, hp1]; omega
      | false =>
        simp only [doubleQ, ha, Bool.false_eq_true, if_false, List.cons_append,
          List.length_cons] at h hf ⊢
        obtain ⟨hc, ht⟩ := List.cons.inj h
        subst hc
        cases hd : s.content.drop s.pos with
        | nil =>
          rw [hd] at ht
          have := congrArg List.length ht
          simp at this
        | cons c' t' =>
          obtain ⟨hr1, hp1, hd1⟩ := read_drop_cons s c' t' hd
          have hih := ih f (acc ++ [c]) c' (s.read).2
            (by rw [hd1, ← hd, ht]) (by omega)
          simp only [quoteLoop2, ha, Bool.false_eq_true, if_false, hr1]
          refine ⟨?_, ?_⟩
          · rw [hih.1]; simp
          · rw [hih.2, hp1]; omega

theorem encodeEsc_length (q : Rune) (v : List Rune) :
    (encodeEsc q v).length = (doubleQ q v).length + 2 := by
  simp [encodeEsc]

/-- **C14 (token round trip)**: the encoded form of any string, placed in a stream in front of
anything that does not start with the quote, is read back by the expression / CSV quote state
as exactly one token: its text is the encoded form, the cursor ends right after it, and its
decoded value is the original string. -/
theorem C14_token_roundtrip (wordForDq : Bool) (q : Rune) (v rest : List Rune)
    (hrest : rest.head? ≠ some q) (s : Scanner) (_hw : s.WF)
    (hin : s.content.drop s.pos = encodeEsc q v ++ rest)
    (f : Nat) (hf : f ≥ s.content.length + 2) :
    (escQuoteState wordForDq f s).1.value = encodeEsc q v ∧
    (escQuoteState wordForDq f s).2.pos = s.pos + (encodeEsc q v).length ∧
    decodeEsc q (escQuoteState wordForDq f s).1.value = v := by
  have hlen : (s.content.drop s.pos).length = (encodeEsc q v).length + rest.length := by
    rw [hin, List.length_append]
  rw [List.length_drop, encodeEsc_length] at hlen
  have hin' : s.content.drop s.pos = q :: (doubleQ q v ++ q :: rest) := by
    rw [hin]; simp [encodeEsc]
  obtain ⟨hr0, hp0, hd0⟩ := read_drop_cons s q _ hin'
  have key : (escQuoteState wordForDq f s).1.value = encodeEsc q v ∧
      (escQuoteState wordForDq f s).2.pos = s.pos + (encodeEsc q v).length := by
    cases hd : (s.read).2.content.drop (s.read).2.pos with
    | nil =>
      rw [hd] at hd0
      have := congrArg List.length hd0
      simp at this
    | cons c' t' =>
      obtain ⟨hr1, hp1, hd1⟩ := read_drop_cons (s.read).2 c' t' hd
      have hl := quoteLoop2_encoded q rest hrest v f [q] c' ((s.read).2.read).2
        (by rw [hd1, ← hd, hd0]) (by omega)
      simp only [escQuoteState, hr0, hr1, Option.getD_some]
      refine ⟨?_, ?_⟩
      · rw [hl.1]; simp [encodeEsc]
      · rw [hl.2, hp1, hp0, encodeEsc_length]; omega
  exact ⟨key.1, key.2, by rw [key.1]; exact C14_decode_encode_esc q v⟩

/-- the instance for a fresh scanner over `encodeEsc q v ++ rest` -/
theorem C14_token_roundtrip_fresh (wordForDq : Bool) (q : Rune) (v rest : List Rune)
    (hrest : rest.head? ≠ some q) (f : Nat) (hf : f ≥ (encodeEsc q v ++ rest).length + 2) :
    (escQuoteState wordForDq f (Scanner.new (encodeEsc q v ++ rest))).1.value = encodeEsc q v ∧
    (escQuoteState wordForDq f (Scanner.new (encodeEsc q v ++ rest))).2.pos
      = (encodeEsc q v).length ∧
    decodeEsc q (escQuoteState wordForDq f (Scanner.new (encodeEsc q v ++ rest))).1.value = v := by
  have h := C14_token_roundtrip wordForDq q v rest hrest (Scanner.new (encodeEsc q v ++ rest))
    (new_wf _) (by simp [Scanner.new]) f (by simpa [Scanner.new] using hf)
  simpa [Scanner.new] using h

/-! ### 5. non-vacuity -/

example : encodeEsc 39 [39, 233, 39, 39] = [39, 39, 39, 233, 39, 39, 39, 39, 39] := by decide
example : decodeEsc 39 (encodeEsc 39 [39, 233, 39, 39]) = [39, 233, 39, 39] := by decide
example : decodeGeneric 39 (encodeGeneric 39 [39, 233, 39, 39]) = [39, 233, 39, 39] := by decide
example : decodeEsc 39 [39] = [39] ∧ decodeEsc 39 [] = [] ∧ decodeEsc 39 [39, 97] = [39, 97] := by
  decide
example :
    let inp := encodeEsc 39 [39, 233, 39, 39] ++ [32, 120]
    let r := escQuoteState true (inp.length + 2) (Scanner.new inp)
    r.1.value = encodeEsc 39 [39, 233, 39, 39] ∧ r.2.pos = 9 ∧
    decodeEsc 39 r.1.value = [39, 233, 39, 39] := by decide

/-- Scope remark (why the token round trip is stated for the escaping states only): the generic
quote state has no escape, so a value containing the quote is split at that quote. -/
example :
    let inp := encodeGeneric 39 [97, 39, 98]
    (genericQuoteState (inp.length + 2) (Scanner.new inp)).1.value = [39, 97, 39] := by decide

end Verif
