/-
Model of mustache/parsers/MustacheParser.go (lexical state machine, section parser, variable
lookup) and mustache/MustacheTemplate.go (renderer), after the `fix:` repairs (D24 unclosed
section, D25 comments, D29 deterministic variable choice).
-/
import Verif.Model.Tokenizer
import Verif.Model.CaseMap
import Verif.Model.Value

namespace Verif

/-- mustache/parsers/MustacheTokenType.go -/
inductive MT where
  | unknown | value | variable | escapedVariable | section | invertedSection | sectionEnd | partial_ | comment
  deriving Repr, DecidableEq

def MT.toNat : MT → Nat
  | .unknown => 0 | .value => 1 | .variable => 2 | .escapedVariable => 3 | .section => 4
  | .invertedSection => 5 | .sectionEnd => 6 | .partial_ => 7 | .comment => 8

/-- flat token after lexical analysis -/
structure MFlat where
  typ : MT
  value : List Rune
  deriving Repr, DecidableEq

mutual
/-- result token with nested section bodies -/
inductive MTok where
  | mk (typ : MT) (value : List Rune) (kids : MToks)
inductive MToks where
  | nil
  | cons (t : MTok) (rest : MToks)
end

inductive MErr where
  | unexpectedSymbol | mismatchedBrackets | internal | unexpectedEnd | unexpectedSectionEnd
  | notClosedSection | errorNear | outOfFuel
  deriving Repr, DecidableEq

def MErr.code : MErr → String
  | .unexpectedSymbol => "UNEXPECTED_SYMBOL" | .mismatchedBrackets => "MISTMATCHED_BRACKETS"
  | .internal => "INTERNAL" | .unexpectedEnd => "UNEXPECTED_END"
  | .unexpectedSectionEnd => "UNEXPECTED_SECTION_END" | .notClosedSection => "NOT_CLOSED_SECTION"
  | .errorNear => "ERROR_NEAR" | .outOfFuel => "OUT_OF_FUEL"

inductive LexSt where
  | value | operator1 | operator2 | variable | comment | closure
  deriving Repr, DecidableEq

structure LexState where
  st : LexSt := .value
  closing : List Rune := []
  op1 : List Rune := []
  op2 : List Rune := []
  var : List Rune := []
  out : List MFlat := []

def sOpen2 : List Rune := [123, 123]
def sOpen3 : List Rune := [123, 123, 123]
def sClose2 : List Rune := [125, 125]
def sClose3 : List Rune := [125, 125, 125]
def sBang : List Rune := [33]
def sSlash : List Rune := [47]
def sHash : List Rune := [35]
def sCaret : List Rune := [94]
def sIf : List Rune := [105, 102]
def sUnless : List Rune := [117, 110, 108, 101, 115, 115]

def isCloser (v : List Rune) : Bool := v == sClose2 || v == sClose3

/-- the closure step: a `}}` / `}}}` symbol in state Closure -/
def lexClose (s : LexState) (v : List Rune) : Except MErr LexState :=
  if s.closing != v then .error .mismatchedBrackets
  else
    let t : MT :=
      if s.op1 == sHash && (s.op2 == [] || s.op2 == sIf) then .section
      else if s.op1 == sHash && s.op2 == sUnless then .invertedSection
      else if s.op1 == sCaret && s.op2 == [] then .invertedSection
      else if s.op1 == sSlash then .sectionEnd
      else if s.op1 == [] then (if s.closing == sClose3 then .escapedVariable else .variable)
      else if s.op1 == sBang then .comment
      else .unknown
    if t == .unknown then .error .internal
    else .ok { s with st := .value, op1 := [], op2 := [], var := [],
                      out := s.out ++ [⟨t, if t == .comment then [] else s.var⟩] }

/-- one tokenizer token through completeLexicalAnalysis -/
def lexStep (s : LexState) (t : Tok) : Except MErr LexState :=
  -- comment state: skip everything up to the closing brackets
  if s.st == .comment && !isCloser t.value then .ok s
  else
    let s := if s.st == .comment then { s with st := .closure } else s
    if t.typ == TT.special then
      if s.st == .value then .ok { s with out := s.out ++ [⟨.value, t.value⟩] }
      else .error .unexpectedSymbol
    else if t.typ == TT.symbol then
      if s.st == .value && (t.value == sOpen2 || t.value == sOpen3) then
        .ok { s with st := .operator1, closing := if t.value == sOpen3 then sClose3 else sClose2 }
      else if s.st == .operator1 && t.value == sBang then
        .ok { s with st := .comment, op1 := t.value }
      else if s.st == .operator1 && (t.value == sSlash || t.value == sHash || t.value == sCaret) then
        .ok { s with st := .operator2, op1 := t.value }
      else
        let s1 : LexState :=
          if s.st == .variable && isCloser t.value then
            (if s.op1 != sSlash then { s with var := s.op2, op2 := [], st := .closure }
             else { s with st := .closure })
          else s
        if s1.st == .closure && isCloser t.value then lexClose s1 t.value
        else .error .unexpectedSymbol
    else if t.typ == TT.word then
      let s1 : LexState := if s.st == .operator1 then { s with st := .variable } else s
      if s1.st == .operator2 && (t.value == sIf || t.value == sUnless) then
        .ok { s1 with op2 := t.value, st := .variable }
      else
        let s2 : LexState := if s1.st == .operator2 then { s1 with st := .variable } else s1
        if s2.st == .variable then .ok { s2 with var := t.value, st := .closure }
        else .error .unexpectedSymbol
    else if t.typ == TT.whitespace then .ok s
    else .error .unexpectedSymbol

def lexAll : LexState → List Tok → Except MErr LexState
  | s, [] => .ok s
  | s, t :: ts =>
    match lexStep s t with
    | .error e => .error e
    | .ok s' => lexAll s' ts

def lexical (toks : List Tok) : Except MErr (List MFlat) :=
  match lexAll {} toks with
  | .error e => .error e
  | .ok s => if s.st != .value then .error .unexpectedEnd else .ok s.out

def isSection (t : MT) : Bool := t == .section || t == .invertedSection

mutual
/-- performSyntaxAnalysisForSection: returns the body and the remaining tokens -/
def parseSection : Nat → List Rune → List MFlat → Except MErr (MToks × List MFlat)
  | 0, _, _ => .error .outOfFuel
  | f+1, var, toks =>
    match toks with
    | [] => .error .notClosedSection
    | t :: rest =>
      if t.typ == .sectionEnd then
        if t.value == var || t.value == [] then .ok (.nil, rest) else .error .unexpectedSectionEnd
      else if isSection t.typ then
        match rest with
        | [] => .error .unexpectedEnd
        | _ =>
          match parseSection f t.value rest with
          | .error e => .error e
          | .ok (kids, rest1) =>
            match parseSection f var rest1 with
            | .error e => .error e
            | .ok (sibs, rest2) => .ok (.cons (.mk t.typ t.value kids) sibs, rest2)
      else
        match parseSection f var rest with
        | .error e => .error e
        | .ok (sibs, rest2) => .ok (.cons (.mk t.typ t.value .nil) sibs, rest2)
end

/-- performSyntaxAnalysis (top level) -/
def parseTop : Nat → List MFlat → Except MErr MToks
  | 0, _ => .error .outOfFuel
  | f+1, toks =>
    match toks with
    | [] => .ok .nil
    | t :: rest =>
      if t.typ == .sectionEnd then .error .unexpectedSectionEnd
      else if isSection t.typ then
        match rest with
        | [] => .error .unexpectedEnd
        | _ =>
          match parseSection f t.value rest with
          | .error e => .error e
          | .ok (kids, rest1) =>
            match parseTop f rest1 with
            | .error e => .error e
            | .ok sibs => .ok (.cons (.mk t.typ t.value kids) sibs)
      else
        match parseTop f rest with
        | .error e => .error e
        | .ok sibs => .ok (.cons (.mk t.typ t.value .nil) sibs)

/-- `strings.Trim(s, " \t\r\n")` -/
def isTrimRune (c : Rune) : Bool := c == 32 || c == 9 || c == 13 || c == 10
def trimStr (s : List Rune) : List Rune :=
  ((s.dropWhile isTrimRune).reverse.dropWhile isTrimRune).reverse

/-- tokenizer options of `tokenizeMustache`: skipWhitespaces, skipComments, skipEof, decodeStrings -/
def mustacheOpts : Opts := ⟨false, true, true, true, false, false, true⟩

/-- lookupVariables: names of all non-text, non-comment tokens, once each (case-insensitively),
first spelling kept -/
def lookupVars (toks : List MFlat) : List (List Rune) :=
  toks.foldl (fun acc t =>
    if t.typ != .value && t.typ != .comment && t.value != [] then
      if acc.any (fun v => lowerFullStr v == lowerFullStr t.value) then acc else acc ++ [t.value]
    else acc) []

structure Parsed where
  tree : MToks
  vars : List (List Rune)

/-- MustacheParser.ParseString -/
def parseTemplate (src : List Rune) : Except MErr Parsed :=
  let t := trimStr src
  if t.isEmpty then .ok ⟨.nil, []⟩
  else
    let toks := tokenize mustacheCfg mustacheOpts t
    if toks.isEmpty then .ok ⟨.nil, []⟩
    else match lexical toks with
      | .error e => .error e
      | .ok flat =>
        match flat with
        | [] => .error .unexpectedEnd
        | _ =>
          match parseTop (flat.length + 1) flat with
          | .error e => .error e
          | .ok tree => .ok ⟨tree, lookupVars flat⟩

/-! ### rendering -/

/-- escapeString: the eight sequential ReplaceAll calls amount to one pass -/
def escRune (c : Rune) : List Rune :=
  if c == 92 then [92, 92] else if c == 34 then [92, 34] else if c == 47 then [92, 47]
  else if c == 8 then [92, 98] else if c == 12 then [92, 102] else if c == 10 then [92, 110]
  else if c == 13 then [92, 114] else if c == 9 then [92, 116] else [c]

/-- SPEC: JSON-style escaping in one pass -/
def escapeStr (s : List Rune) : List Rune := s.flatMap escRune

/-- `strings.ReplaceAll(s, string(c), rep)` for a one-rune pattern -/
def replaceRune (c : Rune) (rep : List Rune) (s : List Rune) : List Rune :=
  s.flatMap fun x => if x == c then rep else [x]

/-- MustacheTemplate.escapeString: the eight sequential ReplaceAll calls, in the code's order -/
def escapeSeq (s : List Rune) : List Rune :=
  if s.isEmpty then []
  else
    replaceRune 9 [92, 116] (replaceRune 13 [92, 114] (replaceRune 10 [92, 110] (replaceRune 12 [92, 102]
      (replaceRune 8 [92, 98] (replaceRune 47 [92, 47] (replaceRune 34 [92, 34] (replaceRune 92 [92, 92] s)))))))

/-- lexicographic minimum of the matching keys (the repaired, deterministic GetVariable):
exact key first, otherwise the smallest case-insensitive match -/
def getVariable (vars : List (List Rune × List Rune)) (name : List Rune) : Option (List Rune) :=
  if name.isEmpty then none
  else
    match vars.find? (fun e => e.1 == name) with
    | some e => some e.2
    | none =>
      let ms := vars.filter (fun e => lowerFullStr e.1 == lowerFullStr name)
      match ms with
      | [] => none
      | m :: rest => some ((rest.foldl (fun best e => if strLt e.1 best.1 then e else best) m).2)

def isDefined (vars : List (List Rune × List Rune)) (name : List Rune) : Bool :=
  match getVariable vars name with
  | some v => !v.isEmpty
  | none => false

mutual
def renderTok (vars : List (List Rune × List Rune)) : MTok → Except MErr (List Rune)
  | .mk typ value kids =>
    match typ with
    | .comment => .ok []
    | .value => .ok value
    | .variable => .ok ((getVariable vars value).getD [])
    | .escapedVariable => .ok (escapeSeq ((getVariable vars value).getD []))
    | .section => if isDefined vars value then renderToks vars kids else .ok []
    | .invertedSection => if !isDefined vars value then renderToks vars kids else .ok []
    | .partial_ => .error .internal
    | _ => .error .internal
def renderToks (vars : List (List Rune × List Rune)) : MToks → Except MErr (List Rune)
  | .nil => .ok []
  | .cons t rest =>
    match renderTok vars t with
    | .error e => .error e
    | .ok a =>
      match renderToks vars rest with
      | .error e => .error e
      | .ok b => .ok (a ++ b)
end

/-- SetTemplate + EvaluateWithVariables -/
def renderTemplate (src : List Rune) (vars : List (List Rune × List Rune)) : Except MErr (List Rune) :=
  match parseTemplate src with
  | .error e => .error e
  | .ok p => renderToks vars p.tree

end Verif
