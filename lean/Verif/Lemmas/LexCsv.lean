/-
The CSV configuration maps, derived with the CharMap lemmas (C17): which runes the CSV word
state accepts and where each rune is dispatched, for any separator / quote lists.
-/
import Verif.Lemmas.LexSym
import Verif.Spec.Csv

namespace Verif
open Scanner

/-! ### disabling / overriding single runes -/

theorem clamp_single (c x : Nat) (hx : x ≤ 0xfffe) : (c ≤ x ∧ x ≤ CharMap.clampEnd c) ↔ x = c := by
  unfold CharMap.clampEnd
  split <;> omega

theorem foldl_disable_inv (l : List Rune) (m : CharMap Unit) (hm : m.Inv) :
    (l.foldl (fun m c => setChars m c c false) m).Inv := by
  induction l generalizing m with
  | nil => exact hm
  | cons c l ih => exact ih _ (setChars_inv m c c false hm)

/-- disabling the runes of `l` one by one removes exactly them (below U+FFFF) -/
theorem inMap_foldl_disable (l : List Rune) (m : CharMap Unit) (hm : m.Inv) (x : Nat)
    (hx : x ≤ 0xfffe) :
    inMap (l.foldl (fun m c => setChars m c c false) m) x = (inMap m x && !l.contains x) := by
  induction l generalizing m with
  | nil => simp
  | cons c l ih =>
    rw [List.foldl_cons, ih _ (setChars_inv m c c false hm), inMap_setChars m c c false x hm]
    by_cases h : x = c
    · subst h
      rw [if_pos ((clamp_single x x hx).mpr rfl)]
      simp
    · rw [if_neg (fun hh => h ((clamp_single c x hx).mp hh))]
      simp [h]

theorem foldl_add_inv {α : Type} (v : Option α) (l : List Rune) (m : CharMap α) (hm : m.Inv) :
    (l.foldl (fun m c => m.add c c v) m).Inv := by
  induction l generalizing m with
  | nil => exact hm
  | cons c l ih => exact ih _ (CharMap.add_inv m c c v hm)

/-- registering the runes of `l` one by one overrides exactly them (below U+FFFF) -/
theorem lookup_foldl_add {α : Type} (v : Option α) (l : List Rune) (m : CharMap α) (hm : m.Inv)
    (x : Nat) (hx : x ≤ 0xfffe) :
    (l.foldl (fun m c => m.add c c v) m).lookup x = if l.contains x then v else m.lookup x := by
  induction l generalizing m with
  | nil => simp
  | cons c l ih =>
    rw [List.foldl_cons, ih _ (CharMap.add_inv m c c v hm), CharMap.lookup_add m c c v x hm]
    by_cases h : x = c
    · subst h
      rw [if_pos ((clamp_single x x hx).mpr rfl)]
      simp
    · rw [if_neg (fun hh => h ((clamp_single c x hx).mp hh))]
      simp [h]

/-! ### the CSV word characters and dispatch map -/

/-- a rune that may occur in a raw field: ≤ U+FFFE and no separator, quote, CR or LF -/
def csvPlain (seps quotes : List Rune) (x : Nat) : Bool :=
  decide (x ≤ 0xfffe) && !(x == 13 || x == 10 || seps.contains x || quotes.contains x)

theorem csv_base_wordChars (x : Nat) (hx : x ≤ 0xfffe) :
    inMap (setChars (setChars (setChars CharMap.empty 0 0xffff true) 13 13 false) 10 10 false) x
      = !(x == 13 || x == 10) := by
  have i0 := CharMap.empty_inv (α := Unit)
  have i1 := setChars_inv _ 0 0xffff true i0
  have i2 := setChars_inv _ 13 13 false i1
  rw [inMap_setChars _ _ _ _ _ i2, inMap_setChars _ _ _ _ _ i1, inMap_setChars _ _ _ _ _ i0,
    inMap_empty]
  have e1 : CharMap.clampEnd 10 = 10 := by decide
  have e2 : CharMap.clampEnd 13 = 13 := by decide
  have e3 : CharMap.clampEnd 0xffff = 0xfffe := by decide
  rw [e1, e2, e3]
  by_cases h10 : x = 10
  · subst h10; rfl
  · by_cases h13 : x = 13
    · subst h13; rfl
    · rw [if_neg (by omega), if_neg (by omega), if_pos (by omega)]
      have a : (x == 13) = false := by simpa using h13
      have b : (x == 10) = false := by simpa using h10
      simp [a, b]

/-- **CSV word characters**: everything in 0 … U+FFFE except CR, LF, separators and quotes -/
theorem inMap_csvWordChars (seps quotes : List Rune) (x : Nat) (hx : x ≤ 0xfffe) :
    inMap (csvWordChars seps quotes) x = csvPlain seps quotes x := by
  have i0 := CharMap.empty_inv (α := Unit)
  have i1 := setChars_inv _ 0 0xffff true i0
  have i2 := setChars_inv _ 13 13 false i1
  have i3 := setChars_inv _ 10 10 false i2
  show inMap (quotes.foldl (fun m c => setChars m c c false)
    (seps.foldl (fun m c => setChars m c c false) _)) x = _
  rw [inMap_foldl_disable quotes _ (foldl_disable_inv seps _ i3) x hx,
    inMap_foldl_disable seps _ i3 x hx, csv_base_wordChars x hx]
  unfold csvPlain
  have : decide (x ≤ 0xfffe) = true := by simpa using hx
  rw [this]
  cases (x == 13) <;> cases (x == 10) <;> cases seps.contains x <;> cases quotes.contains x <;> rfl

theorem csv_base_dispatch (x : Nat) (hx : x ≤ 0xfffe) :
    (setStates CharMap.empty [(0, 0xffff, StateId.word), (13, 13, .symbol), (10, 10, .symbol)]).lookup x
      = if x = 10 ∨ x = 13 then some .symbol else some .word := by
  rw [setStates_lookup]
  simp only [MapOp.spec, List.map, List.reverse_cons, List.reverse_nil, List.nil_append,
    List.cons_append, MapOp.specRevD, CharMap.clampEnd]
  simp only [ge_iff_le, Nat.reduceLeDiff, if_false, if_true]
  by_cases h10 : x = 10
  · subst h10; rfl
  · by_cases h13 : x = 13
    · subst h13; rfl
    · rw [if_neg (by omega), if_neg (by omega), if_pos (by omega), if_neg (by omega)]

/-- **CSV dispatch**: quotes to the quote state, separators, CR and LF to the symbol state,
every other rune ≤ U+FFFE to the word state -/
theorem csv_dispatch (seps quotes : List Rune) (x : Nat) (hx : x ≤ 0xfffe) :
    (csvCfg seps quotes).dispatch.lookup x =
      if quotes.contains x then some .quote
      else if seps.contains x then some .symbol
      else if x = 10 ∨ x = 13 then some .symbol else some .word := by
  have i0 : (setStates CharMap.empty
      [(0, 0xffff, StateId.word), (13, 13, .symbol), (10, 10, .symbol)]).Inv :=
    setStates_inv _ _ CharMap.empty_inv
  show (quotes.foldl (fun (m : CharMap StateId) c => m.add c c (some StateId.quote))
    (seps.foldl (fun (m : CharMap StateId) c => m.add c c (some StateId.symbol)) _)).lookup x = _
  rw [lookup_foldl_add _ quotes _ (foldl_add_inv _ seps _ i0) x hx,
    lookup_foldl_add _ seps _ i0 x hx, csv_base_dispatch x hx]

/-! ### consequences of `csvValid` -/

theorem csvValid_iff (seps quotes : List Rune) : csvValid seps quotes = true ↔
    (∀ c ∈ seps ++ quotes, c ≠ 13 ∧ c ≠ 10 ∧ c ≠ 0) ∧ (∀ c ∈ seps, c ∉ quotes) := by
  simp only [csvValid, Bool.and_eq_true, List.all_eq_true, bne_iff_ne, ne_eq, Bool.not_eq_true',
    and_assoc]
  constructor
  · rintro ⟨h1, h2⟩
    refine ⟨h1, fun c hc hq => ?_⟩
    have := h2 c hc
    rw [List.contains_iff_mem.mpr hq] at this
    cases this
  · rintro ⟨h1, h2⟩
    refine ⟨h1, fun c hc => ?_⟩
    cases h : quotes.contains c with
    | false => rfl
    | true => exact absurd (List.contains_iff_mem.mp h) (h2 c hc)

theorem csvSymbols_eq : (csvCfg seps quotes).symbols = build csvRegs := addSyms_eq_build _

theorem csvRegs_eq : csvRegs = [([10], 2), ([13], 2), ([13, 10], 2), ([10, 13], 2)] := by decide
theorem csvRegs_ok : ∀ r ∈ csvRegs, regOk r = true := by decide
theorem csvRegs_len : ∀ r ∈ csvRegs, r.1.length ≤ 2 := by decide

end Verif
