/-
C04 / C12 / C15 for the MUSTACHE tokenizer (`tokenize mustacheCfg o c`, i.e. the token loop over
MustacheTokenizer.ReadNextToken with its text / tag mode flag).

The specification is Spec/MustacheStream.lean: `mRawSpec c` = the mode-alternating, option-free
segmentation (text mode: one Special token with the text in front of the next `{{`; tag mode: the
ordinary tokens of the mustache configuration up to and including a Symbol `}}` / `}}}`),
`mStreamSpec o c` = `postSpec` (the same one-pass option processing as for the other tokenizers)
of that list, plus the Eof token.

* `C15_mustache`        : `tokenize mustacheCfg o c = mStreamSpec o c`, every option setting, every
                          input; and what each option guarantees on the tokenizer's output.
* `C04_mustache`        : all options off: the values concatenate to the input, the last token is
                          Eof, every other token is non-empty.
* `C12_mustache`        : every token carries the forward-scan line / column of its first rune.
* sanity of the SPEC    : `mRawSpec_lossless`, `mRawSpec_text_tokens`, `mRawSpec_tag_never_special`.
-/
import Verif.Lemmas.MustacheTokLemmas
import Verif.Props.C15

namespace Verif
open Scanner

/-! ## C15: the options factor through the mode-alternating segmentation -/

/-- **C15 (mustache)**: for every option setting and every template the token stream of the
mustache tokenizer is the option-free, mode-alternating segmentation post-processed token by
token, plus the Eof token. -/
theorem C15_mustache (o : Opts) (c : List Rune) : tokenize mustacheCfg o c = mStreamSpec o c :=
  tokenize_mustache_eq o c

/-- the raw list of a template contains no Eof token -/
theorem mRawSpec_no_eof (c : List Rune) : ∀ r ∈ mRawSpec c, r.typ ≠ TT.eof :=
  fun r hr => ((mRawSpec_ok c).mem r hr).2.2.2

/-- membership in the stream: a post-processed raw token, or the Eof token -/
theorem mem_mStreamSpec (o : Opts) (c : List Rune) (t : Tok) (h : t ∈ mStreamSpec o c) :
    t ∈ postSpec mustacheCfg o c TT.unknown (mRawSpec c) ∨ (o.skipEof = false ∧ t = eofTok c) := by
  unfold mStreamSpec at h
  rcases List.mem_append.mp h with h | h
  · exact Or.inl h
  · cases hs : o.skipEof with
    | true => rw [hs] at h; exact absurd h List.not_mem_nil
    | false =>
      rw [hs] at h
      exact Or.inr ⟨rfl, List.mem_singleton.mp h⟩

/-- skipUnknown: no Unknown token in the output -/
theorem C15_mustache_no_unknown (o : Opts) (c : List Rune) (h : o.skipUnknown = true) :
    ∀ t ∈ tokenize mustacheCfg o c, t.typ ≠ TT.unknown := by
  intro t ht
  rw [C15_mustache] at ht
  rcases mem_mStreamSpec o c t ht with h1 | ⟨_, rfl⟩
  · exact C15_no_unknown mustacheCfg o c _ _ h t h1
  · exact (by decide : TT.eof ≠ TT.unknown)

/-- skipComments: no Comment token in the output (the mustache configuration has no comment state,
so there is none to begin with; the filter statement holds all the same) -/
theorem C15_mustache_no_comment (o : Opts) (c : List Rune) (h : o.skipComments = true) :
    ∀ t ∈ tokenize mustacheCfg o c, t.typ ≠ TT.comment := by
  intro t ht
  rw [C15_mustache] at ht
  rcases mem_mStreamSpec o c t ht with h1 | ⟨_, rfl⟩
  · exact C15_no_comment mustacheCfg o c _ _ h t h1
  · exact (by decide : TT.eof ≠ TT.comment)

/-- skipEof: no Eof token in the output -/
theorem C15_mustache_no_eof_when_skipEof (o : Opts) (c : List Rune) (h : o.skipEof = true) :
    ∀ t ∈ tokenize mustacheCfg o c, t.typ ≠ TT.eof := by
  intro t ht
  rw [C15_mustache] at ht
  rcases mem_mStreamSpec o c t ht with h1 | ⟨h2, _⟩
  · exact C15_post_no_eof mustacheCfg o c _ _ (mRawSpec_no_eof c) t h1
  · rw [h] at h2; exact absurd h2 (by decide)

/-- unifyNumbers: no Integer / Float / HexDecimal token in the output -/
theorem C15_mustache_numbers_unified (o : Opts) (c : List Rune) (h : o.unifyNumbers = true) :
    ∀ t ∈ tokenize mustacheCfg o c,
      t.typ ≠ TT.integer ∧ t.typ ≠ TT.float ∧ t.typ ≠ TT.hexDecimal := by
  intro t ht
  rw [C15_mustache] at ht
  rcases mem_mStreamSpec o c t ht with h1 | ⟨_, rfl⟩
  · exact C15_numbers_unified mustacheCfg o c _ _ h t h1
  · exact ⟨(by decide : TT.eof ≠ TT.integer), (by decide : TT.eof ≠ TT.float),
      (by decide : TT.eof ≠ TT.hexDecimal)⟩

/-- mergeWhitespaces: every Whitespace token of the output is a single space (text tokens are of
type Special: white space in the template TEXT is not touched) -/
theorem C15_mustache_ws_single_space (o : Opts) (c : List Rune) (h : o.mergeWhitespaces = true) :
    ∀ t ∈ tokenize mustacheCfg o c, t.typ = TT.whitespace → t.value = [32] := by
  intro t ht hws
  rw [C15_mustache] at ht
  rcases mem_mStreamSpec o c t ht with h1 | ⟨_, rfl⟩
  · exact C15_ws_single_space mustacheCfg o c _ _ h t h1 hws
  · exact absurd hws (by decide : TT.eof ≠ TT.whitespace)

/-- skipWhitespaces: never two Whitespace tokens in a row -/
theorem C15_mustache_no_adjacent_ws (o : Opts) (c : List Rune) (h : o.skipWhitespaces = true) :
    ∀ (i : Nat) (a b : Tok), (tokenize mustacheCfg o c)[i]? = some a →
      (tokenize mustacheCfg o c)[i+1]? = some b →
      ¬ (a.typ = TT.whitespace ∧ b.typ = TT.whitespace) := by
  rw [C15_mustache]
  unfold mStreamSpec
  have h1 := C15_no_adjacent_ws mustacheCfg o c TT.unknown (mRawSpec c) h
  cases o.skipEof with
  | true => simp only [if_true, List.append_nil]; exact h1.index
  | false =>
    simp only [Bool.false_eq_true, if_false]
    exact (h1.append_eof (eofTok c) (show TT.eof ≠ TT.whitespace by decide)).index

/-- all options off: every raw token comes through unchanged, stamped with the forward-scan
position of its first rune; then the Eof token -/
theorem C15_mustache_off (c : List Rune) :
    tokenize mustacheCfg Opts.allOff c =
      (mRawSpec c).map
        (fun r => (⟨r.typ, r.value, (posOf c r.start).1, (posOf c r.start).2⟩ : Tok))
      ++ [eofTok c] := by
  rw [C15_mustache]
  unfold mStreamSpec
  rw [postSpec_allOff]
  rfl

/-- no option touches the template text: every text token of the raw list is in the output, as it
is, for every option setting -/
theorem C15_mustache_text_kept (o : Opts) (c : List Rune) :
    ∀ r ∈ mRawSpec c, r.typ = TT.special →
      (⟨TT.special, r.value, (posOf c r.start).1, (posOf c r.start).2⟩ : Tok)
        ∈ tokenize mustacheCfg o c := by
  intro r hr hs
  rw [C15_mustache]
  unfold mStreamSpec
  apply List.mem_append_left
  have hq := (mRawSpec_special c r hr hs).1
  apply mem_postSpec_of_forall mustacheCfg o c (mRawSpec c) r _ hr
  intro last
  obtain ⟨ty, v, st, q⟩ := r
  simp only at hs hq
  subst hs; subst hq
  exact processSpec_special mustacheCfg o c last v st

/-- no option drops or rewrites a Symbol token — in particular the `{{`, `{{{`, `}}`, `}}}` that
drive the mode switch: the switch of the model (made on the token returned by the
option-processing main loop) is the switch of the SPEC (made on the raw token) -/
theorem C15_mustache_symbol_kept (o : Opts) (c : List Rune) :
    ∀ r ∈ mRawSpec c, r.typ = TT.symbol →
      (⟨TT.symbol, r.value, (posOf c r.start).1, (posOf c r.start).2⟩ : Tok)
        ∈ tokenize mustacheCfg o c := by
  intro r hr hs
  rw [C15_mustache]
  unfold mStreamSpec
  apply List.mem_append_left
  apply mem_postSpec_of_forall mustacheCfg o c (mRawSpec c) r _ hr
  intro last
  exact processSpec_symbol mustacheCfg o c last r hs (mRawSpec_symbol_quote c r hr hs)

/-! ## sanity of the SPEC: the raw list is a lossless partition; what the text tokens are -/

/-- the mode-alternating segmentation: (1) the values concatenate to the input, (2) every value is
non-empty, (3) the first token starts at offset 0, (4) every next token starts where the previous
one ends, (5) every token is the slice of the input at its start offset -/
theorem mRawSpec_lossless (c : List Rune) :
    ((mRawSpec c).map (·.value)).flatten = c ∧
    (∀ r ∈ mRawSpec c, r.value ≠ []) ∧
    (∀ r, (mRawSpec c).head? = some r → r.start = 0) ∧
    (∀ (i : Nat) (a b : RawTok), (mRawSpec c)[i]? = some a → (mRawSpec c)[i+1]? = some b →
      b.start = a.start + a.value.length) ∧
    (∀ r ∈ mRawSpec c, r.value = slice c r.start (r.start + r.value.length)) := by
  have h := mRawSpec_ok c
  refine ⟨?_, fun r hr => (h.mem r hr).1, h.head, h.contig, fun r hr => (h.mem r hr).2.1⟩
  rw [h.flatten]
  rfl

/-- the text tokens: type Special, not read by the quote state, the text is free of `{{` and is
followed by `{{` or by the end of the input -/
theorem mRawSpec_text_tokens (c : List Rune) :
    ∀ r ∈ mRawSpec c, r.typ = TT.special →
      r.quote = none ∧ r.value = (c.drop r.start).take (textLen (c.drop r.start)) ∧
      (∀ i, i + 1 < r.value.length → ¬ (r.value[i]? = some 123 ∧ r.value[i+1]? = some 123)) ∧
      (r.start + r.value.length < c.length →
        c[r.start + r.value.length]? = some 123 ∧ c[r.start + r.value.length + 1]? = some 123) :=
  mRawSpec_special c

/-- tag mode never yields a Special token (for any rune, at any scanner position): in the raw list
the Special tokens are exactly the text tokens -/
theorem mRawSpec_tag_never_special (ch : Rune) (s : Scanner) :
    (rawNext mustacheCfg ch s).1.tok.typ ≠ TT.special :=
  rawNext_mustache_ne_special ch s

/-! ## C04: lossless -/

/-- **C04 (mustache)**: with all options off the token values concatenate to exactly the
template, the stream ends with the Eof token, and every token before it is non-empty. -/
theorem C04_mustache (c : List Rune) :
    ((tokenize mustacheCfg Opts.allOff c).map (·.value)).flatten = c ∧
    (tokenize mustacheCfg Opts.allOff c).getLast? = some (eofTok c) ∧
    (∀ t ∈ (tokenize mustacheCfg Opts.allOff c).dropLast, t.value ≠ []) := by
  have hl := mRawSpec_lossless c
  rw [C15_mustache_off]
  refine ⟨?_, ?_, ?_⟩
  · rw [List.map_append, List.flatten_append, List.map_map]
    have : ((fun t : Tok => t.value) ∘ fun r : RawTok =>
        (⟨r.typ, r.value, (posOf c r.start).1, (posOf c r.start).2⟩ : Tok)) = (·.value) := rfl
    rw [this, hl.1]
    show c ++ [] = c
    exact List.append_nil c
  · exact List.getLast?_concat
  · rw [List.dropLast_concat]
    intro t ht
    obtain ⟨r, hr, rfl⟩ := List.mem_map.mp ht
    exact hl.2.1 r hr

/-! ## C12: positions -/

/-- **C12 (mustache)**: for every option setting, every token of the stream is the Eof token, or
reports the forward-scan position (`posOf`, the same function as in `C12_positions`) of the first
rune of a whole, non-empty raw token of the template — a text token or a tag-mode token. -/
theorem C12_mustache (o : Opts) (c : List Rune) :
    ∀ t ∈ tokenize mustacheCfg o c, t = eofTok c ∨
      ∃ r ∈ mRawSpec c,
        (t.line, t.col) = posOf c r.start ∧
        r.value = slice c r.start (r.start + r.value.length) ∧ r.value ≠ [] := by
  intro t ht
  rw [C15_mustache] at ht
  have hok := mRawSpec_ok c
  rcases mem_mStreamSpec o c t ht with h | ⟨_, h⟩
  · obtain ⟨l', r, hr, hp⟩ := mem_postSpec mustacheCfg o c _ _ t h
    obtain ⟨_, _, _, _, _, h6⟩ := processSpec_some mustacheCfg o c l' r t hp
    have hm := hok.mem r hr
    exact Or.inr ⟨r, hr, h6, hm.2.1, hm.1⟩
  · exact Or.inl h

/-- with all options off the correspondence is one-to-one and in order: the i-th token IS the
i-th raw token stamped with the position of its first rune -/
theorem C12_mustache_off (c : List Rune) :
    tokenize mustacheCfg Opts.allOff c =
      (mRawSpec c).map
        (fun r => (⟨r.typ, r.value, (posOf c r.start).1, (posOf c r.start).2⟩ : Tok))
      ++ [eofTok c] :=
  C15_mustache_off c

/-- any token of type Eof in the stream is `eofTok c`: empty, on the last line of a forward scan
over the whole template, one column past its last column (`C12_eof_position`) -/
theorem C12_mustache_eof_is_eofTok (o : Opts) (c : List Rune) :
    ∀ t ∈ tokenize mustacheCfg o c, t.typ = TT.eof → t = eofTok c := by
  intro t ht hty
  rw [C15_mustache] at ht
  rcases mem_mStreamSpec o c t ht with h | ⟨_, h⟩
  · exact absurd hty (C15_post_no_eof mustacheCfg o c _ _ (mRawSpec_no_eof c) t h)
  · exact h

/-- … and unless skipEof is set it is the last token of the stream -/
theorem C12_mustache_eof_last (o : Opts) (c : List Rune) (h : o.skipEof = false) :
    (tokenize mustacheCfg o c).getLast? = some (eofTok c) := by
  rw [C15_mustache]
  unfold mStreamSpec
  rw [h]
  simp only [Bool.false_eq_true, if_false]
  exact List.getLast?_concat

/-! ## non-vacuity -/

/-- the raw list of `a{{#x}} {{{y}}}b{{!c}}`: text `a`, a tag, text ` `, a triple-brace tag, text
`b`, a tag, end of input in text mode with empty text -/
example : (mRawSpec (strOf "a{{#x}} {{{y}}}b{{!c}}")).map (fun r => (r.typ, r.value, r.start)) =
    [(TT.special, strOf "a", 0), (TT.symbol, strOf "{{", 1), (TT.symbol, strOf "#", 3),
     (TT.word, strOf "x", 4), (TT.symbol, strOf "}}", 5), (TT.special, strOf " ", 7),
     (TT.symbol, strOf "{{{", 8), (TT.word, strOf "y", 11), (TT.symbol, strOf "}}}", 12),
     (TT.special, strOf "b", 15), (TT.symbol, strOf "{{", 16), (TT.symbol, strOf "!", 18),
     (TT.word, strOf "c", 19), (TT.symbol, strOf "}}", 20)] := by decide

/-- the tokenizer on the same template, all options off: the same cuts, positions, Eof -/
example : (tokenize mustacheCfg Opts.allOff (strOf "a{{#x}} {{{y}}}b{{!c}}")).map
      (fun t => (t.typ, t.value, t.line, t.col)) =
    [(TT.special, strOf "a", 1, 1), (TT.symbol, strOf "{{", 1, 2), (TT.symbol, strOf "#", 1, 4),
     (TT.word, strOf "x", 1, 5), (TT.symbol, strOf "}}", 1, 6), (TT.special, strOf " ", 1, 8),
     (TT.symbol, strOf "{{{", 1, 9), (TT.word, strOf "y", 1, 12), (TT.symbol, strOf "}}}", 1, 13),
     (TT.special, strOf "b", 1, 16), (TT.symbol, strOf "{{", 1, 17), (TT.symbol, strOf "!", 1, 19),
     (TT.word, strOf "c", 1, 20), (TT.symbol, strOf "}}", 1, 21), (TT.eof, [], 1, 23)] := by decide

/-- options act in tag mode only: in `a  b{{  x  }}⏎  c` with mergeWhitespaces + skipEof the two
blanks inside the tag become one space, the blanks and the line break of the TEXT stay -/
example : (mStreamSpec { Opts.allOff with mergeWhitespaces := true, skipEof := true }
      (strOf "a  b{{  x  }}\n  c")).map (fun t => (t.typ, t.value, t.line, t.col)) =
    [(TT.special, strOf "a  b", 1, 1), (TT.symbol, strOf "{{", 1, 5), (TT.whitespace, [32], 1, 7),
     (TT.word, strOf "x", 1, 9), (TT.whitespace, [32], 1, 10), (TT.symbol, strOf "}}", 1, 12),
     (TT.special, strOf "\n  c", 2, 0)] := by decide

/-- a token skipped inside the main loop is invisible to the mode switch: U+10000 (no state: an
Unknown token) between `{{` and `}}` with skipUnknown; the `}}` behind it still closes the tag and
`z` is text again.  An unterminated tag (`{{y`) stays in tag mode up to the end of the input. -/
example : (tokenize mustacheCfg { Opts.allOff with skipUnknown := true }
      [123, 123, 0x10000, 125, 125, 122, 123, 123, 121]).map (fun t => (t.typ, t.value)) =
    [(TT.symbol, strOf "{{"), (TT.symbol, strOf "}}"), (TT.special, strOf "z"),
     (TT.symbol, strOf "{{"), (TT.word, strOf "y"), (TT.eof, [])] := by decide

/-- a single `{` is text; `{{{{` is `{{{` then `{`; a `}}` inside a quoted string does not close -/
example : (mRawSpec (strOf "a{b{{{{\"}}\"}}")).map (fun r => (r.typ, r.value)) =
    [(TT.special, strOf "a{b"), (TT.symbol, strOf "{{{"), (TT.symbol, strOf "{"),
     (TT.quoted, strOf "\"}}\""), (TT.symbol, strOf "}}")] := by decide

end Verif
