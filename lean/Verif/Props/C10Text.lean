/-
Property C10 at TEXT level: Mustache templates from their source text.

`Props/C10.lean` proves C10 from the TOKENS of the mustache tokenizer upward (lexical analysis of
every tag spelling, section parser, renderer = reference rendering).  This file closes the gap
between the source text and the tokens:

* `printTpl : TNodes → List Rune` is the canonical source text of a template tree:
  `{{name}}`, `{{{name}}}` (escaped variable), `{{#name}}…{{/name}}`, `{{^name}}…{{/name}}`,
  `{{#if name}}…{{/if}}`, `{{#unless name}}…{{/unless}}` (sections closed by keyword), `{{!}}`,
  text verbatim.  `printTplP true` is the same with one blank around the names inside the tags
  (`{{ name }}`, `{{# name }}`, `{{/ name }}`, `{{#if name }}`, `{{! }}` …).
* `PrintableTpl : TNodes → Bool` is the decidable well-formedness predicate (see `okT`).
* (a) `C10_text_lexical`  : tokenizer + lexical analysis of the printed text = `flatten ns`;
* (b) `C10_text_parse`    : `parseTemplate (printTpl ns) = .ok ⟨toMToks ns, lookupVars (flatten ns)⟩`;
* (c) `C10_text_render`   : `renderTemplate (printTpl ns) vars = .ok (refRender vars ns)`;
* (d) the `…_pad` versions: the same for `printTplP pad`, i.e. blanks inside tags do not matter;
* (e) a concrete template, checked by `decide`.
-/
import Verif.Lemmas.TplTextLemmas

namespace Verif

set_option linter.unusedSimpArgs false

/-! ## 1. the printer -/

/-- the optional blank inside a tag -/
def wsT (pad : Bool) : List Rune := if pad then [32] else []

/-- the keyword of a section closed by keyword: `if` / `unless` -/
def kwOf (inv : Bool) : List Rune := if inv then sUnless else sIf

/-- the operator of a section closed by name: `#` / `^` -/
def opOf (inv : Bool) : List Rune := if inv then sCaret else sHash

/-- `{{name}}` -/
def tagVarT (pad : Bool) (n : List Rune) : List Rune := sOpen2 ++ (wsT pad ++ (n ++ (wsT pad ++ sClose2)))

/-- `{{{name}}}` -/
def tagEscT (pad : Bool) (n : List Rune) : List Rune := sOpen3 ++ (wsT pad ++ (n ++ (wsT pad ++ sClose3)))

/-- `{{!}}` -/
def tagCommentT (pad : Bool) : List Rune := sOpen2 ++ (sBang ++ (wsT pad ++ sClose2))

/-- `{{#name}}` / `{{^name}}`, or `{{#if name}}` / `{{#unless name}}` -/
def tagOpenT (pad inv : Bool) (n : List Rune) (cbn : Bool) : List Rune :=
  if cbn then sOpen2 ++ (opOf inv ++ (wsT pad ++ (n ++ (wsT pad ++ sClose2))))
  else sOpen2 ++ (sHash ++ (kwOf inv ++ ([32] ++ (n ++ (wsT pad ++ sClose2)))))

/-- `{{/name}}`, or `{{/if}}` / `{{/unless}}` -/
def tagCloseT (pad inv : Bool) (n : List Rune) (cbn : Bool) : List Rune :=
  if cbn then sOpen2 ++ (sSlash ++ (wsT pad ++ (n ++ (wsT pad ++ sClose2))))
  else sOpen2 ++ (sSlash ++ (kwOf inv ++ (wsT pad ++ sClose2)))

/-- the source text of a template tree; `pad = true`: one blank around the names inside tags -/
def printTplP (pad : Bool) : TNodes → List Rune
  | .nil => []
  | .cons (.text s) rest => s ++ printTplP pad rest
  | .cons (.var n) rest => tagVarT pad n ++ printTplP pad rest
  | .cons (.escaped n) rest => tagEscT pad n ++ printTplP pad rest
  | .cons .comment rest => tagCommentT pad ++ printTplP pad rest
  | .cons (.section inv n body cbn) rest =>
    tagOpenT pad inv n cbn ++ (printTplP pad body ++ (tagCloseT pad inv n cbn ++ printTplP pad rest))

/-- **the canonical printer** -/
def printTpl (ns : TNodes) : List Rune := printTplP false ns

/-! the canonical printer, readably -/

theorem printTpl_nil : printTpl .nil = [] := by simp only [printTpl, printTplP]

theorem printTpl_text (s : List Rune) (rest : TNodes) :
    printTpl (.cons (.text s) rest) = s ++ printTpl rest := by simp only [printTpl, printTplP]

/-- `{{name}}` -/
theorem printTpl_var (n : List Rune) (rest : TNodes) :
    printTpl (.cons (.var n) rest) = strOf "{{" ++ n ++ strOf "}}" ++ printTpl rest := by
  simp only [printTpl, printTplP, tagVarT, wsT, Bool.false_eq_true, if_false, List.nil_append,
    List.append_assoc]
  rfl

/-- `{{{name}}}` -/
theorem printTpl_escaped (n : List Rune) (rest : TNodes) :
    printTpl (.cons (.escaped n) rest) = strOf "{{{" ++ n ++ strOf "}}}" ++ printTpl rest := by
  simp only [printTpl, printTplP, tagEscT, wsT, Bool.false_eq_true, if_false, List.nil_append,
    List.append_assoc]
  rfl

/-- `{{!}}` -/
theorem printTpl_comment (rest : TNodes) :
    printTpl (.cons .comment rest) = strOf "{{!}}" ++ printTpl rest := by
  simp only [printTpl, printTplP, tagCommentT, wsT, Bool.false_eq_true, if_false, List.nil_append,
    List.append_assoc]
  rfl

/-- `{{#name}}…{{/name}}` -/
theorem printTpl_section (n : List Rune) (body rest : TNodes) :
    printTpl (.cons (.section false n body true) rest) =
      strOf "{{#" ++ n ++ strOf "}}" ++ printTpl body ++ strOf "{{/" ++ n ++ strOf "}}" ++ printTpl rest := by
  simp only [printTpl, printTplP, tagOpenT, tagCloseT, opOf, wsT, Bool.false_eq_true, if_false, if_true,
    List.nil_append, List.append_assoc]
  rfl

/-- `{{^name}}…{{/name}}` -/
theorem printTpl_inverted (n : List Rune) (body rest : TNodes) :
    printTpl (.cons (.section true n body true) rest) =
      strOf "{{^" ++ n ++ strOf "}}" ++ printTpl body ++ strOf "{{/" ++ n ++ strOf "}}" ++ printTpl rest := by
  simp only [printTpl, printTplP, tagOpenT, tagCloseT, opOf, wsT, Bool.false_eq_true, if_false, if_true,
    List.nil_append, List.append_assoc]
  rfl

/-- `{{#if name}}…{{/if}}` -/
theorem printTpl_section_if (n : List Rune) (body rest : TNodes) :
    printTpl (.cons (.section false n body false) rest) =
      strOf "{{#if " ++ n ++ strOf "}}" ++ printTpl body ++ strOf "{{/if}}" ++ printTpl rest := by
  simp only [printTpl, printTplP, tagOpenT, tagCloseT, kwOf, wsT, Bool.false_eq_true, if_false, if_true,
    List.nil_append, List.append_assoc]
  rfl

/-- `{{#unless name}}…{{/unless}}` -/
theorem printTpl_inverted_unless (n : List Rune) (body rest : TNodes) :
    printTpl (.cons (.section true n body false) rest) =
      strOf "{{#unless " ++ n ++ strOf "}}" ++ printTpl body ++ strOf "{{/unless}}" ++ printTpl rest := by
  simp only [printTpl, printTplP, tagOpenT, tagCloseT, kwOf, wsT, Bool.false_eq_true, if_false, if_true,
    List.nil_append, List.append_assoc]
  rfl

/-! ## 2. the well-formedness predicate -/

/-- a text node: non-empty and free of `{{` -/
def textOK (s : List Rune) : Bool := !s.isEmpty && textLen s == s.length

/-- what may follow the text `s`: the end of the template, or a tag — and then `s` must not end
with `{` (`a{` + `{{x}}` would read as `a` + `{{{x}}`).  Never another text node. -/
def followText (atEnd : Bool) (s : List Rune) : TNodes → Bool
  | .nil => atEnd || s.getLast? != some 123
  | .cons (.text _) _ => false
  | .cons _ _ => s.getLast? != some 123

/-- what may follow a closing `}}`: not a text that starts with `}` (`}}` + `}` would read as
`}}}`) -/
def noBrace : TNodes → Bool
  | .cons (.text s) _ => s.head? != some 125
  | _ => true

/-- well-formedness of a node list; `atEnd = false`: inside a section (an end tag follows).
* text: `textOK`, `followText`;
* names: a word-start rune of the mustache tokenizer (letter, digit, `_`, U+00C0–U+FFFE) followed
  by word characters (these and `-`);
* a section closed by name is not called `if` / `unless` (`{{/if}}` is the anonymous end tag);
* after `}}` (not after `}}}`) no text that starts with `}`. -/
def okT : Bool → TNodes → Bool
  | _, .nil => true
  | atEnd, .cons (.text s) rest => textOK s && followText atEnd s rest && okT atEnd rest
  | atEnd, .cons (.var n) rest => nameOK n && noBrace rest && okT atEnd rest
  | atEnd, .cons (.escaped n) rest => nameOK n && okT atEnd rest
  | atEnd, .cons .comment rest => noBrace rest && okT atEnd rest
  | atEnd, .cons (.section _ n body cbn) rest =>
    nameOK n && (!cbn || (n != sIf && n != sUnless)) && noBrace body && okT false body &&
      noBrace rest && okT atEnd rest

/-- the source neither begins nor ends with a rune that `ParseString` trims (blank, tab, CR, LF) -/
def edgesOK (s : List Rune) : Bool :=
  (match s.head? with
   | some c => !isTrimRune c
   | none => true) &&
  (match s.getLast? with
   | some c => !isTrimRune c
   | none => true)

/-- well-formed and stable under the trimming of `ParseString`, for the spelling `printTplP pad`
(the same predicate for both spellings: `PrintableTplP_eq`) -/
def PrintableTplP (pad : Bool) (ns : TNodes) : Bool := okT true ns && edgesOK (printTplP pad ns)

/-- **the decidable well-formedness predicate** of the canonical printer -/
def PrintableTpl (ns : TNodes) : Bool := PrintableTplP false ns

/-! ### blanks inside tags change neither the first nor the last rune -/

theorem getLast?_append_some (a b : List Rune) (x : Rune) (h : b.getLast? = some x) :
    (a ++ b).getLast? = some x := by
  rw [List.getLast?_append, h]; rfl

theorem tagVarT_edges (pad : Bool) (n : List Rune) :
    (tagVarT pad n).head? = some 123 ∧ (tagVarT pad n).getLast? = some 125 :=
  ⟨rfl, getLast?_append_some _ _ _ (getLast?_append_some _ _ _ (getLast?_append_some _ _ _
    (getLast?_append_some _ _ _ rfl)))⟩

theorem tagEscT_edges (pad : Bool) (n : List Rune) :
    (tagEscT pad n).head? = some 123 ∧ (tagEscT pad n).getLast? = some 125 :=
  ⟨rfl, getLast?_append_some _ _ _ (getLast?_append_some _ _ _ (getLast?_append_some _ _ _
    (getLast?_append_some _ _ _ rfl)))⟩

theorem tagCommentT_edges (pad : Bool) :
    (tagCommentT pad).head? = some 123 ∧ (tagCommentT pad).getLast? = some 125 :=
  ⟨rfl, getLast?_append_some _ _ _ (getLast?_append_some _ _ _ (getLast?_append_some _ _ _ rfl))⟩

theorem tagOpenT_edges (pad inv : Bool) (n : List Rune) (cbn : Bool) :
    (tagOpenT pad inv n cbn).head? = some 123 ∧ (tagOpenT pad inv n cbn).getLast? = some 125 := by
  cases cbn
  · exact ⟨rfl, getLast?_append_some _ _ _ (getLast?_append_some _ _ _ (getLast?_append_some _ _ _
      (getLast?_append_some _ _ _ (getLast?_append_some _ _ _ (getLast?_append_some _ _ _ rfl)))))⟩
  · exact ⟨rfl, getLast?_append_some _ _ _ (getLast?_append_some _ _ _ (getLast?_append_some _ _ _
      (getLast?_append_some _ _ _ (getLast?_append_some _ _ _ rfl))))⟩

theorem tagCloseT_edges (pad inv : Bool) (n : List Rune) (cbn : Bool) :
    (tagCloseT pad inv n cbn).head? = some 123 ∧ (tagCloseT pad inv n cbn).getLast? = some 125 := by
  cases cbn
  · exact ⟨rfl, getLast?_append_some _ _ _ (getLast?_append_some _ _ _ (getLast?_append_some _ _ _
      (getLast?_append_some _ _ _ rfl)))⟩
  · exact ⟨rfl, getLast?_append_some _ _ _ (getLast?_append_some _ _ _ (getLast?_append_some _ _ _
      (getLast?_append_some _ _ _ (getLast?_append_some _ _ _ rfl))))⟩

/-- blanks inside tags change neither the first nor the last rune of the source -/
theorem printTplP_edges (pad : Bool) (ns : TNodes) :
    (printTplP pad ns).head? = (printTpl ns).head? ∧
    (printTplP pad ns).getLast? = (printTpl ns).getLast? := by
  unfold printTpl
  induction ns using flatten.induct with
  | case1 => simp only [printTplP, and_self]
  | case2 s r ih =>
    simp only [printTplP, List.head?_append, List.getLast?_append, ih.1, ih.2, and_self]
  | case3 n r ih =>
    simp only [printTplP, List.head?_append, List.getLast?_append, ih.1, ih.2, tagVarT_edges, and_self]
  | case4 n r ih =>
    simp only [printTplP, List.head?_append, List.getLast?_append, ih.1, ih.2, tagEscT_edges, and_self]
  | case5 r ih =>
    simp only [printTplP, List.head?_append, List.getLast?_append, ih.1, ih.2, tagCommentT_edges, and_self]
  | case6 inv nm body cbn r ihb ihr =>
    simp only [printTplP, List.head?_append, List.getLast?_append, ihb.1, ihb.2, ihr.1, ihr.2,
      tagOpenT_edges, tagCloseT_edges, Option.or_some, Option.some_or, and_self]

theorem PrintableTplP_eq (pad : Bool) (ns : TNodes) : PrintableTplP pad ns = PrintableTpl ns := by
  unfold PrintableTpl PrintableTplP edgesOK
  rw [(printTplP_edges pad ns).1, (printTplP_edges pad ns).2]
  rfl

/-! ## 3. the lexemes of a printed template -/

def wsL (pad : Bool) : List Lexeme := if pad then [lxWs] else []

def tagVarL (pad : Bool) (n : List Rune) : List Lexeme :=
  lxSym sOpen2 :: (wsL pad ++ lxWord n :: (wsL pad ++ [lxSym sClose2]))

def tagEscL (pad : Bool) (n : List Rune) : List Lexeme :=
  lxSym sOpen3 :: (wsL pad ++ lxWord n :: (wsL pad ++ [lxSym sClose3]))

def tagCommentL (pad : Bool) : List Lexeme :=
  lxSym sOpen2 :: lxSym sBang :: (wsL pad ++ [lxSym sClose2])

def tagOpenL (pad inv : Bool) (n : List Rune) (cbn : Bool) : List Lexeme :=
  if cbn then lxSym sOpen2 :: lxSym (opOf inv) :: (wsL pad ++ lxWord n :: (wsL pad ++ [lxSym sClose2]))
  else lxSym sOpen2 :: lxSym sHash :: lxWord (kwOf inv) :: lxWs :: lxWord n :: (wsL pad ++ [lxSym sClose2])

def tagCloseL (pad inv : Bool) (n : List Rune) (cbn : Bool) : List Lexeme :=
  if cbn then lxSym sOpen2 :: lxSym sSlash :: (wsL pad ++ lxWord n :: (wsL pad ++ [lxSym sClose2]))
  else lxSym sOpen2 :: lxSym sSlash :: lxWord (kwOf inv) :: (wsL pad ++ [lxSym sClose2])

def tplLexP (pad : Bool) : TNodes → List Lexeme
  | .nil => []
  | .cons (.text s) rest => lxText s :: tplLexP pad rest
  | .cons (.var n) rest => tagVarL pad n ++ tplLexP pad rest
  | .cons (.escaped n) rest => tagEscL pad n ++ tplLexP pad rest
  | .cons .comment rest => tagCommentL pad ++ tplLexP pad rest
  | .cons (.section inv n body cbn) rest =>
    tagOpenL pad inv n cbn ++ (tplLexP pad body ++ (tagCloseL pad inv n cbn ++ tplLexP pad rest))

theorem lexText_nil : lexText [] = [] := rfl

theorem lexText_wsL (pad : Bool) (ls : List Lexeme) : lexText (wsL pad ++ ls) = wsT pad ++ lexText ls := by
  cases pad
  · rfl
  · show lexText (lxWs :: ls) = _
    rw [lexText_cons]; rfl

theorem lexText_tagVarL (pad : Bool) (n : List Rune) : lexText (tagVarL pad n) = tagVarT pad n := by
  simp only [tagVarL, tagVarT, lexText_cons, lexText_wsL, lexText_nil, lxSym, lxWord, List.append_nil]

theorem lexText_tagEscL (pad : Bool) (n : List Rune) : lexText (tagEscL pad n) = tagEscT pad n := by
  simp only [tagEscL, tagEscT, lexText_cons, lexText_wsL, lexText_nil, lxSym, lxWord, List.append_nil]

theorem lexText_tagCommentL (pad : Bool) : lexText (tagCommentL pad) = tagCommentT pad := by
  simp only [tagCommentL, tagCommentT, lexText_cons, lexText_wsL, lexText_nil, lxSym, List.append_nil]

theorem lexText_tagOpenL (pad inv : Bool) (n : List Rune) (cbn : Bool) :
    lexText (tagOpenL pad inv n cbn) = tagOpenT pad inv n cbn := by
  cases cbn <;>
  simp only [tagOpenL, tagOpenT, lexText_cons, lexText_wsL, lexText_nil, lxSym, lxWord, lxWs,
    List.append_nil, Bool.false_eq_true, if_false, if_true]

theorem lexText_tagCloseL (pad inv : Bool) (n : List Rune) (cbn : Bool) :
    lexText (tagCloseL pad inv n cbn) = tagCloseT pad inv n cbn := by
  cases cbn <;>
  simp only [tagCloseL, tagCloseT, lexText_cons, lexText_wsL, lexText_nil, lxSym, lxWord,
    List.append_nil, Bool.false_eq_true, if_false, if_true]

/-- the lexemes of a template spell its printed text -/
theorem lexText_tplLexP (pad : Bool) (ns : TNodes) : lexText (tplLexP pad ns) = printTplP pad ns := by
  induction ns using flatten.induct with
  | case1 => simp only [tplLexP, printTplP, lexText_nil]
  | case2 s r ih => simp only [tplLexP, printTplP, lexText_cons, ih, lxText]
  | case3 n r ih => simp only [tplLexP, printTplP, lexText_append, ih, lexText_tagVarL]
  | case4 n r ih => simp only [tplLexP, printTplP, lexText_append, ih, lexText_tagEscL]
  | case5 r ih => simp only [tplLexP, printTplP, lexText_append, ih, lexText_tagCommentL]
  | case6 inv nm body cbn r ihb ihr =>
    simp only [tplLexP, printTplP, lexText_append, ihb, ihr, lexText_tagOpenL, lexText_tagCloseL]

/-! ### every tag is read lexeme by lexeme -/

theorem headP_sym (P : Rune → Prop) (a : Rune) (v : List Rune) (ls : List Lexeme) (h : P a) :
    HeadP P (lexText (lxSym (a :: v) :: ls)) := by
  rw [lexText_cons]; exact HeadP.cons a _ h

theorem headP_ws (P : Rune → Prop) (ls : List Lexeme) (h : P 32) : HeadP P (lexText (lxWs :: ls)) := by
  rw [lexText_cons]; exact HeadP.cons 32 _ h

theorem headP_word (P : Rune → Prop) (n : List Rune) (ls : List Lexeme) (hn : nameOK n = true)
    (hP : ∀ c, isWordStartM c = true → P c) : HeadP P (lexText (lxWord n :: ls)) := by
  rw [lexText_cons]; exact nameOK_head hn P hP _

theorem headP_wsL (P : Rune → Prop) (pad : Bool) (ls : List Lexeme) (h32 : P 32)
    (h : HeadP P (lexText ls)) : HeadP P (lexText (wsL pad ++ ls)) := by
  cases pad
  · exact h
  · exact headP_ws P ls h32

theorem mseg_wsL (pad : Bool) (ls : List Lexeme) (h : HeadP (fun x => isWs x = false) (lexText ls))
    (hrest : MSeg false ls) : MSeg false (wsL pad ++ ls) := by
  cases pad
  · exact hrest
  · exact mseg_ws ls h hrest

/-- `[blank] name [blank]` in front of a closing bracket -/
theorem mseg_namepart (pad : Bool) (n : List Rune) (hn : nameOK n = true) (v : List Rune)
    (ls : List Lexeme) (hrest : MSeg false (lxSym (125 :: v) :: ls)) :
    MSeg false (wsL pad ++ lxWord n :: (wsL pad ++ lxSym (125 :: v) :: ls)) := by
  apply mseg_wsL pad _ (headP_word _ n _ hn (fun c hc => (isWordStartM_ne c hc).2.2))
  apply mseg_word n hn _ (headP_wsL _ pad _ (by decide) (headP_sym _ 125 v ls (by decide)))
  exact mseg_wsL pad _ (headP_sym _ 125 v ls (by decide)) hrest

theorem headP_namepart (P : Rune → Prop) (pad : Bool) (n : List Rune) (hn : nameOK n = true)
    (ls : List Lexeme) (h32 : P 32) (hP : ∀ c, isWordStartM c = true → P c) :
    HeadP P (lexText (wsL pad ++ lxWord n :: ls)) :=
  headP_wsL P pad _ h32 (headP_word P n ls hn hP)

theorem nameOK_kwOf (inv : Bool) : nameOK (kwOf inv) = true := by cases inv <;> decide

theorem mseg_var (pad : Bool) (n : List Rune) (hn : nameOK n = true) (kk : List Lexeme)
    (hk : HeadP (· ≠ 125) (lexText kk)) (h : MSeg true kk) : MSeg true (tagVarL pad n ++ kk) := by
  show MSeg true (lxSym sOpen2 :: ((wsL pad ++ lxWord n :: (wsL pad ++ [lxSym sClose2])) ++ kk))
  rw [List.append_assoc, List.cons_append, List.append_assoc]
  apply mseg_open2 _ (headP_namepart _ pad n hn _ (by decide) (fun c hc => (isWordStartM_ne c hc).1))
  exact mseg_namepart pad n hn [125] kk (mseg_close2 kk hk h)

theorem mseg_esc (pad : Bool) (n : List Rune) (hn : nameOK n = true) (kk : List Lexeme)
    (h : MSeg true kk) : MSeg true (tagEscL pad n ++ kk) := by
  show MSeg true (lxSym sOpen3 :: ((wsL pad ++ lxWord n :: (wsL pad ++ [lxSym sClose3])) ++ kk))
  rw [List.append_assoc, List.cons_append, List.append_assoc]
  apply mseg_open3
  exact mseg_namepart pad n hn [125, 125] kk (mseg_close3 kk h)

theorem mseg_comment (pad : Bool) (kk : List Lexeme) (hk : HeadP (· ≠ 125) (lexText kk))
    (h : MSeg true kk) : MSeg true (tagCommentL pad ++ kk) := by
  show MSeg true (lxSym sOpen2 :: lxSym sBang :: ((wsL pad ++ [lxSym sClose2]) ++ kk))
  rw [List.append_assoc]
  apply mseg_open2 _ (headP_sym _ 33 [] _ (by decide))
  apply mseg_op 33 (by decide)
  exact mseg_wsL pad _ (headP_sym _ 125 [125] kk (by decide)) (mseg_close2 kk hk h)

theorem opOf_cases (inv : Bool) : ∃ a, opOf inv = [a] ∧ (a = 35 ∨ a = 94 ∨ a = 47 ∨ a = 33) := by
  cases inv
  · exact ⟨35, rfl, Or.inl rfl⟩
  · exact ⟨94, rfl, Or.inr (Or.inl rfl)⟩

theorem mseg_open (pad inv : Bool) (n : List Rune) (cbn : Bool) (hn : nameOK n = true)
    (kk : List Lexeme) (hk : HeadP (· ≠ 125) (lexText kk)) (h : MSeg true kk) :
    MSeg true (tagOpenL pad inv n cbn ++ kk) := by
  cases cbn
  · show MSeg true (lxSym sOpen2 :: lxSym sHash :: lxWord (kwOf inv) :: lxWs :: lxWord n ::
      ((wsL pad ++ [lxSym sClose2]) ++ kk))
    rw [List.append_assoc]
    apply mseg_open2 _ (headP_sym _ 35 [] _ (by decide))
    apply mseg_op 35 (by decide)
    apply mseg_word _ (nameOK_kwOf inv) _ (headP_ws _ _ (by decide))
    apply mseg_ws _ (headP_word _ n _ hn (fun c hc => (isWordStartM_ne c hc).2.2))
    apply mseg_word n hn _ (headP_wsL _ pad _ (by decide) (headP_sym _ 125 [125] kk (by decide)))
    exact mseg_wsL pad _ (headP_sym _ 125 [125] kk (by decide)) (mseg_close2 kk hk h)
  · obtain ⟨a, ha, hop⟩ := opOf_cases inv
    show MSeg true (lxSym sOpen2 :: lxSym (opOf inv) ::
      ((wsL pad ++ lxWord n :: (wsL pad ++ [lxSym sClose2])) ++ kk))
    rw [ha, List.append_assoc, List.cons_append, List.append_assoc]
    apply mseg_open2 _ (headP_sym _ a [] _ (by rcases hop with rfl | rfl | rfl | rfl <;> decide))
    apply mseg_op a hop
    exact mseg_namepart pad n hn [125] kk (mseg_close2 kk hk h)

theorem mseg_close (pad inv : Bool) (n : List Rune) (cbn : Bool) (hn : nameOK n = true)
    (kk : List Lexeme) (hk : HeadP (· ≠ 125) (lexText kk)) (h : MSeg true kk) :
    MSeg true (tagCloseL pad inv n cbn ++ kk) := by
  cases cbn
  · show MSeg true (lxSym sOpen2 :: lxSym sSlash :: lxWord (kwOf inv) ::
      ((wsL pad ++ [lxSym sClose2]) ++ kk))
    rw [List.append_assoc]
    apply mseg_open2 _ (headP_sym _ 47 [] _ (by decide))
    apply mseg_op 47 (by decide)
    apply mseg_word _ (nameOK_kwOf inv) _
      (headP_wsL _ pad _ (by decide) (headP_sym _ 125 [125] kk (by decide)))
    exact mseg_wsL pad _ (headP_sym _ 125 [125] kk (by decide)) (mseg_close2 kk hk h)
  · show MSeg true (lxSym sOpen2 :: lxSym sSlash ::
      ((wsL pad ++ lxWord n :: (wsL pad ++ [lxSym sClose2])) ++ kk))
    rw [List.append_assoc, List.cons_append, List.append_assoc]
    apply mseg_open2 _ (headP_sym _ 47 [] _ (by decide))
    apply mseg_op 47 (by decide)
    exact mseg_namepart pad n hn [125] kk (mseg_close2 kk hk h)

/-! ### what follows a node -/

/-- the text behind a node list: nothing at top level, an end tag inside a section -/
def Cont (atEnd : Bool) (K : List Rune) : Prop :=
  (atEnd = true → K = []) ∧ (atEnd = false → ∃ r, K = 123 :: 123 :: r)

/-- a non-empty node list that does not start with a text node -/
def startsWithTag : TNodes → Bool
  | .nil => false
  | .cons (.text _) _ => false
  | .cons _ _ => true

theorem printTplP_tag_start (pad : Bool) (ns : TNodes) (h : startsWithTag ns = true) :
    ∃ r, printTplP pad ns = 123 :: 123 :: r := by
  cases ns with
  | nil => cases h
  | cons n rest =>
    cases n with
    | text s => cases h
    | var n =>
      simp only [printTplP, tagVarT, sOpen2, List.cons_append, List.nil_append]
      exact ⟨_, rfl⟩
    | escaped n =>
      simp only [printTplP, tagEscT, sOpen3, List.cons_append, List.nil_append]
      exact ⟨_, rfl⟩
    | comment =>
      simp only [printTplP, tagCommentT, sOpen2, List.cons_append, List.nil_append]
      exact ⟨_, rfl⟩
    | «section» inv n body cbn =>
      cases cbn <;>
      simp only [printTplP, tagOpenT, sOpen2, List.cons_append, List.nil_append,
        Bool.false_eq_true, if_false, if_true] <;>
      exact ⟨_, rfl⟩

theorem tagCloseT_start (pad inv : Bool) (n : List Rune) (cbn : Bool) (rest : List Rune) :
    ∃ r, tagCloseT pad inv n cbn ++ rest = 123 :: 123 :: r := by
  cases cbn <;>
  simp only [tagCloseT, sOpen2, List.cons_append, List.nil_append,
    Bool.false_eq_true, if_false, if_true] <;>
  exact ⟨_, rfl⟩

theorem textOK_iff (s : List Rune) : textOK s = true ↔ s ≠ [] ∧ textLen s = s.length := by
  cases s with
  | nil => simp [textOK]
  | cons a t => simp [textOK]

/-- after a closing `}}` no `}` follows -/
theorem follow_head (pad atEnd : Bool) (rest : TNodes) (K : List Rune) (hok : okT atEnd rest = true)
    (hnb : noBrace rest = true) (hK : Cont atEnd K) : HeadP (· ≠ 125) (printTplP pad rest ++ K) := by
  cases rest with
  | nil =>
    simp only [printTplP, List.nil_append]
    cases atEnd with
    | true => rw [hK.1 rfl]; exact HeadP.nil _
    | false =>
      obtain ⟨r, hr⟩ := hK.2 rfl
      rw [hr]; exact HeadP.cons 123 _ (by decide)
  | cons n r =>
    by_cases ht : startsWithTag (.cons n r) = true
    · obtain ⟨r', hr'⟩ := printTplP_tag_start pad _ ht
      rw [hr']; exact HeadP.cons 123 _ (by decide)
    · cases n with
      | text s =>
        simp only [okT, Bool.and_eq_true] at hok
        obtain ⟨hne, _⟩ := (textOK_iff s).mp hok.1.1
        cases s with
        | nil => exact absurd rfl hne
        | cons a t =>
          simp only [noBrace, List.head?_cons, bne_iff_ne, ne_eq, Option.some.injEq] at hnb
          simp only [printTplP, List.cons_append]
          exact HeadP.cons a _ hnb
      | var n => exact absurd rfl ht
      | escaped n => exact absurd rfl ht
      | comment => exact absurd rfl ht
      | «section» inv n body cbn => exact absurd rfl ht

/-- a text node is exactly the text in front of what follows it -/
theorem follow_text (pad atEnd : Bool) (s : List Rune) (rest : TNodes) (K : List Rune)
    (hs : textOK s = true) (hf : followText atEnd s rest = true) (hK : Cont atEnd K) :
    textLen (s ++ (printTplP pad rest ++ K)) = s.length := by
  obtain ⟨_, hlen⟩ := (textOK_iff s).mp hs
  cases rest with
  | nil =>
    simp only [printTplP, List.nil_append]
    cases atEnd with
    | true => rw [hK.1 rfl, List.append_nil]; exact hlen
    | false =>
      obtain ⟨r, hr⟩ := hK.2 rfl
      simp only [followText, Bool.false_or, bne_iff_ne, ne_eq] at hf
      rw [hr]; exact textLen_before_tag s r hlen hf
  | cons n r =>
    have key : startsWithTag (.cons n r) = true → s.getLast? ≠ some 123 →
        textLen (s ++ (printTplP pad (.cons n r) ++ K)) = s.length := by
      intro ht hl
      obtain ⟨r', hr'⟩ := printTplP_tag_start pad _ ht
      rw [hr']
      exact textLen_before_tag s (r' ++ K) hlen hl
    cases n with
    | text s' => simp only [followText] at hf; cases hf
    | var n => exact key rfl (by simpa only [followText, bne_iff_ne, ne_eq] using hf)
    | escaped n => exact key rfl (by simpa only [followText, bne_iff_ne, ne_eq] using hf)
    | comment => exact key rfl (by simpa only [followText, bne_iff_ne, ne_eq] using hf)
    | «section» inv n body cbn => exact key rfl (by simpa only [followText, bne_iff_ne, ne_eq] using hf)

/-! ### the whole template -/

/-- **the printed text of a well-formed node list is read lexeme by lexeme**, in front of any
continuation `kk` that is itself read lexeme by lexeme -/
theorem mseg_tpl (pad : Bool) (ns : TNodes) :
    ∀ (atEnd : Bool) (kk : List Lexeme), okT atEnd ns = true → MSeg true kk →
      Cont atEnd (lexText kk) → MSeg true (tplLexP pad ns ++ kk) := by
  induction ns using flatten.induct with
  | case1 => intro atEnd kk _ hkk _; simpa only [tplLexP, List.nil_append] using hkk
  | case2 s r ih =>
    intro atEnd kk hok hkk hK
    simp only [okT, Bool.and_eq_true] at hok
    obtain ⟨⟨hs, hf⟩, hr⟩ := hok
    simp only [tplLexP, List.cons_append, lxText]
    refine MSeg.text s _ ((textOK_iff s).mp hs).1 ?_ (ih atEnd kk hr hkk hK)
    rw [lexText_append, lexText_tplLexP]
    exact follow_text pad atEnd s r _ hs hf hK
  | case3 n r ih =>
    intro atEnd kk hok hkk hK
    simp only [okT, Bool.and_eq_true] at hok
    obtain ⟨⟨hn, hnb⟩, hr⟩ := hok
    simp only [tplLexP, List.append_assoc]
    refine mseg_var pad n hn _ ?_ (ih atEnd kk hr hkk hK)
    rw [lexText_append, lexText_tplLexP]
    exact follow_head pad atEnd r _ hr hnb hK
  | case4 n r ih =>
    intro atEnd kk hok hkk hK
    simp only [okT, Bool.and_eq_true] at hok
    obtain ⟨hn, hr⟩ := hok
    simp only [tplLexP, List.append_assoc]
    exact mseg_esc pad n hn _ (ih atEnd kk hr hkk hK)
  | case5 r ih =>
    intro atEnd kk hok hkk hK
    simp only [okT, Bool.and_eq_true] at hok
    obtain ⟨hnb, hr⟩ := hok
    simp only [tplLexP, List.append_assoc]
    refine mseg_comment pad _ ?_ (ih atEnd kk hr hkk hK)
    rw [lexText_append, lexText_tplLexP]
    exact follow_head pad atEnd r _ hr hnb hK
  | case6 inv nm body cbn r ihb ihr =>
    intro atEnd kk hok hkk hK
    simp only [okT, Bool.and_eq_true] at hok
    obtain ⟨⟨⟨⟨⟨hn, _⟩, hnbb⟩, hb⟩, hnbr⟩, hr⟩ := hok
    simp only [tplLexP, List.append_assoc]
    -- the end tag and what follows it
    have hrest : MSeg true (tplLexP pad r ++ kk) := ihr atEnd kk hr hkk hK
    have hclose : MSeg true (tagCloseL pad inv nm cbn ++ (tplLexP pad r ++ kk)) := by
      refine mseg_close pad inv nm cbn hn _ ?_ hrest
      rw [lexText_append, lexText_tplLexP]
      exact follow_head pad atEnd r _ hr hnbr hK
    have hKb : Cont false (lexText (tagCloseL pad inv nm cbn ++ (tplLexP pad r ++ kk))) := by
      refine ⟨fun h => (by cases h), fun _ => ?_⟩
      rw [lexText_append, lexText_tagCloseL]
      exact tagCloseT_start pad inv nm cbn _
    refine mseg_open pad inv nm cbn hn _ ?_ (ihb false _ hb hclose hKb)
    rw [lexText_append, lexText_tplLexP]
    exact follow_head pad false body _ hb hnbb hKb

/-! ## 4. the lexemes are a spelling of the flat tokens -/

theorem varTyp_close2 : varTyp sClose2 = .variable := by decide
theorem varTyp_close3 : varTyp sClose3 = .escapedVariable := by decide

theorem spell_var (pad : Bool) (n : List Rune) :
    TagSpelling (lexToks (tagVarL pad n)) ⟨.variable, n⟩ := by
  have h := TagSpelling.var sOpen2 sClose2 (Or.inl ⟨rfl, rfl⟩) n
  rw [varTyp_close2] at h
  cases pad
  · exact h
  · exact TagSpelling.padded _ _ _ h rfl

theorem spell_esc (pad : Bool) (n : List Rune) :
    TagSpelling (lexToks (tagEscL pad n)) ⟨.escapedVariable, n⟩ := by
  have h := TagSpelling.var sOpen3 sClose3 (Or.inr ⟨rfl, rfl⟩) n
  rw [varTyp_close3] at h
  cases pad
  · exact h
  · exact TagSpelling.padded _ _ _ h rfl

theorem spell_comment (pad : Bool) : TagSpelling (lexToks (tagCommentL pad)) ⟨.comment, []⟩ := by
  have h := TagSpelling.comment sOpen2 sClose2 (Or.inl ⟨rfl, rfl⟩) []
    (fun t ht => absurd ht List.not_mem_nil)
  cases pad
  · exact h
  · exact TagSpelling.padded _ _ _ h rfl

theorem spell_open (pad inv : Bool) (n : List Rune) (cbn : Bool) :
    TagSpelling (lexToks (tagOpenL pad inv n cbn)) ⟨secTyp inv, n⟩ := by
  cases cbn
  · cases inv
    · have h := TagSpelling.sectionIf sOpen2 sClose2 (Or.inl ⟨rfl, rfl⟩) n
      cases pad <;> exact TagSpelling.padded _ _ _ h rfl
    · have h := TagSpelling.invertedUnless sOpen2 sClose2 (Or.inl ⟨rfl, rfl⟩) n
      cases pad <;> exact TagSpelling.padded _ _ _ h rfl
  · cases inv
    · have h := TagSpelling.sectionHash sOpen2 sClose2 (Or.inl ⟨rfl, rfl⟩) n
      cases pad
      · exact h
      · exact TagSpelling.padded _ _ _ h rfl
    · have h := TagSpelling.invertedCaret sOpen2 sClose2 (Or.inl ⟨rfl, rfl⟩) n
      cases pad
      · exact h
      · exact TagSpelling.padded _ _ _ h rfl

theorem spell_close (pad inv : Bool) (n : List Rune) (cbn : Bool)
    (hn : cbn = true → n ≠ sIf ∧ n ≠ sUnless) :
    TagSpelling (lexToks (tagCloseL pad inv n cbn)) ⟨.sectionEnd, if cbn then n else []⟩ := by
  cases cbn
  · cases inv
    · have h := TagSpelling.endIf sOpen2 sClose2 (Or.inl ⟨rfl, rfl⟩)
      cases pad
      · exact h
      · exact TagSpelling.padded _ _ _ h rfl
    · have h := TagSpelling.endUnless sOpen2 sClose2 (Or.inl ⟨rfl, rfl⟩)
      cases pad
      · exact h
      · exact TagSpelling.padded _ _ _ h rfl
  · have h := TagSpelling.endName sOpen2 sClose2 (Or.inl ⟨rfl, rfl⟩) n (hn rfl).1 (hn rfl).2
    cases pad
    · exact h
    · exact TagSpelling.padded _ _ _ h rfl

/-- the lexemes of a well-formed node list spell its flat tokens (in front of any continuation) -/
theorem spelling_tpl (pad : Bool) (ns : TNodes) :
    ∀ (atEnd : Bool) (kk : List Lexeme) (fl : List MFlat), okT atEnd ns = true →
      Spelling (lexToks kk) fl → Spelling (lexToks (tplLexP pad ns ++ kk)) (flatten ns ++ fl) := by
  induction ns using flatten.induct with
  | case1 => intro atEnd kk fl _ h; simpa only [tplLexP, flatten, List.nil_append] using h
  | case2 s r ih =>
    intro atEnd kk fl hok h
    simp only [okT, Bool.and_eq_true] at hok
    simp only [tplLexP, flatten, List.cons_append]
    exact Spelling.cons [⟨TT.special, s, 0, 0⟩] _ _ _ (TagSpelling.text s 0 0) (ih atEnd kk fl hok.2 h)
  | case3 n r ih =>
    intro atEnd kk fl hok h
    simp only [okT, Bool.and_eq_true] at hok
    simp only [tplLexP, flatten, List.cons_append, List.append_assoc, lexToks_append]
    exact Spelling.cons _ _ _ _ (spell_var pad n)
      (by rw [← lexToks_append]; exact ih atEnd kk fl hok.2 h)
  | case4 n r ih =>
    intro atEnd kk fl hok h
    simp only [okT, Bool.and_eq_true] at hok
    simp only [tplLexP, flatten, List.cons_append, List.append_assoc, lexToks_append]
    exact Spelling.cons _ _ _ _ (spell_esc pad n)
      (by rw [← lexToks_append]; exact ih atEnd kk fl hok.2 h)
  | case5 r ih =>
    intro atEnd kk fl hok h
    simp only [okT, Bool.and_eq_true] at hok
    simp only [tplLexP, flatten, List.cons_append, List.append_assoc, lexToks_append]
    exact Spelling.cons _ _ _ _ (spell_comment pad)
      (by rw [← lexToks_append]; exact ih atEnd kk fl hok.2 h)
  | case6 inv nm body cbn r ihb ihr =>
    intro atEnd kk fl hok h
    simp only [okT, Bool.and_eq_true] at hok
    obtain ⟨⟨⟨⟨⟨_, hkw⟩, _⟩, hb⟩, _⟩, hr⟩ := hok
    have hkw' : cbn = true → nm ≠ sIf ∧ nm ≠ sUnless := by
      intro hc
      subst hc
      simpa only [Bool.not_true, Bool.false_or, Bool.and_eq_true, bne_iff_ne, ne_eq] using hkw
    have hrest := ihr atEnd kk fl hr h
    have hclose : Spelling (lexToks (tagCloseL pad inv nm cbn ++ (tplLexP pad r ++ kk)))
        (⟨.sectionEnd, if cbn then nm else []⟩ :: (flatten r ++ fl)) := by
      rw [lexToks_append]
      exact Spelling.cons _ _ _ _ (spell_close pad inv nm cbn hkw') hrest
    have hbody := ihb false _ _ hb hclose
    simp only [tplLexP, flatten, List.cons_append, List.append_assoc]
    rw [lexToks_append]
    exact Spelling.cons _ _ _ _ (spell_open pad inv nm cbn) hbody

/-! ## 5. C10 at text level -/

/-- (a) **text → flat tokens**: the mustache tokenizer followed by the lexical analysis reads the
printed text of a well-formed template back as its flat token sequence — for the canonical
spelling and for the spelling with blanks inside the tags -/
theorem C10_text_lexical_pad (pad : Bool) (ns : TNodes) (h : okT true ns = true) :
    lexical (tokenize mustacheCfg mustacheOpts (printTplP pad ns)) = .ok (flatten ns) := by
  have hseg : MSeg true (tplLexP pad ns) := by
    have := mseg_tpl pad ns true [] h (MSeg.nil true) ⟨fun _ => rfl, fun h => by cases h⟩
    simpa only [List.append_nil] using this
  have hsp : Spelling (lexToks (tplLexP pad ns)) (flatten ns) := by
    have := spelling_tpl pad ns true [] [] h Spelling.nil
    simpa only [List.append_nil] using this
  rw [← lexText_tplLexP, lexical_tokenize_of_seg _ hseg]
  exact C10_lexical_spelling hsp

/-- the option-free, mode-alternating segmentation of the printed text is exactly its lexeme list:
text nodes as Special tokens, every tag as bracket / operator / name / blank lexemes -/
theorem C10_text_raw (pad : Bool) (ns : TNodes) (h : okT true ns = true) :
    mRawSpec (printTplP pad ns) = expectRaw 0 (tplLexP pad ns) := by
  have hseg : MSeg true (tplLexP pad ns) := by
    have := mseg_tpl pad ns true [] h (MSeg.nil true) ⟨fun _ => rfl, fun h => by cases h⟩
    simpa only [List.append_nil] using this
  rw [← lexText_tplLexP, mRawSpec_eq_from]
  exact mRawFrom_of_seg hseg _ 0 rfl

theorem C10_text_lexical (ns : TNodes) (h : PrintableTpl ns = true) :
    lexical (tokenize mustacheCfg mustacheOpts (printTpl ns)) = .ok (flatten ns) := by
  simp only [PrintableTpl, PrintableTplP, Bool.and_eq_true] at h
  exact C10_text_lexical_pad false ns h.1

/-- the printed text is empty only for the empty template -/
theorem printTplP_eq_nil (pad : Bool) (ns : TNodes) (atEnd : Bool) (hok : okT atEnd ns = true)
    (h : printTplP pad ns = []) : ns = .nil := by
  cases ns with
  | nil => rfl
  | cons n r =>
    exfalso
    by_cases ht : startsWithTag (.cons n r) = true
    · obtain ⟨r', hr'⟩ := printTplP_tag_start pad _ ht
      rw [hr'] at h; cases h
    · cases n with
      | text s =>
        simp only [okT, Bool.and_eq_true] at hok
        obtain ⟨hne, _⟩ := (textOK_iff s).mp hok.1.1
        simp only [printTplP, List.append_eq_nil_iff] at h
        exact hne h.1
      | var n => exact ht rfl
      | escaped n => exact ht rfl
      | comment => exact ht rfl
      | «section» inv n body cbn => exact ht rfl

theorem edgesOK_trim (s : List Rune) (h : edgesOK s = true) : trimStr s = s := by
  simp only [edgesOK, Bool.and_eq_true] at h
  apply trimStr_id
  · intro x hx
    have h1 := h.1
    rw [hx] at h1
    simpa using h1
  · intro x hx
    have h2 := h.2
    rw [hx] at h2
    simpa using h2

/-- (b) **parse ∘ print = id**, for both spellings -/
theorem C10_text_parse_pad (pad : Bool) (ns : TNodes) (h : PrintableTpl ns = true) :
    parseTemplate (printTplP pad ns) = .ok ⟨toMToks ns, lookupVars (flatten ns)⟩ := by
  rw [← PrintableTplP_eq pad ns] at h
  simp only [PrintableTplP, Bool.and_eq_true] at h
  obtain ⟨hok, hedge⟩ := h
  have hlex := C10_text_lexical_pad pad ns hok
  unfold parseTemplate
  simp only [edgesOK_trim _ hedge]
  cases hp : printTplP pad ns with
  | nil =>
    have := printTplP_eq_nil pad ns true hok hp
    subst this
    rfl
  | cons a t =>
    rw [hp] at hlex
    have hne : ns ≠ .nil := by
      intro e; subst e; simp only [printTplP] at hp; cases hp
    have hfl : flatten ns ≠ [] := by
      cases ns with
      | nil => exact absurd rfl hne
      | cons n r => cases n <;> simp [flatten]
    have htok : (tokenize mustacheCfg mustacheOpts (a :: t)).isEmpty = false := by
      cases htk : tokenize mustacheCfg mustacheOpts (a :: t) with
      | nil =>
        rw [htk] at hlex
        have : (Except.ok [] : Except MErr (List MFlat)) = .ok (flatten ns) := hlex
        exact absurd (Except.ok.inj this).symm hfl
      | cons x xs => rfl
    simp only [List.isEmpty_cons, htok, hlex, Bool.false_eq_true, if_false]
    cases hf : flatten ns with
    | nil => exact absurd hf hfl
    | cons x xs =>
      rw [← hf, C10_parse_complete ns]

theorem C10_text_parse (ns : TNodes) (h : PrintableTpl ns = true) :
    parseTemplate (printTpl ns) = .ok ⟨toMToks ns, lookupVars (flatten ns)⟩ :=
  C10_text_parse_pad false ns h

/-- (c) **rendering the printed text = the reference rendering**, for both spellings -/
theorem C10_text_render_pad (pad : Bool) (ns : TNodes) (vars : List (List Rune × List Rune))
    (h : PrintableTpl ns = true) :
    renderTemplate (printTplP pad ns) vars = .ok (refRender vars ns) := by
  unfold renderTemplate
  rw [C10_text_parse_pad pad ns h]
  exact C10_render_ref vars ns

theorem C10_text_render (ns : TNodes) (vars : List (List Rune × List Rune))
    (h : PrintableTpl ns = true) :
    renderTemplate (printTpl ns) vars = .ok (refRender vars ns) :=
  C10_text_render_pad false ns vars h

/-- (d) **blanks inside tags do not matter**: `{{ name }}`, `{{# name }}`, `{{/ name }}`,
`{{#if name }}`, `{{/if }}`, `{{! }}` … parse to the same tree and render to the same text as the
canonical spelling -/
theorem C10_text_pad_irrelevant (ns : TNodes) (vars : List (List Rune × List Rune))
    (h : PrintableTpl ns = true) :
    parseTemplate (printTplP true ns) = parseTemplate (printTpl ns) ∧
    renderTemplate (printTplP true ns) vars = renderTemplate (printTpl ns) vars := by
  rw [C10_text_parse_pad true ns h, C10_text_parse ns h, C10_text_render_pad true ns vars h,
    C10_text_render ns vars h]
  exact ⟨rfl, rfl⟩

/-! ## 6. non-vacuity -/

/-- `Hello {{name}}!{{#items}} [{{{x}}}]{{/items}}{{^none}}-{{/none}}` -/
def exTextTree : TNodes :=
  .cons (.text (strOf "Hello ")) (.cons (.var (strOf "name")) (.cons (.text (strOf "!"))
    (.cons (.section false (strOf "items")
        (.cons (.text (strOf " [")) (.cons (.escaped (strOf "x")) (.cons (.text (strOf "]")) .nil))) true)
      (.cons (.section true (strOf "none") (.cons (.text (strOf "-")) .nil) true) .nil))))

/-- the same tree with the sections closed by keyword: `{{#if items}}…{{/if}}`,
`{{#unless none}}…{{/unless}}`, and a comment -/
def exTextTreeKw : TNodes :=
  .cons (.text (strOf "Hello ")) (.cons (.var (strOf "name")) (.cons (.text (strOf "!"))
    (.cons (.section false (strOf "items")
        (.cons (.text (strOf " [")) (.cons (.escaped (strOf "x")) (.cons (.text (strOf "]")) .nil))) false)
      (.cons .comment
        (.cons (.section true (strOf "none") (.cons (.text (strOf "-")) .nil) false) .nil)))))

theorem exTextTree_printable : PrintableTpl exTextTree = true := by decide
theorem exTextTreeKw_printable : PrintableTpl exTextTreeKw = true := by decide

theorem exTextTree_print : printTpl exTextTree =
    strOf "Hello {{name}}!{{#items}} [{{{x}}}]{{/items}}{{^none}}-{{/none}}" := by decide

theorem exTextTree_print_pad : printTplP true exTextTree =
    strOf "Hello {{ name }}!{{# items }} [{{{ x }}}]{{/ items }}{{^ none }}-{{/ none }}" := by decide

theorem exTextTreeKw_print : printTpl exTextTreeKw =
    strOf "Hello {{name}}!{{#if items}} [{{{x}}}]{{/if}}{{!}}{{#unless none}}-{{/unless}}" := by decide

theorem exTextTreeKw_print_pad : printTplP true exTextTreeKw =
    strOf "Hello {{ name }}!{{#if items }} [{{{ x }}}]{{/if }}{{! }}{{#unless none }}-{{/unless }}" := by
  decide

/-- `name = "World"`, `items = "1"`, `x = "a/b"`, `none = ""` -/
def exTextVars : List (List Rune × List Rune) :=
  [(strOf "name", strOf "World"), (strOf "items", strOf "1"), (strOf "x", strOf "a/b"), (strOf "none", [])]

theorem exTextTree_ref : refRender exTextVars exTextTree = strOf "Hello World! [a\\/b]-" := by decide
theorem exTextTreeKw_ref : refRender exTextVars exTextTreeKw = strOf "Hello World! [a\\/b]-" := by decide

/-- the theorems applied: the source text of the example renders to `Hello World! [a\/b]-` … -/
theorem exText_render :
    renderTemplate (strOf "Hello {{name}}!{{#items}} [{{{x}}}]{{/items}}{{^none}}-{{/none}}") exTextVars
      = .ok (strOf "Hello World! [a\\/b]-") := by
  rw [← exTextTree_print, ← exTextTree_ref]
  exact C10_text_render exTextTree exTextVars exTextTree_printable

/-- … and so do its spellings with blanks inside the tags and with keyword sections -/
theorem exText_render_pad :
    renderTemplate (strOf "Hello {{ name }}!{{# items }} [{{{ x }}}]{{/ items }}{{^ none }}-{{/ none }}")
      exTextVars = .ok (strOf "Hello World! [a\\/b]-") := by
  rw [← exTextTree_print_pad, ← exTextTree_ref]
  exact C10_text_render_pad true exTextTree exTextVars exTextTree_printable

theorem exTextKw_render :
    renderTemplate (strOf "Hello {{name}}!{{#if items}} [{{{x}}}]{{/if}}{{!}}{{#unless none}}-{{/unless}}")
      exTextVars = .ok (strOf "Hello World! [a\\/b]-") := by
  rw [← exTextTreeKw_print, ← exTextTreeKw_ref]
  exact C10_text_render exTextTreeKw exTextVars exTextTreeKw_printable

/-- `r` is the successful result `v` / the error `e` (`Except` has no decidable equality) -/
def resIsOk (v : List Rune) : Except MErr (List Rune) → Bool
  | .error _ => false
  | .ok v' => v == v'

def resIsErr (e : MErr) : Except MErr (List Rune) → Bool
  | .error e' => e == e'
  | .ok _ => false

/-- cross-check, independent of the theorems above: the kernel runs the model (trimming,
tokenizer, lexical analysis, section parser, renderer) on the source text -/
example : resIsOk (strOf "Hello World! [a\\/b]-")
    (renderTemplate (strOf "Hello {{name}}!{{#items}} [{{{x}}}]{{/items}}{{^none}}-{{/none}}") exTextVars)
      = true := by decide +kernel

/-- … also untrimmed, with blanks inside tags and keyword sections mixed -/
example : resIsOk (strOf "Hello World! [a\\/b]-")
    (renderTemplate
      (strOf "  Hello {{ name }}!{{#if items }} [{{{ x }}}]{{/if}}{{! }}{{#unless none}}-{{/unless}}\n")
      exTextVars) = true := by decide +kernel

/-! the side conditions of `okT` are needed -/

/-- a text that starts with `}` directly after `}}`: the tokenizer reads `}}}` (`noBrace`) -/
example : resIsErr .mismatchedBrackets (renderTemplate (strOf "{{x}}}") []) = true := by decide +kernel

/-- a text that ends with `{` directly in front of `{{`: the text ends one rune earlier and the
tag opens with `{{{` (`followText`) -/
example : resIsErr .mismatchedBrackets (renderTemplate (strOf "a{{{x}}") []) = true := by decide +kernel

/-- `{{/if}}` is the anonymous end tag (flat token `⟨sectionEnd, []⟩`), whatever the section is
called: this is why a section closed BY NAME must not be called `if` / `unless` in `okT` -/
example : resIsOk (strOf "1") (renderTemplate (strOf "{{#x}}1{{/if}}") [(strOf "x", strOf "y")]) = true := by
  decide +kernel

/-- a leading blank of the source is trimmed away by `ParseString` (`edgesOK`) -/
example : resIsOk (strOf "a") (renderTemplate (strOf " a") []) = true := by decide +kernel

/-- observation (faithful to the Go code, which compares only the token VALUE in comment state):
a quoted `"}}"` inside a comment ends the comment — string decoding strips the quotes and the
lexical analysis then sees a Quoted token in state Closure -/
example : resIsErr .unexpectedSymbol (renderTemplate (strOf "a{{! \"}}\" }}b") []) = true := by
  decide +kernel

example : resIsOk (strOf "ab") (renderTemplate (strOf "a{{! \"x\" }}b") []) = true := by decide +kernel

end Verif
