import Verif.Model.Scanner
import Verif.Model.CharMap
import Verif.Model.States
import Verif.Model.Tokenizer
import Verif.Props.C11
import Verif.Props.C17
