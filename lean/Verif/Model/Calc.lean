/-
Instantiation of the evaluator model (Model/ExprEval.lean) with the variant operations, the
default function collection and a variable collection: the model of
ExpressionCalculator.EvaluateUsingVariablesAndFunctions for concrete values, of
ExpressionParser.completeLexicalAnalysis and of VariableCollection.
-/
import Verif.Model.ExprEval
import Verif.Model.Funcs

namespace Verif

def R.toOut : R → Out V
  | .ok v => .ok v
  | .err c => .err c
  | .panic s => .panic s

/-- evaluator token type → variant operation -/
def etOp : ET → Option Op
  | .and => some .and | .or => some .or | .xor => some .xor
  | .plus => some .add | .minus => some .sub | .star => some .mul | .slash => some .div
  | .procent => some .mod | .power => some .pow | .shiftLeft => some .lsh | .shiftRight => some .rsh
  | .equal => some .equal | .notEqual => some .notEqual | .more => some .more | .less => some .less
  | .equalMore => some .moreEqual | .equalLess => some .lessEqual
  | _ => none

/-- VariableCollection.FindByName: case-insensitive, first added wins -/
def findVar (vars : List (List Rune × V)) (name : List Rune) : Option V :=
  (vars.find? (fun e => upperStr e.1 == upperStr name)).map (·.2)

/-- the concrete evaluation environment; `dec` decodes a constant payload -/
def calcEnv (m : Mgr) (dec : String → V) (vars : List (List Rune × V)) : EvalEnv String V :=
  { ofConst := dec
    ofArgc := fun n => .int (Int64.ofNat n)
    asArgc := fun v => match v with
      | .int i => if i.toInt < 0 then some 0 else some i.toInt.toNat
      | _ => none
    lookupVar := findVar vars
    hasFn := fun n => (findFn n).isSome
    callFn := fun n args => (callFn m n args).toOut
    binop := fun t a b =>
      match t with
      | .in_ => (binop m .in_ b a).toOut
      | .notIn =>
        match binop m .in_ b a with
        | .ok (.bool r) => .ok (.bool (!r))
        | r => r.toOut
      | .element => (binop m .getElement a b).toOut
      | t =>
        match etOp t with
        | some op => (binop m op a b).toOut
        | none => .err "INTERNAL"
    unop := fun t a =>
      match t with
      | .not => (unop .not a).toOut
      | .unary => (unop .neg a).toOut
      | .isNull => .ok (.bool (a.typ == .null))
      | .isNotNull => .ok (.bool (a.typ != .null))
      | _ => .err "INTERNAL" }

/-- the same environment for any constant payload type (the text pipeline carries values) -/
def calcEnvK {κ : Type} (m : Mgr) (dec : κ → V) (vars : List (List Rune × V)) : EvalEnv κ V :=
  { ofConst := dec
    ofArgc := fun n => .int (Int64.ofNat n)
    asArgc := fun v => match v with
      | .int i => if i.toInt < 0 then some 0 else some i.toInt.toNat
      | _ => none
    lookupVar := findVar vars
    hasFn := fun n => (findFn n).isSome
    callFn := fun n args => (callFn m n args).toOut
    binop := fun t a b =>
      match t with
      | .in_ => (binop m .in_ b a).toOut
      | .notIn =>
        match binop m .in_ b a with
        | .ok (.bool r) => .ok (.bool (!r))
        | r => r.toOut
      | .element => (binop m .getElement a b).toOut
      | t =>
        match etOp t with
        | some op => (binop m op a b).toOut
        | none => .err "INTERNAL"
    unop := fun t a =>
      match t with
      | .not => (unop .not a).toOut
      | .unary => (unop .neg a).toOut
      | .isNull => .ok (.bool (a.typ == .null))
      | .isNotNull => .ok (.bool (a.typ != .null))
      | _ => .err "INTERNAL" }

theorem calcEnv_eq_calcEnvK (m : Mgr) (dec : String → V) (vars : List (List Rune × V)) :
    calcEnv m dec vars = calcEnvK m dec vars := rfl

/-! ### ordered collections (VariableCollection / FunctionCollection) against plain lists -/

structure Coll (α : Type) where
  items : List (List Rune × α)

namespace Coll
variable {α : Type}

def add (c : Coll α) (n : List Rune) (v : α) : Coll α := ⟨c.items ++ [(n, v)]⟩
def findIndex (c : Coll α) (n : List Rune) : Option Nat :=
  let i := c.items.findIdx (fun e => upperStr e.1 == upperStr n)
  if i < c.items.length then some i else none
def find (c : Coll α) (n : List Rune) : Option α :=
  (c.items.find? (fun e => upperStr e.1 == upperStr n)).map (·.2)
/-- `Locate`: find or append an entry with the default value -/
def locate (c : Coll α) (n : List Rune) (dflt : α) : Coll α :=
  if (c.find n).isSome then c else c.add n dflt
def removeAt (c : Coll α) (i : Nat) : Coll α := ⟨c.items.eraseIdx i⟩
def removeByName (c : Coll α) (n : List Rune) : Coll α :=
  match c.findIndex n with
  | some i => c.removeAt i
  | none => c
def clear (_ : Coll α) : Coll α := ⟨[]⟩
def clearValues (c : Coll α) (dflt : α) : Coll α := ⟨c.items.map fun e => (e.1, dflt)⟩

/-- `ExpressionCalculator.CreateVariables`: one entry per name, compared case-insensitively,
existing entries kept -/
def createVariables (c : Coll α) (names : List (List Rune)) (dflt : α) : Coll α :=
  names.foldl (fun c n => c.locate n dflt) c

end Coll
end Verif
