/-
C07 — conversions: a successful conversion has exactly the requested type (the unchanged value
for Object or the value's own type), widening conversions round-trip, and the type-safe manager
permits only the numeric widenings, rejects everything else, and agrees with the type-unsafe
manager wherever it succeeds.

Float legs are stated as "the host operation applied to the operand" (opaque to the kernel).
-/
import Verif.Model.Value
import Verif.Lemmas.ValueLemmas
import Verif.Lemmas.FloatCmpLemmas
namespace Verif

/-! ## 1. identity and Null -/

theorem C07_convert_null (m : Mgr) (v : V) (hh : isHostV v = false) :
    convert m v .null = .ok .null := by
  rw [convert_of_not_host m _ hh]; cases m <;> rfl

theorem C07_convert_id (m : Mgr) (v : V) (t : VT) (hh : isHostV v = false)
    (h : t = v.typ ∨ t = .object) (hn : t ≠ .null) : convert m v t = .ok v := by
  have h' : (t == v.typ || t == VT.object) = true := by simpa using h
  have hn' : (t == VT.null) = false := by simpa using hn
  rw [convert_of_not_host m _ hh]
  cases m <;> simp only [convertUnsafe, convertSafe, h', hn'] <;> rfl

/-- a host-dependent source stays host-dependent, whatever type is requested (Null included) -/
theorem C07_convert_host (m : Mgr) (tag : String) (args : List V) (t : VT) :
    convert m (.host tag args) t = .ok (.host "convert" [.host tag args]) := rfl

/-- the two managers themselves (below `convert`) need no side condition -/
theorem C07_convert_null_mgr (v : V) :
    convertUnsafe v .null = .ok .null ∧ convertSafe v .null = .ok .null := ⟨rfl, rfl⟩

theorem C07_convert_id_mgr (v : V) (t : VT)
    (h : t = v.typ ∨ t = .object) (hn : t ≠ .null) :
    convertUnsafe v t = .ok v ∧ convertSafe v t = .ok v := by
  have h' : (t == v.typ || t == VT.object) = true := by simpa using h
  have hn' : (t == VT.null) = false := by simpa using hn
  constructor <;> simp only [convertUnsafe, convertSafe, h', hn'] <;> rfl

/-! ## 2. a successful conversion has exactly the requested type -/

theorem convertUnsafe_type (v : V) (t : VT) (r : V)
    (h : convertUnsafe v t = .ok r) (hh : ∀ tag args, r ≠ .host tag args) (ho : t ≠ .object) :
    r.typ = t := by
  unfold convertUnsafe at h
  split at h
  · rename_i ht; injection h with h; subst h; simp at ht; subst ht; rfl
  split at h
  · rename_i ht
    injection h with h; subst h
    simp [ho] at ht; exact ht.symm
  split at h
  · rename_i ht
    simp at ht; subst ht
    split at h
    · injection h with h; subst h; rfl
    · injection h with h; subst h; exact absurd rfl (hh _ _)
  split at h
  all_goals first
    | (injection h with h; subst h; first | rfl | exact absurd rfl (hh _ _))
    | (split at h <;> injection h with h <;> subst h <;> first | rfl | exact absurd rfl (hh _ _))
    | (simp [convErr] at h; done)

theorem convertSafe_type (v : V) (t : VT) (r : V)
    (h : convertSafe v t = .ok r) (ho : t ≠ .object) : r.typ = t := by
  unfold convertSafe at h
  split at h
  · rename_i ht; injection h with h; subst h; simp at ht; subst ht; rfl
  split at h
  · rename_i ht
    injection h with h; subst h
    simp [ho] at ht; exact ht.symm
  split at h
  all_goals first
    | (injection h with h; subst h; rfl)
    | (simp [convErr] at h; done)

/-- no extra hypothesis is needed: for a host-dependent source the result is host-dependent,
which `hh` excludes -/
theorem C07_convert_type (m : Mgr) (v : V) (t : VT) (r : V)
    (h : convert m v t = .ok r) (hh : ∀ tag args, r ≠ .host tag args) (ho : t ≠ .object) :
    r.typ = t := by
  unfold convert at h
  split at h
  · injection h with h; exact absurd h.symm (hh _ _)
  · cases m
    · exact convertUnsafe_type v t r h hh ho
    · exact convertSafe_type v t r h ho

/-! ## 3. the type-safe manager -/

theorem C07_safe_whitelist (v : V) (t : VT) (r : V) (h : convertSafe v t = .ok r) :
    t = .null ∨ t = v.typ ∨ t = .object ∨
    (v.typ, t) ∈ [(VT.integer, VT.long), (.integer, .float), (.integer, .double),
                  (.long, .float), (.long, .double), (.float, .double)] := by
  unfold convertSafe at h
  split at h
  · rename_i ht; simp at ht; exact .inl ht
  split at h
  · rename_i ht; simp at ht
    rcases ht with ht | ht
    · exact .inr (.inl ht)
    · exact .inr (.inr (.inl ht))
  split at h
  all_goals first
    | (simp [convErr] at h; done)
    | (right; right; right; simp [V.typ])

theorem C07_safe_agrees (v : V) (t : VT) (r : V) (h : convertSafe v t = .ok r) :
    convertUnsafe v t = .ok r := by
  unfold convertSafe at h
  unfold convertUnsafe
  split at h
  · rename_i ht; simp only [ht, if_true]; exact h
  rename_i ht
  simp only [ht]
  split at h
  · rename_i ht2; simp only [ht2, if_true]; exact h
  rename_i ht2
  simp only [ht2]
  split at h
  all_goals first
    | (simp [convErr] at h; done)
    | exact h

/-- the same through `convert` (host-dependent sources included: both managers return the same
host-dependent value) -/
theorem C07_safe_agrees_convert (v : V) (t : VT) (r : V) (h : convert .safe v t = .ok r) :
    convert .unsafe_ v t = .ok r := by
  unfold convert at h ⊢
  split
  · rename_i hv; simp only [hv, if_true] at h; exact h
  · rename_i hv; simp only [hv] at h; exact C07_safe_agrees v t r h

/-- the safe manager accepts every pair in the whitelist (it is not vacuous) -/
theorem C07_safe_widenings (i : Int64) (f : Float32) :
    convertSafe (.int i) .long = .ok (.long i) ∧
    convertSafe (.int i) .float = .ok (.float (i64ToF32 i)) ∧
    convertSafe (.int i) .double = .ok (.double (i64ToF64 i)) ∧
    convertSafe (.long i) .float = .ok (.float (i64ToF32 i)) ∧
    convertSafe (.long i) .double = .ok (.double (i64ToF64 i)) ∧
    convertSafe (.float f) .double = .ok (.double f.toFloat) :=
  ⟨rfl, rfl, rfl, rfl, rfl, rfl⟩

/-- everything else is an error of the safe manager -/
theorem C07_safe_rejects (v : V) (t : VT)
    (h1 : t ≠ .null) (h2 : t ≠ v.typ) (h3 : t ≠ .object)
    (h4 : (v.typ, t) ∉ [(VT.integer, VT.long), (.integer, .float), (.integer, .double),
                  (.long, .float), (.long, .double), (.float, .double)]) :
    convertSafe v t = convErr := by
  have h1' : (t == VT.null) = false := by simpa using h1
  have h23 : (t == v.typ || t == VT.object) = false := by simp [h2, h3]
  unfold convertSafe
  simp only [h1', h23]
  cases v <;> cases t <;> simp [V.typ] at h4 ⊢

/-! ## 4. round trips through the type-unsafe manager -/

/-- convert there, convert back -/
def roundTrip (v : V) (via back : VT) : R :=
  (convertUnsafe v via).bind fun w => convertUnsafe w back

theorem C07_int_long_int (x : Int64) : roundTrip (.int x) .long .integer = .ok (.int x) := rfl
theorem C07_long_int_long (x : Int64) : roundTrip (.long x) .integer .long = .ok (.long x) := rfl

theorem C07_bool_int_bool (b : Bool) : roundTrip (.bool b) .integer .boolean = .ok (.bool b) := by
  cases b <;> rfl
theorem C07_bool_long_bool (b : Bool) : roundTrip (.bool b) .long .boolean = .ok (.bool b) := by
  cases b <;> rfl
theorem C07_bool_str_bool (b : Bool) : roundTrip (.bool b) .string .boolean = .ok (.bool b) := by
  cases b <;> rfl

/-- `Time.Unix()` undoes the wrap-around of `time.Unix` on the stored seconds, so the round trip is the identity
on the whole 64-bit range, including the values whose stored seconds overflow -/
theorem ofInt_unixSec (x : Int64) : Int64.ofInt (unixSec x) = x := by
  unfold unixSec
  rw [Int64.ofInt_sub, Int64.ofInt_toInt, Int64.ofInt_add, Int64.ofInt_toInt, Int64.add_sub_cancel]

/-- below the wrap-around point the stored value is the argument itself -/
theorem unixSec_eq (x : Int64) (h : x.toInt ≤ 9223372036854775807 - 62135596800) : unixSec x = x.toInt := by
  unfold unixSec
  have h0 := x.le_toInt
  rw [Int64.toInt_ofInt_of_le (by omega) (by omega)]; omega

theorem C07_int_datetime_int (x : Int64) : roundTrip (.int x) .dateTime .integer = .ok (.int x) := by
  simp [roundTrip, convertUnsafe, V.typ, R.bind, ofInt_unixSec]
theorem C07_long_datetime_long (x : Int64) : roundTrip (.long x) .dateTime .long = .ok (.long x) := by
  simp [roundTrip, convertUnsafe, V.typ, R.bind, ofInt_unixSec]

theorem C07_int_timespan_int (x : Int64)
    (h0 : -9223372036854 ≤ x.toInt) (h1 : x.toInt ≤ 9223372036854) :
    roundTrip (.int x) .timeSpan .integer = .ok (.int x) := by
  show R.ok (.int (nsToMs (x * 1000000))) = _
  rw [nsToMs, Int64.mul_div_million x h0 h1]
theorem C07_long_timespan_long (x : Int64)
    (h0 : -9223372036854 ≤ x.toInt) (h1 : x.toInt ≤ 9223372036854) :
    roundTrip (.long x) .timeSpan .long = .ok (.long x) := by
  show R.ok (.long (nsToMs (x * 1000000))) = _
  rw [nsToMs, Int64.mul_div_million x h0 h1]

theorem parseDecInt_showInt_toInt (x : Int64) : parseDecInt (showInt x.toInt) = some x := by
  have h0 := x.le_toInt
  have h1 := x.toInt_lt
  rw [parseDecInt_showInt _ (by omega) (by omega), Int64.ofInt_toInt]

theorem C07_int_str (x : Int64) : convertUnsafe (.int x) .string = .ok (.str (showInt x.toInt)) := rfl
theorem C07_long_str (x : Int64) : convertUnsafe (.long x) .string = .ok (.str (showInt x.toInt)) := rfl

theorem C07_int_str_int (x : Int64) : roundTrip (.int x) .string .integer = .ok (.int x) := by
  show (convertUnsafe (.str (showInt x.toInt)) .integer) = _
  simp [convertUnsafe, V.typ, parseDecInt_showInt_toInt]

theorem C07_long_str_long (x : Int64) : roundTrip (.long x) .string .long = .ok (.long x) := by
  show (convertUnsafe (.str (showInt x.toInt)) .long) = _
  simp [convertUnsafe, V.typ, parseDecInt_showInt_toInt]

/-- the float legs: the result is the host operation applied to the operand.  `!= 0` is the
bit-level IEEE test `fNonZero` / `fNonZero32` on `toBits`; the bit pattern of the host constants
`1` / `0` (and `toBits ∘ ofBits`) is opaque to the kernel, so "1.0 ≠ 0" and
"float32(float64(f)) = f" are NOT proved here -/
theorem C07_float_legs_host (b : Bool) (f : Float32) (x : Int64) :
    roundTrip (.bool b) .float .boolean = .ok (.bool (fNonZero32 (if b then (1 : Float32) else 0))) ∧
    roundTrip (.bool b) .double .boolean = .ok (.bool (fNonZero (if b then (1 : Float) else 0))) ∧
    roundTrip (.float f) .double .float = .ok (.float f.toFloat.toFloat32) ∧
    roundTrip (.int x) .float .integer = .ok (.int (f64ToI64 (i64ToF32 x).toFloat)) ∧
    roundTrip (.int x) .double .integer = .ok (.int (f64ToI64 (i64ToF64 x))) ∧
    roundTrip (.long x) .float .long = .ok (.long (f64ToI64 (i64ToF32 x).toFloat)) ∧
    roundTrip (.long x) .double .long = .ok (.long (f64ToI64 (i64ToF64 x))) :=
  ⟨rfl, rfl, rfl, rfl, rfl, rfl, rfl⟩

/-- Float → Integer / Long: NaN and everything outside `[-2^63, 2^63)` (the infinities included)
gives Go's "integer indefinite" value `MinInt64`; the test is the bit-level IEEE comparison -/
theorem C07_f64ToI64_out_of_range (x : Float)
    (h : fIsNaN x = true ∨ f64Le 0x43e0000000000000 x.toBits = true ∨
      f64Lt x.toBits 0xc3e0000000000000 = true) : f64ToI64 x = minI64 := by
  unfold f64ToI64
  rcases h with h | h | h <;> simp [h]

theorem C07_f64ToI64_in_range (x : Float)
    (h1 : fIsNaN x = false) (h2 : f64Le 0x43e0000000000000 x.toBits = false)
    (h3 : f64Lt x.toBits 0xc3e0000000000000 = false) : f64ToI64 x = x.toInt64 := by
  simp [f64ToI64, h1, h2, h3]

/-- Float / Double → Boolean is "not equal to zero" on the bit pattern: both zeros are false,
NaN is true -/
theorem C07_float_to_boolean (f : Float32) (d : Float) :
    convertUnsafe (.float f) .boolean = .ok (.bool (!f32Eq f.toBits 0)) ∧
    convertUnsafe (.double d) .boolean = .ok (.bool (!f64Eq d.toBits 0)) ∧
    (fIsNaN32 f = true → convertUnsafe (.float f) .boolean = .ok (.bool true)) ∧
    (fIsNaN d = true → convertUnsafe (.double d) .boolean = .ok (.bool true)) := by
  refine ⟨rfl, rfl, fun h => ?_, fun h => ?_⟩
  · show R.ok (.bool (!f32Eq f.toBits 0)) = _
    rw [(f32NaN_unordered f.toBits 0 h).2.2.1]; rfl
  · show R.ok (.bool (!f64Eq d.toBits 0)) = _
    rw [(f64NaN_unordered d.toBits 0 h).2.2.1]; rfl

example : (!f64Eq 0x8000000000000000 0) = false := by decide   -- -0.0 → false
example : (!f64Eq 0x3ff0000000000000 0) = true := by decide    -- 1.0 → true
example : (!f32Eq 0x80000000 0) = false := by decide
example : (!f32Eq 0x00000001 0) = true := by decide            -- smallest subnormal → true
example : f64Le 0x43e0000000000000 0x7ff0000000000000 = true := by decide   -- +∞ is out of range
example : f64Lt 0xfff0000000000000 0xc3e0000000000000 = true := by decide   -- -∞ is out of range
example : f64Lt 0xc3e0000000000000 0xc3e0000000000000 = false := by decide  -- -2^63 is in range

/-! ## 5. non-vacuity -/

example : roundTrip (.int (-42)) .string .integer = .ok (.int (-42)) := C07_int_str_int _
example : convertUnsafe (.int (-42)) .string = .ok (.str (strOfS "-42")) := by rfl
example : convertUnsafe (.str (strOfS "+17")) .long = .ok (.long 17) := by rfl
example : convertUnsafe (.str (strOfS "yes")) .boolean = .ok (.bool true) := by rfl
example : convertSafe (.str (strOfS "17")) .long = .err "CONV_NOT_SUPPORTED" := by rfl
example : convertSafe (.int 17) .long = .ok (.long 17) := by rfl
example : convertUnsafe (.timeSpan 2500000) .integer = .ok (.int 2) := by rfl
example : (9223372036855 : Int64) * 1000000 / 1000000 ≠ 9223372036855 := by decide

end Verif
