/-
C05: tokenizer instances (Props/C05.lean) and the long-lived objects built on them (Props/C05Obj.lean).
-/
import Verif.Props.C05
import Verif.Props.C05Obj
