/-
Number states as pure functions of the remaining input: the generic number state returns the
text of `parseNum input` (`[-] digits [. digits]`), the expression number state adds the
exponent part.  Plus the list lemma `parseNum_text`: a well-formed number followed by a
boundary parses back to itself.
-/
import Verif.Lemmas.LexStep

namespace Verif
open Scanner

/-! ### finished states and the remaining input -/

/-- what is left after a finished state = the input minus the token value -/
theorem SegOK.drop_eq {c : List Rune} {p0 : Nat} {v : List Rune} {s' : Scanner}
    (h : SegOK c p0 v s') (hp : p0 ≤ c.length) :
    s'.content.drop s'.pos = (c.drop p0).drop v.length := by
  have hlen := congrArg List.length h.seg
  rw [slice_length] at hlen
  have hw := h.wf.1
  rw [h.content] at hw ⊢
  have hm := h.mono
  rw [List.drop_drop]
  by_cases hle : s'.pos ≤ c.length
  · have : p0 + v.length = s'.pos := by omega
    rw [this]
  · rw [List.drop_eq_nil_of_le (by omega), List.drop_eq_nil_of_le (by omega)]

theorem SegOK.peek_eq {c : List Rune} {p0 : Nat} {v : List Rune} {s' : Scanner}
    (h : SegOK c p0 v s') (hp : p0 ≤ c.length) :
    s'.peek = ((c.drop p0).drop v.length).head? := by
  rw [peek_drop, h.drop_eq hp]

/-! ### the fields of `parseNum` -/

theorem parseNum_sign (l : List Rune) :
    (parseNum l).sign = if l.head? == some 45 then [45] else [] := rfl

theorem parseNum_ip (l : List Rune) :
    (parseNum l).ip = (l.drop (parseNum l).sign.length).takeWhile isDigit := rfl

theorem parseNum_dot (l : List Rune) :
    (parseNum l).dot =
      (((l.drop (parseNum l).sign.length).drop (parseNum l).ip.length).head? == some 46) := rfl

theorem parseNum_fp (l : List Rune) :
    (parseNum l).fp = if (parseNum l).dot then
      ((((l.drop (parseNum l).sign.length).drop (parseNum l).ip.length).drop 1).takeWhile isDigit)
      else [] := rfl

/-! ### the stages of the generic number state -/

theorem nsA_acc (s : Scanner) :
    (nsA s).acc = if (s.content.drop s.pos).head? == some 45 then [45] else [] := by
  unfold nsA
  rw [read_fst, List.head?_drop]
  split <;> rfl

theorem nsB_acc (f : Nat) (s : Scanner) (hw : s.WF) (hp : s.pos ≤ s.content.length)
    (hf : s.content.length + 1 ≤ f + s.pos) :
    (nsB f s).acc = (nsA s).acc ++
      ((s.content.drop s.pos).drop (nsA s).acc.length).takeWhile isDigit := by
  have h := nsA_inv s hw hp
  unfold nsB
  exact readWhile_acc isDigit f _ _ _ h (by rw [h.pos_eq]; omega)

theorem nsB_nx (f : Nat) (s : Scanner) (hw : s.WF) (hp : s.pos ≤ s.content.length) :
    (nsB f s).nx = ((s.content.drop s.pos).drop (nsB f s).acc.length).head? :=
  (nsB_inv f s hw hp).nx_eq

theorem nsC_acc (f : Nat) (s : Scanner) :
    (nsC f s).acc = if (nsB f s).nx == some 46 then (nsB f s).acc ++ [46] else (nsB f s).acc := by
  unfold nsC
  split <;> rfl

theorem nsD_acc (f : Nat) (s : Scanner) (hw : s.WF) (hp : s.pos ≤ s.content.length)
    (hf : s.content.length + 1 ≤ f + s.pos) :
    (nsD f s).acc = if (nsB f s).nx == some 46 then
        (nsC f s).acc ++ ((s.content.drop s.pos).drop (nsC f s).acc.length).takeWhile isDigit
      else (nsC f s).acc := by
  have h := nsC_inv f s hw hp
  unfold nsD
  split
  · exact readWhile_acc isDigit f _ _ _ h (by rw [h.pos_eq]; omega)
  · rfl

/-- the four accumulators in terms of `parseNum` of the remaining input -/
theorem ns_parse (f : Nat) (s : Scanner) (hw : s.WF) (hp : s.pos ≤ s.content.length)
    (hf : s.content.length + 1 ≤ f + s.pos) :
    let n := parseNum (s.content.drop s.pos)
    (nsA s).acc = n.sign ∧ (nsB f s).acc = n.sign ++ n.ip ∧
    ((nsB f s).nx == some 46) = n.dot ∧
    (nsC f s).acc = n.sign ++ n.ip ++ (if n.dot then [46] else []) ∧
    (nsD f s).acc = n.text := by
  intro n
  have hA : (nsA s).acc = n.sign := nsA_acc s
  have hB : (nsB f s).acc = n.sign ++ n.ip := by
    rw [nsB_acc f s hw hp hf, hA]; rfl
  have hdot : ((nsB f s).nx == some 46) = n.dot := by
    rw [nsB_nx f s hw hp, hB, List.length_append, ← List.drop_drop]; rfl
  have hC : (nsC f s).acc = n.sign ++ n.ip ++ (if n.dot then [46] else []) := by
    rw [nsC_acc, hdot, hB]
    cases n.dot <;> simp
  refine ⟨hA, hB, hdot, hC, ?_⟩
  rw [nsD_acc f s hw hp hf, hdot, hC]
  unfold NumShape.text
  cases hd : n.dot with
  | false => simp
  | true =>
    have hfp : n.fp = ((((s.content.drop s.pos).drop n.sign.length).drop n.ip.length).drop 1).takeWhile
        isDigit := by
      have := parseNum_fp (s.content.drop s.pos)
      rw [show (parseNum (s.content.drop s.pos)).dot = true from hd] at this
      exact this
    have e : (s.content.drop s.pos).drop (n.sign ++ n.ip ++ [46]).length
        = (((s.content.drop s.pos).drop n.sign.length).drop n.ip.length).drop 1 := by
      simp only [List.drop_drop, List.length_append, List.length_singleton, Nat.add_assoc]
    simp only [if_true]
    rw [e, ← hfp]
    simp

theorem nsGot_parse (f : Nat) (s : Scanner) (hw : s.WF) (hp : s.pos ≤ s.content.length)
    (hf : s.content.length + 1 ≤ f + s.pos) :
    nsGot f s = (!(parseNum (s.content.drop s.pos)).ip.isEmpty ||
      !(parseNum (s.content.drop s.pos)).fp.isEmpty) := by
  obtain ⟨hA, hB, hdot, hC, hD⟩ := ns_parse f s hw hp hf
  have hfp0 : (parseNum (s.content.drop s.pos)).dot = false →
      (parseNum (s.content.drop s.pos)).fp = [] := by
    intro h
    rw [parseNum_fp, h]; rfl
  unfold nsGot
  rw [hA, hB, hC, hD]
  unfold NumShape.text
  generalize parseNum (s.content.drop s.pos) = n at hfp0 ⊢
  obtain ⟨sign, ip, dot, fp⟩ := n
  cases dot with
  | false =>
    have := hfp0 rfl
    simp only at this
    subst this
    cases ip <;> simp
  | true => cases ip <;> cases fp <;> simp

/-- **the generic number state**: on a remaining input whose `parseNum` has a digit, the token
is the parsed number text, typed Float iff a `.` was absorbed -/
theorem numberState_parse (sym : Scanner → Tok × Scanner) (f : Nat) (s : Scanner) (hw : s.WF)
    (hp : s.pos ≤ s.content.length) (hf : s.content.length + 1 ≤ f + s.pos)
    (hgot : (!(parseNum (s.content.drop s.pos)).ip.isEmpty ||
      !(parseNum (s.content.drop s.pos)).fp.isEmpty) = true) :
    (numberState sym f s).1.value = (parseNum (s.content.drop s.pos)).text ∧
    (numberState sym f s).1.typ = (parseNum (s.content.drop s.pos)).typ ∧
    SegOK s.content s.pos (numberState sym f s).1.value (numberState sym f s).2 := by
  obtain ⟨_, _, hdot, _, hD⟩ := ns_parse f s hw hp hf
  have hg := nsGot_parse f s hw hp hf
  rw [hgot] at hg
  rw [numberState_eq]
  simp only [hg, Bool.not_true, Bool.false_eq_true, if_false]
  refine ⟨hD, ?_, (nsD_inv f s hw hp).finish⟩
  unfold NumShape.typ
  rw [← hdot]

/-! ### a written number parses back to itself -/

theorem allDigits_iff (l : List Rune) : allDigits l = true ↔ ∀ x ∈ l, isDigit x = true := by
  simp [allDigits]

theorem headIs_false_iff (p : Rune → Bool) (nx : Option Rune) :
    headIs p nx = false ↔ ∀ x, nx = some x → p x = false := by
  cases nx with
  | none => simp [headIs]
  | some c => simp [headIs]

theorem parseNum_text (n : NumShape) (rest : List Rune) (hok : n.ok = true)
    (hb : n.boundary rest.head? = true) : parseNum (n.text ++ rest) = n := by
  obtain ⟨sign, ip, dot, fp⟩ := n
  simp only [NumShape.ok, Bool.and_eq_true, Bool.or_eq_true, beq_iff_eq, Bool.not_eq_true',
    allDigits_iff] at hok
  obtain ⟨⟨⟨⟨hsign, hip⟩, hfp⟩, hsome⟩, hnodot⟩ := hok
  simp only [NumShape.boundary, Bool.and_eq_true, Bool.not_eq_true', Bool.or_eq_true,
    headIs_false_iff, bne_iff_ne, ne_eq] at hb
  obtain ⟨hb1, hb2⟩ := hb
  have h45 : isDigit 45 = false := by decide
  have h46 : isDigit 46 = false := by decide
  -- the text after the sign
  have htail : ∀ (x : Rune), (ip ++ ((if dot = true then 46 :: fp else []) ++ rest)).head? = some x →
      x ≠ 45 := by
    intro x hx h
    subst h
    cases ip with
    | cons a t =>
      have := hip a List.mem_cons_self
      simp only [List.cons_append, List.head?_cons, Option.some.injEq] at hx
      rw [hx, h45] at this; cases this
    | nil =>
      cases dot with
      | true => simp at hx
      | false =>
        rcases hsome with h | h
        · simp at h
        · simp at h
  have hsgn : (if (sign ++ ip ++ (if dot = true then 46 :: fp else []) ++ rest).head? == some 45
      then [45] else ([] : List Rune)) = sign := by
    rcases hsign with rfl | rfl
    · rw [if_neg]
      intro h
      have h' := eq_of_beq h
      simp only [List.nil_append, List.append_assoc] at h'
      exact htail 45 h' rfl
    · rfl
  have hipTW : (ip ++ ((if dot = true then 46 :: fp else []) ++ rest)).takeWhile isDigit = ip := by
    apply takeWhile_append_stop _ _ _ hip
    intro x hx
    cases dot with
    | true =>
      simp only [if_true, List.cons_append, List.head?_cons, Option.some.injEq] at hx
      rw [← hx]; exact h46
    | false =>
      simp only [Bool.false_eq_true, if_false, List.nil_append] at hx
      exact hb1 x hx
  unfold parseNum NumShape.text
  simp only
  rw [hsgn]
  have e1 : (sign ++ ip ++ (if dot = true then 46 :: fp else []) ++ rest).drop sign.length
      = ip ++ ((if dot = true then 46 :: fp else []) ++ rest) := by
    rw [List.append_assoc, List.append_assoc, List.drop_left]
  rw [e1, hipTW, List.drop_left]
  cases dot with
  | true =>
    simp only [if_true, List.cons_append, List.head?_cons, beq_self_eq_true, List.drop_succ_cons,
      List.drop_zero]
    rw [takeWhile_append_stop _ _ _ hfp hb1]
  | false =>
    have hfp0 : fp = [] := by
      rcases hnodot with h | h
      · cases h
      · exact List.isEmpty_iff.mp h
    subst hfp0
    simp only [Bool.false_eq_true, if_false, List.nil_append]
    have : (rest.head? == some 46) = false := by
      rcases hb2 with h | h
      · cases h
      · cases hr : rest.head? with
        | none => rfl
        | some x =>
          rw [hr] at h
          simp only [beq_eq_false_iff_ne, ne_eq]
          exact h
    rw [this]
    simp

theorem NumShape.text_ne_nil (n : NumShape) (hok : n.ok = true) : n.text ≠ [] := by
  obtain ⟨sign, ip, dot, fp⟩ := n
  simp only [NumShape.ok, Bool.and_eq_true, Bool.or_eq_true, Bool.not_eq_true'] at hok
  obtain ⟨⟨_, hsome⟩, _⟩ := hok
  unfold NumShape.text
  simp only
  intro h
  cases ip with
  | cons a t => simp at h
  | nil =>
    cases dot with
    | true => simp at h
    | false => simp at hsome

/-- the first rune of a well-formed number: a digit, `-` or `.` -/
theorem NumShape.head_class (n : NumShape) (hok : n.ok = true) (c : Rune)
    (hc : n.text.head? = some c) : isDigit c = true ∨ c = 45 ∨ c = 46 := by
  obtain ⟨sign, ip, dot, fp⟩ := n
  simp only [NumShape.ok, Bool.and_eq_true, Bool.or_eq_true, beq_iff_eq, Bool.not_eq_true',
    allDigits_iff] at hok
  obtain ⟨⟨⟨⟨hsign, hip⟩, _⟩, hsome⟩, _⟩ := hok
  unfold NumShape.text at hc
  simp only at hc
  rcases hsign with rfl | rfl
  · cases ip with
    | cons a t =>
      simp only [List.nil_append, List.cons_append, List.head?_cons, Option.some.injEq] at hc
      rw [← hc]; exact Or.inl (hip a List.mem_cons_self)
    | nil =>
      cases dot with
      | true =>
        simp only [List.nil_append, if_true, List.head?_cons, Option.some.injEq] at hc
        exact Or.inr (Or.inr hc.symm)
      | false => simp at hsome
  · simp only [List.cons_append, List.head?_cons, Option.some.injEq] at hc
    exact Or.inr (Or.inl hc.symm)

/-! ### the exponent part of the expression number state -/

/-- the peek-based digit loop accumulates `takeWhile p` of the remaining input -/
theorem readWhilePeek_value (p : Rune → Bool) (f : Nat) (acc : List Rune) (s : Scanner)
    (hf : (s.content.drop s.pos).length < f) :
    (readWhilePeek p f acc s).1 = acc ++ (s.content.drop s.pos).takeWhile p := by
  induction f generalizing acc s with
  | zero => omega
  | succ f ih =>
    simp only [readWhilePeek]
    cases hd : s.content.drop s.pos with
    | nil =>
      have : s.peek = none := by rw [peek_drop, hd]; rfl
      simp [this]
    | cons c t =>
      have hpk : s.peek = some c := by rw [peek_drop, hd]; rfl
      obtain ⟨_, _, hd1⟩ := read_drop_cons s c t hd
      rw [hd] at hf
      simp only [hpk, List.takeWhile_cons]
      split
      · rw [ih _ _ (by rw [hd1]; simpa using hf), hd1]
        simp
      · simp

/-- `acc` = the runes between `q` and the cursor -/
theorem PInv.split {c : List Rune} {q : Nat} {acc : List Rune} {s : Scanner} (h : PInv c q acc s) :
    c.drop q = acc ++ c.drop s.pos := by
  rw [h.seg]
  unfold slice
  have hle : q ≤ (c.take s.pos).length := by rw [List.length_take]; have := h.ge; have := h.le; omega
  rw [← List.drop_append_of_le_length hle, List.take_append_drop]

/-- the exponent prefix `e [+|-]` in front of a digit: what `expAcc2` / `expS3` compute -/
theorem exp_part (s1 : Scanner) (e d : Rune) (sgn t : List Rune)
    (hdrop : s1.content.drop s1.pos = e :: (sgn ++ d :: t))
    (hsgn : sgn = [] ∨ sgn = [45] ∨ sgn = [43]) (hd : isDigit d = true) :
    expAcc2 s1 = e :: sgn ∧ (expS3 s1).content.drop (expS3 s1).pos = d :: t := by
  obtain ⟨hr1, _, hd1⟩ := read_drop_cons s1 e _ hdrop
  have he : (s1.read).1.getD 0 = e := by rw [hr1]; rfl
  have hd45 : d ≠ 45 := by intro h; rw [h] at hd; exact absurd hd (by decide)
  have hd43 : d ≠ 43 := by intro h; rw [h] at hd; exact absurd hd (by decide)
  unfold expAcc2 expS3
  rw [he]
  rcases hsgn with rfl | rfl | rfl
  · have hpk : (s1.read).2.peek = some d := by rw [peek_drop, hd1]; rfl
    have hc : ((s1.read).2.peek == some 45 || (s1.read).2.peek == some 43) = false := by
      rw [hpk]; simp [hd45, hd43]
    rw [hc]
    exact ⟨rfl, hd1⟩
  · have hpk : (s1.read).2.peek = some 45 := by rw [peek_drop, hd1]; rfl
    obtain ⟨_, _, hd2⟩ := read_drop_cons (s1.read).2 45 _ hd1
    rw [hpk]
    exact ⟨rfl, hd2⟩
  · have hpk : (s1.read).2.peek = some 43 := by rw [peek_drop, hd1]; rfl
    obtain ⟨_, _, hd2⟩ := read_drop_cons (s1.read).2 43 _ hd1
    rw [hpk]
    exact ⟨rfl, hd2⟩

end Verif
