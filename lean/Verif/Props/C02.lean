/-
C02 — every token sequence that is a sentence of the expression grammar is accepted and compiled
to the post-order of its syntax tree.
C18 — the reported variable names are exactly the identifiers in variable position, each once, in
order of first occurrence.

SPEC: Verif/Spec/ExprGrammar.lean (`Expr`, `wl`, `unparse`, `postorder`, `varOcc`, `addVars`).
MODEL: Verif/Model/ExprParser.lean.  Proofs: Verif/Lemmas/ParserEqns.lean (unfolding equations),
Verif/Lemmas/ParserFuel.lean (fuel monotonicity, input consumption, enough fuel),
Verif/Lemmas/ParserComplete.lean (completeness by induction on the tree),
Verif/Lemmas/ParserSound.lean (soundness by induction on the fuel).
-/
import Verif.Lemmas.ParserComplete
import Verif.Lemmas.ParserSound

namespace Verif
open Parser Expr
variable {κ : Type}

/-- driver-level entry point, mirrors performParsing: parse, then "more tokens → ERROR_NEAR" -/
def runParse (fuel : Nat) (toks : List (ETok κ)) : Except PErr (PState κ) :=
  match Parser.p0 fuel ⟨toks, [], []⟩ with
  | .error e => .error e
  | .ok st => if st.rest.isEmpty then .ok st else .error .errorNear

/-! ## C02: completeness -/

/-- **C02** (explicit fuel: the driver runs the parser with `16 * (number of tokens + 2)`). -/
theorem C02_complete_bound (t : Expr κ) (h : t.wl = true) :
    ∀ f ≥ 16 * (t.unparse.length + 2),
      runParse f t.unparse = .ok ⟨[], t.postorder, Expr.addVars [] t.varOcc⟩ := by
  intro f hf
  have := Complete.complete_p0_bound t h [] [] f hf
  simp [runParse, this]

/-- **C02** -/
theorem C02_complete (t : Expr κ) (h : t.wl = true) :
    ∃ f0, ∀ f ≥ f0, runParse f t.unparse = .ok ⟨[], t.postorder, Expr.addVars [] t.varOcc⟩ :=
  ⟨_, C02_complete_bound t h⟩

/-- with the driver's fuel the model never reports "out of fuel", whatever the input -/
theorem C02_fuel_suffices (toks : List (ETok κ)) (f : Nat) (hf : 16 * (toks.length + 2) ≤ f) :
    runParse f toks ≠ .error .outOfFuel := by
  have h := Parser.p0_enough_fuel (⟨toks, [], []⟩ : PState κ) f hf
  unfold runParse
  cases hp : Parser.p0 f ⟨toks, [], []⟩ with
  | error e =>
    intro he
    simp only at he
    injection he with he
    exact h (by rw [hp, he])
  | ok st =>
    simp only
    split <;> intro he <;> cases he

/-- more fuel never changes a definite answer -/
theorem runParse_mono (toks : List (ETok κ)) {f f' : Nat} (hle : f ≤ f')
    (h : runParse f toks ≠ .error .outOfFuel) : runParse f' toks = runParse f toks := by
  have h0 : Parser.p0 f ⟨toks, [], []⟩ ≠ .error .outOfFuel := by
    intro he; apply h; simp [runParse, he]
  simp only [runParse, Parser.p0_mono hle h0]

/-- every rejection carries an error code -/
theorem C02_reject_has_code (f : Nat) (toks : List (ETok κ)) (e : PErr)
    (_ : runParse f toks = .error e) (_ : e ≠ .outOfFuel) : e.code ≠ "" := by
  cases e <;> decide

/-! ## C02: soundness ("no silent skip") -/

/-- **C02, converse**: whatever `runParse` accepts is a sentence — the *whole* input is the token
sequence of a well-levelled tree, the output is its post-order and the variable list is that of
the tree.  The parser only looks at token types, so the statement is about canonical input tokens
(`Sound.Canon`: operators and punctuation without payload, constants with a value, variables with
a name), which is what lexical analysis delivers. -/
theorem C02_no_silent_skip (f : Nat) (toks : List (ETok κ)) (st : PState κ)
    (hc : ∀ tok ∈ toks, Sound.Canon tok) (h : runParse f toks = .ok st) :
    ∃ t : Expr κ, t.wl = true ∧ t.unparse = toks ∧ st.out = t.postorder ∧
      st.vars = Expr.addVars [] t.varOcc ∧ st.rest = [] := by
  unfold runParse at h
  cases hp : Parser.p0 f ⟨toks, [], []⟩ with
  | error e => rw [hp] at h; cases h
  | ok st1 =>
    rw [hp] at h
    simp only at h
    split at h
    · rename_i hemp
      injection h with h; subst h
      obtain ⟨t, hw, hr, ho, hv⟩ := Sound.sound_p0 f ⟨toks, [], []⟩ st1 hc hp
      have hnil : st1.rest = [] := by simpa using hemp
      refine ⟨t, hw, ?_, by simpa using ho, hv, hnil⟩
      simp only [hnil, List.append_nil] at hr
      exact hr.symm
    · cases h

/-- the canonicity hypothesis is not restrictive: every sentence consists of canonical tokens -/
theorem C02_sentence_canonical (t : Expr κ) (h : t.wl = true) : ∀ tok ∈ t.unparse, Sound.Canon tok :=
  Sound.canon_unparse t h

/-- acceptance is decided by the grammar alone: a canonical token sequence is accepted (with the
driver's fuel) iff it is the `unparse` of some well-levelled tree -/
theorem C02_accepts_iff (toks : List (ETok κ)) (hc : ∀ tok ∈ toks, Sound.Canon tok) (f : Nat)
    (hf : 16 * (toks.length + 2) ≤ f) :
    (∃ st, runParse f toks = .ok st) ↔ ∃ t : Expr κ, t.wl = true ∧ t.unparse = toks := by
  constructor
  · rintro ⟨st, h⟩
    obtain ⟨t, hw, hu, _⟩ := C02_no_silent_skip f toks st hc h
    exact ⟨t, hw, hu⟩
  · rintro ⟨t, hw, rfl⟩
    exact ⟨_, C02_complete_bound t hw f hf⟩

/-! ## C18: the variable list -/

/-- **C18**: the variables reported for a sentence are `addVars [] (varOcc t)` … -/
theorem C18_vars_exact (t : Expr κ) (h : t.wl = true) (f : Nat)
    (hf : 16 * (t.unparse.length + 2) ≤ f) :
    (runParse f t.unparse).toOption.map (·.vars) = some (Expr.addVars [] t.varOcc) := by
  rw [C02_complete_bound t h f hf]; rfl

/-- … and `addVars [] l` is `l` with later duplicates removed: no repetitions, -/
theorem C18_addVars_nodup (l : List (List Rune)) : (Expr.addVars [] l).Nodup :=
  Complete.nodup_addVars List.nodup_nil

/-- the same elements, -/
theorem C18_addVars_mem (l : List (List Rune)) (n : List Rune) : n ∈ Expr.addVars [] l ↔ n ∈ l := by
  simp [Complete.mem_addVars]

/-- in the order of `l`, -/
theorem C18_addVars_sublist (l : List (List Rune)) : (Expr.addVars [] l).Sublist l := by
  obtain ⟨s, hs, hsub⟩ := Complete.addVars_eq_append l []
  simpa [hs] using hsub

/-- precisely: every name at its first occurrence. -/
theorem C18_addVars_firstOccs (l : List (List Rune)) :
    Expr.addVars [] l = Complete.firstOccs l := by
  simp [Complete.addVars_eq_firstOccs]

/-! ## non-vacuity -/

deriving instance DecidableEq for PState
deriving instance DecidableEq for Except

/-- `1 + a * f(2, b)[0]` -/
def exampleTree : Expr Nat :=
  .bin .plus (.const 1)
    (.bin .star (.var [97])
      (.index (.call [102] (.cons (.const 2) (.cons (.var [98]) .nil))) (.const 0)))

example : exampleTree.wl = true := by decide
example : exampleTree.unparse.map (·.typ) =
    [.constant, .plus, .variable, .star, .variable, .leftBrace, .constant, .comma, .variable,
     .rightBrace, .leftSquareBrace, .constant, .rightSquareBrace] := by decide
example : exampleTree.postorder.map (·.typ) =
    [.constant, .variable, .constant, .variable, .constant, .function, .constant, .element,
     .star, .plus] := by decide
example : runParse 200 exampleTree.unparse =
    .ok ⟨[], exampleTree.postorder, [[97], [98]]⟩ := by decide +kernel
/-- the greedy loops really need the level discipline: `a - b` re-associated is not `wl` -/
example : (Expr.bin .minus (.var [97]) (.bin .minus (.var [98]) (.var [99])) : Expr Nat).wl = false := by
  decide

end Verif
