package main

import (
	"time"
	"fmt"
	"strconv"
	"strings"
	"sync"

	"github.com/pip-services3-gox/pip-services3-expressions-gox/calculator"
	"github.com/pip-services3-gox/pip-services3-expressions-gox/calculator/functions"
	"github.com/pip-services3-gox/pip-services3-expressions-gox/calculator/variables"
	"github.com/pip-services3-gox/pip-services3-expressions-gox/mustache"
	"github.com/pip-services3-gox/pip-services3-expressions-gox/variants"
)

// C19: evaluation is pure and repeatable, also under concurrent use.
// The same binary built with `go build -race` is run by ./check for the schedules part.

func snapshotCalc(calc *calculator.ExpressionCalculator) string {
	var p []string
	for _, t := range calc.ResultTokens() {
		p = append(p, encETok(t))
	}
	var fs []string
	for _, f := range calc.DefaultFunctions().GetAll() {
		fs = append(fs, f.Name())
	}
	return strings.Join(p, " ") + " || " + strings.Join(fs, ",") + " || empty=" + encVariant(variants.Empty)
}

func mkVars(binds []binding) *variables.VariableCollection {
	vars := variables.NewVariableCollection()
	for _, b := range binds {
		vars.Add(variables.NewVariable(b.name, b.val.Clone())) // own cells: the cases assign them in place
	}
	return vars
}

func varsSnapshot(v *variables.VariableCollection) string {
	var p []string
	for _, x := range v.GetAll() {
		p = append(p, x.Name()+"="+encVariant(x.Value()))
	}
	return strings.Join(p, " ")
}

func runPurityCase(c *Ctx, expr string, sets [][]binding, goroutines int) {
	var bs []string
	for _, s := range sets {
		bs = append(bs, "{"+bindsStr(s)+"}")
	}
	op := fmt.Sprintf("pure %d %s ; %s", goroutines, strRunes(expr), strings.Join(bs, " "))
	c.record(op, len(sets) >= 2)
	c.count("purity-case")
	var note string
	st := safeCall(func() string {
		calc := calculator.NewExpressionCalculator()
		calc.SetAutoVariables(false)
		if err := calc.SetExpression(expr); err != nil {
			return "parse-err"
		}
		before := snapshotCalc(calc)
		// sequential reference results, evaluated twice each, interleaved
		ref := make([]string, len(sets))
		colls := make([]*variables.VariableCollection, len(sets))
		varsBefore := make([]string, len(sets))
		for i, s := range sets {
			colls[i] = mkVars(s)
			varsBefore[i] = varsSnapshot(colls[i])
			ref[i] = outcome(calc.EvaluateUsingVariables(colls[i]))
		}
		for round := 0; round < 3; round++ {
			for i := len(sets) - 1; i >= 0; i-- {
				if got := outcome(calc.EvaluateUsingVariables(colls[i])); got != ref[i] && note == "" && !strings.Contains(ref[i], "NaN") {
					note = fmt.Sprintf("evaluation #%d of %q under set %d gives %s, first gave %s", round+2, expr, i, got, ref[i])
				}
			}
		}
		if after := snapshotCalc(calc); after != before && note == "" {
			note = fmt.Sprintf("evaluation modified the compiled program / function table / Empty constant: %s -> %s", before, after)
		}
		for i := range sets {
			if varsSnapshot(colls[i]) != varsBefore[i] && note == "" {
				note = "evaluation modified the variable values of set " + fmt.Sprint(i)
			}
		}
		// variables are mutable cells: after their values were replaced IN PLACE the next evaluation sees the new values
		// (nothing computed from the old ones may be remembered) - what a new calculator gives for the new values
		if len(colls) > 0 && note == "" {
			var now []binding
			for k, v := range colls[0].GetAll() {
				nv := evalVarValues[(k*7+len(expr)*3)%len(evalVarValues)]
				v.Value().Assign(nv)
				now = append(now, binding{v.Name(), nv.Clone()})
			}
			got := outcome(calc.EvaluateUsingVariables(colls[0]))
			fresh := calculator.NewExpressionCalculator()
			fresh.SetAutoVariables(false)
			fresh.SetExpression(expr)
			want := outcome(fresh.EvaluateUsingVariables(mkVars(now)))
			if got != want && !strings.Contains(want, "NaN") {
				note = fmt.Sprintf("after the variable values of set 0 were replaced in place (now %s) the calculator gives %s, a new calculator gives %s", bindsStr(now), got, want)
			}
		}
		// concurrent evaluations of the one parsed instance, separate variable collections
		if goroutines > 0 {
			var wg sync.WaitGroup
			errs := make([]string, goroutines)
			for g := 0; g < goroutines; g++ {
				wg.Add(1)
				go func(g int) {
					defer wg.Done()
					defer func() {
						if r := recover(); r != nil {
							errs[g] = fmt.Sprint("panic: ", r)
						}
					}()
					i := g % len(sets)
					vars := mkVars(sets[i])
					for k := 0; k < 20; k++ {
						if got := outcome(calc.EvaluateUsingVariables(vars)); got != ref[i] && !strings.Contains(ref[i], "NaN") {
							errs[g] = fmt.Sprintf("concurrent evaluation under set %d gives %s, sequential result %s", i, got, ref[i])
						}
					}
				}(g)
			}
			wg.Wait()
			for _, e := range errs {
				if e != "" && note == "" {
					note = e
				}
			}
		}
		return "ok"
	})
	if strings.HasPrefix(st, "panic:") {
		c.fail(Failure{Kind: "oracle", Op: op, Impl: st, Note: "panicked"})
	} else if note != "" {
		c.fail(Failure{Kind: "oracle", Op: op, Impl: st, Note: note})
	}
	// the model side: evaluation is a function of (program, variables): C01's stream compares values
}

func runTplPurity(c *Ctx, src string, maps []map[string]string, goroutines int) {
	var ms []string
	for _, m := range maps {
		ms = append(ms, "{"+varsStr(m)+"}")
	}
	op := fmt.Sprintf("tpure %d %s ; %s", goroutines, strRunes(src), strings.Join(ms, " "))
	c.record(op, len(maps) >= 2)
	c.count("template-purity-case")
	var note string
	st := safeCall(func() string {
		t := mustache.NewMustacheTemplate()
		t.SetAutoVariables(false)
		if err := t.SetTemplate(src); err != nil {
			return "parse-err"
		}
		before := encTplTree(t.ResultTokens())
		ref := make([]string, len(maps))
		mapsBefore := make([]string, len(maps))
		for i, m := range maps {
			mapsBefore[i] = varsStr(m)
			// the reference is what a template object that rendered nothing else gives
			ft := mustache.NewMustacheTemplate()
			ft.SetAutoVariables(false)
			ft.SetTemplate(src)
			own := map[string]string{}
			for k, v := range m {
				own[k] = v
			}
			r, err := ft.EvaluateWithVariables(own)
			ref[i] = r + "|" + errCode(err)
		}
		for i, m := range maps {
			r, err := t.EvaluateWithVariables(m)
			if r+"|"+errCode(err) != ref[i] && note == "" {
				note = fmt.Sprintf("first rendering under map %d (after %d other renderings on this object) gives %q, a new template object gives %q", i, i, r+"|"+errCode(err), ref[i])
			}
		}
		// repeat in the opposite order: equal inputs, equal renderings; the maps are untouched
		for round := 0; round < 2; round++ {
			for i := len(maps) - 1; i >= 0; i-- {
				r, err := t.EvaluateWithVariables(maps[i])
				if r+"|"+errCode(err) != ref[i] && note == "" {
					note = fmt.Sprintf("rendering #%d under map %d differs from the first one", round+2, i)
				}
			}
		}
		for i, m := range maps {
			if varsStr(m) != mapsBefore[i] && note == "" {
				note = fmt.Sprintf("rendering modified the caller's variable map %d: %s -> %s", i, mapsBefore[i], varsStr(m))
			}
		}
		var wg sync.WaitGroup
		errs := make([]string, goroutines)
		for g := 0; g < goroutines; g++ {
			wg.Add(1)
			go func(g int) {
				defer wg.Done()
				i := g % len(maps)
				own := map[string]string{}
				for k, v := range maps[i] {
					own[k] = v
				}
				for k := 0; k < 20; k++ {
					r, err := t.EvaluateWithVariables(own)
					if r+"|"+errCode(err) != ref[i] {
						errs[g] = "concurrent rendering differs from the sequential one"
					}
				}
			}(g)
		}
		wg.Wait()
		for _, e := range errs {
			if e != "" && note == "" {
				note = e
			}
		}
		if encTplTree(t.ResultTokens()) != before && note == "" {
			note = "rendering modified the parsed template"
		}
		return "ok"
	})
	if strings.HasPrefix(st, "panic:") || note != "" {
		c.fail(Failure{Kind: "oracle", Op: op, Impl: st, Note: note})
	}
}

// separate instances in parallel (each goroutine owns its tokenizer / calculator / template)
func runSeparateInstances(c *Ctx, goroutines int, exprs []string, tpls []string) {
	op := fmt.Sprintf("separate %d", goroutines)
	c.record(op+fmt.Sprint(c.Evals), true)
	c.count("separate-instances-case")
	want := make([]string, len(exprs))
	for i, e := range exprs {
		out, _, _ := evalWith(e, "u", []binding{{"a", vInt(6)}, {"b", vInt(3)}})
		want[i] = out
	}
	wantT := make([]string, len(tpls))
	for i, s := range tpls {
		o := runTemplate(s, map[string]string{"a": "1"})
		wantT[i] = o.render + "|" + o.code
	}
	var wg sync.WaitGroup
	errs := make([]string, goroutines)
	for g := 0; g < goroutines; g++ {
		wg.Add(1)
		go func(g int) {
			defer wg.Done()
			// each goroutine configures ITS calculator (a function of its own, one standard function removed): what it
			// evaluates is not what another goroutine configured
			own := calculator.NewExpressionCalculator()
			own.DefaultFunctions().Add(functions.NewDelegatedFunction("Own", func(p []*variants.Variant, o variants.IVariantOperations) (*variants.Variant, error) {
				return variants.VariantFromInteger(1000 + g), nil
			}))
			if g%2 == 1 {
				own.DefaultFunctions().RemoveByName("Min")
			}
			for k := 0; k < 10; k++ {
				own.SetExpression("Own() + Max(1, 2)")
				if r, err := own.Evaluate(); err != nil || r.Type() != variants.Integer || r.AsInteger() != 1002+g {
					errs[g] = fmt.Sprintf("goroutine %d: its own calculator, given a function Own() = %d, evaluates Own() + Max(1, 2) to %s", g, 1000+g, outcome(r, err))
				}
				own.SetExpression("Min(4, 3)")
				if r, err := own.Evaluate(); g%2 == 0 && (err != nil || r.AsInteger() != 3) {
					errs[g] = fmt.Sprintf("goroutine %d: its own calculator (standard functions untouched) evaluates Min(4, 3) to %s", g, outcome(r, err))
				}
				i := (g + k) % len(exprs)
				out, _, _ := evalWith(exprs[i], "u", []binding{{"a", vInt(6)}, {"b", vInt(3)}})
				if out != want[i] {
					errs[g] = fmt.Sprintf("own calculator gives %s for %q, sequential %s", out, exprs[i], want[i])
				}
				j := (g + k) % len(tpls)
				o := runTemplate(tpls[j], map[string]string{"a": "1"})
				if o.render+"|"+o.code != wantT[j] {
					errs[g] = "own template renders differently in parallel"
				}
				ts, _ := tokenizeImpl([]string{"g", "e", "m", "c:44:34"}[g%4], 0, exprs[i])
				if msg := oracleLossless([]rune(exprs[i]), ts); msg != "" {
					errs[g] = "own tokenizer: " + msg
				}
			}
		}(g)
	}
	wg.Wait()
	for _, e := range errs {
		if e != "" {
			c.fail(Failure{Kind: "oracle", Op: op, Impl: e, Note: e})
			return
		}
	}
}

// the function table is an input of the evaluation: after the calculator's DEFAULT table was edited (a function replaced by
// another of the same name, removed, added - the number of entries the same or not), the next evaluation uses the table as it
// is now, exactly as an evaluation that is handed that table explicitly and as a new calculator with that table
func propDefaultTableEdits(c *Ctx) {
	mk := func(name string, k int) functions.IFunction {
		return functions.NewDelegatedFunction(name, func(p []*variants.Variant, o variants.IVariantOperations) (*variants.Variant, error) {
			return variants.VariantFromInteger(k), nil
		})
	}
	edits := []struct {
		name string
		do   func(t functions.IFunctionCollection)
	}{
		{"replace Max (remove, add)", func(t functions.IFunctionCollection) { t.RemoveByName("Max"); t.Add(mk("Max", 100)) }},
		{"replace Max (add, remove first)", func(t functions.IFunctionCollection) { t.Add(mk("MAX", 100)); t.RemoveByName("max") }},
		{"remove Max", func(t functions.IFunctionCollection) { t.RemoveByName("Max") }},
		{"remove Min, add Other", func(t functions.IFunctionCollection) { t.RemoveByName("Min"); t.Add(mk("Other", 7)) }},
		{"remove entry 0, add Ticks", func(t functions.IFunctionCollection) { t.Remove(0); t.Add(mk("Ticks", 5)) }},
		{"clear, add Max", func(t functions.IFunctionCollection) { t.Clear(); t.Add(mk("Max", 9)) }},
	}
	for _, expr := range []string{"Max(1, 2) * 2", "Max(1, 2) + Min(3, 4)", "Sum(Max(1, 2), 1)", "Other() + 1", "Ticks() * 0 + Max(2, 3)"} {
		for _, e := range edits {
			op := fmt.Sprintf("deftable %s ! %s", strRunes(expr), strRunes(e.name))
			c.record(op, true)
			c.count("default-table-edit")
			note := ""
			st := safeCallT(5*time.Second, func() string {
				calc := calculator.NewExpressionCalculator()
				calc.SetExpression(expr)
				calc.Evaluate()
				e.do(calc.DefaultFunctions())
				got := outcome(calc.Evaluate())
				explicit := outcome(calc.EvaluateUsingVariablesAndFunctions(calc.DefaultVariables(), calc.DefaultFunctions()))
				fresh := calculator.NewExpressionCalculator()
				e.do(fresh.DefaultFunctions())
				fresh.SetExpression(expr)
				want := outcome(fresh.Evaluate())
				if strings.Contains(expr, "Ticks") && !strings.Contains(e.name, "Ticks") && !strings.Contains(e.name, "clear") {
					return "" // the clock: not comparable
				}
				if got != want || explicit != want {
					note = fmt.Sprintf("%q after the default function table was edited (%s): Evaluate() gives %s, with the table passed explicitly %s; a new calculator with that table gives %s", expr, e.name, got, explicit, want)
				}
				return ""
			})
			if st != "" || note != "" {
				c.fail(Failure{Kind: "oracle", Op: op, Impl: st, Note: note})
			}
		}
	}
}

// "package-level shared values are read-only": every value a collection hands out after recycling (ClearValues, a variable
// created without a value, a variable created for an expression) is the caller's to assign in place; doing so must not reach
// the package-level null value, another variable, another collection or another calculator.
func propSharedValuesReadOnly(c *Ctx) {
	op := "sharedro clearvalues"
	c.record(op, true)
	st := safeCallT(5*time.Second, func() string {
		mk := func() *variables.VariableCollection {
			v := variables.NewVariableCollection()
			v.Add(variables.NewVariable("x", variants.VariantFromInteger(1)))
			v.Add(variables.NewVariable("y", variants.VariantFromInteger(2)))
			v.Add(variables.NewVariable("z", nil))
			return v
		}
		a, b := mk(), mk()
		a.ClearValues()
		b.ClearValues()
		calc := calculator.NewExpressionCalculator()
		if err := calc.SetExpression("p * 10 + q"); err != nil { // automatic variables p, q
			return "parse-err"
		}
		cells := []*variants.Variant{a.FindByName("x").Value(), a.FindByName("y").Value(), a.FindByName("z").Value(), b.FindByName("x").Value(), b.FindByName("z").Value(),
			calc.DefaultVariables().FindByName("p").Value(), calc.DefaultVariables().FindByName("q").Value()}
		names := []string{"a.x", "a.y", "a.z", "b.x", "b.z", "calc.p", "calc.q"}
		for i, cell := range cells {
			if cell == nil {
				return "the value of " + names[i] + " is nil"
			}
			if cell.Type() != variants.Null {
				return "the cleared value of " + names[i] + " is not null"
			}
		}
		for i, cell := range cells {
			cell.SetAsInteger(100 + i) // the caller assigns in place
			for j, other := range cells {
				want := variants.Null
				if j <= i {
					want = variants.Integer
				}
				if other.Type() != want || (j <= i && other.AsInteger() != 100+j) {
					return fmt.Sprintf("after assigning %d to %s in place, %s holds %s", 100+i, names[i], names[j], encVariant(other))
				}
			}
			if variants.Empty.Type() != variants.Null {
				return fmt.Sprintf("after assigning to %s in place, the package-level null value holds %s", names[i], encVariant(variants.Empty))
			}
		}
		fresh := calculator.NewExpressionCalculator()
		if err := fresh.SetExpression("w IS NULL"); err != nil {
			return "parse-err"
		}
		if got := outcome(fresh.Evaluate()); got != "ok b1" {
			return "afterwards a new calculator evaluates `w IS NULL` (w never assigned) to " + got
		}
		return ""
	})
	if st != "" {
		c.fail(Failure{Kind: "oracle", Op: op, Impl: st, Note: "values handed out by ClearValues / automatic variables are assigned in place by the caller: " + st})
	}
	c.Notes = append(c.Notes, "recycled collections (ClearValues), valueless and automatic variables: in-place assignment to each handed-out value leaves the package-level null value, the other variables, collections and calculators untouched")
}

func propC19(c *Ctx) {
	propSharedValuesReadOnly(c)
	propScaleFunctionTables(c)
	propDefaultTableEdits(c)
	g := newExGen(c)
	g.funcs = []string{"Max", "Min", "Sum", "If", "Array", "Abs", "Choose", "Contains", "Ceil", "Floor", "Round", "Trunc", "Sqrt", "Exp", "Ceiling", "Truncate", "Sin", "Log", "Empty"}
	n := 300
	if c.Thorough {
		n = 6000
	}
	for i := 0; i < n; i++ {
		e := g.gen(1 + c.Rng.Intn(4))
		expr := g.render(g.toks(e, 0, c.Rng.Intn(3)), false)
		k := 2 + c.Rng.Intn(3)
		sets := make([][]binding, k)
		for j := range sets {
			sets[j] = randBinds(c, g.vars)
		}
		runPurityCase(c, expr, sets, 16)
		ast := g.genTpl(c.Rng.Intn(3), 1+c.Rng.Intn(4))
		runTplPurity(c, printTpl(ast), []map[string]string{randVars(c), randVars(c), randVars(c)}, 16)
	}
	// every binary operator with variables of every type on both sides, evaluated repeatedly
	opLex := []string{"+", "-", "*", "/", "%", "^", "<<", ">>", "=", "<>", ">", "<", ">=", "<=", "AND", "OR", "XOR", "IN", "NOT IN"}
	for _, o := range opLex {
		for _, av := range evalVarValues {
			bv := evalVarValues[c.Rng.Intn(len(evalVarValues))]
			runPurityCase(c, "a "+o+" b", [][]binding{{{"a", av}, {"b", bv}}, {{"a", bv}, {"b", av}}}, 4)
			runPurityCase(c, "(a "+o+" 2) + a", [][]binding{{{"a", av}}, {{"a", bv}}}, 0)
		}
	}
	for _, f := range []string{"Min(a, b)", "Max(a, b, a)", "Sum(a, b)", "If(a, a, b)", "Choose(1, a, b)", "Abs(a)", "Array(a, b)[0]", "-a", "NOT a", "a[0]",
		"Ceil(a)", "Ceiling(a) + a", "Floor(a)", "Round(a) - a", "Trunc(a)", "Truncate(a)", "Sqrt(a)", "Exp(a)", "Ceil(Max(a, b))", "Ceil(If(TRUE, a, b)) + Floor(Choose(1, a, b))", "Ceil(Array(a, b)[0])", "Max(a, b) * 2"} {
		for _, av := range evalVarValues {
			runPurityCase(c, f, [][]binding{{{"a", av}, {"b", evalVarValues[c.Rng.Intn(len(evalVarValues))]}}, {{"a", vInt(1)}, {"b", av}}}, 4)
		}
	}
	// collections that hold a name TWICE (the first one added wins), interleaved with collections of another layout in which that
	// name sits where the later duplicate sits in the first
	dupT := []binding{{"a", vInt(1)}, {"b", vInt(2)}, {"A", vInt(5)}, {"B", vInt(50)}}
	other := []binding{{"x", vInt(9)}, {"zz", vInt(8)}, {"a", vInt(7)}, {"b", vInt(3)}}
	third := []binding{{"b", vInt(4)}, {"a", vInt(6)}}
	for _, e := range []string{"a + b", "a", "b * 10 + a", "Max(a, b)", "a + a + b"} {
		runPurityCase(c, e, [][]binding{dupT, other, dupT, third, dupT}, 4)
		runPurityCase(c, e, [][]binding{other, dupT, third, dupT}, 0)
	}
	// … and the same for function tables handed to the evaluation: a table that holds a name twice, interleaved with others
	{
		mkF := func(name string, k int) functions.IFunction {
			return functions.NewDelegatedFunction(name, func(p []*variants.Variant, o variants.IVariantOperations) (*variants.Variant, error) {
				return variants.VariantFromInteger(k), nil
			})
		}
		tbl := func(layout string) *functions.FunctionCollection {
			fc := functions.NewFunctionCollection()
			switch layout {
			case "T": // F first = 10, a later duplicate = 20
				fc.Add(mkF("F", 10))
				fc.Add(mkF("G", 1))
				fc.Add(mkF("f", 20))
			case "O": // another layout: F where the duplicate sits in T
				fc.Add(mkF("H", 7))
				fc.Add(mkF("G", 2))
				fc.Add(mkF("F", 30))
			default:
				fc.Add(mkF("G", 3))
				fc.Add(mkF("F", 40))
			}
			return fc
		}
		wantOf := map[string]string{"T": "ok i11", "O": "ok i32", "P": "ok i43"}
		for _, seq := range []string{"TTOT", "OTPT", "TOTOT", "PTTO"} {
			op := "ftdup " + seq
			c.record(op, true)
			c.count("function-table-duplicates")
			note := ""
			st := safeCall(func() string {
				calc := calculator.NewExpressionCalculator()
				calc.SetExpression("F() + G()")
				for i, l := range seq {
					if got := outcome(calc.EvaluateUsingVariablesAndFunctions(nil, tbl(string(l)))); got != wantOf[string(l)] {
						note = fmt.Sprintf("step %d of the table sequence %s (table %c: the FIRST function called F wins): F() + G() gives %s, expected %s", i, seq, l, got, wantOf[string(l)])
						return ""
					}
				}
				return ""
			})
			if st != "" || note != "" {
				c.fail(Failure{Kind: "oracle", Op: op, Impl: st, Note: note})
			}
		}
	}
	// names resolved case-insensitively: collections whose keys differ only in letter case, rendered alternately
	for _, src := range []string{"Hello, {{NAME}}!", "{{#naMe}}{{Name}}{{/naMe}}|{{{NAME}}}", "{{^NAME}}none{{/NAME}}{{name}}"} {
		runTplPurity(c, src, []map[string]string{{"Name": "Bob", "name": "Carol"}, {"name": "Alice"}, {"NAME": "Z", "Name": "Y"}, {"nAME": ""}}, 8)
		runTplPurity(c, src, []map[string]string{{"name": "Alice"}, {"Name": "Bob", "name": "Carol"}, {"name": "Alice"}}, 8)
	}
	exprs := []string{"a << 1", "a <= b", "a <> b", "Max(a, b) + 1", "'x' + a", "a[0]", "a / 0", "1 +"}
	tpls := []string{"{{a}}", "x{{#a}}y{{/a}}", "{{{a}}}<=", "{{^a}}n{{/a}}"}
	for i := 0; i < n/30+2; i++ {
		runSeparateInstances(c, 16, exprs, tpls)
	}
	c.Notes = append(c.Notes, fmt.Sprintf("%d generated expressions, each parsed once and evaluated 4 times under 2..4 variable sets in interleaved order (results equal; compiled program, constants incl. the shared Empty variant, variable values and function table unchanged), then from 16 goroutines with separate variable collections (results = sequential ones); the same for %d templates; 16 goroutines each owning its tokenizer/calculator/template. Under ./check the same stream is executed by a binary built with the Go race detector.", n, n))
}

// pure <g> <expr> ; {binds} {binds} …      tpure <g> <template> ; {vars} {vars} …
func replayC19(c *Ctx, op string) {
	if strings.HasPrefix(op, "deftable ") {
		propDefaultTableEdits(c)
		return
	}
	if strings.HasPrefix(op, "sharedro ") {
		propSharedValuesReadOnly(c)
		return
	}
	f := strings.Fields(op)
	if len(f) < 3 || (f[0] != "pure" && f[0] != "tpure") {
		return
	}
	g, _ := strconv.Atoi(f[1])
	src := string(parseRunes(f[2]))
	rest := strings.TrimSpace(strings.SplitN(op, ";", 2)[len(strings.SplitN(op, ";", 2))-1])
	var groups []string
	for _, part := range strings.Split(rest, "}") {
		part = strings.TrimSpace(part)
		if strings.HasPrefix(part, "{") {
			groups = append(groups, strings.TrimSpace(part[1:]))
		}
	}
	if f[0] == "pure" {
		var sets [][]binding
		for _, gr := range groups {
			sets = append(sets, parseEvalStep(append([]string{"-"}, strings.Fields(gr)...)).binds)
		}
		runPurityCase(c, src, sets, g)
		return
	}
	var maps []map[string]string
	for _, gr := range groups {
		maps = append(maps, parseTplStep(append([]string{"-"}, strings.Fields(gr)...)).vars)
	}
	runTplPurity(c, src, maps, g)
}

func init() {
	props["C19"] = propC19
	replays["C19"] = replayC19
}
