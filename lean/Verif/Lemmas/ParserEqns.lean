/-
Unfolding equations of the expression parser model in a uniform shape (`andThen` sequencing),
and the specification of `matchTypes`.  Used by the fuel lemmas and the completeness proof.
-/
import Verif.Spec.ExprGrammar

namespace Verif
variable {κ : Type}

namespace Parser

/-! ## `matchTypes` -/

theorem matchTypes_spec (tys : List ET) (rest : List (ETok κ)) :
    matchTypes tys rest =
      if (rest.take tys.length).map (·.typ) = tys then some (rest.drop tys.length) else none := by
  simp [matchTypes]

/-- `matchTypes` succeeds on the listed token types followed by any remainder -/
theorem matchTypes_append (pre rest : List (ETok κ)) :
    matchTypes (pre.map (·.typ)) (pre ++ rest) = some rest := by
  simp [matchTypes_spec]

/-- `matchTypes` succeeds iff the input is a prefix carrying the listed types, then the remainder -/
theorem matchTypes_eq_some_iff (tys : List ET) (rest r : List (ETok κ)) :
    matchTypes tys rest = some r ↔ ∃ pre, rest = pre ++ r ∧ pre.map (·.typ) = tys := by
  rw [matchTypes_spec]
  constructor
  · intro h
    split at h
    · rename_i hm
      refine ⟨rest.take tys.length, ?_, hm⟩
      injection h with h
      rw [← h, List.take_append_drop]
    · cases h
  · rintro ⟨pre, rfl, rfl⟩
    simp

theorem matchTypes_head_ne (ty : ET) (tys : List ET) (t : ETok κ) (tl : List (ETok κ))
    (h : t.typ ≠ ty) : matchTypes (ty :: tys) (t :: tl) = none := by
  simp [matchTypes_spec, h]

theorem matchTypes_nil_rest (ty : ET) (tys : List ET) :
    matchTypes (ty :: tys) ([] : List (ETok κ)) = none := by
  simp [matchTypes_spec]

/-! ## unfolding equations -/



/-- sequencing of parser results (the `match … | .error e => .error e | .ok x => k x` idiom) -/
def andThen {α β : Type} (a : Except PErr α) (k : α → Except PErr β) : Except PErr β :=
  match a with
  | .error e => .error e
  | .ok x => k x

@[simp] theorem andThen_ok {α β : Type} (x : α) (k : α → Except PErr β) :
    andThen (.ok x) k = k x := rfl
@[simp] theorem andThen_error {α β : Type} (e : PErr) (k : α → Except PErr β) :
    andThen (.error e : Except PErr α) k = .error e := rfl

/-- the four multi-token alternatives of the level-3 loop -/
def p3extra (f : Nat) (st : PState κ) : PRes κ :=
  match matchTypes [.not, .like] st.rest with
  | some r => andThen (p4 f { st with rest := r }) (fun st1 => p3loop f (emit st1 .notLike))
  | none =>
    match matchTypes [.is, .null] st.rest with
    | some r => p3loop f (emit { st with rest := r } .isNull)
    | none =>
      match matchTypes [.is, .not, .null] st.rest with
      | some r => p3loop f (emit { st with rest := r } .isNotNull)
      | none =>
        match matchTypes [.not, .in_] st.rest with
        | some r => andThen (p4 f { st with rest := r }) (fun st1 => p3loop f (emit st1 .notIn))
        | none => .ok st

def closeSquare (st4 : PState κ) : PRes κ :=
  match st4.rest with
  | [] => .error .unexpectedEnd
  | c :: rest4 =>
    if c.typ == .rightSquareBrace then .ok (emit { st4 with rest := rest4 } .element)
    else .error .missedCloseSquare

def closeParen (st1 : PState κ) : PRes κ :=
  match st1.rest with
  | [] => .error .unexpectedEnd
  | c :: rest1 =>
    if c.typ == .rightBrace then .ok { st1 with rest := rest1 }
    else .error .missedCloseParen

def closeCall (p : ETok κ) (r : PState κ × Nat) : PRes κ :=
  match r.1.rest with
  | [] => .error .unexpectedEnd
  | c :: rest1 =>
    if c.typ == .rightBrace then
      .ok (emitTok (emitTok { r.1 with rest := rest1 } ⟨.constant, [], none, r.2⟩) ⟨.function, p.name, none, 0⟩)
    else .error .missedCloseParen

/-- sign and primary of level 6 -/
def p6head (f : Nat) (st : PState κ) : PRes κ :=
  match st.rest with
  | [] => .error .unexpectedEnd
  | t0 :: rest0 =>
    andThen (p6prim f (if t0.typ == .plus || t0.typ == .minus then { st with rest := rest0 } else st))
      (fun st2 => .ok (if t0.typ == .minus then emit st2 .unary else st2))

/-- optional index suffix of level 6 -/
def p6tail (f : Nat) (st3 : PState κ) : PRes κ :=
  match st3.rest with
  | [] => .ok st3
  | t :: rest =>
    if t.typ == .leftSquareBrace then andThen (p0 f { st3 with rest := rest }) closeSquare
    else .ok st3

def argsNext (f : Nat) (n : Nat) (st1 : PState κ) : Except PErr (PState κ × Nat) :=
  match st1.rest with
  | [] => .ok (st1, n + 1)
  | c :: rest1 =>
    if c.typ == .comma then pArgs f { st1 with rest := rest1 } (n + 1)
    else .ok (st1, n + 1)

theorem p0_succ (f : Nat) (st : PState κ) : p0 (f+1) st =
    if st.rest.isEmpty then .error .unexpectedEnd else andThen (p1 f st) (p0loop f) := by
  rw [p0]; generalize p1 f _ = r; cases r <;> rfl

theorem p0loop_succ (f : Nat) (st : PState κ) : p0loop (f+1) st =
    match st.rest with
    | [] => .ok st
    | t :: rest =>
      if ops0.contains t.typ then
        andThen (p1 f { st with rest := rest }) (fun st1 => p0loop f (emit st1 t.typ))
      else .ok st := by
  rw [p0loop]; cases st.rest with
  | nil => rfl
  | cons t rest => dsimp only; generalize p1 f _ = r; cases r <;> rfl

theorem p1_succ (f : Nat) (st : PState κ) : p1 (f+1) st =
    match st.rest with
    | [] => .error .unexpectedEnd
    | t :: rest =>
      if t.typ == .not then andThen (p2 f { st with rest := rest }) (fun st1 => .ok (emit st1 .not))
      else p2 f st := by
  rw [p1]; cases st.rest with
  | nil => rfl
  | cons t rest => dsimp only; generalize p2 f { rest := rest, out := st.out, vars := st.vars } = r; cases r <;> rfl

theorem p2_succ (f : Nat) (st : PState κ) : p2 (f+1) st =
    if st.rest.isEmpty then .error .unexpectedEnd else andThen (p3 f st) (p2loop f) := by
  rw [p2]; generalize p3 f _ = r; cases r <;> rfl

theorem p2loop_succ (f : Nat) (st : PState κ) : p2loop (f+1) st =
    match st.rest with
    | [] => .ok st
    | t :: rest =>
      if ops2.contains t.typ then
        andThen (p3 f { st with rest := rest }) (fun st1 => p2loop f (emit st1 t.typ))
      else .ok st := by
  rw [p2loop]; cases st.rest with
  | nil => rfl
  | cons t rest => dsimp only; generalize p3 f _ = r; cases r <;> rfl

theorem p3_succ (f : Nat) (st : PState κ) : p3 (f+1) st =
    if st.rest.isEmpty then .error .unexpectedEnd else andThen (p4 f st) (p3loop f) := by
  rw [p3]; generalize p4 f _ = r; cases r <;> rfl

theorem p3loop_succ (f : Nat) (st : PState κ) : p3loop (f+1) st =
    match st.rest with
    | [] => .ok st
    | t :: rest =>
      if ops3.contains t.typ then
        andThen (p4 f { st with rest := rest }) (fun st1 => p3loop f (emit st1 t.typ))
      else p3extra f st := by
  rw [p3loop]; obtain ⟨rest0, out, vars⟩ := st
  cases rest0 with
  | nil => rfl
  | cons t rest =>
    dsimp only
    by_cases h : ops3.contains t.typ = true
    · rw [if_pos h, if_pos h]; generalize p4 f _ = r; cases r <;> rfl
    · rw [if_neg h, if_neg h]; unfold p3extra; dsimp only
      cases matchTypes [.not, .like] (t :: rest) with
      | some r => dsimp only; generalize p4 f _ = r; cases r <;> rfl
      | none =>
        dsimp only
        cases matchTypes [.is, .null] (t :: rest) with
        | some r => rfl
        | none =>
          dsimp only
          cases matchTypes [.is, .not, .null] (t :: rest) with
          | some r => rfl
          | none =>
            dsimp only
            cases matchTypes [.not, .in_] (t :: rest) with
            | some r => dsimp only; generalize p4 f _ = r; cases r <;> rfl
            | none => rfl

theorem p4_succ (f : Nat) (st : PState κ) : p4 (f+1) st =
    if st.rest.isEmpty then .error .unexpectedEnd else andThen (p5 f st) (p4loop f) := by
  rw [p4]; generalize p5 f _ = r; cases r <;> rfl

theorem p4loop_succ (f : Nat) (st : PState κ) : p4loop (f+1) st =
    match st.rest with
    | [] => .ok st
    | t :: rest =>
      if ops4.contains t.typ then
        andThen (p5 f { st with rest := rest }) (fun st1 => p4loop f (emit st1 t.typ))
      else .ok st := by
  rw [p4loop]; cases st.rest with
  | nil => rfl
  | cons t rest => dsimp only; generalize p5 f _ = r; cases r <;> rfl

theorem p5_succ (f : Nat) (st : PState κ) : p5 (f+1) st =
    if st.rest.isEmpty then .error .unexpectedEnd else andThen (p6 f st) (p5loop f) := by
  rw [p5]; generalize p6 f _ = r; cases r <;> rfl

theorem p5loop_succ (f : Nat) (st : PState κ) : p5loop (f+1) st =
    match st.rest with
    | [] => .ok st
    | t :: rest =>
      if ops5.contains t.typ then
        andThen (p6 f { st with rest := rest }) (fun st1 => p5loop f (emit st1 t.typ))
      else .ok st := by
  rw [p5loop]; cases st.rest with
  | nil => rfl
  | cons t rest => dsimp only; generalize p6 f _ = r; cases r <;> rfl

theorem p6_succ (f : Nat) (st : PState κ) : p6 (f+1) st = andThen (p6head f st) (p6tail f) := by
  rw [p6, p6head]
  cases st.rest with
  | nil => rfl
  | cons t0 rest0 =>
    dsimp only
    cases p6prim f (if (t0.typ == ET.plus || t0.typ == ET.minus) = true then
      { rest := rest0, out := st.out, vars := st.vars } else st) with
    | error e => rfl
    | ok st2 =>
      dsimp only [andThen]
      generalize (if (t0.typ == ET.minus) = true then emit st2 ET.unary else st2) = st3
      unfold p6tail
      cases st3.rest with
      | nil => rfl
      | cons t rest =>
        dsimp only
        generalize p0 f _ = r
        cases r with
        | error e => rfl
        | ok st4 =>
          dsimp only [andThen, closeSquare]
          cases st4.rest <;> rfl

theorem p6prim_succ (f : Nat) (st : PState κ) : p6prim (f+1) st =
    match st.rest with
    | [] => .error .unexpectedEnd
    | p :: rest =>
      if p.typ == .variable && (rest.head?.map (·.typ)) == some .leftBrace then
        andThen (pArgs f { st with rest := rest.drop 1 } 0) (closeCall p)
      else if p.typ == .constant then .ok (emitTok { st with rest := rest } p)
      else if p.typ == .variable then
        .ok (emitTok { st with rest := rest, vars := addVar st.vars p.name } p)
      else if p.typ == .leftBrace then andThen (p0 f { st with rest := rest }) closeParen
      else .error .errorAt := by
  rw [p6prim]
  cases st.rest with
  | nil => rfl
  | cons p rest =>
    dsimp only
    split
    · cases pArgs f { rest := List.drop 1 rest, out := st.out, vars := st.vars } 0 with
      | error e => rfl
      | ok r =>
        dsimp only [andThen, closeCall]
        cases r.1.rest <;> rfl
    · generalize p0 f _ = r
      cases r with
      | error e => rfl
      | ok st1 =>
        dsimp only [andThen, closeParen]
        cases st1.rest <;> rfl

theorem pArgs_succ (f : Nat) (st : PState κ) (n : Nat) : pArgs (f+1) st n =
    match st.rest with
    | [] => .ok (st, n)
    | t :: _ =>
      if t.typ == .rightBrace && n == 0 then .ok (st, n)
      else andThen (p0 f st) (argsNext f n) := by
  rw [pArgs]; cases st.rest with
  | nil => rfl
  | cons t rest =>
    dsimp only
    generalize p0 f _ = r
    cases r with
    | error e => rfl
    | ok st1 =>
      split
      · rfl
      · simp only [andThen, argsNext]
        cases st1.rest <;> rfl

end Parser

end Verif
