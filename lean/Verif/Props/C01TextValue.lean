/-
Non-vacuity of the text-level theorems with a concrete value: the example expression of Props/C01Text.lean
evaluated by the kernel through the whole pipeline.  Kept in its own module because the kernel evaluation of
the case-insensitive variable lookup (generated Unicode case table) takes several minutes; built in the
thorough tier and by setup.
-/
import Verif.Props.C01Text

namespace Verif

/-- a Boolean test on evaluation outcomes (`V` has no decidable equality: it contains floats) -/
def outIsBool (o : Out V) (b : Bool) : Bool :=
  match o with
  | .ok (.bool b') => b' == b
  | _ => false

theorem outIsBool_eq {o : Out V} {b : Bool} (h : outIsBool o b = true) : o = .ok (.bool b) := by
  unfold outIsBool at h
  split at h
  · simp only [beq_iff_eq] at h; rw [h]
  · cases h

/-- variables are found case-insensitively -/
def exampleVars : List (List Rune × V) :=
  [(strOf "A", .int 1), (strOf "b", .int 5), (strOf "Name", .str (strOf "it's"))]

/-- the value of the tree: `1 + 2 * Max(5, 3) > 7` and `"it's" = "it's"` (kernel evaluation;
the case-insensitive look-ups go through the generated case table, which makes this slow) -/
theorem exampleText_value :
    outIsBool (Expr.evalTree (textEnv .safe exampleVars) exampleText) true = true := by
  decide +kernel

/-- … and so the calculator answers `true` on the text -/
theorem exampleText_calculate :
    calculate .safe (strOf "a + 2 * Max ( b , 3 ) > 7 AND name = 'it''s'") exampleVars =
      .ok (.ok (.bool true)) := by
  rw [← exampleText_render, C01_text_calculate .safe exampleText exampleText_wl
    exampleText_printable (by decide) exampleVars, outIsBool_eq exampleText_value]

end Verif
