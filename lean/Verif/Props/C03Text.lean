/-
C03 / C02 / C01 at TEXT level, for EVERY input text — the whole pipeline `calculate`
(trim, expression tokenizer under the parser's options, completeLexicalAnalysis, syntax
analysis with the driver's fuel, RPN evaluation with the variant operations and the default
functions) on an arbitrary rune list, not only on the rendering of a tree (Props/C01Text.lean).

  * `lexAnalysis_shape`, `lexAnalysis_canon` (Lemmas/TextTotalLemmas.lean): lexical analysis emits
    constants with their value, variables decorated with their name, payload-free operators;
  * `C02_text_sound`: every ACCEPTED text spells the sentence of a well-levelled tree and is
    compiled to the post-order of THAT tree, its variable list is that of the tree — nothing
    skipped, nothing reinterpreted (the one accepted input without a tree is the text without any
    token: blank, or comments only; `ParseString` answers the empty program for it);
  * `C02_text_accepts_iff`: acceptance of a text is decided by the grammar alone;
  * `C03_text_total`: `calculate` answers a value, an evaluation error, or a parse error with one
    of seven codes — never a panic, never the model's OUT_OF_FUEL — for every text shorter than
    2^63 runes, every conversion manager and every variable assignment;
  * `C01_text_value`: the value of an accepted text is the value of the tree its tokens spell.

MODEL: Model/Pipeline.lean.  Uses C02 (soundness, completeness, fuel), Parser.p0_map /
evaluate_varDecor (Props/C01Text.lean), the bounded evaluator lemmas and the token budget of the
tokenizer loop (Lemmas/Totality.lean).
-/
import Verif.Lemmas.TextTotalLemmas
import Verif.Props.C03

namespace Verif
open Expr

/-- the error codes `SetExpression` can answer -/
def textCodes : List String :=
  ["UNKNOWN_SYMBOL", "ERROR_AT", "UNEXPECTED_END", "ERROR_NEAR", "MISSED_CLOSE_PARENTHESIS",
   "MISSED_CLOSE_SQUARE_BRACKET", "INTERNAL"]

/-! ## the three answers of `ParseString` -/

/-- `ParseString` by cases on the token list: no token at all — the empty program; a lexical
error; or the answer of `runParse` (driver's fuel) on the output of lexical analysis -/
theorem parseString_cases (text : List Rune) :
    (tokenizeExpression text = [] ∧ parseString text = .ok [] []) ∨
    (tokenizeExpression text ≠ [] ∧
      ∃ e, lexAnalysis (tokenizeExpression text) = .error e ∧ parseString text = .lexErr e) ∨
    (tokenizeExpression text ≠ [] ∧
      ∃ initial, lexAnalysis (tokenizeExpression text) = .ok initial ∧
        parseString text = parseOutcomeOf (runParse (syntaxFuel initial.length) initial)) := by
  unfold parseString
  rw [performParsing_eq]
  cases hx : tokenizeExpression text with
  | nil => exact .inl ⟨rfl, rfl⟩
  | cons a r =>
    have hne : (a :: r).isEmpty = false := rfl
    simp only [hne, Bool.false_eq_true, if_false]
    cases hl : lexAnalysis (a :: r) with
    | error e => exact .inr (.inl ⟨List.cons_ne_nil _ _, e, rfl, rfl⟩)
    | ok initial => exact .inr (.inr ⟨List.cons_ne_nil _ _, initial, rfl, rfl⟩)

/-! ## C02 at text level: soundness -/

/-- **C02, text level ("no silent reinterpretation")**: whatever text `ParseString` accepts,

* either it contains no token at all (blank, or comments only) and the program is empty,
* or the WHOLE output of lexical analysis is the sentence `t.unparse` of a well-levelled tree `t`
  (Variable tokens decorated with their name, `varDecor`), the program is the post-order of
  that tree and the reported variables are the tree's, in order of first occurrence. -/
theorem C02_text_sound (text : List Rune) (prog : List (ETok V)) (vars : List (List Rune))
    (h : parseString text = .ok prog vars) :
    (tokenizeExpression text = [] ∧ prog = [] ∧ vars = []) ∨
    ∃ t : Expr V, t.wl = true ∧
      lexAnalysis (tokenizeExpression text) = .ok (t.unparse.map varDecor) ∧
      prog = t.postorder.map varDecor ∧ vars = Expr.addVars [] t.varOcc := by
  rcases parseString_cases text with ⟨h0, hp⟩ | ⟨_, e, _, hp⟩ | ⟨_, initial, hl, hp⟩
  · rw [hp] at h
    injection h with h1 h2
    exact .inl ⟨h0, h1.symm, h2.symm⟩
  · rw [hp] at h; cases h
  · right
    rw [hp] at h
    obtain ⟨hcan, hdec⟩ := lexAnalysis_canon _ _ hl
    cases hr : runParse (syntaxFuel initial.length) initial with
    | error e => rw [hr] at h; cases h
    | ok st =>
      rw [hr] at h
      simp only [parseOutcomeOf] at h
      injection h with h1 h2
      rw [← hdec] at hr
      obtain ⟨st0, hr0, hst⟩ := runParse_map_ok varDecor_tokMap _ _ st hr
      obtain ⟨t, hw, hu, ho, hv, _⟩ := C02_no_silent_skip _ _ st0 hcan hr0
      refine ⟨t, hw, ?_, ?_, ?_⟩
      · rw [hl, hu, hdec]
      · rw [← h1, hst, ← ho]; rfl
      · rw [← h2, hst, ← hv]; rfl

/-- the same for a text with at least one token: exactly the tree statement -/
theorem C02_text_sound_tokens (text : List Rune) (prog : List (ETok V)) (vars : List (List Rune))
    (hne : tokenizeExpression text ≠ []) (h : parseString text = .ok prog vars) :
    ∃ t : Expr V, t.wl = true ∧
      lexAnalysis (tokenizeExpression text) = .ok (t.unparse.map varDecor) ∧
      prog = t.postorder.map varDecor ∧ vars = Expr.addVars [] t.varOcc := by
  rcases C02_text_sound text prog vars h with ⟨h0, _⟩ | ht
  · exact absurd h0 hne
  · exact ht

/-- … and for a non-empty program -/
theorem C02_text_sound_prog (text : List Rune) (prog : List (ETok V)) (vars : List (List Rune))
    (hne : prog ≠ []) (h : parseString text = .ok prog vars) :
    ∃ t : Expr V, t.wl = true ∧
      lexAnalysis (tokenizeExpression text) = .ok (t.unparse.map varDecor) ∧
      prog = t.postorder.map varDecor ∧ vars = Expr.addVars [] t.varOcc := by
  rcases C02_text_sound text prog vars h with ⟨_, h0, _⟩ | ht
  · exact absurd h0 hne
  · exact ht

/-! ## C02 at text level: completeness and the acceptance criterion -/

/-- **C02, text level, completeness**: a text whose lexical analysis is the sentence of a
well-levelled tree is accepted and compiled to the post-order of that tree -/
theorem C02_text_complete (text : List Rune) (t : Expr V) (hw : t.wl = true)
    (hl : lexAnalysis (tokenizeExpression text) = .ok (t.unparse.map varDecor)) :
    parseString text = .ok (t.postorder.map varDecor) (Expr.addVars [] t.varOcc) := by
  have hpos := Expr.unparse_length_pos t
  rcases parseString_cases text with ⟨h0, _⟩ | ⟨_, e, hle, _⟩ | ⟨_, initial, hli, hp⟩
  · rw [h0] at hl
    simp only [lexAnalysis, Except.ok.injEq] at hl
    have := congrArg List.length hl
    simp only [List.length_nil, List.length_map] at this
    omega
  · rw [hle] at hl; cases hl
  · rw [hli] at hl
    injection hl with hl
    subst hl
    rw [hp, runParse_map varDecor_tokMap,
      C02_complete_bound t hw _ (by simp [syntaxFuel])]
    rfl

/-- **acceptance of a text is decided by the grammar alone**: a text with at least one token is
accepted iff lexical analysis succeeds on it and delivers the sentence of a well-levelled tree -/
theorem C02_text_accepts_iff (text : List Rune) (hne : tokenizeExpression text ≠ []) :
    (∃ prog vars, parseString text = .ok prog vars) ↔
    ∃ t : Expr V, t.wl = true ∧
      lexAnalysis (tokenizeExpression text) = .ok (t.unparse.map varDecor) := by
  constructor
  · rintro ⟨prog, vars, h⟩
    obtain ⟨t, hw, hl, _⟩ := C02_text_sound_tokens text prog vars hne h
    exact ⟨t, hw, hl⟩
  · rintro ⟨t, hw, hl⟩
    exact ⟨_, _, C02_text_complete text t hw hl⟩

/-! ## the error codes of `ParseString` -/

/-- a syntax error of `ParseString` is never the model's "out of fuel" -/
theorem C03_text_fuel_suffices (text : List Rune) : parseString text ≠ .synErr .outOfFuel := by
  rcases parseString_cases text with ⟨_, hp⟩ | ⟨_, e, _, hp⟩ | ⟨_, initial, _, hp⟩
  · rw [hp]; intro h; cases h
  · rw [hp]; intro h; cases h
  · rw [hp]
    have hf := C02_fuel_suffices initial (syntaxFuel initial.length) (Nat.le_refl _)
    cases hr : runParse (syntaxFuel initial.length) initial with
    | ok st => intro h; cases h
    | error e =>
      intro h
      simp only [parseOutcomeOf] at h
      injection h with h
      subst h
      exact hf hr

/-- **every rejection carries one of the seven codes** -/
theorem C03_text_codes (text : List Rune) (c : String) (h : (parseString text).code = some c) :
    c ∈ textCodes := by
  cases hp : parseString text with
  | ok prog vars => rw [hp] at h; cases h
  | lexErr e =>
    rw [hp] at h
    simp only [ParseOutcome.code, Option.some.injEq] at h
    subst h
    cases e <;> decide
  | synErr e =>
    rw [hp] at h
    simp only [ParseOutcome.code, Option.some.injEq] at h
    subst h
    have hne : e ≠ .outOfFuel := by
      intro he; subst he; exact C03_text_fuel_suffices text hp
    cases e <;> first | decide | exact absurd rfl hne

/-! ## C03 at text level -/

/-- the tree of an accepted text has no call with `2^63` or more arguments -/
theorem text_argcLt (text : List Rune) (hlen : text.length < 2 ^ 63) (t : Expr V)
    (hl : lexAnalysis (tokenizeExpression text) = .ok (t.unparse.map varDecor)) :
    argcLt (2 ^ 63) t = true := by
  have h := parserTokens_le text _ hl
  rw [List.length_map] at h
  exact argcLt_of_length3 _ t (by omega)

/-- **C03, text level**: for EVERY text (shorter than `2^63` runes), every conversion manager and
every variable assignment, `calculate` (SetExpression + EvaluateUsingVariables) answers

* a value or an evaluation error code — never a panic —, or
* a parse error with one of the seven codes of `textCodes` — in particular never the model's
  OUT_OF_FUEL: the driver's fuel always suffices. -/
theorem C03_text_total (m : Mgr) (text : List Rune) (vars : List (List Rune × V))
    (hlen : text.length < 2 ^ 63) :
    match calculate m text vars with
    | .ok out => ∀ s, out ≠ .panic s
    | .error c => c ∈ textCodes := by
  unfold calculate
  cases hp : parseString text with
  | lexErr e => exact C03_text_codes text _ (by rw [hp]; rfl)
  | synErr e => exact C03_text_codes text _ (by rw [hp]; rfl)
  | ok prog pv =>
    simp only
    rcases C02_text_sound text prog pv hp with ⟨_, h0, _⟩ | ⟨t, hw, hl, ho, _⟩
    · subst h0
      intro s h; cases h
    · subst ho
      rw [evaluate_varDecor]
      exact no_stack_panicB (textEnv m vars) (2 ^ 63) (fun n hn => textEnv_argc m vars n hn) t
        (C01_wl_opsOk t hw) (text_argcLt text hlen t hl)
        (textEnv_callFn_ne_panic m vars) (textEnv_binop_ne_panic m vars)
        (textEnv_unop_ne_panic m vars)

/-- the parse-error half needs no bound on the text -/
theorem C03_text_error_codes (m : Mgr) (text : List Rune) (vars : List (List Rune × V))
    (c : String) (h : calculate m text vars = .error c) : c ∈ textCodes := by
  unfold calculate at h
  cases hp : parseString text with
  | ok prog pv => rw [hp] at h; cases h
  | lexErr e =>
    rw [hp] at h; injection h with h; subst h
    exact C03_text_codes text _ (by rw [hp]; rfl)
  | synErr e =>
    rw [hp] at h; injection h with h; subst h
    exact C03_text_codes text _ (by rw [hp]; rfl)

/-- **exactly one of result / error**, at text level -/
theorem C03_text_outcome (m : Mgr) (text : List Rune) (vars : List (List Rune × V))
    (hlen : text.length < 2 ^ 63) :
    (∃ v, calculate m text vars = .ok (.ok v)) ∨
    (∃ c, calculate m text vars = .ok (.err c)) ∨
    (∃ c ∈ textCodes, calculate m text vars = .error c) := by
  have h := C03_text_total m text vars hlen
  cases hc : calculate m text vars with
  | error c =>
    rw [hc] at h
    exact .inr (.inr ⟨c, h, rfl⟩)
  | ok out =>
    rw [hc] at h
    cases out with
    | ok v => exact .inl ⟨v, rfl⟩
    | err c => exact .inr (.inl ⟨c, rfl⟩)
    | panic s => exact absurd rfl (h s)

/-! ## C01 at text level, for every accepted text -/

/-- **C01, text level**: the value the calculator computes for ANY accepted text is the value
(`evalTree`, the reference semantics) of THE well-levelled tree whose sentence the tokens of the
text spell; a text without any token evaluates to the error INTERNAL. -/
theorem C01_text_value (m : Mgr) (text : List Rune) (vars : List (List Rune × V))
    (hlen : text.length < 2 ^ 63) (prog : List (ETok V)) (pv : List (List Rune))
    (h : parseString text = .ok prog pv) :
    (tokenizeExpression text = [] ∧ calculate m text vars = .ok (.err "INTERNAL")) ∨
    ∃ t : Expr V, t.wl = true ∧
      lexAnalysis (tokenizeExpression text) = .ok (t.unparse.map varDecor) ∧
      prog = t.postorder.map varDecor ∧ pv = Expr.addVars [] t.varOcc ∧
      calculate m text vars = .ok (Expr.evalTree (textEnv m vars) t) := by
  rcases C02_text_sound text prog pv h with ⟨h0, hp0, _⟩ | ⟨t, hw, hl, ho, hv⟩
  · left
    refine ⟨h0, ?_⟩
    unfold calculate
    rw [h, hp0]
    rfl
  · right
    refine ⟨t, hw, hl, ho, hv, ?_⟩
    unfold calculate
    rw [h, ho]
    simp only
    rw [evaluate_varDecor,
      calc_eq_treeB (textEnv m vars) (2 ^ 63) (fun n hn => textEnv_argc m vars n hn) t
        (C01_wl_opsOk t hw) (text_argcLt text hlen t hl)]

/-- the same for a text with at least one token -/
theorem C01_text_value_tokens (m : Mgr) (text : List Rune) (vars : List (List Rune × V))
    (hlen : text.length < 2 ^ 63) (hne : tokenizeExpression text ≠ [])
    (prog : List (ETok V)) (pv : List (List Rune)) (h : parseString text = .ok prog pv) :
    ∃ t : Expr V, t.wl = true ∧
      lexAnalysis (tokenizeExpression text) = .ok (t.unparse.map varDecor) ∧
      prog = t.postorder.map varDecor ∧ pv = Expr.addVars [] t.varOcc ∧
      calculate m text vars = .ok (Expr.evalTree (textEnv m vars) t) := by
  rcases C01_text_value m text vars hlen prog pv h with ⟨h0, _⟩ | ht
  · exact absurd h0 hne
  · exact ht

/-- the tree is unique: two well-levelled trees with the same sentence compile to the same
program, hence (`C01_text_value`) no accepted text has two readings -/
theorem C02_text_unambiguous (text : List Rune) (t t' : Expr V) (hw : t.wl = true)
    (hw' : t'.wl = true)
    (hl : lexAnalysis (tokenizeExpression text) = .ok (t.unparse.map varDecor))
    (hl' : lexAnalysis (tokenizeExpression text) = .ok (t'.unparse.map varDecor)) :
    t.postorder.map varDecor = t'.postorder.map varDecor := by
  have h1 := C02_text_complete text t hw hl
  have h2 := C02_text_complete text t' hw' hl'
  rw [h1] at h2
  injection h2

/-! ## non-vacuity

Kernel-evaluated.  The operator look-up of lexical analysis upper-cases the spelling with the
generated Unicode case table once per table row, which costs the kernel minutes per token; the
examples use texts without lower-case letters and go through `parseString_upper` /
`calculate_upper` (Lemmas/TextTotalLemmas.lean §6: on such tokens upper-casing is the identity). -/

/-- `1 + 2 *`: a syntax error with a code from the list -/
example : (parseString (strOf "1 + 2 *")).code = some "UNEXPECTED_END" := by
  rw [parseString_upper _ (by decide +kernel)]; decide +kernel
example : (parseString (strOf "( 1 + 2 ]")).code = some "MISSED_CLOSE_PARENTHESIS" := by
  rw [parseString_upper _ (by decide +kernel)]; decide +kernel
example : (parseString (strOf "1 2")).code = some "ERROR_NEAR" := by
  rw [parseString_upper _ (by decide +kernel)]; decide +kernel
/-- lexical errors: an unknown symbol, an integer constant out of range -/
example : (parseString (strOf "1 ? 2")).code = some "UNKNOWN_SYMBOL" := by
  rw [parseString_upper _ (by decide +kernel)]; decide +kernel
example : (parseString (strOf "9223372036854775808")).code = some "ERROR_AT" := by
  rw [parseString_upper _ (by decide +kernel)]; decide +kernel
/-- a blank text and a comment have no token and are accepted with the empty program: the first
alternative of `C02_text_sound` occurs -/
example : tokenizeExpression (strOf "  \t ") = [] := by decide +kernel
example : tokenizeExpression (strOf "/* x */") = [] := by decide +kernel
example : (parseString (strOf "/* x */")).code = none := by
  rw [parseString_upper _ (by decide +kernel)]; decide +kernel

/-- Boolean tests on calculator answers (`V` has no decidable equality: it contains floats) -/
def calcIsInt (r : Except String (Out V)) (i : Int) : Bool :=
  match r with
  | .ok (.ok (.int j)) => j.toInt == i
  | _ => false

def calcIsErr (r : Except String (Out V)) (c : String) : Bool :=
  match r with
  | .ok (.err c') => c' == c
  | _ => false

def calcIsParseErr (r : Except String (Out V)) (c : String) : Bool :=
  match r with
  | .error c' => c' == c
  | _ => false

/-- `2 * ( 3 + 4 )` is accepted and evaluates to 14 -/
example : calcIsInt (calculate .unsafe_ (strOf "2 * ( 3 + 4 )") []) 14 = true := by
  rw [calculate_upper _ _ _ (by decide +kernel)]; decide +kernel
/-- an accepted text whose evaluation is an error (the text without tokens: empty program): the
second alternative of `C03_text_outcome` -/
example : calcIsErr (calculate .unsafe_ (strOf "") []) "INTERNAL" = true := by
  rw [calculate_upper _ _ _ (by decide +kernel)]; decide +kernel
/-- a rejected text: the third alternative -/
example : calcIsParseErr (calculate .safe (strOf "1 + 2 *") []) "UNEXPECTED_END" = true := by
  rw [calculate_upper _ _ _ (by decide +kernel)]; decide +kernel

/-- the hypotheses of `C02_text_sound` / `C01_text_value` are satisfiable: `2 * ( 3 + 4 )` is
accepted, so it spells a well-levelled tree and its value is the value of that tree -/
example : ∃ t : Expr V, t.wl = true ∧
    calculate .unsafe_ (strOf "2 * ( 3 + 4 )") [] = .ok (Expr.evalTree (textEnv .unsafe_ []) t) := by
  have hacc : ∃ prog pv, parseString (strOf "2 * ( 3 + 4 )") = .ok prog pv := by
    cases hp : parseString (strOf "2 * ( 3 + 4 )") with
    | ok prog pv => exact ⟨prog, pv, rfl⟩
    | lexErr e =>
      have hc : (parseString (strOf "2 * ( 3 + 4 )")).code = none := by
        rw [parseString_upper _ (by decide +kernel)]; decide +kernel
      rw [hp] at hc; cases hc
    | synErr e =>
      have hc : (parseString (strOf "2 * ( 3 + 4 )")).code = none := by
        rw [parseString_upper _ (by decide +kernel)]; decide +kernel
      rw [hp] at hc; cases hc
  obtain ⟨prog, pv, hp⟩ := hacc
  obtain ⟨t, hw, _, _, _, hv⟩ := C01_text_value_tokens .unsafe_ _ [] (by decide)
    (by decide +kernel) prog pv hp
  exact ⟨t, hw, hv⟩

end Verif
