package main

import (
	"fmt"
	"strings"

	"github.com/pip-services3-gox/pip-services3-expressions-gox/calculator/parsers"
)

// abstract expression trees, printed with minimal / random / full parenthesisation

type ex struct {
	k    byte // c const, v var, b binary, n NOT, u neg, p plus, q IS NULL, Q IS NOT NULL, f call, i index
	op   int
	text string
	kids []*ex
}

func opLevel(op int) int {
	switch op {
	case parsers.And, parsers.Or, parsers.Xor:
		return 0
	case parsers.Equal, parsers.NotEqual, parsers.More, parsers.Less, parsers.EqualMore, parsers.EqualLess:
		return 2
	case parsers.Plus, parsers.Minus, parsers.Like, parsers.NotLike, parsers.NotIn:
		return 3
	case parsers.Star, parsers.Slash, parsers.Procent:
		return 4
	case parsers.Power, parsers.In, parsers.ShiftLeft, parsers.ShiftRight:
		return 5
	}
	return 9
}

func (e *ex) level() int {
	switch e.k {
	case 'b':
		return opLevel(e.op)
	case 'n':
		return 1
	case 'q', 'Q':
		return 3
	case 'i':
		return 6
	case 'u', 'p':
		return 7
	}
	return 8
}

var binOps = []int{parsers.And, parsers.Or, parsers.Xor, parsers.Equal, parsers.NotEqual, parsers.More, parsers.Less,
	parsers.EqualMore, parsers.EqualLess, parsers.Plus, parsers.Minus, parsers.Like, parsers.NotLike, parsers.NotIn,
	parsers.Star, parsers.Slash, parsers.Procent, parsers.Power, parsers.In, parsers.ShiftLeft, parsers.ShiftRight}

type exGen struct {
	c      *Ctx
	consts []string
	vars   []string
	funcs  []string
	ops    []int
}

func (g *exGen) gen(depth int) *ex {
	r := g.c.Rng
	if depth <= 0 || r.Intn(4) == 0 {
		if r.Intn(2) == 0 {
			return &ex{k: 'c', text: g.consts[r.Intn(len(g.consts))]}
		}
		return &ex{k: 'v', text: g.vars[r.Intn(len(g.vars))]}
	}
	switch r.Intn(12) {
	case 0:
		return &ex{k: 'n', kids: []*ex{g.gen(depth - 1)}}
	case 1:
		return &ex{k: 'u', kids: []*ex{g.gen(depth - 1)}}
	case 2:
		if r.Intn(3) == 0 {
			return &ex{k: 'p', kids: []*ex{g.gen(depth - 1)}}
		}
		return &ex{k: []byte{'q', 'Q'}[r.Intn(2)], kids: []*ex{g.gen(depth - 1)}}
	case 3:
		n := r.Intn(4)
		if r.Intn(6) == 0 {
			n = 5 + r.Intn(4) // long argument lists: the written order must survive any arity
		}
		e := &ex{k: 'f', text: g.funcs[r.Intn(len(g.funcs))]}
		for i := 0; i < n; i++ {
			e.kids = append(e.kids, g.gen(depth-1))
		}
		return e
	case 4:
		return &ex{k: 'i', kids: []*ex{g.gen(depth - 1), g.gen(depth - 1)}}
	default:
		return &ex{k: 'b', op: g.ops[r.Intn(len(g.ops))], kids: []*ex{g.gen(depth - 1), g.gen(depth - 1)}}
	}
}

// print modes: 0 minimal, 1 random extra parentheses, 2 full
func (g *exGen) toks(e *ex, minLevel int, mode int) []string {
	var out []string
	kw := func(s string) string {
		// keyword letter case incl. the non-ASCII letters whose upper case is an ASCII letter (long s, dotless i)
		if g.c.Rng.Intn(8) == 0 {
			// (an expression identifier cannot START with a character above U+00FF, so the first letter stays ASCII)
			alt := map[string][]string{"IS": {"Iſ", "iſ"}, "LIKE": {"lıke", "LıKE"}, "FALSE": {"falſe", "FALſE"}}
			if a, ok := alt[s]; ok {
				return a[g.c.Rng.Intn(len(a))]
			}
		}
		return randCase(g.c, s)
	}
	switch e.k {
	case 'c':
		out = []string{e.text}
		if e.text == "TRUE" || e.text == "FALSE" {
			out = []string{kw(e.text)}
		}
	case 'v':
		out = []string{e.text}
	case 'b':
		l := opLevel(e.op)
		out = append(out, g.toks(e.kids[0], l, mode)...)
		switch e.op {
		case parsers.NotLike:
			out = append(out, kw("NOT"), kw("LIKE"))
		case parsers.NotIn:
			out = append(out, kw("NOT"), kw("IN"))
		default:
			lx := allOpLex[e.op]
			s := lx[g.c.Rng.Intn(len(lx))]
			if s[0] >= 'A' && s[0] <= 'Z' {
				s = kw(s)
			}
			out = append(out, s)
		}
		out = append(out, g.toks(e.kids[1], l+1, mode)...)
	case 'n':
		out = append([]string{kw("NOT")}, g.toks(e.kids[0], 2, mode)...)
	case 'q':
		out = append(g.toks(e.kids[0], 3, mode), kw("IS"), kw("NULL"))
	case 'Q':
		out = append(g.toks(e.kids[0], 3, mode), kw("IS"), kw("NOT"), kw("NULL"))
	case 'u':
		out = append([]string{"-"}, g.toks(e.kids[0], 8, mode)...)
	case 'p':
		out = append([]string{"+"}, g.toks(e.kids[0], 8, mode)...)
	case 'i':
		out = append(g.toks(e.kids[0], 7, mode), "[")
		out = append(out, g.toks(e.kids[1], 0, mode)...)
		out = append(out, "]")
	case 'f':
		out = []string{e.text, "("}
		for i, k := range e.kids {
			if i > 0 {
				out = append(out, ",")
			}
			out = append(out, g.toks(k, 0, mode)...)
		}
		out = append(out, ")")
	}
	need := e.level() < minLevel
	extra := (mode == 2 && e.level() < 8) || (mode == 1 && g.c.Rng.Intn(4) == 0)
	if need || extra {
		out = append(append([]string{"("}, out...), ")")
		if mode == 1 && g.c.Rng.Intn(6) == 0 {
			out = append(append([]string{"("}, out...), ")")
		}
	}
	return out
}

var seps = []string{" ", " ", "  ", "\t", "\n", " /*c*/ ", "/* x */", "\r\n", " /*/ x */ ", "/**/", " /***/ ", " /*/*/ ", "/* * / */"}

func (g *exGen) render(toks []string, fancy bool) string {
	var sb strings.Builder
	for i, t := range toks {
		if i > 0 {
			if fancy {
				sb.WriteString(seps[g.c.Rng.Intn(len(seps))])
			} else {
				sb.WriteString(" ")
			}
		}
		sb.WriteString(t)
	}
	s := sb.String()
	if fancy && g.c.Rng.Intn(3) == 0 {
		s = "  " + s + " \n"
	}
	return s
}

// expected post-order (as model token strings) and variable names in order of first occurrence
func (e *ex) postorder(out *[]string, vars *[]string) {
	switch e.k {
	case 'c':
		*out = append(*out, "36:"+constPayload(e.text))
	case 'v':
		name := e.text
		if strings.HasPrefix(name, "\"") {
			name = strings.ReplaceAll(name[1:len(name)-1], "\"\"", "\"")
		}
		*out = append(*out, "35:"+strRunes(name))
		seen := false
		for _, v := range *vars {
			if v == name {
				seen = true
			}
		}
		if !seen {
			*vars = append(*vars, name)
		}
	case 'b':
		e.kids[0].postorder(out, vars)
		e.kids[1].postorder(out, vars)
		*out = append(*out, fmt.Sprint(e.op))
	case 'n':
		e.kids[0].postorder(out, vars)
		*out = append(*out, fmt.Sprint(parsers.Not))
	case 'q':
		e.kids[0].postorder(out, vars)
		*out = append(*out, fmt.Sprint(parsers.IsNull))
	case 'Q':
		e.kids[0].postorder(out, vars)
		*out = append(*out, fmt.Sprint(parsers.IsNotNull))
	case 'u':
		e.kids[0].postorder(out, vars)
		*out = append(*out, fmt.Sprint(parsers.Unary))
	case 'p':
		e.kids[0].postorder(out, vars)
	case 'i':
		e.kids[0].postorder(out, vars)
		e.kids[1].postorder(out, vars)
		*out = append(*out, fmt.Sprint(parsers.Element))
	case 'f':
		for _, k := range e.kids {
			k.postorder(out, vars)
		}
		*out = append(*out, fmt.Sprintf("36:i%d", len(e.kids)), "34:"+strRunes(e.text))
	}
}

// payload the parser gives a constant lexeme (via the implementation's own lexical analysis)
var constPayloadCache = map[string]string{}

func constPayload(lex string) string {
	if p, ok := constPayloadCache[lex]; ok {
		return p
	}
	o := runParser(lex)
	p := "?"
	if len(o.initial) == 1 && strings.HasPrefix(o.initial[0], "36:") {
		p = o.initial[0][3:]
	}
	constPayloadCache[lex] = p
	return p
}

func newExGen(c *Ctx) *exGen {
	return &exGen{c: c,
		consts: []string{"0", "1", "2", "7", "42", "1.5", "0.25", "'ab'", "''", "'x''y'", "TRUE", "FALSE", "2e3",
			"9007199254740993", "9223372036854775807", "4611686018427387905", "16777217.0", "0.1", "1.", ".5", "1E+2", "3e-2", "123456789.125", "007", "1e38", "33554433.5"},
		vars:  []string{"a", "b", "A", "xyz", "_v1", "\"my var\"", "é1", "iſ_x"},
		funcs: []string{"Max", "min", "SUM", "f", "Array", "If"},
		ops:   binOps}
}
