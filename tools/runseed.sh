#!/bin/bash
# usage: runseed.sh <prop/mutant> <checks...>
m="$1"; shift
echo "##### $m"
/verif/seedtest.sh /tmp/mut/out/$m/patch.diff "$@" 2>&1
