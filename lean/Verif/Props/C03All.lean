/-
C03 (Props/C03.lean) and the totality / soundness of the whole text pipeline for EVERY input text (Props/C03Text.lean).
-/
import Verif.Props.C03
import Verif.Props.C03Text
