/-
C17, second sentence — "Consequently a tokenizer hands every character of a configured range, Latin or
not, to the configured state, and disabling a range really disables it."

The tokenizer's dispatch table, the word state's and the whitespace state's character sets are
`CharReferenceMap`s; a user configuration (`Model/Tokenizer.lean: CfgOp`) is a registration history on
them, so `C17.run_lookup` carries over to every constructed tokenizer and every configuration history.
-/
import Verif.Lemmas.MainLoop
import Verif.Lemmas.LexClass

namespace Verif
open CharMap MapOp

/-- the dispatch-table part of a configuration step, as a registration on the map -/
def CfgOp.toStateOp : CfgOp → Option (MapOp StateId)
  | .state lo hi st => some (.add lo hi st)
  | .clearStates => some .clear
  | _ => none

/-- the word-character part -/
def CfgOp.toWordOp : CfgOp → Option (MapOp Unit)
  | .wordChars lo hi en => some (.add lo hi (if en then some () else none))
  | .clearWordChars => some .clear
  | _ => none

/-- the whitespace-character part -/
def CfgOp.toWsOp : CfgOp → Option (MapOp Unit)
  | .wsChars lo hi en => some (.add lo hi (if en then some () else none))
  | .clearWsChars => some .clear
  | _ => none

theorem configureAll_dispatch (cfg : Cfg) (ops : List CfgOp) :
    (cfg.configureAll ops).dispatch = MapOp.run cfg.dispatch (ops.filterMap CfgOp.toStateOp) := by
  induction ops generalizing cfg with
  | nil => rfl
  | cons op ops ih =>
    show ((cfg.configure op).configureAll ops).dispatch = _
    rw [ih]
    cases op <;> rfl

theorem configureAll_wordChars (cfg : Cfg) (ops : List CfgOp) :
    (cfg.configureAll ops).wordChars = MapOp.run cfg.wordChars (ops.filterMap CfgOp.toWordOp) := by
  induction ops generalizing cfg with
  | nil => rfl
  | cons op ops ih =>
    show ((cfg.configure op).configureAll ops).wordChars = _
    rw [ih]
    cases op <;> rfl

theorem configureAll_wsChars (cfg : Cfg) (ops : List CfgOp) :
    (cfg.configureAll ops).wsChars = MapOp.run cfg.wsChars (ops.filterMap CfgOp.toWsOp) := by
  induction ops generalizing cfg with
  | nil => rfl
  | cons op ops ih =>
    show ((cfg.configure op).configureAll ops).wsChars = _
    rw [ih]
    cases op <;> rfl

theorem configureAll_kind (cfg : Cfg) (ops : List CfgOp) : (cfg.configureAll ops).kind = cfg.kind := by
  induction ops generalizing cfg with
  | nil => rfl
  | cons op ops ih =>
    show ((cfg.configure op).configureAll ops).kind = _
    rw [ih]
    cases op <;> rfl

/-! ### the built-in tables are well-formed maps -/

theorem generic_dispatch_inv : genericCfg.dispatch.Inv := setStates_inv _ _ CharMap.empty_inv
theorem expression_dispatch_inv : expressionCfg.dispatch.Inv := setStates_inv _ _ CharMap.empty_inv
theorem mustache_dispatch_inv : mustacheCfg.dispatch.Inv := setStates_inv _ _ CharMap.empty_inv

theorem genericWordChars_inv : genericWordChars.Inv := by
  unfold genericWordChars
  iterate 7 (refine setChars_inv _ _ _ _ ?_)
  exact CharMap.empty_inv
theorem exprWordChars_inv : exprWordChars.Inv := by
  unfold exprWordChars
  iterate 6 (refine setChars_inv _ _ _ _ ?_)
  exact CharMap.empty_inv
theorem defaultWsChars_inv : defaultWsChars.Inv := by
  unfold defaultWsChars
  iterate 1 (refine setChars_inv _ _ _ _ ?_)
  exact CharMap.empty_inv

/-! ### C17 for tokenizers -/

/-- **C17 (tokenizers)**: after *any* configuration history on a constructed tokenizer, the state a
character is handed to is the one of the latest `SetCharacterState` whose range contains it (after
the last `ClearCharacterStates`), the constructor's choice if there is none — below and above U+0100
alike. -/
theorem C17_tokenizer_dispatch (cfg : Cfg) (hinv : cfg.dispatch.Inv) (ops : List CfgOp) (c : Nat) :
    (cfg.configureAll ops).dispatch.lookup c =
      specRevD (cfg.dispatch.lookup c) c (ops.filterMap CfgOp.toStateOp).reverse := by
  rw [configureAll_dispatch, run_lookup _ _ _ hinv]

/-- the latest registration wins, whatever was configured before it -/
theorem C17_tokenizer_latest_state (cfg : Cfg) (hinv : cfg.dispatch.Inv) (ops : List CfgOp)
    (lo hi c : Nat) (st : Option StateId) (hc : lo ≤ c ∧ c ≤ clampEnd hi) :
    (cfg.configureAll (ops ++ [.state lo hi st])).dispatch.lookup c = st := by
  rw [C17_tokenizer_dispatch cfg hinv]
  simp [CfgOp.toStateOp, specRevD, hc]

/-- registrations that do not concern the dispatch table do not change it -/
theorem C17_tokenizer_later_other_ops (cfg : Cfg) (hinv : cfg.dispatch.Inv) (ops later : List CfgOp)
    (lo hi c : Nat) (st : Option StateId) (hc : lo ≤ c ∧ c ≤ clampEnd hi)
    (hl : ∀ o ∈ later, CfgOp.toStateOp o = none) :
    (cfg.configureAll (ops ++ [.state lo hi st] ++ later)).dispatch.lookup c = st := by
  rw [C17_tokenizer_dispatch cfg hinv]
  have : later.filterMap CfgOp.toStateOp = [] := by
    rw [List.filterMap_eq_nil_iff]; exact hl
  simp [CfgOp.toStateOp, specRevD, hc, this]

/-- "hands every character of a configured range to the configured state": the token that starts at
such a character is the one the configured state produces there (with the main loop's one-character
Unknown fall-back when that state returns an empty token) -/
theorem C17_tokenizer_hands_to_state (cfg : Cfg) (c : Rune) (s : Scanner) (st : StateId)
    (h : cfg.dispatch.lookup c = some st) :
    rawNext cfg c s =
      (let r := runState cfg st (s.content.length + 2) s
       let q : Option Rune := if st == .quote then some c else none
       if r.1.value.isEmpty then
         (⟨{ typ := TT.unknown, value := [(r.2.read).1.getD 0xFFFD], line := s.peekLine, col := s.peekColumn }, q⟩,
          (r.2.read).2)
       else (⟨r.1, q⟩, r.2)) := by
  unfold rawNext
  simp only [h]
  cases st <;> rfl

/-- "disabling a range really disables it": a character whose latest registration carries no state is
returned as a one-character Unknown token -/
theorem C17_tokenizer_disabled (cfg : Cfg) (c : Rune) (s : Scanner)
    (h : cfg.dispatch.lookup c = none) :
    (rawNext cfg c s).1.tok.typ = TT.unknown ∧ (rawNext cfg c s).1.tok.value = [(s.read).1.getD 0xFFFD] := by
  unfold rawNext
  simp [h]

/-- word characters: latest `SetWordChars` covering the character decides, for every history -/
theorem C17_word_chars (cfg : Cfg) (hinv : cfg.wordChars.Inv) (ops : List CfgOp) (c : Nat) :
    (cfg.configureAll ops).wordChars.lookup c =
      specRevD (cfg.wordChars.lookup c) c (ops.filterMap CfgOp.toWordOp).reverse := by
  rw [configureAll_wordChars, run_lookup _ _ _ hinv]

theorem C17_word_chars_latest (cfg : Cfg) (hinv : cfg.wordChars.Inv) (ops : List CfgOp)
    (lo hi c : Nat) (en : Bool) (hc : lo ≤ c ∧ c ≤ clampEnd hi) :
    inMap (cfg.configureAll (ops ++ [.wordChars lo hi en])).wordChars c = en := by
  unfold inMap
  rw [C17_word_chars cfg hinv]
  cases en <;> simp [CfgOp.toWordOp, specRevD, hc]

theorem C17_ws_chars (cfg : Cfg) (hinv : cfg.wsChars.Inv) (ops : List CfgOp) (c : Nat) :
    (cfg.configureAll ops).wsChars.lookup c =
      specRevD (cfg.wsChars.lookup c) c (ops.filterMap CfgOp.toWsOp).reverse := by
  rw [configureAll_wsChars, run_lookup _ _ _ hinv]

theorem C17_ws_chars_latest (cfg : Cfg) (hinv : cfg.wsChars.Inv) (ops : List CfgOp)
    (lo hi c : Nat) (en : Bool) (hc : lo ≤ c ∧ c ≤ clampEnd hi) :
    inMap (cfg.configureAll (ops ++ [.wsChars lo hi en])).wsChars c = en := by
  unfold inMap
  rw [C17_ws_chars cfg hinv]
  cases en <;> simp [CfgOp.toWsOp, specRevD, hc]

/-! ### the comment state's explicit panic is unreachable in the built-in configurations -/

theorem misuseAt_false_of (cfg : Cfg) (h : ∀ c, cfg.misuse c = false) (f : Nat) (s : Scanner) :
    misuseAt cfg f s = false := by
  induction f generalizing s with
  | zero => rfl
  | succ f ih =>
    unfold misuseAt
    cases s.peek with
    | none => rfl
    | some c => simp [h c, ih]

theorem expression_misuse (c : Rune) : expressionCfg.misuse c = false := by
  unfold Cfg.misuse
  by_cases h : expressionCfg.dispatch.lookup c = some .comment
  · have := expression_comment_47 c h
    simp [this]
  · simp [h]

theorem builtin_never_misused (cfg : Cfg) (hk : cfg = expressionCfg ∨ cfg.kind ≠ .expression)
    (f : Nat) (s : Scanner) : misuseAt cfg f s = false := by
  apply misuseAt_false_of
  intro c
  rcases hk with rfl | hk
  · exact expression_misuse c
  · unfold Cfg.misuse
    cases hkk : cfg.kind <;> simp_all

/-- for the built-in tokenizers the checked entry point is the plain one -/
theorem tokenizeChecked_builtin (cfg : Cfg) (hk : cfg = expressionCfg ∨ cfg.kind ≠ .expression)
    (o : Opts) (content : List Rune) : tokenizeChecked cfg o content = some (tokenize cfg o content) := by
  unfold tokenizeChecked
  rw [builtin_never_misused cfg hk]; rfl

/-- Non-vacuity: Cyrillic registered as word start over the expression tokenizer's default symbol range,
Greek afterwards — both answer with the word state, their neighbours still with the symbol state; and a
later nil registration disables a sub-range. -/
example :
    let cfg := expressionCfg.configureAll [.state 0x400 0x4ff (some .word), .state 0x370 0x3ff (some .word),
      .state 0x410 0x41f none]
    cfg.dispatch.lookup 0x436 = some .word ∧ cfg.dispatch.lookup 0x3bb = some .word ∧
    cfg.dispatch.lookup 0x500 = some .symbol ∧ cfg.dispatch.lookup 0x416 = none := by
  refine ⟨?_, ?_, ?_, ?_⟩ <;> decide

end Verif
