#!/bin/bash
# usage: tools/mutcheck.sh <patch.diff> <Cxx> [<Cyy> ...]     (env TIER=quick|thorough, KEEP=1 keeps the scratch dirs)
# Self-validation tool (not referenced by MANIFEST.json): checks a seeded change WITHOUT touching /repo.
# It makes a private copy of /verif and a scratch git worktree of /repo under /tmp/scratch, applies the
# patch to the worktree and runs the copy's ./check with VERIF_REPO pointing at it.  Several of these can
# run in parallel.  Everything is removed afterwards.
set -u
patch="$(readlink -f "$1")"; shift
id=$$-$RANDOM
base=/tmp/scratch/mc-$id
mkdir -p /tmp/scratch
git -C /repo worktree add --detach "$base-repo" HEAD >/dev/null 2>&1 || { echo "cannot create worktree"; exit 2; }
cleanup() {
  [ "${KEEP:-0}" = 1 ] && return
  git -C /repo worktree remove --force "$base-repo" >/dev/null 2>&1
  rm -rf "$base-verif"
}
trap cleanup EXIT
git -C "$base-repo" apply "$patch" || { echo "patch does not apply"; exit 2; }
rsync -a --exclude .git --exclude replays --exclude '.work/*.log' --exclude .work/reg --exclude .work/m5 "${VERIF_SRC:-/verif}/" "$base-verif/"
mkdir -p "$base-verif/replays"
cd "$base-verif"
for p in "$@"; do
  echo "=== $p"
  VERIF_REPO="$base-repo" ./check "$p" ${TIER:-quick} 2>&1 | grep -E "^(OK|VIOLATION|KNOWN|  failing input|  implementation|   |  no longer)" | cut -c1-400 | head -8
done
