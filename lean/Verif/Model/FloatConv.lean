/-
Integer ↔ binary64 conversion on bit patterns.

`Float.ofInt` / `Float.toInt64` are opaque to the kernel, so the round trip "long → double → long" named in C07
could only be carried by the stream.  Here both directions are defined on the *bit pattern* with `Nat` / `Int`
arithmetic only (same layout as `Model/FloatCmp.lean`: sign = bit 63, exponent field = bits 52…62, fraction =
bits 0…51), so the round trip and the order preservation are theorems (`Props/C07Float.lean`).

The driver compares these definitions with the conversions the model uses (`i64ToF64`, `f64ToI64`) on every
`conv` line of the C07 stream, and the stream compares those bit for bit with Go's `float64(i)` / `int64(x)`.
-/
import Verif.Model.FloatCmp

namespace Verif

/-- the pattern of `float64(n)`: exact when `|n| < 2^53`, otherwise round to nearest, ties to even (a carry
out of the 53-bit significand runs into the exponent field, which is exactly the next binade) -/
def i64ToF64Bits (n : Int) : Nat :=
  if n = 0 then 0 else
  let a := n.natAbs
  let e := a.log2
  let sig :=
    if e ≤ 52 then a * 2 ^ (52 - e)
    else
      let sh := e - 52
      let q := a / 2 ^ sh
      let r := a % 2 ^ sh
      let half := 2 ^ (sh - 1)
      if r > half || (r == half && q % 2 == 1) then q + 1 else q
  (if n < 0 then 2 ^ 63 else 0) + (e + 1023) * 2 ^ 52 + (sig - 2 ^ 52)

/-- truncation toward zero of the finite binary64 with pattern `b`, when its magnitude is below `2^63`;
`none` for NaN, infinities and magnitudes `≥ 2^63` (where Go's amd64 conversion gives the indefinite value) -/
def f64BitsToInt (b : Nat) : Option Int :=
  let ex := fpExp 11 52 b
  let m := fpFrac 52 b
  if ex < 1023 then some 0
  else if ex ≥ 1023 + 63 then none
  else
    let e := ex - 1023
    let sig := 2 ^ 52 + m
    let a : Nat := if e ≥ 52 then sig * 2 ^ (e - 52) else sig / 2 ^ (52 - e)
    some (if fpSign 11 52 b then -(a : Int) else (a : Int))

end Verif
