/-
C20, the part that needs pointers: own copy of the list, growth with fresh nulls, Clone shares
nothing, mutating a clone never changes the original — over the pointer-level model
Verif/Model/VariantHeap.lean.

Invariant.  `WF h` = `Closed h` (every stored reference is in bounds) ∧ `Acyclic h` (no object
is reachable from one of its own elements) ∧ `Typed h` (no scalar cell holds an array value).
Section 0 shows that EVERY operation of the model preserves it; the only operation with a side
condition is `assign dst src`, which needs `¬ Reach h src dst` ("the destination is not nested
inside the source"; otherwise the assignment creates a cyclic array, in the model as in Go).

Fuel.  The theorems hold for EVERY fuel: `read h f r` is the deep value cut off below nesting
level `f`, and a freshly built value `v` reads back as `trunc f v`.  With enough fuel
(`depth v < f`) `trunc f v = v` (`trunc_of_depth_lt`) and `read` no longer depends on the fuel
(`read_stable`), which gives the statements in their plain form.
-/
import Verif.Lemmas.HeapLemmas

namespace Verif
namespace VHeap

/-! ## 0. the invariant and its preservation -/

/-- well-formed heap -/
structure WF (h : VHeap) : Prop where
  closed : Closed h
  acyclic : Acyclic h
  typed : Typed h

theorem WF.wfh {h : VHeap} (hw : WF h) : WFh h := ⟨hw.closed, hw.acyclic⟩

theorem C20H_wf_empty : WF ⟨[]⟩ := ⟨wfh_empty.1, wfh_empty.2, typed_empty⟩

/-- allocating a deep value preserves the invariant -/
theorem C20H_wf_allocV {h : VHeap} (hw : WF h) (v : V) : WF (allocV h v).1 :=
  have hx := freshExt_allocV h v
  ⟨closed_freshExt hw.closed hx, acyclic_freshExt hw.wfh hx, typed_allocV hw.typed v⟩

theorem C20H_wf_clone {h : VHeap} (hw : WF h) (fuel r : Nat) : WF (clone h fuel r).1 :=
  C20H_wf_allocV hw _

theorem C20H_wf_pad {h : VHeap} (hw : WF h) (es : List Nat) (k : Nat) : WF (pad h es k).1 :=
  have hx := freshExt_pad h es k
  ⟨closed_freshExt hw.closed hx, acyclic_freshExt hw.wfh hx, typed_pad hw.typed es k⟩

theorem C20H_wf_setLength {h h' : VHeap} {r n : Nat} (hw : WF h) (hs : setLength h r n = some h') :
    WF h' := by
  obtain ⟨es, hc, st, hlen, _⟩ := setLength_step hs
  have hrefs : ∀ e ∈ es, e ∈ refs (h.cell r) := by intro e he; simp [hc, refs, he]
  have := st.wfh_of_refsFrom hw.wfh (old := es)
    (by
      intro e he
      simp only [refs, List.mem_append, List.mem_range'_1] at he
      rcases he with he | he
      · exact .inl he
      · right; omega)
    (fun e he => ⟨hw.closed r e (hrefs e he), hw.acyclic r e (hrefs e he)⟩)
  refine ⟨this.1, this.2, ?_⟩
  obtain ⟨es', _, rfl⟩ := setLength_some hs
  exact typed_write (typed_pad hw.typed _ _) (cellTyped_arr _) r

theorem C20H_wf_setByIndex {h h' : VHeap} {r : Nat} {i : Int} {e : V} (hw : WF h)
    (hs : setByIndex h r i e = some h') : WF h' := by
  obtain ⟨es, a, hc, hi, st, hage, halt, _, _⟩ := setByIndex_step hs
  have hrefs : ∀ e ∈ es, e ∈ refs (h.cell r) := by intro e he; simp [hc, refs, he]
  have hlen := st.length_le
  have := st.wfh_of_refsFrom hw.wfh (old := es)
    (by
      intro x hx
      simp only [refs] at hx
      rcases List.mem_or_eq_of_mem_set hx with hx | hx
      · simp only [List.mem_append, List.mem_range'_1] at hx
        rcases hx with hx | hx
        · exact .inl hx
        · right; omega
      · right; omega)
    (fun e he => ⟨hw.closed r e (hrefs e he), hw.acyclic r e (hrefs e he)⟩)
  refine ⟨this.1, this.2, ?_⟩
  obtain ⟨es', _, _, rfl⟩ := setByIndex_some hs
  exact typed_write (typed_allocV (typed_pad hw.typed _ _) e) (cellTyped_arr _) r

theorem C20H_wf_mutElem {h h' : VHeap} {r : Nat} {i : Int} {v : V} (hw : WF h)
    (hs : mutElem h r i v = some h') : WF h' := by
  obtain ⟨er, _, st, hrf, _⟩ := mutElem_step hw.closed hs
  have := st.wfh_of_refsFrom hw.wfh hrf (by simp)
  refine ⟨this.1, this.2, ?_⟩
  obtain ⟨er', _, rfl⟩ := mutElem_some hs
  exact typed_write (typed_build v h hw.typed).1 (typed_build v h hw.typed).2 er'

/-- a typed setter: the object becomes the (non-array) scalar `v` -/
theorem C20H_wf_write_scalar {h : VHeap} (hw : WF h) (r : Nat) (v : V) (hv : ∀ es, v ≠ .array es) :
    WF (h.write r (.scalar v)) := by
  have ht : Typed (h.write r (.scalar v)) :=
    typed_write hw.typed (by intro v' hv' es; cases hv'; exact hv es) r
  by_cases hr : r < h.cells.length
  · have := (write_step (.scalar v) hr).wfh_of_refsFrom hw.wfh (old := []) (by intro e he; simp [refs] at he)
      (by simp)
    exact ⟨this.1, this.2, ht⟩
  · rw [write_of_ge h r _ (by omega)]; exact hw

/-- `Assign` preserves the invariant when the destination is not nested inside the source -/
theorem C20H_wf_assign {h : VHeap} (hw : WF h) {dst src : Nat} (hn : ¬ Reach h src dst) :
    WF (assign h dst src) := by
  have ht : Typed (assign h dst src) := typed_write hw.typed (hw.typed src) dst
  by_cases hd : dst < h.cells.length
  · obtain ⟨st, hrf⟩ := assign_step (src := src) hd
    have := st.wfh_of_refsFrom hw.wfh hrf
      (fun e he => ⟨hw.closed src e he, fun hr => hn (.step he hr)⟩)
    exact ⟨this.1, this.2, ht⟩
  · rw [assign, write_of_ge h dst _ (by omega)]; exact hw

/-- without the side condition `Assign` can tie a knot: with `b = [a]`, `a.Assign(b)` makes
`a = [a]` -/
theorem C20H_assign_can_create_cycle :
    WF ⟨[.arr [], .arr [0]]⟩ ∧ ¬ Acyclic (assign ⟨[.arr [], .arr [0]]⟩ 0 1) := by
  refine ⟨⟨?_, ?_, ?_⟩, ?_⟩
  · intro a e he
    match a with
    | 0 => simp [cell, refs] at he
    | 1 => simp [cell, refs] at he; simp [he]
    | a+2 => simp [cell, refs] at he
  · intro a e he hr
    match a with
    | 0 => simp [cell, refs] at he
    | 1 =>
      simp [cell, refs] at he
      subst he
      cases hr with
      | step he' _ => simp [cell, refs] at he'
    | a+2 => simp [cell, refs] at he
  · intro a v hv
    match a with
    | 0 => simp [cell] at hv
    | 1 => simp [cell] at hv
    | a+2 =>
      simp [cell] at hv
      subst hv
      simp
  · intro hac
    exact hac 0 0 (by simp [assign, write, cell, refs]) (.refl 0)

/-! ## 1. frame lemmas: allocation never changes existing cells -/

theorem C20H_alloc_prefix (h : VHeap) (c : HCell) : h.cells <+: (h.alloc c).1.cells := alloc_prefix h c

theorem C20H_build_prefix (h : VHeap) (v : V) : h.cells <+: (build h v).1.cells := (build_spec v h).ext.1

theorem C20H_buildList_prefix (h : VHeap) (vs : List V) : h.cells <+: (buildList h vs).1.cells :=
  (buildList_spec vs h).ext.1

theorem C20H_allocV_prefix (h : VHeap) (v : V) : h.cells <+: (allocV h v).1.cells :=
  (freshExt_allocV h v).1

theorem C20H_pad_prefix (h : VHeap) (es : List Nat) (k : Nat) : h.cells <+: (pad h es k).1.cells :=
  pad_prefix h es k

theorem C20H_clone_prefix (h : VHeap) (fuel r : Nat) : h.cells <+: (clone h fuel r).1.cells :=
  C20H_allocV_prefix h _

/-- an existing cell is the same cell in any extension -/
theorem C20H_cell_ext {h h1 : VHeap} (hp : h.cells <+: h1.cells) {a : Nat} (ha : a < h.cells.length) :
    h1.cell a = h.cell a := cell_of_prefix hp a ha

/-- an existing object has the same deep value in any extension of a heap whose references are
in bounds (`read` only looks at cells reachable from `r`, all of which existed before) -/
theorem C20H_read_ext {h h1 : VHeap} (hc : Closed h) (hp : h.cells <+: h1.cells) (f : Nat) {r : Nat}
    (hr : r < h.cells.length) : read h1 f r = read h f r := read_of_prefix hc hp f hr

theorem C20H_read_alloc {h : VHeap} (hc : Closed h) (c : HCell) (f : Nat) {r : Nat}
    (hr : r < h.cells.length) : read (h.alloc c).1 f r = read h f r :=
  C20H_read_ext hc (alloc_prefix h c) f hr

theorem C20H_read_allocV {h : VHeap} (hc : Closed h) (v : V) (f : Nat) {r : Nat}
    (hr : r < h.cells.length) : read (allocV h v).1 f r = read h f r :=
  C20H_read_ext hc (C20H_allocV_prefix h v) f hr

theorem C20H_read_build {h : VHeap} (hc : Closed h) (v : V) (f : Nat) {r : Nat}
    (hr : r < h.cells.length) : read (build h v).1 f r = read h f r :=
  C20H_read_ext hc (C20H_build_prefix h v) f hr

theorem C20H_read_pad {h : VHeap} (hc : Closed h) (es : List Nat) (k : Nat) (f : Nat) {r : Nat}
    (hr : r < h.cells.length) : read (pad h es k).1 f r = read h f r :=
  C20H_read_ext hc (pad_prefix h es k) f hr

/-- `read` only looks at the cells reachable from the object (no assumption on the heaps) -/
theorem C20H_read_frame {h h' : VHeap} {r : Nat} (heq : ∀ x, Reach h r x → h'.cell x = h.cell x)
    (f : Nat) : read h' f r = read h f r := read_frame heq f

/-! ## 2. reading back a freshly built value -/

/-- any fuel: the value cut off at the fuel (no assumption on the heap) -/
theorem C20H_build_read_trunc (h : VHeap) (v : V) (fuel : Nat) :
    read (allocV h v).1 fuel (allocV h v).2 = trunc fuel v := read_allocV h v fuel

theorem C20H_build_read (h : VHeap) (v : V) (fuel : Nat) (hf : depth v < fuel) :
    read (allocV h v).1 fuel (allocV h v).2 = v := by
  rw [read_allocV, trunc_of_depth_lt v fuel hf]

/-- the object built is a new cell, and everything reachable from it is new -/
theorem C20H_build_fresh (h : VHeap) (v : V) {x : Nat} (hr : Reach (allocV h v).1 (allocV h v).2 x) :
    h.cells.length ≤ x ∧ x < (allocV h v).1.cells.length := by
  have h1 := reach_fresh (freshExt_allocV h v) hr (allocV_snd_ge h v)
  have := allocV_snd_lt h v
  omega

/-! ## 3. a clone equals its original and shares nothing -/

/-- the clone has the same deep value (at the fuel used for cloning) -/
theorem C20H_clone_equal {h : VHeap} (ht : Typed h) (fuel r : Nat) :
    read (clone h fuel r).1 fuel (clone h fuel r).2 = read h fuel r := by
  rw [clone, read_allocV, trunc_read ht]

/-- without the typing invariant: equal up to the cut-off -/
theorem C20H_clone_equal_trunc (h : VHeap) (fuel r : Nat) :
    read (clone h fuel r).1 fuel (clone h fuel r).2 = trunc fuel (read h fuel r) := by
  rw [clone, read_allocV]

/-- with enough fuel the equality holds for every larger fuel too -/
theorem C20H_clone_equal_stable (h : VHeap) (fuel r : Nat)
    (hd : depth (read h fuel r) < fuel) (g : Nat) (hg : fuel ≤ g) :
    read (clone h fuel r).1 g (clone h fuel r).2 = read h g r := by
  rw [read_stable fuel r hd g hg, clone, read_allocV,
    trunc_of_depth_lt _ g (by omega)]

/-- every cell reachable from the clone is a NEW cell: nothing is shared with anything that
existed before -/
theorem C20H_clone_fresh (h : VHeap) (fuel r : Nat) {x : Nat}
    (hr : Reach (clone h fuel r).1 (clone h fuel r).2 x) :
    h.cells.length ≤ x ∧ x < (clone h fuel r).1.cells.length := C20H_build_fresh h _ hr

/-- the original keeps its deep value when it is cloned -/
theorem C20H_clone_keeps_original {h : VHeap} (hc : Closed h) (fuel : Nat) {r : Nat}
    (hr : r < h.cells.length) (f : Nat) : read (clone h fuel r).1 f r = read h f r :=
  C20H_read_allocV hc _ f hr

/-- clone and original reach disjoint sets of cells -/
theorem C20H_clone_disjoint {h : VHeap} (hc : Closed h) (fuel : Nat) {r : Nat}
    (hr : r < h.cells.length) {x : Nat} (h1 : Reach (clone h fuel r).1 r x)
    (h2 : Reach (clone h fuel r).1 (clone h fuel r).2 x) : False := by
  have := (C20H_clone_fresh h fuel r h2).1
  have := reach_lt hc ((reach_old hc (C20H_clone_prefix h fuel r) hr).1 h1) hr
  omega

/-! ## 4. mutating a clone never changes the original -/

/-- the general step: in an extension `h'` of `h` by fresh cells, an operation that overwrites
a FRESH cell leaves every object of `h` unchanged -/
theorem isolated_step {h h' h'' : VHeap} (hc : Closed h) (hx : FreshExt h h') {r : Nat}
    (hr : r < h.cells.length) {w : Nat} {c : HCell} (st : StepTo h' h'' w c)
    (hw : h.cells.length ≤ w) (f : Nat) : read h'' f r = read h f r := by
  have hc' := closed_freshExt hc hx
  have hr' : r < h'.cells.length := Nat.lt_of_lt_of_le hr hx.length_le
  rw [st.read_other hc' hr' _ f, read_of_prefix hc hx.1 f hr]
  intro hreach
  have := reach_lt hc ((reach_old hc hx.1 hr).1 hreach) hr
  omega

section clone
variable {h : VHeap} (hc : Closed h) (fuel : Nat) {r : Nat} (hr : r < h.cells.length)
include hc hr

theorem C20H_clone_isolated_setLength {n : Nat} {h'' : VHeap}
    (hs : setLength (clone h fuel r).1 (clone h fuel r).2 n = some h'') (f : Nat) :
    read h'' f r = read h f r := by
  obtain ⟨es, _, st, _⟩ := setLength_step hs
  exact isolated_step hc (freshExt_allocV h _) hr st (allocV_snd_ge h _) f

theorem C20H_clone_isolated_setByIndex {i : Int} {e : V} {h'' : VHeap}
    (hs : setByIndex (clone h fuel r).1 (clone h fuel r).2 i e = some h'') (f : Nat) :
    read h'' f r = read h f r := by
  obtain ⟨es, a, _, _, st, _⟩ := setByIndex_step hs
  exact isolated_step hc (freshExt_allocV h _) hr st (allocV_snd_ge h _) f

theorem C20H_clone_isolated_mutElem {i : Int} {v : V} {h'' : VHeap}
    (hs : mutElem (clone h fuel r).1 (clone h fuel r).2 i v = some h'') (f : Nat) :
    read h'' f r = read h f r := by
  have hx := freshExt_allocV h (h.read fuel r)
  obtain ⟨er, he, st, _⟩ := mutElem_step (closed_freshExt hc hx) hs
  have := hx.2 _ (allocV_snd_ge h _) er (elemRef_mem_refs he)
  exact isolated_step hc hx hr st this.1 f

/-- a typed setter on the clone -/
theorem C20H_clone_isolated_write (c : HCell) (f : Nat) :
    read ((clone h fuel r).1.write (clone h fuel r).2 c) f r = read h f r :=
  isolated_step hc (freshExt_allocV h _) hr (write_step c (allocV_snd_lt h _)) (allocV_snd_ge h _) f

/-- `clone.Assign(s)` for any `s` whatsoever -/
theorem C20H_clone_isolated_assign (s : Nat) (f : Nat) :
    read (assign (clone h fuel r).1 (clone h fuel r).2 s) f r = read h f r :=
  C20H_clone_isolated_write hc fuel hr _ f

end clone

/-! ### arbitrary finite sequences of mutations -/

/-- a mutation of the object `t` -/
inductive HOp where
  | setLength (t n : Nat)
  | setByIndex (t : Nat) (i : Int) (e : V)
  | mutElem (t : Nat) (i : Int) (v : V)
  | write (t : Nat) (c : V)
  | assign (t s : Nat)

/-- `none` = Go panics -/
def HOp.apply (h : VHeap) : HOp → Option VHeap
  | .setLength t n => VHeap.setLength h t n
  | .setByIndex t i e => VHeap.setByIndex h t i e
  | .mutElem t i v => VHeap.mutElem h t i v
  | .write t v => some (h.write t (.scalar v))
  | .assign t s => some (VHeap.assign h t s)

/-- the objects an operation touches (target, and source of an `assign`) lie in `P` -/
def HOp.within (P : Nat → Prop) : HOp → Prop
  | .setLength t _ => P t
  | .setByIndex t _ _ => P t
  | .mutElem t _ _ => P t
  | .write t _ => P t
  | .assign t s => P t ∧ P s

def runOps (h : VHeap) : List HOp → Option VHeap
  | [] => some h
  | op :: ops => (op.apply h).bind (fun h' => runOps h' ops)

/-- one operation on objects of a region `P` (closed under references, containing all future
cells) keeps `P` such a region and changes no cell outside `P` -/
theorem op_region {h h' : VHeap} {P : Nat → Prop} (hc : Closed h) (hP : RegInv h P) {op : HOp}
    (hin : op.within P) (hs : op.apply h = some h') :
    Closed h' ∧ RegInv h' P ∧ ∀ x, ¬ P x → h'.cell x = h.cell x := by
  cases op with
  | setLength t n =>
    obtain ⟨es, hcell, st, hlen, _⟩ := setLength_step hs
    have hrf : RefsFrom h h' (.arr (es ++ List.range' h.cells.length (n - es.length))) es := by
      intro e he
      simp only [refs, List.mem_append, List.mem_range'_1] at he
      rcases he with he | he
      · exact .inl he
      · right; omega
    have hmem : ∀ e ∈ es, e ∈ refs (h.cell t) := by intro e he; simp [hcell, refs, he]
    have := st.regInv hP hin hrf (fun e he => hP.1 t hin e (hmem e he))
    refine ⟨st.closed hc ?_, this.1, this.2⟩
    intro e he
    rcases hrf e he with h1 | h1
    · have := hc t e (hmem e h1); omega
    · exact h1.2
  | setByIndex t i e =>
    obtain ⟨es, a, hcell, hi, st, hage, halt, _, _⟩ := setByIndex_step hs
    have hlen := st.length_le
    have hrf : RefsFrom h h'
        (.arr ((es ++ List.range' h.cells.length (i.toNat + 1 - es.length)).set i.toNat a)) es := by
      intro x hx
      simp only [refs] at hx
      rcases List.mem_or_eq_of_mem_set hx with hx | hx
      · simp only [List.mem_append, List.mem_range'_1] at hx
        rcases hx with hx | hx
        · exact .inl hx
        · right; omega
      · right; omega
    have hmem : ∀ e ∈ es, e ∈ refs (h.cell t) := by intro e he; simp [hcell, refs, he]
    have := st.regInv hP hin hrf (fun e he => hP.1 t hin e (hmem e he))
    refine ⟨st.closed hc ?_, this.1, this.2⟩
    intro e he
    rcases hrf e he with h1 | h1
    · have := hc t e (hmem e h1); omega
    · exact h1.2
  | mutElem t i v =>
    obtain ⟨er, he, st, hrf, _⟩ := mutElem_step hc hs
    have := st.regInv hP (hP.1 t hin er (elemRef_mem_refs he)) hrf (by simp)
    refine ⟨st.closed hc ?_, this.1, this.2⟩
    intro e he
    rcases hrf e he with h1 | h1
    · simp at h1
    · exact h1.2
  | write t v =>
    simp only [HOp.apply, Option.some.injEq] at hs
    subst hs
    by_cases ht : t < h.cells.length
    · have st := write_step (.scalar v) ht
      have := st.regInv hP hin (old := []) (by intro e he; simp [refs] at he) (by simp)
      exact ⟨st.closed hc (by intro e he; simp [refs] at he), this.1, this.2⟩
    · rw [write_of_ge h t _ (by omega)]
      exact ⟨hc, hP, fun _ _ => rfl⟩
  | assign t s =>
    simp only [HOp.apply, Option.some.injEq] at hs
    subst hs
    by_cases ht : t < h.cells.length
    · obtain ⟨st, hrf⟩ := assign_step (src := s) ht
      have := st.regInv hP hin.1 hrf (fun e he => hP.1 s hin.2 e he)
      refine ⟨st.closed hc ?_, this.1, this.2⟩
      intro e he
      rw [assign, write_length]
      exact hc s e he
    · rw [assign, write_of_ge h t _ (by omega)]
      exact ⟨hc, hP, fun _ _ => rfl⟩

/-- any finite sequence of mutations of objects in a region `P` leaves every object whose
reachable cells `Q` are disjoint from `P` unchanged -/
theorem C20H_isolated_ops {P Q : Nat → Prop} : ∀ (ops : List HOp) {h hk : VHeap},
    Closed h → RegInv h P → ClosedOn h Q → (∀ x, Q x → ¬ P x) →
    (∀ op ∈ ops, op.within P) → runOps h ops = some hk →
    ∀ (f r : Nat), Q r → read hk f r = read h f r
  | [], h, hk, _, _, _, _, _, hrun, f, r, _ => by
    simp only [runOps, Option.some.injEq] at hrun
    rw [hrun]
  | op :: ops, h, hk, hc, hP, hQ, hdis, hin, hrun, f, r, hr => by
    simp only [runOps] at hrun
    cases hs : op.apply h with
    | none => rw [hs] at hrun; cases hrun
    | some h' =>
      rw [hs] at hrun
      simp only [Option.bind] at hrun
      obtain ⟨hc', hP', hcell⟩ := op_region hc hP (hin op (by simp)) hs
      have heq : ∀ x, Q x → h'.cell x = h.cell x := fun x hx => hcell x (hdis x hx)
      have hQ' : ClosedOn h' Q := by
        intro x hx e he
        rw [heq x hx] at he
        exact hQ x hx e he
      rw [C20H_isolated_ops ops hc' hP' hQ' hdis (fun o ho => hin o (by simp [ho])) hrun f r hr]
      exact read_congr hQ heq f r hr

/-- mutating a clone never changes the original: any finite sequence of `setLength`,
`setByIndex`, `mutElem`, typed setters and `assign` applied to the clone — or to any other NEW
object, e.g. further clones —, `assign` taking its sources among the new objects -/
theorem C20H_clone_isolated_ops {h : VHeap} (hc : Closed h) (fuel : Nat) {r : Nat}
    (hr : r < h.cells.length) (ops : List HOp) {hk : VHeap}
    (hin : ∀ op ∈ ops, op.within (fun x => h.cells.length ≤ x))
    (hrun : runOps (clone h fuel r).1 ops = some hk) (f : Nat) : read hk f r = read h f r := by
  have hx := freshExt_allocV h (h.read fuel r)
  have hc' := closed_freshExt hc hx
  have hP : RegInv (clone h fuel r).1 (fun x => h.cells.length ≤ x) :=
    ⟨fun x hxx e he => (hx.2 x hxx e he).1, fun x hxx => Nat.le_trans hx.length_le hxx⟩
  have hQ : ClosedOn (clone h fuel r).1 (fun x => x < h.cells.length) := by
    intro x hxx e he
    rw [clone, hx.cell_old hxx] at he
    exact hc x e he
  rw [C20H_isolated_ops (Q := fun x => x < h.cells.length) ops hc' hP hQ (fun x h1 h2 => by omega)
    hin hrun f r hr]
  exact C20H_clone_keeps_original hc fuel hr f

/-- the honest version with `assign` from EXISTING objects: after `clone.Assign(s)` the clone
shares `s`'s element objects, so `mutElem` through the clone changes `s` — but it cannot change
`r` as long as the sources share nothing with `r`.  `S` is the set of admissible sources (closed
under references in `h`); the condition is that no cell reachable from `r` lies in `S`. -/
theorem C20H_clone_isolated_ops_sharing {h : VHeap} (hc : Closed h) (fuel : Nat) {r : Nat}
    (hr : r < h.cells.length) (S : Nat → Prop) (hS : ClosedOn h S)
    (hdis : ∀ x, Reach h r x → ¬ S x) (ops : List HOp) {hk : VHeap}
    (hin : ∀ op ∈ ops, op.within (fun x => S x ∨ h.cells.length ≤ x))
    (hrun : runOps (clone h fuel r).1 ops = some hk) (f : Nat) : read hk f r = read h f r := by
  have hx := freshExt_allocV h (h.read fuel r)
  have hc' := closed_freshExt hc hx
  have hP : RegInv (clone h fuel r).1 (fun x => S x ∨ h.cells.length ≤ x) := by
    refine ⟨?_, fun x hxx => .inr (Nat.le_trans hx.length_le hxx)⟩
    intro x hxx e he
    by_cases hlt : x < h.cells.length
    · rw [clone, hx.cell_old hlt] at he
      rcases hxx with hxx | hxx
      · exact .inl (hS x hxx e he)
      · omega
    · exact .inr (hx.2 x (by omega) e he).1
  have hQ : ClosedOn (clone h fuel r).1 (Reach h r) := by
    intro x hxx e he
    rw [clone, hx.cell_old (reach_lt hc hxx hr)] at he
    exact hxx.snoc he
  rw [C20H_isolated_ops (Q := Reach h r) ops hc' hP hQ
    (fun x h1 h2 => by
      rcases h2 with h2 | h2
      · exact hdis x h1 h2
      · have := reach_lt hc h1 hr; omega)
    hin hrun f r (.refl r)]
  exact C20H_clone_keeps_original hc fuel hr f

/-- the clone is a new object -/
theorem C20H_clone_is_new (h : VHeap) (fuel r : Nat) :
    h.cells.length ≤ (clone h fuel r).2 ∧ (clone h fuel r).2 < (clone h fuel r).1.cells.length :=
  ⟨allocV_snd_ge h _, allocV_snd_lt h _⟩

/-! ## 6. indexed writes past the end grow the array with FRESH nulls -/

theorem setByIndex_fresh_refs {h h' : VHeap} {r : Nat} {i : Int} {e : V} {es : List Nat}
    (hs : setByIndex h r i e = some h') (hc : h.cell r = .arr es) :
    ∀ x, h.cells.length + (i.toNat + 1 - es.length) ≤ x →
      ∀ y ∈ refs (h'.cell x), h.cells.length + (i.toNat + 1 - es.length) ≤ y := by
  obtain ⟨es0, hc0, _, rfl⟩ := setByIndex_some hs
  rw [hc] at hc0
  cases hc0
  intro x hx y hy
  have hr := lt_of_cell_arr hc
  rw [cell_write_ne _ _ _ _ (by omega)] at hy
  have := (freshExt_allocV (pad h es (i.toNat + 1 - es.length)).1 e).2 x
    (by rw [pad_length]; exact hx) y hy
  rw [pad_length] at this
  exact this.1

/-- `setByIndex h r i e` on an array of length `n ≤ i`: the old element references stay, the
positions `n … i-1` refer to consecutive — hence pairwise distinct — NEW cells holding Null,
position `i` refers to a further new cell holding `e` -/
theorem C20H_grow_fresh_nulls {h h' : VHeap} {r : Nat} {i : Int} {e : V} {es : List Nat}
    (hs : setByIndex h r i e = some h') (hc : h.cell r = .arr es) (hn : es.length ≤ i.toNat) :
    ∃ es' a, h'.cell r = .arr es' ∧ es'.length = i.toNat + 1 ∧
      (∀ j, j < es.length → es'[j]? = es[j]?) ∧
      (∀ j, es.length ≤ j → j < i.toNat →
        es'[j]? = some (h.cells.length + (j - es.length)) ∧
        h'.cell (h.cells.length + (j - es.length)) = .scalar .null) ∧
      es'[i.toNat]? = some a ∧ h.cells.length + (i.toNat - es.length) < a ∧
      a < h'.cells.length ∧ (∀ f, read h' f a = trunc f e) := by
  obtain ⟨es0, a, hc0, hi, st, hage, halt, hread, hnull⟩ := setByIndex_step hs
  rw [hc] at hc0
  cases hc0
  have hlen : (es ++ List.range' h.cells.length (i.toNat + 1 - es.length)).length = i.toNat + 1 := by
    simp only [List.length_append, List.length_range']; omega
  refine ⟨_, a, st.cell_target, by rw [List.length_set, hlen], ?_, ?_, ?_, by omega, halt, hread⟩
  · intro j hj
    rw [List.getElem?_set_ne (by omega), List.getElem?_append_left hj]
  · intro j hj1 hj2
    refine ⟨?_, hnull _ (by omega) (by omega)⟩
    rw [List.getElem?_set_ne (by omega), List.getElem?_append_right hj1,
      List.getElem?_range' (by omega)]
    simp
  · rw [List.getElem?_set_self (by omega)]

/-- the new element references are new cells and strictly increasing with the position — in
particular pairwise distinct (a shared padding object would violate this) -/
theorem C20H_grow_new_distinct {h h' : VHeap} {r : Nat} {i : Int} {e : V} {es es' : List Nat}
    (hs : setByIndex h r i e = some h') (hc : h.cell r = .arr es) (hn : es.length ≤ i.toNat)
    (hc' : h'.cell r = .arr es') {j1 j2 x1 x2 : Nat} (h1 : es.length ≤ j1) (h12 : j1 < j2)
    (h1x : es'[j1]? = some x1) (h2x : es'[j2]? = some x2) :
    h.cells.length ≤ x1 ∧ x1 < x2 ∧ x2 < h'.cells.length := by
  obtain ⟨es0, a, hc0, hlen, _, hpad, ha, hagt, halt, _⟩ := C20H_grow_fresh_nulls hs hc hn
  rw [hc'] at hc0
  cases hc0
  have hj2 : j2 < es'.length := by
    apply Nat.lt_of_not_le
    intro hge
    rw [List.getElem?_eq_none hge] at h2x
    cases h2x
  rw [(hpad j1 h1 (by omega)).1] at h1x
  cases h1x
  by_cases hj2k : j2 < i.toNat
  · rw [(hpad j2 (by omega) hj2k).1] at h2x
    cases h2x
    exact ⟨by omega, by omega, by omega⟩
  · have : j2 = i.toNat := by omega
    subst this
    rw [ha] at h2x
    cases h2x
    exact ⟨by omega, by omega, halt⟩

/-- a cell that only `r` refers to is reachable only through `r` -/
theorem reach_only_via {h : VHeap} {r p : Nat} (honly : ∀ x, x ≠ r → p ∉ refs (h.cell x))
    {o : Nat} (hr : Reach h o p) : o = p ∨ Reach h o r := by
  have key : ∀ {o q : Nat}, Reach h o q → q = p → o = p ∨ Reach h o r := by
    intro o q hr
    induction hr with
    | refl => intro hq; exact .inl hq
    | @step a e b he _ ih =>
      intro hq
      rcases ih hq with h1 | h1
      · subst h1
        by_cases ha : a = r
        · subst ha; exact .inr (.refl _)
        · exact absurd he (honly a ha)
      · exact .inr (.step he h1)
  exact key hr rfl

/-- after growing, a padding cell is referred to by `r` only -/
theorem grow_pad_only_via {h h' : VHeap} {r : Nat} {i : Int} {e : V} {es : List Nat}
    (hcl : Closed h) (hs : setByIndex h r i e = some h') (hc : h.cell r = .arr es)
    {p : Nat} (hp1 : h.cells.length ≤ p) (hp2 : p < h.cells.length + (i.toNat + 1 - es.length)) :
    ∀ x, x ≠ r → p ∉ refs (h'.cell x) := by
  obtain ⟨es0, a, hc0, hi, st, hage, halt, hread, hnull⟩ := setByIndex_step hs
  rw [hc] at hc0
  cases hc0
  intro x hxr hmem
  by_cases hx1 : x < h.cells.length
  · rw [st.cell_other hx1 hxr] at hmem
    have := hcl x p hmem
    omega
  · by_cases hx2 : x < h.cells.length + (i.toNat + 1 - es.length)
    · rw [hnull x (by omega) hx2] at hmem
      simp [refs] at hmem
    · have := setByIndex_fresh_refs hs hc x (by omega) p hmem
      omega

/-- mutating ONE padding cell in place (`v.GetByIndex(j).SetAs…`) changes no other existing
cell, no other padding cell, not the new element, no object that does not contain `r`; in `r`
itself exactly position `j` changes.  With one shared padding object (e.g. a global Empty
variant) every clause except the first would be false. -/
theorem C20H_grow_padding_independent {h h' h'' : VHeap} {r : Nat} {i : Int} {e v : V}
    {es : List Nat} {j : Nat} (hw : WF h) (hs : setByIndex h r i e = some h')
    (hc : h.cell r = .arr es) (hj1 : es.length ≤ j) (hj2 : j < i.toNat)
    (hm : mutElem h' r (j : Int) v = some h'') :
    -- only the padding cell of position `j` is overwritten
    (∀ x, x < h'.cells.length → x ≠ h.cells.length + (j - es.length) → h''.cell x = h'.cell x) ∧
    -- every object that does not contain `r` keeps its deep value
    (∀ o, o < h'.cells.length → o ≠ h.cells.length + (j - es.length) → ¬ Reach h' o r →
      ∀ f, read h'' f o = read h' f o) ∧
    -- the other padding cells still hold Null
    (∀ j', es.length ≤ j' → j' < i.toNat → j' ≠ j →
      ∀ f, read h'' f (h.cells.length + (j' - es.length)) = .null) ∧
    -- in `r` exactly position `j` changes
    (∀ f, ∃ xs, read h' (f+1) r = .array xs ∧ read h'' (f+1) r = .array (xs.set j (trunc f v))) := by
  have hw' := C20H_wf_setByIndex hw hs
  have hn : es.length ≤ i.toNat := by omega
  obtain ⟨es', a, hc', hlen', hold, hpad, ha, hagt, halt, hread⟩ := C20H_grow_fresh_nulls hs hc hn
  have hpj := hpad j hj1 hj2
  obtain ⟨er, her, st2, _, hval⟩ := mutElem_step hw'.closed hm
  -- the element reference is the padding cell
  have her' : er = h.cells.length + (j - es.length) := by
    obtain ⟨es1, hc1, _, hi1⟩ := elemRef_some her
    rw [hc'] at hc1
    cases hc1
    simp only [Int.toNat_natCast] at hi1
    rw [hpj.1] at hi1
    cases hi1
    rfl
  subst her'
  have hrlt := lt_of_cell_arr hc
  have honly := grow_pad_only_via hw.closed hs hc (p := h.cells.length + (j - es.length))
    (by omega) (by omega)
  have hnr : ∀ o, o ≠ h.cells.length + (j - es.length) → ¬ Reach h' o r →
      ¬ Reach h' o (h.cells.length + (j - es.length)) := by
    intro o ho hor hop
    rcases reach_only_via honly hop with h1 | h1
    · exact ho h1
    · exact hor h1
  have hframe : ∀ o, o < h'.cells.length → o ≠ h.cells.length + (j - es.length) → ¬ Reach h' o r →
      ∀ f, read h'' f o = read h' f o :=
    fun o ho hne hor f => st2.read_other hw'.closed ho (hnr o hne hor) f
  refine ⟨fun x hx hne => st2.cell_other hx hne, hframe, ?_, ?_⟩
  · intro j' h1 h2 hne f
    have hp' := hpad j' h1 h2
    have hscalar : ∀ x, Reach h' (h.cells.length + (j' - es.length)) x →
        x = h.cells.length + (j' - es.length) := by
      intro x hx
      cases hx with
      | refl => rfl
      | step he _ => rw [hp'.2] at he; simp [refs] at he
    have hlt : h.cells.length + (j' - es.length) < h'.cells.length := by omega
    rw [hframe _ hlt (by omega) (fun hr => by have := hscalar r hr; omega) f]
    cases f with
    | zero => rfl
    | succ g => rw [read_succ, hp'.2]; rfl
  · intro f
    refine ⟨es'.map (read h' f), by rw [read_succ, hc']; rfl, ?_⟩
    rw [read_succ, st2.cell_other (Nat.lt_of_lt_of_le hrlt (by have := (setByIndex_step hs); obtain ⟨_, _, _, _, st, _⟩ := this; exact st.length_le)) (by omega), hc']
    simp only [readCell]
    congr 1
    apply List.ext_getElem?
    intro j'
    rw [List.getElem?_set, List.getElem?_map, List.getElem?_map]
    by_cases hjj : j = j'
    · subst hjj
      rw [if_pos rfl, hpj.1, List.length_map, if_pos (by omega)]
      simp only [Option.map_some]
      congr 1
      cases f with
      | zero => simp [read_zero, trunc_zero]
      | succ g => rw [read_succ, st2.cell_target]; exact hval g
    · rw [if_neg hjj]
      cases hx : es'[j']? with
      | none => rfl
      | some x =>
        simp only [Option.map_some]
        congr 1
        have hxmem : x ∈ refs (h'.cell r) := by
          rw [hc']; exact List.mem_of_getElem? hx
        have hxlt := hw'.closed r x hxmem
        have hxne : x ≠ h.cells.length + (j - es.length) := by
          intro hxe
          by_cases hj'1 : j' < es.length
          · rw [hold j' hj'1] at hx
            have := hw.closed r x (by rw [hc]; exact List.mem_of_getElem? hx)
            omega
          · by_cases hj'2 : j' < i.toNat
            · rw [(hpad j' (by omega) hj'2).1] at hx
              cases hx
              omega
            · have hj'3 : j' < es'.length := by
                apply Nat.lt_of_not_le
                intro hge
                rw [List.getElem?_eq_none hge] at hx
                cases hx
              have : j' = i.toNat := by omega
              subst this
              rw [ha] at hx
              cases hx
              omega
        exact hframe x hxlt hxne (hw'.acyclic r x hxmem) f

/-! ## 5. `Assign`: the LIST is the variant's own, the element objects are shared -/

theorem elemRef_congr {h1 h2 : VHeap} {r1 r2 : Nat} (hc : h1.cell r1 = h2.cell r2) (i : Int) :
    elemRef h1 r1 i = elemRef h2 r2 i := by
  unfold elemRef
  rw [hc]

/-- the documented sharing: after `dst.Assign(src)` both refer to the SAME element objects -/
theorem C20H_assign_shares_elements (h : VHeap) {dst : Nat} (src : Nat) (hd : dst < h.cells.length)
    (i : Int) :
    elemRef (assign h dst src) dst i = elemRef (assign h dst src) src i ∧
    elemRef (assign h dst src) src i = elemRef h src i := by
  have h1 : (assign h dst src).cell dst = h.cell src := cell_write_self _ _ _ hd
  have h2 : (assign h dst src).cell src = h.cell src := by
    by_cases hsd : src = dst
    · subst hsd; exact h1
    · exact cell_write_ne _ _ _ _ hsd
  exact ⟨elemRef_congr (h1.trans h2.symm) i, elemRef_congr h2 i⟩

/-- the general step: after `dst.Assign(src)`, an operation that overwrites the cell `dst`
(the list of `dst`) leaves `src` unchanged -/
theorem assign_own_list_step {h h'' : VHeap} (hc : Closed h) {dst src : Nat}
    (hd : dst < h.cells.length) (hsrc : src < h.cells.length) (hn : ¬ Reach h src dst)
    {c : HCell} (st : StepTo (assign h dst src) h'' dst c) (f : Nat) :
    read h'' f src = read h f src := by
  obtain ⟨st1, _⟩ := assign_step (src := src) hd
  have hc1 : Closed (assign h dst src) :=
    st1.closed hc (by intro e he; rw [assign, write_length]; exact hc src e he)
  have hs1 : src < (assign h dst src).cells.length := by rw [assign, write_length]; exact hsrc
  rw [st.read_other hc1 hs1 (fun hr => hn ((st1.reach_other hc hsrc hn dst).1 hr)) f,
    st1.read_other hc hsrc hn f]

/-- `dst.Assign(src)` itself leaves `src` unchanged -/
theorem C20H_assign_keeps_src {h : VHeap} (hc : Closed h) {dst src : Nat}
    (hd : dst < h.cells.length) (hsrc : src < h.cells.length) (hn : ¬ Reach h src dst) (f : Nat) :
    read (assign h dst src) f src = read h f src :=
  (assign_step (src := src) hd).1.read_other hc hsrc hn f

/-- growing `dst` after `dst.Assign(src)` is invisible in `src`: the list is `dst`'s own.
(`¬ Reach h src dst`: `dst` is not nested inside `src`; it implies `dst ≠ src`.) -/
theorem C20H_assign_own_list_setLength {h h'' : VHeap} (hc : Closed h) {dst src n : Nat}
    (hd : dst < h.cells.length) (hsrc : src < h.cells.length) (hn : ¬ Reach h src dst)
    (hs : setLength (assign h dst src) dst n = some h'') (f : Nat) :
    read h'' f src = read h f src := by
  obtain ⟨es, _, st, _⟩ := setLength_step hs
  exact assign_own_list_step hc hd hsrc hn st f

theorem C20H_assign_own_list_setByIndex {h h'' : VHeap} (hc : Closed h) {dst src : Nat} {i : Int}
    {e : V} (hd : dst < h.cells.length) (hsrc : src < h.cells.length) (hn : ¬ Reach h src dst)
    (hs : setByIndex (assign h dst src) dst i e = some h'') (f : Nat) :
    read h'' f src = read h f src := by
  obtain ⟨es, a, _, _, st, _⟩ := setByIndex_step hs
  exact assign_own_list_step hc hd hsrc hn st f

/-- … whereas an in-place mutation of a shared ELEMENT through `dst` is visible through `src`:
both still refer to the element object `er`, which now holds `v` -/
theorem C20H_assign_mutElem_shared {h h'' : VHeap} (hw : WF h) {dst src : Nat} {i : Int} {v : V}
    (hd : dst < h.cells.length) (hn : ¬ Reach h src dst)
    (hm : mutElem (assign h dst src) dst i v = some h'') :
    ∃ er, elemRef h src i = some er ∧ elemRef h'' src i = some er ∧ elemRef h'' dst i = some er ∧
      ∀ f, read h'' (f+1) er = trunc (f+1) v := by
  have hw1 := C20H_wf_assign hw hn (dst := dst)
  obtain ⟨er, her, st2, _, hval⟩ := mutElem_step hw1.closed hm
  have hsh := C20H_assign_shares_elements h src hd i
  rw [hsh.1, hsh.2] at her
  have hmem := elemRef_mem_refs her
  have hne1 : src ≠ er := by
    rintro rfl
    exact hw.acyclic src src hmem (.refl _)
  have hne2 : dst ≠ er := by
    rintro rfl
    exact hn (.step hmem (.refl _))
  have hlt : ∀ x, x < h.cells.length → x < (assign h dst src).cells.length := by
    intro x hx; rw [assign, write_length]; exact hx
  have hsrc : src < h.cells.length := lt_of_mem_refs hmem
  have c1 : h''.cell src = h.cell src := by
    rw [st2.cell_other (hlt _ hsrc) hne1]
    by_cases hsd : src = dst
    · subst hsd; exact cell_write_self _ _ _ hd
    · exact cell_write_ne _ _ _ _ hsd
  have c2 : h''.cell dst = h.cell src := by
    rw [st2.cell_other (hlt _ hd) hne2]
    exact cell_write_self _ _ _ hd
  refine ⟨er, her, ?_, ?_, ?_⟩
  · rw [elemRef_congr c1 i, her]
  · rw [elemRef_congr c2 i, her]
  · intro f
    rw [read_succ, st2.cell_target]
    exact hval f

/-! ## 7. without `mutElem` the heap operations refine the value model -/

theorem read_of_cell_null {h : VHeap} {x : Nat} (hx : h.cell x = .scalar .null) (f : Nat) :
    read h f x = .null := by
  cases f with
  | zero => rfl
  | succ g => rw [read_succ, hx]; rfl

/-- `GetByIndex` -/
theorem C20H_refines_getByIndex {h : VHeap} (ht : Typed h) (f r : Nat) (i : Int) :
    Verif.getByIndex (read h (f+1) r) i = (elemRef h r i).map (read h f) := by
  rw [read_succ]
  unfold elemRef
  cases hc : h.cell r with
  | scalar v =>
    have := ht r v hc
    cases v <;> simp_all [readCell, Verif.getByIndex]
  | arr es =>
    simp only [readCell, Verif.getByIndex]
    split
    · rfl
    · simp [List.getElem?_map]

/-- `SetLength`, including the panic case -/
theorem C20H_refines_setLength {h : VHeap} (hw : WF h) (f r n : Nat) :
    (VHeap.setLength h r n).map (fun h' => read h' (f+1) r) = Verif.setLength (read h (f+1) r) n := by
  cases hs : VHeap.setLength h r n with
  | none =>
    obtain ⟨v, hc⟩ := setLength_none hs
    have := hw.typed r v hc
    rw [read_succ, hc]
    cases v <;> simp_all [readCell, Verif.setLength]
  | some h' =>
    obtain ⟨es, hc, st, hlen, hnull⟩ := setLength_step hs
    simp only [Option.map_some]
    rw [st.read_target, read_succ, hc]
    simp only [readCell, Verif.setLength, List.map_append, List.length_map]
    congr 3
    · apply List.map_congr_left
      intro e he
      have hm : e ∈ refs (h.cell r) := by simp [hc, refs, he]
      exact st.read_other hw.closed (hw.closed r e hm) (hw.acyclic r e hm) f
    · rw [List.eq_replicate_iff]
      refine ⟨by simp, ?_⟩
      intro b hb
      simp only [List.mem_map, List.mem_range'_1] at hb
      obtain ⟨x, hx, rfl⟩ := hb
      exact read_of_cell_null (hnull x hx.1) f

/-- `SetByIndex`, including the panic cases; the stored value is cut off at the fuel -/
theorem C20H_refines_setByIndex_trunc {h : VHeap} (hw : WF h) (f r : Nat) (i : Int) (e : V) :
    (VHeap.setByIndex h r i e).map (fun h' => read h' (f+1) r) =
      Verif.setByIndex (read h (f+1) r) i (trunc f e) := by
  cases hs : VHeap.setByIndex h r i e with
  | none =>
    rcases setByIndex_none hs with ⟨v, hc⟩ | hi
    · have := hw.typed r v hc
      rw [read_succ, hc]
      cases v <;> simp_all [readCell, Verif.setByIndex]
    · simp only [Option.map_none]
      unfold Verif.setByIndex
      split
      · simp [hi]
      · rfl
  | some h' =>
    obtain ⟨es, a, hc, hi, st, hage, halt, hread, hnull⟩ := setByIndex_step hs
    have hi' : ¬ i < 0 := by omega
    simp only [Option.map_some]
    rw [st.read_target, read_succ, hc]
    simp only [readCell, Verif.setByIndex, hi', if_false, List.map_set, List.map_append,
      List.length_map, hread f]
    congr 4
    · apply List.map_congr_left
      intro e he
      have hm : e ∈ refs (h.cell r) := by simp [hc, refs, he]
      exact st.read_other hw.closed (hw.closed r e hm) (hw.acyclic r e hm) f
    · rw [List.eq_replicate_iff]
      refine ⟨by simp, ?_⟩
      intro b hb
      simp only [List.mem_map, List.mem_range'_1] at hb
      obtain ⟨x, hx, rfl⟩ := hb
      exact read_of_cell_null (hnull x hx.1 hx.2) f

theorem C20H_refines_setByIndex {h : VHeap} (hw : WF h) (f r : Nat) (i : Int) (e : V)
    (hd : depth e < f) :
    (VHeap.setByIndex h r i e).map (fun h' => read h' (f+1) r) =
      Verif.setByIndex (read h (f+1) r) i e := by
  rw [C20H_refines_setByIndex_trunc hw, trunc_of_depth_lt e f hd]

/-- a typed setter -/
theorem C20H_refines_write (h : VHeap) {r : Nat} (hr : r < h.cells.length) (v : V) (f : Nat) :
    read (h.write r (.scalar v)) (f+1) r = v := by
  rw [read_succ, cell_write_self _ _ _ hr]; rfl

/-- `Assign`: the destination gets the deep value of the source -/
theorem C20H_refines_assign (h : VHeap) {dst src : Nat} (hd : dst < h.cells.length)
    (hn : ¬ Reach h src dst) (f : Nat) : read (assign h dst src) f dst = read h f src := by
  cases f with
  | zero => rfl
  | succ g =>
    rw [read_succ, read_succ, assign, cell_write_self _ _ _ hd]
    apply readCell_congr (closedOn_reach h src) _ g _
      (fun e he => Reach.step he (.refl e))
    intro x hx
    apply cell_write_ne
    rintro rfl
    exact hn hx

/-- frame: the other objects keep their value (any object that does not contain the target) -/
theorem C20H_frame_setLength {h h' : VHeap} (hc : Closed h) {r n : Nat}
    (hs : VHeap.setLength h r n = some h') {o : Nat} (ho : o < h.cells.length)
    (hn : ¬ Reach h o r) (f : Nat) : read h' f o = read h f o := by
  obtain ⟨es, _, st, _⟩ := setLength_step hs
  exact st.read_other hc ho hn f

theorem C20H_frame_setByIndex {h h' : VHeap} (hc : Closed h) {r : Nat} {i : Int} {e : V}
    (hs : VHeap.setByIndex h r i e = some h') {o : Nat} (ho : o < h.cells.length)
    (hn : ¬ Reach h o r) (f : Nat) : read h' f o = read h f o := by
  obtain ⟨es, a, _, _, st, _⟩ := setByIndex_step hs
  exact st.read_other hc ho hn f

theorem C20H_frame_write {h : VHeap} (hc : Closed h) {r : Nat} (c : HCell) {o : Nat}
    (ho : o < h.cells.length) (hn : ¬ Reach h o r) (f : Nat) :
    read (h.write r c) f o = read h f o := by
  by_cases hr : r < h.cells.length
  · exact (write_step c hr).read_other hc ho hn f
  · rw [write_of_ge h r c (by omega)]

theorem C20H_frame_assign {h : VHeap} (hc : Closed h) {dst src : Nat} {o : Nat}
    (ho : o < h.cells.length) (hn : ¬ Reach h o dst) (f : Nat) :
    read (assign h dst src) f o = read h f o := C20H_frame_write hc _ ho hn f

/-- frame for the in-place mutation: objects that do not contain the mutated element -/
theorem C20H_frame_mutElem {h h' : VHeap} (hc : Closed h) {r : Nat} {i : Int} {v : V}
    (hs : mutElem h r i v = some h') {o : Nat} (ho : o < h.cells.length)
    (hn : ∀ er, elemRef h r i = some er → ¬ Reach h o er) (f : Nat) :
    read h' f o = read h f o := by
  obtain ⟨er, he, st, _⟩ := mutElem_step hc hs
  exact st.read_other hc ho (hn er he) f

/-! ### the refinement for arbitrary finite sequences of operations on one object -/

/-- an operation of the value model -/
inductive VOp where
  | setLength (n : Nat)
  | setByIndex (i : Int) (e : V)
  | set (v : V)

def VOp.apply (x : V) : VOp → Option V
  | .setLength n => Verif.setLength x n
  | .setByIndex i e => Verif.setByIndex x i e
  | .set v => some v

def runV (x : V) : List VOp → Option V
  | [] => some x
  | op :: ops => (op.apply x).bind (fun x' => runV x' ops)

/-- the same operation on the object `r` of a heap -/
def VOp.toH (r : Nat) : VOp → HOp
  | .setLength n => .setLength r n
  | .setByIndex i e => .setByIndex r i e
  | .set v => .write r v

/-- enough fuel for the stored element; a typed setter stores a non-array -/
def VOp.ok (f : Nat) : VOp → Prop
  | .setLength _ => True
  | .setByIndex _ e => depth e < f
  | .set v => ∀ es, v ≠ .array es

theorem C20H_refines_step {h : VHeap} (hw : WF h) {r : Nat} (hr : r < h.cells.length) (f : Nat)
    (op : VOp) (hok : op.ok f) :
    ((op.toH r).apply h).map (fun h' => read h' (f+1) r) = op.apply (read h (f+1) r) ∧
    ∀ h', (op.toH r).apply h = some h' → WF h' ∧ r < h'.cells.length := by
  cases op with
  | setLength n =>
    refine ⟨C20H_refines_setLength hw f r n, ?_⟩
    intro h' hs
    obtain ⟨es, _, st, _⟩ := setLength_step hs
    exact ⟨C20H_wf_setLength hw hs, Nat.lt_of_lt_of_le hr st.length_le⟩
  | setByIndex i e =>
    refine ⟨C20H_refines_setByIndex hw f r i e hok, ?_⟩
    intro h' hs
    obtain ⟨es, a, _, _, st, _⟩ := setByIndex_step hs
    exact ⟨C20H_wf_setByIndex hw hs, Nat.lt_of_lt_of_le hr st.length_le⟩
  | set v =>
    refine ⟨by simp [VOp.toH, HOp.apply, VOp.apply, C20H_refines_write h hr v f], ?_⟩
    intro h' hs
    simp only [VOp.toH, HOp.apply, Option.some.injEq] at hs
    subst hs
    exact ⟨C20H_wf_write_scalar hw r v hok, by rw [write_length]; exact hr⟩

/-- as long as no `mutElem` is used, the pointer-level operations on an object of a well-formed
heap compute exactly what the value model of Verif/Model/Variant.lean computes on its deep
value — panics included -/
theorem C20H_refines_value_model (f : Nat) {r : Nat} : ∀ (ops : List VOp) {h : VHeap}, WF h →
    r < h.cells.length → (∀ op ∈ ops, op.ok f) →
    (runOps h (ops.map (VOp.toH r))).map (fun h' => read h' (f+1) r) = runV (read h (f+1) r) ops
  | [], h, _, _, _ => by simp [runOps, runV]
  | op :: ops, h, hw, hr, hok => by
    obtain ⟨h1, h2⟩ := C20H_refines_step hw hr f op (hok op (by simp))
    simp only [List.map_cons, runOps, runV]
    rw [← h1]
    cases hs : (op.toH r).apply h with
    | none => rfl
    | some h' =>
      obtain ⟨hw', hr'⟩ := h2 h' hs
      simp only [Option.bind, Option.map_some]
      exact C20H_refines_value_model f ops hw' hr' (fun o ho => hok o (by simp [ho]))

/-! ## 8. non-vacuity on tiny heaps -/

/-- `a = [1, 2]`, `c = a.Clone()`, `c[0] := 9` in place: `a` still reads `[1, 2]`, `c` reads
`[9, 2]` -/
example :
    let h0 : VHeap := ⟨[]⟩
    let (h1, a) := allocV h0 (.array [.int 1, .int 2])
    let (h2, c) := clone h1 5 a
    (mutElem h2 c 0 (.int 9)).map (fun h3 => (veq (read h3 5 a) (.array [.int 1, .int 2]),
      veq (read h3 5 c) (.array [.int 9, .int 2]))) = some (true, true) := by decide

/-- `b.Assign(a)` shares the elements: the same in-place mutation through `b` IS visible in `a`;
`b.SetByIndex(3, 7)` is not, and pads with nulls -/
example :
    let h0 : VHeap := ⟨[]⟩
    let (h1, a) := allocV h0 (.array [.int 1, .int 2])
    let (h2, b) := allocV h1 .null
    let h3 := assign h2 b a
    ((mutElem h3 b 0 (.int 9)).bind (fun h4 => setByIndex h4 b 3 (.int 7))).map
      (fun h5 => (veq (read h5 5 a) (.array [.int 9, .int 2]),
        veq (read h5 5 b) (.array [.int 9, .int 2, .null, .int 7]))) = some (true, true) := by
  decide

/-- growth pads with DISTINCT fresh cells: `a = []`, `a[2] := 5`, then `a[0]` mutated in place:
`a[1]` stays Null -/
example :
    let h0 : VHeap := ⟨[]⟩
    let (h1, a) := allocV h0 (.array [])
    ((setByIndex h1 a 2 (.int 5)).bind (fun h2 => mutElem h2 a 0 (.int 8))).map
      (fun h3 => (veq (read h3 5 a) (.array [.int 8, .null, .int 5]),
        elemRef h3 a 0 != elemRef h3 a 1)) = some (true, true) := by decide

/-- the well-formedness hypothesis is satisfiable by what the operations build -/
example : WF (allocV ⟨[]⟩ (.array [.int 1, .array [.null]])).1 := C20H_wf_allocV C20H_wf_empty _

end VHeap
end Verif
