/-
Segment lemmas for the loops that finish WITHOUT a pending look-ahead character
(`quoteLoop`, `quoteLoop2`, `mlLoop`, `specialLoop`) and for the states built on them
(`genericQuoteState`, `escQuoteState`, `cCommentState`, `specialState`): the token value is the
contiguous slice of the content that was moved across the cursor, and the reported position is
the position of the first character of that slice.

Two facts about the model shape the statements (see the `example`s at the end of the file):

* these loops return `(acc, s)` when the fuel runs out, *dropping* a still pending look-ahead
  character; so `SegOK` at exit holds for every fuel only in the disjunctive form `LoopRes`
  below (finished, or fuel exhausted with the look-ahead still pending), and in the plain form
  under the fuel-sufficiency hypothesis `c.length + 1 ≤ f + s.pos` (callers pass
  `content.length + 2`);
* `cCommentState` writes the literal `[47, 42]` (`/*`) as the start of the value, so in the
  comment branch the value is the slice only when the state was entered on a `/`.
-/
import Verif.Lemmas.Seg

namespace Verif
open Scanner

/-! ### finishing a loop from the invariant -/

/-- look-ahead is EOF: the accumulator is the whole slice -/
theorem LoopInv.done_none {c : List Rune} {p0 : Nat} {acc : List Rune} {s : Scanner}
    (h : LoopInv c p0 acc none s) : SegOK c p0 acc s := by
  have := h.finish
  simpa [unreadIfNotEof] using this

/-- the pending character is put back: the accumulator is the slice up to `pos - 1` -/
theorem LoopInv.done_unread {c : List Rune} {p0 : Nat} {acc : List Rune} {ch : Rune} {s : Scanner}
    (h : LoopInv c p0 acc (some ch) s) : SegOK c p0 acc s.unread := by
  have := h.finish
  simpa [unreadIfNotEof] using this

/-- the pending character is written: accumulator plus that character is the whole slice -/
theorem LoopInv.done_some {c : List Rune} {p0 : Nat} {acc : List Rune} {ch : Rune} {s : Scanner}
    (h : LoopInv c p0 acc (some ch) s) : SegOK c p0 (acc ++ [ch]) s := by
  refine ⟨h.content, h.wf, Nat.le_of_lt h.started, ?_⟩
  have := h.seg
  simpa using this

/-- with a pending character the next `read` really advances the cursor -/
theorem LoopInv.read_pos {c : List Rune} {p0 : Nat} {acc : List Rune} {ch : Rune} {s : Scanner}
    (h : LoopInv c p0 acc (some ch) s) : (s.read).2.pos = s.pos + 1 := by
  obtain ⟨hle, _⟩ := h.pos_le
  have hc := h.content
  by_cases hlt : s.pos < c.length
  · exact (read_pos_lt s (by rw [hc]; exact hlt)).2
  · exact (read_pos_eq s (by rw [hc]; omega)).2

/-! ### the every-fuel result of a loop that exits without look-ahead -/

/-- Result of running such a loop with fuel `f` from a scanner at `pos0`: either it finished
(`SegOK`), or the fuel ran out — then the invariant still holds with a character pending and at
least `f` slots were consumed. -/
def LoopRes (c : List Rune) (p0 f pos0 : Nat) (r : List Rune × Scanner) : Prop :=
  SegOK c p0 r.1 r.2 ∨ ∃ ch, LoopInv c p0 r.1 (some ch) r.2 ∧ pos0 + f ≤ r.2.pos

/-- enough fuel: the second alternative is impossible -/
theorem LoopRes.seg {c : List Rune} {p0 f pos0 : Nat} {r : List Rune × Scanner}
    (h : LoopRes c p0 f pos0 r) (hf : c.length + 1 ≤ f + pos0) : SegOK c p0 r.1 r.2 := by
  rcases h with h | ⟨ch, hl, hpos⟩
  · exact h
  · have := hl.pos_le.1
    omega

theorem LoopRes.mono {c : List Rune} {p0 f pos0 pos1 : Nat} {r : List Rune × Scanner}
    (h : LoopRes c p0 f pos1 r) (hp : pos0 + 1 ≤ pos1) : LoopRes c p0 (f+1) pos0 r := by
  rcases h with h | ⟨ch, hl, hpos⟩
  · exact Or.inl h
  · exact Or.inr ⟨ch, hl, by omega⟩

/-! ### the four loops, for every fuel -/

theorem quoteLoop_inv (q : Rune) (f : Nat) {c : List Rune} {p0 : Nat} (acc : List Rune)
    (nx : Option Rune) (s : Scanner) (h : LoopInv c p0 acc nx s) :
    LoopRes c p0 f s.pos (quoteLoop q f acc nx s) := by
  induction f generalizing acc nx s with
  | zero =>
    cases nx with
    | none => exact Or.inl (by simpa only [quoteLoop] using h.done_none)
    | some ch => exact Or.inr ⟨ch, by simpa only [quoteLoop] using h, by simp only [quoteLoop]; omega⟩
  | succ f ih =>
    cases nx with
    | none => exact Or.inl (by simpa only [quoteLoop] using h.done_none)
    | some ch =>
      simp only [quoteLoop]
      split
      · exact Or.inl h.done_some
      · exact (ih _ _ _ h.step).mono (by rw [h.read_pos]; omega)

theorem quoteLoop2_inv (q : Rune) (f : Nat) {c : List Rune} {p0 : Nat} (acc : List Rune)
    (nx : Option Rune) (s : Scanner) (h : LoopInv c p0 acc nx s) :
    LoopRes c p0 f s.pos (quoteLoop2 q f acc nx s) := by
  induction f generalizing acc nx s with
  | zero =>
    cases nx with
    | none => exact Or.inl (by simpa only [quoteLoop2] using h.done_none)
    | some ch => exact Or.inr ⟨ch, by simpa only [quoteLoop2] using h, by simp only [quoteLoop2]; omega⟩
  | succ f ih =>
    cases nx with
    | none => exact Or.inl (by simpa only [quoteLoop2] using h.done_none)
    | some ch =>
      simp only [quoteLoop2]
      split
      · split
        · rename_i hq hpk
          -- doubled quote: two characters are consumed
          have h1 := h.step
          have hpk' : (s.read).1 = some q := by
            rw [← C11_peek_is_next]; exact eq_of_beq hpk
          rw [hpk'] at h1
          have h2 := h1.step
          have e : acc ++ [ch, q] = acc ++ [ch] ++ [q] := by simp
          rw [e]
          exact (ih _ _ _ h2).mono (by rw [h1.read_pos, h.read_pos]; omega)
        · exact Or.inl h.done_some
      · exact (ih _ _ _ h.step).mono (by rw [h.read_pos]; omega)

theorem mlLoop_inv (f : Nat) {c : List Rune} {p0 : Nat} (acc : List Rune) (last : Rune)
    (nx : Option Rune) (s : Scanner) (h : LoopInv c p0 acc nx s) :
    LoopRes c p0 f s.pos (mlLoop f acc last nx s) := by
  induction f generalizing acc last nx s with
  | zero =>
    cases nx with
    | none => exact Or.inl (by simpa only [mlLoop] using h.done_none)
    | some ch => exact Or.inr ⟨ch, by simpa only [mlLoop] using h, by simp only [mlLoop]; omega⟩
  | succ f ih =>
    cases nx with
    | none => exact Or.inl (by simpa only [mlLoop] using h.done_none)
    | some ch =>
      simp only [mlLoop]
      split
      · exact Or.inl h.done_some
      · exact (ih _ _ _ _ h.step).mono (by rw [h.read_pos]; omega)

theorem specialLoop_inv (f : Nat) {c : List Rune} {p0 : Nat} (acc : List Rune)
    (nx : Option Rune) (s : Scanner) (h : LoopInv c p0 acc nx s) :
    LoopRes c p0 f s.pos (specialLoop f acc nx s) := by
  induction f generalizing acc nx s with
  | zero =>
    cases nx with
    | none => exact Or.inl (by simpa only [specialLoop] using h.done_none)
    | some ch => exact Or.inr ⟨ch, by simpa only [specialLoop] using h, by simp only [specialLoop]; omega⟩
  | succ f ih =>
    cases nx with
    | none => exact Or.inl (by simpa only [specialLoop] using h.done_none)
    | some ch =>
      simp only [specialLoop]
      split
      · -- `{{` ahead: the pending `{` is put back
        exact Or.inl h.done_unread
      · exact (ih _ _ _ h.step).mono (by rw [h.read_pos]; omega)

/-! ### the four loops under fuel sufficiency: plain `SegOK` -/

theorem quoteLoop_seg (q : Rune) (f : Nat) {c : List Rune} {p0 : Nat} (acc : List Rune)
    (nx : Option Rune) (s : Scanner) (h : LoopInv c p0 acc nx s) (hf : c.length + 1 ≤ f + s.pos) :
    SegOK c p0 (quoteLoop q f acc nx s).1 (quoteLoop q f acc nx s).2 :=
  (quoteLoop_inv q f acc nx s h).seg hf

theorem quoteLoop2_seg (q : Rune) (f : Nat) {c : List Rune} {p0 : Nat} (acc : List Rune)
    (nx : Option Rune) (s : Scanner) (h : LoopInv c p0 acc nx s) (hf : c.length + 1 ≤ f + s.pos) :
    SegOK c p0 (quoteLoop2 q f acc nx s).1 (quoteLoop2 q f acc nx s).2 :=
  (quoteLoop2_inv q f acc nx s h).seg hf

theorem mlLoop_seg (f : Nat) {c : List Rune} {p0 : Nat} (acc : List Rune) (last : Rune)
    (nx : Option Rune) (s : Scanner) (h : LoopInv c p0 acc nx s) (hf : c.length + 1 ≤ f + s.pos) :
    SegOK c p0 (mlLoop f acc last nx s).1 (mlLoop f acc last nx s).2 :=
  (mlLoop_inv f acc last nx s h).seg hf

theorem specialLoop_seg (f : Nat) {c : List Rune} {p0 : Nat} (acc : List Rune)
    (nx : Option Rune) (s : Scanner) (h : LoopInv c p0 acc nx s) (hf : c.length + 1 ≤ f + s.pos) :
    SegOK c p0 (specialLoop f acc nx s).1 (specialLoop f acc nx s).2 :=
  (specialLoop_inv f acc nx s h).seg hf

/-! ### entering a state: first character written, second read as look-ahead -/

/-- two reads from a position with a next character advance the cursor by exactly two slots
(the second read may consume the EOF slot) -/
theorem read_read_pos (s : Scanner) (hp : s.pos < s.content.length) :
    ((s.read).2.read).2.pos = s.pos + 2 := by
  have hr := read_pos_lt s hp
  have hc := read_content s
  by_cases hlt : s.pos + 1 < s.content.length
  · rw [(read_pos_lt (s.read).2 (by rw [hc, hr.2]; exact hlt)).2, hr.2]
  · rw [(read_pos_eq (s.read).2 (by rw [hc, hr.2]; omega)).2, hr.2]

/-- … and two unreads return exactly to the start -/
theorem read_read_unread_unread_pos (s : Scanner) (hp : s.pos < s.content.length) :
    ((s.read).2.read).2.unread.unread.pos = s.pos := by
  rw [unread_pos, unread_pos, read_read_pos s hp]
  omega

theorem read_some (s : Scanner) (hp : s.pos < s.content.length) :
    (s.read).1 = some ((s.read).1.getD 0) := by
  rw [(read_pos_lt s hp).1]
  rfl

/-- the invariant at loop entry of the quote / comment states: `acc = [q]`, look-ahead = the
second read -/
theorem LoopInv.second (s : Scanner) (hw : s.WF) (hp : s.pos < s.content.length) :
    LoopInv s.content s.pos [(s.read).1.getD 0] ((s.read).2.read).1 ((s.read).2.read).2 := by
  have h0 := LoopInv.first s hw (Nat.le_of_lt hp)
  rw [read_some s hp] at h0
  have h1 := h0.step
  simpa using h1

/-- the scanner after the first read reports the position of the first character -/
theorem read_lc_lt (s : Scanner) (hw : s.WF) (hp : s.pos < s.content.length) :
    ((s.read).2.line, (s.read).2.col) = lcUpTo s.content (s.pos + 1) := by
  have h := (read_wf s hw).2
  rw [read_content, (read_pos_lt s hp).2] at h
  exact h

/-! ### state theorems: value = slice -/

theorem genericQuoteState_seg (f : Nat) (s : Scanner) (hw : s.WF) (hp : s.pos < s.content.length)
    (hf : s.content.length ≤ f + s.pos + 1) :
    SegOK s.content s.pos (genericQuoteState f s).1.value (genericQuoteState f s).2 := by
  have h2 := LoopInv.second s hw hp
  have hpos := read_read_pos s hp
  unfold genericQuoteState
  exact (quoteLoop_inv _ f _ _ _ h2).seg (by rw [hpos]; omega)

theorem escQuoteState_seg (wordForDq : Bool) (f : Nat) (s : Scanner) (hw : s.WF)
    (hp : s.pos < s.content.length) (hf : s.content.length ≤ f + s.pos + 1) :
    SegOK s.content s.pos (escQuoteState wordForDq f s).1.value (escQuoteState wordForDq f s).2 := by
  have h2 := LoopInv.second s hw hp
  have hpos := read_read_pos s hp
  unfold escQuoteState
  exact (quoteLoop2_inv _ f _ _ _ h2).seg (by rw [hpos]; omega)

/-- `specialState` needs no next character: at `pos = len` the value is empty -/
theorem specialState_seg_le (f : Nat) (s : Scanner) (hw : s.WF) (hp : s.pos ≤ s.content.length)
    (hf : s.content.length ≤ f + s.pos) :
    SegOK s.content s.pos (specialState f s).1.value (specialState f s).2 := by
  have h0 := LoopInv.first s hw hp
  have hpos : (s.read).2.pos = s.pos + 1 := by
    by_cases hlt : s.pos < s.content.length
    · exact (read_pos_lt s hlt).2
    · exact (read_pos_eq s (by omega)).2
  unfold specialState
  exact (specialLoop_inv f _ _ _ h0).seg (by rw [hpos]; omega)

theorem specialState_seg (f : Nat) (s : Scanner) (hw : s.WF) (hp : s.pos < s.content.length)
    (hf : s.content.length ≤ f + s.pos) :
    SegOK s.content s.pos (specialState f s).1.value (specialState f s).2 :=
  specialState_seg_le f s hw (Nat.le_of_lt hp) hf

/-- `cCommentState`: `h47` says that whenever the comment branch is taken (second character is
`*`) the state was entered on a `/` — the model writes the literal `/*`, not the characters
read. -/
theorem cCommentState_seg (sym : Scanner → Tok × Scanner) (f : Nat) (s : Scanner) (hw : s.WF)
    (hp : s.pos < s.content.length)
    (h47 : ((s.read).2.read).1 = some 42 → s.peek = some 47)
    (hf : s.content.length ≤ f + s.pos + 2)
    (hsym : ∀ s' : Scanner, s'.WF → s'.content = s.content → s'.pos = s.pos →
      SegOK s.content s.pos (sym s').1.value (sym s').2) :
    SegOK s.content s.pos (cCommentState sym f s).1.value (cCommentState sym f s).2 := by
  have h2 := LoopInv.second s hw hp
  have hpos := read_read_pos s hp
  simp only [cCommentState]
  split
  · rename_i h42
    have h42' : ((s.read).2.read).1 = some 42 := eq_of_beq h42
    have hq : (s.read).1.getD 0 = 47 := by
      rw [← C11_peek_is_next, h47 h42']; rfl
    rw [hq, h42'] at h2
    have h3 : LoopInv s.content s.pos [47, 42] (((s.read).2.read).2.read).1
        (((s.read).2.read).2.read).2 := h2.step
    exact (mlLoop_inv f _ 0 _ _ h3).seg (by rw [h2.read_pos, hpos]; omega)
  · exact hsym _ (unread_wf _ (unread_wf _ (read_wf _ (read_wf _ hw))))
      (by rw [unread_content, unread_content, read_content, read_content])
      (read_read_unread_unread_pos s hp)

/-- the usual instance: the state is dispatched on `/` -/
theorem cCommentState_seg' (sym : Scanner → Tok × Scanner) (f : Nat) (s : Scanner) (hw : s.WF)
    (hp : s.pos < s.content.length) (h47 : s.peek = some 47)
    (hf : s.content.length ≤ f + s.pos + 2)
    (hsym : ∀ s' : Scanner, s'.WF → s'.content = s.content → s'.pos = s.pos →
      SegOK s.content s.pos (sym s').1.value (sym s').2) :
    SegOK s.content s.pos (cCommentState sym f s).1.value (cCommentState sym f s).2 :=
  cCommentState_seg sym f s hw hp (fun _ => h47) hf hsym

/-! ### position theorems: the token is reported at its first character -/

theorem genericQuoteState_pos (f : Nat) (s : Scanner) (hw : s.WF) (hp : s.pos < s.content.length) :
    ((genericQuoteState f s).1.line, (genericQuoteState f s).1.col)
      = lcUpTo s.content (s.pos + 1) := by
  unfold genericQuoteState
  exact read_lc_lt s hw hp

theorem escQuoteState_pos (wordForDq : Bool) (f : Nat) (s : Scanner) (hw : s.WF)
    (hp : s.pos < s.content.length) :
    ((escQuoteState wordForDq f s).1.line, (escQuoteState wordForDq f s).1.col)
      = lcUpTo s.content (s.pos + 1) := by
  unfold escQuoteState
  exact read_lc_lt s hw hp

theorem specialState_pos (f : Nat) (s : Scanner) (hw : s.WF) (hp : s.pos < s.content.length) :
    ((specialState f s).1.line, (specialState f s).1.col) = lcUpTo s.content (s.pos + 1) := by
  unfold specialState
  show (s.peekLine, s.peekColumn) = lcUpTo s.content (s.pos + 1)
  rw [C11_peekLC_next s hp]
  exact read_lc_lt s hw hp

theorem cCommentState_pos (sym : Scanner → Tok × Scanner) (f : Nat) (s : Scanner) (hw : s.WF)
    (hp : s.pos < s.content.length)
    (hsym : ∀ s' : Scanner, s'.WF → s'.content = s.content → s'.pos = s.pos →
      ((sym s').1.line, (sym s').1.col) = lcUpTo s.content (s.pos + 1)) :
    ((cCommentState sym f s).1.line, (cCommentState sym f s).1.col)
      = lcUpTo s.content (s.pos + 1) := by
  simp only [cCommentState]
  split
  · exact read_lc_lt s hw hp
  · exact hsym _ (unread_wf _ (unread_wf _ (read_wf _ (read_wf _ hw))))
      (by rw [unread_content, unread_content, read_content, read_content])
      (read_read_unread_unread_pos s hp)

/-! ### why the extra hypotheses are needed (kernel-checked counterexamples) -/

/-- fuel exhausted: `"a"` with fuel 0 — the value is `"` but two characters were consumed -/
example :
    (genericQuoteState 0 (Scanner.new [34, 97, 34])).1.value
      ≠ slice [34, 97, 34] 0 (min (genericQuoteState 0 (Scanner.new [34, 97, 34])).2.pos 3) := by
  decide

/-- same at loop level: fuel 0 with a pending look-ahead drops that character -/
example :
    (quoteLoop 34 0 [34] (some 97) ((Scanner.new [34, 97, 34]).read.2.read.2)).1
      ≠ slice [34, 97, 34] 0
          (min (quoteLoop 34 0 [34] (some 97) ((Scanner.new [34, 97, 34]).read.2.read.2)).2.pos 3) := by
  decide

/-- `cCommentState` entered on `a` (not `/`) followed by `*`: the value starts with `/` -/
example :
    (cCommentState (fun s => (⟨0, [], 0, 0⟩, s)) 5 (Scanner.new [97, 42, 47])).1.value
      ≠ slice [97, 42, 47] 0
          (min (cCommentState (fun s => (⟨0, [], 0, 0⟩, s)) 5 (Scanner.new [97, 42, 47])).2.pos 3) := by
  decide

/-- non-vacuity of the state theorems with the callers' fuel `len + 2` -/
example : (genericQuoteState 5 (Scanner.new [34, 97, 34])).1.value = [34, 97, 34] := by decide

end Verif
