package main

import (
	"fmt"
	"strings"
	"time"

	"github.com/pip-services3-gox/pip-services3-expressions-gox/tokenizers"
)

// C05 (tokenizer part): reused instances give history-independent results; has-next queries are
// transparent.  (Parser / calculator / template histories are added in calc.go / must.go.)

func historyPool(kind string) [][]rune {
	var pool []string
	switch {
	case kind == "g":
		pool = []string{"<=", "<>", ">=", "<", "a<=1", "a<>b", "'unterminated", "\"x\" y", "#c\nd", "-", ".", "1.5 x", "-.5", "", "é世", "😀", "a  b"}
	case kind == "e":
		pool = []string{"<=", "<>", ">=", "!=", "<<", ">>", "<", ">", "a << 1", "a <= 1", "a <> 1", "a >> 1", "a >= 1", "'unterminated", "\"x\" y", "/* open", "/*c*/ x", "1e5", "2E-", "x/", "-", "", "NOT a", "é世 😀"}
	case kind == "m":
		pool = []string{"{{a}}", "{{{a}}}", "x{{", "{{#if a}}y{{/if}}", "text only", "{{ 'unterminated", "{{a", "}}b{{", "{{ 😀 x }} y", "{{ '}}' z }} w", "", "{{{", "}}}"}
	default:
		pool = []string{"a,b", "\"x,\"\"y\",z", "\"unterminated", "a\r\nb", "a\n\rb", "\r", "\n", ",", "", "é,世"}
	}
	out := make([][]rune, len(pool))
	for i, s := range pool {
		out[i] = []rune(s)
	}
	return out
}

// tokenize a sequence of inputs on ONE instance; after each step compare with a fresh instance
func runHistoryCase(c *Ctx, kind string, opts int, inputs [][]rune, abortAt int) {
	var parts []string
	for _, in := range inputs {
		parts = append(parts, runesStr(in))
	}
	opLabel := fmt.Sprintf("hist %s %d %d %s", kind, opts, abortAt, strings.Join(parts, " "))
	var t tokzr
	if st := safeCall(func() string { t = newTokenizer(kind); setOpts(t, opts); return "" }); st != "" {
		return
	}
	distinctInputs := map[string]bool{}
	for i, in := range inputs {
		distinctInputs[string(in)] = true
		if abortAt != 0 && i < len(inputs)-1 {
			// aborted iteration: fetch only `abortAt` tokens, then replace the reader
			st := safeCallT(3*time.Second, func() string {
				t.SetReader(newScanner(string(in)))
				n := abortAt
				if n < 0 {
					n = -n
				}
				for k := 0; k < n; k++ {
					if !t.HasNextToken() {
						break
					}
					t.NextToken()
				}
				if abortAt < 0 {
					// abandon the iteration right after a has-next query: a token is prefetched
					// and never fetched
					t.HasNextToken()
				}
				return ""
			})
			if st != "" {
				c.fail(Failure{Kind: "oracle", Op: opLabel, Impl: st, Note: "tokenizer did not return normally"})
				return
			}
			continue
		}
		// the step goes through one of the public entry points in turn: TokenizeBuffer, TokenizeStream,
		// an explicit SetReader + HasNextToken/NextToken loop, TokenizeBufferToStrings (values only)
		var got []tk
		var st string
		valuesOnly := false
		switch (i + len(inputs) + abortAt + 8) % 4 {
		case 0:
			got, st = tokenizeOn(t, string(in))
		case 1:
			st = safeCallT(3*time.Second, func() string { got = conv(t.TokenizeStream(newScanner(string(in)))); return "" })
		case 2:
			st = safeCallT(3*time.Second, func() string {
				t.SetReader(newScanner(string(in)))
				var it []*tokenizers.Token
				for n := 0; t.HasNextToken() && n < len(in)+8; n++ {
					it = append(it, t.NextToken())
				}
				got = conv(it)
				return ""
			})
		default:
			valuesOnly = true
			st = safeCallT(3*time.Second, func() string {
				for _, v := range t.TokenizeBufferToStrings(string(in)) {
					got = append(got, tk{Val: []rune(v)})
				}
				return ""
			})
		}
		fresh, st2 := tokenizeImpl(kind, opts, string(in))
		if valuesOnly && st == "" && st2 == "" {
			if valuesOf(got) != valuesOf(fresh) {
				c.fail(Failure{Kind: "oracle", Op: opLabel, Impl: valuesOf(got), Spec: valuesOf(fresh),
					Note: fmt.Sprintf("step %d (input %q, TokenizeBufferToStrings): reused instance gives the values %s, fresh instance %s", i, string(in), valuesOf(got), valuesOf(fresh))})
				return
			}
			got = fresh
		}
		op := tokOpLine(kind, opts, in)
		if st != "" || st2 != "" {
			c.fail(Failure{Kind: "oracle", Op: opLabel, Impl: st + st2, Note: "tokenizer did not return normally"})
			return
		}
		if !eqTks(got, fresh) {
			c.fail(Failure{Kind: "oracle", Op: opLabel, Impl: showTks(got), Spec: showTks(fresh),
				Note: fmt.Sprintf("step %d (input %q): reused instance gives %s, fresh instance gives %s", i, string(in), showTks(got), showTks(fresh))})
			return
		}
		c.model(op, showTks(got), "model")
	}
	c.record(opLabel, len(distinctInputs) >= 2)
	c.count("kind:" + kind[:1])
	c.count(fmt.Sprintf("history-len:%d", min(len(inputs), 9)))
}

// has-next interleavings: pattern digit i = number of HasNextToken calls before the i-th NextToken
func runHasNextCase(c *Ctx, kind string, opts int, pattern string, input []rune) {
	op := fmt.Sprintf("tokh %s %d %s %s", kind, opts, pattern, runesStr(input))
	var got []tk
	incons := ""
	st := safeCallT(3*time.Second, func() string {
		t := newTokenizer(kind)
		setOpts(t, opts)
		t.SetReader(newScanner(string(input)))
		for i := 0; i < len(input)+4; i++ {
			k := int(pattern[i%len(pattern)] - '0')
			answers := make([]bool, k)
			for j := 0; j < k; j++ {
				answers[j] = t.HasNextToken()
			}
			tok := t.NextToken()
			for j, a := range answers {
				if a != (tok != nil) && incons == "" {
					incons = fmt.Sprintf("before fetch #%d, HasNextToken query #%d answered %v but NextToken returned %s", i, j+1, a, map[bool]string{true: "a token", false: "nil"}[tok != nil])
				}
			}
			if tok == nil {
				break
			}
			got = append(got, conv([]*tokenizers.Token{tok})...)
		}
		return ""
	})
	plain, st2 := tokenizeImpl(kind, opts, string(input))
	c.record(op, strings.ContainsAny(pattern, "123") && len(input) > 1)
	c.count("hasnext-pattern")
	if st != "" || st2 != "" {
		c.fail(Failure{Kind: "oracle", Op: op, Impl: st + st2, Note: "tokenizer did not return normally"})
		return
	}
	if !eqTks(got, plain) {
		c.fail(Failure{Kind: "oracle", Op: op, Impl: showTks(got), Spec: showTks(plain), Note: "token sequence depends on how often HasNextToken was called"})
		return
	}
	if incons != "" {
		c.fail(Failure{Kind: "oracle", Op: op, Impl: showTks(got), Note: "the presence query must not depend on how often it is asked: " + incons})
		return
	}
	c.model(op, showTks(got), "model")
}

// a tokenizer that is re-configured AFTER it was used: its tokens for the next input equal those of a new tokenizer that
// was given the same configuration before its first use (nothing looked up for the earlier input may survive)
func runReconfigHistory(c *Ctx, kind string, prev []rune, ops []cfgOp, input []rune, pre ...cfgOp) {
	ss := make([]string, len(ops))
	for i, o := range ops {
		ss[i] = o.String()
	}
	op := fmt.Sprintf("rhist %s %s %s %s", kind, runesStr(prev), strings.Join(ss, "~"), runesStr(input))
	if len(pre) > 0 {
		// a configuration that was already there when the first text was read
		ps := make([]string, len(pre))
		for i, o := range pre {
			ps[i] = o.String()
		}
		op += " " + strings.Join(ps, "~")
	}
	c.record(op, len(prev) > 0 && len(input) > 0)
	c.count("reconfigured-after-use")
	var got []tk
	st := safeCallT(5*time.Second, func() string {
		t := newTokenizer(kind).(cfgTokzr)
		setOpts(t, 0)
		for _, o := range pre {
			applyCfgOp(t, o)
		}
		t.TokenizeBuffer(string(prev))
		for _, o := range ops {
			applyCfgOp(t, o)
		}
		got = conv(t.TokenizeBuffer(string(input)))
		return ""
	})
	fresh, st2 := tokenizeCfg(kind, 0, append(append([]cfgOp(nil), pre...), ops...), input)
	if st != "" || st2 != "" {
		if st != st2 {
			c.fail(Failure{Kind: "oracle", Op: op, Impl: st, Spec: st2, Note: "re-configured tokenizer ended with " + st + ", a new one with the same configuration with " + st2})
		}
		return
	}
	if !eqTks(got, fresh) {
		c.fail(Failure{Kind: "oracle", Op: op, Impl: showTks(got), Spec: showTks(fresh),
			Note: fmt.Sprintf("after tokenizing %q the tokenizer was re-configured (%s); for %q it gives %s, a new tokenizer with the same configuration gives %s", string(prev), strings.Join(ss, " "), string(input), showTks(got), showTks(fresh))})
		return
	}
	c.model(tokcLine(kind, 0, append(append([]cfgOp(nil), pre...), ops...), input), showTks(got), "model")
}

// the same scanner object handed to the tokenizer again after a rewind: a second pass, a pass after an abandoned one
func runSameScanner(c *Ctx, kind string, opts int, input []rune) {
	op := fmt.Sprintf("samesc %s %d %s", kind, opts, runesStr(input))
	c.record(op, len(input) > 0)
	c.count("same-scanner-object-again")
	fresh, st0 := tokenizeImpl(kind, opts, string(input))
	var second, third []tk
	st := safeCallT(5*time.Second, func() string {
		t := newTokenizer(kind)
		setOpts(t, opts)
		sc := newScanner(string(input))
		t.TokenizeStream(sc)
		sc.Reset()
		second = conv(t.TokenizeStream(sc))
		sc.Reset()
		t.SetReader(sc)
		t.HasNextToken()
		t.NextToken()
		t.HasNextToken()
		sc.Reset()
		third = conv(t.TokenizeStream(sc))
		return ""
	})
	if st != "" || st0 != "" {
		if st != st0 {
			c.fail(Failure{Kind: "oracle", Op: op, Impl: st, Spec: st0, Note: "tokenizer did not return normally"})
		}
		return
	}
	if !eqTks(second, fresh) || !eqTks(third, fresh) {
		c.fail(Failure{Kind: "oracle", Op: op, Impl: showTks(second) + " / " + showTks(third), Spec: showTks(fresh),
			Note: fmt.Sprintf("input %q read again from the SAME scanner object after Reset gives %s (second pass) / %s (after an abandoned pass); a new tokenizer gives %s", string(input), showTks(second), showTks(third), showTks(fresh))})
	}
}

func propReconfig(c *Ctx) {
	// symbols registered in two stages with the table in use in between: a longer symbol first, one of its prefixes later
	sym := func(s string) cfgOp { return cfgOp{k: "Y", v: []rune(s), typ: 7} }
	for _, k := range []string{"g", "e"} {
		for _, st := range []struct {
			pre, later []cfgOp
		}{{[]cfgOp{sym("<!--")}, []cfgOp{sym("<!")}}, {[]cfgOp{sym("<!--")}, []cfgOp{sym("<!-")}}, {[]cfgOp{sym("=:=:")}, []cfgOp{sym("=:"), sym("=:=")}}, {[]cfgOp{sym("->>>")}, []cfgOp{sym("->")}},
			{[]cfgOp{sym("<!"), sym("<!--")}, []cfgOp{sym("<!-")}}} {
			for _, prev := range []string{"<!-x", "a <!- b <! c", "=:=1 =:x", "->> ->", "x", "<!--"} {
				for _, in := range []string{"<!-x", "<!x", "a<!-- <!- <! <", "=:=:=:=", "=:1", "->>>->>->", "<!"} {
					runReconfigHistory(c, k, []rune(prev), st.later, []rune(in), st.pre...)
				}
			}
		}
	}
	sets := [][]cfgOp{
		{{k: "D", lo: '#', hi: '#', x: "s"}},
		{{k: "D", lo: 'a', hi: 'z', x: "0"}},
		{{k: "D", lo: '0', hi: '9', x: "w"}},
		{{k: "D", lo: '"', hi: '"', x: "s"}, {k: "D", lo: '\'', hi: '\'', x: "w"}},
		{{k: "D", lo: ' ', hi: ' ', x: "s"}},
		{{k: "D", lo: '/', hi: '/', x: "s"}, {k: "D", lo: '<', hi: '>', x: "w"}},
		{{k: "D", lo: 0x400, hi: 0x4ff, x: "s"}, {k: "D", lo: 0x4e00, hi: 0x9fff, x: "w"}},
		{{k: "W", lo: '-', hi: '-', x: "1"}, {k: "B", lo: '_', hi: '_', x: "1"}, {k: "D", lo: '_', hi: '_', x: "b"}},
		{{k: "Y", v: []rune("=:="), typ: 7}, {k: "Y", v: []rune("<<<"), typ: 7}},
	}
	texts := []string{"x # remark", "a #b", "ab 12 'q' \"r\" /*c*/ <= ж世 _ -", "1 2 3", "a-b _c =:= <<< d", "# ж 世 \"", "<a> /b/ 'c"}
	for _, k := range []string{"g", "e"} {
		for _, ops := range sets {
			for _, prev := range texts {
				for _, in := range texts {
					runReconfigHistory(c, k, []rune(prev), ops, []rune(in))
				}
			}
		}
	}
	n := 200
	if c.Thorough {
		n = 5000
	}
	for i := 0; i < n; i++ {
		k := []string{"g", "e"}[c.Rng.Intn(2)]
		ops := randCfgOps(c, 1+c.Rng.Intn(3))
		in := cfgInput(c, k, ops)
		prev := cfgInput(c, k, ops)
		if c.Rng.Intn(2) == 0 {
			prev = append(append([]rune(nil), in...), prev...)
		}
		runReconfigHistory(c, k, prev, ops, in)
	}
}

func propC05(c *Ctx) {
	propScaleHistories(c)
	propReconfig(c)
	kinds := []string{"g", "e", "m", "c:44:34"}
	optSets := []int{0, 2 | 4 | 8 | 64, 127}
	for _, k := range kinds {
		pool := historyPool(k)
		// every ordered pair (and the pair preceded by an aborted iteration)
		for _, a := range pool {
			for _, b := range pool {
				for _, o := range optSets {
					runHistoryCase(c, k, o, [][]rune{a, b}, 0)
				}
				runHistoryCase(c, k, 0, [][]rune{a, b}, 1)
				runHistoryCase(c, k, 127, [][]rune{a, b}, 2)
				runHistoryCase(c, k, 0, [][]rune{a, b}, -1)
				runHistoryCase(c, k, 78, [][]rune{a, b}, -2)
			}
		}
		for _, in := range pool {
			for _, o := range optSets {
				runSameScanner(c, k, o, in)
			}
		}
		// has-next interleavings
		pats := []string{"0", "1", "2", "01", "10", "201", "3"}
		for _, in := range pool {
			for _, p := range pats {
				for _, o := range optSets {
					runHasNextCase(c, k, o, p, in)
				}
			}
		}
	}
	c.Notes = append(c.Notes, "exhaustive: every ordered pair from a per-tokenizer pool (all registered multi-character symbols, every token class, unterminated literals/comments/tags) x 3 option sets, plus the same pairs with the first iteration aborted after 1-2 tokens; has-next patterns {0,1,2,01,10,201,3} on every pool input; random longer histories")
	n, maxH := 300, 8
	if c.Thorough {
		n, maxH = 6000, 30
	}
	for i := 0; i < n; i++ {
		k := kinds[c.Rng.Intn(len(kinds))]
		pool := historyPool(k)
		h := 2 + c.Rng.Intn(maxH-1)
		ins := make([][]rune, h)
		for j := range ins {
			switch c.Rng.Intn(3) {
			case 0:
				ins[j] = pool[c.Rng.Intn(len(pool))]
			case 1:
				ins[j] = lexSoup(c, k, 8)
			default:
				ins[j] = randInput(c, 12)
			}
		}
		ab := 0
		if c.Rng.Intn(3) == 0 {
			ab = 1 + c.Rng.Intn(3)
			if c.Rng.Intn(2) == 0 {
				ab = -ab
			}
		}
		runHistoryCase(c, k, allOpts[c.Rng.Intn(128)], ins, ab)
		pat := fmt.Sprintf("%d%d%d", c.Rng.Intn(4), c.Rng.Intn(4), c.Rng.Intn(4))
		runHasNextCase(c, k, allOpts[c.Rng.Intn(128)], pat, lexSoup(c, k, 8))
	}
	if calcHistories != nil {
		calcHistories(c)
	}
}

var calcHistories func(c *Ctx)

func replayC05(c *Ctx, op string) {
	f := strings.Fields(op)
	switch f[0] {
	case "tok":
		var o int
		fmt.Sscanf(f[2], "%d", &o)
		runHistoryCase(c, f[1], o, [][]rune{parseRunes(f[3])}, 0)
	case "hist":
		var o, ab int
		fmt.Sscanf(f[2], "%d", &o)
		fmt.Sscanf(f[3], "%d", &ab)
		var ins [][]rune
		for _, p := range f[4:] {
			ins = append(ins, parseRunes(p))
		}
		runHistoryCase(c, f[1], o, ins, ab)
	case "tokh":
		var o int
		fmt.Sscanf(f[2], "%d", &o)
		runHasNextCase(c, f[1], o, f[3], parseRunes(f[4]))
	case "samesc":
		if len(f) == 4 {
			var o int
			fmt.Sscanf(f[2], "%d", &o)
			runSameScanner(c, f[1], o, parseRunes(f[3]))
		}
	case "rhist":
		if len(f) == 5 {
			var ops []cfgOp
			for _, s := range strings.Split(f[3], "~") {
				if o, ok := parseCfgOp(s); ok {
					ops = append(ops, o)
				}
			}
			runReconfigHistory(c, f[1], parseRunes(f[2]), ops, parseRunes(f[4]))
		} else if len(f) == 6 {
			var ops, pre []cfgOp
			for _, s := range strings.Split(f[3], "~") {
				if o, ok := parseCfgOp(s); ok {
					ops = append(ops, o)
				}
			}
			for _, s := range strings.Split(f[5], "~") {
				if o, ok := parseCfgOp(s); ok {
					pre = append(pre, o)
				}
			}
			runReconfigHistory(c, f[1], parseRunes(f[2]), ops, parseRunes(f[4]), pre...)
		}
	case "tokc":
		replayTokC(c, op)
	default:
		if calcReplay != nil {
			calcReplay(c, op)
		}
	}
}

var calcReplay func(c *Ctx, op string)

func init() {
	props["C05"] = propC05
	replays["C05"] = replayC05
}
