package main

import (
	"fmt"
	"strings"
	"time"

	"github.com/pip-services3-gox/pip-services3-expressions-gox/csv"
	"github.com/pip-services3-gox/pip-services3-expressions-gox/tokenizers"
)

// C09: CSV text round-trips through the tokenizer for any table and configuration.

type csvCfgT struct {
	seps, quotes []rune
}

func containsRune(rs []rune, r rune) bool {
	for _, x := range rs {
		if x == r {
			return true
		}
	}
	return false
}

func writeCsv(c *Ctx, cfg csvCfgT, eol string, rows [][]string, forceQuote bool) string {
	qs := csv.NewCsvQuoteState()
	var sb strings.Builder
	for i, row := range rows {
		if i > 0 {
			sb.WriteString(eol)
		}
		for j, f := range row {
			if j > 0 {
				sb.WriteRune(cfg.seps[c.Rng.Intn(len(cfg.seps))])
			}
			needs := false
			for _, r := range f {
				if r == '\r' || r == '\n' || containsRune(cfg.seps, r) || containsRune(cfg.quotes, r) {
					needs = true
				}
			}
			if needs || (forceQuote && len(cfg.quotes) > 0 && c.Rng.Intn(3) == 0) {
				q := cfg.quotes[c.Rng.Intn(len(cfg.quotes))]
				sb.WriteString(qs.EncodeString(f, q))
			} else {
				sb.WriteString(f)
			}
		}
	}
	return sb.String()
}

func runCsvCase(c *Ctx, cfg csvCfgT, eol string, rows [][]string, text string) {
	// the configuration is reached through one of three histories of setter calls (c: quotes cleared, separators,
	// quotes; C: separators, then quotes replacing the default one; D: other quotes and separators first)
	kind := fmt.Sprintf("%s:%s:%s", []string{"c", "C", "D", "E"}[c.Rng.Intn(4)], runesStr(cfg.seps), runesStr(cfg.quotes))
	op := tokOpLine(kind, 64, []rune(text))
	ts, st := tokenizeImpl(kind, 64, text)
	if c.Evals%8 == 3 {
		// "the tokenizer" is also one that looked into another file before: a reader was set, a presence query
		// prefetched a token, and the file was dropped without fetching it
		prev := "id" + string(cfg.seps[0]) + "x\r\n1" + string(cfg.seps[0]) + "2"
		st = safeCallT(3*time.Second, func() string {
			t := newTokenizer(kind)
			setOpts(t, 64)
			t.SetReader(newScanner(prev))
			t.HasNextToken()
			t.NextToken()
			t.HasNextToken()
			ts = conv(t.TokenizeBuffer(text))
			return ""
		})
		op = fmt.Sprintf("hist %s 64 -1 %s %s", kind, strRunes(prev), strRunes(text))
		c.count("tokenizer:abandoned-after-presence-query")
	}
	nf := 0
	special := false
	for _, r := range rows {
		nf += len(r)
		for _, f := range r {
			if strings.ContainsAny(f, "\r\n") || strings.ContainsAny(f, string(cfg.seps)+string(cfg.quotes)) {
				special = true
			}
		}
	}
	c.record(op, special && nf >= 2)
	c.count(fmt.Sprintf("eol:%q", eol))
	c.count(fmt.Sprintf("seps:%d,quotes:%d", len(cfg.seps), len(cfg.quotes)))
	impl := implLine(ts, st)
	if st != "" {
		c.fail(Failure{Kind: "oracle", Op: op, Impl: impl, Note: "tokenizer did not return normally: " + st})
		return
	}
	// regroup tokens into rows/fields
	got := [][]string{{""}}
	bad := ""
	for _, t := range ts {
		switch {
		case t.Typ == tokenizers.Eof:
		case t.Typ == tokenizers.Eol:
			got = append(got, []string{""})
		case t.Typ == tokenizers.Symbol && len(t.Val) == 1 && containsRune(cfg.seps, t.Val[0]):
			got[len(got)-1] = append(got[len(got)-1], "")
		case t.Typ == tokenizers.Word || t.Typ == tokenizers.Quoted:
			row := got[len(got)-1]
			if row[len(row)-1] != "" {
				bad = "a field came back as more than one token"
			}
			row[len(row)-1] += string(t.Val)
		default:
			bad = fmt.Sprintf("unexpected token %d:%q", t.Typ, string(t.Val))
		}
	}
	if bad == "" {
		if len(got) != len(rows) {
			bad = fmt.Sprintf("%d rows written, %d rows read", len(rows), len(got))
		} else {
			for i := range rows {
				if len(rows[i]) != len(got[i]) {
					bad = fmt.Sprintf("row %d: %d fields written, %d read", i, len(rows[i]), len(got[i]))
					break
				}
				for j := range rows[i] {
					if rows[i][j] != got[i][j] {
						bad = fmt.Sprintf("row %d field %d: wrote %q, read %q", i, j, rows[i][j], got[i][j])
						break
					}
				}
				if bad != "" {
					break
				}
			}
		}
	}
	if bad != "" {
		c.fail(Failure{Kind: "oracle", Op: op, Impl: impl, Note: bad + fmt.Sprintf(" (text %q)", text)})
		return
	}
	if strings.HasPrefix(op, "hist ") {
		op = tokOpLine(kind, 64, []rune(text))
	}
	c.model(op, impl, "model")
}

func propC09(c *Ctx) {
	// a tokenizer is an object of its own: another csv tokenizer whose states were customised (word characters disabled,
	// symbols added, other separators and quotes) leaves every later one in the default configuration
	safeCall(func() string {
		other := csv.NewCsvTokenizer()
		other.WordState().SetWordChars('#', '#', false)
		other.WordState().SetWordChars('a', 'c', false)
		other.SymbolState().Add("#", tokenizers.Symbol)
		other.SymbolState().Add("\n\n", tokenizers.Eol)
		other.WhitespaceState().SetWhitespaceChars('_', '_', true)
		other.SetFieldSeparators([]rune{'|'})
		other.SetQuoteSymbols([]rune{'%'})
		other.TokenizeBuffer("a#b|%q%\n\nc")
		return ""
	})
	propScaleCsv(c)
	cfgs := []csvCfgT{
		{[]rune{','}, []rune{'"'}},
		{[]rune{',', ';'}, []rune{'"', '\''}},
		{[]rune{'\t', ',', '|'}, []rune{'"'}},
		{[]rune{0x416}, []rune{0xab}},
		{[]rune{';'}, []rune{'\'', 0x201c}},
		// the ends of the direct table of the character maps (0x00-0xFF) and of the interval list above it
		{[]rune{0x100}, []rune{0xff}},
		{[]rune{0xff}, []rune{0x100}},
		{[]rune{0x101, 0x100}, []rune{0xfe, '"'}},
		{[]rune{0xfffd}, []rune{0xfffe}},
		{[]rune{1}, []rune{0x7f}},
		// many special symbols: TAB and all ASCII punctuation other than the quotes as separators (31), and a longer list with
		// non-ASCII separators and four quotes
		{[]rune("\t!#$%&()*+,-./:;<=>?@[\\]^_{|}~"), []rune{'"', '\''}},
		{append([]rune("\t!#$%&()*+,-./:;<=>?@[\\]^_{|}~ 0123456789"), 0xa0, 0xff, 0x100, 0x416, 0x2028, 0xfffd, 0x3b1, 0x3b2, 0x3b3, 0x3b4, 0x3b5, 0x3b6, 0x3b7, 0x3b8, 0x3b9, 0x3ba, 0x3bb, 0x3bc, 0x3bd, 0x3be, 0x3bf, 0x3c0, 0x3c1), []rune{'"', '\'', 0xab, 0xbb}},
	}
	eols := []string{"\n", "\r", "\r\n", "\n\r"}
	n := 6000
	if c.Thorough {
		n = 150000
	}
	for i := 0; i < n; i++ {
		cfg := cfgs[c.Rng.Intn(len(cfgs))]
		eol := eols[c.Rng.Intn(4)]
		nr := 1 + c.Rng.Intn(5)
		nc := 1 + c.Rng.Intn(4)
		rows := make([][]string, nr)
		pool := []rune{'a', 'b', '1', ' ', 0xe9, 0xff, 0x100, 0x101, 0x416, 0x4e16, 0x201c, 0x2028, 0xfffe, 0xfeff, 0, '\r', '\n', ',', ';', '"', '\'', '#', '%', '|', '_', 'c'}
		pool = append(pool, cfg.seps...)
		pool = append(pool, cfg.quotes...)
		pool = append(pool, cfg.quotes...)
		for r := range rows {
			cols := nc
			if c.Rng.Intn(4) == 0 {
				cols = 1 + c.Rng.Intn(4)
			}
			rows[r] = make([]string, cols)
			for f := range rows[r] {
				l := c.Rng.Intn(5)
				if c.Rng.Intn(4) == 0 {
					l = 0
				}
				var sb strings.Builder
				for k := 0; k < l; k++ {
					sb.WriteRune(pool[c.Rng.Intn(len(pool))])
				}
				rows[r][f] = sb.String()
			}
		}
		text := writeCsv(c, cfg, eol, rows, c.Rng.Intn(2) == 0)
		runCsvCase(c, cfg, eol, rows, text)
	}
	c.Notes = append(c.Notes, "random tables (1-5 rows x 1-4 columns, ragged rows, fields of 0-4 characters over {ASCII, Latin-1, Cyrillic, CJK, U+FFFE, NUL, CR, LF, every separator and quote of the configuration, other separators/quotes}), written raw or quote-encoded with a random configured quote and separator, 4 line-ending styles, 5 configurations (1-3 separators, 1-2 quotes, non-ASCII separator/quote)")
}

func replayC09(c *Ctx, op string) {
	f := strings.Fields(op)
	if f[0] == "hist" {
		replayC05(c, op)
	} else if len(f) == 4 {
		runC04Case(c, f[1], parseRunes(f[3]))
	}
}

func init() {
	props["C09"] = propC09
	replays["C09"] = replayC09
}
