package main

import (
	"bytes"
	"crypto/sha256"
	"encoding/hex"
	"encoding/json"
	"fmt"
	"go/ast"
	"go/parser"
	"go/printer"
	"go/token"
	"os"
	"path/filepath"
	"sort"
	"strconv"
	"strings"
)

// Tie A, part 2: facts read off the source text of /repo with go/ast.  Every pattern that is
// expected but not found is a loud failure (exit 4): a broken tie is never a silent skip.

// the tree under test; VERIF_REPO is set only by the self-validation tools (tools/mutcheck.sh), which run a
// private copy of /verif against a scratch worktree with a seeded change applied
var repoRoot = func() string {
	if r := os.Getenv("VERIF_REPO"); r != "" {
		return r
	}
	return "/repo"
}()

type srcFile struct {
	path string
	f    *ast.File
}

var fset = token.NewFileSet()

func parseRepoFile(rel string) *ast.File {
	f, err := parser.ParseFile(fset, filepath.Join(repoRoot, rel), nil, 0)
	if err != nil {
		extractFail("cannot parse " + rel + ": " + err.Error())
	}
	return f
}

func extractFail(msg string) {
	fmt.Fprintln(os.Stderr, "EXTRACT-FAIL:", msg)
	os.Exit(4)
}

func exprStr(e ast.Node) string {
	var b bytes.Buffer
	printer.Fprint(&b, fset, e)
	return strings.Join(strings.Fields(b.String()), " ")
}

func findFunc(f *ast.File, name string) *ast.FuncDecl {
	for _, d := range f.Decls {
		if fd, ok := d.(*ast.FuncDecl); ok && fd.Name.Name == name {
			return fd
		}
	}
	extractFail("function " + name + " not found")
	return nil
}

func stringListVar(f *ast.File, name string) []string {
	var out []string
	found := false
	ast.Inspect(f, func(n ast.Node) bool {
		vs, ok := n.(*ast.ValueSpec)
		if !ok {
			return true
		}
		for i, id := range vs.Names {
			if id.Name == name && i < len(vs.Values) {
				if cl, ok := vs.Values[i].(*ast.CompositeLit); ok {
					found = true
					for _, e := range cl.Elts {
						switch x := e.(type) {
						case *ast.BasicLit:
							s, _ := strconv.Unquote(x.Value)
							out = append(out, s)
						default:
							out = append(out, exprStr(e))
						}
					}
				}
			}
		}
		return true
	})
	if !found {
		extractFail("variable " + name + " not found")
	}
	return out
}

// names of the constants of the first const block whose first entry is `first` (iota order)
func iotaNames(f *ast.File, first string) []string {
	for _, d := range f.Decls {
		gd, ok := d.(*ast.GenDecl)
		if !ok || gd.Tok != token.CONST {
			continue
		}
		var names []string
		for _, s := range gd.Specs {
			for _, id := range s.(*ast.ValueSpec).Names {
				names = append(names, id.Name)
			}
		}
		if len(names) > 0 && names[0] == first {
			return names
		}
	}
	extractFail("const block starting with " + first + " not found")
	return nil
}

func leanStrList(xs []string) string {
	q := make([]string, len(xs))
	for i, x := range xs {
		q[i] = strconv.Quote(x)
	}
	return "[" + strings.Join(q, ", ") + "]"
}

// identifiers X compared with `token.Type() == X` anywhere in the function body
func typeComparisons(fd *ast.FuncDecl) []string {
	var out []string
	seen := map[string]bool{}
	ast.Inspect(fd.Body, func(n ast.Node) bool {
		be, ok := n.(*ast.BinaryExpr)
		if !ok || be.Op != token.EQL {
			return true
		}
		if ce, ok := be.X.(*ast.CallExpr); ok {
			if se, ok := ce.Fun.(*ast.SelectorExpr); ok && se.Sel.Name == "Type" {
				if recv, ok := se.X.(*ast.Ident); ok && recv.Name == "token" {
					if id, ok := be.Y.(*ast.Ident); ok && !seen[id.Name] {
						seen[id.Name] = true
						out = append(out, id.Name)
					}
				}
			}
		}
		return true
	})
	return out
}

func matchPatterns(fd *ast.FuncDecl) [][]string {
	var out [][]string
	ast.Inspect(fd.Body, func(n ast.Node) bool {
		ce, ok := n.(*ast.CallExpr)
		if !ok {
			return true
		}
		if se, ok := ce.Fun.(*ast.SelectorExpr); ok && se.Sel.Name == "matchTokensWithTypes" {
			var p []string
			for _, a := range ce.Args {
				p = append(p, exprStr(a))
			}
			out = append(out, p)
		}
		return true
	})
	return out
}

// char literal / int literal / named constant → number
func constVal(e ast.Expr, consts map[string]int) (int, bool) {
	switch x := e.(type) {
	case *ast.BasicLit:
		switch x.Kind {
		case token.CHAR:
			s, err := strconv.Unquote(x.Value)
			if err == nil {
				return int([]rune(s)[0]), true
			}
		case token.INT:
			v, err := strconv.ParseInt(x.Value, 0, 64)
			if err == nil {
				return int(v), true
			}
		}
	case *ast.Ident:
		if v, ok := consts[x.Name]; ok {
			return v, true
		}
	}
	return 0, false
}

type callFact struct {
	method string
	args   []string
}

// calls `c.<method>(...)` / `c.X().<method>(...)` in a function body, in order, with constant args
func methodCalls(fd *ast.FuncDecl, methods map[string]bool, consts map[string]int) []callFact {
	var out []callFact
	ast.Inspect(fd.Body, func(n ast.Node) bool {
		ce, ok := n.(*ast.CallExpr)
		if !ok {
			return true
		}
		se, ok := ce.Fun.(*ast.SelectorExpr)
		if !ok || !methods[se.Sel.Name] {
			return true
		}
		cf := callFact{method: se.Sel.Name}
		for _, a := range ce.Args {
			if v, ok := constVal(a, consts); ok {
				cf.args = append(cf.args, strconv.Itoa(v))
			} else if bl, ok := a.(*ast.BasicLit); ok && bl.Kind == token.STRING {
				s, _ := strconv.Unquote(bl.Value)
				cf.args = append(cf.args, "S:"+strRunes(s))
			} else {
				cf.args = append(cf.args, exprStr(a))
			}
		}
		out = append(out, cf)
		return true
	})
	return out
}

func callsLean(cs []callFact) string {
	var p []string
	for _, c := range cs {
		var nums, ids, texts []string
		for _, a := range c.args {
			if _, err := strconv.Atoi(a); err == nil {
				nums = append(nums, a)
			} else if strings.HasPrefix(a, "S:") {
				rs := strings.TrimPrefix(a, "S:")
				if rs == "-" {
					rs = ""
				}
				texts = append(texts, "["+rs+"]")
			} else {
				ids = append(ids, a)
			}
		}
		p = append(p, fmt.Sprintf("⟨%s, [%s], %s, [%s]⟩", strconv.Quote(c.method), strings.Join(nums, ", "), leanStrList(ids), strings.Join(texts, ", ")))
	}
	return "[" + strings.Join(p, ",\n   ") + "]"
}

// cases of every `switch <x>.Type()` / `switch newType` statement of a function: (label, body text)
type caseFact struct{ label, body string }

func typeSwitchCases(fd *ast.FuncDecl) []caseFact {
	var out []caseFact
	alpha := alphaOf(fd)
	ast.Inspect(fd.Body, func(n ast.Node) bool {
		sw, ok := n.(*ast.SwitchStmt)
		if !ok || sw.Tag == nil {
			return true
		}
		tag := exprStr(sw.Tag)
		if !strings.HasSuffix(tag, ".Type()") && tag != "newType" {
			return true
		}
		for _, st := range sw.Body.List {
			cc := st.(*ast.CaseClause)
			var body []string
			for _, b := range cc.Body {
				body = append(body, exprStr(b))
			}
			for _, l := range cc.List {
				out = append(out, caseFact{exprStr(l), alpha(strings.Join(body, "; "))})
			}
		}
		return true
	})
	return out
}

func casesLean(name string, rows [][3]string) string {
	var sb strings.Builder
	fmt.Fprintf(&sb, "def %s : List (String × String × String) :=\n  [", name)
	for i, r := range rows {
		if i > 0 {
			sb.WriteString(",\n   ")
		}
		fmt.Fprintf(&sb, "(%s, %s, %s)", strconv.Quote(r[0]), strconv.Quote(r[1]), strconv.Quote(r[2]))
	}
	sb.WriteString("]\n")
	return sb.String()
}

// package-level variables (shared by every instance and every goroutine) and every statement that writes
// one of them — an assignment, ++/--, an element or field assignment rooted at it, or a call of a mutating
// method (Set*, Assign, Clear, Add*, Remove*, Push, Pop, Write*) on it — anywhere outside its declaration
// the package-level variable an expression is a plain alias of (`Empty`, `variants.Empty`), "" otherwise
func aliasOf(e ast.Expr) string {
	switch x := e.(type) {
	case *ast.Ident:
		return x.Name
	case *ast.SelectorExpr:
		if _, ok := x.X.(*ast.Ident); ok {
			return x.Sel.Name
		}
	}
	return ""
}

func sharedState() []site {
	var out []site
	globals := map[string]bool{} // name -> declared at package level somewhere
	type pf struct {
		rel string
		f   *ast.File
	}
	var files []pf
	for _, rel := range nonTestGoFiles() {
		f := parseRepoFile(rel)
		files = append(files, pf{rel, f})
		for _, d := range f.Decls {
			gd, ok := d.(*ast.GenDecl)
			if !ok || gd.Tok != token.VAR {
				continue
			}
			for _, sp := range gd.Specs {
				vs := sp.(*ast.ValueSpec)
				for _, n := range vs.Names {
					globals[n.Name] = true
					out = append(out, site{rel, "(package)", "global-var", n.Name})
				}
			}
		}
	}
	root := func(e ast.Expr) string {
		for {
			switch x := e.(type) {
			case *ast.Ident:
				return x.Name
			case *ast.SelectorExpr:
				// pkg.Global or global.field: try the selector name first (pkg.Global), then descend
				if id, ok := x.X.(*ast.Ident); ok && globals[x.Sel.Name] && !globals[id.Name] {
					return x.Sel.Name
				}
				e = x.X
			case *ast.IndexExpr:
				e = x.X
			case *ast.StarExpr:
				e = x.X
			case *ast.ParenExpr:
				e = x.X
			default:
				return ""
			}
		}
	}
	mut := func(name string) bool {
		for _, p := range []string{"Set", "Assign", "Clear", "Add", "Remove", "Push", "Pop", "Write"} {
			if strings.HasPrefix(name, p) {
				return true
			}
		}
		return false
	}
	for _, x := range files {
		for _, d := range x.f.Decls {
			fd, ok := d.(*ast.FuncDecl)
			if !ok || fd.Body == nil {
				continue
			}
			alpha := alphaOf(fd)
			// locals and parameters shadow globals of the same name
			local := map[string]bool{}
			if fd.Recv != nil {
				for _, fl := range fd.Recv.List {
					for _, n := range fl.Names {
						local[n.Name] = true
					}
				}
			}
			for _, fl := range fd.Type.Params.List {
				for _, n := range fl.Names {
					local[n.Name] = true
				}
			}
			ast.Inspect(fd.Body, func(n ast.Node) bool {
				switch st := n.(type) {
				case *ast.AssignStmt:
					if st.Tok == token.DEFINE {
						for _, r := range st.Rhs {
							if id := aliasOf(r); id != "" && globals[id] && !local[id] {
								out = append(out, site{x.rel, funcName(fd), "global-escape", alpha(exprStr(st))})
							}
						}
						for _, l := range st.Lhs {
							if id, ok := l.(*ast.Ident); ok {
								local[id.Name] = true
							}
						}
						return true
					}
					for _, l := range st.Lhs {
						if r := root(l); r != "" && globals[r] && !local[r] {
							out = append(out, site{x.rel, funcName(fd), "global-write", alpha(exprStr(st))})
						}
					}
					for _, r := range st.Rhs {
						if id := aliasOf(r); id != "" && globals[id] && !local[id] {
							out = append(out, site{x.rel, funcName(fd), "global-escape", alpha(exprStr(st))})
						}
					}
				case *ast.IncDecStmt:
					if r := root(st.X); r != "" && globals[r] && !local[r] {
						out = append(out, site{x.rel, funcName(fd), "global-write", alpha(exprStr(st))})
					}
				case *ast.DeclStmt:
					if gd, ok := st.Decl.(*ast.GenDecl); ok {
						for _, sp := range gd.Specs {
							if vs, ok := sp.(*ast.ValueSpec); ok {
								for _, nm := range vs.Names {
									local[nm.Name] = true
								}
							}
						}
					}
				case *ast.ReturnStmt:
					// a shared mutable object handed out to the caller
					for _, r := range st.Results {
						if g := root(r); g != "" && globals[g] && !local[g] && exprStr(r) == strings.TrimPrefix(exprStr(r), "&") {
							if _, isCall := r.(*ast.CallExpr); !isCall {
								out = append(out, site{x.rel, funcName(fd), "global-escape", alpha(exprStr(st))})
							}
						}
					}
				case *ast.CallExpr:
					if se, ok := st.Fun.(*ast.SelectorExpr); ok && mut(se.Sel.Name) {
						if r := root(se.X); r != "" && globals[r] && !local[r] {
							out = append(out, site{x.rel, funcName(fd), "global-mutating-call", alpha(exprStr(st))})
						}
					}
				}
				return true
			})
		}
	}
	return out
}



// fields of a struct type, and the receiver fields a method assigns (`c.f = …`, in source order, once each)
func structFields(f *ast.File, typ string) []string {
	var out []string
	ast.Inspect(f, func(n ast.Node) bool {
		ts, ok := n.(*ast.TypeSpec)
		if !ok || ts.Name.Name != typ {
			return true
		}
		if st, ok := ts.Type.(*ast.StructType); ok {
			for _, fl := range st.Fields.List {
				for _, nm := range fl.Names {
					out = append(out, nm.Name)
				}
			}
		}
		return false
	})
	return out
}

func assignedFields(fd *ast.FuncDecl) []string {
	var out []string
	seen := map[string]bool{}
	recv := ""
	if fd.Recv != nil && len(fd.Recv.List) == 1 && len(fd.Recv.List[0].Names) == 1 {
		recv = fd.Recv.List[0].Names[0].Name
	}
	ast.Inspect(fd.Body, func(n ast.Node) bool {
		var lhs []ast.Expr
		switch x := n.(type) {
		case *ast.AssignStmt:
			lhs = x.Lhs
		case *ast.IncDecStmt:
			lhs = []ast.Expr{x.X}
		default:
			return true
		}
		for _, l := range lhs {
			if se, ok := l.(*ast.SelectorExpr); ok {
				if id, ok := se.X.(*ast.Ident); ok && id.Name == recv && !seen[se.Sel.Name] {
					seen[se.Sel.Name] = true
					out = append(out, se.Sel.Name)
				}
			}
		}
		return true
	})
	return out
}

func findMethod(f *ast.File, recvType, name string) *ast.FuncDecl {
	for _, d := range f.Decls {
		fd, ok := d.(*ast.FuncDecl)
		if !ok || fd.Name.Name != name || fd.Recv == nil || len(fd.Recv.List) != 1 {
			continue
		}
		if strings.TrimPrefix(exprStr(fd.Recv.List[0].Type), "*") == recvType {
			return fd
		}
	}
	extractFail("method " + recvType + "." + name + " not found")
	return nil
}

// ---- alpha-normalisation -------------------------------------------------------------------------
// Inventory lines and case bodies are compared as text; the names a function gives to its receiver,
// parameters, results and local variables are replaced by v0, v1, … (order of declaration), so that
// renaming a local variable does not change a line.  Field and method names (after a '.') are kept.

func localNames(fd *ast.FuncDecl) []string {
	var names []string
	seen := map[string]bool{}
	add := func(id *ast.Ident) {
		if id != nil && id.Name != "_" && !seen[id.Name] {
			seen[id.Name] = true
			names = append(names, id.Name)
		}
	}
	fields := func(fl *ast.FieldList) {
		if fl == nil {
			return
		}
		for _, f := range fl.List {
			for _, n := range f.Names {
				add(n)
			}
		}
	}
	fields(fd.Recv)
	fields(fd.Type.Params)
	fields(fd.Type.Results)
	if fd.Body != nil {
		ast.Inspect(fd.Body, func(n ast.Node) bool {
			switch x := n.(type) {
			case *ast.AssignStmt:
				if x.Tok == token.DEFINE {
					for _, l := range x.Lhs {
						if id, ok := l.(*ast.Ident); ok {
							add(id)
						}
					}
				}
			case *ast.RangeStmt:
				if x.Tok == token.DEFINE {
					if id, ok := x.Key.(*ast.Ident); ok {
						add(id)
					}
					if id, ok := x.Value.(*ast.Ident); ok {
						add(id)
					}
				}
			case *ast.ValueSpec:
				for _, n := range x.Names {
					add(n)
				}
			case *ast.FuncLit:
				fields(x.Type.Params)
				fields(x.Type.Results)
			}
			return true
		})
	}
	return names
}

func isIdentByte(b byte) bool {
	return b == '_' || (b >= 'a' && b <= 'z') || (b >= 'A' && b <= 'Z') || (b >= '0' && b <= '9') || b >= 0x80
}

// alphaOf returns the renaming function for the locals of fd
func alphaOf(fd *ast.FuncDecl) func(string) string {
	idx := map[string]int{}
	for i, n := range localNames(fd) {
		idx[n] = i
	}
	return func(text string) string {
		var sb strings.Builder
		inStr := byte(0)
		for i := 0; i < len(text); {
			ch := text[i]
			if inStr != 0 {
				sb.WriteByte(ch)
				if ch == '\\' && i+1 < len(text) {
					sb.WriteByte(text[i+1])
					i += 2
					continue
				}
				if ch == inStr {
					inStr = 0
				}
				i++
				continue
			}
			if ch == '"' || ch == '\'' || ch == '`' {
				inStr = ch
				sb.WriteByte(ch)
				i++
				continue
			}
			if isIdentByte(ch) && !(ch >= '0' && ch <= '9') {
				j := i
				for j < len(text) && isIdentByte(text[j]) {
					j++
				}
				word := text[i:j]
				// previous significant character
				k := i - 1
				for k >= 0 && text[k] == ' ' {
					k--
				}
				if n, ok := idx[word]; ok && (k < 0 || text[k] != '.') {
					fmt.Fprintf(&sb, "v%d", n)
				} else {
					sb.WriteString(word)
				}
				i = j
				continue
			}
			sb.WriteByte(ch)
			i++
		}
		return sb.String()
	}
}

// ---- inventories ----------------------------------------------------------------------------

type site struct {
	File string `json:"file"`
	Func string `json:"func"`
	Kind string `json:"kind"`
	Expr string `json:"expr"`
}

func nonTestGoFiles() []string {
	var out []string
	filepath.Walk(repoRoot, func(p string, info os.FileInfo, err error) error {
		if err != nil {
			return nil
		}
		rel, _ := filepath.Rel(repoRoot, p)
		if info.IsDir() && (rel == "test" || strings.HasPrefix(rel, ".") && rel != ".") {
			return filepath.SkipDir
		}
		if !info.IsDir() && strings.HasSuffix(p, ".go") && !strings.HasSuffix(p, "_test.go") {
			out = append(out, rel)
		}
		return nil
	})
	sort.Strings(out)
	return out
}

func funcName(fd *ast.FuncDecl) string {
	if fd.Recv != nil && len(fd.Recv.List) > 0 {
		return exprStr(fd.Recv.List[0].Type) + "." + fd.Name.Name
	}
	return fd.Name.Name
}

// every construct that can panic at run time, per function
func panicSites() []site {
	var out []site
	for _, rel := range nonTestGoFiles() {
		f := parseRepoFile(rel)
		for _, d := range f.Decls {
			fd, ok := d.(*ast.FuncDecl)
			if !ok || fd.Body == nil {
				continue
			}
			fn := funcName(fd)
			alpha := alphaOf(fd)
			// type assertions in `v, ok := x.(T)` and type switches are safe
			safeAssert := map[ast.Node]bool{}
			ast.Inspect(fd.Body, func(n ast.Node) bool {
				switch x := n.(type) {
				case *ast.AssignStmt:
					if len(x.Lhs) == 2 && len(x.Rhs) == 1 {
						if ta, ok := x.Rhs[0].(*ast.TypeAssertExpr); ok {
							safeAssert[ta] = true
						}
					}
				case *ast.TypeSwitchStmt:
					ast.Inspect(x.Assign, func(m ast.Node) bool {
						if ta, ok := m.(*ast.TypeAssertExpr); ok {
							safeAssert[ta] = true
						}
						return true
					})
				}
				return true
			})
			ast.Inspect(fd.Body, func(n ast.Node) bool {
				switch x := n.(type) {
				case *ast.IndexExpr:
					out = append(out, site{rel, fn, "index", alpha(exprStr(x))})
				case *ast.SliceExpr:
					out = append(out, site{rel, fn, "slice", alpha(exprStr(x))})
				case *ast.TypeAssertExpr:
					if !safeAssert[x] && x.Type != nil {
						out = append(out, site{rel, fn, "type-assertion", alpha(exprStr(x))})
					}
				case *ast.BinaryExpr:
					if x.Op == token.QUO || x.Op == token.REM || x.Op == token.SHL || x.Op == token.SHR {
						if _, isLit := x.Y.(*ast.BasicLit); !isLit {
							out = append(out, site{rel, fn, "arith " + x.Op.String(), alpha(exprStr(x))})
						}
					}
				case *ast.CallExpr:
					if id, ok := x.Fun.(*ast.Ident); ok && id.Name == "panic" {
						out = append(out, site{rel, fn, "explicit-panic", alpha(exprStr(x))})
					}
					// calls of the partial accessors (single-value type assertions inside)
					if se, ok := x.Fun.(*ast.SelectorExpr); ok && len(x.Args) == 0 {
						switch se.Sel.Name {
						case "AsInteger", "AsLong", "AsBoolean", "AsFloat", "AsDouble", "AsString", "AsDateTime", "AsTimeSpan":
							out = append(out, site{rel, fn, "as-call", alpha(exprStr(x))})
						}
					}
				}
				return true
			})
		}
	}
	return out
}

var writeMethods = map[string]bool{"SetAsInteger": true, "SetAsLong": true, "SetAsBoolean": true, "SetAsFloat": true, "SetAsDouble": true,
	"SetAsString": true, "SetAsDateTime": true, "SetAsTimeSpan": true, "SetAsObject": true, "SetAsArray": true, "SetLength": true,
	"SetByIndex": true, "Assign": true, "Clear": true, "SetValue": true, "Add": true, "Remove": true, "RemoveByName": true, "Locate": true,
	"SetTokens": true, "SetDefaultVariables": true}

var freshCtors = map[string]bool{"EmptyVariant": true, "NewVariant": true, "VariantFromInteger": true, "VariantFromLong": true,
	"VariantFromBoolean": true, "VariantFromFloat": true, "VariantFromDouble": true, "VariantFromString": true, "VariantFromDateTime": true,
	"VariantFromTimeSpan": true, "VariantFromObject": true, "VariantFromArray": true, "NewCalculationStack": true}

// writes performed in the evaluation call graph: every mutating method call / field or index
// assignment, classified by whether its target is a variable initialised by a fresh constructor
// in the same function
func writeEffects() []site {
	files := []string{"calculator/ExpressionCalculator.go", "calculator/CalculationStack.go", "variants/AbstractVariantOperations.go",
		"variants/TypeUnsafeVariantOperations.go", "variants/TypeSafeVariantOperations.go", "calculator/functions/DefaultFunctionCollection.go",
		"calculator/functions/DelegatedFunction.go", "mustache/MustacheTemplate.go"}
	evalFuncs := func(name string) bool {
		n := strings.ToLower(name)
		for _, p := range []string{"evaluate", "calculator", "convert", "push", "pop", "peek", "getvariable", "isdefinedvariable", "escapestring", "calculate", "checkparamcount", "getparameter"} {
			if strings.Contains(n, p) {
				return true
			}
		}
		return strings.HasPrefix(name, "Add") || strings.HasPrefix(name, "Sub") || len(name) <= 10 && (name == "Mul" || name == "Div" || name == "Mod" || name == "Pow" || name == "And" || name == "Or" || name == "Xor" || name == "Lsh" || name == "Rsh" || name == "Not" || name == "Negative" || name == "Equal" || name == "NotEqual" || name == "More" || name == "Less" || name == "MoreEqual" || name == "LessEqual" || name == "In" || name == "GetElement")
	}
	var out []site
	for _, rel := range files {
		f := parseRepoFile(rel)
		for _, d := range f.Decls {
			fd, ok := d.(*ast.FuncDecl)
			if !ok || fd.Body == nil || !evalFuncs(fd.Name.Name) {
				continue
			}
			fn := funcName(fd)
			alpha := alphaOf(fd)
			fresh := map[string]bool{}
			ast.Inspect(fd.Body, func(n ast.Node) bool {
				as, ok := n.(*ast.AssignStmt)
				if !ok {
					return true
				}
				for i, l := range as.Lhs {
					id, ok := l.(*ast.Ident)
					if !ok || i >= len(as.Rhs) && len(as.Rhs) != 1 {
						continue
					}
					rhs := as.Rhs[0]
					if i < len(as.Rhs) {
						rhs = as.Rhs[i]
					}
					if ce, ok := rhs.(*ast.CallExpr); ok {
						name := ""
						switch fx := ce.Fun.(type) {
						case *ast.Ident:
							name = fx.Name
						case *ast.SelectorExpr:
							name = fx.Sel.Name
						}
						if freshCtors[name] && as.Tok == token.DEFINE {
							fresh[id.Name] = true
						}
					}
				}
				return true
			})
			ast.Inspect(fd.Body, func(n ast.Node) bool {
				switch x := n.(type) {
				case *ast.CallExpr:
					if se, ok := x.Fun.(*ast.SelectorExpr); ok && writeMethods[se.Sel.Name] && !strings.HasSuffix(exprStr(se.X), "ariantOperations") {
						target := exprStr(se.X)
						kind := "write-to-other"
						if id, ok := se.X.(*ast.Ident); ok && fresh[id.Name] {
							kind = "write-to-fresh"
						}
						if strings.HasSuffix(target, "Builder") || target == "builder" || target == "result" && kind == "write-to-other" && strings.Contains(fn, "evaluateTokens") {
							kind = "write-to-local-builder"
						}
						out = append(out, site{rel, fn, kind, alpha(exprStr(x.Fun))})
					}
				case *ast.AssignStmt:
					for _, l := range x.Lhs {
						switch lx := l.(type) {
						case *ast.SelectorExpr:
							out = append(out, site{rel, fn, "field-assign", alpha(exprStr(lx))})
						case *ast.IndexExpr:
							out = append(out, site{rel, fn, "index-assign", alpha(exprStr(lx))})
						case *ast.StarExpr:
							out = append(out, site{rel, fn, "deref-assign", alpha(exprStr(lx))})
						}
					}
				}
				return true
			})
		}
	}
	return out
}

// the text of everything the hand-written model was written against: one fingerprint per function
// (signature + body, comments dropped, locals alpha-renamed) and per package-level declaration
func modelledCode() []site {
	var out []site
	fp := func(text string) string {
		h := sha256.Sum256([]byte(text))
		return hex.EncodeToString(h[:8])
	}
	for _, rel := range nonTestGoFiles() {
		f := parseRepoFile(rel)
		for _, d := range f.Decls {
			switch x := d.(type) {
			case *ast.FuncDecl:
				body := ""
				if x.Body != nil {
					body = exprStr(x.Body)
				}
				out = append(out, site{rel, funcName(x), "body", fp(alphaOf(x)(exprStr(x.Type) + " " + body))})
			case *ast.GenDecl:
				if x.Tok == token.IMPORT {
					continue
				}
				for i, sp := range x.Specs {
					name := ""
					switch s := sp.(type) {
					case *ast.ValueSpec:
						var ns []string
						for _, n := range s.Names {
							ns = append(ns, n.Name)
						}
						name = strings.Join(ns, ",")
					case *ast.TypeSpec:
						name = s.Name.Name
					}
					out = append(out, site{rel, name, "decl", fp(fmt.Sprintf("%s#%d %s", x.Tok, i, exprStr(sp)))})
				}
			}
		}
	}
	return out
}

func writeJSON(path string, v any) {
	data, _ := json.MarshalIndent(v, "", " ")
	writeIfChanged(path, string(data)+"\n")
}

func init() {
	extractFacts = func(dir string) {
		var sb strings.Builder
		sb.WriteString("/- GENERATED by harness/extract_facts.go from the source text of /repo (go/ast). Do not edit. -/\nnamespace Verif.Gen\n\n/-- a method call found in a constructor: numeric arguments, identifier-like arguments, string literals (as runes) -/\nstructure Call where\n  method : String\n  nums : List Nat\n  idents : List String\n  texts : List (List Nat)\n  deriving DecidableEq, Repr\n\n")
		// keywords, operator tables, constant blocks
		ws := parseRepoFile("calculator/tokenizers/ExpressionWordState.go")
		fmt.Fprintf(&sb, "def keywords : List String := %s\n", leanStrList(stringListVar(ws, "Keywords")))
		ep := parseRepoFile("calculator/parsers/ExpressionParser.go")
		fmt.Fprintf(&sb, "def operators : List String := %s\n", leanStrList(stringListVar(ep, "operators")))
		fmt.Fprintf(&sb, "def operatorTypes : List String := %s\n", leanStrList(stringListVar(ep, "operatorTypes")))
		fmt.Fprintf(&sb, "def exprTokenTypes : List String := %s\n", leanStrList(iotaNames(parseRepoFile("calculator/parsers/ExpressionTokenType.go"), "Unknown")))
		fmt.Fprintf(&sb, "def tokenTypes : List String := %s\n", leanStrList(iotaNames(parseRepoFile("tokenizers/TokenType.go"), "Unknown")))
		fmt.Fprintf(&sb, "def variantTypes : List String := %s\n", leanStrList(iotaNames(parseRepoFile("variants/VariantType.go"), "Null")))
		fmt.Fprintf(&sb, "def mustacheTokenTypes : List String := %s\n", leanStrList(iotaNames(parseRepoFile("mustache/parsers/MustacheTokenType.go"), "TokenUnknown")))
		fmt.Fprintf(&sb, "def mustacheLexStates : List String := %s\n", leanStrList(iotaNames(parseRepoFile("mustache/parsers/MustageLexicalState.go"), "StateValue")))
		// per-level operator sets and multi-token patterns
		sb.WriteString("def levelOps : List (String × List String) :=\n  [")
		lv := []string{"performSyntaxAnalysis", "performSyntaxAnalysisAtLevel1", "performSyntaxAnalysisAtLevel2", "performSyntaxAnalysisAtLevel3", "performSyntaxAnalysisAtLevel4", "performSyntaxAnalysisAtLevel5"}
		for i, name := range lv {
			if i > 0 {
				sb.WriteString(",\n   ")
			}
			fmt.Fprintf(&sb, "(%s, %s)", strconv.Quote(name), leanStrList(typeComparisons(findFunc(ep, name))))
		}
		sb.WriteString("]\n")
		sb.WriteString("def matchPatterns : List (List String) := [")
		for i, p := range matchPatterns(findFunc(ep, "performSyntaxAnalysisAtLevel3")) {
			if i > 0 {
				sb.WriteString(", ")
			}
			sb.WriteString(leanStrList(p))
		}
		sb.WriteString("]\n")
		// evaluator dispatch: case parsers.X → variantOperations.M(value?, value?)
		ec := parseRepoFile("calculator/ExpressionCalculator.go")
		sb.WriteString("def evalDispatch : List (String × String × String) :=\n  [")
		first := true
		for _, fn := range []string{"evaluateLogical", "evaluateArithmetical", "evaluateBoolean", "evaluateOther"} {
			ast.Inspect(findFunc(ec, fn).Body, func(n ast.Node) bool {
				cc, ok := n.(*ast.CaseClause)
				if !ok || len(cc.List) != 1 {
					return true
				}
				tok := exprStr(cc.List[0])
				ast.Inspect(cc, func(m ast.Node) bool {
					ce, ok := m.(*ast.CallExpr)
					if !ok {
						return true
					}
					if se, ok := ce.Fun.(*ast.SelectorExpr); ok && strings.HasSuffix(exprStr(se.X), ".variantOperations") {
						// operands are named by the order in which the case pops them off the stack (pop1 = popped
						// first = the operand written last), whatever the local variables are called
						pops := map[string]string{}
						ast.Inspect(cc, func(k ast.Node) bool {
							as, ok := k.(*ast.AssignStmt)
							if !ok || len(as.Lhs) != 1 || len(as.Rhs) != 1 {
								return true
							}
							if call, ok := as.Rhs[0].(*ast.CallExpr); ok {
								if sel, ok := call.Fun.(*ast.SelectorExpr); ok && sel.Sel.Name == "Pop" {
									if id, ok := as.Lhs[0].(*ast.Ident); ok {
										if _, dup := pops[id.Name]; !dup {
											pops[id.Name] = fmt.Sprintf("pop%d", len(pops)+1)
										}
									}
								}
							}
							return true
						})
						var args []string
						for _, a := range ce.Args {
							if id, ok := a.(*ast.Ident); ok && pops[id.Name] != "" {
								args = append(args, pops[id.Name])
							} else {
								args = append(args, exprStr(a))
							}
						}
						if !first {
							sb.WriteString(",\n   ")
						}
						first = false
						fmt.Fprintf(&sb, "(%s, %s, %s)", strconv.Quote(strings.TrimPrefix(tok, "parsers.")), strconv.Quote(se.Sel.Name), strconv.Quote(strings.Join(args, ",")))
					}
					return true
				})
				return true
			})
		}
		sb.WriteString("]\n")
		// function registrations
		fc := parseRepoFile("calculator/functions/DefaultFunctionCollection.go")
		sb.WriteString("def fnRegistrations : List (String × String) :=\n  [")
		first = true
		ast.Inspect(findFunc(fc, "NewDefaultFunctionCollection").Body, func(n ast.Node) bool {
			ce, ok := n.(*ast.CallExpr)
			if !ok {
				return true
			}
			if id, ok := ce.Fun.(*ast.Ident); ok && id.Name == "NewDelegatedFunction" && len(ce.Args) == 2 {
				name, _ := strconv.Unquote(ce.Args[0].(*ast.BasicLit).Value)
				if !first {
					sb.WriteString(", ")
				}
				first = false
				fmt.Fprintf(&sb, "(%s, %s)", strconv.Quote(name), strconv.Quote(exprStr(ce.Args[1])))
			}
			return true
		})
		sb.WriteString("]\n")
		// tokenizer constructors: SetCharacterState / Add / SetWordChars / SetWhitespaceChars / option setters
		tokMethods := map[string]bool{"SetCharacterState": true, "Add": true, "SetWordChars": true, "SetWhitespaceChars": true, "ClearWordChars": true,
			"ClearCharacterStates": true, "SetSkipWhitespaces": true, "SetSkipComments": true, "SetSkipEof": true, "SetDecodeStrings": true, "AddDefaultInterval": true}
		csvConsts := map[string]int{"CR": 13, "LF": 10, "Nil": 0}
		for _, t := range []struct{ lean, file, fn string }{
			{"genericTokenizer", "tokenizers/generic/GenericTokenizer.go", "NewGenericTokenizer"},
			{"genericWordState", "tokenizers/generic/GenericWordState.go", "NewGenericWordState"},
			{"genericWhitespaceState", "tokenizers/generic/GenericWhitespaceState.go", "NewGenericWhitespaceState"},
			{"expressionTokenizer", "calculator/tokenizers/ExpressionTokenizer.go", "NewExpressionTokenizer"},
			{"expressionWordState", "calculator/tokenizers/ExpressionWordState.go", "NewExpressionWordState"},
			{"expressionSymbolState", "calculator/tokenizers/ExpressionSymbolState.go", "NewExpressionSymbolState"},
			{"mustacheTokenizer", "mustache/tokenizers/MustacheTokenizer.go", "NewMustacheTokenizer"},
			{"csvAssignStates", "csv/CsvTokenizer.go", "AssignStates"},
			{"csvWordState", "csv/CsvWordState.go", "NewCsvWordState"},
			{"csvSymbolState", "csv/CsvSymbolState.go", "NewCsvSymbolState"},
		} {
			fmt.Fprintf(&sb, "def %s : List Call :=\n  %s\n", t.lean, callsLean(methodCalls(findFunc(parseRepoFile(t.file), t.fn), tokMethods, csvConsts)))
		}
		// the clamp constants of CharReferenceMap.AddInterval
		cm := parseRepoFile("tokenizers/utilities/CharReferenceMap.go")
		var lits []string
		ast.Inspect(findFunc(cm, "AddInterval").Body, func(n ast.Node) bool {
			if bl, ok := n.(*ast.BasicLit); ok && bl.Kind == token.INT {
				v, _ := strconv.ParseInt(bl.Value, 0, 64)
				lits = append(lits, strconv.Itoa(int(v)))
			}
			return true
		})
		fmt.Fprintf(&sb, "def addIntervalLiterals : List String := %s\n", leanStrList(lits))
		lk := findFunc(cm, "Lookup")
		ret := ""
		ast.Inspect(lk.Body, func(n ast.Node) bool {
			if rs, ok := n.(*ast.ReturnStmt); ok && len(rs.Results) == 1 {
				if s := exprStr(rs.Results[0]); strings.Contains(s, "Reference") {
					ret = s
				}
			}
			return true
		})
		fmt.Fprintf(&sb, "def lookupReturn : String := %s\n", strconv.Quote(ret))
		// DecodeString index expressions (D08)
		for _, t := range []struct{ lean, file string }{{"exprDecodeCond", "calculator/tokenizers/ExpressionQuoteState.go"}, {"csvDecodeCond", "csv/CsvQuoteState.go"}, {"genericDecodeCond", "tokenizers/generic/GenericQuoteState.go"}} {
			cond := ""
			ast.Inspect(findFunc(parseRepoFile(t.file), "DecodeString").Body, func(n ast.Node) bool {
				if is, ok := n.(*ast.IfStmt); ok && cond == "" {
					cond = exprStr(is.Cond)
				}
				return true
			})
			fmt.Fprintf(&sb, "def %s : String := %s\n", t.lean, strconv.Quote(cond))
		}
		// operator bodies per operand type, conversion tables (variants/*.go)
		av := parseRepoFile("variants/AbstractVariantOperations.go")
		var opRows [][3]string
		for _, m := range []string{"Add", "Sub", "Mul", "Div", "Mod", "Pow", "And", "Or", "Xor", "Lsh", "Rsh", "Not", "Negative", "Equal", "NotEqual", "More", "Less", "MoreEqual", "LessEqual"} {
			for _, cf := range typeSwitchCases(findFunc(av, m)) {
				opRows = append(opRows, [3]string{m, cf.label, cf.body})
			}
		}
		sb.WriteString(casesLean("opCases", opRows))
		for _, t := range []struct{ lean, file string }{{"unsafeConvCases", "variants/TypeUnsafeVariantOperations.go"}, {"safeConvCases", "variants/TypeSafeVariantOperations.go"}} {
			f := parseRepoFile(t.file)
			var rows [][3]string
			for _, d := range f.Decls {
				if fd, ok := d.(*ast.FuncDecl); ok && (fd.Name.Name == "Convert" || strings.HasPrefix(fd.Name.Name, "convertFrom")) {
					for _, cf := range typeSwitchCases(fd) {
						rows = append(rows, [3]string{fd.Name.Name, cf.label, cf.body})
					}
				}
			}
			sb.WriteString(casesLean(t.lean, rows))
		}
		// reset completeness: the fields of the long-lived objects and the fields their reset methods assign
		sb.WriteString("def resetFacts : List (String × List String × List String) :=\n  [")
		for i, t := range []struct{ file, typ, method string }{
			{"calculator/parsers/ExpressionParser.go", "ExpressionParser", "Clear"},
			{"mustache/parsers/MustacheParser.go", "MustacheParser", "Clear"},
			{"tokenizers/AbstractTokenizer.go", "AbstractTokenizer", "SetReader"},
			{"mustache/tokenizers/MustacheTokenizer.go", "MustacheTokenizer", "ReadNextToken"},
			{"calculator/ExpressionCalculator.go", "ExpressionCalculator", "Clear"},
			{"mustache/MustacheTemplate.go", "MustacheTemplate", "Clear"},
		} {
			f := parseRepoFile(t.file)
			if i > 0 {
				sb.WriteString(",\n   ")
			}
			fmt.Fprintf(&sb, "(%s, %s, %s)", strconv.Quote(t.typ+"."+t.method), leanStrList(structFields(f, t.typ)), leanStrList(assignedFields(findMethod(f, t.typ, t.method))))
		}
		sb.WriteString("]\n")
		sb.WriteString("\nend Verif.Gen\n")
		writeIfChanged(filepath.Join(dir, "Facts.lean"), sb.String())
		// inventories (compared with expect/*.json by ./check)
		inv := filepath.Join(filepath.Dir(filepath.Dir(filepath.Dir(dir))), ".work")
		writeJSON(filepath.Join(inv, "panic_sites.json"), panicSites())
		writeJSON(filepath.Join(inv, "write_effects.json"), writeEffects())
		writeJSON(filepath.Join(inv, "shared_state.json"), sharedState())
		writeJSON(filepath.Join(inv, "modelled_code.json"), modelledCode())
	}
}
