package main

import (
	"fmt"
	"strings"
	"time"

	"github.com/pip-services3-gox/pip-services3-expressions-gox/calculator"
	"github.com/pip-services3-gox/pip-services3-expressions-gox/calculator/functions"
	"github.com/pip-services3-gox/pip-services3-expressions-gox/variants"
	"github.com/pip-services3-gox/pip-services3-expressions-gox/calculator/parsers"
	"github.com/pip-services3-gox/pip-services3-expressions-gox/calculator/variables"
	"github.com/pip-services3-gox/pip-services3-expressions-gox/mustache"
	mparsers "github.com/pip-services3-gox/pip-services3-expressions-gox/mustache/parsers"
)

// C05, parser / calculator / template part: one instance fed a sequence of inputs must behave,
// at every step, like a fresh instance.

func parserSnapshot(p *parsers.ExpressionParser, err error) string {
	if err != nil {
		return "err " + errCode(err)
	}
	var r []string
	for _, t := range p.ResultTokens() {
		r = append(r, encETok(t))
	}
	return "ok " + strings.Join(r, " ") + " ; " + namesStr(p.VariableNames())
}

func runParserHistory(c *Ctx, exprs []string) {
	op := "phist " + strings.Join(mapStr(exprs, strRunes), " ")
	c.record(op, len(exprs) >= 2)
	c.count("parser-history")
	var note string
	st := safeCallT(5*time.Second, func() string {
		p := parsers.NewExpressionParser()
		calc := calculator.NewExpressionCalculator()
		for i, e := range exprs {
			got := parserSnapshot(p, p.ParseString(e))
			fp := parsers.NewExpressionParser()
			want := parserSnapshot(fp, fp.ParseString(e))
			if got != want && note == "" {
				note = fmt.Sprintf("step %d %q: reused parser gives %s, fresh parser gives %s", i, e, got, want)
			}
			// calculator: same value under equal variable values (variables supplied explicitly)
			vars := variables.NewVariableCollection()
			for _, b := range []binding{{"a", vInt(6)}, {"b", vInt(3)}, {"x", vStr("s")}} {
				vars.Add(variables.NewVariable(b.name, b.val))
			}
			ev := func(cc *calculator.ExpressionCalculator, viaTokens bool) string {
				if viaTokens {
					// every second step arrives as tokens: the entry point must not matter for what is evaluated
					cc.SetOriginalTokens(exprTokens(e))
				} else if err := cc.SetExpression(e); err != nil {
					return "err " + errCode(err)
				}
				return outcome(cc.EvaluateUsingVariables(vars))
			}
			g2, w2 := ev(calc, i%2 == 1), ev(calculator.NewExpressionCalculator(), i%2 == 1)
			if g2 != w2 && note == "" {
				note = fmt.Sprintf("step %d %q: reused calculator gives %s, fresh calculator gives %s", i, e, g2, w2)
			}
		}
		return ""
	})
	if st != "" {
		c.fail(Failure{Kind: "oracle", Op: op, Impl: st, Note: "did not return normally"})
	} else if note != "" {
		c.fail(Failure{Kind: "oracle", Op: op, Impl: "differs", Note: note})
	}
}

func runTemplateHistory(c *Ctx, srcs []string) {
	op := "thist " + strings.Join(mapStr(srcs, strRunes), " ")
	c.record(op, len(srcs) >= 2)
	c.count("template-history")
	var note string
	// the variable maps differ from step to step: exact keys, keys in another letter case, two keys that differ in case only
	varSets := []map[string]string{{"a": "1", "B": "", "name": "x/y"}, {"A": "2", "b": "q", "Name": "Bob"}, {"A": "2", "a": "3", "Name": "Bob", "NAME": "Alice", "b": ""},
		{"NAME": "Z", "nAME": "Y", "B": "1"}}
	st := safeCallT(5*time.Second, func() string {
		t := mustache.NewMustacheTemplate()
		t.SetAutoVariables(false)
		p := mparsers.NewMustacheParser()
		for i, s := range srcs {
			vars := varSets[(i+len(srcs))%len(varSets)]
			snap := func(tt *mustache.MustacheTemplate, pp *mparsers.MustacheParser) string {
				if err := pp.ParseString(s); err != nil {
					return "err " + errCode(err)
				}
				if err := tt.SetTemplate(s); err != nil {
					return "err " + errCode(err)
				}
				r, err := tt.EvaluateWithVariables(vars)
				if err != nil {
					return "err " + errCode(err)
				}
				return "ok " + encTplTree(pp.ResultTokens()) + " => " + r
			}
			ft := mustache.NewMustacheTemplate()
			ft.SetAutoVariables(false)
			got, want := snap(t, p), snap(ft, mparsers.NewMustacheParser())
			if got != want && note == "" {
				note = fmt.Sprintf("step %d %q: reused template gives %s, fresh one gives %s", i, s, got, want)
			}
		}
		return ""
	})
	if st != "" {
		c.fail(Failure{Kind: "oracle", Op: op, Impl: st, Note: "did not return normally"})
	} else if note != "" {
		c.fail(Failure{Kind: "oracle", Op: op, Impl: "differs", Note: note})
	}
}

// two calculators alive at the same time, each with its own edits of its default function table: what one of them
// computes equals what a calculator computes that is alone in the process with the same edits
func runTwoCalculators(c *Ctx, scenario int) {
	op := fmt.Sprintf("twocalc %d", scenario)
	c.record(op, true)
	c.count("two-live-calculators")
	mkFn := func(name string, k int) functions.IFunction {
		return functions.NewDelegatedFunction(name, func(p []*variants.Variant, o variants.IVariantOperations) (*variants.Variant, error) {
			if len(p) != 1 {
				return nil, fmt.Errorf("one parameter expected")
			}
			return o.Mul(p[0], variants.VariantFromInteger(k))
		})
	}
	exprs := []string{"Twice(21) + Max(1, 2)", "Min(4, 3) + Twice(1)", "Twice(2) * Twice(3)", "Sum(1, 2, 3) - Min(1, 2)"}
	var note string
	st := safeCallT(5*time.Second, func() string {
		ev := func(cc *calculator.ExpressionCalculator, e string) string {
			if err := cc.SetExpression(e); err != nil {
				return "err " + errCode(err)
			}
			return outcome(cc.Evaluate())
		}
		// the reference: a calculator with the same function table, used before any other one is edited
		alone := calculator.NewExpressionCalculator()
		alone.DefaultFunctions().Add(mkFn("Twice", 2))
		want := make([]string, len(exprs))
		for i, e := range exprs {
			want[i] = ev(alone, e)
		}
		c1 := calculator.NewExpressionCalculator()
		c1.DefaultFunctions().Add(mkFn("Twice", 2))
		var others []*calculator.ExpressionCalculator
		for i := 0; i <= scenario%3; i++ {
			o := calculator.NewExpressionCalculator()
			switch (scenario + i) % 4 {
			case 0:
				o.DefaultFunctions().Add(mkFn("Thrice", 3))
			case 1:
				o.DefaultFunctions().RemoveByName("Min")
			case 2:
				o.DefaultFunctions().Add(mkFn("Twice", 5))
			default:
				o.DefaultFunctions().Remove(0)
				o.DefaultFunctions().Add(mkFn("Max", 7))
			}
			others = append(others, o)
		}
		for i, e := range exprs {
			for _, o := range others {
				ev(o, e)
			}
			if g := ev(c1, e); g != want[i] && note == "" {
				note = fmt.Sprintf("%q: a calculator with the user function Twice gives %s while %d other calculator(s) with their own edited function tables are alive; a calculator with the same function table, used before the others existed, gave %s", e, g, len(others), want[i])
			}
		}
		return ""
	})
	if st != "" {
		c.fail(Failure{Kind: "oracle", Op: op, Impl: st, Note: "did not return normally"})
	} else if note != "" {
		c.fail(Failure{Kind: "oracle", Op: op, Impl: "differs", Note: note})
	}
}

func init() {
	calcHistories = func(c *Ctx) {
		for sc := 0; sc < 12; sc++ {
			runTwoCalculators(c, sc)
		}
		propC12Retention(c) // token lists handed out earlier keep their content while the tokenizer goes on
		// a rejected expression leaves nothing behind: no automatic variables, the same answers as a new calculator afterwards
		for _, bad := range []string{"limit * (rate + ", "rate +", "f(rate", "limit ? rate", "rate 1e999"} {
			for _, next := range []string{"rate IS NULL", "rate + 1", "limit", "Max(rate, 1)"} {
				op := "afterreject " + strRunes(bad) + " " + strRunes(next)
				c.record(op, true)
				c.count("after-a-rejected-expression")
				note := ""
				st := safeCallT(5*time.Second, func() string {
					calc := calculator.NewExpressionCalculator()
					if err := calc.SetExpression(bad); err == nil {
						return ""
					}
					if n := calc.DefaultVariables().Length(); n != 0 {
						note = fmt.Sprintf("the rejected expression %q left %d automatic variable(s) behind", bad, n)
						return ""
					}
					calc.SetAutoVariables(false)
					fresh := calculator.NewExpressionCalculator()
					fresh.SetAutoVariables(false)
					ev := func(cc *calculator.ExpressionCalculator) string {
						if err := cc.SetExpression(next); err != nil {
							return "err " + errCode(err)
						}
						return outcome(cc.Evaluate())
					}
					if g, w := ev(calc), ev(fresh); g != w {
						note = fmt.Sprintf("after the rejected %q (automatic variables then switched off) %q gives %s, on a new calculator %s", bad, next, g, w)
					}
					return ""
				})
				if st != "" || note != "" {
					c.fail(Failure{Kind: "oracle", Op: op, Impl: st, Note: note})
				}
			}
		}
		propDefaultTableEdits(c) // a used calculator whose function table is edited = a new calculator with that table
		propTplMaps(c)           // a used template whose variables are edited in place = a new template with those variables
		exprPool := []string{"a << 1", "a <= 1", "a <> 1", "a >> 1", "a >= b", "a != b", "a + b * 2", "(a", "a +", "1 2", "'unterminated", "/* open", "x", "Max(a, b)", "a[0]", "NOT a", "", "a IS NULL", "\"a\" + 1", "a NOT IN b"}
		tplPool := []string{"{{a}}", "{{{name}}}", "x{{#a}}y{{/a}}z", "{{#if B}}q{{/if}}", "{{^B}}w{{/B}}", "{{a", "{{#a}}x", "text", "", "{{! c }}ok", "{{ 'unterminated", "}}{{a}}", "{{ 😀 }}", "{{a}} {{B}}"}
		for _, a := range exprPool {
			for _, b := range exprPool {
				runParserHistory(c, []string{a, b})
			}
		}
		for _, a := range tplPool {
			for _, b := range tplPool {
				runTemplateHistory(c, []string{a, b})
			}
		}
		// neighbours that are almost the same input: letter case only, blanks only, one character
		for _, e := range []string{"x = 'Bob'", "Name + 'a'", "a IN ('x', 'Y')", "'Abc' LIKE 'a%'", "Max(A, b) + x", "a + 1", "TRUE and a"} {
			for _, v := range []string{swapCase(e), strings.ToUpper(e), strings.ToLower(e), e + " ", " " + e, e, strings.Replace(e, "a", "b", 1), e + " + 1"} {
				runParserHistory(c, []string{e, v})
				runParserHistory(c, []string{v, e})
				runParserHistory(c, []string{e, "(", v})
			}
		}
		for _, hist := range [][]string{{"{{name}}", "{{name}}"}, {"{{name}}", "{{name}}", "{{name}}"}, {"{{nAmE}} {{a}}", "{{name}}", "{{nAmE}} {{a}}", "{{NAME}}"}, {"{{#name}}{{a}}{{/name}}", "{{name}}{{A}}", "{{#name}}{{a}}{{/name}}"}} {
			runTemplateHistory(c, hist)
		}
		// … and neighbours that differ in white space only: between tokens it is irrelevant, inside string constants and quoted
		// identifiers it is data; a no-break space is no white space of the language at all
		for _, e := range []string{"'Dear  ' + 'customer'", "'a  b' IN Array('a  b', 'x')", "\"my  var\" + 1", "1 + 2", "a  +  b", "'x'  +  ' '", "Max( 1 ,  2 )"} {
			collapsed := strings.Join(strings.Fields(e), " ")
			for _, v := range []string{collapsed, strings.ReplaceAll(e, "  ", " "), strings.ReplaceAll(e, " ", "  "), strings.ReplaceAll(e, " ", "\t"), strings.ReplaceAll(e, " ", "\u00a0"), strings.ReplaceAll(e, "  ", " \n "), strings.Replace(e, " ", "\u0085", 1)} {
				if v != e {
					runParserHistory(c, []string{e, v})
					runParserHistory(c, []string{v, e})
					runParserHistory(c, []string{e, v, e})
				}
			}
		}
		for _, s := range []string{"Hello {{name}}!", "{{#A}}x{{/A}} Y", "{{{Name}}} and {{B}}", "text only"} {
			for _, v := range []string{swapCase(s), strings.ToUpper(s), strings.ToLower(s), s + " ", s, s + "."} {
				runTemplateHistory(c, []string{s, v})
				runTemplateHistory(c, []string{v, s})
			}
		}
		n, maxH := 150, 8
		if c.Thorough {
			n, maxH = 4000, 30
		}
		g := newExGen(c)
		for i := 0; i < n; i++ {
			h := 2 + c.Rng.Intn(maxH-1)
			es := make([]string, h)
			ts := make([]string, h)
			for j := range es {
				if c.Rng.Intn(2) == 0 {
					es[j] = exprPool[c.Rng.Intn(len(exprPool))]
					ts[j] = tplPool[c.Rng.Intn(len(tplPool))]
				} else {
					es[j] = g.render(g.toks(g.gen(1+c.Rng.Intn(3)), 0, c.Rng.Intn(3)), false)
					ts[j] = printTpl(g.genTpl(c.Rng.Intn(3), 1+c.Rng.Intn(4)))
				}
				if j > 0 && c.Rng.Intn(6) == 0 {
					es[j], ts[j] = swapCase(es[j-1]), swapCase(ts[j-1])
				}
			}
			runParserHistory(c, es)
			runTemplateHistory(c, ts)
		}
		c.Notes = append(c.Notes, "parser/calculator/template histories: every ordered pair from pools containing every multi-character operator, unterminated literals/comments/tags and rejected inputs, plus random longer sequences, each step compared with fresh instances under equal variable values")
	}
	calcReplay = func(c *Ctx, op string) {
		f := strings.Fields(op)
		var xs []string
		for _, p := range f[1:] {
			xs = append(xs, string(parseRunes(p)))
		}
		switch f[0] {
		case "phist":
			runParserHistory(c, xs)
		case "thist":
			runTemplateHistory(c, xs)
		case "deftable":
			propDefaultTableEdits(c)
		case "tplmap":
			propTplMaps(c)
		case "twocalc":
			var sc int
			fmt.Sscanf(f[1], "%d", &sc)
			runTwoCalculators(c, sc)
		}
	}
}
