/-
Model of /repo/io/StringScanner.go (after the `fix:` repair of Unread).

Conventions
* `Rune := Nat` (a Unicode scalar value).  Go's `-1` (EOF) is `none : Option Rune`.
* `pos` is Go's `position + 1`, i.e. the number of *slots* consumed so far.  Slots are
  numbered 1 … len for the characters and len+1 for the single end-of-input slot.
  `slot c k` is Go's `charAt(k-1)`.
-/
namespace Verif

abbrev Rune := Nat

def LF : Rune := 10
def CR : Rune := 13

/-- Go `isLine(charBefore, charAt, charAfter)`. -/
def isLine (before cur after : Option Rune) : Bool :=
  if cur != some LF && cur != some CR then false
  else if cur == some CR && (before == some LF || after == some LF) then false
  else true

/-- Go `isColumn(charAt)`. -/
def isColumn (cur : Option Rune) : Bool :=
  !(cur == some LF || cur == some CR)

/-- Go `charAt(k-1)`: slot `k` of the content (`none` outside `1..len`). -/
def slot (c : List Rune) (k : Nat) : Option Rune :=
  if k = 0 then none else c[k-1]?

/-- The line/column update `Read` performs when it consumes slot `k` (1 ≤ k ≤ len). -/
def stepLC (c : List Rune) (k : Nat) (lc : Nat × Nat) : Nat × Nat :=
  let l : Nat × Nat :=
    if isLine (slot c (k-1)) (slot c k) (slot c (k+1)) then (lc.1 + 1, 0) else lc
  if isColumn (slot c k) then (l.1, l.2 + 1) else l

/-- SPEC: line and column reported by a fresh forward scan that consumed `k` slots. -/
def lcUpTo (c : List Rune) : Nat → Nat × Nat
  | 0 => (1, 0)
  | k+1 => if k+1 ≤ c.length then stepLC c (k+1) (lcUpTo c k) else lcUpTo c k

structure Scanner where
  content : List Rune
  pos : Nat
  line : Nat
  col : Nat
  deriving Repr, DecidableEq

namespace Scanner

def new (c : List Rune) : Scanner := { content := c, pos := 0, line := 1, col := 0 }

/-- Go `Read`. -/
def read (s : Scanner) : Option Rune × Scanner :=
  if s.pos > s.content.length then (none, s)
  else if s.pos + 1 > s.content.length then (none, { s with pos := s.pos + 1 })
  else
    let lc := stepLC s.content (s.pos + 1) (s.line, s.col)
    (slot s.content (s.pos + 1), { s with pos := s.pos + 1, line := lc.1, col := lc.2 })

def peek (s : Scanner) : Option Rune := slot s.content (s.pos + 1)

def peekLine (s : Scanner) : Nat :=
  if isLine (slot s.content s.pos) (slot s.content (s.pos + 1)) (slot s.content (s.pos + 2))
  then s.line + 1 else s.line

def peekColumn (s : Scanner) : Nat :=
  if isLine (slot s.content s.pos) (slot s.content (s.pos + 1)) (slot s.content (s.pos + 2))
  then 0
  else if isColumn (slot s.content (s.pos + 1)) then s.col + 1 else s.col

/-- Go `Unread` (repaired): no-op at the start; the end-of-input slot carries no
line/column change; an ordinary character decrements the column; a line-break character
triggers the full recomputation (a forward scan to the new position). -/
def unread (s : Scanner) : Scanner :=
  if s.pos = 0 then s
  else if s.pos > s.content.length then { s with pos := s.pos - 1 }
  else if isColumn (slot s.content s.pos) then { s with pos := s.pos - 1, col := s.col - 1 }
  else
    let lc := lcUpTo s.content (s.pos - 1)
    { s with pos := s.pos - 1, line := lc.1, col := lc.2 }

def unreadMany : Nat → Scanner → Scanner
  | 0, s => s
  | n+1, s => unreadMany n (unread s)

def reset (s : Scanner) : Scanner := { s with pos := 0, line := 1, col := 0 }

end Scanner

/-- Scanner operations (for histories). -/
inductive ScanOp where
  | read | unread | unreadMany (n : Nat) | peek | peekLine | peekColumn | reset
  deriving Repr, DecidableEq

def Scanner.apply (s : Scanner) : ScanOp → Scanner
  | .read => (s.read).2
  | .unread => s.unread
  | .unreadMany n => s.unreadMany n
  | .peek => s
  | .peekLine => s
  | .peekColumn => s
  | .reset => s.reset

def Scanner.run (s : Scanner) (ops : List ScanOp) : Scanner := ops.foldl Scanner.apply s

end Verif
