/-
Helper lemmas for numeric-constant decoding (`Verif/Model/Pipeline.lean`): decimal digit strings,
round-half-even division, comparison of a rational with a power of two, and the structure of
`ratToF32Bits`.
-/
import Verif.Model.Pipeline

namespace Verif

/-! ### A. decimal digit strings -/

/-- the usual decimal text of `n` as code points (`"0"` for `0`) -/
def natDigits (n : Nat) : List Rune := (Nat.toDigits 10 n).map Char.toNat

/-- value of a digit string, as folded by `decNat` / `parseDecLit` -/
def digVal (ds : List Rune) : Nat := ds.foldl (fun acc c => acc * 10 + (c - 48)) 0

theorem isDigitR_iff (c : Nat) : isDigitR c = true ↔ (48 ≤ c ∧ c ≤ 57) := by
  unfold isDigitR
  simp

theorem natDigits_lt {n : Nat} (h : n < 10) : natDigits n = [48 + n] := by
  simp [natDigits, Nat.toDigits_of_lt_base h, Nat.toNat_digitChar_of_lt_ten h]

theorem natDigits_ge {n : Nat} (h : 10 ≤ n) :
    natDigits n = natDigits (n / 10) ++ [48 + n % 10] := by
  have hm : n % 10 < 10 := Nat.mod_lt _ (by omega)
  simp [natDigits, Nat.toDigits_of_base_le (by omega : 1 < 10) h,
    Nat.toNat_digitChar_of_lt_ten hm]

theorem natDigits_ne_nil (n : Nat) : natDigits n ≠ [] := by
  simp [natDigits]

theorem natDigits_length (n : Nat) : (natDigits n).length = decDigitCount n := by
  simp [natDigits, decDigitCount]

theorem natDigits_all (n : Nat) : (natDigits n).all isDigitR = true := by
  induction n using Nat.strongRecOn with
  | _ n ih =>
    by_cases h : n < 10
    · rw [natDigits_lt h]
      simp [isDigitR_iff]; omega
    · have h' : 10 ≤ n := by omega
      rw [natDigits_ge h', List.all_append, ih (n / 10) (by omega)]
      have hm : n % 10 < 10 := Nat.mod_lt _ (by omega)
      simp [isDigitR_iff]; omega

theorem foldl_digits_append (a : List Rune) (c : Rune) (i : Nat) :
    (a ++ [c]).foldl (fun acc c => acc * 10 + (c - 48)) i
      = a.foldl (fun acc c => acc * 10 + (c - 48)) i * 10 + (c - 48) := by
  simp [List.foldl_append]

theorem digVal_natDigits (n : Nat) : digVal (natDigits n) = n := by
  induction n using Nat.strongRecOn with
  | _ n ih =>
    by_cases h : n < 10
    · rw [natDigits_lt h]; simp [digVal]
    · have h' : 10 ≤ n := by omega
      rw [natDigits_ge h']
      unfold digVal
      rw [foldl_digits_append]
      have := ih (n / 10) (by omega)
      unfold digVal at this
      rw [this]
      omega

theorem foldl_zeros (k : Nat) :
    (List.replicate k (48 : Rune)).foldl (fun acc c => acc * 10 + (c - 48)) 0 = 0 := by
  induction k with
  | zero => rfl
  | succ k ih => simp [List.replicate_succ, ih]

theorem decNat_eq_some {ds : List Rune} (h1 : ds ≠ []) (h2 : ds.all isDigitR = true) :
    decNat ds = some (digVal ds) := by
  unfold decNat digVal
  have : ds.isEmpty = false := by
    cases ds with
    | nil => exact absurd rfl h1
    | cons _ _ => rfl
  simp only [this, h2, Bool.not_true, Bool.or_self, Bool.false_eq_true, if_false]

theorem decNat_some_iff {ds : List Rune} {n : Nat} :
    decNat ds = some n ↔ ds ≠ [] ∧ ds.all isDigitR = true ∧ digVal ds = n := by
  constructor
  · intro h
    unfold decNat at h
    split at h
    · cases h
    · rename_i hc
      have hc' : ds.isEmpty = false ∧ ds.all isDigitR = true := by
        simpa using hc
      refine ⟨?_, hc'.2, ?_⟩
      · intro he; subst he; simp at hc'
      · simpa [digVal] using h
  · rintro ⟨h1, h2, h3⟩
    rw [decNat_eq_some h1 h2, h3]

/-! ### B. round-half-even division -/

theorem divRoundEven_cases (num den : Nat) :
    (divRoundEven num den = num / den ∧
        (2 * (num % den) < den ∨ (2 * (num % den) = den ∧ (num / den) % 2 = 0))) ∨
    (divRoundEven num den = num / den + 1 ∧
        (den < 2 * (num % den) ∨ (2 * (num % den) = den ∧ (num / den) % 2 = 1))) := by
  unfold divRoundEven
  simp only []
  split
  · rename_i h
    right
    refine ⟨rfl, ?_⟩
    simp only [Bool.or_eq_true, decide_eq_true_eq, Bool.and_eq_true, beq_iff_eq] at h
    omega
  · rename_i h
    left
    refine ⟨rfl, ?_⟩
    simp only [Bool.or_eq_true, decide_eq_true_eq, Bool.and_eq_true, beq_iff_eq] at h
    omega

/-- `|num/den − q| ≤ 1/2`, in linear form -/
theorem divRoundEven_bound (num den : Nat) (hd : 0 < den) :
    2 * num ≤ 2 * (divRoundEven num den * den) + den ∧
    2 * (divRoundEven num den * den) ≤ 2 * num + den := by
  have h1 := Nat.div_add_mod num den
  have h2 := Nat.mod_lt num hd
  rcases divRoundEven_cases num den with ⟨hq, hc⟩ | ⟨hq, hc⟩
  · rw [hq, Nat.mul_comm (num / den) den]
    generalize den * (num / den) = p at *
    omega
  · rw [hq, Nat.add_mul, Nat.mul_comm (num / den) den]
    generalize den * (num / den) = p at *
    omega

theorem divRoundEven_floor (num den : Nat) :
    num / den ≤ divRoundEven num den ∧ divRoundEven num den ≤ num / den + 1 := by
  rcases divRoundEven_cases num den with ⟨hq, _⟩ | ⟨hq, _⟩ <;> omega

/-- exactly halfway (on either side) implies an even result -/
theorem divRoundEven_tie (num den : Nat) (hd : 0 < den)
    (h : 2 * num = 2 * (divRoundEven num den * den) + den ∨
         2 * (divRoundEven num den * den) = 2 * num + den) :
    divRoundEven num den % 2 = 0 := by
  have h1 := Nat.div_add_mod num den
  have h2 := Nat.mod_lt num hd
  rcases divRoundEven_cases num den with ⟨hq, hc⟩ | ⟨hq, hc⟩
  · rw [hq, Nat.mul_comm (num / den) den] at h
    rw [hq]
    generalize den * (num / den) = p at *
    omega
  · rw [hq, Nat.add_mul, Nat.mul_comm (num / den) den] at h
    rw [hq]
    generalize den * (num / den) = p at *
    omega

theorem divRoundEven_mono {num num' : Nat} (den : Nat) (h : num ≤ num') :
    divRoundEven num den ≤ divRoundEven num' den := by
  have hdiv : num / den ≤ num' / den := Nat.div_le_div_right h
  have f1 := divRoundEven_floor num den
  have f2 := divRoundEven_floor num' den
  by_cases hlt : num / den < num' / den
  · omega
  · have heq : num / den = num' / den := by omega
    have h1 := Nat.div_add_mod num den
    have h1' := Nat.div_add_mod num' den
    rw [← heq] at h1'
    rcases divRoundEven_cases num den with ⟨hq, hc⟩ | ⟨hq, hc⟩ <;>
    rcases divRoundEven_cases num' den with ⟨hq', hc'⟩ | ⟨hq', hc'⟩ <;>
    rw [hq, hq'] <;> rw [← heq] at hc' ⊢ <;>
    generalize den * (num / den) = p at * <;> omega

theorem divRoundEven_eq_zero {num den : Nat} (h : 2 * num ≤ den) : divRoundEven num den = 0 := by
  by_cases hd : den = 0
  · subst hd
    have : num = 0 := by omega
    subst this
    rfl
  · have hlt : num < den := by omega
    have h0 : num / den = 0 := Nat.div_eq_of_lt hlt
    have hm : num % den = num := Nat.mod_eq_of_lt hlt
    rcases divRoundEven_cases num den with ⟨hq, _⟩ | ⟨hq, hc⟩
    · omega
    · rw [hm, h0] at hc; omega

theorem divRoundEven_pos {num den : Nat} (hd : 0 < den) (h : den < 2 * num) :
    0 < divRoundEven num den := by
  have := divRoundEven_bound num den hd
  rcases Nat.eq_zero_or_pos (divRoundEven num den) with h0 | h0
  · rw [h0] at this; omega
  · exact h0

/-- `k − 1/2 ≤ num/den` with `k` even gives `k ≤` the rounded quotient -/
theorem divRoundEven_ge_of_half {num den k : Nat} (hd : 0 < den) (hk : k % 2 = 0)
    (h : 2 * (k * den) ≤ 2 * num + den) : k ≤ divRoundEven num den := by
  have h1 := Nat.div_add_mod num den
  have h2 := Nat.mod_lt num hd
  have f1 := divRoundEven_floor num den
  by_cases hge : k ≤ num / den
  · omega
  · by_cases hk1 : num / den + 1 = k
    · rcases divRoundEven_cases num den with ⟨hq, hc⟩ | ⟨hq, hc⟩
      · exfalso
        rw [← hk1, Nat.add_mul, Nat.mul_comm (num / den) den] at h
        generalize den * (num / den) = p at *
        omega
      · omega
    · exfalso
      have hk2 : num / den + 2 ≤ k := by omega
      have := Nat.mul_le_mul_right den hk2
      rw [Nat.add_mul, Nat.mul_comm (num / den) den] at this
      generalize den * (num / den) = p at *
      generalize k * den = kd at *
      omega

/-- `num/den < k − 1/2` gives a rounded quotient below `k` -/
theorem divRoundEven_lt_of_half {num den k : Nat} (hd : 0 < den)
    (h : 2 * num + den < 2 * (k * den)) : divRoundEven num den < k := by
  have hb := (divRoundEven_bound num den hd).2
  apply Classical.byContradiction
  intro hn
  have hk : k ≤ divRoundEven num den := by omega
  have := Nat.mul_le_mul_right den hk
  generalize divRoundEven num den * den = qd at *
  generalize k * den = kd at *
  omega

/-! ### comparing `num/den` with a power of two -/

/-- `num/den ≥ 2^k` -/
def geI (num den : Nat) (k : Int) : Prop := den * 2 ^ k.toNat ≤ num * 2 ^ (-k).toNat

theorem two_pow_pos' (n : Nat) : 0 < 2 ^ n := Nat.pow_pos (by decide)

theorem mul_pow_succ (x a : Nat) : x * 2 ^ (a + 1) = 2 * (x * 2 ^ a) := by
  rw [Nat.pow_succ, ← Nat.mul_assoc, Nat.mul_comm]

theorem geI_iff {num den a b : Nat} {k : Int} (h : (a : Int) - b = k) :
    geI num den k ↔ den * 2 ^ a ≤ num * 2 ^ b := by
  unfold geI
  by_cases hk : 0 ≤ k
  · have h1 : k.toNat + b = a := by omega
    have h2 : (-k).toNat = 0 := by omega
    rw [h2, ← h1, Nat.pow_add, Nat.pow_zero, Nat.mul_one, ← Nat.mul_assoc]
    exact (Nat.mul_le_mul_right_iff (two_pow_pos' b)).symm
  · have h1 : (-k).toNat + a = b := by omega
    have h2 : k.toNat = 0 := by omega
    rw [h2, ← h1, Nat.pow_add, Nat.pow_zero, Nat.mul_one, ← Nat.mul_assoc]
    exact (Nat.mul_le_mul_right_iff (two_pow_pos' a)).symm

theorem geI_anti {num den : Nat} {j k : Int} (hjk : j ≤ k) (h : geI num den k) : geI num den j := by
  have hk := (geI_iff (num := num) (den := den) (a := k.toNat) (b := (-k).toNat) (k := k)
    (by omega)).1 h
  have hd : (k.toNat : Int) - ((-k).toNat + (k - j).toNat : Nat) = j := by omega
  rw [geI_iff hd, Nat.pow_add, ← Nat.mul_assoc]
  exact Nat.le_trans hk (Nat.le_mul_of_pos_right _ (two_pow_pos' _))

theorem geI_mono_num {num num' den : Nat} {k : Int} (hn : num ≤ num') (h : geI num den k) :
    geI num' den k :=
  Nat.le_trans h (Nat.mul_le_mul_right _ hn)

/-! ### the structure of `ratToF32Bits` -/

def f32GeB (num den : Nat) (e : Int) : Bool :=
  if e ≥ 0 then num ≥ den * 2 ^ e.toNat else num * 2 ^ (-e).toNat ≥ den

/-- `floor (log2 (num/den))` as computed by `ratToF32Bits` -/
def f32E (num den : Nat) : Int :=
  if f32GeB num den ((bitLen num : Int) - (bitLen den : Int)) then
    (bitLen num : Int) - (bitLen den : Int)
  else (bitLen num : Int) - (bitLen den : Int) - 1

/-- exponent of the rounding unit -/
def f32U (num den : Nat) : Int := if f32E num den - 23 < -149 then -149 else f32E num den - 23

/-- the rounded quotient `round (num / (den * 2^u))` -/
def f32Q (num den : Nat) : Nat :=
  if f32U num den ≥ 0 then divRoundEven num (den * 2 ^ (f32U num den).toNat)
  else divRoundEven (num * 2 ^ (-(f32U num den)).toNat) den

/-- carry into the next binade and encoding -/
def f32Finish (q : Nat) (u : Int) : Option UInt32 :=
  let (q, u) := if q ≥ 2 ^ 24 then (q / 2, u + 1) else (q, u)
  if q < 2 ^ 23 then some (UInt32.ofNat q)
  else
    let biased : Int := u + 23 + 127
    if biased ≥ 255 then none
    else some (UInt32.ofNat (biased.toNat * 2 ^ 23 + (q - 2 ^ 23)))

theorem ratToF32Bits_eq (num den : Nat) :
    ratToF32Bits num den = f32Finish (f32Q num den) (f32U num den) := by
  unfold ratToF32Bits f32Finish f32Q f32U f32E f32GeB
  rfl

theorem f32Finish_carry {q : Nat} {u : Int} (h : q ≥ 2 ^ 24) :
    f32Finish q u =
    (if q / 2 < 2 ^ 23 then some (UInt32.ofNat (q / 2))
     else if u + 1 + 23 + 127 ≥ 255 then none
     else some (UInt32.ofNat ((u + 1 + 23 + 127).toNat * 2 ^ 23 + (q / 2 - 2 ^ 23)))) := by
  simp only [f32Finish, h, if_true]

theorem f32Finish_nocarry {q : Nat} {u : Int} (h : ¬ q ≥ 2 ^ 24) :
    f32Finish q u =
    (if q < 2 ^ 23 then some (UInt32.ofNat q)
     else if u + 23 + 127 ≥ 255 then none
     else some (UInt32.ofNat ((u + 23 + 127).toNat * 2 ^ 23 + (q - 2 ^ 23)))) := by
  simp only [f32Finish, h, if_false]

/-- the encoding is the plain sum `(u + 149) * 2^23 + q`; the carry needs no special case -/
theorem f32Finish_eq {q : Nat} {u : Int} (hq : q ≤ 2 ^ 24) (hu : -149 ≤ u)
    (hsub : q < 2 ^ 23 → u = -149) :
    f32Finish q u =
      if (u + 149).toNat * 2 ^ 23 + q < 0x7f800000 then
        some (UInt32.ofNat ((u + 149).toNat * 2 ^ 23 + q))
      else none := by
  obtain ⟨t, rfl⟩ : ∃ t : Nat, u = (t : Int) - 149 := ⟨(u + 149).toNat, by omega⟩
  have ht : ((t : Int) - 149 + 149).toNat = t := by omega
  rw [ht]
  by_cases hc : q ≥ 2 ^ 24
  · have hq' : q = 2 ^ 24 := by omega
    subst hq'
    rw [f32Finish_carry hc]
    have h1 : ¬ (2 ^ 24 / 2 < 2 ^ 23) := by decide
    rw [if_neg h1]
    have h2 : ((t : Int) - 149 + 1 + 23 + 127).toNat = t + 2 := by omega
    rw [h2]
    by_cases hb : (t : Int) - 149 + 1 + 23 + 127 ≥ 255
    · rw [if_pos hb, if_neg (by omega)]
    · rw [if_neg hb, if_pos (by omega)]
      have e : (t + 2) * 2 ^ 23 + (2 ^ 24 / 2 - 2 ^ 23) = t * 2 ^ 23 + 2 ^ 24 := by omega
      rw [e]
  · rw [f32Finish_nocarry hc]
    by_cases hs : q < 2 ^ 23
    · have := hsub hs
      have ht0 : t = 0 := by omega
      subst ht0
      rw [if_pos hs, if_pos (by omega)]
      have e : 0 * 2 ^ 23 + q = q := by omega
      rw [e]
    · rw [if_neg hs]
      have h2 : ((t : Int) - 149 + 23 + 127).toNat = t + 1 := by omega
      rw [h2]
      by_cases hb : (t : Int) - 149 + 23 + 127 ≥ 255
      · rw [if_pos hb, if_neg (by omega)]
      · rw [if_neg hb, if_pos (by omega)]
        have e : (t + 1) * 2 ^ 23 + (q - 2 ^ 23) = t * 2 ^ 23 + q := by omega
        rw [e]

theorem bitLen_bounds {n : Nat} (h : 0 < n) : 2 ^ bitLen n ≤ 2 * n ∧ n < 2 ^ bitLen n := by
  have hn : n ≠ 0 := by omega
  unfold bitLen
  rw [if_neg hn]
  refine ⟨?_, Nat.lt_log2_self⟩
  rw [Nat.pow_succ, Nat.mul_comm]
  exact Nat.mul_le_mul_left 2 (Nat.log2_self_le hn)

theorem f32GeB_iff (num den : Nat) (e : Int) : f32GeB num den e = true ↔ geI num den e := by
  unfold f32GeB geI
  by_cases h : e ≥ 0
  · have h2 : (-e).toNat = 0 := by omega
    simp [h, h2]
  · have h2 : e.toNat = 0 := by omega
    simp [h, h2]

theorem f32E_spec {num den : Nat} (hn : 0 < num) (hd : 0 < den) :
    geI num den (f32E num den) ∧ ¬ geI num den (f32E num den + 1) := by
  obtain ⟨n1, n2⟩ := bitLen_bounds hn
  obtain ⟨d1, d2⟩ := bitLen_bounds hd
  have hlo : geI num den ((bitLen num : Int) - (bitLen den : Int) - 1) := by
    have hk : ((bitLen num : Nat) : Int) - ((bitLen den + 1 : Nat) : Int)
        = (bitLen num : Int) - (bitLen den : Int) - 1 := by omega
    rw [geI_iff hk, Nat.pow_succ, ← Nat.mul_assoc, Nat.mul_comm den]
    have := Nat.mul_le_mul n1 (Nat.le_of_lt d2)
    calc 2 ^ bitLen num * den ≤ 2 * num * 2 ^ bitLen den := this
      _ = num * 2 ^ bitLen den * 2 := by
        rw [Nat.mul_comm 2 num, Nat.mul_assoc, Nat.mul_comm 2, ← Nat.mul_assoc]
  have hhi : ¬ geI num den ((bitLen num : Int) - (bitLen den : Int) + 1) := by
    have hk : ((bitLen num + 1 : Nat) : Int) - ((bitLen den : Nat) : Int)
        = (bitLen num : Int) - (bitLen den : Int) + 1 := by omega
    rw [geI_iff hk, Nat.not_le, Nat.pow_succ, ← Nat.mul_assoc]
    have := Nat.mul_lt_mul_of_lt_of_le n2 d1 (by omega : 0 < 2 * den)
    calc num * 2 ^ bitLen den < 2 ^ bitLen num * (2 * den) := this
      _ = den * 2 ^ bitLen num * 2 := by
        rw [Nat.mul_comm 2 den, ← Nat.mul_assoc, Nat.mul_comm (2 ^ bitLen num) den]
  unfold f32E
  by_cases hg : f32GeB num den ((bitLen num : Int) - (bitLen den : Int)) = true
  · rw [if_pos hg]
    exact ⟨(f32GeB_iff _ _ _).1 hg, hhi⟩
  · rw [if_neg hg]
    refine ⟨hlo, ?_⟩
    have : (bitLen num : Int) - (bitLen den : Int) - 1 + 1 = (bitLen num : Int) - (bitLen den : Int) := by
      omega
    rw [this]
    exact fun h => hg ((f32GeB_iff _ _ _).2 h)

/-- `e` is determined by the two comparisons -/
theorem f32E_unique {num den : Nat} {e e' : Int}
    (h1 : geI num den e) (h2 : ¬ geI num den (e' + 1)) : e ≤ e' := by
  apply Classical.byContradiction
  intro hlt
  exact h2 (geI_anti (by omega) h1)

theorem f32U_spec (num den : Nat) :
    -149 ≤ f32U num den ∧ f32E num den - 23 ≤ f32U num den ∧
    (f32U num den = -149 ∨ f32U num den = f32E num den - 23) := by
  unfold f32U
  split <;> omega

theorem f32Q_eq (num den : Nat) :
    f32Q num den =
      divRoundEven (num * 2 ^ (-(f32U num den)).toNat) (den * 2 ^ (f32U num den).toNat) := by
  unfold f32Q
  by_cases h : f32U num den ≥ 0
  · have h2 : (-(f32U num den)).toNat = 0 := by omega
    rw [if_pos h, h2, Nat.pow_zero, Nat.mul_one]
  · have h2 : (f32U num den).toNat = 0 := by omega
    rw [if_neg h, h2, Nat.pow_zero, Nat.mul_one]

/-- the scaled value lies in `[2^23, 2^24)` (only the upper bound for subnormals) -/
theorem f32_scaled_bounds {num den : Nat} (hn : 0 < num) (hd : 0 < den) :
    num * 2 ^ (-(f32U num den)).toNat < den * 2 ^ (f32U num den).toNat * 2 ^ 24 ∧
    (-149 < f32U num den →
      den * 2 ^ (f32U num den).toNat * 2 ^ 23 ≤ num * 2 ^ (-(f32U num den)).toNat) := by
  obtain ⟨e1, e2⟩ := f32E_spec hn hd
  obtain ⟨u1, u2, u3⟩ := f32U_spec num den
  generalize f32U num den = u at *
  generalize f32E num den = e at *
  constructor
  · have h : ¬ geI num den (u + 24) := fun h => e2 (geI_anti (by omega) h)
    have hk : ((u.toNat + 24 : Nat) : Int) - (((-u).toNat : Nat) : Int) = u + 24 := by omega
    rw [geI_iff hk, Nat.not_le, Nat.pow_add, ← Nat.mul_assoc] at h
    exact h
  · intro hu
    have h : geI num den (u + 23) := geI_anti (by omega) e1
    have hk : ((u.toNat + 23 : Nat) : Int) - (((-u).toNat : Nat) : Int) = u + 23 := by omega
    rw [geI_iff hk, Nat.pow_add, ← Nat.mul_assoc] at h
    exact h

theorem f32Q_bounds {num den : Nat} (hn : 0 < num) (hd : 0 < den) :
    f32Q num den ≤ 2 ^ 24 ∧ (-149 < f32U num den → 2 ^ 23 ≤ f32Q num den) := by
  obtain ⟨b1, b2⟩ := f32_scaled_bounds hn hd
  rw [f32Q_eq]
  have hD : 0 < den * 2 ^ (f32U num den).toNat := Nat.mul_pos hd (two_pow_pos' _)
  generalize den * 2 ^ (f32U num den).toNat = D at *
  generalize num * 2 ^ (-(f32U num den)).toNat = N at *
  have f := divRoundEven_floor N D
  constructor
  · have : N / D < 2 ^ 24 := (Nat.div_lt_iff_lt_mul hD).2 (by rw [Nat.mul_comm]; exact b1)
    omega
  · intro hu
    have : 2 ^ 23 ≤ N / D := (Nat.le_div_iff_mul_le hD).2 (by rw [Nat.mul_comm]; exact b2 hu)
    omega

/-- the bit pattern as a natural number, before the range check -/
def f32BitsNat (num den : Nat) : Nat := (f32U num den + 149).toNat * 2 ^ 23 + f32Q num den

theorem ratToF32Bits_eq_bitsNat {num den : Nat} (hn : 0 < num) (hd : 0 < den) :
    ratToF32Bits num den =
      if f32BitsNat num den < 0x7f800000 then some (UInt32.ofNat (f32BitsNat num den)) else none := by
  obtain ⟨q1, q2⟩ := f32Q_bounds hn hd
  obtain ⟨u1, _, _⟩ := f32U_spec num den
  rw [ratToF32Bits_eq, f32Finish_eq q1 u1]
  · rfl
  · intro hq
    apply Classical.byContradiction
    intro hne
    have := q2 (by omega)
    omega

/-! ### decoding bit patterns without floats -/

/-- significand of a non-negative binary32 pattern (hidden bit included for normal numbers) -/
def f32Mant (b : Nat) : Nat := if b / 2 ^ 23 = 0 then b % 2 ^ 23 else 2 ^ 23 + b % 2 ^ 23

/-- exponent of the last significand bit: value = `f32Mant b * 2 ^ f32Exp b` -/
def f32Exp (b : Nat) : Int := if b / 2 ^ 23 = 0 then -149 else ((b / 2 ^ 23 : Nat) : Int) - 150

theorem f32_decode_sum {t q : Nat} (hq : q ≤ 2 ^ 24) (hsub : q < 2 ^ 23 → t = 0) :
    (q < 2 ^ 24 ∧ f32Mant (t * 2 ^ 23 + q) = q ∧ f32Exp (t * 2 ^ 23 + q) = (t : Int) - 149) ∨
    (q = 2 ^ 24 ∧ f32Mant (t * 2 ^ 23 + q) = 2 ^ 23 ∧
      f32Exp (t * 2 ^ 23 + q) = (t : Int) - 149 + 1) := by
  unfold f32Mant f32Exp
  by_cases h1 : q < 2 ^ 23
  · have := hsub h1
    subst this
    left
    have e1 : (0 * 2 ^ 23 + q) / 2 ^ 23 = 0 := by omega
    have e2 : (0 * 2 ^ 23 + q) % 2 ^ 23 = q := by omega
    rw [e1, e2, if_pos rfl, if_pos rfl]
    refine ⟨by omega, rfl, by omega⟩
  · by_cases h2 : q < 2 ^ 24
    · left
      have e1 : (t * 2 ^ 23 + q) / 2 ^ 23 = t + 1 := by omega
      have e2 : (t * 2 ^ 23 + q) % 2 ^ 23 = q - 2 ^ 23 := by omega
      rw [e1, e2, if_neg (by omega), if_neg (by omega)]
      refine ⟨h2, by omega, by omega⟩
    · right
      have hq' : q = 2 ^ 24 := by omega
      subst hq'
      have e1 : (t * 2 ^ 23 + 2 ^ 24) / 2 ^ 23 = t + 2 := by omega
      have e2 : (t * 2 ^ 23 + 2 ^ 24) % 2 ^ 23 = 0 := by omega
      rw [e1, e2, if_neg (by omega), if_neg (by omega)]
      refine ⟨rfl, by omega, by omega⟩

theorem f32_decode {num den : Nat} (hn : 0 < num) (hd : 0 < den) :
    (f32Q num den < 2 ^ 24 ∧ f32Mant (f32BitsNat num den) = f32Q num den ∧
      f32Exp (f32BitsNat num den) = f32U num den) ∨
    (f32Q num den = 2 ^ 24 ∧ f32Mant (f32BitsNat num den) = 2 ^ 23 ∧
      f32Exp (f32BitsNat num den) = f32U num den + 1) := by
  obtain ⟨q1, q2⟩ := f32Q_bounds hn hd
  obtain ⟨u1, _, _⟩ := f32U_spec num den
  have hsub : f32Q num den < 2 ^ 23 → (f32U num den + 149).toNat = 0 := by
    intro hq
    apply Classical.byContradiction
    intro hne
    have := q2 (by omega)
    omega
  have := f32_decode_sum q1 hsub
  have ht : (((f32U num den + 149).toNat : Nat) : Int) - 149 = f32U num den := by omega
  rw [ht] at this
  exact this

theorem ratToF32Bits_some {num den : Nat} {bits : UInt32} (hn : 0 < num) (hd : 0 < den)
    (h : ratToF32Bits num den = some bits) :
    f32BitsNat num den < 0x7f800000 ∧ bits.toNat = f32BitsNat num den := by
  rw [ratToF32Bits_eq_bitsNat hn hd] at h
  split at h
  · rename_i hlt
    refine ⟨hlt, ?_⟩
    injection h with h
    rw [← h]
    exact UInt32.toNat_ofNat_of_lt' (by unfold UInt32.size; omega)
  · cases h

theorem ratToF32Bits_none {num den : Nat} (hn : 0 < num) (hd : 0 < den) :
    ratToF32Bits num den = none ↔ 0x7f800000 ≤ f32BitsNat num den := by
  rw [ratToF32Bits_eq_bitsNat hn hd]
  split <;> simp <;> omega

/-- the half-unit bound for the decoded result, unified over the sign of the exponent -/
theorem f32_nearest_core {num den : Nat} (hn : 0 < num) (hd : 0 < den) :
    2 * (num * 2 ^ (-(f32Exp (f32BitsNat num den))).toNat)
      ≤ 2 * (f32Mant (f32BitsNat num den) * (den * 2 ^ (f32Exp (f32BitsNat num den)).toNat))
        + den * 2 ^ (f32Exp (f32BitsNat num den)).toNat ∧
    2 * (f32Mant (f32BitsNat num den) * (den * 2 ^ (f32Exp (f32BitsNat num den)).toNat))
      ≤ 2 * (num * 2 ^ (-(f32Exp (f32BitsNat num den))).toNat)
        + den * 2 ^ (f32Exp (f32BitsNat num den)).toNat := by
  have hD : 0 < den * 2 ^ (f32U num den).toNat := Nat.mul_pos hd (two_pow_pos' _)
  have hb := divRoundEven_bound (num * 2 ^ (-(f32U num den)).toNat)
    (den * 2 ^ (f32U num den).toNat) hD
  rw [← f32Q_eq] at hb
  rcases f32_decode hn hd with ⟨_, hm, he⟩ | ⟨hq, hm, he⟩
  · rw [hm, he]; exact hb
  · rw [hm, he]
    rw [hq] at hb
    by_cases hu : 0 ≤ f32U num den
    · have e1 : (f32U num den + 1).toNat = (f32U num den).toNat + 1 := by omega
      have e2 : (-(f32U num den + 1)).toNat = 0 := by omega
      have e3 : (-(f32U num den)).toNat = 0 := by omega
      rw [e1, e2, mul_pow_succ den]
      rw [e3] at hb
      generalize den * 2 ^ (f32U num den).toNat = D at *
      generalize num * 2 ^ 0 = N at *
      omega
    · have e1 : (f32U num den + 1).toNat = 0 := by omega
      have e2 : (-(f32U num den)).toNat = (-(f32U num den + 1)).toNat + 1 := by omega
      have e3 : (f32U num den).toNat = 0 := by omega
      rw [e1]
      rw [e2, e3, mul_pow_succ num] at hb
      generalize den * 2 ^ 0 = D at *
      generalize num * 2 ^ (-(f32U num den + 1)).toNat = N at *
      omega

/-- exactly half a unit away implies an even significand -/
theorem f32_tie_core {num den : Nat} (hn : 0 < num) (hd : 0 < den)
    (h : 2 * (num * 2 ^ (-(f32Exp (f32BitsNat num den))).toNat)
        = 2 * (f32Mant (f32BitsNat num den) * (den * 2 ^ (f32Exp (f32BitsNat num den)).toNat))
          + den * 2 ^ (f32Exp (f32BitsNat num den)).toNat ∨
      2 * (f32Mant (f32BitsNat num den) * (den * 2 ^ (f32Exp (f32BitsNat num den)).toNat))
        = 2 * (num * 2 ^ (-(f32Exp (f32BitsNat num den))).toNat)
          + den * 2 ^ (f32Exp (f32BitsNat num den)).toNat) :
    f32Mant (f32BitsNat num den) % 2 = 0 := by
  have hD : 0 < den * 2 ^ (f32U num den).toNat := Nat.mul_pos hd (two_pow_pos' _)
  rcases f32_decode hn hd with ⟨_, hm, he⟩ | ⟨hq, hm, he⟩
  · rw [hm, he] at h
    rw [hm, f32Q_eq]
    rw [f32Q_eq] at h
    exact divRoundEven_tie _ _ hD h
  · rw [hm]

/-! ### overflow and underflow thresholds -/

theorem f32_overflow_iff {num den : Nat} (hn : 0 < num) (hd : 0 < den) :
    0x7f800000 ≤ f32BitsNat num den ↔ (2 ^ 25 - 1) * 2 ^ 104 * den ≤ 2 * num := by
  obtain ⟨s1, s2⟩ := f32_scaled_bounds hn hd
  obtain ⟨q1, q2⟩ := f32Q_bounds hn hd
  obtain ⟨u1, _, _⟩ := f32U_spec num den
  have hD : 0 < den * 2 ^ (f32U num den).toNat := Nat.mul_pos hd (two_pow_pos' _)
  have hb := divRoundEven_bound (num * 2 ^ (-(f32U num den)).toNat)
    (den * 2 ^ (f32U num den).toNat) hD
  have hq := f32Q_eq num den
  unfold f32BitsNat
  generalize f32Q num den = q at *
  generalize f32U num den = u at *
  constructor
  · intro h
    have hu : 104 ≤ u := by omega
    have hb0 : (-u).toNat = 0 := by omega
    rw [hb0, Nat.pow_zero, Nat.mul_one] at s2 hb hq
    by_cases h105 : 105 ≤ u
    · have hp : 2 ^ 105 ≤ 2 ^ u.toNat := Nat.pow_le_pow_right (by decide) (by omega)
      have := s2 (by omega)
      have h3 : den * 2 ^ 105 ≤ den * 2 ^ u.toNat := Nat.mul_le_mul_left den hp
      generalize den * 2 ^ u.toNat = D at *
      omega
    · have hu' : u.toNat = 104 := by omega
      have ht : (u + 149).toNat = 253 := by omega
      rw [ht] at h
      have hq24 : q = 2 ^ 24 := by omega
      rw [← hq, hq24, hu'] at hb
      omega
  · intro h
    apply Classical.byContradiction
    intro hlt
    by_cases hneg : u < 0
    · have ha0 : u.toNat = 0 := by omega
      rw [ha0, Nat.pow_zero, Nat.mul_one] at s1
      have : num ≤ num * 2 ^ (-u).toNat := Nat.le_mul_of_pos_right _ (two_pow_pos' _)
      omega
    · have hb0 : (-u).toNat = 0 := by omega
      rw [hb0, Nat.pow_zero, Nat.mul_one] at s1 hq
      by_cases h103 : u ≤ 103
      · have hp : 2 ^ u.toNat ≤ 2 ^ 103 := Nat.pow_le_pow_right (by decide) (by omega)
        have h3 : den * 2 ^ u.toNat ≤ den * 2 ^ 103 := Nat.mul_le_mul_left den hp
        generalize den * 2 ^ u.toNat = D at *
        omega
      · by_cases h104 : u = 104
        · subst h104
          have ha : (104 : Int).toNat = 104 := rfl
          have ht : ((104 : Int) + 149).toNat = 253 := rfl
          rw [ha] at hq
          rw [ht] at hlt
          have hD' : 0 < den * 2 ^ 104 := Nat.mul_pos hd (two_pow_pos' _)
          have hge : 2 ^ 24 ≤ divRoundEven num (den * 2 ^ 104) :=
            divRoundEven_ge_of_half hD' (by decide) (by omega)
          omega
        · have := q2 (by omega)
          omega

theorem f32_zero_iff {num den : Nat} (hn : 0 < num) (hd : 0 < den) :
    f32BitsNat num den = 0 ↔ 2 ^ 150 * num ≤ den := by
  obtain ⟨e1, e2⟩ := f32E_spec hn hd
  obtain ⟨u1, u2, u3⟩ := f32U_spec num den
  have hD : 0 < den * 2 ^ (f32U num den).toNat := Nat.mul_pos hd (two_pow_pos' _)
  have hb := divRoundEven_bound (num * 2 ^ (-(f32U num den)).toNat)
    (den * 2 ^ (f32U num den).toNat) hD
  have hq := f32Q_eq num den
  unfold f32BitsNat
  constructor
  · intro h
    have hu : f32U num den = -149 := by omega
    have hq0 : f32Q num den = 0 := by omega
    rw [← hq, hq0, hu] at hb
    have ha : (-149 : Int).toNat = 0 := rfl
    have hb' : (-(-149 : Int)).toNat = 149 := rfl
    rw [ha, hb'] at hb
    omega
  · intro h
    have hng : ¬ geI num den (-149) := by
      have hk : ((0 : Nat) : Int) - ((149 : Nat) : Int) = -149 := by omega
      rw [geI_iff hk]
      omega
    have he : f32E num den ≤ -150 :=
      f32E_unique (e' := -150) e1 (by rw [show (-150 : Int) + 1 = -149 from rfl]; exact hng)
    have hu : f32U num den = -149 := by omega
    rw [hq, hu]
    have ha : (-149 : Int).toNat = 0 := rfl
    have hb' : (-(-149 : Int)).toNat = 149 := rfl
    have ht : ((-149 : Int) + 149).toNat = 0 := rfl
    rw [ha, hb', ht, divRoundEven_eq_zero (by omega)]

/-! ### monotonicity -/

theorem f32E_mono {num num' den : Nat} (hn : 0 < num) (hd : 0 < den) (h : num ≤ num') :
    f32E num den ≤ f32E num' den :=
  f32E_unique (geI_mono_num h (f32E_spec hn hd).1) (f32E_spec (by omega) hd).2

theorem f32U_mono {num num' den : Nat} (hn : 0 < num) (hd : 0 < den) (h : num ≤ num') :
    f32U num den ≤ f32U num' den := by
  have := f32E_mono hn hd h
  unfold f32U
  split <;> split <;> omega

theorem f32BitsNat_mono {num num' den : Nat} (hn : 0 < num) (hd : 0 < den) (h : num ≤ num') :
    f32BitsNat num den ≤ f32BitsNat num' den := by
  have hn' : 0 < num' := by omega
  have hu := f32U_mono hn hd h
  obtain ⟨q1, _⟩ := f32Q_bounds hn hd
  obtain ⟨_, q2'⟩ := f32Q_bounds hn' hd
  obtain ⟨u1, _, _⟩ := f32U_spec num den
  unfold f32BitsNat
  by_cases heq : f32U num den = f32U num' den
  · have hq : f32Q num den ≤ f32Q num' den := by
      rw [f32Q_eq, f32Q_eq, ← heq]
      exact divRoundEven_mono _ (Nat.mul_le_mul_right _ h)
    rw [← heq]
    omega
  · have := q2' (by omega)
    have ht : (f32U num den + 149).toNat + 1 ≤ (f32U num' den + 149).toNat := by omega
    generalize (f32U num den + 149).toNat = t at *
    generalize (f32U num' den + 149).toNat = t' at *
    omega

/-! ### decimal magnitude -/

theorem decDigits_bounds {m : Nat} (hm : 0 < m) :
    10 ^ (decDigitCount m - 1) ≤ m ∧ m < 10 ^ decDigitCount m := by
  unfold decDigitCount
  have hpos : 0 < (Nat.toDigits 10 m).length := Nat.length_toDigits_pos
  constructor
  · by_cases h1 : (Nat.toDigits 10 m).length - 1 = 0
    · rw [h1]; exact hm
    · apply Classical.byContradiction
      intro hlt
      have := (Nat.length_toDigits_le_iff (b := 10) (n := m) (by decide) (by omega)).2
        (Nat.lt_of_not_le hlt)
      omega
  · exact (Nat.length_toDigits_le_iff (b := 10) (n := m) (by decide) hpos).1 (Nat.le_refl _)

/-! ### all binary32 values on one scale: `f32Val b = value * 2^149` -/

/-- the unit in the last place of pattern `b`, times `2^149` -/
def f32Ulp (b : Nat) : Nat := 2 ^ (f32Exp b + 149).toNat

/-- the value of the non-negative pattern `b`, times `2^149` (a natural number) -/
def f32Val (b : Nat) : Nat := f32Mant b * f32Ulp b

theorem f32Val_succ (b : Nat) : f32Val (b + 1) = f32Val b + f32Ulp b := by
  unfold f32Val f32Ulp f32Mant f32Exp
  by_cases hF : b % 2 ^ 23 + 1 < 2 ^ 23
  · have e1 : (b + 1) / 2 ^ 23 = b / 2 ^ 23 := by omega
    have e2 : (b + 1) % 2 ^ 23 = b % 2 ^ 23 + 1 := by omega
    rw [e1, e2]
    by_cases hE : b / 2 ^ 23 = 0
    · simp only [if_pos hE]
      rw [Nat.succ_mul]
    · simp only [if_neg hE]
      rw [← Nat.add_assoc, Nat.succ_mul]
  · have e1 : (b + 1) / 2 ^ 23 = b / 2 ^ 23 + 1 := by omega
    have e2 : (b + 1) % 2 ^ 23 = 0 := by omega
    have e3 : b % 2 ^ 23 = 2 ^ 23 - 1 := by omega
    rw [e1, e2, e3, if_neg (by omega), if_neg (by omega)]
    by_cases hE : b / 2 ^ 23 = 0
    · rw [if_pos hE, if_pos hE, hE]
      decide
    · rw [if_neg hE, if_neg hE]
      obtain ⟨k, hk⟩ : ∃ k, b / 2 ^ 23 = k + 1 := ⟨b / 2 ^ 23 - 1, by omega⟩
      rw [hk]
      have x1 : ((((k + 1 + 1 : Nat) : Int) - 150) + 149).toNat = k + 1 := by omega
      have x2 : ((((k + 1 : Nat) : Int) - 150) + 149).toNat = k := by omega
      rw [x1, x2, @Nat.pow_succ 2 k]
      generalize 2 ^ k = P
      omega

theorem f32Ulp_pos (b : Nat) : 0 < f32Ulp b := two_pow_pos' _

theorem f32Val_lt {b b' : Nat} (h : b < b') : f32Val b + f32Ulp b ≤ f32Val b' := by
  induction b' with
  | zero => omega
  | succ n ih =>
    rw [f32Val_succ]
    by_cases hbn : b = n
    · subst hbn; exact Nat.le_refl _
    · have := ih (by omega)
      omega

theorem f32Val_mono {b b' : Nat} (h : b ≤ b') : f32Val b ≤ f32Val b' := by
  by_cases hb : b = b'
  · subst hb; exact Nat.le_refl _
  · have := f32Val_lt (b := b) (b' := b') (by omega)
    omega

theorem f32Val_sum {t q : Nat} (hq : q ≤ 2 ^ 24) (hsub : q < 2 ^ 23 → t = 0) :
    f32Val (t * 2 ^ 23 + q) = q * 2 ^ t ∧
    (q < 2 ^ 24 → f32Ulp (t * 2 ^ 23 + q) = 2 ^ t) ∧
    2 ^ t ≤ f32Ulp (t * 2 ^ 23 + q) := by
  unfold f32Val f32Ulp
  rcases f32_decode_sum hq hsub with ⟨h1, hm, he⟩ | ⟨h1, hm, he⟩
  · have x : ((t : Int) - 149 + 149).toNat = t := by omega
    rw [hm, he, x]
    exact ⟨rfl, fun _ => rfl, Nat.le_refl _⟩
  · have x : ((t : Int) - 149 + 1 + 149).toNat = t + 1 := by omega
    rw [hm, he, x, h1, @Nat.pow_succ 2 t]
    refine ⟨by generalize 2 ^ t = P; omega, fun h => by omega, by generalize 2 ^ t = P; omega⟩

/-- the value `num/den` on the common scale is `f32X num / den` -/
def f32X (num : Nat) : Nat := num * 2 ^ 149

/-- the half-unit bound on the common scale: `X = num * 2^149`, `T = den * 2^t`, `A = q * T` -/
theorem f32_scaled_core {num den : Nat} (hn : 0 < num) (hd : 0 < den) :
    let t := (f32U num den + 149).toNat
    let q := f32Q num den
    2 * f32X num ≤ 2 * (q * (den * 2 ^ t)) + den * 2 ^ t ∧
    2 * (q * (den * 2 ^ t)) ≤ 2 * f32X num + den * 2 ^ t ∧
    (1 ≤ t → 2 ^ 23 * (den * 2 ^ t) ≤ f32X num) ∧
    ((2 * f32X num = 2 * (q * (den * 2 ^ t)) + den * 2 ^ t ∨
      2 * (q * (den * 2 ^ t)) = 2 * f32X num + den * 2 ^ t) → q % 2 = 0) := by
  intro t q
  obtain ⟨u1, _, _⟩ := f32U_spec num den
  obtain ⟨_, s2⟩ := f32_scaled_bounds hn hd
  have hD : 0 < den * 2 ^ (f32U num den).toNat := Nat.mul_pos hd (two_pow_pos' _)
  have hb := divRoundEven_bound (num * 2 ^ (-(f32U num den)).toNat)
    (den * 2 ^ (f32U num den).toNat) hD
  have htie := divRoundEven_tie (num * 2 ^ (-(f32U num den)).toNat)
    (den * 2 ^ (f32U num den).toNat) hD
  rw [← f32Q_eq] at hb htie
  have hc : 0 < 2 ^ (149 - (-(f32U num den)).toNat) := two_pow_pos' _
  have hX : num * 2 ^ (-(f32U num den)).toNat * 2 ^ (149 - (-(f32U num den)).toNat)
      = num * 2 ^ 149 := by
    rw [Nat.mul_assoc, ← Nat.pow_add]
    congr 2
    omega
  have hT : den * 2 ^ (f32U num den).toNat * 2 ^ (149 - (-(f32U num den)).toNat)
      = den * 2 ^ t := by
    rw [Nat.mul_assoc, ← Nat.pow_add]
    congr 2
    show _ = (f32U num den + 149).toNat
    omega
  have hA : f32Q num den * (den * 2 ^ (f32U num den).toNat) * 2 ^ (149 - (-(f32U num den)).toNat)
      = q * (den * 2 ^ t) := by
    rw [Nat.mul_assoc, hT]
  unfold f32X
  show 2 * (num * 2 ^ 149) ≤ 2 * (q * (den * 2 ^ t)) + den * 2 ^ t ∧ _
  rw [← hA, ← hT, ← hX]
  generalize 2 ^ (149 - (-(f32U num den)).toNat) = c at *
  generalize num * 2 ^ (-(f32U num den)).toNat = N at *
  generalize den * 2 ^ (f32U num den).toNat = D at *
  have k1 : 2 * (N * c) = (2 * N) * c := by rw [Nat.mul_assoc]
  have k2 : 2 * (f32Q num den * D * c) + D * c = (2 * (f32Q num den * D) + D) * c := by
    rw [Nat.add_mul, Nat.mul_assoc 2]
  have k3 : 2 * (N * c) + D * c = (2 * N + D) * c := by
    rw [Nat.add_mul, Nat.mul_assoc 2]
  have k4 : 2 * (f32Q num den * D * c) = (2 * (f32Q num den * D)) * c := by rw [Nat.mul_assoc 2]
  refine ⟨?_, ?_, ?_, ?_⟩
  · rw [k1, k2]; exact Nat.mul_le_mul_right c hb.1
  · rw [k4, k3]; exact Nat.mul_le_mul_right c hb.2
  · intro ht
    have := s2 (by omega)
    rw [Nat.mul_comm (2 ^ 23), Nat.mul_right_comm]
    exact Nat.mul_le_mul_right c this
  · intro h
    apply htie
    rcases h with h | h
    · left
      rw [k1, k2] at h
      exact Nat.eq_of_mul_eq_mul_right hc h
    · right
      rw [k4, k3] at h
      exact Nat.eq_of_mul_eq_mul_right hc h

/-- nearest among all patterns, on the common scale; and a second pattern at the same distance
forces an even result -/
theorem f32_nearest_all_core {num den : Nat} (hn : 0 < num) (hd : 0 < den) (b' : Nat) :
    (((f32X num : Nat) : Int) - ((f32Val (f32BitsNat num den) * den : Nat) : Int)).natAbs
      ≤ (((f32X num : Nat) : Int) - ((f32Val b' * den : Nat) : Int)).natAbs ∧
    ((((f32X num : Nat) : Int) - ((f32Val (f32BitsNat num den) * den : Nat) : Int)).natAbs
      = (((f32X num : Nat) : Int) - ((f32Val b' * den : Nat) : Int)).natAbs →
      b' ≠ f32BitsNat num den → f32BitsNat num den % 2 = 0) := by
  obtain ⟨c1, c2, c3, c4⟩ := f32_scaled_core hn hd
  obtain ⟨q1, q2⟩ := f32Q_bounds hn hd
  obtain ⟨u1, _, _⟩ := f32U_spec num den
  have hsub : f32Q num den < 2 ^ 23 → (f32U num den + 149).toNat = 0 := by
    intro hq
    apply Classical.byContradiction
    intro hne
    have := q2 (by omega)
    omega
  have q2' : 1 ≤ (f32U num den + 149).toNat → 2 ^ 23 ≤ f32Q num den := fun h => q2 (by omega)
  unfold f32BitsNat
  generalize (f32U num den + 149).toNat = t at *
  generalize f32Q num den = q at *
  generalize f32X num = X at *
  obtain ⟨v1, v2, v3⟩ := f32Val_sum q1 hsub
  have hpar : (t * 2 ^ 23 + q) % 2 = q % 2 := by omega
  rw [hpar, v1]
  have hA : q * 2 ^ t * den = q * (den * 2 ^ t) := by
    rw [Nat.mul_assoc, Nat.mul_comm (2 ^ t)]
  rw [hA]
  have hTpos : 0 < den * 2 ^ t := Nat.mul_pos hd (two_pow_pos' _)
  rcases Nat.lt_trichotomy b' (t * 2 ^ 23 + q) with hlt | heq | hgt
  · -- a smaller pattern
    by_cases hex : q = 2 ^ 23 ∧ 1 ≤ t
    · -- the result is a power of two reached from above: the value is not below it
      have hm := f32Val_mono (Nat.le_of_lt hlt)
      rw [v1] at hm
      have hm' := Nat.mul_le_mul_right den hm
      rw [hA] at hm'
      have := c3 hex.2
      rw [← hex.1] at this
      refine ⟨by omega, fun _ _ => by omega⟩
    · -- the pattern just below has the same unit
      have hq0 : 1 ≤ q := by omega
      have hB : t * 2 ^ 23 + q = (t * 2 ^ 23 + (q - 1)) + 1 := by omega
      obtain ⟨w1, w2, _⟩ := f32Val_sum (t := t) (q := q - 1) (by omega) (by omega)
      have hstep := f32Val_succ (t * 2 ^ 23 + (q - 1))
      rw [← hB, v1, w2 (by omega)] at hstep
      have hm := f32Val_mono (b := b') (b' := t * 2 ^ 23 + (q - 1)) (by omega)
      have hm' : f32Val b' * den + den * 2 ^ t ≤ q * (den * 2 ^ t) := by
        rw [← hA, hstep, Nat.add_mul, Nat.mul_comm (2 ^ t) den]
        exact Nat.add_le_add_right (Nat.mul_le_mul_right den hm) _
      generalize f32Val b' * den = A' at *
      generalize q * (den * 2 ^ t) = A at *
      generalize den * 2 ^ t = T at *
      refine ⟨by omega, fun he _ => c4 (by omega)⟩
  · subst heq
    rw [v1, hA]
    exact ⟨Nat.le_refl _, fun _ h => absurd rfl h⟩
  · -- a larger pattern
    have hm := f32Val_lt hgt
    rw [v1] at hm
    have hm' : q * (den * 2 ^ t) + den * 2 ^ t ≤ f32Val b' * den := by
      have := Nat.mul_le_mul_right den (Nat.le_trans (Nat.add_le_add_left v3 _) hm)
      rw [Nat.add_mul, hA, Nat.mul_comm (2 ^ t) den] at this
      exact this
    generalize f32Val b' * den = A' at *
    generalize q * (den * 2 ^ t) = A at *
    generalize den * 2 ^ t = T at *
    refine ⟨by omega, fun he _ => c4 (by omega)⟩

/-! ### the result depends only on the rational `num/den` -/

theorem divRoundEven_scale (N D : Nat) {k : Nat} (hk : 0 < k) :
    divRoundEven (N * k) (D * k) = divRoundEven N D := by
  have hdiv : N * k / (D * k) = N / D := Nat.mul_div_mul_right N D hk
  have hmod : N * k % (D * k) = N % D * k := Nat.mul_mod_mul_right k N D
  have h1 : D * k < 2 * (N % D) * k ↔ D < 2 * (N % D) := Nat.mul_lt_mul_right hk
  have h2 : 2 * (N % D) * k < D * k ↔ 2 * (N % D) < D := Nat.mul_lt_mul_right hk
  have h3 : 2 * (N % D * k) = 2 * (N % D) * k := by rw [Nat.mul_assoc]
  rcases divRoundEven_cases (N * k) (D * k) with ⟨hq, hc⟩ | ⟨hq, hc⟩ <;>
  rcases divRoundEven_cases N D with ⟨hq', hc'⟩ | ⟨hq', hc'⟩ <;>
  rw [hq, hq', hdiv] <;> rw [hdiv, hmod, h3] at hc <;>
  generalize 2 * (N % D) * k = a at * <;> generalize D * k = b at * <;> omega

theorem geI_scale (num den : Nat) {k : Nat} (hk : 0 < k) (e : Int) :
    geI (num * k) (den * k) e ↔ geI num den e := by
  unfold geI
  rw [Nat.mul_right_comm den, Nat.mul_right_comm num]
  exact Nat.mul_le_mul_right_iff hk

theorem f32E_scale {num den k : Nat} (hn : 0 < num) (hd : 0 < den) (hk : 0 < k) :
    f32E (num * k) (den * k) = f32E num den := by
  obtain ⟨a1, a2⟩ := f32E_spec (Nat.mul_pos hn hk) (Nat.mul_pos hd hk)
  obtain ⟨b1, b2⟩ := f32E_spec hn hd
  rw [geI_scale _ _ hk] at a1 a2
  have := f32E_unique a1 b2
  have := f32E_unique b1 a2
  omega

theorem f32U_scale {num den k : Nat} (hn : 0 < num) (hd : 0 < den) (hk : 0 < k) :
    f32U (num * k) (den * k) = f32U num den := by
  unfold f32U
  rw [f32E_scale hn hd hk]

theorem f32Q_scale {num den k : Nat} (hn : 0 < num) (hd : 0 < den) (hk : 0 < k) :
    f32Q (num * k) (den * k) = f32Q num den := by
  rw [f32Q_eq, f32Q_eq, f32U_scale hn hd hk, Nat.mul_right_comm num, Nat.mul_right_comm den,
    divRoundEven_scale _ _ hk]

theorem f32BitsNat_scale {num den k : Nat} (hn : 0 < num) (hd : 0 < den) (hk : 0 < k) :
    f32BitsNat (num * k) (den * k) = f32BitsNat num den := by
  unfold f32BitsNat
  rw [f32U_scale hn hd hk, f32Q_scale hn hd hk]

end Verif
