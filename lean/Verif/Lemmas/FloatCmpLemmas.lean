/-
Order laws of the bit-level IEEE comparisons of `Verif/Model/FloatCmp.lean`, for ALL bit patterns.
The laws are proved once, generically in the field widths, and instantiated for binary64
(`f64…`), binary32 (`f32…`) and the float types (`fLt`, `fLt32`, …).
-/
import Verif.Model.FloatCmp

namespace Verif

/-! ## generic laws -/

section generic
variable (e f : Nat)

theorem fpLe_iff_lt_or_eq (a b : Nat) : fpLe e f a b = (fpLt e f a b || fpEq e f a b) := by
  unfold fpLe fpLt fpEq
  cases fpIsNaN e f a <;> cases fpIsNaN e f b <;> simp
  rw [Bool.eq_iff_iff]; simp; omega

theorem fpLt_asymm (a b : Nat) (h : fpLt e f a b = true) : fpLt e f b a = false := by
  unfold fpLt at *
  cases fpIsNaN e f a <;> cases fpIsNaN e f b <;> simp at h ⊢
  omega

theorem fpLt_irrefl (a : Nat) : fpLt e f a a = false := by
  unfold fpLt; cases fpIsNaN e f a <;> simp

theorem fpEq_comm (a b : Nat) : fpEq e f a b = fpEq e f b a := by
  unfold fpEq
  cases fpIsNaN e f a <;> cases fpIsNaN e f b <;> simp
  exact eq_comm

theorem fpNaN_left (a b : Nat) (h : fpIsNaN e f a = true) :
    fpLt e f a b = false ∧ fpLt e f b a = false ∧ fpEq e f a b = false ∧ fpEq e f b a = false ∧
    fpLe e f a b = false ∧ fpLe e f b a = false := by
  simp [fpLt, fpEq, fpLe, h]

theorem fpTrichotomy (a b : Nat) (ha : fpIsNaN e f a = false) (hb : fpIsNaN e f b = false) :
    (fpLt e f a b = true ∧ fpEq e f a b = false ∧ fpLt e f b a = false) ∨
    (fpLt e f a b = false ∧ fpEq e f a b = true ∧ fpLt e f b a = false) ∨
    (fpLt e f a b = false ∧ fpEq e f a b = false ∧ fpLt e f b a = true) := by
  simp only [fpLt, fpEq, ha, hb, Bool.not_false, Bool.true_and, decide_eq_true_eq, decide_eq_false_iff_not]
  omega

theorem fpLt_trans (a b c : Nat) (h1 : fpLt e f a b = true) (h2 : fpLt e f b c = true) :
    fpLt e f a c = true := by
  simp only [fpLt, Bool.and_eq_true, Bool.not_eq_true', decide_eq_true_eq] at *
  refine ⟨⟨h1.1.1, h2.1.2⟩, ?_⟩
  omega

theorem fpLe_trans (a b c : Nat) (h1 : fpLe e f a b = true) (h2 : fpLe e f b c = true) :
    fpLe e f a c = true := by
  simp only [fpLe, Bool.and_eq_true, Bool.not_eq_true', decide_eq_true_eq] at *
  refine ⟨⟨h1.1.1, h2.1.2⟩, ?_⟩
  omega

theorem fpLt_of_lt_of_le (a b c : Nat) (h1 : fpLt e f a b = true) (h2 : fpLe e f b c = true) :
    fpLt e f a c = true := by
  simp only [fpLt, fpLe, Bool.and_eq_true, Bool.not_eq_true', decide_eq_true_eq] at *
  refine ⟨⟨h1.1.1, h2.1.2⟩, ?_⟩
  omega

theorem fpLt_of_le_of_lt (a b c : Nat) (h1 : fpLe e f a b = true) (h2 : fpLt e f b c = true) :
    fpLt e f a c = true := by
  simp only [fpLt, fpLe, Bool.and_eq_true, Bool.not_eq_true', decide_eq_true_eq] at *
  refine ⟨⟨h1.1.1, h2.1.2⟩, ?_⟩
  omega

theorem fpEq_trans (a b c : Nat) (h1 : fpEq e f a b = true) (h2 : fpEq e f b c = true) :
    fpEq e f a c = true := by
  simp only [fpEq, Bool.and_eq_true, Bool.not_eq_true', decide_eq_true_eq] at *
  refine ⟨⟨h1.1.1, h2.1.2⟩, ?_⟩
  omega

theorem fpEq_self (a : Nat) : fpEq e f a a = !fpIsNaN e f a := by
  unfold fpEq; cases fpIsNaN e f a <;> simp

theorem fpLe_self (a : Nat) : fpLe e f a a = !fpIsNaN e f a := by
  unfold fpLe; cases fpIsNaN e f a <;> simp

/-- totality on the non-NaN patterns: `a <= b` is `not (b < a)` -/
theorem fpLe_eq_not_lt (a b : Nat) (ha : fpIsNaN e f a = false) (hb : fpIsNaN e f b = false) :
    fpLe e f a b = !fpLt e f b a := by
  simp only [fpLe, fpLt, ha, hb, Bool.not_false, Bool.true_and]
  rw [Bool.eq_iff_iff]; simp

/-- `a <= b` and `b <= a` is `a == b` (for all patterns, NaN included) -/
theorem fpLe_antisymm_iff (a b : Nat) : (fpLe e f a b && fpLe e f b a) = fpEq e f a b := by
  unfold fpLe fpEq
  cases fpIsNaN e f a <;> cases fpIsNaN e f b <;> simp
  rw [Bool.eq_iff_iff]; simp; omega

/-- IEEE equality is equality of keys of two non-NaN patterns -/
theorem fpEq_iff (a b : Nat) :
    fpEq e f a b = true ↔ fpIsNaN e f a = false ∧ fpIsNaN e f b = false ∧ fpKey e f a = fpKey e f b := by
  simp [fpEq, and_assoc]

theorem fpLt_iff (a b : Nat) :
    fpLt e f a b = true ↔ fpIsNaN e f a = false ∧ fpIsNaN e f b = false ∧ fpKey e f a < fpKey e f b := by
  simp [fpLt, and_assoc]

theorem fpLe_iff (a b : Nat) :
    fpLe e f a b = true ↔ fpIsNaN e f a = false ∧ fpIsNaN e f b = false ∧ fpKey e f a ≤ fpKey e f b := by
  simp [fpLe, and_assoc]

end generic

/-! ## binary64 -/

theorem f64Le_iff_lt_or_eq (a b : UInt64) : f64Le a b = (f64Lt a b || f64Eq a b) :=
  fpLe_iff_lt_or_eq ..

theorem f64Lt_asymm (a b : UInt64) (h : f64Lt a b = true) : f64Lt b a = false := fpLt_asymm _ _ _ _ h

theorem f64Lt_irrefl (a : UInt64) : f64Lt a a = false := fpLt_irrefl ..

theorem f64Eq_comm (a b : UInt64) : f64Eq a b = f64Eq b a := fpEq_comm ..

/-- NaN is unordered -/
theorem f64NaN_unordered (a b : UInt64) (h : f64IsNaN a = true) :
    f64Lt a b = false ∧ f64Lt b a = false ∧ f64Eq a b = false ∧ f64Eq b a = false ∧
    f64Le a b = false ∧ f64Le b a = false := fpNaN_left _ _ _ _ h

/-- exactly one of `a < b`, `a == b`, `b < a` on non-NaN patterns -/
theorem f64_trichotomy (a b : UInt64) (ha : f64IsNaN a = false) (hb : f64IsNaN b = false) :
    (f64Lt a b = true ∧ f64Eq a b = false ∧ f64Lt b a = false) ∨
    (f64Lt a b = false ∧ f64Eq a b = true ∧ f64Lt b a = false) ∨
    (f64Lt a b = false ∧ f64Eq a b = false ∧ f64Lt b a = true) := fpTrichotomy _ _ _ _ ha hb

theorem f64Lt_trans (a b c : UInt64) (h1 : f64Lt a b = true) (h2 : f64Lt b c = true) :
    f64Lt a c = true := fpLt_trans _ _ _ _ _ h1 h2

theorem f64Le_trans (a b c : UInt64) (h1 : f64Le a b = true) (h2 : f64Le b c = true) :
    f64Le a c = true := fpLe_trans _ _ _ _ _ h1 h2

theorem f64Lt_of_lt_of_le (a b c : UInt64) (h1 : f64Lt a b = true) (h2 : f64Le b c = true) :
    f64Lt a c = true := fpLt_of_lt_of_le _ _ _ _ _ h1 h2

theorem f64Lt_of_le_of_lt (a b c : UInt64) (h1 : f64Le a b = true) (h2 : f64Lt b c = true) :
    f64Lt a c = true := fpLt_of_le_of_lt _ _ _ _ _ h1 h2

theorem f64Eq_trans (a b c : UInt64) (h1 : f64Eq a b = true) (h2 : f64Eq b c = true) :
    f64Eq a c = true := fpEq_trans _ _ _ _ _ h1 h2

theorem f64Eq_self (a : UInt64) : f64Eq a a = !f64IsNaN a := fpEq_self ..

theorem f64Le_self (a : UInt64) : f64Le a a = !f64IsNaN a := fpLe_self ..

theorem f64Le_eq_not_lt (a b : UInt64) (ha : f64IsNaN a = false) (hb : f64IsNaN b = false) :
    f64Le a b = !f64Lt b a := fpLe_eq_not_lt _ _ _ _ ha hb

theorem f64Le_antisymm_iff (a b : UInt64) : (f64Le a b && f64Le b a) = f64Eq a b :=
  fpLe_antisymm_iff ..

theorem f64Eq_iff (a b : UInt64) :
    f64Eq a b = true ↔ f64IsNaN a = false ∧ f64IsNaN b = false ∧ f64Key a = f64Key b := fpEq_iff ..

theorem f64Lt_iff (a b : UInt64) :
    f64Lt a b = true ↔ f64IsNaN a = false ∧ f64IsNaN b = false ∧ f64Key a < f64Key b := fpLt_iff ..

theorem f64Le_iff (a b : UInt64) :
    f64Le a b = true ↔ f64IsNaN a = false ∧ f64IsNaN b = false ∧ f64Key a ≤ f64Key b := fpLe_iff ..

/-- `+0` (pattern 0) and `-0` (only the sign bit) are equal, and neither is below the other -/
theorem f64_zeros_equal :
    f64Eq 0x8000000000000000 0 = true ∧ f64Eq 0 0x8000000000000000 = true ∧
    f64Lt 0x8000000000000000 0 = false ∧ f64Lt 0 0x8000000000000000 = false ∧
    f64Le 0x8000000000000000 0 = true ∧ f64Le 0 0x8000000000000000 = true := by decide

/-- NaN ⇔ the magnitude lies beyond the pattern of infinity -/
theorem f64IsNaN_iff (a : UInt64) :
    f64IsNaN a = true ↔ a.toNat % 2 ^ 63 > 0x7ff0000000000000 := by
  simp only [f64IsNaN, fpIsNaN, fpExp, fpFrac, Bool.and_eq_true, beq_iff_eq, bne_iff_ne, ne_eq,
    Nat.reducePow, Nat.reduceSub]
  omega

/-- every non-NaN value lies between `-∞` and `+∞` -/
theorem f64_infinities_bound (a : UInt64) (h : f64IsNaN a = false) :
    f64Le 0xfff0000000000000 a = true ∧ f64Le a 0x7ff0000000000000 = true := by
  have hn : ¬ (a.toNat % 2 ^ 63 > 0x7ff0000000000000) := by
    rw [← f64IsNaN_iff, h]; simp
  have h1 : f64IsNaN 0xfff0000000000000 = false := by decide
  have h2 : f64IsNaN 0x7ff0000000000000 = false := by decide
  have k1 : f64Key 0xfff0000000000000 = -0x7ff0000000000000 := by decide
  have k2 : f64Key 0x7ff0000000000000 = 0x7ff0000000000000 := by decide
  rw [f64Le_iff, f64Le_iff, k1, k2]
  refine ⟨⟨h1, h, ?_⟩, ⟨h, h2, ?_⟩⟩
  all_goals
    simp only [f64Key, fpKey, fpMag, Nat.reduceAdd]
    split <;> omega

/-- … strictly, for the finite ones (exponent field not all ones) -/
theorem f64_finite_between_infinities (a : UInt64) (h : fpExp 11 52 a.toNat ≠ 2047) :
    f64Lt 0xfff0000000000000 a = true ∧ f64Lt a 0x7ff0000000000000 = true := by
  have hnan : f64IsNaN a = false := by
    simp only [f64IsNaN, fpIsNaN, Nat.reducePow, Nat.reduceSub, Bool.and_eq_false_imp, beq_iff_eq]
    intro h'; exact absurd h' h
  have h1 : f64IsNaN 0xfff0000000000000 = false := by decide
  have h2 : f64IsNaN 0x7ff0000000000000 = false := by decide
  have k1 : f64Key 0xfff0000000000000 = -0x7ff0000000000000 := by decide
  have k2 : f64Key 0x7ff0000000000000 = 0x7ff0000000000000 := by decide
  rw [f64Lt_iff, f64Lt_iff, k1, k2]
  refine ⟨⟨h1, hnan, ?_⟩, ⟨hnan, h2, ?_⟩⟩
  all_goals
    simp only [fpExp, Nat.reducePow] at h
    simp only [f64Key, fpKey, fpMag, Nat.reduceAdd, Nat.reducePow]
    split <;> omega

/-! ## binary32 -/

theorem f32Le_iff_lt_or_eq (a b : UInt32) : f32Le a b = (f32Lt a b || f32Eq a b) :=
  fpLe_iff_lt_or_eq ..

theorem f32Lt_asymm (a b : UInt32) (h : f32Lt a b = true) : f32Lt b a = false := fpLt_asymm _ _ _ _ h

theorem f32Lt_irrefl (a : UInt32) : f32Lt a a = false := fpLt_irrefl ..

theorem f32Eq_comm (a b : UInt32) : f32Eq a b = f32Eq b a := fpEq_comm ..

/-- NaN is unordered -/
theorem f32NaN_unordered (a b : UInt32) (h : f32IsNaN a = true) :
    f32Lt a b = false ∧ f32Lt b a = false ∧ f32Eq a b = false ∧ f32Eq b a = false ∧
    f32Le a b = false ∧ f32Le b a = false := fpNaN_left _ _ _ _ h

theorem f32_trichotomy (a b : UInt32) (ha : f32IsNaN a = false) (hb : f32IsNaN b = false) :
    (f32Lt a b = true ∧ f32Eq a b = false ∧ f32Lt b a = false) ∨
    (f32Lt a b = false ∧ f32Eq a b = true ∧ f32Lt b a = false) ∨
    (f32Lt a b = false ∧ f32Eq a b = false ∧ f32Lt b a = true) := fpTrichotomy _ _ _ _ ha hb

theorem f32Lt_trans (a b c : UInt32) (h1 : f32Lt a b = true) (h2 : f32Lt b c = true) :
    f32Lt a c = true := fpLt_trans _ _ _ _ _ h1 h2

theorem f32Le_trans (a b c : UInt32) (h1 : f32Le a b = true) (h2 : f32Le b c = true) :
    f32Le a c = true := fpLe_trans _ _ _ _ _ h1 h2

theorem f32Lt_of_lt_of_le (a b c : UInt32) (h1 : f32Lt a b = true) (h2 : f32Le b c = true) :
    f32Lt a c = true := fpLt_of_lt_of_le _ _ _ _ _ h1 h2

theorem f32Lt_of_le_of_lt (a b c : UInt32) (h1 : f32Le a b = true) (h2 : f32Lt b c = true) :
    f32Lt a c = true := fpLt_of_le_of_lt _ _ _ _ _ h1 h2

theorem f32Eq_trans (a b c : UInt32) (h1 : f32Eq a b = true) (h2 : f32Eq b c = true) :
    f32Eq a c = true := fpEq_trans _ _ _ _ _ h1 h2

theorem f32Eq_self (a : UInt32) : f32Eq a a = !f32IsNaN a := fpEq_self ..

theorem f32Le_self (a : UInt32) : f32Le a a = !f32IsNaN a := fpLe_self ..

theorem f32Le_eq_not_lt (a b : UInt32) (ha : f32IsNaN a = false) (hb : f32IsNaN b = false) :
    f32Le a b = !f32Lt b a := fpLe_eq_not_lt _ _ _ _ ha hb

theorem f32Le_antisymm_iff (a b : UInt32) : (f32Le a b && f32Le b a) = f32Eq a b :=
  fpLe_antisymm_iff ..

theorem f32Eq_iff (a b : UInt32) :
    f32Eq a b = true ↔ f32IsNaN a = false ∧ f32IsNaN b = false ∧ f32Key a = f32Key b := fpEq_iff ..

theorem f32Lt_iff (a b : UInt32) :
    f32Lt a b = true ↔ f32IsNaN a = false ∧ f32IsNaN b = false ∧ f32Key a < f32Key b := fpLt_iff ..

theorem f32Le_iff (a b : UInt32) :
    f32Le a b = true ↔ f32IsNaN a = false ∧ f32IsNaN b = false ∧ f32Key a ≤ f32Key b := fpLe_iff ..

theorem f32_zeros_equal :
    f32Eq 0x80000000 0 = true ∧ f32Eq 0 0x80000000 = true ∧
    f32Lt 0x80000000 0 = false ∧ f32Lt 0 0x80000000 = false ∧
    f32Le 0x80000000 0 = true ∧ f32Le 0 0x80000000 = true := by decide

theorem f32IsNaN_iff (a : UInt32) :
    f32IsNaN a = true ↔ a.toNat % 2 ^ 31 > 0x7f800000 := by
  simp only [f32IsNaN, fpIsNaN, fpExp, fpFrac, Bool.and_eq_true, beq_iff_eq, bne_iff_ne, ne_eq,
    Nat.reducePow, Nat.reduceSub]
  omega

theorem f32_infinities_bound (a : UInt32) (h : f32IsNaN a = false) :
    f32Le 0xff800000 a = true ∧ f32Le a 0x7f800000 = true := by
  have hn : ¬ (a.toNat % 2 ^ 31 > 0x7f800000) := by
    rw [← f32IsNaN_iff, h]; simp
  have h1 : f32IsNaN 0xff800000 = false := by decide
  have h2 : f32IsNaN 0x7f800000 = false := by decide
  have k1 : f32Key 0xff800000 = -0x7f800000 := by decide
  have k2 : f32Key 0x7f800000 = 0x7f800000 := by decide
  rw [f32Le_iff, f32Le_iff, k1, k2]
  refine ⟨⟨h1, h, ?_⟩, ⟨h, h2, ?_⟩⟩
  all_goals
    simp only [f32Key, fpKey, fpMag, Nat.reduceAdd]
    split <;> omega

theorem f32_finite_between_infinities (a : UInt32) (h : fpExp 8 23 a.toNat ≠ 255) :
    f32Lt 0xff800000 a = true ∧ f32Lt a 0x7f800000 = true := by
  have hnan : f32IsNaN a = false := by
    simp only [f32IsNaN, fpIsNaN, Nat.reducePow, Nat.reduceSub, Bool.and_eq_false_imp, beq_iff_eq]
    intro h'; exact absurd h' h
  have h1 : f32IsNaN 0xff800000 = false := by decide
  have h2 : f32IsNaN 0x7f800000 = false := by decide
  have k1 : f32Key 0xff800000 = -0x7f800000 := by decide
  have k2 : f32Key 0x7f800000 = 0x7f800000 := by decide
  rw [f32Lt_iff, f32Lt_iff, k1, k2]
  refine ⟨⟨h1, hnan, ?_⟩, ⟨hnan, h2, ?_⟩⟩
  all_goals
    simp only [fpExp, Nat.reducePow] at h
    simp only [f32Key, fpKey, fpMag, Nat.reduceAdd, Nat.reducePow]
    split <;> omega

/-! ## on `Float` / `Float32` (through `toBits`) -/

theorem fLe_iff_lt_or_eq (x y : Float) : fLe x y = (fLt x y || fEq x y) := f64Le_iff_lt_or_eq ..
theorem fLt_asymm (x y : Float) (h : fLt x y = true) : fLt y x = false := f64Lt_asymm _ _ h
theorem fEq_comm (x y : Float) : fEq x y = fEq y x := f64Eq_comm ..
theorem fLt_trans (x y z : Float) (h1 : fLt x y = true) (h2 : fLt y z = true) : fLt x z = true :=
  f64Lt_trans _ _ _ h1 h2
theorem fEq_self (x : Float) : fEq x x = !fIsNaN x := f64Eq_self ..
theorem fNaN_unordered (x y : Float) (h : fIsNaN x = true) :
    fLt x y = false ∧ fLt y x = false ∧ fEq x y = false ∧ fEq y x = false ∧
    fLe x y = false ∧ fLe y x = false := f64NaN_unordered _ _ h
theorem f_trichotomy (x y : Float) (hx : fIsNaN x = false) (hy : fIsNaN y = false) :
    (fLt x y = true ∧ fEq x y = false ∧ fLt y x = false) ∨
    (fLt x y = false ∧ fEq x y = true ∧ fLt y x = false) ∨
    (fLt x y = false ∧ fEq x y = false ∧ fLt y x = true) := f64_trichotomy _ _ hx hy
theorem fLe_eq_not_lt (x y : Float) (hx : fIsNaN x = false) (hy : fIsNaN y = false) :
    fLe x y = !fLt y x := f64Le_eq_not_lt _ _ hx hy

theorem fLe32_iff_lt_or_eq (x y : Float32) : fLe32 x y = (fLt32 x y || fEq32 x y) :=
  f32Le_iff_lt_or_eq ..
theorem fLt32_asymm (x y : Float32) (h : fLt32 x y = true) : fLt32 y x = false := f32Lt_asymm _ _ h
theorem fEq32_comm (x y : Float32) : fEq32 x y = fEq32 y x := f32Eq_comm ..
theorem fLt32_trans (x y z : Float32) (h1 : fLt32 x y = true) (h2 : fLt32 y z = true) :
    fLt32 x z = true := f32Lt_trans _ _ _ h1 h2
theorem fEq32_self (x : Float32) : fEq32 x x = !fIsNaN32 x := f32Eq_self ..
theorem fNaN32_unordered (x y : Float32) (h : fIsNaN32 x = true) :
    fLt32 x y = false ∧ fLt32 y x = false ∧ fEq32 x y = false ∧ fEq32 y x = false ∧
    fLe32 x y = false ∧ fLe32 y x = false := f32NaN_unordered _ _ h
theorem f32f_trichotomy (x y : Float32) (hx : fIsNaN32 x = false) (hy : fIsNaN32 y = false) :
    (fLt32 x y = true ∧ fEq32 x y = false ∧ fLt32 y x = false) ∨
    (fLt32 x y = false ∧ fEq32 x y = true ∧ fLt32 y x = false) ∨
    (fLt32 x y = false ∧ fEq32 x y = false ∧ fLt32 y x = true) := f32_trichotomy _ _ hx hy
theorem fLe32_eq_not_lt (x y : Float32) (hx : fIsNaN32 x = false) (hy : fIsNaN32 y = false) :
    fLe32 x y = !fLt32 y x := f32Le_eq_not_lt _ _ hx hy

/-! ## concrete bit patterns (evaluated by the kernel) -/

-- binary64
example : f64Lt 0x3ff0000000000000 0x4000000000000000 = true := by decide    -- 1.0 < 2.0
example : f64Lt 0x4000000000000000 0x3ff0000000000000 = false := by decide
example : f64Eq 0x8000000000000000 0x0000000000000000 = true := by decide    -- -0 = +0
example : f64Lt 0x8000000000000000 0x0000000000000000 = false := by decide
example : f64Eq 0x7ff8000000000000 0x7ff8000000000000 = false := by decide   -- NaN ≠ NaN
example : f64Le 0x7ff8000000000000 0x7ff8000000000000 = false := by decide
example : f64IsNaN 0x7ff8000000000000 = true := by decide
example : f64IsNaN 0xfff0000000000001 = true := by decide                    -- a signalling NaN
example : f64IsNaN 0x7ff0000000000000 = false := by decide                   -- +∞ is not a NaN
example : f64Lt 0xbff0000000000000 0x0000000000000000 = true := by decide    -- -1 < +0
example : f64Lt 0xbff0000000000000 0x8000000000000000 = true := by decide    -- -1 < -0
example : f64Lt 0xfff0000000000000 0xffefffffffffffff = true := by decide    -- -∞ < -MaxFloat64
example : f64Lt 0xfff0000000000000 0x3ff0000000000000 = true := by decide    -- -∞ < 1.0
example : f64Lt 0x3ff0000000000000 0x7ff0000000000000 = true := by decide    -- 1.0 < +∞
example : f64Lt 0x7fefffffffffffff 0x7ff0000000000000 = true := by decide    -- MaxFloat64 < +∞
example : f64Lt 0x0000000000000000 0x0000000000000001 = true := by decide    -- 0 < smallest subnormal
example : f64Lt 0x8000000000000000 0x0000000000000001 = true := by decide    -- -0 < smallest subnormal
example : f64Lt 0x000fffffffffffff 0x0010000000000000 = true := by decide    -- subnormal < normal
example : f64Lt 0xc000000000000000 0xbff0000000000000 = true := by decide    -- -2 < -1
example : f64Le 0x3ff0000000000000 0x3ff0000000000000 = true := by decide

-- binary32
example : f32Lt 0x3f800000 0x40000000 = true := by decide                    -- 1.0 < 2.0
example : f32Eq 0x80000000 0x00000000 = true := by decide                    -- -0 = +0
example : f32Eq 0x7fc00000 0x7fc00000 = false := by decide                   -- NaN ≠ NaN
example : f32IsNaN 0x7fc00000 = true := by decide
example : f32IsNaN 0x7f800000 = false := by decide
example : f32Lt 0xbf800000 0x00000000 = true := by decide                    -- -1 < +0
example : f32Lt 0xff800000 0xff7fffff = true := by decide                    -- -∞ < -MaxFloat32
example : f32Lt 0xff800000 0x3f800000 = true := by decide                    -- -∞ < 1.0
example : f32Lt 0x3f800000 0x7f800000 = true := by decide                    -- 1.0 < +∞
example : f32Lt 0x7f7fffff 0x7f800000 = true := by decide                    -- MaxFloat32 < +∞
example : f32Lt 0x00000000 0x00000001 = true := by decide                    -- 0 < smallest subnormal
example : f32Lt 0xbf800000 0x3f800000 = true := by decide                    -- -1 < 1  (`more 1 -1`)

end Verif
