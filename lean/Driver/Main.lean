/-
vdrv — line-protocol driver for the executable model.  One op per input line, one answer line
per op.  Core Lean only (must link as a native executable).
-/
import Verif.Model.Scanner
import Verif.Model.CharMap

open Verif

namespace Drv

def parseNat? (s : String) : Option Nat := s.toNat?

/-- `-` = empty list, otherwise comma-separated decimals. -/
def parseRunes (s : String) : List Nat :=
  if s == "-" then [] else (s.splitOn ",").filterMap parseNat?

def showRunes (l : List Nat) : String :=
  if l.isEmpty then "-" else ",".intercalate (l.map toString)

def showOR : Option Nat → String
  | none => "-1"
  | some r => toString r

/-! ### scan -/

def scanObs (s : Scanner) : String :=
  s!"{s.line}/{s.col}/{showOR s.peek}/{s.peekLine}/{s.peekColumn}"

def scanOp (s : Scanner) (op : String) : Scanner × String :=
  if op == "r" then
    let r := s.read
    (r.2, s!"{showOR r.1}/{scanObs r.2}")
  else if op == "u" then
    let s' := s.unread
    (s', s!"_/{scanObs s'}")
  else if op.startsWith "m" then
    match (op.drop 1).toNat? with
    | some n => let s' := s.unreadMany n; (s', s!"_/{scanObs s'}")
    | none => (s, "bad-op")
  else if op == "p" || op == "l" || op == "c" then (s, s!"_/{scanObs s}")
  else if op == "x" then
    let s' := s.reset
    (s', s!"_/{scanObs s'}")
  else (s, "bad-op")

def doScan (args : List String) : String :=
  match args with
  | [] => "bad-op"
  | c :: ops =>
    let s0 := Scanner.new (parseRunes c)
    let (_, outs) := ops.foldl (fun (acc : Scanner × List String) op =>
      let (s', o) := scanOp acc.1 op
      (s', o :: acc.2)) (s0, [])
    " ".intercalate (scanObs s0 :: outs.reverse)

/-- spec side for scan: line/col of a fresh forward scan to each position 0..len+1 -/
def doScanSpec (args : List String) : String :=
  match args with
  | [c] =>
    let cs := parseRunes c
    " ".intercalate ((List.range (cs.length + 2)).map fun k =>
      let lc := lcUpTo cs k; s!"{lc.1}/{lc.2}")
  | _ => "bad-op"

/-! ### cmap: `cmap <op>* ? <probe>*`; op = a:lo:hi:ref | d:ref | c ; ref = n (nil) or a number -/

def parseRef (s : String) : Option Nat := if s == "n" then none else s.toNat?

def showRef : Option Nat → String
  | none => "n"
  | some r => toString r

def parseMapOp (s : String) : Option (MapOp Nat) :=
  match s.splitOn ":" with
  | ["a", lo, hi, r] =>
    match lo.toNat?, hi.toNat? with
    | some lo, some hi => some (.add lo hi (parseRef r))
    | _, _ => none
  | ["d", r] => some (.addDefault (parseRef r))
  | ["c"] => some .clear
  | _ => none

def doCmap (args : List String) : String :=
  let opsS := args.takeWhile (· != "?")
  let probesS := (args.dropWhile (· != "?")).drop 1
  let ops := opsS.filterMap parseMapOp
  if ops.length != opsS.length then "bad-op"
  else if ops.any (fun o => !o.ok) then "panic"
  else
    let m := MapOp.run (CharMap.empty : CharMap Nat) ops
    let model := probesS.map fun p =>
      match p.toInt? with
      | some i => if i < 0 then showRef (m.lookupO none) else showRef (m.lookup i.toNat)
      | none => "bad"
    let spec := probesS.map fun p =>
      match p.toInt? with
      | some i => if i < 0 then "n" else showRef (MapOp.spec ops i.toNat)
      | none => "bad"
    " ".intercalate model ++ " | " ++ " ".intercalate spec

def handle (line : String) : String :=
  match (line.trimAscii.toString.splitOn " ").filter (· != "") with
  | [] => ""
  | "scan" :: args => doScan args
  | "scanspec" :: args => doScanSpec args
  | "cmap" :: args => doCmap args
  | _ => "bad-op"

end Drv

partial def loop (hin : IO.FS.Stream) (hout : IO.FS.Stream) : IO Unit := do
  let line ← hin.getLine
  if line.isEmpty then return ()
  hout.putStrLn (Drv.handle line)
  loop hin hout

def main : IO Unit := do
  let hin ← IO.getStdin
  let hout ← IO.getStdout
  loop hin hout
  hout.flush
