/-
SPEC for the symbol state (C16): the set of registrations, which strings may be returned as a
token, with which type, and "the longest returnable prefix of the remaining input".

Everything here is a plain executable definition over lists; nothing refers to the scanner or
to how the trie is walked.  `Props/C16.lean` proves that the model of the Go symbol trie
(`SymTab.add` / `SymTab.nextToken`, Model/States.lean) computes exactly this.
-/
import Verif.Model.States

namespace Verif

/-- registrations `(symbol text, token type)`, oldest first -/
abbrev Regs := List (List Rune × Nat)

/-- a legal registration: non-empty text (Go panics on `""`) and a real token type -/
def regOk (r : List Rune × Nat) : Bool := !r.1.isEmpty && r.2 != TT.unknown

/-- the trie obtained by registering the symbols in order -/
def build (regs : Regs) : SymTab := regs.foldl (fun t r => t.add r.1 r.2) SymTab.empty

/-- `p` may be returned as a token: it was registered, or it is a single rune that starts a
registered symbol -/
def returnable (regs : Regs) (p : List Rune) : Bool :=
  regs.any (fun r => r.1 == p) || (p.length == 1 && regs.any (fun r => r.1.take 1 == p))

/-- type reported for `p`: that of its latest registration, `Symbol` for an implicit
first-rune node -/
def specType (regs : Regs) (p : List Rune) : Nat :=
  match regs.reverse.find? (fun r => r.1 == p) with
  | some r => r.2
  | none => TT.symbol

/-- the longest returnable non-empty prefix of the input, if any -/
def longest (regs : Regs) (input : List Rune) : Option (List Rune) :=
  ((List.range input.length).reverse.map (fun k => input.take (k+1))).find? (returnable regs)

/-! ### vocabulary for the trie invariant (`build_inv`) -/

/-- `p` was registered -/
def registered (regs : Regs) (p : List Rune) : Bool := regs.any (fun r => r.1 == p)

/-- `p` is a node of the trie: a non-empty prefix of some registered symbol -/
def isNode (regs : Regs) (p : List Rune) : Bool :=
  !p.isEmpty && regs.any (fun r => p.isPrefixOf r.1)

/-- the token type stored in node `p` -/
def nodeType (regs : Regs) (p : List Rune) : Nat :=
  if regs.any (fun r => r.1 == p) then specType regs p
  else if p.length == 1 then TT.symbol else TT.unknown

end Verif
