/-
`strings.ToUpper` / `strings.ToLower` rune by rune, from the table regenerated out of Go's
unicode package on every run (Verif/Gen/CaseMap.lean, Tie A).
-/
import Verif.Gen.CaseMap
import Verif.Model.Scanner

namespace Verif

/-- binary search in a table sorted by key -/
def tableLookup (t : Array (Nat × Nat)) (c : Nat) : Nat → Nat → Nat → Nat
  | 0, _, _ => c
  | fuel+1, lo, hi =>
    if lo ≥ hi then c
    else
      let mid := (lo + hi) / 2
      let e := t[mid]!
      if e.1 == c then e.2
      else if e.1 < c then tableLookup t c fuel (mid + 1) hi
      else tableLookup t c fuel lo mid

def upperFull (c : Rune) : Rune := tableLookup Gen.upperTable c 16 0 Gen.upperTable.size
def lowerFull (c : Rune) : Rune := tableLookup Gen.lowerTable c 16 0 Gen.lowerTable.size

def upperFullStr (s : List Rune) : List Rune := s.map upperFull
def lowerFullStr (s : List Rune) : List Rune := s.map lowerFull

end Verif
